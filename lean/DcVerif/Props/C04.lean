import DcVerif.Lemmas.Ring
import DcVerif.Lemmas.RingMulti
import DcVerif.Lemmas.RingPay
import DcVerif.Lemmas.RingMultiSafe
import DcVerif.Lemmas.RingMultiPay
import DcVerif.Lemmas.RingMultiDeliver
import DcVerif.Props.C06
/-!
# C04 — every published event is delivered exactly once, in order (single-producer pipelines)

Model: `Model/Ring.lean` (every facade operation of the real code is one step; both wait strategies). All theorems
quantify over every ring size, every stage/handler topology, every batch list and **every schedule** (`Reachable`).

Full statement of the property: *every handler is invoked for every published sequence number exactly once, in
strictly increasing order without gaps, and never for a sequence that is not yet published.* For the single producer the
code violates the first part for exactly one sequence number (known finding F5): the sequencer numbers from 0 while
consumers start at `cursor + 1 = 1`, so sequence 0 is written but never delivered. What is proved:

* `c04_log_is_prefix`      — at every moment each handler has been handed exactly `1, 2, …, m` (once each, in order, no
                              gaps) for some `m ≤ cursor`;
* `c04_handle_only_published` — a handler call for `i` happens only when `i ≤ cursor`, and `i` has been written;
* `c04_delivered_after_drain` — once `drain` has returned and a handler thread has terminated it has been handed exactly
                              `1 … cursor`;
* `c04_single_partial`     — …which is every written sequence except 0: `written = 0 :: log` (or nothing was written);
* `c04_single_first_event_never_delivered` — the negation of the full statement (F5): sequence 0 is in no log, ever,
                              although it is written as soon as any batch is.

* `c04_payload_intact`    — payload integrity on the slot layer `Model/RingPay.lean` (ring of `n` slots indexed by
                              sequence mod n, mutable handlers storing their transformation back): whatever a handler of
                              stage `k` is handed for sequence `i` is the value written for `i`, transformed by the mutable
                              handlers of the stages below `k`, in stage order — and nothing else, although slots are reused
                              every `n` sequences. Hypothesis: a stage with a mutable handler has no other handler (F9).
* `c04_multi_payload_intact` — the same for pipelines fed by the **multi-producer** sequencer (slot layer
                              `Model/RingMultiPay.lean`; ring sizes `2^e`, any number of writer threads, every schedule):
                              what a handler of stage `k` is handed for sequence `q` is the value of the one and only slot
                              write of `q`, made by its claimant, transformed by the mutable handlers of the stages below `k`;
                              with `c04_multi_written_once`, `c04_multi_written_value_is_next_item`, `c04_multi_seen_is_log`,
                              `c04_multi_payload_layer_is_ghost`.
* `c04_multi_delivered_after_drain` — multi producer, any number of writers, every schedule: once `drain` has returned a
                              terminated handler has been handed exactly `1 … cursor` (`Lemmas/RingMultiDeliver.lean`); stronger:
                              `c04_multi_delivered_once_drained`, `c04_multi_delivered_at_handler_exit`;
* `c04_multi_complete_when_released` — … and if `cursor = hw` (nothing stranded) exactly the claimed sequences `1 … hw`, each
                              written exactly once, by its claimant, before the handler call;
* `c04_multi_single_writer_delivers_all(_blocking)`, `c04_multi_single_writer_payload_delivered` — one writer thread, every
                              fair schedule: all threads terminate and every handler has been handed `1 … Σ batches`, intact.
-/
namespace C04
open Ring

/-- the sequences handed so far to handler `(k,j)` are exactly `1 … m` for its progress counter `m` -/
def progress (c : Cons) : Nat :=
  if c.pc = .handle then c.i - 1 else if c.pc = .publish then c.avail else c.cur

/-- consumer-side fact, independent of the kind of producer: it only needs the consumer invariant -/
theorem log_prefix_of_inv (s : St) (hI : Ring.Inv s) (k j : Nat) (hk : k < s.K) (hj : j < s.h k) :
    (s.cons k j).log = List.range' 1 (progress (s.cons k j)) ∧ progress (s.cons k j) ≤ s.cursor := by
  have hc := hI.2 k j hk hj
  have hup := chain_up s hI k j hk hj
  unfold progress
  by_cases h1 : (s.cons k j).pc = .handle
  · have hav := avail_le_cursor s hI k j hk hj (by simp [h1])
    have := hc.iLe h1
    simp only [h1, if_true]
    exact ⟨hc.logH h1, by omega⟩
  · by_cases h2 : (s.cons k j).pc = .publish
    · have hav := avail_le_cursor s hI k j hk hj (by simp [h2])
      simp only [h1, h2, if_false, if_true]
      exact ⟨hc.logP h2, hav⟩
    · simp only [h1, h2, if_false]
      exact ⟨hc.logO h1 h2, hup⟩

theorem c04_log_is_prefix {x : PSt} (hr : Reachable x) (k j : Nat) (hk : k < x.s.K) (hj : j < x.s.h k) :
    (x.s.cons k j).log = List.range' 1 (progress (x.s.cons k j)) ∧ progress (x.s.cons k j) ≤ x.s.cursor :=
  log_prefix_of_inv x.s (reachable_inv hr).1 k j hk hj

/-- strictly increasing, gap-free, no repetition: immediate from `log = [1 … m]` -/
theorem c04_log_strictly_increasing {x : PSt} (hr : Reachable x) (k j : Nat) (hk : k < x.s.K) (hj : j < x.s.h k) :
    List.Pairwise (· < ·) (x.s.cons k j).log := by
  rw [(c04_log_is_prefix hr k j hk hj).1]
  exact List.pairwise_lt_range' (step := 1) (by omega)

/-- a handler is about to be invoked for `i` only if `i` is published (`i ≤ cursor`) and written -/
theorem c04_handle_only_published {x : PSt} (hr : Reachable x) (k j : Nat) (hk : k < x.s.K) (hj : j < x.s.h k)
    (hpc : (x.s.cons k j).pc = .handle) (hi : (x.s.cons k j).i ≤ (x.s.cons k j).avail) :
    (x.s.cons k j).i ≤ x.s.cursor ∧ (x.s.cons k j).i ∈ x.p.written := by
  obtain ⟨hI, hK, hP, hb⟩ := reachable_inv hr
  have hav := avail_le_cursor x.s hI k j hk hj (by simp [hpc])
  refine ⟨by omega, ?_⟩
  rw [hP.wrote]
  have hcur : (x.s.cons k j).i ≤ x.s.cursor := by omega
  have hci := hI.2 k j hk hj
  have hne := hci.nextEq (by simp [hpc])
  have hge := hci.iGe hpc
  simp only [List.mem_range'_1]
  by_cases hw : x.p.pc = .write ∨ x.p.pc = .publish
  · have := hP.wr hw
    simp only [hw, if_true]
    rcases this.1 with h1 | ⟨h1, h2⟩ <;> omega
  · simp only [hw, if_false]
    by_cases hidle : x.p.pc.idle = true
    · rcases hP.nw hidle with h1 | ⟨h1, h2⟩ <;> omega
    · have hcl : x.p.pc = .gateCheck ∨ x.p.pc = .gateLoad := by
        cases hp : x.p.pc <;> simp_all [PPc.idle]
      have := hP.claim hcl
      rcases this.1 with h1 | ⟨h1, h2⟩ <;> omega

/-- once `drain` (and `Drop`) have completed, a handler thread that has terminated has been handed exactly `1 … cursor` -/
theorem c04_delivered_after_drain {x : PSt} (hr : Reachable x) (hp : x.p.pc = .done)
    (k j : Nat) (hk : k < x.s.K) (hj : j < x.s.h k) (hc : (x.s.cons k j).pc = .done) :
    (x.s.cons k j).log = List.range' 1 x.s.cursor := by
  obtain ⟨hI, hK, hP, hb⟩ := reachable_inv hr
  have hci := hI.2 k j hk hj
  have hlog := hci.logO (by simp [hc]) (by simp [hc])
  have hup := chain_up x.s hI k j hk hj
  have hlow := below_all x.s hI hK (x.p.nextWrite - 1) (hP.drained (by simp [hp, PPc.drained]))
    (x.s.K - 1 - k) k j (by omega) hj
  have hnw := hP.nw (by simp [hp, PPc.idle])
  have : (x.s.cons k j).cur = x.s.cursor := by rcases hnw with h1 | ⟨h1, h2⟩ <;> omega
  rw [hlog, this]

/-- **partial C04**: after shutdown every terminated handler was handed every written sequence except sequence 0 -/
theorem c04_single_partial {x : PSt} (hr : Reachable x) (hp : x.p.pc = .done)
    (k j : Nat) (hk : k < x.s.K) (hj : j < x.s.h k) (hc : (x.s.cons k j).pc = .done) :
    x.p.written = [] ∨ x.p.written = 0 :: (x.s.cons k j).log := by
  obtain ⟨hI, hK, hP, hb⟩ := reachable_inv hr
  rw [c04_delivered_after_drain hr hp k j hk hj hc, hP.wrote]
  simp only [hp, reduceCtorEq, or_self, if_false]
  rcases hP.nw (by simp [hp, PPc.idle]) with h1 | ⟨h1, h2⟩
  · right; rw [← h1, List.range'_succ]
  · left; simp [h2]

/-- **F5, negation of the full statement**: sequence 0 is never handed to any handler … -/
theorem c04_single_first_event_never_delivered {x : PSt} (hr : Reachable x) (k j : Nat)
    (hk : k < x.s.K) (hj : j < x.s.h k) : 0 ∉ (x.s.cons k j).log := by
  rw [(c04_log_is_prefix hr k j hk hj).1]
  simp [List.mem_range'_1]

/-- … although it is written as soon as anything is written -/
theorem c04_single_first_event_written {x : PSt} (hr : Reachable x) (hne : x.p.written ≠ []) : 0 ∈ x.p.written := by
  obtain ⟨hI, hK, hP, hb⟩ := reachable_inv hr
  rw [hP.wrote] at hne ⊢
  cases hn : (if x.p.pc = .write ∨ x.p.pc = .publish then x.p.w else x.p.nextWrite) with
  | zero => rw [hn] at hne; simp at hne
  | succ m => simp [List.mem_range'_1]

/-! ## non-vacuity: a concrete pipeline run to completion (ring of 2, one handler, batches 1 and 1, spin wait) -/

def demoSched : List Tid :=
  (List.replicate 12 Tid.prod) ++ (List.replicate 12 (Tid.cons 0 0)) ++ (List.replicate 12 Tid.prod) ++
  (List.replicate 12 (Tid.cons 0 0))

example : (runX (mk 2 1 (fun _ => 1) false [1, 1]) demoSched).p.pc = .done ∧
    ((runX (mk 2 1 (fun _ => 1) false [1, 1]) demoSched).s.cons 0 0).pc = .done ∧
    ((runX (mk 2 1 (fun _ => 1) false [1, 1]) demoSched).s.cons 0 0).log = [1] ∧
    (runX (mk 2 1 (fun _ => 1) false [1, 1]) demoSched).p.written = [0, 1] := by decide +kernel

example : Reachable (runX (mk 2 1 (fun _ => 1) false [1, 1]) demoSched) :=
  ⟨2, 1, fun _ => 1, false, [1, 1], demoSched, by decide, by intro k _; simp, by decide, rfl⟩

/-! ## payload integrity -/
section Payload
open RingPay

/-- a state of the payload layer reachable in a well-formed pipeline whose mutable handlers are alone in their stage -/
def PayReachable (c : PCfg) (s : PaySt) : Prop :=
  ∃ (n K : Nat) (h : Nat → Nat) (blocking : Bool) (batches : List Nat) (sched : List Tid),
    0 < K ∧ (∀ k, k < K → 0 < h k) ∧ (∀ b, b ∈ batches → 1 ≤ b) ∧
    (∀ k j, k < K → j < h k → c.mutH k j = true → h k = 1) ∧
    s = runPay c (mkPay n K h blocking batches) sched

theorem payReachable_good {c : PCfg} {s : PaySt} (hr : PayReachable c s) : PayGood c s := by
  obtain ⟨n, K, h, bl, bs, sched, hK, hh, hb, hT, rfl⟩ := hr
  exact paygood_run c _ sched (paygood_init c n K h bl bs hK hh hb hT)

/-- **payload integrity**: every `(sequence, payload)` pair handed to handler `(k,j)` carries the value written for that
sequence, transformed by exactly the mutable handlers of the earlier stages -/
theorem c04_payload_intact {c : PCfg} {s : PaySt} (hr : PayReachable c s) (k j : Nat)
    (hk : k < s.x.s.K) (hj : j < s.x.s.h k) (e : Nat × Nat) (he : e ∈ s.seen k j) :
    e.2 = expectBelow c k (c.pay e.1) :=
  (payReachable_good hr).2.2.saw k j hk hj e he

/-- the slot layer does not change the system: its projection is a run of `Model/Ring.lean`, so all delivery theorems
above apply to it -/
theorem c04_payload_layer_is_ghost (c : PCfg) (s : PaySt) (sched : List Tid) :
    (runPay c s sched).x = runX s.x sched := by
  unfold runPay runX
  induction sched generalizing s with
  | nil => rfl
  | cons t ts ih => simp only [List.foldl_cons]; rw [ih, stepPay_x]

/-- the sequences of the `(sequence, payload)` pairs are exactly the delivery log of the handler -/
theorem c04_seen_is_log {c : PCfg} {s : PaySt} (hr : PayReachable c s) (k j : Nat) :
    (s.seen k j).map (·.1) = (s.x.s.cons k j).log := by
  obtain ⟨n, K, h, bl, bs, sched, _, _, _, _, rfl⟩ := hr
  unfold runPay
  suffices H : ∀ (s0 : PaySt), (∀ k j, (s0.seen k j).map (·.1) = (s0.x.s.cons k j).log) →
      ∀ k j, ((sched.foldl (stepPay c) s0).seen k j).map (·.1) = ((sched.foldl (stepPay c) s0).x.s.cons k j).log from
    H _ (by intro k j; rfl) k j
  induction sched with
  | nil => intro s0 h0; exact h0
  | cons t ts ih => intro s0 h0; exact ih _ (seen_eq_log_step c s0 t h0)

/-! non-vacuity: ring of 2, stage 0 one mutable handler (×3), stage 1 one immutable handler, three events: the ring wraps -/
def demoCfg : PCfg := { pay := fun q => 100 + q, mutH := fun k _ => k == 0, tf := fun _ _ v => 3 * v }
def demoPay : PaySt := runPay demoCfg (mkPay 2 2 (fun _ => 1) false [1, 1, 1])
  ((List.replicate 12 Tid.prod) ++ (List.replicate 12 (Tid.cons 0 0)) ++ (List.replicate 12 (Tid.cons 1 0)) ++
   (List.replicate 12 Tid.prod) ++ (List.replicate 12 (Tid.cons 0 0)) ++ (List.replicate 12 (Tid.cons 1 0)))

example : demoPay.seen 0 0 = [(1, 101), (2, 102)] ∧ demoPay.seen 1 0 = [(1, 303), (2, 306)] := by decide +kernel

end Payload

/-! ## multi-producer pipelines

The full delivery statement is false for the multi-producer sequencer (known finding F8); the consumer-side half
(`c04_multi_log_is_prefix`: in order, no gaps, no repetition, nothing above the cursor) holds for every schedule, and so does
**no read before write** (`c04_multi_handle_only_published`, every ring size `n = 2^k`: a handler is only ever handed a sequence
that its claimant has completely written and published). The witness below is schedule-exact and agrees with what the real code does under the same schedule (harness corpus case
`F7-witness`): two writers claim 1 and 2, the second publishes first, the first publishes last; `drain` waits for the cursor
(1) only, so the handler terminates having been handed `[1]` although 2 was written and its `write` call had returned. -/
section Multi
open RingMulti

def lostRun : MSt := runM (mkM 4 1 (fun _ => 1) false [[1], [1]])
  ((List.replicate 6 (MTid.writer 0)) ++ (List.replicate 20 (MTid.writer 1)) ++ (List.replicate 20 (MTid.writer 0)) ++
   (List.replicate 12 (MTid.cons 0 0)) ++ (List.replicate 12 MTid.drainer) ++ (List.replicate 8 (MTid.cons 0 0)))

/-- **multi producer, what does hold** (every ring size, topology, wait strategy, any number of writer threads, every
schedule): each handler has been handed exactly `1 … m`, once each, in order, for some `m ≤ cursor` — whatever the writers do,
no handler ever sees a sequence twice, out of order, or above the cursor -/
theorem c04_multi_log_is_prefix {x : MSt} (hr : MReachableWF x) (k j : Nat) (hk : k < x.s.K) (hj : j < x.s.h k) :
    (x.s.cons k j).log = List.range' 1 (progress (x.s.cons k j)) ∧ progress (x.s.cons k j) ≤ x.s.cursor :=
  log_prefix_of_inv x.s (mreachableWF_good hr).2.1 k j hk hj

theorem c04_multi_stranded_event_lost :
    (lostRun.wr 0).pc = .done ∧ (lostRun.wr 1).pc = .done ∧ lostRun.dr.pc = .done ∧ (lostRun.s.cons 0 0).pc = .done ∧
    lostRun.written = [(2, 1), (1, 0)] ∧ (lostRun.s.cons 0 0).log = [1] := by decide +kernel

/-- **no read before write, multi producer** (every ring size `n = 2^k`, topology, wait strategy, number of writer threads,
every schedule): a handler is about to be invoked for `i` only if `i ≤ cursor`, `i` has been claimed and written to its slot
(`(i, writer) ∈ written`), and no writer thread is still before the `ready_sequences.set(i)` of its `publish` call — the
multi-producer analogue of `c04_handle_only_published`, from release safety (`Lemmas/RingMultiSafe.lean`) -/
theorem c04_multi_handle_only_published {x : MSt} (hr : MReachableWF x) (e : Nat) (hn : x.s.n = 2 ^ e) (k j : Nat)
    (hk : k < x.s.K) (hj : j < x.s.h k) (hpc : (x.s.cons k j).pc = .handle)
    (hi : (x.s.cons k j).i ≤ (x.s.cons k j).avail) :
    (x.s.cons k j).i ≤ x.s.cursor ∧ (x.s.cons k j).i ≤ x.hw ∧ (∃ w, ((x.s.cons k j).i, w) ∈ x.written) ∧
    ¬ Pend x (x.s.cons k j).i := by
  have hs := mreachableWF_safe hr e hn
  have hI := hs.1.1.2.1
  have hav := avail_le_cursor x.s hI k j hk hj (by simp [hpc])
  have hci := hI.2 k j hk hj
  have h1 := hci.nextEq (by simp [hpc])
  have h2 := hci.iGe hpc
  have := published_below_cursor x hs (x.s.cons k j).i (by omega) (by omega)
  exact ⟨by omega, this⟩

/-- everything in a handler's log has been written (and published) before it was handed over -/
theorem c04_multi_log_written {x : MSt} (hr : MReachableWF x) (e : Nat) (hn : x.s.n = 2 ^ e) (k j : Nat)
    (hk : k < x.s.K) (hj : j < x.s.h k) (q : Nat) (hq : q ∈ (x.s.cons k j).log) : ∃ w, (q, w) ∈ x.written := by
  have hs := mreachableWF_safe hr e hn
  obtain ⟨hlog, hle⟩ := c04_multi_log_is_prefix hr k j hk hj
  rw [hlog, List.mem_range'_1] at hq
  exact (published_below_cursor x hs q hq.1 (by omega)).2.1

/-- non-vacuity: the handler is about to be handed sequence 1, written by writer 0 -/
def demoMultiHandle : MSt := runM (mkM 4 1 (fun _ => 1) false [[1], [1]])
  ((List.replicate 30 (MTid.writer 0)) ++ (List.replicate 4 (MTid.cons 0 0)))

example : (demoMultiHandle.s.cons 0 0).pc = .handle ∧ (demoMultiHandle.s.cons 0 0).i = 1 ∧
    (demoMultiHandle.s.cons 0 0).avail = 1 ∧ demoMultiHandle.written = [(1, 0)] := by decide +kernel
example : MReachableWF demoMultiHandle :=
  ⟨4, 1, fun _ => 1, false, [[1], [1]], _, by decide, fun _ _ => Nat.one_pos, by decide, rfl⟩

end Multi

/-! ## payload integrity, multi-producer pipelines

Slot layer `Model/RingMultiPay.lean` over the multi-producer model: a writer's slot write of `w` stores the next item of *that
writer's* item stream (`c.pay writer m w`, `m` = number of events the writer wrote before) into slot `w mod n`; a handler call
reads slot `i mod n`, records `(i, value)` in `seen` and, if mutable, stores its transformation back. The layer also records
as ghost state the log `wlog` of all slot writes `(sequence, writer, value)`. For every ring size `2^e`, every topology whose
mutable handlers are alone in their stage (F9), any number of writer threads, all batch lists and **every schedule**
(`Lemmas/RingMultiPay.lean`): whatever a handler of stage `k` is handed for sequence `q` is the value of the one and only slot
write of `q` — made by the writer holding the claim that contains `q` — transformed by the mutable handlers of the stages below
`k` in stage order; although the writers write concurrently and out of sequence order and slots are reused every `n` sequences. -/
section MultiPayload
open RingMulti RingPay RingMultiPay

/-- a state of the multi-producer payload layer reachable in a well-formed pipeline with a ring of `2^e` slots whose mutable
handlers are alone in their stage: any number of writer threads, any batch lists, **any schedule** -/
def MPayReachable (c : MPCfg) (s : MPaySt) : Prop :=
  ∃ (e K : Nat) (h : Nat → Nat) (blocking : Bool) (batches : List (List Nat)) (sched : List MTid),
    0 < K ∧ (∀ k, k < K → 0 < h k) ∧ (∀ l, l ∈ batches → ∀ b, b ∈ l → 1 ≤ b) ∧
    (∀ k j, k < K → j < h k → c.mutH k j = true → h k = 1) ∧
    s = runMPay c (mkMPay (2 ^ e) K h blocking batches) sched

theorem mpayReachable_good {c : MPCfg} {s : MPaySt} (hr : MPayReachable c s) : MPayGood c s := by
  obtain ⟨e, K, h, bl, bs, sched, hK, hh, hb, hT, rfl⟩ := hr
  exact mpaygood_run c _ sched (mpaygood_init c e K h bl bs hK hh hb hT)

/-- the slot layer does not change the system: its projection is a run of `Model/RingMulti.lean`, so every multi-producer
theorem (delivery order, release safety, no overwrite, C13, C14) applies to it -/
theorem c04_multi_payload_layer_is_ghost (c : MPCfg) (s : MPaySt) (sched : List MTid) :
    (runMPay c s sched).x = runM s.x sched := by
  unfold runMPay runM
  induction sched generalizing s with
  | nil => rfl
  | cons t ts ih => simp only [List.foldl_cons]; rw [ih, stepMPay_x]

/-- … in particular the system state under a reachable layer state is `MReachableWF` with a ring size `2^e` -/
theorem mpayReachable_system {c : MPCfg} {s : MPaySt} (hr : MPayReachable c s) :
    MReachableWF s.x ∧ ∃ e, s.x.s.n = 2 ^ e := by
  obtain ⟨e, K, h, bl, bs, sched, hK, hh, hb, _, rfl⟩ := hr
  rw [c04_multi_payload_layer_is_ghost]
  exact ⟨⟨2 ^ e, K, h, bl, bs, sched, hK, hh, hb, rfl⟩, e, by rw [runM_n]; rfl⟩

/-- **payload integrity, multi producer**: every `(sequence, payload)` pair handed to handler `(k,j)` carries the value `v`
written for that sequence — there is exactly one slot write of the sequence, by writer `i`, and `i` is its claimant (holds a
claim `[lo, hi]` containing it, one of the successful compare-and-swaps on the high watermark) — transformed by exactly the
mutable handlers of the earlier stages -/
theorem c04_multi_payload_intact {c : MPCfg} {s : MPaySt} (hr : MPayReachable c s) (k j : Nat)
    (hk : k < s.x.s.K) (hj : j < s.x.s.h k) (e : Nat × Nat) (he : e ∈ s.seen k j) :
    ∃ i v, (e.1, i, v) ∈ s.wlog ∧
      (∀ i' v', (e.1, i', v') ∈ s.wlog → i' = i ∧ v' = v) ∧
      (i < s.x.P ∧ ∃ cl, cl ∈ (s.x.wr i).claims ∧ cl ∈ s.x.allClaims ∧ cl.1 ≤ e.1 ∧ e.1 ≤ cl.2.1) ∧
      e.2 = expectBelow c.hc k v := by
  have hg := mpayReachable_good hr
  obtain ⟨h1, h2, h3⟩ := hg.pay.saw k j hk hj e he
  obtain ⟨_, ⟨i, hi⟩, _⟩ := published_below_cursor s.x hg.safe.1 e.1 h1 h2
  have hmem : ∀ i' v', (e.1, i', v') ∈ s.wlog → (e.1, i') ∈ s.x.written ∧ s.val e.1 = v' := by
    intro i' v' hm
    exact ⟨by rw [← hg.log.proj]; exact List.mem_map.2 ⟨_, hm, rfl⟩, hg.log.valOk _ hm⟩
  obtain ⟨⟨q, i0, v0⟩, hm, hq⟩ : ∃ en, en ∈ s.wlog ∧ (en.1, en.2.1) = (e.1, i) := by
    rw [← hg.log.proj] at hi; exact List.mem_map.1 hi
  simp only [Prod.mk.injEq] at hq
  obtain ⟨rfl, rfl⟩ := hq
  obtain ⟨hiP, cl, hcl, hb1, hb2⟩ := hg.safe.2.wrote _ _ hi
  refine ⟨i0, v0, hm, ?_, ⟨hiP, cl, hcl, hg.safe.2.globl i0 hiP cl hcl, hb1, hb2⟩, ?_⟩
  · intro i' v' hm'
    obtain ⟨a1, a2⟩ := hmem i' v' hm'
    exact ⟨nodup_fst_unique _ hg.once.nodup _ _ _ a1 hi, by rw [← a2, (hmem i0 v0 hm).2]⟩
  · rw [h3, (hmem i0 v0 hm).2]

/-- the same against the layer's ghost map `val` (sequence ↦ value written for it) -/
theorem c04_multi_payload_intact_val {c : MPCfg} {s : MPaySt} (hr : MPayReachable c s) (k j : Nat)
    (hk : k < s.x.s.K) (hj : j < s.x.s.h k) (e : Nat × Nat) (he : e ∈ s.seen k j) :
    e.2 = expectBelow c.hc k (s.val e.1) :=
  ((mpayReachable_good hr).pay.saw k j hk hj e he).2.2

/-- every sequence is written to its slot at most once; the log of slot writes is the system's ghost list `written`
(`c14_multi_written_by_claimant` etc. speak about the same writes); `val` is the value of that one write -/
theorem c04_multi_written_once {c : MPCfg} {s : MPaySt} (hr : MPayReachable c s) :
    (s.wlog.map (·.1)).Nodup ∧ s.wlog.map (fun e => (e.1, e.2.1)) = s.x.written ∧
    ∀ e, e ∈ s.wlog → s.val e.1 = e.2.2 := by
  have hg := mpayReachable_good hr
  refine ⟨?_, hg.log.proj, hg.log.valOk⟩
  have : s.wlog.map (·.1) = s.x.written.map (·.1) := by rw [← hg.log.proj, List.map_map]; rfl
  rw [this]; exact hg.once.nodup

/-- where the written value comes from: a slot write by writer `i` stores `pay i m q`, `m` = number of slot writes writer `i`
made before — the next item of the writer's own stream, whatever the other writers do in between -/
theorem c04_multi_written_value_is_next_item {c : MPCfg} {s : MPaySt} (hr : MPayReachable c s)
    (pre post : List (Nat × Nat × Nat)) (q i v : Nat) (h : s.wlog = pre ++ (q, i, v) :: post) :
    v = c.pay i (pre.countP (fun e => e.2.1 == i)) q :=
  (mpayReachable_good hr).log.src pre (q, i, v) post h

/-- the sequences of the `(sequence, payload)` pairs are exactly the delivery log of the handler -/
theorem c04_multi_seen_is_log {c : MPCfg} {s : MPaySt} (hr : MPayReachable c s) (k j : Nat) :
    (s.seen k j).map (·.1) = (s.x.s.cons k j).log :=
  (mpayReachable_good hr).seen k j

/-! non-vacuity: ring of 4, stage 0 one mutable handler (×3), stage 1 one immutable handler; writer 0 writes three events,
writer 1 two. The writes interleave out of sequence order (2 before 1, 5 before 4), publication is out of order (2 before 1),
and the ring wraps (5 goes to the slot of 1, 4 to the slot of the never-used sequence 0). -/
def demoMCfg : MPCfg := { pay := fun i m _ => 1000 * (i + 1) + m, mutH := fun k _ => k == 0, tf := fun _ _ v => 3 * v }
def demoMSched : List MTid :=
  let W (i n : Nat) := List.replicate n (MTid.writer i)
  let H (k n : Nat) := List.replicate n (MTid.cons k 0)
  W 0 6 ++ W 1 6 ++ W 1 1 ++ W 0 1 ++ W 1 7 ++ W 0 14 ++ W 0 8 ++ W 0 14 ++ H 0 12 ++ H 1 12 ++
  W 1 5 ++ W 0 9 ++ W 0 1 ++ W 1 1 ++ W 1 12 ++ W 0 12 ++ H 0 12 ++ H 1 12
def demoMPay : MPaySt := runMPay demoMCfg (mkMPay 4 2 (fun _ => 1) false [[1, 1, 1], [1, 1]]) demoMSched

example : demoMPay.wlog = [(2, 1, 2000), (1, 0, 1000), (3, 0, 1001), (5, 0, 1002), (4, 1, 2001)] ∧
    demoMPay.seen 0 0 = [(1, 1000), (2, 2000), (3, 1001), (4, 2001), (5, 1002)] ∧
    demoMPay.seen 1 0 = [(1, 3000), (2, 6000), (3, 3003), (4, 6003), (5, 3006)] := by decide +kernel

theorem demoMPay_reachable : MPayReachable demoMCfg demoMPay :=
  ⟨2, 2, fun _ => 1, false, [[1, 1, 1], [1, 1]], demoMSched, by decide, fun _ _ => Nat.one_pos, by decide,
   fun _ _ _ _ _ => rfl, rfl⟩

/-- the theorem applied to that state: what stage 1 was handed for sequence 5 -/
example : ∃ i v, (5, i, v) ∈ demoMPay.wlog ∧ 3006 = expectBelow demoMCfg.hc 1 v := by
  obtain ⟨i, v, h1, _, _, h4⟩ := c04_multi_payload_intact demoMPay_reachable 1 0 (by decide +kernel) (by decide +kernel)
    (5, 3006) (by decide +kernel)
  exact ⟨i, v, h1, h4⟩

end MultiPayload

/-! ## complete delivery, multi-producer pipelines

`c04_delivered_after_drain` for the multi-producer sequencer. `MultiProducerSequencer::drain` runs after the join of the writer
threads, reads the cursor once and waits until every last-stage handler has reached that value; since no writer is left the
value it read is the final cursor (`Lemmas/RingMultiDeliver.lean`, invariant `DDel`). So **whatever the release protocol
managed to publish is delivered completely**: every handler that has terminated was handed `1 … cursor`, once each, in order —
for any number of writers, any ring size, both wait strategies, every schedule. What the release protocol can fail to do
(F7/F8/F13) is to get the cursor up to the high watermark; `c04_multi_complete_when_released` is the full statement of C04
under exactly that hypothesis, and `c04_multi_single_writer_delivers_all` discharges it (together with termination) for one
writer thread. With two or more writers `cursor = hw` is false in general: `lostRun` above ends with `cursor = 1 < hw = 2`. -/
section MultiDelivery
open RingMulti RingPay RingMultiPay

/-- **delivery after `drain`, multi producer** (any number of writer threads, any ring size, topology, wait strategy, every
schedule): once `drain` has returned and a handler thread has terminated it has been handed exactly `1 … cursor` — the
multi-producer analogue of `c04_delivered_after_drain`, same hypotheses, same conclusion -/
theorem c04_multi_delivered_after_drain {x : MSt} (hr : MReachableWF x) (hd : x.dr.pc = .done)
    (k j : Nat) (hk : k < x.s.K) (hj : j < x.s.h k) (_hc : (x.s.cons k j).pc = .done) :
    (x.s.cons k j).log = List.range' 1 x.s.cursor :=
  (drained_all_caught_up x (mreachableWF_good hr) (mreachableWF_ddel hr) (by rw [hd]; rfl) k j hk hj).2.2.2

/-- stronger, neither thread needs to have *terminated*: from the moment the wait loop of `drain` has exited (`is_done` not
even stored yet) every handler's published cursor equals the producer cursor, no handler is inside a batch, and every handler
has been handed exactly `1 … cursor` -/
theorem c04_multi_delivered_once_drained {x : MSt} (hr : MReachableWF x) (hd : dDrained x.dr.pc = true)
    (k j : Nat) (hk : k < x.s.K) (hj : j < x.s.h k) :
    (x.s.cons k j).cur = x.s.cursor ∧ (x.s.cons k j).pc ≠ .handle ∧ (x.s.cons k j).pc ≠ .publish ∧
    (x.s.cons k j).log = List.range' 1 x.s.cursor :=
  drained_all_caught_up x (mreachableWF_good hr) (mreachableWF_ddel hr) hd k j hk hj

/-- the hypothesis on the draining thread is implied: a handler thread only terminates on `is_done`, which `drain` stores after
its wait loop. So a terminated handler has *always* been handed exactly `1 … cursor`. -/
theorem c04_multi_delivered_at_handler_exit {x : MSt} (hr : MReachableWF x)
    (k j : Nat) (hk : k < x.s.K) (hj : j < x.s.h k) (hc : (x.s.cons k j).pc = .done) :
    (x.s.cons k j).log = List.range' 1 x.s.cursor :=
  (c04_multi_delivered_once_drained hr (drained_of_cons_done x (mreachableWF_ginv hr).mtx k j hk hj hc) k j hk hj).2.2.2

/-! non-vacuity: `lostRun` (two writers, the run is over, sequence 2 stranded): the handler got exactly `1 … cursor = [1]` -/
theorem lostRun_reachable : MReachableWF lostRun :=
  ⟨4, 1, fun _ => 1, false, [[1], [1]], _, by decide, fun _ _ => Nat.one_pos, by decide, rfl⟩

example : lostRun.dr.pc = .done ∧ (lostRun.s.cons 0 0).pc = .done ∧ lostRun.s.cursor = 1 ∧ lostRun.hw = 2 := by
  decide +kernel

example : (lostRun.s.cons 0 0).log = List.range' 1 lostRun.s.cursor :=
  c04_multi_delivered_after_drain lostRun_reachable (by decide +kernel) 0 0 (by decide +kernel) (by decide +kernel)
    (by decide +kernel)

/-- **C04 for the multi-producer sequencer, under the hypothesis that the release protocol did its job** (ring sizes `2^e`, any
number of writer threads, topology, wait strategy, every schedule). If `drain` has returned, the handler thread `(k,j)` has
terminated and everything claimed was released (`cursor = hw`), then

* the handler was handed exactly the claimed sequences `1 … hw`, once each, in order;
* these are exactly the sequences of the successful claims, which tile `[1, hw]` (each of its requested length);
* every one of them, `q`, is in the log, was written to its slot **exactly once, by the writer `i` holding the claim that
  contains it** (`(q, i)` is the only entry for `q` in the log of slot writes), and is pending with no writer — and that was
  already so when the handler was handed `q` (`c04_multi_written_before_handed` below, from `c04_multi_handle_only_published`: at the call, `q` is in `written` and not
  pending; `written` only grows), so the write precedes the handler call. -/
theorem c04_multi_complete_when_released {x : MSt} (hr : MReachableWF x) (e : Nat) (hn : x.s.n = 2 ^ e)
    (hd : x.dr.pc = .done) (hrel : x.s.cursor = x.hw)
    (k j : Nat) (hk : k < x.s.K) (hj : j < x.s.h k) (hc : (x.s.cons k j).pc = .done) :
    (x.s.cons k j).log = List.range' 1 x.hw ∧
    Tiles 1 x.allClaims (x.hw + 1) ∧
    ∀ q, 1 ≤ q → q ≤ x.hw →
      q ∈ (x.s.cons k j).log ∧
      ∃ i, i < x.P ∧ (q, i) ∈ x.written ∧ (∀ i', (q, i') ∈ x.written → i' = i) ∧
        (∃ cl, cl ∈ (x.wr i).claims ∧ cl ∈ x.allClaims ∧ cl.1 ≤ q ∧ q ≤ cl.2.1) ∧ ¬ Pend x q := by
  have hlog := c04_multi_delivered_after_drain hr hd k j hk hj hc
  rw [hrel] at hlog
  have hso := mreachableWF_safeOwn hr e hn
  have hon := mreachableWF_once hr e hn
  refine ⟨hlog, (mreachableWF_good hr).1.tiles, ?_⟩
  intro q q1 q2
  refine ⟨by rw [hlog, List.mem_range'_1]; omega, ?_⟩
  obtain ⟨_, ⟨i, hi⟩, hnp⟩ := published_below_cursor x hso.1 q q1 (by omega)
  obtain ⟨hiP, cl, hcl, hb1, hb2⟩ := hso.2.wrote q i hi
  exact ⟨i, hiP, hi, fun i' hi' => nodup_fst_unique _ hon.nodup q i' i hi' hi,
    ⟨cl, hcl, hso.2.globl i hiP cl hcl, hb1, hb2⟩, hnp⟩

theorem stepCons_log (s : St) (k j : Nat) (c : Cons) :
    (stepCons s k j c).log = if c.pc = .handle ∧ c.i ≤ c.avail then c.log ++ [c.i] else c.log := by
  cases hpc : c.pc <;> simp only [stepCons, hpc] <;> (repeat' split) <;> simp_all

/-- **written before handed over**, as a statement about the step that hands the sequence over (ring sizes `2^e`, any number
of writers, every schedule): if a step of handler `(k,j)` puts `q` into its log, then in the state *before* that step `q` is at
or below the cursor, has been written to its slot and is pending with no writer. (`written` only grows, and by
`c04_multi_complete_when_released` / `c04_multi_written_once` there is exactly one write of `q`, by its claimant.) -/
theorem c04_multi_written_before_handed {x : MSt} (hr : MReachableWF x) (e : Nat) (hn : x.s.n = 2 ^ e) (k j : Nat)
    (hk : k < x.s.K) (hj : j < x.s.h k) (q : Nat) (hnew : q ∈ ((stepM x (.cons k j)).s.cons k j).log)
    (hold : q ∉ (x.s.cons k j).log) :
    q ≤ x.s.cursor ∧ (∃ i, (q, i) ∈ x.written) ∧ ¬ Pend x q := by
  have hs : (stepM x (.cons k j)).s = stepC x.s k j := by simp [stepM, hk, hj]
  rw [hs, stepC_cons_self, stepCons_log] at hnew
  by_cases hh : (x.s.cons k j).pc = .handle ∧ (x.s.cons k j).i ≤ (x.s.cons k j).avail
  · rw [if_pos hh, List.mem_append, List.mem_singleton] at hnew
    rcases hnew with h | h
    · exact absurd h hold
    · subst h
      obtain ⟨a, _, b, c⟩ := c04_multi_handle_only_published hr e hn k j hk hj hh.1 hh.2
      exact ⟨a, b, c⟩
  · rw [if_neg hh] at hnew; exact absurd hnew hold

/-! non-vacuity: in `demoMultiHandle` the next step of the handler hands over sequence 1 -/
example : 1 ∈ ((stepM demoMultiHandle (.cons 0 0)).s.cons 0 0).log ∧ 1 ∉ (demoMultiHandle.s.cons 0 0).log := by
  decide +kernel

/-! non-vacuity: ring of 4, two stages, writer 0 writes three events, writer 1 two (`demoMSched` of the payload section: writes and
publications out of sequence order, the ring wraps), then the join, `drain`, and both handlers run to completion. Everything
was released (`cursor = hw = 5`) and both handlers were handed `1 … 5`. -/
def releasedSched : List MTid :=
  demoMSched ++ List.replicate 2 (MTid.writer 1) ++ List.replicate 12 MTid.drainer ++
  List.replicate 4 (MTid.cons 0 0) ++ List.replicate 4 (MTid.cons 1 0)
def releasedRun : MSt := runM (mkM 4 2 (fun _ => 1) false [[1, 1, 1], [1, 1]]) releasedSched

theorem releasedRun_reachable : MReachableWF releasedRun :=
  ⟨4, 2, fun _ => 1, false, [[1, 1, 1], [1, 1]], releasedSched, by decide, fun _ _ => Nat.one_pos, by decide, rfl⟩

theorem releasedRun_facts :
    (releasedRun.wr 0).pc = .done ∧ (releasedRun.wr 1).pc = .done ∧ releasedRun.dr.pc = .done ∧
    (releasedRun.s.cons 0 0).pc = .done ∧ (releasedRun.s.cons 1 0).pc = .done ∧
    releasedRun.s.cursor = 5 ∧ releasedRun.hw = 5 ∧ releasedRun.s.n = 2 ^ 2 ∧ releasedRun.s.K = 2 ∧ releasedRun.s.h 1 = 1 ∧
    releasedRun.written = [(2, 1), (1, 0), (3, 0), (5, 0), (4, 1)] ∧
    (releasedRun.s.cons 0 0).log = [1, 2, 3, 4, 5] ∧ (releasedRun.s.cons 1 0).log = [1, 2, 3, 4, 5] := by
  decide +kernel

/-- the theorem applied to that state: the second-stage handler got `1 … 5`, and sequence 4 was written by writer 1 only -/
example : (releasedRun.s.cons 1 0).log = List.range' 1 5 ∧ (4, 1) ∈ releasedRun.written ∧
    ∀ i', (4, i') ∈ releasedRun.written → i' = 1 := by
  have hf := releasedRun_facts
  obtain ⟨h1, _, h3⟩ := c04_multi_complete_when_released releasedRun_reachable 2 hf.2.2.2.2.2.2.2.1 hf.2.2.1
    (by rw [hf.2.2.2.2.2.1, hf.2.2.2.2.2.2.1]) 1 0 (by rw [hf.2.2.2.2.2.2.2.2.1]; omega)
    (by rw [hf.2.2.2.2.2.2.2.2.2.1]; omega) hf.2.2.2.2.1
  rw [hf.2.2.2.2.2.2.1] at h1 h3
  obtain ⟨_, i, _, hi, huniq, _⟩ := h3 4 (by omega) (by omega)
  have : i = 1 := (huniq 1 (by rw [hf.2.2.2.2.2.2.2.2.2.2.1]; decide)).symm
  subst this
  exact ⟨h1, hi, huniq⟩

/-! ### one writer thread: everything is delivered, under every fair schedule -/

/-- a terminal state of a pipeline with one writer thread (either strategy): high watermark and cursor stand at `Σ batches`,
every sequence `1 … Σ batches` was written by the writer, and every handler was handed exactly these sequences -/
theorem single_writer_delivered_of_terminal (e K : Nat) (h : Nat → Nat) (bl : Bool) (bs : List Nat)
    (hK : 0 < K) (hh : ∀ j, j < K → 0 < h j) (hb : ∀ b, b ∈ bs → 1 ≤ b) (σ : Nat → MTid) (t : Nat) (x : MSt)
    (hx : x = Fair.run stepM σ (mkM (2 ^ e) K h bl [bs]) t) (ht : terminalM x) :
    MReachableWF x ∧ x.s.n = 2 ^ e ∧ x.hw = bs.sum ∧ x.s.cursor = bs.sum ∧
    (∀ q, 1 ≤ q → q ≤ bs.sum → (q, 0) ∈ x.written) ∧
    ∀ k j, k < K → j < h k → (x.s.cons k j).log = List.range' 1 bs.sum := by
  subst hx
  have hb1 : ∀ l, l ∈ [bs] → ∀ b, b ∈ l → 1 ≤ b := by
    intro l hl b hbl; simp at hl; subst hl; exact hb b hbl
  have hr := C06.frun_reachable (2 ^ e) K h bl [bs] hK hh hb1 σ t
  obtain ⟨eK, eh, en, _⟩ := BlkM.topo_frun σ (mkM (2 ^ e) K h bl [bs]) t
  obtain ⟨_, _, h3, h4, h5⟩ := C06.c06_multi_all_written_at_exit e K h bl bs hK hh hb σ t ht
  refine ⟨hr, en, h3, h4, h5, ?_⟩
  intro k j hk hj
  have hk' : k < (Fair.run stepM σ (mkM (2 ^ e) K h bl [bs]) t).s.K := by rw [eK]; exact hk
  have hj' : j < (Fair.run stepM σ (mkM (2 ^ e) K h bl [bs]) t).s.h k := by rw [eh]; exact hj
  rw [c04_multi_delivered_after_drain hr ht.2.1 k j hk' hj' (ht.2.2 k j hk' hj'), h4]

/-- **C04, multi-producer sequencer with one writer thread, spin strategy: every event is delivered to every handler.** For
every ring size `2^e`, topology, list of batches with `1 ≤ b < 2^e` and every weakly fair schedule a state is reached in which
all threads have terminated, the writer has claimed and written exactly the sequences `1 … Σ batches`, and every handler of
every stage was handed exactly `1, 2, …, Σ batches` — each once, in order. -/
theorem c04_multi_single_writer_delivers_all (e K : Nat) (h : Nat → Nat) (bs : List Nat)
    (hK : 0 < K) (hh : ∀ j, j < K → 0 < h j) (hb : ∀ b, b ∈ bs → 1 ≤ b ∧ b < 2 ^ e)
    (σ : Nat → MTid) (hfair : C06.WeaklyFairM 1 K h σ) :
    ∃ t x, x = Fair.run stepM σ (mkM (2 ^ e) K h false [bs]) t ∧ terminalM x ∧
      x.hw = bs.sum ∧ x.s.cursor = bs.sum ∧ (∀ q, 1 ≤ q → q ≤ bs.sum → (q, 0) ∈ x.written) ∧
      ∀ k j, k < K → j < h k → (x.s.cons k j).log = List.range' 1 bs.sum := by
  obtain ⟨t, ht⟩ := C06.c06_multi_single_writer_spin_terminates e K h bs hK hh hb σ hfair
  obtain ⟨_, _, h3, h4, h5, h6⟩ :=
    single_writer_delivered_of_terminal e K h false bs hK hh (fun b hbm => (hb b hbm).1) σ t _ rfl ht
  exact ⟨t, _, rfl, ht, h3, h4, h5, h6⟩

/-- the same for the blocking strategy, under weak fairness + strong fairness of lock acquisition -/
theorem c04_multi_single_writer_delivers_all_blocking (e K : Nat) (h : Nat → Nat) (bs : List Nat)
    (hK : 0 < K) (hh : ∀ j, j < K → 0 < h j) (hb : ∀ b, b ∈ bs → 1 ≤ b ∧ b < 2 ^ e)
    (σ : Nat → MTid) (hfair : C06.WeaklyFairM 1 K h σ) (hlock : C06.LockFairM 1 K h σ (mkM (2 ^ e) K h true [bs])) :
    ∃ t x, x = Fair.run stepM σ (mkM (2 ^ e) K h true [bs]) t ∧ terminalM x ∧
      x.hw = bs.sum ∧ x.s.cursor = bs.sum ∧ (∀ q, 1 ≤ q → q ≤ bs.sum → (q, 0) ∈ x.written) ∧
      ∀ k j, k < K → j < h k → (x.s.cons k j).log = List.range' 1 bs.sum := by
  obtain ⟨t, ht⟩ := C06.c06_multi_single_writer_blocking_terminates e K h bs hK hh hb σ hfair hlock
  obtain ⟨_, _, h3, h4, h5, h6⟩ :=
    single_writer_delivered_of_terminal e K h true bs hK hh (fun b hbm => (hb b hbm).1) σ t _ rfl ht
  exact ⟨t, _, rfl, ht, h3, h4, h5, h6⟩

/-- **… intact**: the same on the slot layer (`Model/RingMultiPay.lean`; mutable handlers alone in their stage, F9), either
strategy (`hlock` is only needed for the blocking one). A state of the layer is reached in which all threads have terminated
and every handler `(k,j)` has seen exactly the sequences `1 … Σ batches`, in order, each with the value of the one and only
slot write of that sequence — made by the writer — transformed by the mutable handlers of the stages below `k`. -/
theorem c04_multi_single_writer_payload_delivered (c : MPCfg) (e K : Nat) (h : Nat → Nat) (bl : Bool) (bs : List Nat)
    (hK : 0 < K) (hh : ∀ j, j < K → 0 < h j) (hb : ∀ b, b ∈ bs → 1 ≤ b ∧ b < 2 ^ e)
    (hT : ∀ k j, k < K → j < h k → c.mutH k j = true → h k = 1)
    (σ : Nat → MTid) (hfair : C06.WeaklyFairM 1 K h σ)
    (hlock : bl = true → C06.LockFairM 1 K h σ (mkM (2 ^ e) K h true [bs])) :
    ∃ t s, s = runMPay c (mkMPay (2 ^ e) K h bl [bs]) ((List.range t).map σ) ∧ terminalM s.x ∧
      ∀ k j, k < K → j < h k →
        (s.seen k j).map (·.1) = List.range' 1 bs.sum ∧
        ∀ p, p ∈ s.seen k j → ∃ v, (p.1, 0, v) ∈ s.wlog ∧ (∀ i' v', (p.1, i', v') ∈ s.wlog → i' = 0 ∧ v' = v) ∧
          p.2 = expectBelow c.hc k v := by
  have hb0 : ∀ b, b ∈ bs → 1 ≤ b := fun b hbm => (hb b hbm).1
  have hb1 : ∀ l, l ∈ [bs] → ∀ b, b ∈ l → 1 ≤ b := by
    intro l hl b hbl; simp at hl; subst hl; exact hb0 b hbl
  obtain ⟨t, ht⟩ : ∃ t, terminalM (Fair.run stepM σ (mkM (2 ^ e) K h bl [bs]) t) := by
    cases bl with
    | false => exact C06.c06_multi_single_writer_spin_terminates e K h bs hK hh hb σ hfair
    | true => exact C06.c06_multi_single_writer_blocking_terminates e K h bs hK hh hb σ hfair (hlock rfl)
  have hsx : (runMPay c (mkMPay (2 ^ e) K h bl [bs]) ((List.range t).map σ)).x =
      Fair.run stepM σ (mkM (2 ^ e) K h bl [bs]) t := by
    rw [c04_multi_payload_layer_is_ghost, BlkM.frun_eq_runM]; rfl
  have hpr : MPayReachable c (runMPay c (mkMPay (2 ^ e) K h bl [bs]) ((List.range t).map σ)) :=
    ⟨e, K, h, bl, [bs], _, hK, hh, hb1, hT, rfl⟩
  obtain ⟨_, _, _, _, _, h6⟩ := single_writer_delivered_of_terminal e K h bl bs hK hh hb0 σ t _ hsx (by rw [hsx]; exact ht)
  obtain ⟨eK, eh, _, eP⟩ := BlkM.topo_frun σ (mkM (2 ^ e) K h bl [bs]) t
  refine ⟨t, _, rfl, by rw [hsx]; exact ht, ?_⟩
  intro k j hk hj
  refine ⟨by rw [c04_multi_seen_is_log hpr, h6 k j hk hj], ?_⟩
  intro p hp
  obtain ⟨i, v, a1, a2, ⟨a3, _⟩, a4⟩ := c04_multi_payload_intact hpr k j (by rw [hsx, eK]; exact hk)
    (by rw [hsx, eh]; exact hj) p hp
  have hi0 : i = 0 := by
    rw [hsx, eP] at a3
    have : (mkM (2 ^ e) K h bl [bs]).P = 1 := rfl
    omega
  subst hi0
  exact ⟨v, a1, a2, a4⟩

/-! non-vacuity: the concrete fair schedules of `Props/C06.lean` (the writer, the draining thread and the single handler take
turns) — spin: ring of 4, batches 2 and 3; blocking: ring of 2, batches 1 and 1 -/
example : ∃ t x, x = Fair.run stepM C06.altM (mkM (2 ^ 2) 1 (fun _ => 1) false [[2, 3]]) t ∧ terminalM x ∧
    (x.s.cons 0 0).log = [1, 2, 3, 4, 5] := by
  obtain ⟨t, x, hx, ht, _, _, _, h⟩ := c04_multi_single_writer_delivers_all 2 1 (fun _ => 1) [2, 3] (by omega)
    (fun _ _ => Nat.one_pos) (by intro b hb; simp at hb; omega) C06.altM C06.altM_fair
  exact ⟨t, x, hx, ht, h 0 0 (by omega) (by omega)⟩

example : ∃ t x, x = Fair.run stepM C06.altM (mkM (2 ^ 1) 1 (fun _ => 1) true [[1, 1]]) t ∧ terminalM x ∧
    (x.s.cons 0 0).log = [1, 2] := by
  obtain ⟨t, x, hx, ht, _, _, _, h⟩ := c04_multi_single_writer_delivers_all_blocking 1 1 (fun _ => 1) [1, 1] (by omega)
    (fun _ _ => Nat.one_pos) (by intro b hb; simp at hb; omega) C06.altM C06.altM_fair C06.altM_lockfair
  exact ⟨t, x, hx, ht, h 0 0 (by omega) (by omega)⟩

/-- the same run on the slot layer (`demoMCfg`: writer `i` stores `1000·(i+1) + m` for its `m`-th event): the handler saw the
five events of the writer, in order, each with the value written for it -/
example : ∃ t s, s = runMPay demoMCfg (mkMPay (2 ^ 2) 1 (fun _ => 1) false [[2, 3]]) ((List.range t).map C06.altM) ∧
    terminalM s.x ∧ (s.seen 0 0).map (·.1) = [1, 2, 3, 4, 5] := by
  obtain ⟨t, s, hs, ht, h⟩ := c04_multi_single_writer_payload_delivered demoMCfg 2 1 (fun _ => 1) false [2, 3] (by omega)
    (fun _ _ => Nat.one_pos) (by intro b hb; simp at hb; omega) (fun _ _ _ _ _ => rfl) C06.altM C06.altM_fair
    (by intro hf; cases hf)
  exact ⟨t, s, hs, ht, (h 0 0 (by omega) (by omega)).1⟩

end MultiDelivery

end C04
