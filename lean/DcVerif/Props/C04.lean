import DcVerif.Model.Ring
namespace C04
theorem placeholder : True := trivial
end C04
