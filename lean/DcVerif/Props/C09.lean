import DcVerif.Lemmas.Ctx
/-!
# C09 — Context keeps base and extra contexts as isolated, faithful contextoid stores

`Model.Ctx` mirrors `deep_causality/src/types/context_types/context_graph/*.rs` (base `UltraGraph`, optional map of
extra `UltraGraph`s with a selected one, two index maps) over `Model.UGraph` (C08, repaired version).
`Spec.Context` is: a base directed-graph store, a family of extra stores by id, a selection, two plain maps.

* `c09_refinement` — for **every** history interleaving base operations, creation of extra contexts, switching,
  extra-context operations and index-map operations, every output of the implementation model is one the
  specification allows and the final states correspond; in particular every store is a faithful directed-graph
  store in the sense of C08 (`Spec.Context.step` acts through `Spec.DiGraph.step` on the addressed store only).
* frame properties `c09_base_ops_frame`, `c09_extra_ops_frame`, `c09_mgmt_ops_frame`: what an operation does not
  address it does not change.
* `c09_extra_ops_without_selection_fail_clean`, `c09_set_current_refused_iff`, `c09_index_get_after_set`,
  `c09_index_maps_independent`, `c09_index_maps_frame`.
-/
namespace C09
open Spec Spec.Context Model Model.UGraph Model.Ctx
open Spec.DiGraph (Out)

theorem ite_some {α : Type} {c : Prop} [Decidable c] {a b : α} (h : (if c then some a else none) = some b) :
    c ∧ a = b := by
  by_cases hc : c
  · rw [if_pos hc] at h; exact ⟨hc, Option.some.inj h⟩
  · rw [if_neg hc] at h; cases h

def isAdd : DiGraph.Op → Bool
  | .addNode _ | .addRoot _ => true
  | _ => false

/-- for a deterministic directed-graph operation an accepted output is the determined one -/
theorem step_nonadd {s s' : DiGraph} {gop : DiGraph.Op} {out : Out} (hna : isAdd gop = false)
    (h : DiGraph.step s gop out = some s') : (s.det gop).2 = out ∧ (s.det gop).1 = s' := by
  cases gop <;> first | (simp [isAdd] at hna; done) | exact ite_some h

/-! ## the specification side: acting on the addressed store -/

theorem spec_base (s : Context) (op : Op) (gop : DiGraph.Op) (hg : op.graphOp = some (.base, gop)) (out : Out)
    (b' : DiGraph) (hst : DiGraph.step s.base gop out = some b') :
    Spec.Context.step s op out = some { s with base := b' } := by
  cases op <;> simp only [Op.graphOp, Option.some.injEq, Prod.mk.injEq, reduceCtorEq, false_and, true_and] at hg
  all_goals subst hg
  case addNode v =>
    show (DiGraph.step s.base (.addNode v) out).map _ = _
    rw [hst]; rfl
  all_goals
    obtain ⟨h1, h2⟩ := step_nonadd rfl hst
    simp only [Spec.Context.step, Spec.Context.det, Op.graphOp, h1, h2, if_true]

theorem spec_extra_sel (s : Context) (e : DiGraph) (hsel : s.selected = some e) (op : Op) (gop : DiGraph.Op)
    (hg : op.graphOp = some (.extra, gop)) (out : Out) (e' : DiGraph) (hst : DiGraph.step e gop out = some e') :
    Spec.Context.step s op (wrapX gop out) = some (s.putSelected e') := by
  cases op <;> simp only [Op.graphOp, Option.some.injEq, Prod.mk.injEq, reduceCtorEq, false_and, true_and] at hg
  all_goals subst hg
  case xAddNode v =>
    cases out <;> first
      | (simp only [DiGraph.step] at hst; done)
      | (simp only [Spec.Context.step, hsel, wrapX, hst]; rfl)
  all_goals
    obtain ⟨h1, h2⟩ := step_nonadd rfl hst
    simp only [Spec.Context.step, Spec.Context.det, Op.graphOp, hsel, h1, h2, if_true]

theorem spec_extra_nosel (s : Context) (hsel : s.selected = none) (op : Op) (gop : DiGraph.Op)
    (hg : op.graphOp = some (.extra, gop)) : Spec.Context.step s op (noSel gop) = some s := by
  cases op <;> simp only [Op.graphOp, Option.some.injEq, Prod.mk.injEq, reduceCtorEq, false_and, true_and] at hg
  all_goals subst hg
  all_goals simp only [Spec.Context.step, Spec.Context.det, Op.graphOp, hsel, noSel, if_true]

/-- **one step** -/
theorem c09_step_refines {c : Ctx} (h : Inv c) (op : Op) :
    Inv (Ctx.step c op).1 ∧ Spec.Context.step (absCtx c) op (Ctx.step c op).2 = some (absCtx (Ctx.step c op).1) := by
  cases hg : op.graphOp with
  | some tg =>
    obtain ⟨t, gop⟩ := tg
    cases t with
    | base =>
      obtain ⟨hwf, hst⟩ := C08.c08_step_refines h.baseWF gop
      rw [base_step h.baseWF op gop hg]
      refine ⟨⟨hwf, h.none0, h.keysNodup, h.keys, h.len, h.allWF, h.cur⟩, ?_⟩
      exact spec_base (absCtx c) op gop hg _ _ hst
    | extra =>
      rcases getCurrent_spec h with ⟨h0, ⟨r, hr, hre⟩, hsel⟩ | ⟨_, g, hcur, hsel, hget, hwf, hex⟩
      · rw [hre] at hr
        rw [extra_step_nosel hr op gop hg]
        exact ⟨h, spec_extra_nosel (absCtx c) hsel op gop hg⟩
      · obtain ⟨hwf', hst⟩ := C08.c08_step_refines hwf gop
        rw [extra_step_sel h g hwf hcur hget hex op gop hg]
        refine ⟨inv_putCurrent h _ hwf', ?_⟩
        rw [absCtx_putCurrent]
        exact spec_extra_sel (absCtx c) (abs g) hsel op gop hg _ _ hst
  | none =>
    have hlen : (absCtx c).extras.length = c.count := by
      show (c.extrasList.map _).length = _
      rw [List.length_map]; exact h.len
    cases op <;> simp only [Op.graphOp, reduceCtorEq] at hg
    case xCheckExists k =>
      refine ⟨h, ?_⟩
      show (if Out.bool (decide (k ≤ (absCtx c).extras.length)) = Out.bool (decide (k ≤ c.count))
        then some (absCtx c) else none) = some (absCtx c)
      rw [hlen]; exact if_pos rfl
    case xGetCurrent => exact ⟨h, if_pos rfl⟩
    case xUnset => exact ⟨⟨h.baseWF, h.none0, h.keysNodup, h.keys, h.len, h.allWF, Nat.zero_le _⟩, rfl⟩
    case getIndex key cur => exact ⟨h, if_pos rfl⟩
    case setIndex key idx cur =>
      cases cur
      · exact ⟨⟨h.baseWF, h.none0, h.keysNodup, h.keys, h.len, h.allWF, h.cur⟩, rfl⟩
      · exact ⟨⟨h.baseWF, h.none0, h.keysNodup, h.keys, h.len, h.allWF, h.cur⟩, rfl⟩
    case xSetCurrent k =>
      by_cases hk : k ≤ c.count
      · have e : Ctx.step c (.xSetCurrent k) = ({ c with current := k }, .ok) := by
          simp only [Ctx.step, checkExists, hk, decide_true, Bool.not_true, Bool.false_eq_true, if_false]
        rw [e]
        refine ⟨⟨h.baseWF, h.none0, h.keysNodup, h.keys, h.len, h.allWF, hk⟩, ?_⟩
        show (if ((absCtx c).mgmt (.xSetCurrent k)).2 = Out.ok then some ((absCtx c).mgmt (.xSetCurrent k)).1 else none) = _
        simp only [mgmt, hlen, hk, if_true]; rfl
      · have e : Ctx.step c (.xSetCurrent k) = (c, .err) := by
          simp only [Ctx.step, checkExists, hk, decide_false, Bool.not_false, if_true]
        rw [e]
        refine ⟨h, ?_⟩
        show (if ((absCtx c).mgmt (.xSetCurrent k)).2 = Out.err then some ((absCtx c).mgmt (.xSetCurrent k)).1 else none) = _
        simp only [mgmt, hlen, hk, if_false, if_true]
    case xAddNew d =>
      have hfresh : has c.extrasList (c.count + 1) = false := by rw [h.keys]; simp
      have hm : c.extras.getD [] = c.extrasList := rfl
      have hins : mInsert c.extrasList (c.count + 1) UGraph.init = (c.count + 1, UGraph.init) :: c.extrasList := by
        unfold mInsert; rw [← mRemove, filter_ne_of_not_has _ _ hfresh]
      have hinv : ∀ cur', cur' ≤ c.count + 1 →
          Inv { c with extras := some ((c.count + 1, UGraph.init) :: c.extrasList), count := c.count + 1, current := cur' } := by
        intro cur' hc
        refine ⟨h.baseWF, (fun hn => by cases hn), ?_, ?_, ?_, ?_, hc⟩
        · show (((c.count + 1, UGraph.init) :: c.extrasList).map (·.1)).Nodup
          rw [List.map_cons, List.nodup_cons]
          exact ⟨(has_false_iff _ _).1 hfresh, h.keysNodup⟩
        · intro k
          show has ((c.count + 1, UGraph.init) :: c.extrasList) k = _
          rw [has_cons, h.keys, Bool.eq_iff_iff]
          simp only [Bool.or_eq_true, Bool.and_eq_true, beq_iff_eq, decide_eq_true_eq]
          omega
        · show ((c.count + 1, UGraph.init) :: c.extrasList).length = c.count + 1
          rw [List.length_cons, h.len]
        · intro x hx
          rcases List.mem_cons.1 hx with rfl | hx
          · exact wf_init
          · exact h.allWF x hx
      cases d
      · have e : Ctx.step c (.xAddNew false) =
            ({ c with extras := some ((c.count + 1, UGraph.init) :: c.extrasList), count := c.count + 1 },
              .nat (c.count + 1)) := by
          simp only [Ctx.step, hm, hins]; rfl
        rw [e]
        refine ⟨hinv c.current (Nat.le_succ_of_le h.cur), ?_⟩
        show (if ((absCtx c).mgmt (.xAddNew false)).2 = Out.nat (c.count + 1)
          then some ((absCtx c).mgmt (.xAddNew false)).1 else none) = _
        simp only [mgmt, hlen, if_true]; rfl
      · have e : Ctx.step c (.xAddNew true) =
            ({ c with extras := some ((c.count + 1, UGraph.init) :: c.extrasList), count := c.count + 1,
                      current := c.count + 1 }, .nat (c.count + 1)) := by
          simp only [Ctx.step, hm, hins]; rfl
        rw [e]
        refine ⟨hinv (c.count + 1) (Nat.le_refl _), ?_⟩
        show (if ((absCtx c).mgmt (.xAddNew true)).2 = Out.nat (c.count + 1)
          then some ((absCtx c).mgmt (.xAddNew true)).1 else none) = _
        simp only [mgmt, hlen, if_true]; rfl

theorem c09_run_refines (ops : List Op) : ∀ {c : Ctx}, Inv c →
    Inv (Ctx.run c ops).1 ∧
    Spec.Context.run (absCtx c) (ops.zip (Ctx.run c ops).2) = some (absCtx (Ctx.run c ops).1) := by
  induction ops with
  | nil => intro c h; exact ⟨h, rfl⟩
  | cons op rest ih =>
    intro c h
    obtain ⟨hinv, hst⟩ := c09_step_refines h op
    obtain ⟨hinv', hrun⟩ := ih hinv
    refine ⟨hinv', ?_⟩
    show Spec.Context.run (absCtx c) ((op, (Ctx.step c op).2) :: rest.zip (Ctx.run (Ctx.step c op).1 rest).2) = _
    simp only [Spec.Context.run, hst]
    exact hrun

/-- **C09, main statement.** For every history interleaving base-context operations, creation of extra contexts,
switching, extra-context operations and index-map operations, started on a fresh context: every output of the
implementation model is allowed by the specification (each store answers as a plain directed-graph store, an
operation touches only the store it addresses) and the final states correspond. -/
theorem c09_refinement (ops : List Op) :
    Spec.Context.run {} (ops.zip (Ctx.run Ctx.init ops).2) = some (absCtx (Ctx.run Ctx.init ops).1) :=
  (c09_run_refines ops inv_init).2

/-- every reachable context satisfies the invariant: base and all extra graphs are well-formed `UltraGraph`s
(so every theorem of C08 applies to each of them), the extra contexts are exactly the ids `1 … count`, the
selection is `0` or one of them -/
theorem c09_reachable_inv (ops : List Op) : Inv (Ctx.run Ctx.init ops).1 := (c09_run_refines ops inv_init).1

/-! ## frame properties -/

/-- a base-context operation changes nothing but the base context -/
theorem c09_base_ops_frame {c : Ctx} (h : Inv c) (op : Op) (gop : DiGraph.Op) (hg : op.graphOp = some (.base, gop)) :
    (Ctx.step c op).1.extras = c.extras ∧ (Ctx.step c op).1.count = c.count ∧ (Ctx.step c op).1.current = c.current ∧
    (Ctx.step c op).1.curMap = c.curMap ∧ (Ctx.step c op).1.prevMap = c.prevMap := by
  rw [base_step h.baseWF op gop hg]; exact ⟨rfl, rfl, rfl, rfl, rfl⟩

theorem mGet_map_put_ne (m : List (Nat × UGraph)) (k j : Nat) (g : UGraph) (hjk : j ≠ k) :
    mGet (m.map (fun e => if e.1 == k then (e.1, g) else e)) j = mGet m j := by
  induction m with
  | nil => rfl
  | cons e m ih =>
    rw [List.map_cons, mGet_cons, mGet_cons, ih]
    by_cases he : e.1 = k
    · have hb : (e.1 == k) = true := by simpa using he
      have : ¬ e.1 = j := by omega
      simp only [hb, if_true, if_neg this]
    · have hb : (e.1 == k) = false := by simpa using he
      simp only [hb, Bool.false_eq_true, if_false]

/-- an operation addressed to the selected extra context changes nothing but that extra context: the base context,
**every other extra context**, the selection, the number of contexts and both index maps stay as they were -/
theorem c09_extra_ops_frame {c : Ctx} (h : Inv c) (op : Op) (gop : DiGraph.Op) (hg : op.graphOp = some (.extra, gop)) :
    (Ctx.step c op).1.base = c.base ∧ (Ctx.step c op).1.count = c.count ∧ (Ctx.step c op).1.current = c.current ∧
    (Ctx.step c op).1.curMap = c.curMap ∧ (Ctx.step c op).1.prevMap = c.prevMap ∧
    ∀ k, k ≠ c.current → (Ctx.step c op).1.component k = c.component k := by
  rcases getCurrent_spec h with ⟨_, ⟨r, hr, hre⟩, _⟩ | ⟨_, g, hcur, _, hget, hwf, hex⟩
  · rw [hre] at hr
    rw [extra_step_nosel hr op gop hg]
    exact ⟨rfl, rfl, rfl, rfl, rfl, fun _ _ => rfl⟩
  · rw [extra_step_sel h g hwf hcur hget hex op gop hg]
    refine ⟨rfl, rfl, rfl, rfl, rfl, ?_⟩
    intro k hk
    unfold component
    by_cases hk0 : k = 0
    · simp [hk0]; rfl
    · have hb : (k == 0) = false := by simpa using hk0
      simp only [hb, Bool.false_eq_true, if_false]
      unfold putCurrent
      rw [hex]
      simp only [Option.map_some]
      exact mGet_map_put_ne _ _ _ _ hk

/-- management and index operations change no existing graph at all (a new extra context starts empty) -/
theorem c09_mgmt_ops_frame {c : Ctx} (h : Inv c) (op : Op) (hg : op.graphOp = none) :
    (Ctx.step c op).1.base = c.base ∧
    ∀ k g, c.component k = some g → (Ctx.step c op).1.component k = some g := by
  have hfr : has c.extrasList (c.count + 1) = false := by rw [h.keys]; simp
  cases op <;> simp only [Op.graphOp, reduceCtorEq] at hg
  case xAddNew d =>
    refine ⟨by cases d <;> rfl, ?_⟩
    intro k g hk
    have hins : mInsert (c.extras.getD []) (c.count + 1) UGraph.init = (c.count + 1, UGraph.init) :: c.extrasList := by
      show mInsert c.extrasList _ _ = _
      unfold mInsert; rw [← mRemove, filter_ne_of_not_has _ _ hfr]
    have hcomp : (Ctx.step c (.xAddNew d)).1.component k =
        if k == 0 then some c.base else mGet ((c.count + 1, UGraph.init) :: c.extrasList) k := by
      simp only [Ctx.step, hins]
      cases d <;> rfl
    rw [hcomp]
    unfold component at hk
    by_cases hk0 : k = 0
    · have hb : (k == 0) = true := by simpa using hk0
      rw [hb] at hk ⊢; exact hk
    · have hb : (k == 0) = false := by simpa using hk0
      rw [hb] at hk ⊢
      simp only [Bool.false_eq_true, if_false] at hk ⊢
      cases hx : c.extras with
      | none => rw [hx] at hk; cases hk
      | some m =>
        rw [hx] at hk
        have hk' : mGet m k = some g := hk
        have hm : c.extrasList = m := by unfold extrasList; rw [hx]; rfl
        rw [mGet_cons, hm]
        have hne : ¬ c.count + 1 = k := by
          intro e
          have : has m k = true := by rw [← mGet_isSome, hk']; rfl
          rw [← hm, ← e, hfr] at this; cases this
        rw [if_neg hne]; exact hk'
  case xCheckExists k => exact ⟨rfl, fun _ _ h => h⟩
  case xGetCurrent => exact ⟨rfl, fun _ _ h => h⟩
  case xUnset => exact ⟨rfl, fun _ _ h => h⟩
  case getIndex key cur => exact ⟨rfl, fun _ _ h => h⟩
  case setIndex key idx cur => cases cur <;> exact ⟨rfl, fun _ _ h => h⟩
  case xSetCurrent k =>
    simp only [Ctx.step]
    split
    · exact ⟨rfl, fun _ _ h => h⟩
    · exact ⟨rfl, fun _ _ h => h⟩

/-! ## selection -/

/-- **extra-context operations fail cleanly when no extra context is selected**: the answer is `err`
(`false` for the two `contains` queries) and the whole context is unchanged — in any state, reachable or not -/
theorem c09_extra_ops_without_selection_fail_clean (c : Ctx) (h0 : c.current = 0) (op : Op) (gop : DiGraph.Op)
    (hg : op.graphOp = some (.extra, gop)) : Ctx.step c op = (c, noSel gop) := by
  apply extra_step_nosel _ op gop hg
  unfold getCurrent; simp [h0]

/-- **`extra_ctx_set_current_id k` is refused iff `k` is unknown**, i.e. `k` is not `0` (= deselect) and not
the id of an existing extra context; a refusal changes nothing, an acceptance changes only the selection -/
theorem c09_set_current_refused_iff {c : Ctx} (h : Inv c) (k : Nat) :
    ((Ctx.step c (.xSetCurrent k)).2 = .err ↔ (k ≠ 0 ∧ c.component k = none)) ∧
    ((Ctx.step c (.xSetCurrent k)).2 = .err → (Ctx.step c (.xSetCurrent k)).1 = c) ∧
    ((Ctx.step c (.xSetCurrent k)).2 ≠ .err →
      (Ctx.step c (.xSetCurrent k)) = ({ c with current := k }, .ok)) := by
  have hcomp : (k ≠ 0 ∧ c.component k = none) ↔ ¬ k ≤ c.count := by
    unfold component
    by_cases hk0 : k = 0
    · simp [hk0]
    · have hb : (k == 0) = false := by simpa using hk0
      simp only [hb, Bool.false_eq_true, if_false, ne_eq, hk0, not_false_eq_true, true_and]
      have hkeys := h.keys k
      cases hx : c.extras with
      | none =>
        have := h.none0 hx
        simp only [true_iff]; omega
      | some m =>
        have hm : c.extrasList = m := by unfold extrasList; rw [hx]; rfl
        rw [hm] at hkeys
        simp only
        constructor
        · intro hn hle
          have : has m k = true := by rw [hkeys]; simp; omega
          rw [← mGet_isSome, hn] at this; cases this
        · intro hgt
          apply mGet_eq_none_of_not_has
          rw [hkeys]; simp; omega
  by_cases hk : k ≤ c.count
  · have e : Ctx.step c (.xSetCurrent k) = ({ c with current := k }, .ok) := by
      simp only [Ctx.step, checkExists, hk, decide_true, Bool.not_true, Bool.false_eq_true, if_false]
    rw [e, hcomp]
    exact ⟨⟨(fun h => by cases h), (fun h => absurd hk h)⟩, (fun h => by cases h), (fun _ => rfl)⟩
  · have e : Ctx.step c (.xSetCurrent k) = (c, .err) := by
      simp only [Ctx.step, checkExists, hk, decide_false, Bool.not_false, if_true]
    rw [e, hcomp]
    exact ⟨⟨fun _ => hk, fun _ => rfl⟩, fun _ => rfl, fun h => absurd rfl h⟩

/-! ## the two index maps -/

/-- `get_index` after `set_index` on the same key and map returns the index just set -/
theorem c09_index_get_after_set (c : Ctx) (key idx : Nat) (cur : Bool) :
    (Ctx.step (Ctx.step c (.setIndex key idx cur)).1 (.getIndex key cur)).2 = .optNat (some idx) := by
  cases cur <;> simp [Ctx.step, mInsert, mGet]

theorem mGet_mInsert_ne (m : List (Nat × Nat)) (k j v : Nat) (h : j ≠ k) : mGet (mInsert m k v) j = mGet m j := by
  unfold mInsert
  rw [mGet_cons, if_neg (fun e => h e.symm), ← mRemove, mGet_mRemove_ne _ _ _ h]

/-- the maps are independent key ↦ index maps: `set_index` on one key of one map leaves every other key of that
map and the whole other map as they were (so a lookup returns the index most recently set for that key there) -/
theorem c09_index_maps_independent (c : Ctx) (key idx : Nat) (cur : Bool) (key' : Nat) (cur' : Bool)
    (h : key' ≠ key ∨ cur' ≠ cur) :
    (Ctx.step (Ctx.step c (.setIndex key idx cur)).1 (.getIndex key' cur')).2 = (Ctx.step c (.getIndex key' cur')).2 := by
  cases cur <;> cases cur' <;> simp only [Ctx.step, Bool.false_eq_true, if_false, if_true] <;>
    first
      | rfl
      | (congr 1; apply mGet_mInsert_ne; rcases h with h | h; exact h; exact absurd rfl h)

/-- `set_index` changes nothing but the addressed map; no other operation changes an index map (reachable states) -/
theorem c09_index_maps_frame {c : Ctx} (h : Inv c) (op : Op) :
    (∀ key idx cur, op = .setIndex key idx cur →
      (Ctx.step c op).1.base = c.base ∧ (Ctx.step c op).1.extras = c.extras ∧ (Ctx.step c op).1.current = c.current ∧
      (Ctx.step c op).1.count = c.count ∧ (if cur then (Ctx.step c op).1.prevMap = c.prevMap else (Ctx.step c op).1.curMap = c.curMap)) ∧
    ((∀ key idx cur, op ≠ .setIndex key idx cur) →
      (Ctx.step c op).1.curMap = c.curMap ∧ (Ctx.step c op).1.prevMap = c.prevMap) := by
  constructor
  · intro key idx cur he; subst he
    cases cur <;> exact ⟨rfl, rfl, rfl, rfl, rfl⟩
  · intro hne
    cases hg : op.graphOp with
    | some tg =>
      obtain ⟨t, gop⟩ := tg
      cases t with
      | base => have := c09_base_ops_frame h op gop hg; exact ⟨this.2.2.2.1, this.2.2.2.2⟩
      | extra => have := c09_extra_ops_frame h op gop hg; exact ⟨this.2.2.2.1, this.2.2.2.2.1⟩
    | none =>
      cases op <;> simp only [Op.graphOp, reduceCtorEq] at hg
      case xAddNew d => cases d <;> exact ⟨rfl, rfl⟩
      case xCheckExists k => exact ⟨rfl, rfl⟩
      case xGetCurrent => exact ⟨rfl, rfl⟩
      case xUnset => exact ⟨rfl, rfl⟩
      case getIndex key cur => exact ⟨rfl, rfl⟩
      case setIndex key idx cur => exact absurd rfl (hne key idx cur)
      case xSetCurrent k => simp only [Ctx.step]; split <;> exact ⟨rfl, rfl⟩

/-! ## non-vacuity: two extra contexts and the base context holding *the same indices*, edge and node removals in
one of them, switching, a refused selection — accepted by the specification step by step -/
example :
    let ops : List Op := [.addNode 4, .addNode 5, .addEdge 0 1 2, .xAddNode 7, .xAddNew true, .xAddNode 7, .xAddNode 8,
      .xAddEdge 0 1 3, .xAddNew false, .xSetCurrent 2, .xAddNode 9, .xSetCurrent 3, .xGetCurrent, .removeEdge 0 1,
      .getNode 0, .xGetNode 0, .xSetCurrent 1, .xRemoveNode 1, .xEdgeCount, .xGetNode 0, .getNode 1, .xSetCurrent 0,
      .xGetNode 0, .setIndex 1 5 true, .setIndex 1 6 false, .getIndex 1 true, .getIndex 1 false, .getIndex 2 true]
    (Ctx.run Ctx.init ops).2 =
      [.idx 0, .idx 1, .ok, .err, .nat 1, .idx 0, .idx 1, .ok, .nat 2, .ok, .idx 0, .err, .nat 2, .ok,
       .optNat (some 4), .optNat (some 9), .ok, .ok, .nat 0, .optNat (some 7), .optNat (some 5), .ok,
       .err, .ok, .ok, .optNat (some 5), .optNat (some 6), .optNat none] ∧
    (Spec.Context.run {} (ops.zip (Ctx.run Ctx.init ops).2)).isSome = true := by decide

end C09
