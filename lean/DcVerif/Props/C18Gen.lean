import DcVerif.Gen.Collections
import DcVerif.Props.C18
/-!
# C18, tie to the source: what the translator read = the hand model

`Gen/Collections.lean` is regenerated on every run from the current Rust source of the default methods
(`tools/rs2lean_collections.py`). Every theorem `…_eq` below says that one generated definition equals the
corresponding function of `Model/Reasoning.lean` **for all inputs**: every member type `ι`, every reader dictionary
`T` (the trait's required methods), every `KeyOps` (whatever `total_cmp`, `approx_equal`, `>=`, `>`, `==` answer on
member values), every collection content. Hence every theorem of `Props/C18.lean` is a statement about what the
translator read; the corollaries `c18gen_*` at the end spell the headline laws out on the generated definitions.

The model's vocabulary is kept: `cmp := K.total_cmp`, `approx a b := K.approx_equal a b 4` (the literal `4` is
read from the source: a different number of decimals breaks `is_inferable_eq`), `ge := K.ge`, `eq := K.eq`; a member
is viewed as the model's record through `toInf T` / `toObs T` / `toModel`.

`len()` and `get_all_items()` are separate required methods; where a default method uses `len()` the equality needs
`c.len = c.get_all_items.length` (hypothesis `hlen`; the containers' own `len`, `Model.Collections.len`).

The proofs go through `List` congruence + Boolean case analysis, so that source changes which keep the meaning
(operand order of `&&`, double negations, `let`s, `for`-loop vs `.all(..)`) do not break them.
-/
namespace C18Gen
open Spec.Reasoning Model.Reasoning Gen.Collections

variable {ι κ δ : Type}

/-! ## views -/

/-- the model's 4-decimal comparison, with the number of decimals the source passes -/
def approx4 (K : KeyOps κ) : κ → κ → Bool := fun a b => K.approx_equal a b 4

/-- a member of an `Inferable` collection as the model's record -/
def toInf (T : InferableDict ι κ) (x : ι) : Inference κ := ⟨T.observation x, T.threshold x, T.effect x, T.target x⟩
/-- a member of an `Observable` collection as the model's record -/
def toObs (T : ObservableDict ι κ) (x : ι) : Observation κ := ⟨T.observation x, T.observed_effect x⟩
/-- the generated `Assumption` as the model's -/
def toModel (a : Gen.Collections.Assumption δ) : Model.Reasoning.Assumption δ :=
  { fn := a.assumption_fn, flags := ⟨a.assumption_tested, a.assumption_valid⟩ }
def ofModel (m : Model.Reasoning.Assumption δ) : Gen.Collections.Assumption δ :=
  { assumption_fn := m.fn, assumption_tested := m.flags.tested, assumption_valid := m.flags.valid }

/-! ## helpers: the model's loops as `List` functions; congruence -/

theorem allLoop_eq_all (p : ι → Bool) (loop : List ι → Bool) (hnil : loop [] = true)
    (hcons : ∀ a r, loop (a :: r) = if !p a then false else loop r) (l : List ι) : loop l = l.all p := by
  induction l with
  | nil => simp [hnil]
  | cons a r ih => rw [hcons, ih]; cases h : p a <;> simp [h]

theorem anyLoop_eq_any (p : ι → Bool) (loop : List ι → Bool) (hnil : loop [] = false)
    (hcons : ∀ a r, loop (a :: r) = if p a then true else loop r) (l : List ι) : loop l = l.any p := by
  induction l with
  | nil => simp [hnil]
  | cons a r ih => rw [hcons, ih]; cases h : p a <;> simp [h]

theorem filter_map_view {α β : Type} (f : α → β) (p : α → Bool) (q : β → Bool) (h : ∀ x, p x = q (f x)) (l : List α) :
    (l.filter p).map f = (l.map f).filter q := by
  induction l with
  | nil => rfl
  | cons a r ih => simp only [List.filter_cons, List.map_cons, h a]; split <;> simp [ih]

theorem filter_length_view {α β : Type} (f : α → β) (p : α → Bool) (q : β → Bool) (h : ∀ x, p x = q (f x)) (l : List α) :
    (l.filter p).length = ((l.map f).filter q).length := by
  rw [← filter_map_view f p q h, List.length_map]

theorem all_view {α β : Type} (f : α → β) (p : α → Bool) (q : β → Bool) (h : ∀ x, p x = q (f x)) (l : List α) :
    l.all p = (l.map f).all q := by
  induction l with
  | nil => rfl
  | cons a r ih => simp only [List.all_cons, List.map_cons, h a, ih]

theorem any_view {α β : Type} (f : α → β) (p : α → Bool) (q : β → Bool) (h : ∀ x, p x = q (f x)) (l : List α) :
    l.any p = (l.map f).any q := by
  induction l with
  | nil => rfl
  | cons a r ih => simp only [List.any_cons, List.map_cons, h a, ih]

theorem not_any_view {α β : Type} (f : α → β) (p : α → Bool) (q : β → Bool) (h : ∀ x, p x = !q (f x)) (l : List α) :
    (!l.any p) = (l.map f).all q := by
  induction l with
  | nil => rfl
  | cons a r ih => simp only [List.any_cons, List.all_cons, List.map_cons, h a, ← ih]; cases q (f a) <;> simp

theorem not_all_view {α β : Type} (f : α → β) (p : α → Bool) (q : β → Bool) (h : ∀ x, p x = !q (f x)) (l : List α) :
    (!l.all p) = (l.map f).any q := by
  induction l with
  | nil => rfl
  | cons a r ih => simp only [List.any_cons, List.all_cons, List.map_cons, h a, ← ih]; cases q (f a) <;> simp

theorem all_same {α : Type} (p q : α → Bool) (h : ∀ x, p x = q x) (l : List α) : l.all p = l.all q := by
  simpa using all_view id p q h l

theorem not_any_same {α : Type} (p q : α → Bool) (h : ∀ x, p x = !q x) (l : List α) : (!l.any p) = l.all q := by
  simpa using not_any_view id p q h l

/-- closes a pointwise goal between Boolean combinations of the same atoms, whatever the operand order -/
macro "bool_atoms" : tactic =>
  `(tactic| first
    | rfl
    | (simp; done)
    | (simp [Bool.and_comm, Bool.or_comm]; done)
    | grind)

/-! ## utils/math_utils.rs -/

theorem abs_num_eq (v : Rat) : abs_num v = absNum v := by
  simp [abs_num, absNum, ZERO, MINUS_ONE]

/-! ## types/reasoning_types/assumption: `Assumption::new`, `impl Assumable for Assumption` -/

/-- the two views of an assumption are inverse to each other: quantifying over generated assumptions is quantifying
over the model's -/
theorem assumption_views (a : Gen.Collections.Assumption δ) (m : Model.Reasoning.Assumption δ) :
    ofModel (toModel a) = a ∧ toModel (ofModel m) = m := ⟨rfl, rfl⟩

/-- a fresh assumption is untested and not valid -/
theorem assumption_new_eq (fn : δ → Bool) : toModel (Gen.Collections.Assumption.new fn) = { fn := fn } := rfl

theorem assumption_tested_eq (a : Gen.Collections.Assumption δ) :
    AssumptionImpl.assumption_tested a = (toModel a).flags.tested := rfl

theorem assumption_valid_eq (a : Gen.Collections.Assumption δ) :
    AssumptionImpl.assumption_valid a = (toModel a).flags.valid := rfl

/-- `verify_assumption`: the same stores in the same cells, the same answer -/
theorem verify_assumption_eq (a : Gen.Collections.Assumption δ) (d : δ) :
    toModel (AssumptionImpl.verify_assumption a d).1 = ((toModel a).verify d).1 ∧
    (AssumptionImpl.verify_assumption a d).2 = ((toModel a).verify d).2 := by
  rcases Bool.eq_false_or_eq_true (a.assumption_fn d) with h | h <;>
    simp [AssumptionImpl.verify_assumption, Model.Reasoning.Assumption.verify, toModel, h]

/-! ## protocols/assumable/mod.rs: `AssumableReasoning` -/
section Assumable
variable (T : AssumableDict ι δ) (c : Coll ι)

theorem all_assumptions_tested_eq :
    AssumableReasoning.all_assumptions_tested T c = allTested T.assumption_tested c.get_all_items := by
  rw [allLoop_eq_all T.assumption_tested (allTested T.assumption_tested) rfl (fun _ _ => rfl)]
  simp only [AssumableReasoning.all_assumptions_tested]
  first
    | exact all_same _ _ (fun x => by bool_atoms) _
    | exact not_any_same _ _ (fun x => by bool_atoms) _

theorem all_assumptions_valid_eq :
    AssumableReasoning.all_assumptions_valid T c = allValid T.assumption_valid c.get_all_items := by
  rw [allLoop_eq_all T.assumption_valid (allValid T.assumption_valid) rfl (fun _ _ => rfl)]
  simp only [AssumableReasoning.all_assumptions_valid]
  first
    | exact all_same _ _ (fun x => by bool_atoms) _
    | exact not_any_same _ _ (fun x => by bool_atoms) _

theorem number_assumption_valid_eq :
    AssumableReasoning.number_assumption_valid T c = ((numberValid T.assumption_valid c.get_all_items : Nat) : Rat) := by
  simp [AssumableReasoning.number_assumption_valid, numberValid]

theorem percent_assumption_valid_eq (hlen : c.len = c.get_all_items.length) :
    AssumableReasoning.percent_assumption_valid T c = percentValid T.assumption_valid c.get_all_items := by
  simp [AssumableReasoning.percent_assumption_valid, percentValid, number_assumption_valid_eq, hlen]

theorem get_all_invalid_assumptions_eq :
    AssumableReasoning.get_all_invalid_assumptions T c = getAllInvalid T.assumption_valid c.get_all_items := by
  simp [AssumableReasoning.get_all_invalid_assumptions, getAllInvalid]

theorem get_all_valid_assumptions_eq :
    AssumableReasoning.get_all_valid_assumptions T c = getAllValid T.assumption_valid c.get_all_items := by
  simp [AssumableReasoning.get_all_valid_assumptions, getAllValid]

theorem get_all_tested_assumptions_eq :
    AssumableReasoning.get_all_tested_assumptions T c = getAllTested T.assumption_tested c.get_all_items := by
  simp [AssumableReasoning.get_all_tested_assumptions, getAllTested]

theorem get_all_untested_assumptions_eq :
    AssumableReasoning.get_all_untested_assumptions T c = getAllUntested T.assumption_tested c.get_all_items := by
  simp [AssumableReasoning.get_all_untested_assumptions, getAllUntested]

end Assumable

/-- `verify_all_assumptions` on a collection of `Assumption`s: every member verified on the data, in place -/
theorem verify_all_assumptions_eq (c : Coll (Gen.Collections.Assumption δ)) (d : δ) :
    (AssumableReasoning.verify_all_assumptions AssumptionImpl.dict c d).map toModel =
      verifyAll (c.get_all_items.map toModel) d := by
  simp only [AssumableReasoning.verify_all_assumptions, verifyAll, AssumptionImpl.dict, List.map_map]
  apply List.map_congr_left
  intro a _
  exact (verify_assumption_eq a d).1

/-! ## protocols/inferable/mod.rs: `Inferable`, `InferableReasoning` -/
section Inferable
variable (K : KeyOps κ) (T : InferableDict ι κ)

theorem is_inferable_eq (x : ι) :
    Inferable.is_inferable K T x = isInferable K.total_cmp (approx4 K) (toInf T x) := by
  simp only [Inferable.is_inferable, isInferable, approx4, toInf] <;> bool_atoms

theorem is_inverse_inferable_eq (x : ι) :
    Inferable.is_inverse_inferable K T x = isInverseInferable K.total_cmp (approx4 K) (toInf T x) := by
  simp only [Inferable.is_inverse_inferable, isInverseInferable, approx4, toInf] <;> bool_atoms

/-- the member predicate of the `non_inferable` family, in either operand order -/
theorem is_non_inferable_eq (x : ι) :
    (Inferable.is_inferable K T x && Inferable.is_inverse_inferable K T x) =
      isNonInferable K.total_cmp (approx4 K) (toInf T x) ∧
    (Inferable.is_inverse_inferable K T x && Inferable.is_inferable K T x) =
      isNonInferable K.total_cmp (approx4 K) (toInf T x) := by
  simp only [isNonInferable, is_inferable_eq, is_inverse_inferable_eq, Bool.and_comm, and_self]

theorem item_conjoint_delta_eq (x : ι) :
    Inferable.conjoint_delta K T x = itemConjointDelta K.val (toInf T x) := by
  simp [Inferable.conjoint_delta, itemConjointDelta, abs_num_eq, toInf]

variable (c : Coll ι)

theorem get_all_inferable_eq :
    (InferableReasoning.get_all_inferable K T c).map (toInf T) =
      getAllInferable K.total_cmp (approx4 K) (c.get_all_items.map (toInf T)) := by
  simp only [InferableReasoning.get_all_inferable, getAllInferable]
  exact filter_map_view _ _ _ (fun x => by simp only [is_inferable_eq]) _

theorem get_all_inverse_inferable_eq :
    (InferableReasoning.get_all_inverse_inferable K T c).map (toInf T) =
      getAllInverseInferable K.total_cmp (approx4 K) (c.get_all_items.map (toInf T)) := by
  simp only [InferableReasoning.get_all_inverse_inferable, getAllInverseInferable]
  exact filter_map_view _ _ _ (fun x => by simp only [is_inverse_inferable_eq]) _

theorem get_all_non_inferable_eq :
    (InferableReasoning.get_all_non_inferable K T c).map (toInf T) =
      getAllNonInferable K.total_cmp (approx4 K) (c.get_all_items.map (toInf T)) := by
  simp only [InferableReasoning.get_all_non_inferable, getAllNonInferable]
  exact filter_map_view _ _ _ (fun x => by
    simp only [isNonInferable, is_inferable_eq, is_inverse_inferable_eq] <;> bool_atoms) _

theorem all_inferable_eq :
    InferableReasoning.all_inferable K T c = allInferable K.total_cmp (approx4 K) (c.get_all_items.map (toInf T)) := by
  rw [allLoop_eq_all (isInferable K.total_cmp (approx4 K)) (allInferable _ _) rfl (fun _ _ => rfl)]
  simp only [InferableReasoning.all_inferable]
  first
    | exact all_view _ _ _ (fun x => by simp only [is_inferable_eq] <;> bool_atoms) _
    | exact not_any_view _ _ _ (fun x => by simp only [is_inferable_eq] <;> bool_atoms) _

theorem all_inverse_inferable_eq :
    InferableReasoning.all_inverse_inferable K T c =
      allInverseInferable K.total_cmp (approx4 K) (c.get_all_items.map (toInf T)) := by
  rw [allLoop_eq_all (isInverseInferable K.total_cmp (approx4 K)) (allInverseInferable _ _) rfl (fun _ _ => rfl)]
  simp only [InferableReasoning.all_inverse_inferable]
  first
    | exact all_view _ _ _ (fun x => by simp only [is_inverse_inferable_eq] <;> bool_atoms) _
    | exact not_any_view _ _ _ (fun x => by simp only [is_inverse_inferable_eq] <;> bool_atoms) _

/-- `all_non_inferable` (sic: answers whether *some* member is both) -/
theorem all_non_inferable_eq :
    InferableReasoning.all_non_inferable K T c =
      allNonInferable K.total_cmp (approx4 K) (c.get_all_items.map (toInf T)) := by
  rw [anyLoop_eq_any (fun e => isInverseInferable K.total_cmp (approx4 K) e && isInferable K.total_cmp (approx4 K) e)
    (allNonInferable _ _) rfl (fun _ _ => rfl)]
  simp only [InferableReasoning.all_non_inferable]
  first
    | exact any_view _ _ _ (fun x => by simp only [is_inferable_eq, is_inverse_inferable_eq] <;> bool_atoms) _
    | exact not_all_view _ _ _ (fun x => by simp only [is_inferable_eq, is_inverse_inferable_eq] <;> bool_atoms) _

theorem number_inferable_eq :
    InferableReasoning.number_inferable K T c =
      ((numberInferable K.total_cmp (approx4 K) (c.get_all_items.map (toInf T)) : Nat) : Rat) := by
  simp only [InferableReasoning.number_inferable, numberInferable]
  rw [filter_length_view (toInf T) _ (isInferable K.total_cmp (approx4 K)) (fun x => by simp only [is_inferable_eq])]

theorem number_inverse_inferable_eq :
    InferableReasoning.number_inverse_inferable K T c =
      ((numberInverseInferable K.total_cmp (approx4 K) (c.get_all_items.map (toInf T)) : Nat) : Rat) := by
  simp only [InferableReasoning.number_inverse_inferable, numberInverseInferable]
  rw [filter_length_view (toInf T) _ (isInverseInferable K.total_cmp (approx4 K))
    (fun x => by simp only [is_inverse_inferable_eq])]

theorem number_non_inferable_eq :
    InferableReasoning.number_non_inferable K T c =
      ((numberNonInferable K.total_cmp (approx4 K) (c.get_all_items.map (toInf T)) : Nat) : Rat) := by
  simp only [InferableReasoning.number_non_inferable, numberNonInferable]
  rw [filter_length_view (toInf T) _ (isNonInferable K.total_cmp (approx4 K)) (fun x => by
    simp only [isNonInferable, is_inferable_eq, is_inverse_inferable_eq] <;> bool_atoms)]

variable (hlen : c.len = c.get_all_items.length)
include hlen

theorem percent_inferable_eq :
    InferableReasoning.percent_inferable K T c =
      percentInferable K.total_cmp (approx4 K) (c.get_all_items.map (toInf T)) := by
  simp [InferableReasoning.percent_inferable, percentInferable, percentOf, number_inferable_eq, hlen]

theorem percent_inverse_inferable_eq :
    InferableReasoning.percent_inverse_inferable K T c =
      percentInverseInferable K.total_cmp (approx4 K) (c.get_all_items.map (toInf T)) := by
  simp [InferableReasoning.percent_inverse_inferable, percentInverseInferable, percentOf, number_inverse_inferable_eq,
    hlen]

theorem percent_non_inferable_eq :
    InferableReasoning.percent_non_inferable K T c =
      percentNonInferable K.total_cmp (approx4 K) (c.get_all_items.map (toInf T)) := by
  simp [InferableReasoning.percent_non_inferable, percentNonInferable, percentOf, number_non_inferable_eq, hlen]

theorem conjoint_delta_eq :
    InferableReasoning.conjoint_delta K T c =
      conjointDelta K.total_cmp (approx4 K) (c.get_all_items.map (toInf T)) := by
  simp [InferableReasoning.conjoint_delta, conjointDelta, abs_num_eq, number_non_inferable_eq, hlen]

end Inferable

/-! ## protocols/observable/mod.rs: `Observable`, `ObservableReasoning` -/
section Observable
variable (K : KeyOps κ) (T : ObservableDict ι κ)

theorem effect_observed_eq (x : ι) (thr e : κ) :
    Observable.effect_observed K T x thr e = effectObserved K.ge K.eq thr e (toObs T x) := by
  simp only [Observable.effect_observed, effectObserved, toObs] <;> bool_atoms

variable (c : Coll ι) (thr e : κ)

theorem number_observation_eq :
    ObservableReasoning.number_observation K T c thr e =
      ((numberObservation K.ge K.eq (c.get_all_items.map (toObs T)) thr e : Nat) : Rat) := by
  simp only [ObservableReasoning.number_observation, numberObservation]
  rw [filter_length_view (toObs T) _ (effectObserved K.ge K.eq thr e) (fun x => by simp only [effect_observed_eq])]

variable (hlen : c.len = c.get_all_items.length)
include hlen

theorem number_non_observation_eq :
    ObservableReasoning.number_non_observation K T c thr e =
      ((numberNonObservation K.ge K.eq (c.get_all_items.map (toObs T)) thr e : Int) : Rat) := by
  simp [ObservableReasoning.number_non_observation, numberNonObservation, number_observation_eq, hlen,
    Rat.intCast_sub, Rat.intCast_natCast]

theorem percent_observation_eq :
    ObservableReasoning.percent_observation K T c thr e =
      percentObservation K.ge K.eq (c.get_all_items.map (toObs T)) thr e := by
  simp [ObservableReasoning.percent_observation, percentObservation, number_observation_eq, hlen]

theorem percent_non_observation_eq :
    ObservableReasoning.percent_non_observation K T c thr e =
      percentNonObservation K.ge K.eq (c.get_all_items.map (toObs T)) thr e := by
  simp [ObservableReasoning.percent_non_observation, percentNonObservation, percent_observation_eq, hlen]

end Observable

/-! ## the laws of C18, on the generated definitions

Corollaries of the equalities above and of the theorems of `Props/C18.lean`: the property's statements, said directly
about what the translator emitted for the current source. -/
section Laws

theorem count_map_view {α β : Type} (f : α → β) (q : β → Bool) (l : List α) :
    count q (l.map f) = count (fun x => q (f x)) l := by
  induction l with
  | nil => rfl
  | cons a r ih => simp only [List.map_cons, count, ih]

theorem count_congr_fun {α : Type} (p q : α → Bool) (h : ∀ x, p x = q x) (l : List α) : count p l = count q l := by
  have : p = q := funext h
  rw [this]

/-- **no member is both inferable and inverse-inferable**, whatever the comparisons answer -/
theorem c18gen_not_both_inferable (K : KeyOps κ) (T : InferableDict ι κ) (x : ι) :
    ¬ (Inferable.is_inferable K T x = true ∧ Inferable.is_inverse_inferable K T x = true) := by
  rw [is_inferable_eq, is_inverse_inferable_eq]
  exact (C18.c18_not_both_inferable K.total_cmp (approx4 K) (toInf T x)).1

/-- **inference counts and percentages**: every count is the number of members satisfying the generated member
predicate, the two counts never exceed the size together, percentages are count / size × 100 exactly, and the
`non_inferable` family is empty / zero -/
theorem c18gen_inferable_counts (K : KeyOps κ) (T : InferableDict ι κ) (c : Coll ι)
    (hlen : c.len = c.get_all_items.length) (hne : c.get_all_items ≠ []) :
    InferableReasoning.number_inferable K T c = (count (Inferable.is_inferable K T) c.get_all_items : Rat) ∧
    InferableReasoning.number_inverse_inferable K T c =
      (count (Inferable.is_inverse_inferable K T) c.get_all_items : Rat) ∧
    count (Inferable.is_inferable K T) c.get_all_items + count (Inferable.is_inverse_inferable K T) c.get_all_items
      ≤ c.get_all_items.length ∧
    InferableReasoning.percent_inferable K T c * (c.len : Rat) =
      100 * (count (Inferable.is_inferable K T) c.get_all_items : Rat) ∧
    InferableReasoning.percent_inverse_inferable K T c * (c.len : Rat) =
      100 * (count (Inferable.is_inverse_inferable K T) c.get_all_items : Rat) ∧
    InferableReasoning.get_all_non_inferable K T c = [] ∧ InferableReasoning.number_non_inferable K T c = 0 ∧
    InferableReasoning.percent_non_inferable K T c = 0 ∧ InferableReasoning.conjoint_delta K T c = 0 ∧
    InferableReasoning.all_non_inferable K T c = false := by
  have hm := C18.c18_inferable_counts K.total_cmp (approx4 K) (c.get_all_items.map (toInf T))
  have hne' : c.get_all_items.map (toInf T) ≠ [] := by simpa using hne
  have hp := C18.c18_percent_inferable K.total_cmp (approx4 K) (c.get_all_items.map (toInf T)) hne'
  have hn := C18.c18_non_inferable_family K.total_cmp (approx4 K) (c.get_all_items.map (toInf T))
  have ci : count (isInferable K.total_cmp (approx4 K)) (c.get_all_items.map (toInf T)) =
      count (Inferable.is_inferable K T) c.get_all_items := by
    rw [count_map_view]; exact count_congr_fun _ _ (fun x => (is_inferable_eq K T x).symm) _
  have cv : count (isInverseInferable K.total_cmp (approx4 K)) (c.get_all_items.map (toInf T)) =
      count (Inferable.is_inverse_inferable K T) c.get_all_items := by
    rw [count_map_view]; exact count_congr_fun _ _ (fun x => (is_inverse_inferable_eq K T x).symm) _
  have hl : ((c.get_all_items.map (toInf T)).length : Rat) = (c.len : Rat) := by simp [hlen]
  refine ⟨?_, ?_, ?_, ?_, ?_, ?_, ?_, ?_, ?_, ?_⟩
  · rw [number_inferable_eq, hm.1, ci]
  · rw [number_inverse_inferable_eq, hm.2.1, cv]
  · have := hm.2.2.2.2.2.2.2.2
    rw [hm.1, hm.2.1, ci, cv] at this
    simpa using this
  · rw [percent_inferable_eq K T c hlen, ← hl, hp.2.2.2.1, ci]
  · rw [percent_inverse_inferable_eq K T c hlen, ← hl, hp.2.2.2.2, cv]
  · have := get_all_non_inferable_eq K T c
    rw [hn.1] at this
    simpa using this
  · rw [number_non_inferable_eq, hn.2.1]; rfl
  · rw [percent_non_inferable_eq K T c hlen, hn.2.2.2.1]
  · rw [conjoint_delta_eq K T c hlen, hn.2.2.2.2 hne']
  · rw [all_non_inferable_eq, hn.2.2.1]

/-- **assumption aggregates**: valid/invalid and tested/untested partition the collection, the count is the number of
valid members and the percentage is valid / size × 100 exactly -/
theorem c18gen_assumable (T : AssumableDict ι δ) (c : Coll ι) (hlen : c.len = c.get_all_items.length)
    (hne : c.get_all_items ≠ []) :
    (AssumableReasoning.get_all_valid_assumptions T c ++ AssumableReasoning.get_all_invalid_assumptions T c).Perm
      c.get_all_items ∧
    (AssumableReasoning.get_all_tested_assumptions T c ++ AssumableReasoning.get_all_untested_assumptions T c).Perm
      c.get_all_items ∧
    (∀ a, a ∈ AssumableReasoning.get_all_valid_assumptions T c →
      a ∉ AssumableReasoning.get_all_invalid_assumptions T c) ∧
    (∀ a, a ∈ AssumableReasoning.get_all_tested_assumptions T c →
      a ∉ AssumableReasoning.get_all_untested_assumptions T c) ∧
    AssumableReasoning.number_assumption_valid T c = (count T.assumption_valid c.get_all_items : Rat) ∧
    AssumableReasoning.percent_assumption_valid T c * (c.len : Rat) =
      100 * (count T.assumption_valid c.get_all_items : Rat) ∧
    (AssumableReasoning.all_assumptions_tested T c = true ↔ ∀ a ∈ c.get_all_items, T.assumption_tested a = true) ∧
    (AssumableReasoning.all_assumptions_valid T c = true ↔ ∀ a ∈ c.get_all_items, T.assumption_valid a = true) := by
  have hp := C18.c18_assumable_partition T.assumption_tested T.assumption_valid c.get_all_items
  have hc := C18.c18_assumable_counts T.assumption_tested T.assumption_valid c.get_all_items
  have hv := C18.c18_percent_assumption_valid T.assumption_valid c.get_all_items hne
  rw [get_all_valid_assumptions_eq, get_all_invalid_assumptions_eq, get_all_tested_assumptions_eq,
    get_all_untested_assumptions_eq, number_assumption_valid_eq, percent_assumption_valid_eq T c hlen,
    all_assumptions_tested_eq, all_assumptions_valid_eq, hlen]
  exact ⟨hp.1, hp.2.1, hp.2.2.1, hp.2.2.2.1, by rw [hc.1], hv.2, hc.2.1, hc.2.2.1⟩

/-- **observation aggregates**: the count is the number of members observed, `number_non_observation` the number of
members not observed, the two percentages are on the scale 0…1 and add up to 1 -/
theorem c18gen_observable (K : KeyOps κ) (T : ObservableDict ι κ) (c : Coll ι) (thr e : κ)
    (hlen : c.len = c.get_all_items.length) (hne : c.get_all_items ≠ []) :
    ObservableReasoning.number_observation K T c thr e =
      (count (fun o => Observable.effect_observed K T o thr e) c.get_all_items : Rat) ∧
    ObservableReasoning.number_non_observation K T c thr e =
      (count (fun o => !Observable.effect_observed K T o thr e) c.get_all_items : Rat) ∧
    ObservableReasoning.percent_observation K T c thr e * (c.len : Rat) =
      (count (fun o => Observable.effect_observed K T o thr e) c.get_all_items : Rat) ∧
    ObservableReasoning.percent_observation K T c thr e + ObservableReasoning.percent_non_observation K T c thr e = 1 := by
  have hne' : c.get_all_items.map (toObs T) ≠ [] := by simpa using hne
  have hn := C18.c18_number_observation K.ge K.eq (c.get_all_items.map (toObs T)) thr e
  have hp := C18.c18_percent_observation K.ge K.eq (c.get_all_items.map (toObs T)) thr e hne'
  have co : count (effectObserved K.ge K.eq thr e) (c.get_all_items.map (toObs T)) =
      count (fun o => Observable.effect_observed K T o thr e) c.get_all_items := by
    rw [count_map_view]; exact count_congr_fun _ _ (fun x => (effect_observed_eq K T x thr e).symm) _
  have cn : count (fun o => !effectObserved K.ge K.eq thr e o) (c.get_all_items.map (toObs T)) =
      count (fun o => !Observable.effect_observed K T o thr e) c.get_all_items := by
    rw [count_map_view]; exact count_congr_fun _ _ (fun x => by rw [effect_observed_eq]) _
  have hl : ((c.get_all_items.map (toObs T)).length : Rat) = (c.len : Rat) := by simp [hlen]
  have hl0 : (c.len : Rat) ≠ 0 := by
    have : c.get_all_items.length ≠ 0 := by simpa using hne
    rw [hlen]; exact_mod_cast this
  refine ⟨?_, ?_, ?_, ?_⟩
  · rw [number_observation_eq, hn.1, co]
  · rw [number_non_observation_eq K T c thr e hlen, hn.2.2.1, cn]; simp [Rat.intCast_natCast]
  · rw [percent_observation_eq K T c thr e hlen, hp.1, co]
    simp only [percent, hl]; grind
  · rw [percent_observation_eq K T c thr e hlen, percent_non_observation_eq K T c thr e hlen]; exact hp.2.2

/-- verifying one generated assumption along a history of data values (oldest first) -/
def genRun (a : Gen.Collections.Assumption δ) : List δ → Gen.Collections.Assumption δ × List Bool
  | [] => (a, [])
  | d :: rest =>
    let r := AssumptionImpl.verify_assumption a d
    let rr := genRun r.1 rest
    (rr.1, r.2 :: rr.2)

theorem genRun_eq (a : Gen.Collections.Assumption δ) (ds : List δ) :
    toModel (genRun a ds).1 = (C18.verifyRun (toModel a) ds).1 ∧ (genRun a ds).2 = (C18.verifyRun (toModel a) ds).2 := by
  induction ds generalizing a with
  | nil => exact ⟨rfl, rfl⟩
  | cons d rest ih =>
    obtain ⟨h1, h2⟩ := ih (AssumptionImpl.verify_assumption a d).1
    obtain ⟨e1, e2⟩ := verify_assumption_eq a d
    simp only [genRun, C18.verifyRun, h1, h2, e1, e2, and_self]

/-- **flags over every verification history**, for the generated `Assumption::new` / `verify_assumption` / readers:
every call answers the function's verdict; the assumption is tested exactly from the first verification on, and valid
exactly if some verification answered `true` -/
theorem c18gen_flags (fn : δ → Bool) (ds : List δ) :
    let a := (genRun (Gen.Collections.Assumption.new fn) ds).1
    (genRun (Gen.Collections.Assumption.new fn) ds).2 = ds.map fn ∧
    (AssumptionImpl.assumption_tested a = true ↔ ds ≠ []) ∧
    (AssumptionImpl.assumption_valid a = true ↔ ∃ d ∈ ds, fn d = true) := by
  intro a
  obtain ⟨h1, h2⟩ := genRun_eq (Gen.Collections.Assumption.new fn) ds
  have ht := C18.c18_tested_from_first_verify_on fn ds
  have hv := C18.c18_valid_only_after_true fn ds
  rw [assumption_new_eq] at h1 h2
  refine ⟨by rw [h2]; exact ht.2.2, ?_, ?_⟩
  · rw [assumption_tested_eq, h1]; exact ht.2.1
  · rw [assumption_valid_eq, h1]; exact hv.2.1

-- non-vacuity: three inferences over `Int` keys through the generated definitions
example : let K : KeyOps Int := ⟨compare, fun a b _ => a == b, fun a b => decide (a ≥ b), fun a b => decide (a > b),
      fun a b => a == b, fun a => (a : Rat)⟩
    let T : InferableDict (Inference Int) Int := ⟨(·.obs), (·.thr), (·.eff), (·.tgt)⟩
    let c : Coll (Inference Int) := ⟨3, false, [⟨5, 3, 1, 1⟩, ⟨2, 3, 1, 1⟩, ⟨3, 3, 1, 1⟩]⟩
    (InferableReasoning.get_all_inferable K T c).length = 1 ∧ InferableReasoning.all_non_inferable K T c = false ∧
    InferableReasoning.all_inferable K T c = false ∧ c.len = c.get_all_items.length := by decide

example : (genRun (Gen.Collections.Assumption.new (fun d : Nat => d == 1)) [0, 0, 1, 0]).2 = [false, false, true, false] ∧
    AssumptionImpl.assumption_valid (genRun (Gen.Collections.Assumption.new (fun d : Nat => d == 1)) [0, 0]).1 = false ∧
    AssumptionImpl.assumption_valid (genRun (Gen.Collections.Assumption.new (fun d : Nat => d == 1)) [0, 0, 1, 0]).1 = true := by
  decide

end Laws

end C18Gen
