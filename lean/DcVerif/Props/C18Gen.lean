import DcVerif.Gen.Collections
import DcVerif.Props.C18
/-!
# C18, tie to the source: what the translator read = the hand model

`Gen/Collections.lean` is regenerated on every run from the current Rust source of the default methods
(`tools/rs2lean_collections.py`). Every theorem `…_eq` below says that one generated definition equals the
corresponding function of `Model/Reasoning.lean` **for all inputs**: every member type `ι`, every reader dictionary
`T` (the trait's required methods), every `KeyOps` (whatever `total_cmp`, `approx_equal`, `>=`, `>`, `==` answer on
member values), every collection content. Hence every theorem of `Props/C18.lean` is a statement about what the
translator read; the corollaries `c18gen_*` at the end spell the headline laws out on the generated definitions.

The model's vocabulary is kept: `cmp := K.total_cmp`, `approx a b := K.approx_equal a b 4` (the literal `4` is
read from the source: a different number of decimals breaks `is_inferable_eq`), `ge := K.ge`, `eq := K.eq`; a member
is viewed as the model's record through `toInf T` / `toObs T` / `toModel`.

`len()` and `get_all_items()` are separate required methods; where a default method uses `len()` the equality needs
`c.len = c.get_all_items.length` (hypothesis `hlen`; the containers' own `len`, `Model.Collections.len`).

The proofs go through `List` congruence + Boolean case analysis, so that source changes which keep the meaning
(operand order of `&&`, double negations, `let`s, `for`-loop vs `.all(..)`) do not break them.
-/
set_option linter.unusedSimpArgs false
set_option linter.unusedVariables false

namespace C18Gen
open Spec.Reasoning Model.Reasoning Gen.Collections

variable {ι κ δ : Type}

/-! ## views -/

/-- the model's 4-decimal comparison, with the number of decimals the source passes -/
def approx4 (K : KeyOps κ) : κ → κ → Bool := fun a b => K.approx_equal a b 4

/-- a member of an `Inferable` collection as the model's record -/
def toInf (T : InferableDict ι κ) (x : ι) : Inference κ := ⟨T.observation x, T.threshold x, T.effect x, T.target x⟩
/-- a member of an `Observable` collection as the model's record -/
def toObs (T : ObservableDict ι κ) (x : ι) : Observation κ := ⟨T.observation x, T.observed_effect x⟩
/-- the generated `Assumption` as the model's -/
def toModel (a : Gen.Collections.Assumption δ) : Model.Reasoning.Assumption δ :=
  { fn := a.assumption_fn, flags := ⟨a.assumption_tested, a.assumption_valid⟩ }
def ofModel (m : Model.Reasoning.Assumption δ) : Gen.Collections.Assumption δ :=
  { assumption_fn := m.fn, assumption_tested := m.flags.tested, assumption_valid := m.flags.valid }

/-! ## helpers: the model's loops as `List` functions; every accepted *shape* of an aggregate, through a view

The generated text of an aggregate depends on how the source spells it. Each lemma below covers one shape and is
stated through a view `f : ι → β` of the members (`l' = l.map f`; `f = id`, `l' = l` for the assumptions) and a
*pointwise* hypothesis that relates what the generated code does with one member to the model's member predicate
`q`. The theorems `…_eq` try the shapes in turn (`first`), the pointwise goals are closed by Boolean / arithmetic
case analysis over the atoms — so renamed closure parameters, operand order, double negations, `if`/`match`/early
return inside a predicate, and the choice between the shapes do not matter.

* all / any:    `.all(p)`, `for … { if !p { return false } } true`, `!….any(!p)`, `fold(true, |b, x| b && p)`,
                `let mut ok = true; for … { if !p { ok = false } } ok`, `filter(!p).count() == 0`, `filter(!p)…is_empty()`
* count:        `filter(p).count()`, `filter(p).collect().len()`, `fold(0, |n, x| n + usize::from(p))`,
                `let mut n = 0; for … { if p { n += 1 } } n`, `map(|x| usize::from(p)).sum()`, a float accumulator
* filter:       `filter(p).collect()`, `let mut v = items; v.retain(p); v`, `filter_map(|x| p.then_some(x))`,
                `let mut out = Vec::new(); for x in … { if p { out.push(x) } } out`
-/

theorem allLoop_eq_all (p : ι → Bool) (loop : List ι → Bool) (hnil : loop [] = true)
    (hcons : ∀ a r, loop (a :: r) = if !p a then false else loop r) (l : List ι) : loop l = l.all p := by
  induction l with
  | nil => simp [hnil]
  | cons a r ih => rw [hcons, ih]; cases h : p a <;> simp [h]

theorem anyLoop_eq_any (p : ι → Bool) (loop : List ι → Bool) (hnil : loop [] = false)
    (hcons : ∀ a r, loop (a :: r) = if p a then true else loop r) (l : List ι) : loop l = l.any p := by
  induction l with
  | nil => simp [hnil]
  | cons a r ih => rw [hcons, ih]; cases h : p a <;> simp [h]

section Shapes
variable {α β : Type} (f : α → β) (q : β → Bool) (l : List α) (l' : List β) (hl : l' = l.map f)
include hl

/-! ### filters -/

theorem filter_shape (p : α → Bool) (h : ∀ x, p x = q (f x)) : (l.filter p).map f = l'.filter q := by
  subst hl
  induction l with
  | nil => rfl
  | cons a r ih => simp only [List.filter_cons, List.map_cons, h a]; split <;> simp [ih]

theorem filterMap_shape (g : α → Option α) (h : ∀ x, g x = if q (f x) then some x else none) :
    (l.filterMap g).map f = l'.filter q := by
  subst hl
  induction l with
  | nil => rfl
  | cons a r ih =>
    simp only [List.filterMap_cons, List.map_cons, List.filter_cons, h a]
    cases q (f a) <;> simp [ih]

theorem foldl_push_aux (g : List α → α → List α) (h : ∀ acc x, g acc x = if q (f x) then acc ++ [x] else acc)
    (acc : List α) : (l.foldl g acc).map f = acc.map f ++ l'.filter q := by
  subst hl
  induction l generalizing acc with
  | nil => simp
  | cons a r ih =>
    rw [List.foldl_cons, ih, h]
    cases hq : q (f a) <;> simp [hq]

theorem foldl_push_shape (g : List α → α → List α) (h : ∀ acc x, g acc x = if q (f x) then acc ++ [x] else acc) :
    (l.foldl g []).map f = l'.filter q := by
  simpa using foldl_push_aux f q l l' hl g h []

/-! ### counts -/

theorem count_shape (p : α → Bool) (h : ∀ x, p x = q (f x)) : (l.filter p).length = (l'.filter q).length := by
  rw [← filter_shape f q l l' hl p h, List.length_map]

theorem foldl_count_aux (g : Nat → α → Nat) (h : ∀ n x, g n x = n + (if q (f x) then 1 else 0)) (k : Nat) :
    l.foldl g k = k + (l'.filter q).length := by
  subst hl
  induction l generalizing k with
  | nil => simp
  | cons a r ih =>
    rw [List.foldl_cons, ih, h]
    cases hq : q (f a) <;> simp [hq] <;> omega

theorem foldl_count_shape (g : Nat → α → Nat) (h : ∀ n x, g n x = n + (if q (f x) then 1 else 0)) :
    l.foldl g 0 = (l'.filter q).length := by
  simpa using foldl_count_aux f q l l' hl g h 0

theorem sum_count_shape (g : α → Nat) (h : ∀ x, g x = if q (f x) then 1 else 0) :
    (l.map g).sum = (l'.filter q).length := by
  subst hl
  induction l with
  | nil => rfl
  | cons a r ih =>
    simp only [List.map_cons, List.sum_cons, List.filter_cons, ih, h a]
    cases q (f a) <;> simp <;> omega

/-- a float accumulator (`fold(0.0, |n, x| if p { n + 1.0 } else { n })`), exact in the rational model -/
theorem foldl_ratcount_aux (g : Rat → α → Rat) (h : ∀ r x, g r x = r + (if q (f x) then 1 else 0)) (k : Rat) :
    l.foldl g k = k + (((l'.filter q).length : Nat) : Rat) := by
  subst hl
  induction l generalizing k with
  | nil => simp only [List.foldl_nil, List.map_nil, List.filter_nil, List.length_nil]; grind
  | cons a r ih =>
    rw [List.foldl_cons, ih, h]
    cases hq : q (f a) <;> simp [hq] <;> grind

theorem foldl_ratcount_shape (g : Rat → α → Rat) (h : ∀ r x, g r x = r + (if q (f x) then 1 else 0)) :
    l.foldl g 0 = (((l'.filter q).length : Nat) : Rat) := by
  have := foldl_ratcount_aux f q l l' hl g h 0
  grind

/-! ### all / any -/

theorem all_shape (p : α → Bool) (h : ∀ x, p x = q (f x)) : l.all p = l'.all q := by
  subst hl
  induction l with
  | nil => rfl
  | cons a r ih => simp only [List.all_cons, List.map_cons, h a, ih]

theorem any_shape (p : α → Bool) (h : ∀ x, p x = q (f x)) : l.any p = l'.any q := by
  subst hl
  induction l with
  | nil => rfl
  | cons a r ih => simp only [List.any_cons, List.map_cons, h a, ih]

theorem not_any_shape (p : α → Bool) (h : ∀ x, p x = !q (f x)) : (!l.any p) = l'.all q := by
  subst hl
  induction l with
  | nil => rfl
  | cons a r ih => simp only [List.any_cons, List.all_cons, List.map_cons, h a, ← ih]; cases q (f a) <;> simp

theorem not_all_shape (p : α → Bool) (h : ∀ x, p x = !q (f x)) : (!l.all p) = l'.any q := by
  subst hl
  induction l with
  | nil => rfl
  | cons a r ih => simp only [List.any_cons, List.all_cons, List.map_cons, h a, ← ih]; cases q (f a) <;> simp

theorem foldl_all_aux (g : Bool → α → Bool) (h : ∀ b x, g b x = (b && q (f x))) (b : Bool) :
    l.foldl g b = (b && l'.all q) := by
  subst hl
  induction l generalizing b with
  | nil => simp
  | cons a r ih => rw [List.foldl_cons, ih, h]; simp [Bool.and_assoc]

theorem foldl_all_shape (g : Bool → α → Bool) (h : ∀ b x, g b x = (b && q (f x))) : l.foldl g true = l'.all q := by
  simpa using foldl_all_aux f q l l' hl g h true

theorem foldl_any_aux (g : Bool → α → Bool) (h : ∀ b x, g b x = (b || q (f x))) (b : Bool) :
    l.foldl g b = (b || l'.any q) := by
  subst hl
  induction l generalizing b with
  | nil => simp
  | cons a r ih => rw [List.foldl_cons, ih, h]; simp [Bool.or_assoc]

theorem foldl_any_shape (g : Bool → α → Bool) (h : ∀ b x, g b x = (b || q (f x))) : l.foldl g false = l'.any q := by
  simpa using foldl_any_aux f q l l' hl g h false

/-- "no member fails": `filter(|x| !p(x)).count() == 0` -/
theorem count_zero_all_shape (p : α → Bool) (h : ∀ x, p x = !q (f x)) :
    decide ((l.filter p).length = 0) = l'.all q := by
  subst hl
  induction l with
  | nil => rfl
  | cons a r ih =>
    simp only [List.filter_cons, List.all_cons, List.map_cons, h a, ← ih]
    cases q (f a) <;> simp

/-- "no member fails": `filter(|x| !p(x))….is_empty()` -/
theorem isEmpty_all_shape (p : α → Bool) (h : ∀ x, p x = !q (f x)) : (l.filter p).isEmpty = l'.all q := by
  rw [← count_zero_all_shape f q l l' hl p h]
  cases l.filter p <;> simp

/-- "some member satisfies": `filter(p).count() > 0` / `!filter(p)….is_empty()` -/
theorem count_pos_any_shape (p : α → Bool) (h : ∀ x, p x = q (f x)) :
    decide ((l.filter p).length > 0) = l'.any q := by
  subst hl
  induction l with
  | nil => rfl
  | cons a r ih =>
    simp only [List.filter_cons, List.any_cons, List.map_cons, h a, ← ih]
    cases q (f a) <;> simp

end Shapes

/-- the identity view (assumptions are their own records) -/
theorem via_id {α : Type} (a b : List α) (h : a.map id = b) : a = b := by simpa using h

/-- closes a pointwise goal between Boolean (or 0/1-valued) combinations of the same atoms, whatever the operand
order and whether they are spelt with `&&`, `if`, `match` or `==` -/
macro "bool_atoms" : tactic =>
  `(tactic| first
    | rfl
    | (simp; done)
    | (simp [Bool.and_comm, Bool.or_comm]; done)
    | grind
    | (split <;> simp_all <;> done)
    | (repeat' split) <;> simp_all <;> grind)

/-- `⊢ GEN = l'.all q`, `GEN` any accepted spelling of "every member satisfies …"; `t` proves the pointwise goals -/
macro "all_shapes" f:term "," hl:term "," t:tacticSeq : tactic =>
  `(tactic| first
    | exact all_shape $f _ _ _ $hl _ (fun x => by $t)
    | exact not_any_shape $f _ _ _ $hl _ (fun x => by $t)
    | exact foldl_all_shape $f _ _ _ $hl _ (fun b x => by $t)
    | exact count_zero_all_shape $f _ _ _ $hl _ (fun x => by $t)
    | exact isEmpty_all_shape $f _ _ _ $hl _ (fun x => by $t))

/-- `⊢ GEN = l'.any q` -/
macro "any_shapes" f:term "," hl:term "," t:tacticSeq : tactic =>
  `(tactic| first
    | exact any_shape $f _ _ _ $hl _ (fun x => by $t)
    | exact not_all_shape $f _ _ _ $hl _ (fun x => by $t)
    | exact foldl_any_shape $f _ _ _ $hl _ (fun b x => by $t)
    | exact count_pos_any_shape $f _ _ _ $hl _ (fun x => by $t))

/-- `⊢ GEN.map f = l'.filter q` -/
macro "filter_shapes" f:term "," hl:term "," t:tacticSeq : tactic =>
  `(tactic| first
    | exact filter_shape $f _ _ _ $hl _ (fun x => by $t)
    | exact filterMap_shape $f _ _ _ $hl _ (fun x => by $t)
    | exact foldl_push_shape $f _ _ _ $hl _ (fun acc x => by $t))

/-- `⊢ ((GEN : Nat) : Rat) = (((l'.filter q).length : Nat) : Rat)` (or the float-accumulator form) -/
macro "count_shapes" f:term "," hl:term "," t:tacticSeq : tactic =>
  `(tactic| first
    | exact congrArg Nat.cast (count_shape $f _ _ _ $hl _ (fun x => by $t))
    | exact congrArg Nat.cast (foldl_count_shape $f _ _ _ $hl _ (fun n x => by $t))
    | exact congrArg Nat.cast (sum_count_shape $f _ _ _ $hl _ (fun x => by $t))
    | exact foldl_ratcount_shape $f _ _ _ $hl _ (fun r x => by $t))

/-! ## utils/math_utils.rs -/

theorem abs_num_eq (v : Rat) : abs_num v = absNum v := by
  unfold abs_num absNum
  simp only [ZERO, MINUS_ONE, num_partial_cmp]
  first
    | rfl
    | (simp; done)
    | grind
    | (repeat' split) <;> simp_all <;> grind

/-! ## types/reasoning_types/assumption: `Assumption::new`, `impl Assumable for Assumption` -/

/-- the two views of an assumption are inverse to each other: quantifying over generated assumptions is quantifying
over the model's -/
theorem assumption_views (a : Gen.Collections.Assumption δ) (m : Model.Reasoning.Assumption δ) :
    ofModel (toModel a) = a ∧ toModel (ofModel m) = m := ⟨rfl, rfl⟩

/-- a fresh assumption is untested and not valid -/
theorem assumption_new_eq (fn : δ → Bool) : toModel (Gen.Collections.Assumption.new fn) = { fn := fn } := rfl

theorem assumption_tested_eq (a : Gen.Collections.Assumption δ) :
    AssumptionImpl.assumption_tested a = (toModel a).flags.tested := rfl

theorem assumption_valid_eq (a : Gen.Collections.Assumption δ) :
    AssumptionImpl.assumption_valid a = (toModel a).flags.valid := rfl

/-- `verify_assumption`: the same stores in the same cells, the same answer -/
theorem verify_assumption_eq (a : Gen.Collections.Assumption δ) (d : δ) :
    toModel (AssumptionImpl.verify_assumption a d).1 = ((toModel a).verify d).1 ∧
    (AssumptionImpl.verify_assumption a d).2 = ((toModel a).verify d).2 := by
  rcases Bool.eq_false_or_eq_true (a.assumption_fn d) with h | h <;>
    simp [AssumptionImpl.verify_assumption, Model.Reasoning.Assumption.verify, toModel, h]

/-! ## protocols/assumable/mod.rs: `AssumableReasoning` -/
section Assumable
variable (T : AssumableDict ι δ) (c : Coll ι)

/-- pointwise goals of this section: nothing to rewrite, the atoms are the dictionary's readers -/
local macro "pw" : tactic => `(tactic| bool_atoms)

theorem all_assumptions_tested_eq :
    AssumableReasoning.all_assumptions_tested T c = allTested T.assumption_tested c.get_all_items := by
  rw [allLoop_eq_all T.assumption_tested (allTested T.assumption_tested) rfl (fun _ _ => rfl)]
  simp only [AssumableReasoning.all_assumptions_tested] <;>
    all_shapes id, (List.map_id _).symm, pw

theorem all_assumptions_valid_eq :
    AssumableReasoning.all_assumptions_valid T c = allValid T.assumption_valid c.get_all_items := by
  rw [allLoop_eq_all T.assumption_valid (allValid T.assumption_valid) rfl (fun _ _ => rfl)]
  simp only [AssumableReasoning.all_assumptions_valid] <;>
    all_shapes id, (List.map_id _).symm, pw

theorem number_assumption_valid_eq :
    AssumableReasoning.number_assumption_valid T c = ((numberValid T.assumption_valid c.get_all_items : Nat) : Rat) := by
  simp only [AssumableReasoning.number_assumption_valid, numberValid] <;>
    count_shapes id, (List.map_id _).symm, pw

theorem percent_assumption_valid_eq (hlen : c.len = c.get_all_items.length) :
    AssumableReasoning.percent_assumption_valid T c = percentValid T.assumption_valid c.get_all_items := by
  simp [AssumableReasoning.percent_assumption_valid, percentValid, number_assumption_valid_eq, hlen]

theorem get_all_invalid_assumptions_eq :
    AssumableReasoning.get_all_invalid_assumptions T c = getAllInvalid T.assumption_valid c.get_all_items := by
  simp only [AssumableReasoning.get_all_invalid_assumptions, getAllInvalid] <;>
    (refine via_id _ _ ?_; filter_shapes id, (List.map_id _).symm, pw)

theorem get_all_valid_assumptions_eq :
    AssumableReasoning.get_all_valid_assumptions T c = getAllValid T.assumption_valid c.get_all_items := by
  simp only [AssumableReasoning.get_all_valid_assumptions, getAllValid] <;>
    (refine via_id _ _ ?_; filter_shapes id, (List.map_id _).symm, pw)

theorem get_all_tested_assumptions_eq :
    AssumableReasoning.get_all_tested_assumptions T c = getAllTested T.assumption_tested c.get_all_items := by
  simp only [AssumableReasoning.get_all_tested_assumptions, getAllTested] <;>
    (refine via_id _ _ ?_; filter_shapes id, (List.map_id _).symm, pw)

theorem get_all_untested_assumptions_eq :
    AssumableReasoning.get_all_untested_assumptions T c = getAllUntested T.assumption_tested c.get_all_items := by
  simp only [AssumableReasoning.get_all_untested_assumptions, getAllUntested] <;>
    (refine via_id _ _ ?_; filter_shapes id, (List.map_id _).symm, pw)

end Assumable

/-- `verify_all_assumptions` on a collection of `Assumption`s: every member verified on the data, in place -/
theorem verify_all_assumptions_eq (c : Coll (Gen.Collections.Assumption δ)) (d : δ) :
    (AssumableReasoning.verify_all_assumptions AssumptionImpl.dict c d).map toModel =
      verifyAll (c.get_all_items.map toModel) d := by
  simp only [AssumableReasoning.verify_all_assumptions, verifyAll, AssumptionImpl.dict, List.map_map]
  apply List.map_congr_left
  intro a _
  exact (verify_assumption_eq a d).1

/-! ## protocols/inferable/mod.rs: `Inferable`, `InferableReasoning` -/
section Inferable
variable (K : KeyOps κ) (T : InferableDict ι κ)

theorem is_inferable_eq (x : ι) :
    Inferable.is_inferable K T x = isInferable K.total_cmp (approx4 K) (toInf T x) := by
  simp only [Inferable.is_inferable, isInferable, approx4, toInf] <;> bool_atoms

theorem is_inverse_inferable_eq (x : ι) :
    Inferable.is_inverse_inferable K T x = isInverseInferable K.total_cmp (approx4 K) (toInf T x) := by
  simp only [Inferable.is_inverse_inferable, isInverseInferable, approx4, toInf] <;> bool_atoms

/-- the member predicate of the `non_inferable` family, in either operand order -/
theorem is_non_inferable_eq (x : ι) :
    (Inferable.is_inferable K T x && Inferable.is_inverse_inferable K T x) =
      isNonInferable K.total_cmp (approx4 K) (toInf T x) ∧
    (Inferable.is_inverse_inferable K T x && Inferable.is_inferable K T x) =
      isNonInferable K.total_cmp (approx4 K) (toInf T x) := by
  simp only [isNonInferable, is_inferable_eq, is_inverse_inferable_eq, Bool.and_comm, and_self]

theorem item_conjoint_delta_eq (x : ι) :
    Inferable.conjoint_delta K T x = itemConjointDelta K.val (toInf T x) := by
  simp [Inferable.conjoint_delta, itemConjointDelta, abs_num_eq, toInf]

variable (c : Coll ι)

/-! ### the aggregates follow the member predicates *as the member type implements them*

`is_inferable`, `is_inverse_inferable`, `conjoint_delta` are provided methods of `trait Inferable`: a member type may
override them, and a call from a default method of `InferableReasoning` dispatches to the type's implementation
(`T.is_inferable`, a field of the dictionary). For **every** implementation: each filter keeps exactly the members
its member predicate accepts, each count is their number, `all_…` asks all of them. (A collection method that
re-implements a predicate instead of calling it fails these.) -/

local macro "pw0" : tactic => `(tactic| bool_atoms)

theorem get_all_inferable_dispatch :
    InferableReasoning.get_all_inferable K T c = c.get_all_items.filter T.is_inferable := by
  simp only [InferableReasoning.get_all_inferable] <;>
    (refine via_id _ _ ?_; filter_shapes id, (List.map_id _).symm, pw0)

theorem get_all_inverse_inferable_dispatch :
    InferableReasoning.get_all_inverse_inferable K T c = c.get_all_items.filter T.is_inverse_inferable := by
  simp only [InferableReasoning.get_all_inverse_inferable] <;>
    (refine via_id _ _ ?_; filter_shapes id, (List.map_id _).symm, pw0)

theorem number_inferable_dispatch :
    InferableReasoning.number_inferable K T c = (((c.get_all_items.filter T.is_inferable).length : Nat) : Rat) := by
  simp only [InferableReasoning.number_inferable] <;>
    count_shapes id, (List.map_id _).symm, pw0

theorem number_inverse_inferable_dispatch :
    InferableReasoning.number_inverse_inferable K T c =
      (((c.get_all_items.filter T.is_inverse_inferable).length : Nat) : Rat) := by
  simp only [InferableReasoning.number_inverse_inferable] <;>
    count_shapes id, (List.map_id _).symm, pw0

theorem all_inferable_dispatch :
    InferableReasoning.all_inferable K T c = c.get_all_items.all T.is_inferable := by
  simp only [InferableReasoning.all_inferable] <;>
    all_shapes id, (List.map_id _).symm, pw0

theorem all_inverse_inferable_dispatch :
    InferableReasoning.all_inverse_inferable K T c = c.get_all_items.all T.is_inverse_inferable := by
  simp only [InferableReasoning.all_inverse_inferable] <;>
    all_shapes id, (List.map_id _).symm, pw0

/-! ### … and for a member type that keeps the provided methods they are the model's -/

/-- the member type keeps the provided methods of `trait Inferable` (every type of the repository does: the translator
refuses an `impl` that overrides one) -/
structure InferableDefaults (K : KeyOps κ) (T : InferableDict ι κ) : Prop where
  is_inferable : ∀ x, T.is_inferable x = Inferable.is_inferable K T x
  is_inverse_inferable : ∀ x, T.is_inverse_inferable x = Inferable.is_inverse_inferable K T x
  conjoint_delta : ∀ x, T.conjoint_delta x = Inferable.conjoint_delta K T x

variable (hd : InferableDefaults K T)
include hd

-- pointwise goals of this section: the member type's predicates are the defaults, those are the model's, then Boolean atoms
set_option hygiene false in
local macro "pw" : tactic =>
  `(tactic| ((try simp only [hd.is_inferable, hd.is_inverse_inferable, isNonInferable, is_inferable_eq,
      is_inverse_inferable_eq]) <;> bool_atoms))

theorem get_all_inferable_eq :
    (InferableReasoning.get_all_inferable K T c).map (toInf T) =
      getAllInferable K.total_cmp (approx4 K) (c.get_all_items.map (toInf T)) := by
  simp only [InferableReasoning.get_all_inferable, getAllInferable] <;>
    filter_shapes (toInf T), rfl, pw

theorem get_all_inverse_inferable_eq :
    (InferableReasoning.get_all_inverse_inferable K T c).map (toInf T) =
      getAllInverseInferable K.total_cmp (approx4 K) (c.get_all_items.map (toInf T)) := by
  simp only [InferableReasoning.get_all_inverse_inferable, getAllInverseInferable] <;>
    filter_shapes (toInf T), rfl, pw

theorem get_all_non_inferable_eq :
    (InferableReasoning.get_all_non_inferable K T c).map (toInf T) =
      getAllNonInferable K.total_cmp (approx4 K) (c.get_all_items.map (toInf T)) := by
  simp only [InferableReasoning.get_all_non_inferable, getAllNonInferable] <;>
    filter_shapes (toInf T), rfl, pw

theorem all_inferable_eq :
    InferableReasoning.all_inferable K T c = allInferable K.total_cmp (approx4 K) (c.get_all_items.map (toInf T)) := by
  rw [allLoop_eq_all (isInferable K.total_cmp (approx4 K)) (allInferable _ _) rfl (fun _ _ => rfl)]
  simp only [InferableReasoning.all_inferable] <;>
    all_shapes (toInf T), rfl, pw

theorem all_inverse_inferable_eq :
    InferableReasoning.all_inverse_inferable K T c =
      allInverseInferable K.total_cmp (approx4 K) (c.get_all_items.map (toInf T)) := by
  rw [allLoop_eq_all (isInverseInferable K.total_cmp (approx4 K)) (allInverseInferable _ _) rfl (fun _ _ => rfl)]
  simp only [InferableReasoning.all_inverse_inferable] <;>
    all_shapes (toInf T), rfl, pw

/-- `all_non_inferable` (sic: answers whether *some* member is both) -/
theorem all_non_inferable_eq :
    InferableReasoning.all_non_inferable K T c =
      allNonInferable K.total_cmp (approx4 K) (c.get_all_items.map (toInf T)) := by
  rw [anyLoop_eq_any (fun e => isInverseInferable K.total_cmp (approx4 K) e && isInferable K.total_cmp (approx4 K) e)
    (allNonInferable _ _) rfl (fun _ _ => rfl)]
  simp only [InferableReasoning.all_non_inferable] <;>
    any_shapes (toInf T), rfl, pw

theorem number_inferable_eq :
    InferableReasoning.number_inferable K T c =
      ((numberInferable K.total_cmp (approx4 K) (c.get_all_items.map (toInf T)) : Nat) : Rat) := by
  simp only [InferableReasoning.number_inferable, numberInferable] <;>
    count_shapes (toInf T), rfl, pw

theorem number_inverse_inferable_eq :
    InferableReasoning.number_inverse_inferable K T c =
      ((numberInverseInferable K.total_cmp (approx4 K) (c.get_all_items.map (toInf T)) : Nat) : Rat) := by
  simp only [InferableReasoning.number_inverse_inferable, numberInverseInferable] <;>
    count_shapes (toInf T), rfl, pw

theorem number_non_inferable_eq :
    InferableReasoning.number_non_inferable K T c =
      ((numberNonInferable K.total_cmp (approx4 K) (c.get_all_items.map (toInf T)) : Nat) : Rat) := by
  simp only [InferableReasoning.number_non_inferable, numberNonInferable] <;>
    count_shapes (toInf T), rfl, pw

variable (hlen : c.len = c.get_all_items.length)
include hlen

theorem percent_inferable_eq :
    InferableReasoning.percent_inferable K T c =
      percentInferable K.total_cmp (approx4 K) (c.get_all_items.map (toInf T)) := by
  simp [InferableReasoning.percent_inferable, percentInferable, percentOf, number_inferable_eq K T c hd, hlen]

theorem percent_inverse_inferable_eq :
    InferableReasoning.percent_inverse_inferable K T c =
      percentInverseInferable K.total_cmp (approx4 K) (c.get_all_items.map (toInf T)) := by
  simp [InferableReasoning.percent_inverse_inferable, percentInverseInferable, percentOf,
    number_inverse_inferable_eq K T c hd, hlen]

theorem percent_non_inferable_eq :
    InferableReasoning.percent_non_inferable K T c =
      percentNonInferable K.total_cmp (approx4 K) (c.get_all_items.map (toInf T)) := by
  simp [InferableReasoning.percent_non_inferable, percentNonInferable, percentOf, number_non_inferable_eq K T c hd, hlen]

theorem conjoint_delta_eq :
    InferableReasoning.conjoint_delta K T c =
      conjointDelta K.total_cmp (approx4 K) (c.get_all_items.map (toInf T)) := by
  simp [InferableReasoning.conjoint_delta, conjointDelta, abs_num_eq, number_non_inferable_eq K T c hd, hlen]

end Inferable

/-! ## protocols/observable/mod.rs: `Observable`, `ObservableReasoning` -/
section Observable
variable (K : KeyOps κ) (T : ObservableDict ι κ)

theorem effect_observed_eq (x : ι) (thr e : κ) :
    Observable.effect_observed K T x thr e = effectObserved K.ge K.eq thr e (toObs T x) := by
  simp only [Observable.effect_observed, effectObserved, toObs] <;> bool_atoms

variable (c : Coll ι) (thr e : κ)

/-- for **every** implementation of the provided method `effect_observed`: the count is the number of members it accepts -/
theorem number_observation_dispatch :
    ObservableReasoning.number_observation K T c thr e =
      (((c.get_all_items.filter (fun o => T.effect_observed o thr e)).length : Nat) : Rat) := by
  simp only [ObservableReasoning.number_observation] <;>
    count_shapes id, (List.map_id _).symm, bool_atoms

/-- the member type keeps the provided method of `trait Observable` -/
structure ObservableDefaults (K : KeyOps κ) (T : ObservableDict ι κ) : Prop where
  effect_observed : ∀ x a b, T.effect_observed x a b = Observable.effect_observed K T x a b

variable (hd : ObservableDefaults K T)
include hd

set_option hygiene false in
local macro "pw" : tactic => `(tactic| ((try simp only [hd.effect_observed, effect_observed_eq]) <;> bool_atoms))

theorem number_observation_eq :
    ObservableReasoning.number_observation K T c thr e =
      ((numberObservation K.ge K.eq (c.get_all_items.map (toObs T)) thr e : Nat) : Rat) := by
  simp only [ObservableReasoning.number_observation, numberObservation] <;>
    count_shapes (toObs T), rfl, pw

variable (hlen : c.len = c.get_all_items.length)
include hlen

theorem number_non_observation_eq :
    ObservableReasoning.number_non_observation K T c thr e =
      ((numberNonObservation K.ge K.eq (c.get_all_items.map (toObs T)) thr e : Int) : Rat) := by
  simp [ObservableReasoning.number_non_observation, numberNonObservation, number_observation_eq K T c thr e hd, hlen,
    Rat.intCast_sub, Rat.intCast_natCast]

theorem percent_observation_eq :
    ObservableReasoning.percent_observation K T c thr e =
      percentObservation K.ge K.eq (c.get_all_items.map (toObs T)) thr e := by
  simp [ObservableReasoning.percent_observation, percentObservation, number_observation_eq K T c thr e hd, hlen]

theorem percent_non_observation_eq :
    ObservableReasoning.percent_non_observation K T c thr e =
      percentNonObservation K.ge K.eq (c.get_all_items.map (toObs T)) thr e := by
  simp [ObservableReasoning.percent_non_observation, percentNonObservation, percent_observation_eq K T c thr e hd hlen]

end Observable

/-! ## the laws of C18, on the generated definitions

Corollaries of the equalities above and of the theorems of `Props/C18.lean`: the property's statements, said directly
about what the translator emitted for the current source. -/
section Laws

theorem count_map_view {α β : Type} (f : α → β) (q : β → Bool) (l : List α) :
    count q (l.map f) = count (fun x => q (f x)) l := by
  induction l with
  | nil => rfl
  | cons a r ih => simp only [List.map_cons, count, ih]

theorem count_congr_fun {α : Type} (p q : α → Bool) (h : ∀ x, p x = q x) (l : List α) : count p l = count q l := by
  have : p = q := funext h
  rw [this]

/-- **no member is both inferable and inverse-inferable**, whatever the comparisons answer -/
theorem c18gen_not_both_inferable (K : KeyOps κ) (T : InferableDict ι κ) (x : ι) :
    ¬ (Inferable.is_inferable K T x = true ∧ Inferable.is_inverse_inferable K T x = true) := by
  rw [is_inferable_eq, is_inverse_inferable_eq]
  exact (C18.c18_not_both_inferable K.total_cmp (approx4 K) (toInf T x)).1

/-- **inference counts and percentages**: every count is the number of members satisfying the generated member
predicate, the two counts never exceed the size together, percentages are count / size × 100 exactly, and the
`non_inferable` family is empty / zero -/
theorem c18gen_inferable_counts (K : KeyOps κ) (T : InferableDict ι κ) (hd : InferableDefaults K T) (c : Coll ι)
    (hlen : c.len = c.get_all_items.length) (hne : c.get_all_items ≠ []) :
    InferableReasoning.number_inferable K T c = (count (Inferable.is_inferable K T) c.get_all_items : Rat) ∧
    InferableReasoning.number_inverse_inferable K T c =
      (count (Inferable.is_inverse_inferable K T) c.get_all_items : Rat) ∧
    count (Inferable.is_inferable K T) c.get_all_items + count (Inferable.is_inverse_inferable K T) c.get_all_items
      ≤ c.get_all_items.length ∧
    InferableReasoning.percent_inferable K T c * (c.len : Rat) =
      100 * (count (Inferable.is_inferable K T) c.get_all_items : Rat) ∧
    InferableReasoning.percent_inverse_inferable K T c * (c.len : Rat) =
      100 * (count (Inferable.is_inverse_inferable K T) c.get_all_items : Rat) ∧
    InferableReasoning.get_all_non_inferable K T c = [] ∧ InferableReasoning.number_non_inferable K T c = 0 ∧
    InferableReasoning.percent_non_inferable K T c = 0 ∧ InferableReasoning.conjoint_delta K T c = 0 ∧
    InferableReasoning.all_non_inferable K T c = false := by
  have hm := C18.c18_inferable_counts K.total_cmp (approx4 K) (c.get_all_items.map (toInf T))
  have hne' : c.get_all_items.map (toInf T) ≠ [] := by simpa using hne
  have hp := C18.c18_percent_inferable K.total_cmp (approx4 K) (c.get_all_items.map (toInf T)) hne'
  have hn := C18.c18_non_inferable_family K.total_cmp (approx4 K) (c.get_all_items.map (toInf T))
  have ci : count (isInferable K.total_cmp (approx4 K)) (c.get_all_items.map (toInf T)) =
      count (Inferable.is_inferable K T) c.get_all_items := by
    rw [count_map_view]; exact count_congr_fun _ _ (fun x => (is_inferable_eq K T x).symm) _
  have cv : count (isInverseInferable K.total_cmp (approx4 K)) (c.get_all_items.map (toInf T)) =
      count (Inferable.is_inverse_inferable K T) c.get_all_items := by
    rw [count_map_view]; exact count_congr_fun _ _ (fun x => (is_inverse_inferable_eq K T x).symm) _
  have hl : ((c.get_all_items.map (toInf T)).length : Rat) = (c.len : Rat) := by simp [hlen]
  refine ⟨?_, ?_, ?_, ?_, ?_, ?_, ?_, ?_, ?_, ?_⟩
  · rw [number_inferable_eq K T c hd, hm.1, ci]
  · rw [number_inverse_inferable_eq K T c hd, hm.2.1, cv]
  · have := hm.2.2.2.2.2.2.2.2
    rw [hm.1, hm.2.1, ci, cv] at this
    simpa using this
  · rw [percent_inferable_eq K T c hd hlen, ← hl, hp.2.2.2.1, ci]
  · rw [percent_inverse_inferable_eq K T c hd hlen, ← hl, hp.2.2.2.2, cv]
  · have := get_all_non_inferable_eq K T c hd
    rw [hn.1] at this
    simpa using this
  · rw [number_non_inferable_eq K T c hd, hn.2.1]; rfl
  · rw [percent_non_inferable_eq K T c hd hlen, hn.2.2.2.1]
  · rw [conjoint_delta_eq K T c hd hlen, hn.2.2.2.2 hne']
  · rw [all_non_inferable_eq K T c hd, hn.2.2.1]

/-- **assumption aggregates**: valid/invalid and tested/untested partition the collection, the count is the number of
valid members and the percentage is valid / size × 100 exactly -/
theorem c18gen_assumable (T : AssumableDict ι δ) (c : Coll ι) (hlen : c.len = c.get_all_items.length)
    (hne : c.get_all_items ≠ []) :
    (AssumableReasoning.get_all_valid_assumptions T c ++ AssumableReasoning.get_all_invalid_assumptions T c).Perm
      c.get_all_items ∧
    (AssumableReasoning.get_all_tested_assumptions T c ++ AssumableReasoning.get_all_untested_assumptions T c).Perm
      c.get_all_items ∧
    (∀ a, a ∈ AssumableReasoning.get_all_valid_assumptions T c →
      a ∉ AssumableReasoning.get_all_invalid_assumptions T c) ∧
    (∀ a, a ∈ AssumableReasoning.get_all_tested_assumptions T c →
      a ∉ AssumableReasoning.get_all_untested_assumptions T c) ∧
    AssumableReasoning.number_assumption_valid T c = (count T.assumption_valid c.get_all_items : Rat) ∧
    AssumableReasoning.percent_assumption_valid T c * (c.len : Rat) =
      100 * (count T.assumption_valid c.get_all_items : Rat) ∧
    (AssumableReasoning.all_assumptions_tested T c = true ↔ ∀ a ∈ c.get_all_items, T.assumption_tested a = true) ∧
    (AssumableReasoning.all_assumptions_valid T c = true ↔ ∀ a ∈ c.get_all_items, T.assumption_valid a = true) := by
  have hp := C18.c18_assumable_partition T.assumption_tested T.assumption_valid c.get_all_items
  have hc := C18.c18_assumable_counts T.assumption_tested T.assumption_valid c.get_all_items
  have hv := C18.c18_percent_assumption_valid T.assumption_valid c.get_all_items hne
  rw [get_all_valid_assumptions_eq, get_all_invalid_assumptions_eq, get_all_tested_assumptions_eq,
    get_all_untested_assumptions_eq, number_assumption_valid_eq, percent_assumption_valid_eq T c hlen,
    all_assumptions_tested_eq, all_assumptions_valid_eq, hlen]
  exact ⟨hp.1, hp.2.1, hp.2.2.1, hp.2.2.2.1, by rw [hc.1], hv.2, hc.2.1, hc.2.2.1⟩

/-- **observation aggregates**: the count is the number of members observed, `number_non_observation` the number of
members not observed, the two percentages are on the scale 0…1 and add up to 1 -/
theorem c18gen_observable (K : KeyOps κ) (T : ObservableDict ι κ) (hd : ObservableDefaults K T) (c : Coll ι) (thr e : κ)
    (hlen : c.len = c.get_all_items.length) (hne : c.get_all_items ≠ []) :
    ObservableReasoning.number_observation K T c thr e =
      (count (fun o => Observable.effect_observed K T o thr e) c.get_all_items : Rat) ∧
    ObservableReasoning.number_non_observation K T c thr e =
      (count (fun o => !Observable.effect_observed K T o thr e) c.get_all_items : Rat) ∧
    ObservableReasoning.percent_observation K T c thr e * (c.len : Rat) =
      (count (fun o => Observable.effect_observed K T o thr e) c.get_all_items : Rat) ∧
    ObservableReasoning.percent_observation K T c thr e + ObservableReasoning.percent_non_observation K T c thr e = 1 := by
  have hne' : c.get_all_items.map (toObs T) ≠ [] := by simpa using hne
  have hn := C18.c18_number_observation K.ge K.eq (c.get_all_items.map (toObs T)) thr e
  have hp := C18.c18_percent_observation K.ge K.eq (c.get_all_items.map (toObs T)) thr e hne'
  have co : count (effectObserved K.ge K.eq thr e) (c.get_all_items.map (toObs T)) =
      count (fun o => Observable.effect_observed K T o thr e) c.get_all_items := by
    rw [count_map_view]; exact count_congr_fun _ _ (fun x => (effect_observed_eq K T x thr e).symm) _
  have cn : count (fun o => !effectObserved K.ge K.eq thr e o) (c.get_all_items.map (toObs T)) =
      count (fun o => !Observable.effect_observed K T o thr e) c.get_all_items := by
    rw [count_map_view]; exact count_congr_fun _ _ (fun x => by rw [effect_observed_eq]) _
  have hl : ((c.get_all_items.map (toObs T)).length : Rat) = (c.len : Rat) := by simp [hlen]
  have hl0 : (c.len : Rat) ≠ 0 := by
    have : c.get_all_items.length ≠ 0 := by simpa using hne
    rw [hlen]; exact_mod_cast this
  refine ⟨?_, ?_, ?_, ?_⟩
  · rw [number_observation_eq K T c thr e hd, hn.1, co]
  · rw [number_non_observation_eq K T c thr e hd hlen, hn.2.2.1, cn]; simp [Rat.intCast_natCast]
  · rw [percent_observation_eq K T c thr e hd hlen, hp.1, co]
    simp only [percent, hl]; grind
  · rw [percent_observation_eq K T c thr e hd hlen, percent_non_observation_eq K T c thr e hd hlen]; exact hp.2.2

/-- verifying one generated assumption along a history of data values (oldest first) -/
def genRun (a : Gen.Collections.Assumption δ) : List δ → Gen.Collections.Assumption δ × List Bool
  | [] => (a, [])
  | d :: rest =>
    let r := AssumptionImpl.verify_assumption a d
    let rr := genRun r.1 rest
    (rr.1, r.2 :: rr.2)

theorem genRun_eq (a : Gen.Collections.Assumption δ) (ds : List δ) :
    toModel (genRun a ds).1 = (C18.verifyRun (toModel a) ds).1 ∧ (genRun a ds).2 = (C18.verifyRun (toModel a) ds).2 := by
  induction ds generalizing a with
  | nil => exact ⟨rfl, rfl⟩
  | cons d rest ih =>
    obtain ⟨h1, h2⟩ := ih (AssumptionImpl.verify_assumption a d).1
    obtain ⟨e1, e2⟩ := verify_assumption_eq a d
    simp only [genRun, C18.verifyRun, h1, h2, e1, e2, and_self]

/-- **flags over every verification history**, for the generated `Assumption::new` / `verify_assumption` / readers:
every call answers the function's verdict; the assumption is tested exactly from the first verification on, and valid
exactly if some verification answered `true` -/
theorem c18gen_flags (fn : δ → Bool) (ds : List δ) :
    let a := (genRun (Gen.Collections.Assumption.new fn) ds).1
    (genRun (Gen.Collections.Assumption.new fn) ds).2 = ds.map fn ∧
    (AssumptionImpl.assumption_tested a = true ↔ ds ≠ []) ∧
    (AssumptionImpl.assumption_valid a = true ↔ ∃ d ∈ ds, fn d = true) := by
  intro a
  obtain ⟨h1, h2⟩ := genRun_eq (Gen.Collections.Assumption.new fn) ds
  have ht := C18.c18_tested_from_first_verify_on fn ds
  have hv := C18.c18_valid_only_after_true fn ds
  rw [assumption_new_eq] at h1 h2
  refine ⟨by rw [h2]; exact ht.2.2, ?_, ?_⟩
  · rw [assumption_tested_eq, h1]; exact ht.2.1
  · rw [assumption_valid_eq, h1]; exact hv.2.1

-- non-vacuity: three inferences over `Int` keys through the generated definitions
example : let K : KeyOps Int := ⟨compare, fun a b _ => a == b, fun a b => decide (a ≥ b), fun a b => decide (a > b),
      fun a b => a == b, fun a => (a : Rat)⟩
    let T0 : InferableDict (Inference Int) Int :=
      { observation := (·.obs), threshold := (·.thr), effect := (·.eff), target := (·.tgt),
        conjoint_delta := fun _ => 0, is_inferable := fun _ => false, is_inverse_inferable := fun _ => false }
    -- a member type that keeps the provided methods: the defaults' bodies read the required methods only
    let T : InferableDict (Inference Int) Int :=
      { T0 with conjoint_delta := Inferable.conjoint_delta K T0, is_inferable := Inferable.is_inferable K T0,
                is_inverse_inferable := Inferable.is_inverse_inferable K T0 }
    let c : Coll (Inference Int) := ⟨3, false, [⟨5, 3, 1, 1⟩, ⟨2, 3, 1, 1⟩, ⟨3, 3, 1, 1⟩]⟩
    (InferableReasoning.get_all_inferable K T c).length = 1 ∧ InferableReasoning.all_non_inferable K T c = false ∧
    InferableReasoning.all_inferable K T c = false ∧ c.len = c.get_all_items.length := by decide

/-- the hypotheses `InferableDefaults` / `ObservableDefaults` are met by any member type that takes the provided methods
from the trait: build the dictionary from the required methods and let the provided ones be the defaults' bodies -/
def inferableWithDefaults (K : KeyOps κ) (obs thr eff tgt : ι → κ) : InferableDict ι κ :=
  let T0 : InferableDict ι κ := { observation := obs, threshold := thr, effect := eff, target := tgt, conjoint_delta := fun _ => 0, is_inferable := fun _ => false, is_inverse_inferable := fun _ => false }
  { T0 with conjoint_delta := Inferable.conjoint_delta K T0, is_inferable := Inferable.is_inferable K T0,
            is_inverse_inferable := Inferable.is_inverse_inferable K T0 }

example (K : KeyOps κ) (obs thr eff tgt : ι → κ) : InferableDefaults K (inferableWithDefaults K obs thr eff tgt) := by
  constructor <;> intro x <;> rfl

def observableWithDefaults (K : KeyOps κ) (obs eff : ι → κ) : ObservableDict ι κ :=
  let T0 : ObservableDict ι κ := { observation := obs, observed_effect := eff, effect_observed := fun _ _ _ => false }
  { T0 with effect_observed := Observable.effect_observed K T0 }

example (K : KeyOps κ) (obs eff : ι → κ) : ObservableDefaults K (observableWithDefaults K obs eff) := by
  constructor; intro x a b
  rfl

example : (genRun (Gen.Collections.Assumption.new (fun d : Nat => d == 1)) [0, 0, 1, 0]).2 = [false, false, true, false] ∧
    AssumptionImpl.assumption_valid (genRun (Gen.Collections.Assumption.new (fun d : Nat => d == 1)) [0, 0]).1 = false ∧
    AssumptionImpl.assumption_valid (genRun (Gen.Collections.Assumption.new (fun d : Nat => d == 1)) [0, 0, 1, 0]).1 = true := by
  decide

end Laws

end C18Gen
