import DcVerif.Lemmas.ShortestPath
import DcVerif.Props.C08
/-!
# C15 — UltraGraph shortest path is a real path of minimum total weight

`UltraMatrixGraph::shortest_path` = two `contains_node` guards + petgraph's `astar` with zero heuristic.
`astar` is an external dependency; it is **not** modelled step by step. What is proved here is the *oracle* that
judges every answer of the real implementation in the correspondence run (translation validation, up to ties):

* `c15_fw_correct` — Floyd–Warshall `fw w n u v` is the minimum weight over all walks whose intermediates are `< n`,
  and `none` iff there is no such walk (structural recursion, no fuel, no pigeonhole argument);
* `c15_bound_covers` — every live index of a graph is `< bound`, so the restriction on intermediates is vacuous;
* `c15_checkPath_sound` / `c15_checkPath_complete` — the checker accepts a node sequence iff it is a real path of
  the graph (starts at `a`, ends at `b`, every step an existing edge in its direction) and returns its weight;
* `c15_minDist_correct` — `minDist` is the least weight of a real path between live nodes, `none` iff unreachable;
* `c15_judge_some_iff`, `c15_judge_none_iff` — an answer judged OK is a real start→stop path of minimum total
  weight, resp. `none` is accepted iff an end point is absent or the target unreachable;
* `c15_shortest_path_judged_ok` — the same for the implementation model (guards included) on **every** graph reached
  by **any** build/removal history (through the refinement theorem of C08).
-/
namespace C15
open Spec Spec.DiGraph Spec.ShortestPath Model Model.UGraph

/-- Floyd–Warshall is correct: minimum over all walks with intermediates `< n`, `none` iff no such walk -/
theorem c15_fw_correct (w : Wt) (n u v : Nat) :
    (∀ d, fw w n u v = some d →
        (∃ is, Walk w u v is d) ∧ ∀ is c, Walk w u v is c → (∀ x, x ∈ is → x < n) → d ≤ c) ∧
    (fw w n u v = none → ∀ is c, Walk w u v is c → (∀ x, x ∈ is → x < n) → False) :=
  fw_correct w n u v

/-- the executed table holds the Floyd–Warshall values -/
theorem c15_table_is_fw (w : Wt) (n u v : Nat) (hu : u < n) (hv : v < n) : (fwMat w n n).get u v = fw w n u v :=
  fwMat_eq w n n (Nat.le_refl n) u v hu hv

/-- every live index is below the bound used by the oracle -/
theorem c15_bound_covers (s : DiGraph) (i : Nat) (h : s.live i = true) : i < bound s := lt_bound s i h

/-- a node sequence accepted by the checker is a real path of the graph with that weight … -/
theorem c15_checkPath_sound (s : DiGraph) (h : Spec.DiGraph.WF s) (a b : Nat) (p : List Nat) (c : Nat)
    (hc : checkPath s a b p = some c) : Path s a b p c := (checkPath_iff s h.edgesNodup a b p c).1 hc

/-- … and every real path is accepted -/
theorem c15_checkPath_complete (s : DiGraph) (h : Spec.DiGraph.WF s) (a b : Nat) (p : List Nat) (c : Nat)
    (hp : Path s a b p c) : checkPath s a b p = some c := (checkPath_iff s h.edgesNodup a b p c).2 hp

/-- a real path really is one: it starts at `a`, ends at `b`, is non-empty, and all its nodes but possibly a
trivial single one are end points of edges of the graph -/
theorem c15_path_shape (s : DiGraph) {a b : Nat} {p : List Nat} {c : Nat} (h : Path s a b p c) :
    p.head? = some a ∧ p.getLast? = some b := by
  induction h with
  | single a => exact ⟨rfl, rfl⟩
  | @cons u v b p c c' _ hp ih =>
    refine ⟨rfl, ?_⟩
    cases p with
    | nil => cases ih.1
    | cons y rest => rw [List.getLast?_cons_cons]; exact ih.2

theorem c15_minDist_correct (s : DiGraph) (h : Spec.DiGraph.WF s) (a b : Nat) (ha : s.live a = true)
    (hb : s.live b = true) :
    (∀ d, minDist s a b = some d → (∃ p, Path s a b p d) ∧ ∀ q c, Path s a b q c → d ≤ c) ∧
    (minDist s a b = none → ∀ q c, ¬ Path s a b q c) := minDist_correct s h a b ha hb

theorem judge_some_eq (s : DiGraph) (a b : Nat) (p : List Nat) :
    judge s a b (some p) = (s.live a && s.live b &&
      match checkPath s a b p with
      | some c => minDist s a b == some c
      | none => false) := rfl

theorem judge_none_eq (s : DiGraph) (a b : Nat) :
    judge s a b none = (!(s.live a && s.live b) || (minDist s a b).isNone) := rfl

/-- **an answer `some p` is judged OK iff** both end points are live and `p` is a real path from `a` to `b`
whose total weight is minimal among all such paths -/
theorem c15_judge_some_iff (s : DiGraph) (h : Spec.DiGraph.WF s) (a b : Nat) (p : List Nat) :
    judge s a b (some p) = true ↔
      s.live a = true ∧ s.live b = true ∧ ∃ c, Path s a b p c ∧ ∀ q c', Path s a b q c' → c ≤ c' := by
  rw [judge_some_eq]
  constructor
  · intro hj
    simp only [Bool.and_eq_true] at hj
    obtain ⟨⟨ha, hb⟩, hm⟩ := hj
    refine ⟨ha, hb, ?_⟩
    cases hc : checkPath s a b p with
    | none => rw [hc] at hm; cases hm
    | some c =>
      rw [hc] at hm
      have hd : minDist s a b = some c := by simpa using hm
      exact ⟨c, c15_checkPath_sound s h a b p c hc, ((minDist_correct s h a b ha hb).1 c hd).2⟩
  · rintro ⟨ha, hb, c, hp, hmin⟩
    rw [ha, hb, c15_checkPath_complete s h a b p c hp]
    obtain ⟨hsome, hnone⟩ := minDist_correct s h a b ha hb
    cases hd : minDist s a b with
    | none => exact absurd hp (hnone hd p c)
    | some d =>
      obtain ⟨⟨q, hq⟩, hle⟩ := hsome d hd
      have : d = c := Nat.le_antisymm (hle p c hp) (hmin q d hq)
      rw [this]; simp

/-- **the answer `none` is judged OK iff** an end point is absent or the target is unreachable -/
theorem c15_judge_none_iff (s : DiGraph) (h : Spec.DiGraph.WF s) (a b : Nat) :
    judge s a b none = true ↔ ¬ (s.live a = true ∧ s.live b = true) ∨ ∀ q c, ¬ Path s a b q c := by
  rw [judge_none_eq]
  by_cases hl : s.live a = true ∧ s.live b = true
  · obtain ⟨hsome, hnone⟩ := minDist_correct s h a b hl.1 hl.2
    have hab : (s.live a && s.live b) = true := by rw [hl.1, hl.2]; rfl
    constructor
    · intro hd
      rw [hab] at hd
      simp only [Bool.not_true, Bool.false_or, Option.isNone_iff_eq_none] at hd
      exact Or.inr (hnone hd)
    · rintro (hn | hn)
      · exact absurd hl hn
      · cases hd : minDist s a b with
        | none => rw [hab]; rfl
        | some d =>
          obtain ⟨⟨q, hq⟩, _⟩ := hsome d hd
          exact absurd hq (hn q d)
  · have : (s.live a && s.live b) = false := by
      cases ha : s.live a <;> cases hb : s.live b <;> simp_all
    rw [this]
    simp only [Bool.not_false, Bool.true_or, true_iff]
    exact Or.inl hl

/-- **ties do not matter.** Whatever the external search picks among equal-weight paths: two answers the oracle accepts for
the same query are paths of one and the same total weight, so "minimum total weight" does not depend on the choice -/
theorem c15_accepted_same_weight (s : DiGraph) (h : Spec.DiGraph.WF s) (a b : Nat) (p q : List Nat)
    (hp : judge s a b (some p) = true) (hq : judge s a b (some q) = true) :
    ∃ c, Path s a b p c ∧ Path s a b q c := by
  obtain ⟨_, _, c, hpc, hpmin⟩ := (c15_judge_some_iff s h a b p).1 hp
  obtain ⟨_, _, c', hqc, hqmin⟩ := (c15_judge_some_iff s h a b q).1 hq
  have : c = c' := Nat.le_antisymm (hpmin q c' hqc) (hqmin p c hpc)
  subst this
  exact ⟨c, hpc, hqc⟩

/-- … and the oracle never accepts both a path and "no path" for one query: which of the two `shortest_path` must answer is
determined by the graph alone -/
theorem c15_some_none_exclusive (s : DiGraph) (h : Spec.DiGraph.WF s) (a b : Nat) (p : List Nat)
    (hp : judge s a b (some p) = true) : judge s a b none = false := by
  obtain ⟨ha, hb, c, hpc, _⟩ := (c15_judge_some_iff s h a b p).1 hp
  cases hn : judge s a b none with
  | false => rfl
  | true =>
    rcases (c15_judge_none_iff s h a b).1 hn with hl | hno
    · exact absurd ⟨ha, hb⟩ hl
    · exact absurd hpc (hno p c)

/-- the same on every graph the API can reach: two accepted answers of `shortest_path` (two different `astar` choices) for one
query have equal total weight -/
theorem c15_reachable_ties_same_weight (ops : List Op) (a b : Nat) (p q : List Nat) :
    let g := (run .repaired init ops).1
    judge (abs g) a b (some p) = true → judge (abs g) a b (some q) = true →
      ∃ c, Path (abs g) a b p c ∧ Path (abs g) a b q c := by
  intro g hp hq
  have hwf : Model.UGraph.WF g := C08.c08_reachable_wf ops
  have hs : Spec.DiGraph.WF (abs g) := ⟨hwf.keysNodup, hwf.edgesLive, hwf.edgesOk.nodup⟩
  exact c15_accepted_same_weight (abs g) hs a b p q hp hq

/-- the guards of `shortest_path`: an absent end point yields `none` whatever `astar` would say -/
theorem c15_guards (g : UGraph) (astar : Option (List Nat)) (a b : Nat)
    (h : g.containsNode a = false ∨ g.containsNode b = false) : g.shortestPath astar a b = none := by
  unfold shortestPath
  rcases h with h | h
  · rw [h]; rfl
  · rw [h]; cases g.containsNode a <;> rfl

/-- **C15, end statement.** On every graph reached by any history of add/remove/clear operations (cycles, zero
weights, ties, self-loops included), for every ordered pair: if the oracle accepts what `shortest_path` answered
(whatever `astar` contributed), then the answer is right — a returned sequence is a real path of the graph from
start to stop of minimum total weight between two existing nodes; `none` means an end point is absent or the stop
node is unreachable. Conversely every right answer is accepted. -/
theorem c15_shortest_path_judged_ok (ops : List Op) (astar : Option (List Nat)) (a b : Nat) :
    let g := (run .repaired init ops).1
    judge (abs g) a b (g.shortestPath astar a b) = true ↔
      match g.shortestPath astar a b with
      | some p => g.containsNode a = true ∧ g.containsNode b = true ∧
          ∃ c, Path (abs g) a b p c ∧ ∀ q c', Path (abs g) a b q c' → c ≤ c'
      | none => ¬ (g.containsNode a = true ∧ g.containsNode b = true) ∨ ∀ q c, ¬ Path (abs g) a b q c := by
  intro g
  have hwf : Model.UGraph.WF g := C08.c08_reachable_wf ops
  have hs : Spec.DiGraph.WF (abs g) := ⟨hwf.keysNodup, hwf.edgesLive, hwf.edgesOk.nodup⟩
  have hl : ∀ i, (abs g).live i = g.containsNode i := fun i => (hwf.containsNode i).symm
  cases hr : g.shortestPath astar a b with
  | some p => rw [c15_judge_some_iff (abs g) hs a b p, hl, hl]
  | none => rw [c15_judge_none_iff (abs g) hs a b, hl, hl]

/-- the edges a path follows are edges the API reports -/
theorem c15_path_edges_exist (ops : List Op) (u v c : Nat) :
    let g := (run .repaired init ops).1
    (u, v, c) ∈ (abs g).edges → g.containsEdge u v = true := by
  intro g hm
  have hwf : Model.UGraph.WF g := C08.c08_reachable_wf ops
  rw [hwf.containsEdge, hasCell_iff]
  exact List.mem_map.2 ⟨(u, v, c), hm, rfl⟩

theorem path_head {s : DiGraph} {a b : Nat} {p : List Nat} {c : Nat} (h : Path s a b p c) : ∃ t, p = a :: t := by
  cases h with
  | single => exact ⟨[], rfl⟩
  | cons _ _ => exact ⟨_, rfl⟩

/-- every step of a real path — every pair of neighbours in the node sequence — is an edge of the graph -/
theorem c15_path_steps_edges {s : DiGraph} {a b : Nat} {p : List Nat} {c : Nat} (h : Path s a b p c) :
    ∀ u v, (u, v) ∈ p.zip p.tail → ∃ w, (u, v, w) ∈ s.edges := by
  induction h with
  | single a => intro u v hm; simp at hm
  | cons he hp ih =>
    intro u v hm
    obtain ⟨t, ht⟩ := path_head hp
    subst ht
    simp only [List.tail_cons, List.zip_cons_cons, List.mem_cons, Prod.mk.injEq] at hm
    rcases hm with ⟨rfl, rfl⟩ | hm
    · exact ⟨_, he⟩
    · exact ih u v (by simpa using hm)

/-- **an accepted answer only walks along edges the API reports**: on every reachable graph, each pair of neighbours in a
sequence the oracle accepts satisfies `contains_edge` -/
theorem c15_accepted_steps_are_api_edges (ops : List Op) (a b : Nat) (p : List Nat) :
    let g := (run .repaired init ops).1
    judge (abs g) a b (some p) = true → ∀ u v, (u, v) ∈ p.zip p.tail → g.containsEdge u v = true := by
  intro g hj u v hm
  have hwf : Model.UGraph.WF g := C08.c08_reachable_wf ops
  have hs : Spec.DiGraph.WF (abs g) := ⟨hwf.keysNodup, hwf.edgesLive, hwf.edgesOk.nodup⟩
  obtain ⟨_, _, c, hp, _⟩ := (c15_judge_some_iff (abs g) hs a b p).1 hj
  obtain ⟨w, hw⟩ := c15_path_steps_edges hp u v hm
  exact c15_path_edges_exist ops u v w hw

/-! ## non-vacuity: a graph with a cycle, a zero-weight edge, a tie and a self-loop -/
example :
    let s : DiGraph := { nodes := [(0, 1), (1, 1), (2, 1), (3, 1), (5, 1)],
                         edges := [(0, 1, 2), (1, 2, 0), (0, 2, 2), (2, 0, 1), (2, 3, 4), (3, 3, 0)] }
    minDist s 0 3 = some 6 ∧ minDist s 3 0 = none ∧ minDist s 1 0 = some 1 ∧ minDist s 0 5 = none ∧
    judge s 0 3 (some [0, 2, 3]) = true ∧ judge s 0 3 (some [0, 1, 2, 3]) = true ∧      -- the tie: both accepted
    judge s 0 3 (some [0, 1, 2, 0, 2, 3]) = false ∧ judge s 0 3 none = false ∧ judge s 3 0 none = true ∧
    judge s 3 3 (some [3]) = true ∧ judge s 0 4 none = true ∧ judge s 0 3 (some [0, 3]) = false := by decide

end C15
