import DcVerif.Model.Adjustable
/-!
# C16 — adjustable context nodes change all-or-nothing and only to admissible values

Theorems about the definitions that `tools/rs2lean.py adjustable` regenerates on every run from
`deep_causality/src/types/context_types/node_types_adjustable/*/adjustable.rs` (`Gen.Adjustable`): each
`update` / `adjust` is a function `node → grid → node' × ok` whose `node'` is the node as it stands when the
Rust function returns — also on the `return Err` paths, so a write to `self.f` that precedes a later early
return is visible as a partial write and makes `…_err_changes_nothing` unprovable.

For every current node value and every grid content (all of `Int`, no bound), for the four node kinds and
both operations:

* `…_ok_sets_all`                     success ⇒ every coordinate = new value (update) / old + delta (adjust)
* `…_err_changes_nothing`             failure ⇒ the node is unchanged
* `…_fails_if_inadmissible`           zero replacement x/y/z/data, negative replacement time, negative adjusted value ⇒ failure
* `…_succeeds_if_strictly_positive`   all replacement values / all deltas and all results strictly positive ⇒ success
* `…_reads_expected_cells`            the outcome depends on the grid only through the expected cells:
                                      1-D point `0` (data, time), 3-D points `(0,0,i)`, i<3 (space: x,y,z),
                                      4-D points `(0,0,0,i)`, i<4 (space-time: x,y,z,t)
* `c16_meets_spec`                    all of the above at once, as the executable judgement `Spec.Adjustable.allowed`
                                      that the correspondence run applies to the real code's answers.

The proofs are `unfold …; grind`, so that harmless reorderings of checks or assignments in the source survive
regeneration while a partial write, a weakened/strengthened check or a wrong cell does not.

Values of the generic `T` are `Int`; overflow of a concrete `T` (e.g. `i32::MAX + 1` in `adjust`) is outside
the property and outside these theorems.
-/
namespace C16
open Gen.Adjustable Spec.Adjustable Model.Adjustable

/-- the 1-D point read by data and time nodes -/
def c1 : Pt := Pt.new1d 0
/-- the 3-D points read by a space node: `i = 0,1,2` for x, y, z -/
def s3 (i : Nat) : Pt := Pt.new3d 0 0 i
/-- the 4-D points read by a space-time node: `i = 0,1,2,3` for x, y, z, t -/
def s4 (i : Nat) : Pt := Pt.new4d 0 0 0 i

/-! ## Data -/

/-- success ⇒ every coordinate takes exactly the new value -/
theorem data_update_ok_sets_all (s : Data) (g : Pt → Int) (h : (s.update g).2 = true) :
    (s.update g).1 = { data := g c1 } := by
  unfold Data.update at *; simp only [c1, Pt.new1d] at *; grind

/-- failure ⇒ no coordinate changes -/
theorem data_update_err_changes_nothing (s : Data) (g : Pt → Int) (h : (s.update g).2 = false) :
    (s.update g).1 = s := by
  unfold Data.update at *; grind

/-- fails whenever a replacement spatial coordinate / data value is zero or a replacement time is negative -/
theorem data_update_fails_if_inadmissible (s : Data) (g : Pt → Int)
    (h : g c1 = 0) : (s.update g).2 = false := by
  unfold Data.update; simp only [c1, Pt.new1d] at *; grind

/-- succeeds whenever all replacement values are strictly positive -/
theorem data_update_succeeds_if_strictly_positive (s : Data) (g : Pt → Int)
    (h : 0 < g c1) : (s.update g).2 = true := by
  unfold Data.update; simp only [c1, Pt.new1d] at *; grind

/-- the outcome depends on the grid only through the expected cell -/
theorem data_update_reads_expected_cells (s : Data) (g g' : Pt → Int)
    (h : g c1 = g' c1) : s.update g = s.update g' := by
  unfold Data.update; simp only [c1, Pt.new1d] at *; grind

/-- success ⇒ every coordinate takes exactly the old value plus the delta -/
theorem data_adjust_ok_sets_all (s : Data) (g : Pt → Int) (h : (s.adjust g).2 = true) :
    (s.adjust g).1 = { data := s.data + g c1 } := by
  unfold Data.adjust at *; simp only [c1, Pt.new1d] at *; grind

/-- failure ⇒ no coordinate changes -/
theorem data_adjust_err_changes_nothing (s : Data) (g : Pt → Int) (h : (s.adjust g).2 = false) :
    (s.adjust g).1 = s := by
  unfold Data.adjust at *; grind

/-- fails whenever an adjusted value would be negative -/
theorem data_adjust_fails_if_inadmissible (s : Data) (g : Pt → Int)
    (h : s.data + g c1 < 0) : (s.adjust g).2 = false := by
  unfold Data.adjust; simp only [c1, Pt.new1d] at *; grind

/-- succeeds whenever all deltas and all resulting values are strictly positive -/
theorem data_adjust_succeeds_if_strictly_positive (s : Data) (g : Pt → Int)
    (h : 0 < g c1 ∧ 0 < s.data + g c1) : (s.adjust g).2 = true := by
  unfold Data.adjust; simp only [c1, Pt.new1d] at *; grind

/-- the outcome depends on the grid only through the expected cell -/
theorem data_adjust_reads_expected_cells (s : Data) (g g' : Pt → Int)
    (h : g c1 = g' c1) : s.adjust g = s.adjust g' := by
  unfold Data.adjust; simp only [c1, Pt.new1d] at *; grind

/-! ## Time -/

/-- success ⇒ every coordinate takes exactly the new value -/
theorem time_update_ok_sets_all (s : Time) (g : Pt → Int) (h : (s.update g).2 = true) :
    (s.update g).1 = { time_unit := g c1 } := by
  unfold Time.update at *; simp only [c1, Pt.new1d] at *; grind

/-- failure ⇒ no coordinate changes -/
theorem time_update_err_changes_nothing (s : Time) (g : Pt → Int) (h : (s.update g).2 = false) :
    (s.update g).1 = s := by
  unfold Time.update at *; grind

/-- fails whenever a replacement spatial coordinate / data value is zero or a replacement time is negative -/
theorem time_update_fails_if_inadmissible (s : Time) (g : Pt → Int)
    (h : g c1 < 0) : (s.update g).2 = false := by
  unfold Time.update; simp only [c1, Pt.new1d] at *; grind

/-- succeeds whenever all replacement values are strictly positive -/
theorem time_update_succeeds_if_strictly_positive (s : Time) (g : Pt → Int)
    (h : 0 < g c1) : (s.update g).2 = true := by
  unfold Time.update; simp only [c1, Pt.new1d] at *; grind

/-- the outcome depends on the grid only through the expected cell -/
theorem time_update_reads_expected_cells (s : Time) (g g' : Pt → Int)
    (h : g c1 = g' c1) : s.update g = s.update g' := by
  unfold Time.update; simp only [c1, Pt.new1d] at *; grind

/-- success ⇒ every coordinate takes exactly the old value plus the delta -/
theorem time_adjust_ok_sets_all (s : Time) (g : Pt → Int) (h : (s.adjust g).2 = true) :
    (s.adjust g).1 = { time_unit := s.time_unit + g c1 } := by
  unfold Time.adjust at *; simp only [c1, Pt.new1d] at *; grind

/-- failure ⇒ no coordinate changes -/
theorem time_adjust_err_changes_nothing (s : Time) (g : Pt → Int) (h : (s.adjust g).2 = false) :
    (s.adjust g).1 = s := by
  unfold Time.adjust at *; grind

/-- fails whenever an adjusted value would be negative -/
theorem time_adjust_fails_if_inadmissible (s : Time) (g : Pt → Int)
    (h : s.time_unit + g c1 < 0) : (s.adjust g).2 = false := by
  unfold Time.adjust; simp only [c1, Pt.new1d] at *; grind

/-- succeeds whenever all deltas and all resulting values are strictly positive -/
theorem time_adjust_succeeds_if_strictly_positive (s : Time) (g : Pt → Int)
    (h : 0 < g c1 ∧ 0 < s.time_unit + g c1) : (s.adjust g).2 = true := by
  unfold Time.adjust; simp only [c1, Pt.new1d] at *; grind

/-- the outcome depends on the grid only through the expected cell -/
theorem time_adjust_reads_expected_cells (s : Time) (g g' : Pt → Int)
    (h : g c1 = g' c1) : s.adjust g = s.adjust g' := by
  unfold Time.adjust; simp only [c1, Pt.new1d] at *; grind

/-! ## Space -/

/-- success ⇒ every coordinate takes exactly the new value -/
theorem space_update_ok_sets_all (s : Space) (g : Pt → Int) (h : (s.update g).2 = true) :
    (s.update g).1 = { x := g (s3 0), y := g (s3 1), z := g (s3 2) } := by
  unfold Space.update at *; simp only [s3, Pt.new3d] at *; grind

/-- failure ⇒ no coordinate changes -/
theorem space_update_err_changes_nothing (s : Space) (g : Pt → Int) (h : (s.update g).2 = false) :
    (s.update g).1 = s := by
  unfold Space.update at *; grind

/-- fails whenever a replacement spatial coordinate / data value is zero or a replacement time is negative -/
theorem space_update_fails_if_inadmissible (s : Space) (g : Pt → Int)
    (h : g (s3 0) = 0 ∨ g (s3 1) = 0 ∨ g (s3 2) = 0) : (s.update g).2 = false := by
  unfold Space.update; simp only [s3, Pt.new3d] at *; grind

/-- succeeds whenever all replacement values are strictly positive -/
theorem space_update_succeeds_if_strictly_positive (s : Space) (g : Pt → Int)
    (h : 0 < g (s3 0) ∧ 0 < g (s3 1) ∧ 0 < g (s3 2)) : (s.update g).2 = true := by
  unfold Space.update; simp only [s3, Pt.new3d] at *; grind

/-- the outcome depends on the grid only through the expected cells -/
theorem space_update_reads_expected_cells (s : Space) (g g' : Pt → Int)
    (h : g (s3 0) = g' (s3 0) ∧ g (s3 1) = g' (s3 1) ∧ g (s3 2) = g' (s3 2)) : s.update g = s.update g' := by
  unfold Space.update; simp only [s3, Pt.new3d] at *; grind

/-- success ⇒ every coordinate takes exactly the old value plus the delta -/
theorem space_adjust_ok_sets_all (s : Space) (g : Pt → Int) (h : (s.adjust g).2 = true) :
    (s.adjust g).1 = { x := s.x + g (s3 0), y := s.y + g (s3 1), z := s.z + g (s3 2) } := by
  unfold Space.adjust at *; simp only [s3, Pt.new3d] at *; grind

/-- failure ⇒ no coordinate changes -/
theorem space_adjust_err_changes_nothing (s : Space) (g : Pt → Int) (h : (s.adjust g).2 = false) :
    (s.adjust g).1 = s := by
  unfold Space.adjust at *; grind

/-- fails whenever an adjusted value would be negative -/
theorem space_adjust_fails_if_inadmissible (s : Space) (g : Pt → Int)
    (h : s.x + g (s3 0) < 0 ∨ s.y + g (s3 1) < 0 ∨ s.z + g (s3 2) < 0) : (s.adjust g).2 = false := by
  unfold Space.adjust; simp only [s3, Pt.new3d] at *; grind

/-- succeeds whenever all deltas and all resulting values are strictly positive -/
theorem space_adjust_succeeds_if_strictly_positive (s : Space) (g : Pt → Int)
    (h : 0 < g (s3 0) ∧ 0 < g (s3 1) ∧ 0 < g (s3 2) ∧ 0 < s.x + g (s3 0) ∧ 0 < s.y + g (s3 1) ∧ 0 < s.z + g (s3 2)) : (s.adjust g).2 = true := by
  unfold Space.adjust; simp only [s3, Pt.new3d] at *; grind

/-- the outcome depends on the grid only through the expected cells -/
theorem space_adjust_reads_expected_cells (s : Space) (g g' : Pt → Int)
    (h : g (s3 0) = g' (s3 0) ∧ g (s3 1) = g' (s3 1) ∧ g (s3 2) = g' (s3 2)) : s.adjust g = s.adjust g' := by
  unfold Space.adjust; simp only [s3, Pt.new3d] at *; grind

/-! ## SpaceTime -/

/-- success ⇒ every coordinate takes exactly the new value -/
theorem spaceTime_update_ok_sets_all (s : SpaceTime) (g : Pt → Int) (h : (s.update g).2 = true) :
    (s.update g).1 = { x := g (s4 0), y := g (s4 1), z := g (s4 2), time_unit := g (s4 3) } := by
  unfold SpaceTime.update at *; simp only [s4, Pt.new4d] at *; grind

/-- failure ⇒ no coordinate changes -/
theorem spaceTime_update_err_changes_nothing (s : SpaceTime) (g : Pt → Int) (h : (s.update g).2 = false) :
    (s.update g).1 = s := by
  unfold SpaceTime.update at *; grind

/-- fails whenever a replacement spatial coordinate / data value is zero or a replacement time is negative -/
theorem spaceTime_update_fails_if_inadmissible (s : SpaceTime) (g : Pt → Int)
    (h : g (s4 0) = 0 ∨ g (s4 1) = 0 ∨ g (s4 2) = 0 ∨ g (s4 3) < 0) : (s.update g).2 = false := by
  unfold SpaceTime.update; simp only [s4, Pt.new4d] at *; grind

/-- succeeds whenever all replacement values are strictly positive -/
theorem spaceTime_update_succeeds_if_strictly_positive (s : SpaceTime) (g : Pt → Int)
    (h : 0 < g (s4 0) ∧ 0 < g (s4 1) ∧ 0 < g (s4 2) ∧ 0 < g (s4 3)) : (s.update g).2 = true := by
  unfold SpaceTime.update; simp only [s4, Pt.new4d] at *; grind

/-- the outcome depends on the grid only through the expected cells -/
theorem spaceTime_update_reads_expected_cells (s : SpaceTime) (g g' : Pt → Int)
    (h : g (s4 0) = g' (s4 0) ∧ g (s4 1) = g' (s4 1) ∧ g (s4 2) = g' (s4 2) ∧ g (s4 3) = g' (s4 3)) : s.update g = s.update g' := by
  unfold SpaceTime.update; simp only [s4, Pt.new4d] at *; grind

/-- success ⇒ every coordinate takes exactly the old value plus the delta -/
theorem spaceTime_adjust_ok_sets_all (s : SpaceTime) (g : Pt → Int) (h : (s.adjust g).2 = true) :
    (s.adjust g).1 = { x := s.x + g (s4 0), y := s.y + g (s4 1), z := s.z + g (s4 2), time_unit := s.time_unit + g (s4 3) } := by
  unfold SpaceTime.adjust at *; simp only [s4, Pt.new4d] at *; grind

/-- failure ⇒ no coordinate changes -/
theorem spaceTime_adjust_err_changes_nothing (s : SpaceTime) (g : Pt → Int) (h : (s.adjust g).2 = false) :
    (s.adjust g).1 = s := by
  unfold SpaceTime.adjust at *; grind

/-- fails whenever an adjusted value would be negative -/
theorem spaceTime_adjust_fails_if_inadmissible (s : SpaceTime) (g : Pt → Int)
    (h : s.x + g (s4 0) < 0 ∨ s.y + g (s4 1) < 0 ∨ s.z + g (s4 2) < 0 ∨ s.time_unit + g (s4 3) < 0) : (s.adjust g).2 = false := by
  unfold SpaceTime.adjust; simp only [s4, Pt.new4d] at *; grind

/-- succeeds whenever all deltas and all resulting values are strictly positive -/
theorem spaceTime_adjust_succeeds_if_strictly_positive (s : SpaceTime) (g : Pt → Int)
    (h : 0 < g (s4 0) ∧ 0 < g (s4 1) ∧ 0 < g (s4 2) ∧ 0 < g (s4 3) ∧ 0 < s.x + g (s4 0) ∧ 0 < s.y + g (s4 1) ∧ 0 < s.z + g (s4 2) ∧ 0 < s.time_unit + g (s4 3)) : (s.adjust g).2 = true := by
  unfold SpaceTime.adjust; simp only [s4, Pt.new4d] at *; grind

/-- the outcome depends on the grid only through the expected cells -/
theorem spaceTime_adjust_reads_expected_cells (s : SpaceTime) (g g' : Pt → Int)
    (h : g (s4 0) = g' (s4 0) ∧ g (s4 1) = g' (s4 1) ∧ g (s4 2) = g' (s4 2) ∧ g (s4 3) = g' (s4 3)) : s.adjust g = s.adjust g' := by
  unfold SpaceTime.adjust; simp only [s4, Pt.new4d] at *; grind

/-! ## all kinds, both operations: the executable judgement used by the correspondence run -/

/-- For every node, operation and grid: the generated function's answer is one the property allows
(`Spec.Adjustable.allowed`: all-or-nothing with exactly the target coordinates, failure where the property
demands failure, success where it demands success), with `new` = the grid's values at the cells
`Spec.Adjustable.cells` names for the node's kind. -/
theorem c16_meets_spec (n : Node) (op : Op) (g : Pt → Int) :
    allowed n.kind op n.coords (newValues n.kind g) (n.apply op g).2 (n.apply op g).1.coords = true := by
  cases n <;> cases op <;>
    simp only [Node.apply, lift, Node.kind, Node.coords, newValues, cells, ptOf, List.map, allowed, target,
      mustFail, mustSucceed, roles, badReplacement, List.zipWith, List.any, List.all, id]
  · unfold Data.update; simp only [Pt.new1d]; grind
  · unfold Data.adjust; simp only [Pt.new1d]; grind
  · unfold Time.update; simp only [Pt.new1d]; grind
  · unfold Time.adjust; simp only [Pt.new1d]; grind
  · unfold Space.update; simp only [Pt.new3d]; grind
  · unfold Space.adjust; simp only [Pt.new3d]; grind
  · unfold SpaceTime.update; simp only [Pt.new4d]; grind
  · unfold SpaceTime.adjust; simp only [Pt.new4d]; grind

/-- an operation never changes the kind of a node -/
theorem c16_kind_preserved (n : Node) (op : Op) (g : Pt → Int) : (n.apply op g).1.kind = n.kind := by
  cases n <;> cases op <;> rfl

/-- all-or-nothing for every kind and operation, in one statement: the resulting coordinates are the
spec's target on success and the old coordinates on failure -/
theorem c16_all_or_nothing (n : Node) (op : Op) (g : Pt → Int) :
    ((n.apply op g).2 = true ∧ (n.apply op g).1.coords = target op n.coords (newValues n.kind g)) ∨
    ((n.apply op g).2 = false ∧ (n.apply op g).1 = n) := by
  cases n <;> cases op <;>
    simp only [Node.apply, lift, Node.kind, Node.coords, newValues, cells, ptOf, List.map, target, List.zipWith]
  · unfold Data.update; simp only [Pt.new1d]; grind
  · unfold Data.adjust; simp only [Pt.new1d]; grind
  · unfold Time.update; simp only [Pt.new1d]; grind
  · unfold Time.adjust; simp only [Pt.new1d]; grind
  · unfold Space.update; simp only [Pt.new3d]; grind
  · unfold Space.adjust; simp only [Pt.new3d]; grind
  · unfold SpaceTime.update; simp only [Pt.new4d]; grind
  · unfold SpaceTime.adjust; simp only [Pt.new4d]; grind

/-! ## non-vacuity: the hypotheses are met by concrete states, on both branches -/

def gridOf (l : List (Pt × Int)) : Pt → Int := fun p => ((l.find? (·.1 = p)).map (·.2)).getD 0

/-- a space-time node at (x,y,z,t) = (1,2,3,4) and a grid holding 5,6,7,8 at the four cells: update succeeds -/
example : (({ time_unit := 4, x := 1, y := 2, z := 3 } : SpaceTime).update
    (gridOf [(s4 0, 5), (s4 1, 6), (s4 2, 7), (s4 3, 8)])) = ({ time_unit := 8, x := 5, y := 6, z := 7 }, true) := by decide
/-- the same node, third replacement coordinate zero: update fails (hypothesis of `…_err_changes_nothing`,
`…_fails_if_inadmissible`) and nothing changes although x and y were admissible -/
example : (({ time_unit := 4, x := 1, y := 2, z := 3 } : SpaceTime).update
    (gridOf [(s4 0, 5), (s4 1, 6), (s4 2, 0), (s4 3, 8)])) = ({ time_unit := 4, x := 1, y := 2, z := 3 }, false) := by decide
/-- adjust with a delta that would make t negative while x, y, z are fine: fails, nothing changes -/
example : (({ time_unit := 4, x := 1, y := 2, z := 3 } : SpaceTime).adjust
    (gridOf [(s4 0, 5), (s4 1, 6), (s4 2, 7), (s4 3, -5)])) = ({ time_unit := 4, x := 1, y := 2, z := 3 }, false) := by decide
example : (({ x := 1, y := 2, z := 3 } : Space).adjust (gridOf [(s3 0, -1), (s3 1, 6), (s3 2, 7)]))
    = ({ x := 0, y := 8, z := 10 }, true) := by decide
example : (({ time_unit := 4 } : Time).adjust (gridOf [(c1, -1)])).2 = false := by decide
example : (({ data := 4 } : Data).update (gridOf [(c1, -7)])) = ({ data := -7 }, true) := by decide

/-! ## what the obligation rules out

A mutant as the translator emits it when `self.x = new_x` is moved above the y-check: the all-or-nothing
obligation is refuted by a concrete countermodel (so `…_err_changes_nothing` cannot be proved for it). -/
def mutantUpdate (self : Space) (grid : Pt → Int) : Space × Bool :=
  let new_x : Int := grid (s3 0)
  let new_y : Int := grid (s3 1)
  if (new_x = 0) then (self, false) else
  let self := { self with x := new_x }
  if (new_y = 0) then (self, false) else
  let self := { self with y := new_y }
  (self, true)

example : ∃ s g, (mutantUpdate s g).2 = false ∧ (mutantUpdate s g).1 ≠ s :=
  ⟨{ x := 1, y := 1, z := 1 }, gridOf [(s3 0, 5), (s3 1, 0)], by decide⟩

end C16
