import DcVerif.Model.BitMap
/-!
# C19 — BitMap tracks each sequence residue independently

Theorems about the definitions that `tools/rs2lean.py` regenerates from
`dcl_data_structures/src/ring_buffer/utils/{bit_map,logarithm}.rs` on every run (`Gen.BitMap`).

Statement (for every power-of-two capacity `c = 2^k`, `k` arbitrary — below, at and above one machine
word —, every history of `set`/`unset` calls and every sequence number `s`): no call ever indexes out of
bounds, and `is_set s` answers exactly "the last call addressed to the residue class of `s` modulo `c`
was a `set`" (`Spec.BitMap.isSet`). Independence of residues and commutation of calls on distinct
residues are corollaries; `c19_concurrent_distinct_residues` states the concurrent clause for every interleaving of two
threads whose calls are atomic read-modify-writes (that each call of the real code is exactly one `fetch_or` / `fetch_and` is checked
under the deterministic scheduler by the correspondence run).
-/
set_option linter.unusedSimpArgs false
namespace C19
open Gen.BitMap Spec.BitMap Model.BitMap

/-! ## helper facts (bit arithmetic on `Nat`) -/

theorem and_one_shl_ne_zero (v b : Nat) : ((v &&& (1 <<< b)) != 0) = v.testBit b := by
  rw [Nat.one_shiftLeft]
  cases h : v.testBit b
  · have : v &&& 2 ^ b = 0 := by
      apply Nat.eq_of_testBit_eq; intro i
      simp only [Nat.testBit_and, Nat.testBit_two_pow, Nat.zero_testBit]
      by_cases hb : b = i
      · subst hb; simp [h]
      · simp [hb]
    simp [this]
  · have : (v &&& 2 ^ b).testBit b = true := by simp [Nat.testBit_and, h]
    have : v &&& 2 ^ b ≠ 0 := by intro h0; rw [h0] at this; simp at this
    simp [this]

theorem testBit_clear (w b j : Nat) (hj : j < 64) :
    (w &&& (2 ^ b ^^^ (2 ^ 64 - 1))).testBit j = (w.testBit j && !decide (b = j)) := by
  rw [Nat.testBit_and, Nat.testBit_xor, Nat.testBit_two_pow, Nat.testBit_two_pow_sub_one]
  simp [hj]

/-- `(v >> b) & 1 == 1`, the other spelling of the bit test -/
theorem shr_and_one_eq_one (v b : Nat) : (((v >>> b) &&& 1) == 1) = v.testBit b := by
  simp [Nat.testBit, Nat.and_comm]
theorem shr_mod_two_eq_one (v b : Nat) : ((v >>> b) % 2 == 1) = v.testBit b := by
  simp [Nat.testBit, Nat.and_comm]

theorem masked_eq (k s : Nat) : s &&& (2 ^ k - 1) = s % 2 ^ k := Nat.and_two_pow_sub_one_eq_mod s k
theorem log2_64 : log2 64 = 6 := by decide
theorem and_63 (m : Nat) : m &&& 63 = m % 64 := Nat.and_two_pow_sub_one_eq_mod m 6
theorem shr_6 (m : Nat) : m >>> 6 = m / 64 := by simp [Nat.shiftRight_eq_div_pow]

/-- the cell (slot, bit) a sequence number is mapped to, as plain arithmetic -/
def slotOf (c s : Nat) : Nat := (s % c) / 64
def bitOf (c s : Nat) : Nat := (s % c) % 64

theorem cell_eq_iff (c a b : Nat) :
    (slotOf c a = slotOf c b ∧ bitOf c a = bitOf c b) ↔ a % c = b % c := by
  unfold slotOf bitOf; omega

theorem bitOf_lt (c s : Nat) : bitOf c s < 64 := by unfold bitOf; omega

theorem slotOf_lt (c s : Nat) (hc : 0 < c) : slotOf c s < (c + 63) / 64 := by
  unfold slotOf
  have := Nat.mod_lt s hc
  omega

/-! ## the generated functions in normal form

The lemmas of this section are the only place where the *shape* of the generated definitions matters. They are stated for
"a bit map built for capacity `2^k`, with any word list in place of the fresh one" (`{ build (2^k) with slots := sl }`), which
mentions no field but `slots` and no constant of the source, and they are proved by unfolding and `simp` with the value
lemmas `NAME_val` the translator emits for every constant of bit_map.rs. So the field names, the order of the `let`s, whether
shift and mask are fields computed in `build` or constants, a helper that the translator inlined and the spelling of the bit
test do not matter; a wrong mask, shift, word index or bit does. -/

theorem is_set_build (k : Nat) (sl : List Nat) (s : Nat) :
    is_set { build (2 ^ k) with slots := sl } s = (sl[slotOf (2 ^ k) s]?).map (fun w => w.testBit (bitOf (2 ^ k) s)) := by
  unfold is_set slotOf bitOf
  simp [build, log2_64, masked_eq, and_63, shr_6, and_one_shl_ne_zero, shr_and_one_eq_one, shr_mod_two_eq_one]
  split <;> simp_all

theorem set_build (k : Nat) (sl : List Nat) (s : Nat) :
    Gen.BitMap.set { build (2 ^ k) with slots := sl } s = (sl[slotOf (2 ^ k) s]?).map
      (fun w => { build (2 ^ k) with slots := sl.set (slotOf (2 ^ k) s) (w ||| 2 ^ bitOf (2 ^ k) s) }) := by
  unfold Gen.BitMap.set slotOf bitOf
  simp [build, log2_64, masked_eq, and_63, shr_6, Nat.one_shiftLeft]
  split <;> simp_all

theorem unset_build (k : Nat) (sl : List Nat) (s : Nat) :
    unset { build (2 ^ k) with slots := sl } s = (sl[slotOf (2 ^ k) s]?).map
      (fun w => { build (2 ^ k) with slots := sl.set (slotOf (2 ^ k) s) (w &&& (2 ^ bitOf (2 ^ k) s ^^^ (2 ^ 64 - 1))) }) := by
  unfold unset slotOf bitOf
  simp [build, log2_64, masked_eq, and_63, shr_6, Nat.one_shiftLeft]
  split <;> simp_all

/-- the word index the three generated index functions compute (used by the happens-before model of the ring) -/
theorem index_build (k : Nat) (sl : List Nat) (s : Nat) :
    is_set_index { build (2 ^ k) with slots := sl } s = slotOf (2 ^ k) s ∧
    set_index { build (2 ^ k) with slots := sl } s = slotOf (2 ^ k) s ∧
    unset_index { build (2 ^ k) with slots := sl } s = slotOf (2 ^ k) s := by
  unfold is_set_index set_index unset_index slotOf
  simp [build, log2_64, masked_eq, and_63, shr_6]

theorem build_slots (c : Nat) : (build c).slots = List.replicate ((c + 63) / 64) 0 := by
  simp [build]

/-- shape of a bit map built for capacity `c`: everything except the words is as `build c` made it -/
def Shape (c : Nat) (bm : BitMap) : Prop :=
  bm.slots.length = (c + 63) / 64 ∧ bm = { build c with slots := bm.slots }

theorem Shape.len {c : Nat} {bm : BitMap} (h : Shape c bm) : bm.slots.length = (c + 63) / 64 := h.1

theorem build_shape (c : Nat) : Shape c (build c) := ⟨by simp [build_slots], rfl⟩

theorem shape_with_slots {c : Nat} {bm : BitMap} (h : Shape c bm) (sl : List Nat) (hl : sl.length = bm.slots.length) :
    Shape c { bm with slots := sl } := by
  refine ⟨hl.trans h.1, ?_⟩
  have := h.2
  show ({ bm with slots := sl } : BitMap) = { build c with slots := sl }
  rw [this]

theorem is_set_nf {k : Nat} {bm : BitMap} (h : Shape (2 ^ k) bm) (s : Nat) :
    is_set bm s = (bm.slots[slotOf (2 ^ k) s]?).map (fun w => w.testBit (bitOf (2 ^ k) s)) := by
  rw [h.2]; exact is_set_build k bm.slots s

theorem set_nf {k : Nat} {bm : BitMap} (h : Shape (2 ^ k) bm) (s : Nat) :
    Gen.BitMap.set bm s = (bm.slots[slotOf (2 ^ k) s]?).map
      (fun w => { bm with slots := bm.slots.set (slotOf (2 ^ k) s) (w ||| 2 ^ bitOf (2 ^ k) s) }) := by
  rw [h.2]; exact set_build k bm.slots s

theorem unset_nf {k : Nat} {bm : BitMap} (h : Shape (2 ^ k) bm) (s : Nat) :
    unset bm s = (bm.slots[slotOf (2 ^ k) s]?).map
      (fun w => { bm with slots := bm.slots.set (slotOf (2 ^ k) s) (w &&& (2 ^ bitOf (2 ^ k) s ^^^ (2 ^ 64 - 1))) }) := by
  rw [h.2]; exact unset_build k bm.slots s

theorem index_nf {k : Nat} {bm : BitMap} (h : Shape (2 ^ k) bm) (s : Nat) :
    is_set_index bm s = slotOf (2 ^ k) s ∧ set_index bm s = slotOf (2 ^ k) s ∧ unset_index bm s = slotOf (2 ^ k) s := by
  rw [h.2]; exact index_build k bm.slots s

/-! ## refinement invariant -/

theorem isSet_cons_set (c s' s : Nat) (hist : List Op) :
    isSet c (.set s' :: hist) s = if s' % c = s % c then true else isSet c hist s := rfl
theorem isSet_cons_unset (c s' s : Nat) (hist : List Op) :
    isSet c (.unset s' :: hist) s = if s' % c = s % c then false else isSet c hist s := rfl

/-- `hist` newest first -/
structure Inv (c : Nat) (bm : BitMap) (hist : List Op) : Prop where
  shape : Shape c bm
  cells : ∀ s, ∃ w, bm.slots[slotOf c s]? = some w ∧ w.testBit (bitOf c s) = isSet c hist s

theorem inv_build (k : Nat) : Inv (2 ^ k) (build (2 ^ k)) [] := by
  refine ⟨build_shape _, fun s => ⟨0, ?_, by simp [isSet]⟩⟩
  have := slotOf_lt (2 ^ k) s (Nat.two_pow_pos k)
  rw [build_slots, List.getElem?_replicate, if_pos (by omega)]

theorem inv_step {k : Nat} {bm : BitMap} {hist : List Op} (h : Inv (2 ^ k) bm hist) (op : Op) :
    ∃ bm', apply bm op = some bm' ∧ Inv (2 ^ k) bm' (op :: hist) := by
  obtain ⟨w, hw, _⟩ := h.cells op.seq
  have hlen := h.shape.len
  have hlt : slotOf (2 ^ k) op.seq < bm.slots.length := by
    rw [hlen]; exact slotOf_lt _ _ (Nat.two_pow_pos k)
  cases op with
  | set s' =>
    simp only [Op.seq] at hw hlt
    refine ⟨_, by rw [apply, set_nf h.shape, hw]; rfl, ?_⟩
    refine ⟨shape_with_slots h.shape _ (by simp), fun s => ?_⟩
    obtain ⟨v, hv, hvb⟩ := h.cells s
    simp only [List.getElem?_set]
    rw [isSet_cons_set]
    by_cases hs : slotOf (2 ^ k) s' = slotOf (2 ^ k) s
    · rw [if_pos hs, if_pos hlt]
      refine ⟨_, rfl, ?_⟩
      have hvw : v = w := by rw [hs] at hw; rw [hw] at hv; exact (Option.some.inj hv).symm
      by_cases hb : bitOf (2 ^ k) s' = bitOf (2 ^ k) s
      · rw [if_pos ((cell_eq_iff _ _ _).1 ⟨hs, hb⟩)]
        simp [Nat.testBit_or, hb]
      · have : ¬ s' % 2 ^ k = s % 2 ^ k := fun e => hb ((cell_eq_iff _ _ _).2 e).2
        rw [if_neg this, ← hvb, hvw]
        simp [Nat.testBit_or, hb]
    · rw [if_neg hs]
      have : ¬ s' % 2 ^ k = s % 2 ^ k := fun e => hs ((cell_eq_iff _ _ _).2 e).1
      rw [if_neg this]
      exact ⟨v, hv, hvb⟩
  | unset s' =>
    simp only [Op.seq] at hw hlt
    refine ⟨_, by rw [apply, unset_nf h.shape, hw]; rfl, ?_⟩
    refine ⟨shape_with_slots h.shape _ (by simp), fun s => ?_⟩
    obtain ⟨v, hv, hvb⟩ := h.cells s
    have hb64 := bitOf_lt (2 ^ k) s
    simp only [List.getElem?_set]
    rw [isSet_cons_unset]
    by_cases hs : slotOf (2 ^ k) s' = slotOf (2 ^ k) s
    · rw [if_pos hs, if_pos hlt]
      refine ⟨_, rfl, ?_⟩
      have hvw : v = w := by rw [hs] at hw; rw [hw] at hv; exact (Option.some.inj hv).symm
      by_cases hb : bitOf (2 ^ k) s' = bitOf (2 ^ k) s
      · rw [if_pos ((cell_eq_iff _ _ _).1 ⟨hs, hb⟩)]
        rw [testBit_clear _ _ _ hb64]; simp [hb]
      · have : ¬ s' % 2 ^ k = s % 2 ^ k := fun e => hb ((cell_eq_iff _ _ _).2 e).2
        rw [if_neg this, ← hvb, hvw]
        rw [testBit_clear _ _ _ hb64]; simp [hb]
    · rw [if_neg hs]
      have : ¬ s' % 2 ^ k = s % 2 ^ k := fun e => hs ((cell_eq_iff _ _ _).2 e).1
      rw [if_neg this]
      exact ⟨v, hv, hvb⟩

theorem inv_run {k : Nat} (ops : List Op) {bm : BitMap} {hist : List Op} (h : Inv (2 ^ k) bm hist) :
    ∃ bm', run bm ops = some bm' ∧ Inv (2 ^ k) bm' (ops.reverse ++ hist) := by
  induction ops generalizing bm hist with
  | nil => exact ⟨bm, rfl, by simpa using h⟩
  | cons op rest ih =>
    obtain ⟨bm1, h1, hinv1⟩ := inv_step h op
    obtain ⟨bm2, h2, hinv2⟩ := ih hinv1
    exact ⟨bm2, by simp only [run, h1, h2], by simpa using hinv2⟩

/-! ## property theorems -/

/-- **C19, main statement.** For every power-of-two capacity, every call history (oldest first) and every
sequence number: the history runs without an out-of-bounds access and `is_set` answers what the
residue-set specification says. -/
theorem c19_bitmap_is_residue_set (k : Nat) (ops : List Op) (s : Nat) :
    ∃ bm, run (build (2 ^ k)) ops = some bm ∧
      is_set bm s = some (isSet (2 ^ k) ops.reverse s) := by
  obtain ⟨bm, hrun, hinv⟩ := inv_run ops (inv_build k)
  refine ⟨bm, hrun, ?_⟩
  obtain ⟨w, hw, hb⟩ := hinv.cells s
  rw [is_set_nf hinv.shape, hw]
  simpa using hb

/-- a fresh bit map has nothing set -/
theorem c19_fresh_unset (k s : Nat) : is_set (build (2 ^ k)) s = some false := by
  simpa [run, isSet] using c19_bitmap_is_residue_set k [] s

/-- a call for one residue class never affects the answer for another one -/
theorem c19_other_residue_unaffected (k : Nat) (ops : List Op) (op : Op) (s : Nat)
    (hne : op.seq % 2 ^ k ≠ s % 2 ^ k) :
    isSet (2 ^ k) (ops ++ [op]).reverse s = isSet (2 ^ k) ops.reverse s := by
  simp [isSet, hne]

/-- calls addressed to distinct residue classes commute (the sequential content of "concurrent calls on
distinct residues": either order yields the same observable map) -/
theorem c19_distinct_residues_commute (k : Nat) (ops : List Op) (a b : Op) (s : Nat)
    (hne : a.seq % 2 ^ k ≠ b.seq % 2 ^ k) :
    isSet (2 ^ k) (ops ++ [a, b]).reverse s = isSet (2 ^ k) (ops ++ [b, a]).reverse s := by
  simp only [List.reverse_append, List.reverse_cons, List.reverse_nil, List.nil_append,
    List.cons_append, isSet]
  by_cases h1 : a.seq % 2 ^ k = s % 2 ^ k <;> by_cases h2 : b.seq % 2 ^ k = s % 2 ^ k <;>
    simp_all

/-- two sequence numbers share a cell iff they are congruent modulo the capacity -/
theorem c19_cell_eq_iff_residue_eq (k a b : Nat) :
    (slotOf (2 ^ k) a = slotOf (2 ^ k) b ∧ bitOf (2 ^ k) a = bitOf (2 ^ k) b) ↔ a % 2 ^ k = b % 2 ^ k :=
  cell_eq_iff _ a b

/-! ## concurrent calls on distinct residues -/

/-- does the call address the residue class of `s`? -/
def sameRes (c s : Nat) (op : Op) : Bool := op.seq % c == s % c

/-- only the calls addressed to the residue class of `s` matter for `s` -/
theorem isSet_filter (c : Nat) (hist : List Op) (s : Nat) :
    isSet c hist s = isSet c (hist.filter (sameRes c s)) s := by
  induction hist with
  | nil => rfl
  | cons op rest ih =>
    by_cases h : op.seq % c = s % c
    · have hb : sameRes c s op = true := by simp [sameRes, h]
      rw [List.filter_cons_of_pos hb]
      simp only [isSet, h, if_true]
    · have hb : ¬ sameRes c s op = true := by simp [sameRes, h]
      rw [List.filter_cons_of_neg hb]
      simp only [isSet, h, if_false]
      exact ih

/-- `m` is an interleaving of the two call sequences `a` and `b` (each in its own program order) -/
inductive Interleave : List Op → List Op → List Op → Prop
  | nil : Interleave [] [] []
  | left {a b m} (x : Op) : Interleave a b m → Interleave (x :: a) b (x :: m)
  | right {a b m} (y : Op) : Interleave a b m → Interleave a (y :: b) (y :: m)

theorem Interleave.filter_left {a b m : List Op} (h : Interleave a b m) (p : Op → Bool)
    (hb : ∀ y, y ∈ b → p y = false) : m.filter p = a.filter p := by
  induction h with
  | nil => rfl
  | left x _ ih => simp only [List.filter]; cases p x <;> simp [ih hb]
  | right y _ ih =>
    have hy := hb y (by simp)
    simp only [List.filter, hy]
    exact ih (fun z hz => hb z (by simp [hz]))

/-- **concurrent calls on distinct residues**: two threads issue `set`/`unset` calls, each call one atomic
read-modify-write of a word (that each call *is* exactly one `fetch_or`/`fetch_and` is checked on the real code by the
scheduler harness); thread A's calls address residue classes that thread B never touches. Then for every interleaving
and every sequence number in one of A's classes the bit map answers as if A had run alone. -/
theorem c19_concurrent_distinct_residues (k : Nat) (a b m : List Op) (hm : Interleave a b m)
    (hd : ∀ x, x ∈ a → ∀ y, y ∈ b → x.seq % 2 ^ k ≠ y.seq % 2 ^ k) (s : Nat)
    (hs : ∃ x, x ∈ a ∧ x.seq % 2 ^ k = s % 2 ^ k) :
    ∃ bm, run (build (2 ^ k)) m = some bm ∧ is_set bm s = some (isSet (2 ^ k) a.reverse s) := by
  obtain ⟨bm, hrun, his⟩ := c19_bitmap_is_residue_set k m s
  refine ⟨bm, hrun, ?_⟩
  rw [his, isSet_filter, isSet_filter (2 ^ k) a.reverse]
  congr 1
  rw [List.filter_reverse, List.filter_reverse]
  congr 2
  apply hm.filter_left
  intro y hy
  obtain ⟨x, hx, hxs⟩ := hs
  have := hd x hx y hy
  simp only [sameRes, beq_eq_false_iff_ne, ne_eq]
  intro h; exact this (by omega)

example : Interleave [.set 1, .unset 1] [.set 2] [.set 1, .set 2, .unset 1] :=
  .left _ (.right _ (.left _ .nil))


/-! ## non-vacuity: concrete histories, below / at / above one machine word -/
example : ∃ bm, run (build 8) [.set 3, .set 11, .unset 3] = some bm ∧ is_set bm 11 = some false ∧
    is_set bm 4 = some false := by decide
example : ∃ bm, run (build 64) [.set 0] = some bm ∧ is_set bm 0 = some true ∧ is_set bm 1 = some false := by
  decide
example : ∃ bm, run (build 1024) [.set 3] = some bm ∧ is_set bm 3 = some true ∧ is_set bm 19 = some false ∧
    is_set bm 1027 = some true := by decide

end C19
