import DcVerif.Props.C07Gen
/-!
# C07 — the sliding window always equals the last N pushed values, across rewinds

Model: `Gen.Window` — the four storages behind `SlidingWindow`, **generated** from
`dcl_data_structures/src/window_type/**` by `tools/rs2lean_window.py` on every check run (one definition per Rust
function; `Model.Window` only adds `run` / `history` / `observe`); spec: `Spec.Window` (functions of the push history
alone). `Props/C07Gen.lean` proves what each generated function does on a state that represents a history; this file
lifts that to all histories. Every theorem holds for every element size `tsz = size_of::<T>()`.

Statement. For every storage `k` other than today's safe vector storage, every window size `0 < size`, every
capacity `size < c` (array storages) resp. every multiple `2 ≤ c` (vector storages, capacity `size * c`), every
default value and **every push history `xs`** (any length, so any number of rewinds; capacity `size + 1` and
capacities below `2 * size`, where the rewind moves overlapping ranges, are included):
constructing the window and pushing `xs` neither panics nor meets undefined behaviour, and afterwards
`size`, `empty`, `filled`, `first`, `last`, `slice`, `vec` and `arr` answer exactly what `Spec.Window.observe size xs`
says: the view is the last `size` values in push order, `filled ↔ size ≤ |xs|`, `empty ↔ xs = []`, `first` is the oldest
retained value, `last` the most recent one, and the not-yet-filled accessors return `Err`. Consequently all correct
back-ends agree (`c07_backends_agree`).

`Kind.vec` is `storage_vec.rs` as it is in the repository: it violates the statement (defect F1, witness theorems
below, replayed on the real code by the correspondence check); `c07_vec_partial` is what holds for it.
`Kind.vecFixed` is the same file after `fixes/F1-window-vec.diff`; the full statement is proved for it.
`Kind.uarr` is `unsafe_storage_array.rs` after `fixes/F10-window-unsafe-array.diff` (`ptr::copy` instead of
`ptr::copy_nonoverlapping`); the section at the end documents where the old calls overlapped.
-/
namespace C07
open Spec.Window Model.Window Lemmas.Window Gen.Window

variable {α : Type}

/-- number of buffer cells of a window built by `new k size c` -/
def cells (k : Kind) (size c : Nat) : Nat :=
  match k with
  | .arr | .uarr => c
  | .vec | .uvec | .vecFixed => size * c

/-- the property's hypotheses on a configuration: `0 < SIZE < CAPACITY` for the array storages,
`0 < size` and `multiple ≥ 2` for the vector storages -/
def Admissible (k : Kind) (size c : Nat) : Prop :=
  0 < size ∧
  match k with
  | .arr | .uarr => size < c
  | .vec | .uvec | .vecFixed => 2 ≤ c

instance (k : Kind) (size c : Nat) : Decidable (Admissible k size c) := by
  unfold Admissible
  cases k <;> (dsimp only; exact inferInstance)

theorem cells_gt {k : Kind} {size c : Nat} (h : Admissible k size c) : size < cells k size c := by
  obtain ⟨hs, hc⟩ := h
  cases k <;> simp only [cells] at * <;> first
    | exact hc
    | (have := Nat.mul_le_mul_left size hc; omega)

theorem cells_double {k : Kind} {size c : Nat} (h : Admissible k size c) (hk : k = .uvec) :
    2 * size ≤ cells k size c := by
  obtain ⟨hs, hc⟩ := h
  subst hk
  simp only [cells] at *
  have := Nat.mul_le_mul_left size hc
  omega

/-- the constructor succeeds on admissible configurations and establishes the invariant -/
theorem c07_new {k : Kind} {size c : Nat} (h : Admissible k size c) (d : α) :
    new k size c d = .ok (init size (cells k size c) d) ∧
    Inv size (cells k size c) (init size (cells k size c) d) ([] : List α) := by
  refine ⟨?_, inv_init _ _ d (cells_gt h) h.1⟩
  obtain ⟨hs, hc⟩ := h
  cases k <;> simp only [Gen.Window.new, arrNew, vecNew, uarrNew, uvecNew, vecFixedNew, cells, init] at * <;> simp [hc]

/-- **one push**: on a state that represents history `xs`, every storage except today's `vec` returns normally, with
the canonical next state, which represents `xs ++ [v]` (the unsafe vector storage needs `2 * size ≤ capacity`, which is
what `multiple ≥ 2` provides: otherwise its `copy_nonoverlapping` would overlap) -/
theorem c07_push {k : Kind} {n c : Nat} {w : St α} {xs : List α} (hk : k ≠ .vec) (tsz : Nat) (h : Inv n c w xs)
    (h2 : k = .uvec → 2 * n ≤ c) (v : α) :
    push k tsz w v = .ok (next n c w xs v) ∧ Inv n c (next n c w xs v) (xs ++ [v]) := by
  refine ⟨?_, next_inv w xs v h⟩
  cases k with
  | arr => exact gen_push_arr tsz w xs v h
  | vec => exact absurd rfl hk
  | uarr => exact gen_push_uarr tsz w xs v h
  | uvec => exact gen_push_uvec tsz w xs v h (h2 rfl)
  | vecFixed => exact gen_push_vecFixed tsz w xs v h

/-- any number of pushes -/
theorem c07_run {k : Kind} {n c : Nat} (hk : k ≠ .vec) (tsz : Nat) (h2 : k = .uvec → 2 * n ≤ c) (ys : List α) :
    ∀ (w : St α) (pre : List α), Inv n c w pre → ∃ w', run k tsz w ys = .ok w' ∧ Inv n c w' (pre ++ ys) := by
  induction ys with
  | nil => intro w pre h; exact ⟨w, rfl, by simpa using h⟩
  | cons y ys ih =>
    intro w pre h
    obtain ⟨he, hi⟩ := c07_push hk tsz h h2 y
    obtain ⟨w', hr, hi'⟩ := ih _ _ hi
    refine ⟨w', ?_, by simpa using hi'⟩
    simp only [run, he, hr]

/-- **every history**: construct-and-push never panics, never meets undefined behaviour, and ends in a state that
represents the history -/
theorem c07_history {k : Kind} {size c : Nat} (hk : k ≠ .vec) (tsz : Nat) (h : Admissible k size c) (d : α)
    (xs : List α) :
    ∃ w, history k tsz size c d xs = .ok w ∧ Inv size (cells k size c) w xs := by
  obtain ⟨hn, hi⟩ := c07_new h d
  obtain ⟨w, hr, hw⟩ := c07_run hk tsz (fun e => cells_double h e) xs _ _ hi
  refine ⟨w, ?_, by simpa using hw⟩
  simp only [history, hn, hr]

/-- **C07, main theorem**: after any push history every observable equals the specification's answer -/
theorem c07_window_is_last_n {k : Kind} {size c : Nat} (hk : k ≠ .vec) (tsz : Nat) (h : Admissible k size c) (d : α)
    (xs : List α) :
    ∃ w, history k tsz size c d xs = .ok w ∧ observe k tsz w d = Obs.ofSpec (Spec.Window.observe size xs) := by
  obtain ⟨w, hh, hi⟩ := c07_history hk tsz h d xs
  exact ⟨w, hh, gen_observe k tsz hi d⟩

/-! ### the clauses of the property, one by one -/

/-- slice / vec / arr are the last `size` values in push order once `size` values were pushed, `Err` before -/
theorem c07_view {k : Kind} {size c : Nat} (hk : k ≠ .vec) (tsz : Nat) (h : Admissible k size c) (d : α) (xs : List α) :
    ∃ w, history k tsz size c d xs = .ok w ∧
      slice k tsz w = (if size ≤ xs.length then .ok (lastN size xs) else .err) ∧
      vec k tsz w = (if size ≤ xs.length then .ok (lastN size xs) else .err) ∧
      arr k tsz w w.size d = (if size ≤ xs.length then .ok (lastN size xs) else .err) := by
  obtain ⟨w, hh, hi⟩ := c07_history hk tsz h d xs
  refine ⟨w, hh, ?_, ?_, ?_⟩
  · rw [gen_slice k tsz hi]; unfold view; split <;> rfl
  · rw [gen_vec k tsz hi]; unfold view; split <;> rfl
  · rw [gen_arr k tsz hi]; unfold view; split <;> rfl

/-- `filled ↔ size ≤ n` and `empty ↔ n = 0` -/
theorem c07_filled_empty {k : Kind} {size c : Nat} (hk : k ≠ .vec) (tsz : Nat) (h : Admissible k size c) (d : α) (xs : List α) :
    ∃ w, history k tsz size c d xs = .ok w ∧
      (filled k tsz w = .ok true ↔ size ≤ xs.length) ∧ (empty k tsz w = .ok true ↔ xs = []) ∧
      Gen.Window.size k tsz w = .ok size := by
  obtain ⟨w, hh, hi⟩ := c07_history hk tsz h d xs
  refine ⟨w, hh, ?_, ?_, gen_size k tsz hi⟩
  · rw [gen_filled k tsz hi]; simp [Spec.Window.filled]
  · rw [gen_empty k tsz hi]; simp [Spec.Window.empty]

/-- `first` is the oldest retained value (error only on the empty window), `last` the most recent value
(error until filled) -/
theorem c07_first_last {k : Kind} {size c : Nat} (hk : k ≠ .vec) (tsz : Nat) (h : Admissible k size c) (d : α) (xs : List α) :
    ∃ w, history k tsz size c d xs = .ok w ∧
      first k tsz w = ofSpec (lastN size xs).head? ∧
      last k tsz w = (if size ≤ xs.length then ofSpec xs.getLast? else .err) := by
  obtain ⟨w, hh, hi⟩ := c07_history hk tsz h d xs
  refine ⟨w, hh, gen_first k tsz hi, ?_⟩
  rw [gen_last k tsz hi]; unfold Spec.Window.last; split <;> rfl

/-- the not-yet-filled accessors report an error instead of data -/
theorem c07_unfilled_err {k : Kind} {size c : Nat} (hk : k ≠ .vec) (tsz : Nat) (h : Admissible k size c) (d : α) (xs : List α)
    (hx : xs.length < size) :
    ∃ w, history k tsz size c d xs = .ok w ∧ last k tsz w = .err ∧ slice k tsz w = .err ∧ vec k tsz w = .err ∧
      arr k tsz w w.size d = .err := by
  obtain ⟨w, hh, hs, hv, ha⟩ := c07_view hk tsz h d xs
  obtain ⟨w', hh', _, hl⟩ := c07_first_last hk tsz h d xs
  have : w' = w := by rw [hh] at hh'; injection hh' with e; exact e.symm
  subst this
  have hn : ¬ size ≤ xs.length := by omega
  simp only [hn, if_false] at hs hv ha hl
  exact ⟨w', hh, hl, hs, hv, ha⟩

/-- `arr::<s>()` at an arbitrary width: narrower than the window panics (`arr[..size]`), wider is padded with the
default value -/
theorem c07_arr_width {k : Kind} {size c : Nat} (hk : k ≠ .vec) (tsz : Nat) (h : Admissible k size c) (d : α) (xs : List α)
    (s : Nat) :
    ∃ w, history k tsz size c d xs = .ok w ∧
      arr k tsz w s d = (if size ≤ xs.length then
                       (if s < size then .panic else .ok (lastN size xs ++ List.replicate (s - size) d))
                     else .err) := by
  obtain ⟨w, hh, hi⟩ := c07_history hk tsz h d xs
  exact ⟨w, hh, gen_arr_width k tsz hi s d⟩

/-- **all back-ends agree** (array, unsafe array, unsafe vector, repaired vector; any capacities / multiples, any
element sizes): after the same history every observable is the same -/
theorem c07_backends_agree {k₁ k₂ : Kind} {size c₁ c₂ : Nat} (hk₁ : k₁ ≠ .vec) (hk₂ : k₂ ≠ .vec) (t₁ t₂ : Nat)
    (h₁ : Admissible k₁ size c₁) (h₂ : Admissible k₂ size c₂) (d : α) (xs : List α) :
    ∃ w₁ w₂, history k₁ t₁ size c₁ d xs = .ok w₁ ∧ history k₂ t₂ size c₂ d xs = .ok w₂ ∧
      observe k₁ t₁ w₁ d = observe k₂ t₂ w₂ d := by
  obtain ⟨w₁, hh₁, ho₁⟩ := c07_window_is_last_n hk₁ t₁ h₁ d xs
  obtain ⟨w₂, hh₂, ho₂⟩ := c07_window_is_last_n hk₂ t₂ h₂ d xs
  exact ⟨w₁, w₂, hh₁, hh₂, by rw [ho₁, ho₂]⟩

/-- with equal cell counts the correct back-ends even go through identical internal states -/
theorem c07_backends_same_state {k₁ k₂ : Kind} {size c₁ c₂ : Nat} (hk₁ : k₁ ≠ .vec) (hk₂ : k₂ ≠ .vec) (t₁ t₂ : Nat)
    (h₁ : Admissible k₁ size c₁) (h₂ : Admissible k₂ size c₂) (hc : cells k₁ size c₁ = cells k₂ size c₂)
    (d : α) (xs : List α) :
    history k₁ t₁ size c₁ d xs = history k₂ t₂ size c₂ d xs := by
  have key : ∀ (ys : List α) (w : St α) (pre : List α), Inv size (cells k₁ size c₁) w pre →
      run k₁ t₁ w ys = run k₂ t₂ w ys := by
    intro ys
    induction ys with
    | nil => intro w pre _; rfl
    | cons y ys ih =>
      intro w pre h
      obtain ⟨e₁, hi⟩ := c07_push hk₁ t₁ h (fun e => cells_double h₁ e) y
      obtain ⟨e₂, _⟩ := c07_push hk₂ t₂ (hc ▸ h) (fun e => cells_double h₂ e) y
      simp only [run, e₁, e₂, ← hc]
      exact ih _ _ hi
  obtain ⟨n₁, hi⟩ := c07_new h₁ d
  obtain ⟨n₂, _⟩ := c07_new h₂ d
  simp only [history, n₁, n₂, ← hc]
  exact key xs _ _ hi

/-- the element size is irrelevant: the unsafe array storage, the only one that branches on `size_of::<T>()`
(16-byte chunks for types of 4 bytes and more), goes through the same states whatever the size -/
theorem c07_element_size_irrelevant {k : Kind} {size c : Nat} (hk : k ≠ .vec) (t₁ t₂ : Nat) (h : Admissible k size c)
    (d : α) (xs : List α) :
    history k t₁ size c d xs = history k t₂ size c d xs :=
  c07_backends_same_state hk hk t₁ t₂ h h rfl d xs

/-! ### hypotheses are satisfiable, theorems are not vacuous -/

example : Admissible .arr 3 4 := by decide          -- capacity = size + 1: overlapping rewind
example : Admissible .uarr 5 8 := by decide         -- size < capacity < 2 * size
example : Admissible .uvec 3 2 := by decide
example : Admissible .vecFixed 3 2 := by decide

/-- a history that crosses the rewind boundary of a 4-cell buffer three times -/
def sampleHistory : List Nat := [1, 2, 3, 4, 5, 6, 7, 8, 9, 10, 11, 12, 13]

example : (match history .arr 8 3 4 0 sampleHistory with
    | .ok w => observe .arr 8 w 0 | _ => observe .arr 8 (init 0 0 0) 0) = Obs.ofSpec (Spec.Window.observe 3 sampleHistory) := by
  decide
example : Spec.Window.observe 3 sampleHistory =
    { size := 3, empty := false, filled := true, first := some 11, last := some 13,
      slice := some [11, 12, 13], vec := some [11, 12, 13], arr := some [11, 12, 13] } := by decide
example : Spec.Window.observe 3 [7, 8] =
    { size := 3, empty := false, filled := false, first := some 7, last := none,
      slice := none, vec := none, arr := none } := by decide
example : (match history .uarr 12 5 6 0 (List.range 40) with
    | .ok w => slice .uarr 12 w | _ => .panic) = .ok [35, 36, 37, 38, 39] := by decide
example : (match history .uarr 1 5 6 0 (List.range 40) with
    | .ok w => slice .uarr 1 w | _ => .panic) = .ok [35, 36, 37, 38, 39] := by decide
example : (match history .uvec 8 3 2 0 sampleHistory with
    | .ok w => slice .uvec 8 w | _ => .panic) = .ok [11, 12, 13] := by decide
example : (match history .vecFixed 8 3 2 0 sampleHistory with
    | .ok w => slice .vecFixed 8 w | _ => .panic) = .ok [11, 12, 13] := by decide
/-- the hypothesis `multiple ≥ 2` is needed: with multiple 1 the safe vector storage panics and the unsafe one
copies overlapping ranges with `copy_nonoverlapping` / writes out of bounds -/
example : history .vec 8 2 1 0 [1, 2, 3] = .panic := by decide
example : history .uvec 8 2 1 0 [1, 2, 3] = .ub := by decide
/-- the hypothesis `SIZE < CAPACITY` is what the constructors assert -/
example : history .arr 8 3 3 0 ([] : List Nat) = .panic := by decide

/-! ## today's `storage_vec.rs` (`Kind.vec`): defect F1

Full statement (false for `Kind.vec`):
`∀ size c d xs, Admissible .vec size c → ∃ w, history .vec size c d xs = .ok w ∧ observe .vec w d = Obs.ofSpec (observe size xs)`.
The slow path of `push` sets `head = 0` and does not advance it, so after the first rewind the storage shows
`size + 1` values, and the next rewind copies the *oldest* `size` of them: the most recent value before the rewind is
lost. What does hold is the statement for histories up to the capacity (no rewind yet). -/

/-- slice after constructing `k size c` and pushing `xs` (natural-number elements, default 0) -/
def sliceAfter (k : Kind) (size c : Nat) (xs : List Nat) : Out (List Nat) :=
  match history k 8 size c 0 xs with
  | .ok w => slice k 8 w
  | .err => .err
  | .panic => .panic
  | .ub => .ub

/-- size 3, multiple 2: after the 7th push the view holds four values (the real code prints the same) -/
theorem c07_vec_keeps_one_too_many : sliceAfter .vec 3 2 [1, 2, 3, 4, 5, 6, 7] = .ok [4, 5, 6, 7] := by decide

/-- … and the 10th push loses the value 9 (the real code prints the same) -/
theorem c07_vec_loses_value : sliceAfter .vec 3 2 [1, 2, 3, 4, 5, 6, 7, 8, 9, 10] = .ok [6, 7, 8, 10] := by decide

/-- the negation of the full statement for today's safe vector storage -/
theorem c07_vec_fails :
    ¬ ∀ (size c : Nat) (xs : List Nat), Admissible .vec size c →
        sliceAfter .vec size c xs = ofSpec (view size xs) := by
  intro hall
  have := hall 3 2 [1, 2, 3, 4, 5, 6, 7] (by decide)
  rw [c07_vec_keeps_one_too_many] at this
  revert this; decide

/-- what holds for today's safe vector storage: every history that does not exceed the capacity `size * multiple`
(the rewind path has not run yet) is observed correctly -/
theorem c07_vec_partial {size c : Nat} (tsz : Nat) (h : Admissible .vec size c) (d : α) (xs : List α)
    (hx : xs.length ≤ size * c) :
    ∃ w, history .vec tsz size c d xs = .ok w ∧ observe .vec tsz w d = Obs.ofSpec (Spec.Window.observe size xs) := by
  have key : ∀ (ys : List α) (w : St α) (pre : List α), Inv size (size * c) w pre → w.tail = pre.length →
      pre.length + ys.length ≤ size * c →
      ∃ w', run .vec tsz w ys = .ok w' ∧ Inv size (size * c) w' (pre ++ ys) := by
    intro ys
    induction ys with
    | nil => intro w pre h _ _; exact ⟨w, rfl, by simpa using h⟩
    | cons y ys ih =>
      intro w pre hi ht hl
      simp only [List.length_cons] at hl
      have hroom : w.tail < size * c := by omega
      have he := gen_push_vec_room tsz w pre y hi hroom
      have hi' := next_inv w pre y hi
      have ht' : (next size (size * c) w pre y).tail = (pre ++ [y]).length := by
        have hroom' := hroom
        rw [ht] at hroom'
        simp [next, appended, ht, hroom']
      obtain ⟨w', hr, hw⟩ := ih _ _ hi' ht' (by simp; omega)
      refine ⟨w', ?_, by simpa using hw⟩
      simp only [run, he, hr]
  obtain ⟨hn, hi⟩ := c07_new h d
  simp only [cells] at hn hi
  obtain ⟨w, hr, hw⟩ := key xs _ _ hi (by simp [init]) (by simpa using hx)
  refine ⟨w, ?_, ?_⟩
  · simp only [history, hn, hr]
  · exact gen_observe .vec tsz (by simpa using hw) d

example : Admissible .vec 3 2 := by decide
example : sliceAfter .vec 3 2 [1, 2, 3, 4, 5, 6] = .ok [4, 5, 6] := by decide

/-! ## the unsafe array storage before `fixes/F10-window-unsafe-array.diff` (OLD code, documented here only)

`UnsafeArrayStorage::rewind` moved the window with `ptr::copy_nonoverlapping`: one call of `SIZE` elements for element
types below 4 bytes, otherwise one call per 16-byte chunk plus one for the remaining bytes. Source and destination of
a call are `(CAPACITY − SIZE) · size_of::<T>()` bytes apart, so a call overlaps its own destination whenever that
distance is smaller than the call's length — undefined behaviour; a build with debug assertions aborts
("unsafe precondition(s) violated"), which is what the harness observed for exactly the configurations below.
`oldRewindOverlaps` is a hand-written copy of that arithmetic, not part of the model. -/

/-- does some `copy_nonoverlapping` call of the OLD rewind overlap? (`tsz` = `size_of::<T>()`) -/
def oldRewindOverlaps (tsz size cap : Nat) : Bool :=
  let off := (cap - size) * tsz
  if tsz ≥ 4 then
    let bytes := size * tsz
    let chunks := bytes / 16
    let rem := bytes % 16
    (decide (chunks > 0) && decide (off < 16)) || (decide (rem > 0) && decide (off < rem))
  else decide (size > 0) && decide (off < size * tsz)

/-- u8, SIZE 2, CAPACITY 3 / u32, SIZE 5, CAPACITY 8 / u64, SIZE 9, CAPACITY 10: the old rewind is undefined behaviour -/
theorem c07_uarr_old_rewind_overlaps :
    oldRewindOverlaps 1 2 3 = true ∧ oldRewindOverlaps 4 5 8 = true ∧ oldRewindOverlaps 8 9 10 = true := by decide

/-- … while u32, SIZE 5, CAPACITY 9 and u64, SIZE 9, CAPACITY 11 happen to be fine (as observed) -/
example : oldRewindOverlaps 4 5 9 = false ∧ oldRewindOverlaps 8 9 11 = false := by decide

/-- the old rewind was free of overlap whenever the capacity is at least twice the size -/
theorem c07_uarr_old_rewind_ok_of_double (tsz size cap : Nat) (h : 2 * size ≤ cap) :
    oldRewindOverlaps tsz size cap = false := by
  unfold oldRewindOverlaps
  have hoff : size * tsz ≤ (cap - size) * tsz := Nat.mul_le_mul_right tsz (by omega)
  by_cases ht : tsz ≥ 4
  · simp only [ht, if_true]
    have hrem : size * tsz % 16 ≤ size * tsz := Nat.mod_le _ _
    have hdiv : size * tsz / 16 > 0 → 16 ≤ size * tsz := by
      intro hd
      apply Classical.byContradiction; intro hn
      have : size * tsz / 16 = 0 := Nat.div_eq_of_lt (by omega)
      omega
    generalize size * tsz = b at *
    generalize (cap - size) * tsz = o at *
    by_cases hc : b / 16 > 0
    · have := hdiv hc
      have h1 : ¬ o < 16 := by omega
      have h2 : ¬ o < b % 16 := by omega
      simp [h1, h2]
    · have h2 : ¬ o < b % 16 := by omega
      simp [hc, h2]
  · simp only [ht, if_false]
    have : ¬ (cap - size) * tsz < size * tsz := by omega
    simp [this]

end C07
