import DcVerif.Gen.UGraphTypes
import DcVerif.Lemmas.UGraph
/-!
# C08 — UltraGraph behaves as a directed-graph store under any operation sequence

`Model.UGraph` mirrors `ultragraph/src/storage/matrix_graph/*.rs` on top of petgraph 0.7.1's `MatrixGraph`
(id allocator with reuse, adjacency cells, edge counter) — version `.repaired`, i.e. with the two repairs
`fixes/F2-remove-edge.diff` and `fixes/F3-number-edges.diff` applied; version `.legacy` is the code before them.
`Spec.DiGraph` is a plain directed graph: live nodes with values, a list of weighted edges, an optional root.

Main statement (`c08_refinement`): for **every** history of operations — mutators `add_node`, `add_root_node`,
`remove_node`, `add_edge`, `add_edge_with_weight`, `remove_edge`, `clear` and every observer, in any interleaving,
of any length, including index reuse after removals — the outputs of the implementation model are exactly the
outputs the specification allows (an `add` may return any index that is not live; every other answer is determined),
and the abstraction of the final implementation state is the specification's final state. Corollaries: the model
never panics; an index returned by an add is fresh and denotes the added value until that node is removed;
edges exist exactly between live nodes where added and not removed; failed operations change nothing.

Before the repairs the statement is false: `c08_F2_remove_edge_forgets_nodes`, `c08_F3_stale_edge_count`
(witnesses, same histories as replayed on the real code, DESIGN.md §6).
-/
namespace C08
open Spec Spec.DiGraph Model Model.UGraph

theorem abs_ext {g : UGraph} {n : List (Nat × Nat)} {e : List Edge} {r : Option Nat}
    (h1 : g.nodeMap = n) (h2 : g.adj = e) (h3 : g.root = r) : abs g = ⟨n, e, r⟩ := by
  unfold abs; rw [h1, h2, h3]

/-- **one step**: the invariant is preserved, the output is one the specification allows, and the abstract
states stay in step -/
theorem c08_step_refines {g : UGraph} (h : WF g) (op : Op) :
    WF (step .repaired g op).1 ∧
    Spec.DiGraph.step (abs g) op (step .repaired g op).2 = some (abs (step .repaired g op).1) := by
  cases op with
  | addNode v =>
    obtain ⟨hwf, hf, hnm, _, hadj, hroot⟩ := addNode_ok h v
    refine ⟨hwf, ?_⟩
    show (if live (abs g) (g.addNode v).2 then none else some _) = _
    have : live (abs g) (g.addNode v).2 = false := hf
    rw [this]; simp only [Bool.false_eq_true, if_false]
    exact congrArg some (abs_ext hnm hadj hroot).symm
  | addRoot v =>
    obtain ⟨hwf, hf, hnm, hadj, hroot⟩ := addRoot_ok h v
    refine ⟨hwf, ?_⟩
    show (if live (abs g) (g.addRoot v).2 then none else some _) = _
    have : live (abs g) (g.addRoot v).2 = false := hf
    rw [this]; simp only [Bool.false_eq_true, if_false]
    exact congrArg some (abs_ext hnm hadj hroot).symm
  | removeNode i =>
    show WF (g.removeNode .repaired i).1 ∧ (if ((abs g).det (.removeNode i)).2 = (g.removeNode .repaired i).2
      then some ((abs g).det (.removeNode i)).1 else none) = some (abs (g.removeNode .repaired i).1)
    have hl : live (abs g) i = has g.nodeMap i := rfl
    cases hi : has g.nodeMap i
    · rw [removeNode_err .repaired h i hi]
      simp only [det, hl, hi, Bool.false_eq_true, if_false, if_true]
      exact ⟨h, trivial⟩
    · obtain ⟨g', hg', hwf, hnm, hadj, hroot⟩ := removeNode_ok h i hi
      rw [hg']
      simp only [det, hl, hi, if_true]
      exact ⟨hwf, congrArg some (abs_ext hnm hadj hroot).symm⟩
  | addEdge a b =>
    show WF (g.addEdgeW a b 0).1 ∧ (if (addEdge (abs g) a b 0).2 = (g.addEdgeW a b 0).2
      then some (addEdge (abs g) a b 0).1 else none) = some (abs (g.addEdgeW a b 0).1)
    have hgd : (live (abs g) a && live (abs g) b && !hasEdge (abs g) a b) =
      (has g.nodeMap a && has g.nodeMap b && !g.hasCell a b) := rfl
    unfold addEdge; rw [hgd]
    cases hc : (has g.nodeMap a && has g.nodeMap b && !g.hasCell a b)
    · rw [addEdgeW_err h a b 0 hc]; exact ⟨h, by simp⟩
    · obtain ⟨g', hg', hwf, hnm, hadj, hroot⟩ := addEdgeW_spec h a b 0 hc
      rw [hg']; simp only [if_true]
      exact ⟨hwf, congrArg some (abs_ext hnm hadj hroot).symm⟩
  | addEdgeW a b w =>
    show WF (g.addEdgeW a b w).1 ∧ (if (addEdge (abs g) a b w).2 = (g.addEdgeW a b w).2
      then some (addEdge (abs g) a b w).1 else none) = some (abs (g.addEdgeW a b w).1)
    have hgd : (live (abs g) a && live (abs g) b && !hasEdge (abs g) a b) =
      (has g.nodeMap a && has g.nodeMap b && !g.hasCell a b) := rfl
    unfold addEdge; rw [hgd]
    cases hc : (has g.nodeMap a && has g.nodeMap b && !g.hasCell a b)
    · rw [addEdgeW_err h a b w hc]; exact ⟨h, by simp⟩
    · obtain ⟨g', hg', hwf, hnm, hadj, hroot⟩ := addEdgeW_spec h a b w hc
      rw [hg']; simp only [if_true]
      exact ⟨hwf, congrArg some (abs_ext hnm hadj hroot).symm⟩
  | removeEdge a b =>
    show WF (g.removeEdge .repaired a b).1 ∧ (if ((abs g).det (.removeEdge a b)).2 = (g.removeEdge .repaired a b).2
      then some ((abs g).det (.removeEdge a b)).1 else none) = some (abs (g.removeEdge .repaired a b).1)
    have hl : hasEdge (abs g) a b = g.hasCell a b := rfl
    cases hc : g.hasCell a b
    · rw [removeEdge_err .repaired h a b hc]
      simp only [det, hl, hc, Bool.false_eq_true, if_false, if_true]
      exact ⟨h, trivial⟩
    · obtain ⟨g', hg', hwf, hnm, hadj, hroot⟩ := removeEdge_ok h a b hc
      rw [hg']
      simp only [det, hl, hc, if_true]
      exact ⟨hwf, congrArg some (abs_ext hnm hadj hroot).symm⟩
  | clear => exact ⟨wf_init, rfl⟩
  | containsNode i =>
    refine ⟨h, ?_⟩
    show (if Out.bool (live (abs g) i) = Out.bool (g.containsNode i) then some (abs g) else none) = some (abs g)
    rw [h.containsNode]; exact if_pos rfl
  | getNode i =>
    refine ⟨h, ?_⟩
    show (if Out.optNat (value (abs g) i) = Out.optNat (g.getNode i) then some (abs g) else none) = some (abs g)
    rw [h.getNode]; exact if_pos rfl
  | containsEdge a b =>
    refine ⟨h, ?_⟩
    show (if Out.bool (hasEdge (abs g) a b) = Out.bool (g.containsEdge a b) then some (abs g) else none) = some (abs g)
    rw [h.containsEdge]; exact if_pos rfl
  | size =>
    have : UGraph.step .repaired g .size = (g, .nat g.nodeMap.length) := by simp only [UGraph.step, h.len]
    rw [this]; exact ⟨h, if_pos rfl⟩
  | numNodes =>
    have : UGraph.step .repaired g .numNodes = (g, .nat g.nodeMap.length) := by simp only [UGraph.step, h.len]
    rw [this]; exact ⟨h, if_pos rfl⟩
  | isEmpty =>
    have : UGraph.step .repaired g .isEmpty = (g, .bool (g.nodeMap.length == 0)) := by simp only [UGraph.step, h.len]
    rw [this]; exact ⟨h, if_pos rfl⟩
  | numEdges =>
    refine ⟨h, ?_⟩
    show (if Out.nat (abs g).edges.length = Out.nat g.nbEdges then some (abs g) else none) = some (abs g)
    rw [h.edgesOk.nb]; exact if_pos rfl
  | allNodes =>
    have : UGraph.step .repaired g .allNodes = (g, .nats (sortNat (g.nodeMap.map (·.2)))) := by
      simp only [UGraph.step, h.len]
    rw [this]; exact ⟨h, if_pos rfl⟩
  | allEdges =>
    refine ⟨h, ?_⟩
    show (if Out.pairs (sortPairs ((abs g).edges.map (fun e => (e.1, e.2.1)))) = Out.pairs (sortPairs g.allEdges)
      then some (abs g) else none) = some (abs g)
    rw [sortPairs_perm (allEdges_perm g h.keysNodup (fun e he => (h.edgesLive e he).1))]
    exact if_pos rfl
  | outgoing a =>
    have hl : live (abs g) a = has g.nodeMap a := rfl
    have hm : UGraph.step .repaired g (.outgoing a) =
        if has g.nodeMap a then (g, .nats (g.rowOf a)) else (g, .err) := by
      simp only [UGraph.step, h.containsNode]; cases has g.nodeMap a <;> rfl
    have hs : (abs g).det (.outgoing a) =
        if has g.nodeMap a then (abs g, .nats (g.rowOf a)) else (abs g, .err) := by
      simp only [det, hl]; rfl
    show WF (UGraph.step .repaired g (.outgoing a)).1 ∧
      (if ((abs g).det (.outgoing a)).2 = (UGraph.step .repaired g (.outgoing a)).2
        then some ((abs g).det (.outgoing a)).1 else none) = some (abs (UGraph.step .repaired g (.outgoing a)).1)
    rw [hm, hs]
    cases has g.nodeMap a
    · exact ⟨h, if_pos rfl⟩
    · exact ⟨h, if_pos rfl⟩
  | containsRoot => exact ⟨h, if_pos rfl⟩
  | getRootNode =>
    simp only [UGraph.step]
    cases hr : g.root with
    | none =>
      refine ⟨h, ?_⟩
      show (if Out.optNat ((abs g).root.bind (value (abs g))) = Out.optNat none then some (abs g) else none) = _
      have : (abs g).root = none := hr
      rw [this]; exact if_pos rfl
    | some r =>
      refine ⟨h, ?_⟩
      show (if Out.optNat ((abs g).root.bind (value (abs g))) = Out.optNat (mGet g.nodeMap r) then some (abs g) else none) = _
      have : (abs g).root = some r := hr
      rw [this]; exact if_pos rfl
  | getRootIndex => exact ⟨h, if_pos rfl⟩
  | getLastIndex =>
    have hm : UGraph.step .repaired g .getLastIndex =
        if g.nodeMap.length == 0 then (g, .err) else (g, .nat g.nodeMap.length) := by
      simp only [UGraph.step, h.len]
    have hs : (abs g).det .getLastIndex =
        if g.nodeMap.length == 0 then (abs g, .err) else (abs g, .nat g.nodeMap.length) := rfl
    show WF (UGraph.step .repaired g .getLastIndex).1 ∧
      (if ((abs g).det .getLastIndex).2 = (UGraph.step .repaired g .getLastIndex).2
        then some ((abs g).det .getLastIndex).1 else none) = some (abs (UGraph.step .repaired g .getLastIndex).1)
    rw [hm, hs]
    cases g.nodeMap.length == 0
    · exact ⟨h, if_pos rfl⟩
    · exact ⟨h, if_pos rfl⟩

/-- histories from any well-formed state -/
theorem c08_run_refines (ops : List Op) : ∀ {g : UGraph}, WF g →
    WF (run .repaired g ops).1 ∧
    Spec.DiGraph.run (abs g) (ops.zip (run .repaired g ops).2) = some (abs (run .repaired g ops).1) := by
  induction ops with
  | nil => intro g h; exact ⟨h, rfl⟩
  | cons op rest ih =>
    intro g h
    obtain ⟨hwf, hst⟩ := c08_step_refines h op
    obtain ⟨hwf', hrun⟩ := ih hwf
    refine ⟨hwf', ?_⟩
    show Spec.DiGraph.run (abs g) ((op, (UGraph.step .repaired g op).2) ::
      rest.zip (run .repaired (UGraph.step .repaired g op).1 rest).2) = _
    simp only [Spec.DiGraph.run, hst]
    exact hrun

/-- **C08, main statement.** For every operation history (any length, any interleaving of mutators and
observers) started on the empty graph: every output of the implementation model is allowed by the plain
directed-graph specification, and the final states correspond. -/
theorem c08_refinement (ops : List Op) :
    Spec.DiGraph.run empty (ops.zip (run .repaired init ops).2) = some (abs (run .repaired init ops).1) :=
  (c08_run_refines ops wf_init).2

/-- every reachable state is well-formed (allocator, matrix, counter and both maps in step) -/
theorem c08_reachable_wf (ops : List Op) : WF (run .repaired init ops).1 :=
  (c08_run_refines ops wf_init).1

/-- the specification never allows the output `panic` … -/
theorem spec_rejects_panic (s : DiGraph) (op : Op) : Spec.DiGraph.step s op .panic = none := by
  cases op <;> simp only [Spec.DiGraph.step, det, Spec.DiGraph.addEdge] <;> (repeat' split) <;> simp_all

/-- … hence no operation of any history panics (no `unwrap` on `None`, no failed `assert!`, no underflow of
petgraph's edge counter or of `IdStorage::len`) -/
theorem c08_never_panics {g : UGraph} (h : WF g) (op : Op) : (UGraph.step .repaired g op).2 ≠ .panic := by
  intro hp
  have := (c08_step_refines h op).2
  rw [hp, spec_rejects_panic] at this
  cases this

/-- **add_fresh.** In every reachable state `add_node` returns an index that was not live, afterwards that
index denotes the added value, and every other index denotes what it denoted before. -/
theorem c08_add_fresh (ops : List Op) (v : Nat) :
    let g := (run .repaired init ops).1
    let r := g.addNode v
    g.containsNode r.2 = false ∧ g.getNode r.2 = none ∧ r.1.getNode r.2 = some v ∧
      ∀ j, j ≠ r.2 → r.1.getNode j = g.getNode j := by
  intro g r
  have h : WF g := c08_reachable_wf ops
  obtain ⟨hwf, hf, hnm, _, _, _⟩ := addNode_ok h v
  refine ⟨by rw [h.containsNode]; exact hf, by rw [h.getNode]; exact mGet_eq_none_of_not_has _ _ hf, ?_, ?_⟩
  · show (g.addNode v).1.getNode (g.addNode v).2 = some v
    rw [hwf.getNode, hnm, mGet_cons, if_pos rfl]
  · intro j hj
    show (g.addNode v).1.getNode j = g.getNode j
    rw [hwf.getNode, h.getNode, hnm, mGet_cons, if_neg (fun e => hj e.symm)]

/-- same for `add_root_node` -/
theorem c08_add_root_fresh (ops : List Op) (v : Nat) :
    let g := (run .repaired init ops).1
    let r := g.addRoot v
    g.containsNode r.2 = false ∧ r.1.getNode r.2 = some v ∧ r.1.root = some r.2 ∧
      ∀ j, j ≠ r.2 → r.1.getNode j = g.getNode j := by
  intro g r
  have h : WF g := c08_reachable_wf ops
  obtain ⟨hwf, hf, hnm, _, hroot⟩ := addRoot_ok h v
  refine ⟨by rw [h.containsNode]; exact hf, ?_, hroot, ?_⟩
  · show (g.addRoot v).1.getNode (g.addRoot v).2 = some v
    rw [hwf.getNode, hnm, mGet_cons, if_pos rfl]
  · intro j hj
    show (g.addRoot v).1.getNode j = g.getNode j
    rw [hwf.getNode, h.getNode, hnm, mGet_cons, if_neg (fun e => hj e.symm)]

/-- **failed operations change nothing** (both versions of the code, any state): an operation answering
`err` — absent node, absent or duplicate edge, empty graph — leaves the whole implementation state as it was. -/
theorem c08_failed_ops_change_nothing (ver : Version) (g : UGraph) (op : Op)
    (h : (UGraph.step ver g op).2 = .err) : (UGraph.step ver g op).1 = g := by
  cases op <;> simp only [UGraph.step, UGraph.removeNode, UGraph.addEdgeW, UGraph.removeEdge] at h ⊢ <;>
    (repeat' split at h) <;> simp_all

/-- **an index keeps denoting its node's value until that node is removed**: any operation other than
`remove_node(i)` and `clear` — in particular an `add` that reuses some other freed index, a `remove_edge`
touching `i`, a `remove_node` of a neighbour — leaves `get_node(i)` as it was -/
theorem c08_value_until_removed {g : UGraph} (h : WF g) (i v : Nat) (hv : g.getNode i = some v) (op : Op)
    (hrm : op ≠ .removeNode i) (hcl : op ≠ .clear) : (UGraph.step .repaired g op).1.getNode i = some v := by
  have hwf := (c08_step_refines h op).1
  rw [hwf.getNode]
  rw [h.getNode] at hv
  have hlive : has g.nodeMap i = true := by
    rw [← mGet_isSome, hv]; rfl
  cases op with
  | addNode v' =>
    obtain ⟨_, hf, hnm, _⟩ := addNode_ok h v'
    show mGet (g.addNode v').1.nodeMap i = some v
    have hne : ¬ (g.addNode v').2 = i := by intro e; rw [e, hlive] at hf; cases hf
    rw [hnm, mGet_cons, if_neg hne, hv]
  | addRoot v' =>
    obtain ⟨_, hf, hnm, _⟩ := addRoot_ok h v'
    show mGet (g.addRoot v').1.nodeMap i = some v
    have hne : ¬ (g.addRoot v').2 = i := by intro e; rw [e, hlive] at hf; cases hf
    rw [hnm, mGet_cons, if_neg hne, hv]
  | removeNode j =>
    have hji : i ≠ j := fun e => hrm (by rw [e])
    show mGet (g.removeNode .repaired j).1.nodeMap i = some v
    cases hj : has g.nodeMap j
    · rw [removeNode_err .repaired h j hj]; exact hv
    · obtain ⟨g', hg', _, hnm, _⟩ := removeNode_ok h j hj
      rw [hg', hnm, mGet_mRemove_ne _ _ _ hji, hv]
  | addEdge a b =>
    show mGet (g.addEdgeW a b 0).1.nodeMap i = some v
    cases hc : (has g.nodeMap a && has g.nodeMap b && !g.hasCell a b)
    · rw [addEdgeW_err h a b 0 hc]; exact hv
    · obtain ⟨g', hg', _, hnm, _⟩ := addEdgeW_spec h a b 0 hc
      rw [hg', hnm, hv]
  | addEdgeW a b w =>
    show mGet (g.addEdgeW a b w).1.nodeMap i = some v
    cases hc : (has g.nodeMap a && has g.nodeMap b && !g.hasCell a b)
    · rw [addEdgeW_err h a b w hc]; exact hv
    · obtain ⟨g', hg', _, hnm, _⟩ := addEdgeW_spec h a b w hc
      rw [hg', hnm, hv]
  | removeEdge a b =>
    show mGet (g.removeEdge .repaired a b).1.nodeMap i = some v
    cases hc : g.hasCell a b
    · rw [removeEdge_err .repaired h a b hc]; exact hv
    · obtain ⟨g', hg', _, hnm, _⟩ := removeEdge_ok h a b hc
      rw [hg', hnm, hv]
  | clear => exact absurd rfl hcl
  | size | numNodes | isEmpty | getLastIndex | allNodes => simp only [UGraph.step, h.len]; (try split) <;> exact hv
  | outgoing a => simp only [UGraph.step]; split <;> exact hv
  | getRootNode => simp only [UGraph.step]; split <;> exact hv
  | _ => exact hv

/-! ## edges exist exactly between live nodes, where added and not removed -/

/-- in every reachable state an edge connects live nodes -/
theorem c08_edges_between_live (ops : List Op) (a b : Nat) :
    let g := (run .repaired init ops).1
    g.containsEdge a b = true → g.containsNode a = true ∧ g.containsNode b = true := by
  intro g hc
  have h : WF g := c08_reachable_wf ops
  rw [h.containsEdge] at hc
  rw [h.containsNode, h.containsNode]
  exact h.hasCell_live hc

theorem hasCell_filter (g g' : UGraph) (p : Edge → Bool) (h : g'.adj = g.adj.filter p) (c d : Nat) :
    g'.hasCell c d = g.adj.any (fun e => p e && (e.1 == c && e.2.1 == d)) := by
  unfold hasCell; rw [h, List.any_filter]

/-- **removing an edge removes nothing else**: a successful `remove_edge(a,b)` leaves every node (membership and
value) and every other edge as they were, and the edge `a→b` is gone -/
theorem c08_remove_edge_effect {g : UGraph} (h : WF g) (a b : Nat) (hok : (g.removeEdge .repaired a b).2 = .ok) :
    (∀ i, (g.removeEdge .repaired a b).1.containsNode i = g.containsNode i) ∧
    (∀ i, (g.removeEdge .repaired a b).1.getNode i = g.getNode i) ∧
    (∀ c d, (g.removeEdge .repaired a b).1.containsEdge c d = (g.containsEdge c d && !(c == a && d == b))) := by
  cases hc : g.hasCell a b
  · rw [removeEdge_err .repaired h a b hc] at hok; cases hok
  · obtain ⟨g', hg', hwf, hnm, hadj, _⟩ := removeEdge_ok h a b hc
    rw [hg']
    refine ⟨fun i => by rw [hwf.containsNode, h.containsNode, hnm], fun i => by rw [hwf.getNode, h.getNode, hnm], ?_⟩
    intro c d
    rw [hwf.containsEdge, h.containsEdge, hasCell_filter g g' _ hadj, hasCell]
    by_cases hcd : c = a ∧ d = b
    · obtain ⟨rfl, rfl⟩ := hcd
      simp only [beq_self_eq_true, Bool.and_self, Bool.not_true, Bool.and_false]
      rw [List.any_eq_false]
      intro e _; cases (e.1 == c && e.2.1 == d) <;> simp
    · have hb : (c == a && d == b) = false := by simpa using hcd
      rw [hb, Bool.not_false, Bool.and_true]
      congr 1; funext e
      by_cases he : e.1 = c ∧ e.2.1 = d
      · have : (e.1 == a && e.2.1 == b) = false := by rw [he.1, he.2]; exact hb
        rw [this, Bool.not_false, Bool.true_and]
      · have : (e.1 == c && e.2.1 == d) = false := by simpa using he
        rw [this, Bool.and_false]

/-- **removing a node removes exactly the node and its incident edges**, and the edge count follows -/
theorem c08_remove_node_effect {g : UGraph} (h : WF g) (i : Nat) (hok : (g.removeNode .repaired i).2 = .ok) :
    (∀ j, (g.removeNode .repaired i).1.containsNode j = (g.containsNode j && j != i)) ∧
    (∀ j, j ≠ i → (g.removeNode .repaired i).1.getNode j = g.getNode j) ∧
    (∀ c d, (g.removeNode .repaired i).1.containsEdge c d = (g.containsEdge c d && c != i && d != i)) ∧
    (g.removeNode .repaired i).1.nbEdges = (g.adj.filter (fun e => e.1 != i && e.2.1 != i)).length := by
  cases hi : has g.nodeMap i
  · rw [removeNode_err .repaired h i hi] at hok; cases hok
  · obtain ⟨g', hg', hwf, hnm, hadj, _⟩ := removeNode_ok h i hi
    rw [hg']
    refine ⟨fun j => by rw [hwf.containsNode, h.containsNode, hnm, has_mRemove],
      fun j hj => by rw [hwf.getNode, h.getNode, hnm, mGet_mRemove_ne _ _ _ hj], ?_, by rw [hwf.edgesOk.nb, hadj]⟩
    intro c d
    rw [hwf.containsEdge, h.containsEdge, hasCell_filter g g' _ hadj, hasCell]
    by_cases hcd : c ≠ i ∧ d ≠ i
    · have h1 : (c != i) = true := by simpa using hcd.1
      have h2 : (d != i) = true := by simpa using hcd.2
      rw [h1, h2, Bool.and_true, Bool.and_true]
      congr 1; funext e
      by_cases he : e.1 = c ∧ e.2.1 = d
      · simp [he.1, he.2, h1, h2]
      · have : (e.1 == c && e.2.1 == d) = false := by simpa using he
        simp [this]
    · have : ((g.adj.any fun e => e.1 == c && e.2.1 == d) && c != i && d != i) = false := by
        by_cases h1 : c = i
        · simp [h1]
        · have h2 : d = i := by
            by_cases h2 : d = i
            · exact h2
            · exact absurd ⟨h1, h2⟩ hcd
          simp [h2]
      rw [this, List.any_eq_false]
      intro e _
      by_cases he : e.1 = c ∧ e.2.1 = d
      · rw [he.1, he.2]
        by_cases h1 : c = i
        · simp [h1]
        · have h2 : d = i := by
            by_cases h2 : d = i
            · exact h2
            · exact absurd ⟨h1, h2⟩ hcd
          simp [h2]
      · have : (e.1 == c && e.2.1 == d) = false := by simpa using he
        simp [this]

/-- **adding an edge adds exactly that edge** (both ends live, not yet present), nodes untouched -/
theorem c08_add_edge_effect {g : UGraph} (h : WF g) (a b w : Nat) (hok : (g.addEdgeW a b w).2 = .ok) :
    g.containsNode a = true ∧ g.containsNode b = true ∧ g.containsEdge a b = false ∧
    (∀ i, (g.addEdgeW a b w).1.getNode i = g.getNode i) ∧
    (∀ c d, (g.addEdgeW a b w).1.containsEdge c d = (g.containsEdge c d || (c == a && d == b))) ∧
    (g.addEdgeW a b w).1.nbEdges = g.nbEdges + 1 := by
  cases hc : (has g.nodeMap a && has g.nodeMap b && !g.hasCell a b)
  · rw [addEdgeW_err h a b w hc] at hok; cases hok
  · obtain ⟨g', hg', hwf, hnm, hadj, _⟩ := addEdgeW_spec h a b w hc
    simp only [Bool.and_eq_true, Bool.not_eq_true'] at hc
    rw [hg', h.containsNode, h.containsNode, h.containsEdge]
    refine ⟨hc.1.1, hc.1.2, hc.2, fun i => by rw [hwf.getNode, h.getNode, hnm], ?_, ?_⟩
    · intro c d
      rw [hwf.containsEdge, h.containsEdge]
      unfold hasCell; rw [hadj, List.any_append]
      congr 1
      show ((a == c && b == d) || false) = (c == a && d == b)
      rw [Bool.or_false, @BEq.comm _ _ _ a c, @BEq.comm _ _ _ b d]
    · rw [hwf.edgesOk.nb, h.edgesOk.nb, hadj]; simp

/-! ## the defects before the repairs (witnesses; the same histories were replayed on the real code) -/

/-- F2: with the legacy `remove_edge`, `add a; add b; add_edge(a,b); remove_edge(a,b)` makes both nodes
unreachable (`contains_node` false, `get_node` none) although they still exist (`number_nodes` = 2) -/
theorem c08_F2_remove_edge_forgets_nodes :
    (run .legacy init [.addNode 10, .addNode 11, .addEdge 0 1, .removeEdge 0 1,
        .containsNode 0, .getNode 1, .numNodes]).2 =
      [.idx 0, .idx 1, .ok, .ok, .bool false, .optNat none, .nat 2] := by decide

/-- F3: with the legacy `remove_node`, after `a→b→c; remove_node(b)` the graph reports 2 edges and lists none -/
theorem c08_F3_stale_edge_count :
    (run .legacy init [.addNode 1, .addNode 2, .addNode 3, .addEdge 0 1, .addEdge 1 2, .removeNode 1,
        .numEdges, .allEdges]).2 =
      [.idx 0, .idx 1, .idx 2, .ok, .ok, .ok, .nat 2, .pairs []] := by decide

/-- the repaired code on the same two histories -/
theorem c08_F2_F3_repaired :
    (run .repaired init [.addNode 10, .addNode 11, .addEdge 0 1, .removeEdge 0 1,
        .containsNode 0, .getNode 1, .numNodes]).2 =
      [.idx 0, .idx 1, .ok, .ok, .bool true, .optNat (some 11), .nat 2] ∧
    (run .repaired init [.addNode 1, .addNode 2, .addNode 3, .addEdge 0 1, .addEdge 1 2, .removeNode 1,
        .numEdges, .allEdges]).2 =
      [.idx 0, .idx 1, .idx 2, .ok, .ok, .ok, .nat 0, .pairs []] := by decide

/-! ## non-vacuity: a concrete history with growth, index reuse, a self-loop, removal of a node with incident
edges, root handling — accepted by the specification step by step -/
example :
    let ops : List Op := [.addRoot 5, .addNode 6, .addNode 7, .addEdge 0 1, .addEdgeW 1 2 9, .addEdge 2 2, .addEdge 2 0,
      .removeNode 1, .numEdges, .allEdges, .addNode 8, .getNode 1, .outgoing 2, .removeEdge 2 2, .containsNode 2,
      .removeNode 0, .getRootNode, .getRootIndex, .getLastIndex]
    (run .repaired init ops).2 =
      [.idx 0, .idx 1, .idx 2, .ok, .ok, .ok, .ok, .ok, .nat 2, .pairs [(2, 0), (2, 2)], .idx 1, .optNat (some 8),
       .nats [0, 2], .ok, .bool true, .ok, .optNat none, .optNat (some 0), .nat 2] ∧
    (Spec.DiGraph.run empty (ops.zip (run .repaired init ops).2)).isSome = true := by decide

/-- **model assumptions that are facts of the source** (regenerated by `tools/rs2lean.py ugraph` on every run): the model's
node indices are unbounded naturals and its weights unbounded — sound as long as the real index type is 32 bits wide (an `add`
can only wrap after 2^32 nodes, which no history reaches) and weights are 64-bit; the matrix graph is directed. A narrower index
type breaks this obligation; the directed case `addmany 70000` of the generator then exhibits the wrap-around. -/
theorem c08_index_and_weight_widths :
    Gen.UGraphTypes.indexBits = 32 ∧ Gen.UGraphTypes.defaultIxBits = 32 ∧ Gen.UGraphTypes.weightBits = 64 ∧
    Gen.UGraphTypes.directed = true := by decide

end C08
