import DcVerif.Model.CausalGraph
import DcVerif.Props.C08Gen
import DcVerif.Spec.ShortestPath
import DcVerif.Spec.ShortestPathFW
import DcVerif.Props.C10
import DcVerif.Lemmas.ShortestPath
import DcVerif.Lemmas.CausalGraph
/-! # The storage half of the causal-graph model is the ultragraph model (add-only histories)

`Model/CausalGraph.lean` (C01, C10) mirrors by hand the part of ultragraph that `CausaloidGraph` uses. This file relates it to
`Model/UGraph.lean` — the model `Props/C08Gen.lean` proves equal to the definitions regenerated from ultragraph's source on every
run — by a simulation over every add-only history, and restates the observations on the *generated* `contains_node` /
`contains_edge`. Built and audited by the check of C08 (owner of the `ugraphfns` translator). -/
namespace C01Store
open Model.UGraph Spec.DiGraph

/-- the values stored in the ultragraph are opaque to it: any encoding of a node will do -/
def toU (enc : CausalGraph.Node → Nat) : CausalGraph.Op → Spec.DiGraph.Op
  | .add nd => .addNode (enc nd)
  | .root nd => .addRoot (enc nd)
  | .edge a b w => .addEdgeW a b w

structure Sim (c : CausalGraph.CG) (u : Model.UGraph) : Prop where
  upper : u.ids.upper = c.upper
  noRemoved : u.ids.removed = []
  adj : u.adj = c.adj
  root : u.root = c.root
  index : ∀ i, mGet u.indexMap i = if c.indexMap.contains i then some i else none
  keys : ∀ e ∈ u.nodeMap, e.1 < u.ids.upper
  len : u.nodeMap.length = c.nodeMap.length

theorem mGet_mInsert {β : Type} (m : List (Nat × β)) (k : Nat) (v : β) (i : Nat) :
    mGet (mInsert m k v) i = if i = k then some v else mGet m i := by
  unfold mGet mInsert
  by_cases h : i = k
  · subst h; simp
  · have hk : (k == i) = false := by simpa using fun h' => h h'.symm
    simp only [List.find?_cons, hk, h, if_false, List.find?_filter]
    congr 2
    funext e
    by_cases hi : e.1 = i
    · have : e.1 ≠ k := fun h' => h (hi ▸ h')
      simp [hi, h]
    · simp [hi]

theorem filter_fresh (m : List (Nat × Nat)) (k : Nat) (h : ∀ e ∈ m, e.1 < k) : m.filter (fun e => e.1 != k) = m := by
  apply List.filter_eq_self.2
  intro e he
  have := h e he
  simp; omega

theorem sim_init : Sim {} init := by
  constructor <;> simp [init, mGet]

theorem sim_addNode {c u} (h : Sim c u) (enc : CausalGraph.Node → Nat) (nd : CausalGraph.Node) :
    Sim (CausalGraph.addNode c nd).1 (u.addNode (enc nd)).1 ∧ (u.addNode (enc nd)).2 = (CausalGraph.addNode c nd).2 := by
  have hadd : u.ids.add = ({ u.ids with upper := u.ids.upper + 1 }, u.ids.upper) := by
    unfold IdStore.add; rw [h.noRemoved]; simp [h.noRemoved]
  unfold Model.UGraph.addNode CausalGraph.addNode
  rw [hadd]
  refine ⟨⟨?_, ?_, ?_, ?_, ?_, ?_, ?_⟩, ?_⟩
  · simp [h.upper]
  · simp [h.noRemoved]
  · simp [h.adj]
  · simp [h.root]
  · intro i
    simp only [mGet_mInsert, h.index, h.upper, List.contains_cons]
    by_cases hi : i = c.upper <;> simp [hi]
  · intro e he
    simp only [mInsert, List.mem_cons, List.mem_filter] at he
    rcases he with rfl | ⟨he, _⟩
    · simp
    · have := h.keys e he; simp; omega
  · simp only [mInsert, List.length_cons, filter_fresh _ _ h.keys, h.len]
  · simp [h.upper]

theorem sim_contains {c u} (h : Sim c u) (i : Nat) : u.containsNode i = CausalGraph.contains c i := by
  unfold Model.UGraph.containsNode CausalGraph.contains
  rw [h.index]; cases c.indexMap.contains i <;> rfl

theorem sim_containsEdge {c u} (h : Sim c u) (a b : Nat) : u.containsEdge a b = CausalGraph.containsEdge c a b := by
  unfold Model.UGraph.containsEdge CausalGraph.containsEdge
  rw [sim_contains h, sim_contains h, h.index, h.index]
  unfold CausalGraph.contains CausalGraph.hasEdge hasCell
  rw [h.adj]
  cases c.indexMap.contains a <;> cases c.indexMap.contains b <;> simp

theorem sim_addRoot {c u} (h : Sim c u) (enc : CausalGraph.Node → Nat) (nd : CausalGraph.Node) :
    Sim (CausalGraph.addRoot c nd).1 (u.addRoot (enc nd)).1 ∧ (u.addRoot (enc nd)).2 = (CausalGraph.addRoot c nd).2 := by
  obtain ⟨hs, hi⟩ := sim_addNode h enc nd
  unfold Model.UGraph.addRoot CausalGraph.addRoot
  simp only []
  rw [hi]
  refine ⟨⟨hs.upper, hs.noRemoved, hs.adj, rfl, ?_, hs.keys, hs.len⟩, rfl⟩
  intro i
  rw [mGet_mInsert, hs.index]
  by_cases hi' : i = (CausalGraph.addNode c nd).2
  · subst hi'; simp [CausalGraph.addNode]
  · simp [hi']

theorem sim_addEdge {c u} (h : Sim c u) (a b w : Nat) :
    Sim ((CausalGraph.addEdge c a b w).getD c) (u.addEdgeW a b w).1 ∧
    ((u.addEdgeW a b w).2 = .ok ↔ (CausalGraph.addEdge c a b w).isSome) ∧ (u.addEdgeW a b w).2 ≠ .panic := by
  unfold Model.UGraph.addEdgeW CausalGraph.addEdge
  rw [sim_contains h, sim_contains h, sim_containsEdge h]
  by_cases ha : CausalGraph.contains c a = true
  · by_cases hb : CausalGraph.contains c b = true
    · by_cases he : CausalGraph.containsEdge c a b = true
      · simp [ha, hb, he, h]
      · have hia : c.indexMap.contains a = true := ha
        have hib : c.indexMap.contains b = true := hb
        have hcell : u.hasCell a b = false := by
          have hE : CausalGraph.hasEdge c a b = false := by
            unfold CausalGraph.containsEdge at he; rw [ha, hb] at he; simpa using he
          unfold hasCell; rw [h.adj]; exact hE
        simp only [ha, hb, he, Bool.not_true, Bool.false_eq_true, if_false, h.index, hia, hib, if_true, petAddEdge, hcell]
        refine ⟨⟨h.upper, h.noRemoved, by simp [h.adj], h.root, h.index, h.keys, h.len⟩, by simp, by simp⟩
    · simp [ha, hb, h]
  · simp [ha, h]

theorem sim_step {c u} (h : Sim c u) (enc : CausalGraph.Node → Nat) (op : CausalGraph.Op) :
    Sim (CausalGraph.step c op) (Model.UGraph.step .repaired u (toU enc op)).1 := by
  cases op with
  | add nd => exact (sim_addNode h enc nd).1
  | root nd => exact (sim_addRoot h enc nd).1
  | edge a b w => exact (sim_addEdge h a b w).1

theorem run_foldl (ops : List Spec.DiGraph.Op) : ∀ u : Model.UGraph,
    (Model.UGraph.run .repaired u ops).1 = ops.foldl (fun g op => (Model.UGraph.step .repaired g op).1) u := by
  induction ops with
  | nil => intro u; rfl
  | cons op rest ih => intro u; simp only [Model.UGraph.run, List.foldl_cons]; exact ih _

/-- **the storage half of the causal-graph model is the ultragraph model**: after any add-only history, the graph `CausalGraph.build`
    builds and the graph the ultragraph model reaches on the same history are related by `Sim` -/
theorem sim_build (enc : CausalGraph.Node → Nat) (ops : List CausalGraph.Op) :
    Sim (CausalGraph.build ops) (Model.UGraph.run .repaired init (ops.map (toU enc))).1 := by
  rw [run_foldl]
  unfold CausalGraph.build
  suffices ∀ c u, Sim c u → Sim (ops.foldl CausalGraph.step c)
      ((ops.map (toU enc)).foldl (fun g op => (Model.UGraph.step .repaired g op).1) u) from this _ _ sim_init
  induction ops with
  | nil => intro c u h; exact h
  | cons op rest ih => intro c u h; simp only [List.map_cons, List.foldl_cons]; exact ih _ _ (sim_step h enc op)

/-! ## … and hence the definitions generated from ultragraph's source -/
open Gen.UGraphFns in
/-- `contains_node` as read from `graph_like.rs`, on the graph the *generated* mutators reach, answers what the causal-graph
    model's `contains` answers -/
theorem c01store_gen_contains_node (enc : CausalGraph.Node → Nat) (ops : List CausalGraph.Op) (i : Nat) :
    contains_node (C08Gen.genRun init (ops.map (toU enc))).1 i = some (CausalGraph.contains (CausalGraph.build ops) i) := by
  have hwf := C08Gen.c08gen_reachable_wf (ops.map (toU enc))
  rw [C08Gen.contains_node_eq hwf, C08Gen.gen_run _ Model.UGraph.wf_init, sim_contains (sim_build enc ops)]

open Gen.UGraphFns in
/-- the same for `contains_edge` -/
theorem c01store_gen_contains_edge (enc : CausalGraph.Node → Nat) (ops : List CausalGraph.Op) (a b : Nat) :
    contains_edge (C08Gen.genRun init (ops.map (toU enc))).1 a b =
      some (CausalGraph.containsEdge (CausalGraph.build ops) a b) := by
  have hwf := C08Gen.c08gen_reachable_wf (ops.map (toU enc))
  rw [C08Gen.contains_edge_eq hwf, C08Gen.gen_run _ Model.UGraph.wf_init, sim_containsEdge (sim_build enc ops)]

/-- `get_last_index` of a non-empty graph is `node_map.len()` in both models, and the node counts agree -/
theorem c01store_last_index (enc : CausalGraph.Node → Nat) (ops : List CausalGraph.Op) :
    let u := (C08Gen.genRun init (ops.map (toU enc))).1
    u.nodeMap.length = CausalGraph.lastIndex (CausalGraph.build ops) ∧
    u.ids.len = some (CausalGraph.nodeCount (CausalGraph.build ops)) := by
  intro u
  have hu : u = (Model.UGraph.run .repaired init (ops.map (toU enc))).1 := by
    show (C08Gen.genRun init _).1 = _
    rw [C08Gen.gen_run _ Model.UGraph.wf_init]
  have h := sim_build enc ops
  rw [← hu] at h
  refine ⟨h.len, ?_⟩
  unfold IdStore.len CausalGraph.nodeCount
  rw [h.noRemoved, h.upper]; simp

/-- the edge weights the shortest-path statements of C10 read (`CausalGraph.weight`) are the weights of the graph the ultragraph
    model holds (`Spec.ShortestPath.weights` of its abstraction — what C15's oracle judges `astar` against), for every pair -/
theorem c01store_weights (enc : CausalGraph.Node → Nat) (ops : List CausalGraph.Op) :
    CausalGraph.weight (CausalGraph.build ops) =
      Spec.ShortestPath.weights (abs (C08Gen.genRun init (ops.map (toU enc))).1) := by
  have hu : (C08Gen.genRun init (ops.map (toU enc))).1 = (Model.UGraph.run .repaired init (ops.map (toU enc))).1 := by
    rw [C08Gen.gen_run _ Model.UGraph.wf_init]
  funext a b
  unfold CausalGraph.weight Spec.ShortestPath.weights abs
  rw [hu, (sim_build enc ops).adj]

/-- … and so are the cells: `has_edge` of the matrix is `hasEdge` of the causal-graph model -/
theorem c01store_cells (enc : CausalGraph.Node → Nat) (ops : List CausalGraph.Op) (a b : Nat) :
    (C08Gen.genRun init (ops.map (toU enc))).1.hasCell a b = CausalGraph.hasEdge (CausalGraph.build ops) a b := by
  rw [C08Gen.gen_run _ Model.UGraph.wf_init]
  unfold hasCell CausalGraph.hasEdge
  rw [(sim_build enc ops).adj]

/-- `outgoing_edges(a)`: the two models list the same successors (both lists are duplicate-free; the ultragraph model's is sorted
    by construction, the causal-graph model's is a filtered `range`) -/
theorem c01store_outgoing_mem (enc : CausalGraph.Node → Nat) (ops : List CausalGraph.Op) (a v : Nat) :
    v ∈ (C08Gen.genRun init (ops.map (toU enc))).1.rowOf a ↔ v ∈ CausalGraph.out (CausalGraph.build ops) a := by
  rw [C08Gen.gen_run _ Model.UGraph.wf_init]
  have hw := CausalGraph.wf_build ops
  unfold rowOf CausalGraph.out
  rw [mem_sortNat, (sim_build enc ops).adj]
  simp only [List.mem_map, List.mem_filter, List.mem_range, CausalGraph.hasEdge, List.any_eq_true, Bool.and_eq_true, beq_iff_eq]
  constructor
  · rintro ⟨e, ⟨he, ha⟩, rfl⟩
    exact ⟨(hw.adj e he).2, e, he, ha, rfl⟩
  · rintro ⟨_, e, he, ha, hv⟩
    exact ⟨e, ⟨he, ha⟩, hv⟩

theorem row_cols_nodup (l : List Edge) (a : Nat) (h : (l.map (fun e => (e.1, e.2.1))).Nodup) :
    ((l.filter (fun e => e.1 == a)).map (·.2.1)).Nodup := by
  induction l with
  | nil => simp
  | cons e l ih =>
    rw [List.map_cons, List.nodup_cons] at h
    by_cases he : e.1 = a
    · simp only [List.filter_cons, he, beq_self_eq_true, if_true, List.map_cons, List.nodup_cons]
      refine ⟨?_, ih h.2⟩
      intro hm
      obtain ⟨e', he', hc⟩ := List.mem_map.1 hm
      obtain ⟨hl, ha⟩ := List.mem_filter.1 he'
      apply h.1
      refine List.mem_map.2 ⟨e', hl, ?_⟩
      have : e'.1 = a := by simpa using ha
      simp [this, he, hc]
    · have : (e.1 == a) = false := by simpa using he
      simp only [List.filter_cons, this]
      exact ih h.2

/-- `outgoing_edges(a)`: the two models answer the same list — ascending, duplicate-free -/
theorem c01store_outgoing (enc : CausalGraph.Node → Nat) (ops : List CausalGraph.Op) (a : Nat) :
    (C08Gen.genRun init (ops.map (toU enc))).1.rowOf a = CausalGraph.out (CausalGraph.build ops) a := by
  have hmem := c01store_outgoing_mem enc ops a
  have hwf := C08Gen.c08gen_reachable_wf (ops.map (toU enc))
  generalize (C08Gen.genRun init (ops.map (toU enc))).1 = u at hmem hwf
  apply List.Perm.eq_of_pairwise (le := fun x y : Nat => x ≤ y)
  · intro x y _ _ h1 h2; exact Nat.le_antisymm h1 h2
  · have := isort_pairwise (le := fun a b : Nat => decide (a ≤ b)) (by intro a b c; simp; omega) (by intro a b; simp; omega)
      ((u.adj.filter (fun e => e.1 == a)).map (·.2.1))
    unfold rowOf sortNat
    exact this.imp (by intro x y h; simpa using h)
  · unfold CausalGraph.out
    exact (List.pairwise_le_range).filter _
  · apply (List.perm_ext_iff_of_nodup ?_ ?_).2
    · intro v; exact hmem v
    · exact nodup_sortNat _ (row_cols_nodup _ a hwf.edgesOk.nodup)
    · unfold CausalGraph.out; exact (List.nodup_range).filter _

open Gen.UGraphFns in
/-- the generated `outgoing_edges` (as read from `graph_algorithms.rs`) on the graph the generated mutators reach: `Err` for an
    absent node, otherwise exactly the successor list `CausalGraph.out` the traversal of C01 iterates over, in that order -/
theorem c01store_gen_outgoing_edges (enc : CausalGraph.Node → Nat) (ops : List CausalGraph.Op) (a : Nat) :
    outgoing_edges (C08Gen.genRun init (ops.map (toU enc))).1 a =
      some (if CausalGraph.contains (CausalGraph.build ops) a then Res.ok (CausalGraph.out (CausalGraph.build ops) a) else Res.err) := by
  have hwf := C08Gen.c08gen_reachable_wf (ops.map (toU enc))
  rw [C08Gen.outgoing_edges_eq hwf, c01store_outgoing enc ops a]
  have hc : (C08Gen.genRun init (ops.map (toU enc))).1.containsNode a = CausalGraph.contains (CausalGraph.build ops) a := by
    rw [C08Gen.gen_run _ Model.UGraph.wf_init]; exact sim_contains (sim_build enc ops) a
  rw [hc]

/-! ## the stored values -/
def encMap (enc : CausalGraph.Node → Nat) (m : List (Nat × CausalGraph.Node)) : List (Nat × Nat) := m.map (fun e => (e.1, enc e.2))

theorem nodes_addNode {c u} (h : Sim c u) (enc : CausalGraph.Node → Nat) (nd : CausalGraph.Node)
    (hn : u.nodeMap = encMap enc c.nodeMap) :
    (u.addNode (enc nd)).1.nodeMap = encMap enc (CausalGraph.addNode c nd).1.nodeMap := by
  have hadd : u.ids.add = ({ u.ids with upper := u.ids.upper + 1 }, u.ids.upper) := by
    unfold IdStore.add; rw [h.noRemoved]; simp [h.noRemoved]
  unfold Model.UGraph.addNode CausalGraph.addNode
  rw [hadd]
  have hf := filter_fresh u.nodeMap u.ids.upper h.keys
  simp only [mInsert, hf, encMap, List.map_cons]
  rw [hn, h.upper]; rfl

theorem nodes_step {c u} (h : Sim c u) (enc : CausalGraph.Node → Nat) (op : CausalGraph.Op)
    (hn : u.nodeMap = encMap enc c.nodeMap) :
    (Model.UGraph.step .repaired u (toU enc op)).1.nodeMap = encMap enc (CausalGraph.step c op).nodeMap := by
  cases op with
  | add nd => exact nodes_addNode h enc nd hn
  | root nd =>
    have := nodes_addNode h enc nd hn
    simpa [toU, Model.UGraph.step, CausalGraph.step, Model.UGraph.addRoot, CausalGraph.addRoot] using this
  | edge a b w =>
    have hs := (sim_addEdge h a b w).1
    show (u.addEdgeW a b w).1.nodeMap = encMap enc ((CausalGraph.addEdge c a b w).getD c).nodeMap
    have hpet : ∀ k l g', petAddEdge u k l w = some g' → g'.nodeMap = u.nodeMap := by
      intro k l g' hp
      unfold petAddEdge at hp
      split at hp
      · cases hp
      · cases hp; rfl
    have h1 : (u.addEdgeW a b w).1.nodeMap = u.nodeMap := by
      unfold Model.UGraph.addEdgeW
      split; · rfl
      split; · rfl
      split; · rfl
      split
      · split
        · rename_i hp; exact hpet _ _ _ hp
        · rfl
      · rfl
    have h2 : ((CausalGraph.addEdge c a b w).getD c).nodeMap = c.nodeMap := by
      unfold CausalGraph.addEdge
      repeat' split
      all_goals rfl
    rw [h1, h2, hn]

theorem nodes_build (enc : CausalGraph.Node → Nat) (ops : List CausalGraph.Op) :
    (Model.UGraph.run .repaired init (ops.map (toU enc))).1.nodeMap = encMap enc (CausalGraph.build ops).nodeMap := by
  rw [run_foldl]
  unfold CausalGraph.build
  suffices ∀ c u, Sim c u → u.nodeMap = encMap enc c.nodeMap →
      ((ops.map (toU enc)).foldl (fun g op => (Model.UGraph.step .repaired g op).1) u).nodeMap =
        encMap enc (ops.foldl CausalGraph.step c).nodeMap from this _ _ sim_init rfl
  induction ops with
  | nil => intro c u _ hn; exact hn
  | cons op rest ih =>
    intro c u h hn
    simp only [List.map_cons, List.foldl_cons]
    exact ih _ _ (sim_step h enc op) (nodes_step h enc op hn)

theorem mGet_encMap (enc : CausalGraph.Node → Nat) (m : List (Nat × CausalGraph.Node)) (i : Nat) :
    mGet (encMap enc m) i = (m.lookup i).map enc := by
  induction m with
  | nil => rfl
  | cons e m ih =>
    obtain ⟨k, nd⟩ := e
    unfold mGet encMap at *
    simp only [List.map_cons, List.find?_cons, List.lookup_cons]
    by_cases hi : k = i
    · subst hi; simp
    · have h1 : (i == k) = false := by simpa using fun h => hi h.symm
      have h2 : (k == i) = false := by simpa using hi
      simp only [h1, h2]
      exact ih

open Gen.UGraphFns in
/-- the generated `get_node` on the graph the generated mutators reach returns the (encoded) node the causal-graph model's `getNode`
    returns — `None` exactly for an index that is not contained -/
theorem c01store_gen_get_node (enc : CausalGraph.Node → Nat) (ops : List CausalGraph.Op) (i : Nat) :
    get_node (C08Gen.genRun init (ops.map (toU enc))).1 i = some ((CausalGraph.getNode (CausalGraph.build ops) i).map enc) := by
  have hwf := C08Gen.c08gen_reachable_wf (ops.map (toU enc))
  rw [C08Gen.get_node_eq hwf, C08Gen.gen_run _ Model.UGraph.wf_init]
  have h := sim_build enc ops
  unfold Model.UGraph.getNode CausalGraph.getNode
  rw [sim_contains h, h.index, nodes_build]
  unfold CausalGraph.contains
  cases c : (CausalGraph.build ops).indexMap.contains i <;> simp [mGet_encMap]

/-- the two developments of "walk of total weight c" (C10's `FW.Walk`, C15's `Spec.ShortestPath.Walk`) are the same relation -/
theorem walk_iff (w : Nat → Nat → Option Nat) (u v : Nat) (is : List Nat) (c : Nat) :
    FW.Walk w u v is c ↔ Spec.ShortestPath.Walk w u v is c := by
  constructor
  · intro h
    induction h with
    | edge he => exact .edge he
    | cons he _ ih => exact .cons he ih
  · intro h
    induction h with
    | edge he => exact .edge he
    | cons he _ ih => exact .cons he ih

/-- hence a walk C10 speaks about (over `CausalGraph.weight`) is a walk of the graph the ultragraph model holds, with the same weight -/
theorem c01store_walks (enc : CausalGraph.Node → Nat) (ops : List CausalGraph.Op) (u v : Nat) (is : List Nat) (c : Nat) :
    FW.Walk (CausalGraph.weight (CausalGraph.build ops)) u v is c ↔
      Spec.ShortestPath.Walk (Spec.ShortestPath.weights (Model.UGraph.abs (C08Gen.genRun Model.UGraph.init (ops.map (toU enc))).1)) u v is c := by
  rw [walk_iff, c01store_weights enc ops]

open Spec.ShortestPath in
/-- **C10's minimum is C15's minimum.** A path the driver of C10 accepts (`isMinPath` over the causal-graph model, start ≠ stop) is, on
    the graph the generated ultragraph mutators reach on the same history, a real `Path` of minimum total weight in the sense of C15 —
    the statement C15's proved oracle decides for `astar`'s answer -/
theorem c10_accepted_is_c15_minimum (enc : CausalGraph.Node → Nat) (ops : List CausalGraph.Op) (s t : Nat) (p : List Nat)
    (hst : s ≠ t)
    (h : CausalSpec.isMinPath (CausalGraph.build ops) (CausalSpec.table (CausalGraph.build ops)) s t p = true) :
    let u := (C08Gen.genRun Model.UGraph.init (ops.map (toU enc))).1
    ∃ c, Path (Model.UGraph.abs u) s t p c ∧ ∀ q c', Path (Model.UGraph.abs u) s t q c' → c ≤ c' := by
  intro u
  obtain ⟨is, c, hp, hwalk, hmin⟩ := C10.accepted_path_minimal (CausalGraph.build ops) (CausalGraph.wf_build ops) s t p h
  subst hp
  have hwf := C08Gen.c08gen_reachable_wf (ops.map (toU enc))
  refine ⟨c, walk_path _ ((c01store_walks enc ops s t is c).1 hwalk), ?_⟩
  intro q c' hq
  rcases path_walk (Model.UGraph.abs u) hwf.edgesOk.nodup hq with ⟨_, hst', _⟩ | ⟨js, _, hw⟩
  · exact absurd hst' hst
  · exact hmin js c' ((c01store_walks enc ops s t js c').2 hw)

/-- non-vacuity: root, two nodes, an accepted edge, a refused duplicate and a refused edge to an absent node -/
example :
    let ops : List CausalGraph.Op := [.root ⟨0, .plain⟩, .add ⟨1, .inv⟩, .add ⟨2, .plain⟩, .edge 0 1 4, .edge 0 1 9, .edge 1 7 0]
    CausalGraph.containsEdge (CausalGraph.build ops) 0 1 = true ∧ CausalGraph.containsEdge (CausalGraph.build ops) 1 7 = false ∧
    (CausalGraph.build ops).adj = [(0, 1, 4)] ∧
    (Model.UGraph.run .repaired init (ops.map (toU (·.id)))).1.adj = [(0, 1, 4)] := by decide

end C01Store
