import DcVerif.Gen.SpinWait
import DcVerif.Model.Ring
/-!
# What a handler waits for, tied to the source (C13, C04; used by every ring property)

`Gen/SpinWait.lean` is regenerated on every run by `tools/rs2lean_spinwait.py` from `utils/cursor_sequence.rs`
(`get_min_cursor_sequence`) and `wait_strategy/spinlock_wait_strategy.rs` (`wait_for`: one pass of the loop as a decision tree).
The consumer of `Model/Ring.lean` (shared by `RingMulti`) does the same thing in its program-counter form: `waitLoad` loads the
dependencies one by one into a running minimum, `checkAvail` compares it with the wanted sequence, `checkAlert` reads `is_done`.
Here: the running minimum is `get_min_cursor_sequence` of the observed values, and the two decisions are `spin_step`.
-/
namespace C13WaitGen
open Gen.SpinWait Ring

/-- the model's running minimum (`minOpt` folded over the observed values) is the generated `get_min_cursor_sequence` -/
theorem foldl_minOpt (vals : List Nat) (a : Option Nat) :
    (vals.foldl minOpt a) = match a with
      | none => vals.min?
      | some m => some (vals.foldl Nat.min m) := by
  induction vals generalizing a with
  | nil => cases a <;> rfl
  | cons v vs ih =>
    cases a with
    | none => simp only [List.foldl_cons, minOpt, ih, List.min?_cons']
    | some m => simp only [List.foldl_cons, minOpt, ih]

theorem min_fold_eq (vals : List Nat) : (vals.foldl minOpt none).getD 0 = get_min_cursor_sequence vals := by
  simp [foldl_minOpt, get_min_cursor_sequence]

/-- **one pass of the generated loop, in closed form** — whatever way round the source tests things: enough ⇒ `Some(available)`,
not enough and alerted ⇒ `None`, otherwise another pass -/
theorem spin_step_spec (sq av : Nat) (al : Bool) :
    spin_step sq av al = if av ≥ sq then some (some av) else if al then some none else none := by
  unfold spin_step
  by_cases h : av ≥ sq <;> cases al <;> simp [h] <;> omega

/-- the generated `wait_for` never returns a value below the wanted sequence, and what it returns is the minimum it observed in
its last pass -/
theorem spin_wait_for_sound (sq : Nat) (obs : Nat → List Nat) (alert : Nat → Bool) :
    ∀ fuel it a, spin_wait_for sq obs alert fuel it = some (some a) →
      a ≥ sq ∧ ∃ it', it ≤ it' ∧ a = get_min_cursor_sequence (obs it') := by
  intro fuel
  induction fuel with
  | zero => intro it a h; simp [spin_wait_for] at h
  | succ fuel ih =>
    intro it a h
    simp only [spin_wait_for, spin_step_spec] at h
    by_cases h1 : get_min_cursor_sequence (obs it) ≥ sq
    · simp only [h1, if_true, Option.some.injEq] at h
      subst h
      exact ⟨h1, it, Nat.le_refl it, rfl⟩
    · simp only [h1, if_false] at h
      cases hal : alert it
      · simp only [hal, Bool.false_eq_true, if_false] at h
        obtain ⟨h2, it', hle, h3⟩ := ih (it + 1) a h
        exact ⟨h2, it', by omega, h3⟩
      · simp [hal] at h

/-- **the model's consumer takes the generated decision** (spin strategy): from `checkAvail`, with the running minimum in `avail`
and the wanted sequence in `next`, the next one or two steps of `stepCons` go where `spin_step` says — to `handle` with the batch
starting at `next`, to `done` when alerted, back to a fresh round of loads otherwise -/
theorem model_spin_step (s : St) (hb : s.blocking = false) (k j : Nat) (c : Cons) (hpc : c.pc = .checkAvail) :
    match spin_step c.next c.avail s.isDone with
    | some (some a) => a = c.avail ∧ stepCons s k j c = { c with pc := .handle, i := c.next }
    | some none => stepCons s k j (stepCons s k j c) = { c with pc := .done }
    | none => stepCons s k j (stepCons s k j c) = { c with pc := .waitLoad, acc := none, idx := 0 } := by
  rw [spin_step_spec]
  by_cases h : c.avail ≥ c.next
  · simp [h, stepCons, hpc, hb]
  · cases hd : s.isDone <;> simp [h, hd, stepCons, hpc, hb]

/-- the loads: at `waitLoad` the model folds the next dependency into the running minimum, and leaves with `avail` = the minimum
so far (0 when there is no dependency) — together with `min_fold_eq`: `avail = get_min_cursor_sequence` of the values it loaded -/
theorem model_waitLoad (s : St) (k j : Nat) (c : Cons) (hpc : c.pc = .waitLoad) :
    stepCons s k j c =
      if c.idx < ndeps s k then { c with acc := minOpt c.acc (dep s k c.idx), idx := c.idx + 1 }
      else { c with avail := c.acc.getD 0, pc := .checkAvail } := by
  simp [stepCons, hpc]

/-- `n` steps of the same thread -/
def iter {α : Type} (f : α → α) : Nat → α → α
  | 0, a => a
  | n + 1, a => iter f n (f a)

/-- a whole round of loads in a state whose cursors do not move meanwhile: `avail` ends as `get_min_cursor_sequence` of the
dependencies' values, in dependency order (the interleaved case is the same fold over the values observed at each load) -/
theorem model_round_frozen (s : St) (k j : Nat) :
    ∀ (n : Nat) (c : Cons), c.pc = .waitLoad → c.idx + n = ndeps s k →
      ∃ c', iter (stepCons s k j) (n + 1) c = c' ∧ c'.pc = .checkAvail ∧
        c'.avail = (((List.range n).map (fun d => dep s k (c.idx + d))).foldl minOpt c.acc).getD 0 := by
  intro n
  induction n with
  | zero =>
    intro c hpc hn
    refine ⟨_, rfl, ?_, ?_⟩ <;> simp [iter, model_waitLoad s k j c hpc, show ¬ c.idx < ndeps s k by omega]
  | succ n ih =>
    intro c hpc hn
    have hlt : c.idx < ndeps s k := by omega
    have hstep := model_waitLoad s k j c hpc
    simp only [hlt, if_true] at hstep
    obtain ⟨c', h1, h2, h3⟩ := ih { c with acc := minOpt c.acc (dep s k c.idx), idx := c.idx + 1 } hpc (by simp; omega)
    refine ⟨c', ?_, h2, ?_⟩
    · rw [iter, hstep]; exact h1
    · rw [h3]
      simp only [List.range_succ_eq_map, List.map_cons, List.foldl_cons, List.map_map, Nat.add_zero]
      congr 2
      apply List.map_congr_left
      intro d _
      simp only [Function.comp_apply]
      congr 1
      omega

example : spin_step 5 7 false = some (some 7) ∧ spin_step 5 3 true = some none ∧ spin_step 5 3 false = none ∧
    get_min_cursor_sequence [9, 4, 6] = 4 ∧ get_min_cursor_sequence [] = 0 := by decide

/-! ## the blocking strategy -/

/-- **one pass of the generated blocking loop, in closed form**: the alert is read first, under the lock; the decision and the
operations performed, in program order -/
theorem block_step_spec (sq av : Nat) (al : Bool) :
    block_step sq av al =
      if al then (some none, [.lock, .alert, .unlock])
      else if av ≥ sq then (some (some av), [.lock, .alert, .loads, .unlock])
      else (none, [.lock, .alert, .loads, .wait, .unlock]) := by
  unfold block_step
  by_cases h : av ≥ sq <;> cases al <;> simp [h] <;> omega

theorem block_signal_spec : block_signal = [.lock, .notify, .unlock] := by decide

/-- the operation a consumer program counter of `Model/Ring.lean` stands for (`none`: an internal step; `bRelock` is the second half
of the condvar wait — the re-acquisition of the mutex) -/
def pcOp : CPc → Option Op
  | .bLock => some .lock
  | .bAlert => some .alert
  | .waitLoad => some .loads
  | .bWait => some .wait
  | .bUnlockGo | .bUnlockRetry | .bUnlockExit => some .unlock
  | .sLock => some .lock
  | .sNotify => some .notify
  | .sUnlock => some .unlock
  | _ => none

/-- consecutive duplicates removed (a round of loads is several `waitLoad` steps) -/
def squash : List Op → List Op
  | a :: b :: r => if a = b then squash (b :: r) else a :: squash (b :: r)
  | l => l

def opsOf (pcs : List CPc) : List Op := squash (pcs.filterMap pcOp)

/-- **the model's blocking consumer takes the generated decisions, in the generated order**: under the blocking strategy, from
`bLock` (mutex free) the model goes to `bAlert`; there `is_done` decides between the exit path and a round of loads; after the
loads `checkAvail` decides between `bUnlockGo → handle` and `bWait → bRelock → bUnlockRetry → bLock` -/
theorem model_block_edges (s : St) (hb : s.blocking = true) (k j : Nat) (c : Cons) :
    (c.pc = .bLock → s.mtx = none → (stepCons s k j c).pc = .bAlert) ∧
    (c.pc = .bAlert → (stepCons s k j c).pc = if s.isDone then .bUnlockExit else .waitLoad) ∧
    (c.pc = .waitLoad → (stepCons s k j c).pc = if c.idx < ndeps s k then .waitLoad else .checkAvail) ∧
    (c.pc = .checkAvail → (stepCons s k j c).pc = if c.avail ≥ c.next then .bUnlockGo else .bWait) ∧
    (c.pc = .bUnlockGo → (stepCons s k j c).pc = .handle) ∧
    (c.pc = .bWait → (stepCons s k j c).pc = .bRelock) ∧
    (c.pc = .bRelock → s.woken k j = true → s.mtx = none → (stepCons s k j c).pc = .bUnlockRetry) ∧
    (c.pc = .bUnlockRetry → (stepCons s k j c).pc = .bLock) ∧
    (c.pc = .bUnlockExit → (stepCons s k j c).pc = .done) := by
  refine ⟨?_, ?_, ?_, ?_, ?_, ?_, ?_, ?_, ?_⟩ <;> intro h <;> (try intro h2) <;> (try intro h3) <;>
    simp [stepCons, h, hb, *] <;> split <;> simp_all

/-- the three ways through one pass of the model, as program-counter paths -/
def pathAlerted : List CPc := [.bLock, .bAlert, .bUnlockExit]
def pathEnough : List CPc := [.bLock, .bAlert, .waitLoad, .waitLoad, .checkAvail, .bUnlockGo]
def pathWait : List CPc := [.bLock, .bAlert, .waitLoad, .waitLoad, .checkAvail, .bWait, .bRelock, .bUnlockRetry]
def pathSignal : List CPc := [.sLock, .sNotify, .sUnlock]

/-- **the operations along the model's paths are the generated operation lists** (whatever the wanted sequence and the observed
minimum): alerted, enough, wait again; and `signal` -/
theorem model_paths_spell_generated (sq av : Nat) :
    opsOf pathAlerted = (block_step sq av true).2 ∧
    (av ≥ sq → opsOf pathEnough = (block_step sq av false).2) ∧
    (¬ av ≥ sq → opsOf pathWait = (block_step sq av false).2) ∧
    opsOf pathSignal = block_signal := by
  have ha : opsOf pathAlerted = [.lock, .alert, .unlock] := by decide
  have he : opsOf pathEnough = [.lock, .alert, .loads, .unlock] := by decide
  have hw : opsOf pathWait = [.lock, .alert, .loads, .wait, .unlock] := by decide
  have hs : opsOf pathSignal = [.lock, .notify, .unlock] := by decide
  refine ⟨?_, ?_, ?_, ?_⟩
  · rw [block_step_spec, ha]; rfl
  · intro h; rw [block_step_spec, he]; simp only [Bool.false_eq_true, if_false, h, if_true]
  · intro h; rw [block_step_spec, hw]; simp only [Bool.false_eq_true, if_false, h]
  · rw [block_signal_spec, hs]

example : block_step 5 7 false = (some (some 7), [.lock, .alert, .loads, .unlock]) ∧
    block_step 5 3 false = (none, [.lock, .alert, .loads, .wait, .unlock]) ∧ (block_step 5 9 true).1 = some none := by decide


end C13WaitGen
