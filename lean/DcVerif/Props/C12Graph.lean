import DcVerif.Lemmas.Causaloid
/-!
# C12, causal graphs — "repeating a reasoning call, rebuilding an identical model, or cloning a causal graph never
changes a verdict"

Model: `Model.Causaloid` (namespace `Causal`; the model the correspondence runs of C02 and C11 replay, nested
causaloids to any depth, collections and graphs, all four reasoning entry points).  In that model

* a **clone** of a causaloid or of a graph is the *same value*: `Causaloid::clone` copies the `Arc`s, the clone's
  singletons share their activation cells with the original (`cell : Nat` is the identity of the `Arc<RwLock<bool>>`);
* a **rebuilt twin** is the same nesting tree with other activation cells: `recell ρ c`;
* a **repeated call** is the same `Op` once more in the history.

The statements below are about verdicts *and* about the activation state a call leaves behind.
-/
namespace C12Graph
open Causal Dfs

/-- the same model built once more: every singleton gets the activation cell `ρ cell` instead of `cell` -/
def recell (ρ : Nat → Nat) : Causaloid → Causaloid
  | .single cell id fn => .single (ρ cell) id fn
  | .coll id items => .coll id (recellL ρ items)
  | .graph id nodes edges root => .graph id (recellL ρ nodes) edges root
where
  recellL (ρ : Nat → Nat) : List Causaloid → List Causaloid
    | [] => []
    | c :: cs => recell ρ c :: recellL ρ cs

theorem recellL_length (ρ : Nat → Nat) (cs : List Causaloid) : (recell.recellL ρ cs).length = cs.length := by
  induction cs with
  | nil => rfl
  | cons c cs ih => simp [recell.recellL, ih]

theorem recellL_isEmpty (ρ : Nat → Nat) (cs : List Causaloid) : (recell.recellL ρ cs).isEmpty = cs.isEmpty := by
  cases cs <;> rfl

theorem recellL_getElem? (ρ : Nat → Nat) (cs : List Causaloid) (i : Nat) :
    (recell.recellL ρ cs)[i]? = (cs[i]?).map (recell ρ) := by
  induction cs generalizing i with
  | nil => simp [recell.recellL]
  | cons c cs ih => cases i <;> simp [recell.recellL, ih]

theorem recell_id (ρ : Nat → Nat) (c : Causaloid) : (recell ρ c).id = c.id := by
  cases c <;> rfl

theorem dispatch_recell (mk : Nat → Nat) (ρ : Nat → Nat) (c : Causaloid) (obs : Option Nat) (n : Option V) :
    dispatch mk (recell ρ c) obs n = dispatch mk c obs n := by
  cases c <;> rfl

theorem verifySingle_recell (mk : Nat → Nat) (ρ : Nat → Nat) (c : Causaloid) (obs : Nat) :
    verifySingle mk (recell ρ c) obs = verifySingle mk c obs := by
  cases c <;> rfl

theorem startVerdict_recell (mk : Nat → Nat) (ρ : Nat → Nat) (c : Causaloid) (data : List Nat) (idx : Idx) :
    startVerdict mk (recell ρ c) data idx = startVerdict mk c data idx := by
  simp only [startVerdict, recell_id]
  cases getObs c.id data idx <;> simp [verifySingle_recell]

/-- verdicts never look at activation cells: the three mutually recursive verdict functions agree on a model and its
twin -/
theorem verdict_recell (mk : Nat → Nat) (fuel : Nat) (ρ : Nat → Nat) :
    (∀ c : Causaloid, ∀ data idx, verifyAll mk fuel (recell ρ c) data idx = verifyAll mk fuel c data idx) ∧
    (∀ cs : List Causaloid,
      (∀ data i, reasonFrom mk fuel (recell.recellL ρ cs) data i = reasonFrom mk fuel cs data i) ∧
      (∀ data idx, nodeTable mk fuel (recell.recellL ρ cs) data idx = nodeTable mk fuel cs data idx)) := by
  apply Causaloid.induct2
  · intro cell id fn data idx; simp [recell, verifyAll]
  · intro id items ih data idx
    simp only [recell, verifyAll, recellL_isEmpty, ih.1]
  · intro id nodes edges root ih data idx
    simp only [recell, verifyAll, recellL_length, ih.2, recellL_getElem?]
    congr 1
    cases root with
    | none => rfl
    | some r =>
      simp only [Option.bind_some]
      cases nodes[r]? <;> simp [startVerdict_recell]
  · exact ⟨fun _ _ => rfl, fun _ _ => rfl⟩
  · intro c cs ihc ihcs
    refine ⟨?_, ?_⟩
    · intro data i
      simp only [recell.recellL, reasonFrom, dispatch_recell, ihc, ihcs.1]
    · intro data idx
      simp only [recell.recellL, nodeTable, recell_id, dispatch_recell, ihc, ihcs.2]

/-- **a rebuilt twin of a causal graph gives the same verdict** — `CausableGraphReasoning::reason_all_causes` on a
graph whose nodes (singletons, collections, sub-graphs, to any depth) were built once more with fresh activation
cells, for every data set, every data index, every context assignment and every `fuel` (so also: the twin finishes
exactly when the original does). -/
theorem c12_graph_twin_same_verdict (mk : Nat → Nat) (fuel : Nat) (ρ : Nat → Nat) (nodes : List Causaloid)
    (edges : List (Nat × Nat)) (root : Option Nat) (data : List Nat) (idx : Idx) :
    reasonAllGraph mk fuel (recell.recellL ρ nodes) edges root data idx = reasonAllGraph mk fuel nodes edges root data idx := by
  have h := (verdict_recell mk fuel ρ).1 (.graph 0 nodes edges root) data idx
  simpa [recell, verifyAll, reasonAllGraph] using h

/-- … and so does a twin of any nested causaloid under `verify_all_causes`, and of a collection under
`reason_all_causes` -/
theorem c12_nested_twin_same_verdict (mk : Nat → Nat) (fuel : Nat) (ρ : Nat → Nat) (c : Causaloid) (data : List Nat)
    (idx : Idx) : verifyAll mk fuel (recell ρ c) data idx = verifyAll mk fuel c data idx :=
  (verdict_recell mk fuel ρ).1 c data idx

theorem c12_collection_twin_same_verdict (mk : Nat → Nat) (fuel : Nat) (ρ : Nat → Nat) (items : List Causaloid)
    (data : List Nat) : reasonColl mk fuel (recell.recellL ρ items) data = reasonColl mk fuel items data := by
  simp only [reasonColl, recellL_isEmpty, ((verdict_recell mk fuel ρ).2 items).1]

/-! A **clone** needs no theorem of its own in this model: `Causaloid::clone` / `CausaloidGraph::clone` copy the
`Arc`s, so the clone *is* the same value (same cells), and the verdict functions do not take the activation state at
all. That the real code is right to ignore the flags — the verdict of a call on the original, on a clone or on a twin
is the same after every history — is what the correspondence runs of C02, C11 and C12 compare after every call. -/

/-! ## the activation state: repeating a call changes nothing -/

theorem applyEvent_apply (s : Cells) (e : Event) (c : Nat) :
    applyEvent s e c = if c = e.1 then (match e.2 with | .t => true | .f => false | .e => s c) else s c := by
  obtain ⟨c', v⟩ := e
  cases v <;> simp only [applyEvent] <;> split <;> simp_all

/-- the value of a cell after a log: decided by the last `Ok` evaluation of its singleton, if any -/
def lastWrite (c : Nat) : List Event → Option Bool
  | [] => none
  | e :: es => match lastWrite c es with
    | some b => some b
    | none => if e.1 = c then (match e.2 with | .t => some true | .f => some false | .e => none) else none

theorem applyLog_apply (log : List Event) (s : Cells) (c : Nat) :
    applyLog s log c = (lastWrite c log).getD (s c) := by
  induction log generalizing s with
  | nil => rfl
  | cons e es ih =>
    simp only [applyLog, List.foldl_cons] at ih ⊢
    rw [ih]
    simp only [lastWrite]
    cases h : lastWrite c es with
    | some b => rfl
    | none =>
      simp only [Option.getD_none, applyEvent_apply]
      obtain ⟨c', v⟩ := e
      by_cases hc : c = c'
      · subst hc; cases v <;> simp
      · have : ¬ c' = c := fun h => hc h.symm
        simp [hc, this]

theorem applyLog_append (s : Cells) (a b : List Event) : applyLog s (a ++ b) = applyLog (applyLog s a) b := by
  simp [applyLog, List.foldl_append]

/-- applying the same evaluation log a second time leaves every cell as it is -/
theorem applyLog_idem (log : List Event) (s : Cells) : applyLog (applyLog s log) log = applyLog s log := by
  funext c
  rw [applyLog_apply log (applyLog s log) c, applyLog_apply log s c]
  cases lastWrite c log <;> rfl

theorem run_snoc (mk : Nat → Nat) (fuel : Nat) (hist : List Op) (op : Op) :
    run mk fuel (hist ++ [op]) = applyLog (run mk fuel hist) (opLog mk fuel op) := by
  simp [run, events, applyLog_append]

/-- **repeating a reasoning call never changes anything**: after any history, performing the same call (on a
singleton, a nested causaloid, a collection or a graph, same data) `n + 1` times in a row leaves exactly the
activation state one call leaves — and each repetition returns the same verdict, the verdict being a function of the
call alone. -/
theorem c12_graph_repeat_idempotent (mk : Nat → Nat) (fuel : Nat) (hist : List Op) (op : Op) (n : Nat) :
    run mk fuel (hist ++ List.replicate (n + 1) op) = run mk fuel (hist ++ [op]) := by
  induction n with
  | zero => rfl
  | succ n ih =>
    have : hist ++ List.replicate (n + 1 + 1) op = (hist ++ List.replicate (n + 1) op) ++ [op] := by
      rw [List.append_assoc]; congr 1
      exact List.replicate_succ'
    rw [this, run_snoc, ih, run_snoc, applyLog_idem]

/-! ## the twin's activation state mirrors the original's -/

def renameLog (ρ : Nat → Nat) (log : List Event) : List Event := log.map (fun e => (ρ e.1, e.2))

theorem singleLog_recell (mk : Nat → Nat) (ρ : Nat → Nat) (c : Causaloid) (obs : Nat) :
    singleLog mk (recell ρ c) obs = renameLog ρ (singleLog mk c obs) := by
  cases c with
  | single cell id fn => simp only [recell, singleLog]; cases fn.apply mk obs <;> rfl
  | coll => rfl
  | graph => rfl

theorem dispatchLog_recell (mk : Nat → Nat) (ρ : Nat → Nat) (c : Causaloid) (obs : Option Nat) (a b : List Event)
    (h : a = renameLog ρ b) :
    dispatchLog mk (recell ρ c) obs a = renameLog ρ (dispatchLog mk c obs b) := by
  cases c with
  | single cell id fn =>
    cases obs with
    | none => rfl
    | some o => exact singleLog_recell mk ρ (.single cell id fn) o
  | coll => exact h
  | graph => exact h

theorem startLog_recell (mk : Nat → Nat) (ρ : Nat → Nat) (c : Causaloid) (data : List Nat) (idx : Idx) :
    startLog mk (recell ρ c) data idx = renameLog ρ (startLog mk c data idx) := by
  simp only [startLog, recell_id]
  cases getObs c.id data idx with
  | none => rfl
  | some o => exact singleLog_recell mk ρ c o

theorem renameLog_append (ρ : Nat → Nat) (a b : List Event) : renameLog ρ (a ++ b) = renameLog ρ a ++ renameLog ρ b := by
  simp [renameLog]

theorem renameLog_flatMap {β : Type} (ρ : Nat → Nat) (l : List β) (f : β → List Event) :
    renameLog ρ (l.flatMap f) = l.flatMap (fun x => renameLog ρ (f x)) := by
  induction l with
  | nil => rfl
  | cons x xs ih => simp [List.flatMap_cons, renameLog_append, ih]

theorem flatMap_congr' {β γ : Type} (l : List β) (f g : β → List γ) (h : ∀ x ∈ l, f x = g x) : l.flatMap f = l.flatMap g := by
  induction l with
  | nil => rfl
  | cons x xs ih =>
    simp only [List.flatMap_cons]
    rw [h x (by simp), ih (fun y hy => h y (by simp [hy]))]

/-- the evaluation log of the twin is the original's log with every cell renamed (same singletons evaluated, same
order, same outcomes) -/
theorem log_recell (mk : Nat → Nat) (fuel : Nat) (ρ : Nat → Nat) :
    (∀ c : Causaloid, ∀ data idx, logAll mk fuel (recell ρ c) data idx = renameLog ρ (logAll mk fuel c data idx)) ∧
    (∀ cs : List Causaloid,
      (∀ data i, logFrom mk fuel (recell.recellL ρ cs) data i = renameLog ρ (logFrom mk fuel cs data i)) ∧
      (∀ data idx, nodeLogs mk fuel (recell.recellL ρ cs) data idx = (nodeLogs mk fuel cs data idx).map (renameLog ρ))) := by
  apply Causaloid.induct2
  · intro cell id fn data idx; simp [recell, logAll, renameLog]
  · intro id items ih data idx
    simp only [recell, logAll, ih.1]
  · intro id nodes edges root ih data idx
    simp only [recell, logAll, recellL_length, ih.2, recellL_getElem?, ((verdict_recell mk fuel ρ).2 nodes).2]
    have hsv : ((root.bind fun x => (nodes[x]?).map (recell ρ)).bind fun c => startVerdict mk c data idx) =
        ((root.bind (nodes[·]?)).bind fun c => startVerdict mk c data idx) := by
      cases root with
      | none => rfl
      | some r => simp only [Option.bind_some]; cases nodes[r]? <;> simp [startVerdict_recell]
    have hsl : ((root.bind fun x => (nodes[x]?).map (recell ρ)).map fun c => startLog mk c data idx).getD [] =
        renameLog ρ (((root.bind (nodes[·]?)).map fun c => startLog mk c data idx).getD []) := by
      cases root with
      | none => rfl
      | some r => simp only [Option.bind_some]; cases nodes[r]? <;> simp [startLog_recell, renameLog]
    rw [hsv, hsl]
    simp only [logGraph]
    cases root with
    | none => rfl
    | some r =>
      simp only
      split
      · rfl
      · split
        · rfl
        · split
          · rename_i hst
            simp only [renameLog_append, renameLog_flatMap]
            congr 1
            apply flatMap_congr'
            intro v _
            simp only [List.getD_eq_getElem?_getD, List.getElem?_map]
            cases (nodeLogs mk fuel nodes data idx)[v]? <;> rfl
          · rfl
  · exact ⟨fun _ _ => rfl, fun _ _ => rfl⟩
  · intro c cs ihc ihcs
    refine ⟨?_, ?_⟩
    · intro data i
      simp only [recell.recellL, logFrom, dispatch_recell, (verdict_recell mk fuel ρ).1 c, ihcs.1, renameLog_append]
      congr 1
      · exact dispatchLog_recell mk ρ c _ _ _ (ihc data none)
      · split <;> rfl
    · intro data idx
      simp only [recell.recellL, nodeLogs, recell_id, List.map_cons]
      congr 1
      · cases getObs c.id data idx with
        | none => rfl
        | some o => exact dispatchLog_recell mk ρ c _ _ _ (ihc data idx)
      · exact ihcs.2 data idx

theorem lastWrite_rename (ρ : Nat → Nat) (hρ : Function.Injective ρ) (c : Nat) (log : List Event) :
    lastWrite (ρ c) (renameLog ρ log) = lastWrite c log := by
  induction log with
  | nil => rfl
  | cons e es ih =>
    simp only [renameLog, List.map_cons, lastWrite] at ih ⊢
    rw [ih]
    cases lastWrite c es with
    | some b => rfl
    | none =>
      by_cases h : e.1 = c
      · simp [h]
      · have : ¬ ρ e.1 = ρ c := fun h' => h (hρ h')
        simp [h, this]

/-- **the twin ends up in the mirrored activation state**: after the same `reason_all_causes` call, cell `ρ c` of
the twin graph holds what cell `c` of the original holds (given that the rebuild gave distinct singletons distinct
cells and both started from the same flags), so `is_active`, `number_active`, `percent_active`, `all_active` and the
explanation agree as well. -/
theorem c12_graph_twin_same_activation (mk : Nat → Nat) (fuel : Nat) (ρ : Nat → Nat) (hρ : Function.Injective ρ)
    (nodes : List Causaloid) (edges : List (Nat × Nat)) (root : Option Nat) (data : List Nat) (idx : Idx)
    (s s' : Cells) (c : Nat) (hs : s' (ρ c) = s c) :
    applyLog s' (logAllGraph mk fuel (recell.recellL ρ nodes) edges root data idx) (ρ c) =
    applyLog s (logAllGraph mk fuel nodes edges root data idx) c := by
  have h := (log_recell mk fuel ρ).1 (.graph 0 nodes edges root) data idx
  simp only [recell] at h
  simp only [logAllGraph, h, applyLog_apply, lastWrite_rename ρ hρ, hs]

/-! ## non-vacuity -/
section Examples

/-- a graph with a nested collection and a nested sub-graph: 0 → 1, 0 → 2, 1 → 3 -/
def exNodes : List Causaloid :=
  [.single 100 0 .plain,
   .coll 1 [.single 101 10 .plain, .single 102 11 .inv],
   .graph 2 [.single 103 0 .plain, .single 104 1 .plain] [(0, 1)] (some 0),
   .single 105 3 .inv]
def exEdges : List (Nat × Nat) := [(0, 1), (0, 2), (1, 3)]
def shift : Nat → Nat := fun c => c + 1000

example : reasonAllGraph (fun _ => 0) 50 exNodes exEdges (some 0) [1, 1, 1, 0] none = some .f ∧
    reasonAllGraph (fun _ => 0) 50 (recell.recellL shift exNodes) exEdges (some 0) [1, 1, 1, 0] none = some .f ∧
    reasonAllGraph (fun _ => 0) 50 exNodes exEdges (some 0) [1, 1, 1, 3] none = some .f ∧
    reasonAllGraph (fun _ => 0) 50 exNodes exEdges none [1] none = some .e := by decide

example : Function.Injective shift := fun a b h => by simpa [shift] using h

example : (logAllGraph (fun _ => 0) 50 exNodes exEdges (some 0) [1, 1, 1, 0] none).length > 1 := by decide

end Examples

end C12Graph
