import DcVerif.Gen.MpSeq
import DcVerif.Model.RingMulti
/-!
# The multi-producer sequencer's arithmetic, ranges and decisions, tied to the source (C14; used by C04 / C05 / C06)

`Gen/MpSeq.lean` is regenerated on every run by `tools/rs2lean_mpseq.py` from `producer/multi_producer.rs` (`has_capacity`, `next`,
`publish`, `drain`). Here: every step of a writer thread of `Model/RingMulti.lean` computes exactly the generated expression and branches
on exactly the generated condition — the capacity test, the claimed range and the CAS target of `next`; in `publish` the range of ready
bits set, where the scan starts / what it probes / how it advances / when it stops, whether anything is released, the range of bits
cleared, the expected and the new value of the cursor CAS, when the CAS loop gives up, and what is stored into the low watermark.
(The defects F7 / F13 of the release protocol are faithfully *in* these expressions: the scan stops at the publisher's own `hi`, and
the low watermark is stored unconditionally.)
-/
namespace C14MGen
open Gen.MpSeq RingMulti Ring

theorem updW_same (f : Nat → Writer) (i : Nat) (w : Writer) : updW f i w i = w := by simp [updW]

/-- `next`: the capacity test -/
theorem model_capCheck (x : MSt) (i : Nat) (h : (x.wr i).pc = .capCheck) :
    ((stepWriter x i).wr i).pc =
      if mp_has_capacity x.s.n (x.wr i).hwSeen (x.wr i).minG (x.wr i).count then .casHw else .readHw := by
  by_cases hc : x.s.n > ((x.wr i).hwSeen - (x.wr i).minG) + (x.wr i).count <;>
    simp [stepWriter, h, hc, mp_has_capacity, updW_same]

/-- one pass of the generated `next` loop in closed form, whatever way round the source nests its tests -/
theorem next_pass_spec (cap cas : Bool) (hw count : Nat) :
    mp_next_pass cap cas hw count = if cap && cas then some (hw + 1, hw + count) else none := by
  unfold mp_next_pass
  cases cap <;> cases cas <;> simp

/-- `next`: the CAS on the high watermark and the range returned -/
theorem model_casHw (x : MSt) (i : Nat) (h : (x.wr i).pc = .casHw) (hcas : x.hw = (x.wr i).hwSeen) :
    (stepWriter x i).hw = mp_next_cas_new (x.wr i).hwSeen (x.wr i).count ∧
    some (((stepWriter x i).wr i).lo, ((stepWriter x i).wr i).hi) = mp_next_pass true true (x.wr i).hwSeen (x.wr i).count := by
  simp [stepWriter, h, hcas, mp_next_cas_new, next_pass_spec, updW_same]

/-- `next`: a failed capacity test or a failed CAS starts the next pass (nothing is claimed) -/
theorem model_next_retry (x : MSt) (i : Nat) :
    ((x.wr i).pc = .casHw → x.hw ≠ (x.wr i).hwSeen →
      ((stepWriter x i).wr i).pc = .readHw ∧ (stepWriter x i).hw = x.hw ∧ mp_next_pass true false (x.wr i).hwSeen (x.wr i).count = none) ∧
    (∀ cas, mp_next_pass false cas (x.wr i).hwSeen (x.wr i).count = none) := by
  constructor
  · intro h hc; simp [stepWriter, h, hc, next_pass_spec, updW_same]
  · intro cas; simp [next_pass_spec]

/-- `publish`: the ready bits set are those of the generated range, from its lower to its upper end -/
theorem model_setBit (hp : publish_translated = true) (x : MSt) (i : Nat) :
    ((x.wr i).pc = .write → ¬ (x.wr i).w ≤ (x.wr i).hi →
      ((stepWriter x i).wr i).nbit = (mp_set_range (x.wr i).lo (x.wr i).hi).1 ∧ ((stepWriter x i).wr i).pc = .setBit) ∧
    ((x.wr i).pc = .setBit →
      ((stepWriter x i).wr i).pc = if (x.wr i).nbit ≤ (mp_set_range (x.wr i).lo (x.wr i).hi).2 then .setBit else .readLw) := by
  first
  | (exfalso; revert hp; decide)
  | (
    constructor
    · intro h hw; simp [stepWriter, h, hw, mp_set_range, updW_same]
    · intro h
      by_cases hn : (x.wr i).nbit ≤ (x.wr i).hi <;> simp [stepWriter, h, hn, mp_set_range, updW_same]
    )

/-- `publish`: the scan starts at the generated value (the low watermark just read) -/
theorem model_readLw (hp : publish_translated = true) (x : MSt) (i : Nat) (h : (x.wr i).pc = .readLw) :
    ((stepWriter x i).wr i).good = mp_scan_start x.lw ∧ ((stepWriter x i).wr i).lwSeen = x.lw := by
  first
  | (exfalso; revert hp; decide)
  | (
    simp [stepWriter, h, mp_scan_start, updW_same]
    )

/-- `publish`: one step of the scan -/
theorem model_scan (hp : publish_translated = true) (x : MSt) (i : Nat) (h : (x.wr i).pc = .scan) :
    let w' := (stepWriter x i).wr i
    if mp_scan_continue (x.wr i).good (x.wr i).hi then
      (if bmIsSet x.bm (mp_scan_probe (x.wr i).good) then w'.good = mp_scan_step (x.wr i).good ∧ w'.pc = .scan
       else w'.good = (x.wr i).good ∧ w'.pc = .relCheck)
    else w'.good = (x.wr i).good ∧ w'.pc = .relCheck := by
  first
  | (exfalso; revert hp; decide)
  | (
    by_cases hc : (x.wr i).good < (x.wr i).hi
    · by_cases hb : bmIsSet x.bm ((x.wr i).good + 1) = true <;>
        simp [stepWriter, h, hc, hb, mp_scan_continue, mp_scan_probe, mp_scan_step, updW_same]
    · simp [stepWriter, h, hc, mp_scan_continue, updW_same]
    )

/-- `publish`: whether anything is released, and the range of ready bits cleared -/
theorem model_release (hp : publish_translated = true) (x : MSt) (i : Nat) :
    ((x.wr i).pc = .relCheck →
      let w' := (stepWriter x i).wr i
      if mp_release_needed (x.wr i).good (x.wr i).lwSeen then
        w'.pc = .unsetBit ∧ w'.u = (mp_unset_range (x.wr i).lwSeen (x.wr i).good (x.wr i).lo (x.wr i).hi).1
      else w'.pc = .start) ∧
    ((x.wr i).pc = .unsetBit →
      let w' := (stepWriter x i).wr i
      if (x.wr i).u ≤ (mp_unset_range (x.wr i).lwSeen (x.wr i).good (x.wr i).lo (x.wr i).hi).2 then w'.pc = .unsetBit ∧ w'.u = (x.wr i).u + 1
      else w'.pc = .casCur ∧ w'.cur = mp_cas_first_expected (x.wr i).lwSeen (x.wr i).good) := by
  first
  | (exfalso; revert hp; decide)
  | (
    constructor
    · intro h
      by_cases hc : (x.wr i).good > (x.wr i).lwSeen <;> simp [stepWriter, h, hc, mp_release_needed, mp_unset_range, updW_same]
    · intro h
      by_cases hc : (x.wr i).u ≤ (x.wr i).good <;>
        simp [stepWriter, h, hc, mp_unset_range, mp_cas_first_expected, updW_same]
    )

/-- `publish`: the cursor CAS, its retry loop and the low-watermark store -/
theorem model_cursor_cas (hp : publish_translated = true) (x : MSt) (i : Nat) :
    ((x.wr i).pc = .casCur → x.s.cursor = (x.wr i).cur →
      (stepWriter x i).s.cursor = mp_cas_new (x.wr i).lwSeen (x.wr i).good (x.wr i).hi ∧ ((stepWriter x i).wr i).pc = .setLw) ∧
    ((x.wr i).pc = .casCur → x.s.cursor ≠ (x.wr i).cur → ((stepWriter x i).wr i).pc = .reloadCur ∧ (stepWriter x i).s.cursor = x.s.cursor) ∧
    ((x.wr i).pc = .reloadCur →
      ((stepWriter x i).wr i).cur = x.s.cursor ∧
      ((stepWriter x i).wr i).pc = if mp_cas_giveup x.s.cursor (x.wr i).good then .setLw else .casCur) ∧
    ((x.wr i).pc = .setLw → (stepWriter x i).lw = mp_lw_store (x.wr i).lwSeen (x.wr i).good (x.wr i).lo (x.wr i).hi) := by
  first
  | (exfalso; revert hp; decide)
  | (
    refine ⟨?_, ?_, ?_, ?_⟩
    · intro h hc; simp [stepWriter, h, hc, mp_cas_new, updW_same]
    · intro h hc; simp [stepWriter, h, hc, updW_same]
    · intro h
      by_cases hc : x.s.cursor > (x.wr i).good <;> simp [stepWriter, h, hc, mp_cas_giveup, updW_same]
    · intro h; simp [stepWriter, h, mp_lw_store]
    )

/-- `drain`: the draining thread waits while the generated condition holds -/
theorem model_drain (x : MSt) (h : x.dr.pc = .drainCheck) (hb : x.s.blocking = false) :
    (stepDrainer x).dr.pc = if mp_drain_waiting x.dr.min x.dr.current then .drainLoad else .setDone := by
  by_cases hc : x.dr.min < x.dr.current <;> simp [stepDrainer, h, hb, hc, mp_drain_waiting]

/-! ## C14 / C05 on the generated arithmetic -/

/-- **successive successful claims tile**: the range returned for the high watermark `hw` is `hw+1 … hw+count`, and the next claimant
(who reads the new high watermark) continues right after it -/
theorem c14mgen_claims_tile (hw c1 c2 : Nat) (h1 : 1 ≤ c1) :
    ∃ lo1 hi1 lo2 hi2, mp_next_pass true true hw c1 = some (lo1, hi1) ∧
      mp_next_pass true true (mp_next_cas_new hw c1) c2 = some (lo2, hi2) ∧
      lo1 = hw + 1 ∧ hi1 = hw + c1 ∧ lo1 ≤ hi1 ∧ lo2 = hi1 + 1 ∧ hi2 + 1 = lo2 + c2 := by
  refine ⟨hw + 1, hw + c1, hw + c1 + 1, hw + c1 + c2, ?_, ?_, rfl, rfl, by omega, rfl, by omega⟩
  · simp [next_pass_spec]
  · simp [next_pass_spec, mp_next_cas_new]

/-- **a granted claim stays within one ring of the slowest gating handler**: `has_capacity` ⇒ `end < min + buffer_size` (for a
handler that is not ahead of the watermark read) -/
theorem c14mgen_capacity_bounds_claim (bs hw min count : Nat) (h : mp_has_capacity bs hw min count = true) (hm : min ≤ hw) :
    ∀ lo hi, mp_next_pass true true hw count = some (lo, hi) → hi < min + bs := by
  intro lo hi hr
  simp [next_pass_spec] at hr
  simp [mp_has_capacity] at h
  omega

/-- the scan only ever passes sequences whose ready bit it found set, one at a time, and never goes beyond the publisher's own `hi`
(which is the root of F7) -/
theorem c14mgen_scan_shape (hp : publish_translated = true) (good hi : Nat) :
    mp_scan_probe good = good + 1 ∧ mp_scan_step good = mp_scan_probe good ∧ (mp_scan_continue good hi = true ↔ good < hi) := by
  first
  | (exfalso; revert hp; decide)
  | (
    simp [mp_scan_probe, mp_scan_step, mp_scan_continue]
    )

/-- what is released: bits `lw … good` are cleared, the cursor is moved to `good`, and `good` is stored as the new low watermark
whether or not this publisher won the cursor race (the root of F13) -/
theorem c14mgen_release_shape (hp : publish_translated = true) (lw good lo hi : Nat) :
    mp_unset_range lw good lo hi = (lw, good) ∧ mp_cas_first_expected lw good = lw ∧ mp_cas_new lw good hi = good ∧
    mp_lw_store lw good lo hi = good ∧ (mp_release_needed good lw = true ↔ good > lw) := by
  first
  | (exfalso; revert hp; decide)
  | (
    simp [mp_unset_range, mp_cas_first_expected, mp_cas_new, mp_lw_store, mp_release_needed]
    )

example : mp_next_pass true true 7 3 = some (8, 10) ∧ mp_has_capacity 8 10 4 2 = false ∧ mp_has_capacity 8 10 4 1 = true ∧
    mp_next_pass true false 7 3 = none := by decide

end C14MGen
