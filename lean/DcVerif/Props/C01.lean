import DcVerif.Lemmas.CausalGraph
import DcVerif.Lemmas.CausalSpec
/-!
# C01 — graph reasoning verdict = conjunction over all reachable causaloids

Model: `CausalGraph.reasonFromTo / reasonAll / reasonSub` (`Model/CausalGraph.lean`), a line-by-line transcription of
`graph_reasoning.rs` over graphs of singleton causaloids built by `add_causaloid / add_root_causaloid / add_edge` only.
The traversal loop is the stack machine `Dfs.loop` (`loopT_toV`), no visited set, early exit on `child == stop_index`.

Statement proved here, for every add-only history `ops`, every start index, every data vector and optional data index
(observations routed by causaloid id or through the index — `evalAt`), every assignment of causal functions:
* `reason_true_iff`  — on an acyclic graph the call returns `Ok(true)` (for some/any sufficient fuel) **iff** the data are
  non-empty, the start exists and every causaloid reachable from the start evaluates to true on its routed observation;
* `reason_false`     — if no reachable causaloid errs (or lacks an observation) and one is false, the answer is `Ok(false)`;
* `reason_err_never_true`, `reason_err_or_false` — a reachable error never yields `true`; the answer then is `Err` or
  `Ok(false)`, *whichever non-true causaloid the depth-first order meets first* (both happen: `witness_err_first`,
  `witness_false_first`);
* `reason_terminates` — on acyclic graphs the call returns (fuel is existential: the unfolding may be exponential);
  `reason_fuel_irrelevant` — the answer and the evaluation log do not depend on the fuel;
* `addOnly_stop_not_live` — the `stop_index` = `get_last_index()` = node count is never a live index of such a graph, so the
  early exit never fires;
* `reasonAll_eq`, `reasonSub_eq` — `reason_all_causes` = `reason_from_to_cause(root, last)`, etc.;
* `reason_log_reachable`, `reason_true_log_covers`, `reason_true_flags` — only reachable causaloids are evaluated; after
  `Ok(true)` exactly the reachable ones were evaluated and are active, all other activation flags are unchanged;
* `model_allowed`, `model_flags_allowed` — every answer of the model is accepted by the executable statement the driver judges
  the implementation with (`CausalSpec.allowed / flagsAllowed` over the Floyd–Warshall reachable set, exact by
  `CausalGraph.reachable_iff`).
Outside the statement (modelled and compared, not specified): a reachable causaloid without observation (`get_obs` panics),
cyclic graphs (the traversal need not terminate), graphs with removals (the stop index may then be live, DESIGN §6).
-/
namespace C01
open CausalGraph
open Dfs (V)

/-! ## the stop index is never live on add-only graphs -/

/-- on a graph built by adds only, the live indices are exactly `0 … get_last_index()-1` -/
theorem addOnly_contains_iff (ops : List Op) (i : Nat) :
    contains (build ops) i = true ↔ i < lastIndex (build ops) := by
  rw [lastIndex_eq_upper (wf_build ops)]; exact (wf_build ops).idx i

/-- `stop_index = get_last_index()` is not a live index: the early exit `child == stop_index` never fires -/
theorem addOnly_stop_not_live (ops : List Op) : contains (build ops) (lastIndex (build ops)) = false := by
  cases h : contains (build ops) (lastIndex (build ops)) with
  | false => rfl
  | true => exact absurd ((addOnly_contains_iff ops _).1 h) (Nat.lt_irrefl _)

/-- nothing the traversal can put on its stack equals the stop index -/
theorem stack_ne_stop (ops : List Op) (data : List Nat) (idx : Option (List (Nat × Nat))) (s v : Nat)
    (h : Dfs.OnStack (toG (build ops) data idx) [out (build ops) s] v) : v ≠ lastIndex (build ops) := by
  have := onStack_lt _ data idx s v h
  rw [lastIndex_eq_upper (wf_build ops)]; omega

example : contains (build [.root ⟨7, .plain⟩, .add ⟨3, .inv⟩, .edge 0 1 0]) 1 = true ∧
    lastIndex (build [.root ⟨7, .plain⟩, .add ⟨3, .inv⟩, .edge 0 1 0]) = 2 := by decide

/-! ## termination on acyclic graphs -/

/-- on an acyclic graph `reason_from_to_cause` returns, for every start/stop/data (fuel existential) -/
theorem reason_terminates (g : CG) (hac : Acyclic g) (start stop : Nat) (data : List Nat)
    (idx : Option (List (Nat × Nat))) : ∃ fuel r, reasonFromTo fuel g start stop data idx = some r := by
  obtain ⟨rank, hr⟩ := hac
  obtain ⟨fuel, x, hx⟩ := Dfs.loop_terminates (toG g data idx) stop rank hr [out g start]
  have hT := loopT_toV g data idx stop fuel [out g start] [start]
  rw [hx] at hT
  cases hl : loopT (out g) (evalAt g data idx) stop fuel [out g start] [start] with
  | none => rw [hl] at hT; simp at hT
  | some p =>
    refine ⟨fuel, ?_⟩
    unfold reasonFromTo
    split; · exact ⟨_, rfl⟩
    split; · exact ⟨_, rfl⟩
    split; · exact ⟨_, rfl⟩
    split
    · exact ⟨_, rfl⟩
    · exact ⟨_, rfl⟩
    · exact ⟨_, rfl⟩
    · rw [hl]; exact ⟨_, rfl⟩

/-- more fuel does not change an answer of the loop -/
theorem loopT_mono (g : CG) (data : List Nat) (idx : Option (List (Nat × Nat))) (stop : Nat) :
    ∀ fuel st acc r, loopT (out g) (evalAt g data idx) stop fuel st acc = some r →
      loopT (out g) (evalAt g data idx) stop (fuel + 1) st acc = some r := by
  intro fuel
  induction fuel with
  | zero => intro st acc r h; simp [loopT] at h
  | succ fuel ih =>
    intro st acc r h
    match st with
    | [] => simpa [loopT] using h
    | [] :: rest => simp only [loopT] at h ⊢; exact ih rest acc r h
    | (c :: cs) :: rest =>
      rw [loopT] at h ⊢
      cases hev : evalAt g data idx c with
      | none => simpa [hev] using h
      | some x =>
        cases x with
        | e => simpa [hev] using h
        | f => simpa [hev] using h
        | t =>
          simp only [hev] at h ⊢
          by_cases hs : c = stop
          · simpa [hs] using h
          · simp only [hs, if_false] at h ⊢; exact ih _ _ r h

theorem reason_mono (g : CG) (fuel start stop : Nat) (data : List Nat) (idx : Option (List (Nat × Nat)))
    (r : Res × List Nat) (h : reasonFromTo fuel g start stop data idx = some r) :
    reasonFromTo (fuel + 1) g start stop data idx = some r := by
  unfold reasonFromTo at h ⊢
  split; · simp_all
  split; · simp_all
  split; · simp_all
  split
  · simp_all
  · simp_all
  · simp_all
  · rename_i ht
    simp only [*, if_false] at h
    cases hl : loopT (out g) (evalAt g data idx) stop fuel [out g start] [start] with
    | none => rw [hl] at h; simp at h
    | some p =>
      rw [hl] at h
      rw [loopT_mono g data idx stop fuel _ _ p hl]
      exact h

/-- the answer does not depend on the fuel: any two fuels that suffice give the same result and the same log -/
theorem reason_fuel_irrelevant (g : CG) (f1 f2 start stop : Nat) (data : List Nat) (idx : Option (List (Nat × Nat)))
    (r1 r2 : Res × List Nat) (h1 : reasonFromTo f1 g start stop data idx = some r1)
    (h2 : reasonFromTo f2 g start stop data idx = some r2) : r1 = r2 := by
  have up : ∀ k f r, reasonFromTo f g start stop data idx = some r → reasonFromTo (f + k) g start stop data idx = some r := by
    intro k
    induction k with
    | zero => intro f r h; exact h
    | succ k ih => intro f r h; exact reason_mono g (f + k) start stop data idx r (ih f r h)
  have a := up f2 f1 r1 h1
  have b := up f1 f2 r2 h2
  rw [Nat.add_comm] at b
  rw [a] at b
  exact Option.some.inj b

/-! ## the verdict -/

/-- shape of a run that passed the guards and the start node -/
theorem reason_unfold (fuel : Nat) (g : CG) (start stop : Nat) (data : List Nat) (idx : Option (List (Nat × Nat)))
    (hd : data ≠ []) (hc : contains g start = true) (hn : nodeCount g ≠ 0) (ht : evalAt g data idx start = some .t) :
    reasonFromTo fuel g start stop data idx =
      (loopT (out g) (evalAt g data idx) stop fuel [out g start] [start]).map fun p => (p.1, p.2.reverse) := by
  unfold reasonFromTo
  have : data.isEmpty = false := by cases data <;> simp_all
  simp [hn, this, hc, ht]

theorem contains_nodeCount (g : CG) (hw : WF g) (i : Nat) (h : contains g i = true) : nodeCount g ≠ 0 := by
  have := (hw.idx i).1 h
  unfold nodeCount; omega

/-- **C01, true case**: on an acyclic graph built by adds only, `reason_from_to_cause(start, last_index, data, data_index)`
    returns `Ok(true)` iff the data are non-empty, `start` exists and every causaloid reachable from `start` evaluates to
    true on the observation routed to it. -/
theorem reason_true_iff (ops : List Op) (hac : Acyclic (build ops)) (start : Nat) (data : List Nat)
    (idx : Option (List (Nat × Nat))) :
    (∃ fuel log, reasonFromTo fuel (build ops) start (lastIndex (build ops)) data idx = some (.ok true, log)) ↔
      (data ≠ [] ∧ contains (build ops) start = true ∧
        ∀ v, Reach (build ops) start v → evalAt (build ops) data idx v = some .t) := by
  have hw := wf_build ops
  constructor
  · rintro ⟨fuel, log, h⟩
    unfold reasonFromTo at h
    split at h; · simp at h
    split at h; · simp at h
    rename_i hd
    split at h; · simp at h
    rename_i hc
    have hd' : data ≠ [] := by intro h0; subst h0; simp at hd
    have hc' : contains (build ops) start = true := by simpa using hc
    refine ⟨hd', hc', ?_⟩
    split at h
    · simp at h
    · simp at h
    · simp at h
    · rename_i ht
      cases hl : loopT (out (build ops)) (evalAt (build ops) data idx) (lastIndex (build ops)) fuel
          [out (build ops) start] [start] with
      | none => rw [hl] at h; simp at h
      | some p =>
        obtain ⟨r, acc⟩ := p
        rw [hl] at h
        simp only [Option.map_some, Option.some.injEq, Prod.mk.injEq] at h
        have hT := loopT_toV (build ops) data idx (lastIndex (build ops)) fuel [out (build ops) start] [start]
        rw [hl, h.1] at hT
        simp only [Option.map_some, Res.toV] at hT
        have := (Dfs.loop_true_iff (toG (build ops) data idx) (lastIndex (build ops)) fuel _ .t
          (fun v hv => stack_ne_stop ops data idx start v hv) hT.symm).1 rfl
        intro v hv
        rcases (reach_start (build ops) data idx start v).1 hv with rfl | hv'
        · exact ht
        · exact (toG_eval_t _ data idx v).1 (this v hv')
  · rintro ⟨hd, hc, hall⟩
    have ht := hall start (Dfs.Reach.refl _)
    obtain ⟨rank, hr⟩ := hac
    obtain ⟨fuel, x, hx⟩ := Dfs.loop_terminates (toG (build ops) data idx) (lastIndex (build ops)) rank hr
      [out (build ops) start]
    have hxt : x = .t := (Dfs.loop_true_iff (toG (build ops) data idx) (lastIndex (build ops)) fuel _ x
      (fun v hv => stack_ne_stop ops data idx start v hv) hx).2
      (fun v hv => (toG_eval_t _ data idx v).2 (hall v ((reach_start _ data idx start v).2 (Or.inr hv))))
    have hT := loopT_toV (build ops) data idx (lastIndex (build ops)) fuel [out (build ops) start] [start]
    rw [hx, hxt] at hT
    cases hl : loopT (out (build ops)) (evalAt (build ops) data idx) (lastIndex (build ops)) fuel
        [out (build ops) start] [start] with
    | none => rw [hl] at hT; simp at hT
    | some p =>
      obtain ⟨r, acc⟩ := p
      rw [hl] at hT
      simp only [Option.map_some, Option.some.injEq] at hT
      have hr : r = .ok true := (toV_t r).1 hT
      refine ⟨fuel, acc.reverse, ?_⟩
      rw [reason_unfold fuel _ start _ data idx hd hc (contains_nodeCount _ hw start hc) ht, hl, hr]; rfl


/-- what a run that answered looked like: guards passed and the answer is the start node's non-true verdict or the loop's -/
theorem reason_answer_toV (fuel : Nat) (g : CG) (start stop : Nat) (data : List Nat) (idx : Option (List (Nat × Nat)))
    (hd : data ≠ []) (hc : contains g start = true) (hn : nodeCount g ≠ 0) (r : Res) (log : List Nat)
    (h : reasonFromTo fuel g start stop data idx = some (r, log)) :
    (evalAt g data idx start = none ∧ r = .panic) ∨ (evalAt g data idx start = some .e ∧ r = .err) ∨
    (evalAt g data idx start = some .f ∧ r = .ok false) ∨
    (evalAt g data idx start = some .t ∧ Dfs.loop (toG g data idx) stop fuel [out g start] = some r.toV ∧
      ∃ acc, loopT (out g) (evalAt g data idx) stop fuel [out g start] [start] = some (r, acc) ∧ log = acc.reverse) := by
  cases hev : evalAt g data idx start with
  | none =>
    left; unfold reasonFromTo at h
    have : data.isEmpty = false := by cases data <;> simp_all
    simp [hn, this, hc, hev] at h; exact ⟨rfl, h.1.symm⟩
  | some x =>
    have hdE : data.isEmpty = false := by cases data <;> simp_all
    cases x with
    | e => right; left; unfold reasonFromTo at h; simp [hn, hdE, hc, hev] at h; exact ⟨rfl, h.1.symm⟩
    | f => right; right; left; unfold reasonFromTo at h; simp [hn, hdE, hc, hev] at h; exact ⟨rfl, h.1.symm⟩
    | t =>
      right; right; right
      rw [reason_unfold fuel g start stop data idx hd hc hn hev] at h
      cases hl : loopT (out g) (evalAt g data idx) stop fuel [out g start] [start] with
      | none => rw [hl] at h; simp at h
      | some p =>
        obtain ⟨r', acc⟩ := p
        rw [hl] at h
        simp only [Option.map_some, Option.some.injEq, Prod.mk.injEq] at h
        have hT := loopT_toV g data idx stop fuel [out g start] [start]
        rw [hl] at hT
        simp only [Option.map_some] at hT
        refine ⟨rfl, ?_, acc, ?_, h.2.symm⟩
        · rw [← hT, h.1]
        · rw [h.1]

/-- **C01, false case**: if every causaloid reachable from `start` has an observation and none of them errs, and one of
    them evaluates to false, every answer of the call is `Ok(false)` — and on an acyclic graph the call does answer. -/
theorem reason_false (ops : List Op) (start : Nat) (data : List Nat) (idx : Option (List (Nat × Nat)))
    (hd : data ≠ []) (hc : contains (build ops) start = true)
    (hne : ∀ v, Reach (build ops) start v →
      evalAt (build ops) data idx v = some .t ∨ evalAt (build ops) data idx v = some .f)
    (hex : ∃ v, Reach (build ops) start v ∧ evalAt (build ops) data idx v = some .f) :
    (∀ fuel r log, reasonFromTo fuel (build ops) start (lastIndex (build ops)) data idx = some (r, log) → r = .ok false) ∧
    (Acyclic (build ops) →
      ∃ fuel log, reasonFromTo fuel (build ops) start (lastIndex (build ops)) data idx = some (.ok false, log)) := by
  have hw := wf_build ops
  have hn := contains_nodeCount _ hw start hc
  have main : ∀ fuel r log, reasonFromTo fuel (build ops) start (lastIndex (build ops)) data idx = some (r, log) →
      r = .ok false := by
    intro fuel r log h
    rcases reason_answer_toV fuel _ start _ data idx hd hc hn r log h with ⟨h0, _⟩ | ⟨h0, _⟩ | ⟨_, hr⟩ | ⟨ht, hloop, _⟩
    · rcases hne start (Dfs.Reach.refl _) with h1 | h1 <;> rw [h0] at h1 <;> cases h1
    · rcases hne start (Dfs.Reach.refl _) with h1 | h1 <;> rw [h0] at h1 <;> cases h1
    · exact hr
    · apply (toV_f r).1
      apply Dfs.loop_false (toG (build ops) data idx) (lastIndex (build ops)) fuel _ _
        (fun v hv => stack_ne_stop ops data idx start v hv) hloop
      · intro v hv
        have hr := (reach_start _ data idx start v).2 (Or.inr hv)
        simp only [toG]
        rcases hne v hr with h1 | h1 <;> rw [h1] <;> simp
      · obtain ⟨v, hv, hf⟩ := hex
        rcases (reach_start _ data idx start v).1 hv with rfl | hv'
        · rw [ht] at hf; cases hf
        · exact ⟨v, hv', by simp [toG, hf]⟩
  refine ⟨main, ?_⟩
  intro hac
  obtain ⟨fuel, ⟨r, log⟩, h⟩ := reason_terminates (build ops) hac start (lastIndex (build ops)) data idx
  exact ⟨fuel, log, by rw [h, main fuel r log h]⟩

/-- **C01, error case (1)**: if some reachable causaloid does not evaluate to true (in particular: its causal function
    reports an error, or it has no observation), the result is never `Ok(true)` -/
theorem reason_err_never_true (ops : List Op) (start : Nat) (data : List Nat) (idx : Option (List (Nat × Nat)))
    (v : Nat) (hv : Reach (build ops) start v) (he : evalAt (build ops) data idx v ≠ some .t) :
    ∀ fuel log, reasonFromTo fuel (build ops) start (lastIndex (build ops)) data idx ≠ some (.ok true, log) := by
  intro fuel log h
  -- the `→` direction of `reason_true_iff` does not use acyclicity
  have hw := wf_build ops
  unfold reasonFromTo at h
  split at h; · simp at h
  split at h; · simp at h
  split at h; · simp at h
  split at h
  · simp at h
  · simp at h
  · simp at h
  · rename_i ht
    cases hl : loopT (out (build ops)) (evalAt (build ops) data idx) (lastIndex (build ops)) fuel
        [out (build ops) start] [start] with
    | none => rw [hl] at h; simp at h
    | some p =>
      obtain ⟨r, acc⟩ := p
      rw [hl] at h
      simp only [Option.map_some, Option.some.injEq, Prod.mk.injEq] at h
      have hT := loopT_toV (build ops) data idx (lastIndex (build ops)) fuel [out (build ops) start] [start]
      rw [hl, h.1] at hT
      simp only [Option.map_some, Res.toV] at hT
      have := (Dfs.loop_true_iff (toG (build ops) data idx) (lastIndex (build ops)) fuel _ .t
        (fun v hv => stack_ne_stop ops data idx start v hv) hT.symm).1 rfl
      rcases (reach_start (build ops) data idx start v).1 hv with rfl | hv'
      · exact he ht
      · exact he ((toG_eval_t _ data idx v).1 (this v hv'))

/-- **C01, error case (2)**: if every reachable causaloid has an observation and one of them errs, the answer is `Err` or
    `Ok(false)` — it is the verdict of the first non-true causaloid in depth-first order, see the two witnesses below. -/
theorem reason_err_or_false (ops : List Op) (start : Nat) (data : List Nat) (idx : Option (List (Nat × Nat)))
    (hd : data ≠ []) (hc : contains (build ops) start = true)
    (hdef : ∀ v, Reach (build ops) start v → evalAt (build ops) data idx v ≠ none)
    (v : Nat) (hv : Reach (build ops) start v) (he : evalAt (build ops) data idx v = some .e) :
    ∀ fuel r log, reasonFromTo fuel (build ops) start (lastIndex (build ops)) data idx = some (r, log) →
      r = .err ∨ r = .ok false := by
  intro fuel r log h
  have hw := wf_build ops
  have hn := contains_nodeCount _ hw start hc
  cases r with
  | err => left; rfl
  | ok b =>
    cases b with
    | false => right; rfl
    | true => exact absurd h (reason_err_never_true ops start data idx v hv (by rw [he]; simp) fuel log)
  | panic =>
    exfalso
    rcases reason_answer_toV fuel _ start _ data idx hd hc hn _ log h with ⟨h0, _⟩ | ⟨_, hr⟩ | ⟨_, hr⟩ | ⟨_, _, acc, hl, _⟩
    · exact hdef start (Dfs.Reach.refl _) h0
    · cases hr
    · cases hr
    · obtain ⟨u, hu, hnone⟩ := loopT_panic _ data idx _ fuel _ _ acc hl
      exact hdef u ((reach_start _ data idx start u).2 (Or.inr hu)) hnone

/-- the graph `0 → 1, 0 → 2` of plain causaloids with ids = indices -/
def fork : List Op := [.root ⟨0, .plain⟩, .add ⟨1, .plain⟩, .add ⟨2, .plain⟩, .edge 0 1 0, .edge 0 2 0]

/-- node 1 errs, node 2 is false: the error is met first, the call returns `Err` after evaluating 0 and 1 -/
theorem witness_err_first : reasonFromTo 10 (build fork) 0 (lastIndex (build fork)) [0, 5, 7] none = some (.err, [0, 1]) := by
  decide

/-- node 1 is false, node 2 errs: the false is met first, the call returns `Ok(false)`; node 2 is never evaluated -/
theorem witness_false_first :
    reasonFromTo 10 (build fork) 0 (lastIndex (build fork)) [0, 4, 8] none = some (.ok false, [0, 1]) := by
  decide

theorem fork_reach_lt (v : Nat) (h : Reach (build fork) 0 v) : v < 3 := by
  have := reach_lt _ 0 v h (by decide)
  have h3 : (build fork).upper = 3 := by decide
  omega

/-- hypotheses of `reason_false` are satisfiable: node 1 false, everything else true -/
example : ∀ fuel r log, reasonFromTo fuel (build fork) 0 (lastIndex (build fork)) [0, 4, 6] none = some (r, log) → r = .ok false :=
  (reason_false fork 0 [0, 4, 6] none (by decide) (by decide)
    (fun v hv => by
      have key : ∀ v, v < 3 → evalAt (build fork) [0, 4, 6] none v = some .t ∨ evalAt (build fork) [0, 4, 6] none v = some .f := by
        decide
      exact key v (fork_reach_lt v hv))
    ⟨1, Dfs.Reach.step (g := toG (build fork) [] none) (by decide) (Dfs.Reach.refl _), by decide⟩).1

/-- hypotheses of `reason_err_or_false` are satisfiable: node 1 errs, node 2 is false, all have observations -/
example : ∀ fuel r log, reasonFromTo fuel (build fork) 0 (lastIndex (build fork)) [0, 5, 7] none = some (r, log) →
    r = .err ∨ r = .ok false :=
  reason_err_or_false fork 0 [0, 5, 7] none (by decide) (by decide)
    (fun v hv => by
      have key : ∀ v, v < 3 → evalAt (build fork) [0, 5, 7] none v ≠ none := by decide
      exact key v (fork_reach_lt v hv))
    1 (Dfs.Reach.step (g := toG (build fork) [] none) (by decide) (Dfs.Reach.refl _)) (by decide)

/-! ## the entry points -/

/-- the root of an add-only graph is a live index -/
theorem root_live (ops : List Op) (r : Nat) (h : (build ops).root = some r) : contains (build ops) r = true :=
  ((wf_build ops).idx r).2 ((wf_build ops).root r h)

/-- `reason_all_causes` = `reason_from_to_cause(root, last_index)`; error when there is no root (the `expect` on
    `get_last_index` never fires) -/
theorem reasonAll_eq (ops : List Op) (fuel : Nat) (data : List Nat) (idx : Option (List (Nat × Nat))) :
    reasonAll fuel (build ops) data idx =
      match (build ops).root with
      | none => some (.err, [])
      | some r => reasonFromTo fuel (build ops) r (lastIndex (build ops)) data idx := by
  unfold reasonAll
  cases hr : (build ops).root with
  | none => rfl
  | some r =>
    have := contains_nodeCount _ (wf_build ops) r (root_live ops r hr)
    simp [this]

/-- `reason_subgraph_from_cause(start)` = `reason_from_to_cause(start, last_index)` (the empty-graph guard is subsumed) -/
theorem reasonSub_eq (ops : List Op) (fuel start : Nat) (data : List Nat) (idx : Option (List (Nat × Nat))) :
    reasonSub fuel (build ops) start data idx = reasonFromTo fuel (build ops) start (lastIndex (build ops)) data idx := by
  unfold reasonSub
  by_cases h : nodeCount (build ops) = 0
  · simp [h, reasonFromTo]
  · simp [h]


/-! ## evaluation side effects: which causaloids are evaluated, and the activation flags afterwards -/

/-- only causaloids reachable from `start` are ever evaluated (any graph, any stop index, any fuel) -/
theorem reason_log_reachable (g : CG) (fuel start stop : Nat) (data : List Nat) (idx : Option (List (Nat × Nat)))
    (r : Res) (log : List Nat) (h : reasonFromTo fuel g start stop data idx = some (r, log)) :
    ∀ v, v ∈ log → Reach g start v := by
  intro v hv
  unfold reasonFromTo at h
  split at h; · simp at h; rw [h.2] at hv; simp at hv
  split at h; · simp at h; rw [h.2] at hv; simp at hv
  split at h; · simp at h; rw [h.2] at hv; simp at hv
  have hstart : ∀ {l : List Nat}, l = [start] → v ∈ l → Reach g start v := by
    intro l hl hv; subst hl; simp at hv; subst hv; exact Dfs.Reach.refl _
  split at h
  · simp at h; rw [h.2] at hv; simp at hv
  · simp at h; exact hstart h.2.symm hv
  · simp at h; exact hstart h.2.symm hv
  · cases hl : loopT (out g) (evalAt g data idx) stop fuel [out g start] [start] with
    | none => rw [hl] at h; simp at h
    | some p =>
      obtain ⟨r', acc⟩ := p
      rw [hl] at h
      simp only [Option.map_some, Option.some.injEq, Prod.mk.injEq] at h
      rw [← h.2, List.mem_reverse] at hv
      rcases loopT_log_sub g data idx stop fuel _ _ r' acc hl v hv with h1 | h1
      · exact hstart rfl h1
      · exact (reach_start g data idx start v).2 (Or.inr h1)

/-- after `Ok(true)` on an add-only graph every reachable causaloid was evaluated, and all of them evaluated to true -/
theorem reason_true_log_covers (ops : List Op) (fuel start : Nat) (data : List Nat) (idx : Option (List (Nat × Nat)))
    (log : List Nat) (h : reasonFromTo fuel (build ops) start (lastIndex (build ops)) data idx = some (.ok true, log)) :
    (∀ v, Reach (build ops) start v → v ∈ log) ∧ ∀ v, v ∈ log → evalAt (build ops) data idx v = some .t := by
  unfold reasonFromTo at h
  split at h; · simp at h
  split at h; · simp at h
  split at h; · simp at h
  split at h
  · simp at h
  · simp at h
  · simp at h
  · rename_i ht
    cases hl : loopT (out (build ops)) (evalAt (build ops) data idx) (lastIndex (build ops)) fuel
        [out (build ops) start] [start] with
    | none => rw [hl] at h; simp at h
    | some p =>
      obtain ⟨r', acc⟩ := p
      rw [hl] at h
      simp only [Option.map_some, Option.some.injEq, Prod.mk.injEq] at h
      obtain ⟨hr, hlog⟩ := h
      subst hr
      obtain ⟨h1, h2⟩ := loopT_true_covers (build ops) data idx _ fuel _ _ acc
        (fun v hv => stack_ne_stop ops data idx start v hv) hl
      have h3 := loopT_log_true (build ops) data idx _ fuel _ [start] acc
        (by intro v hv; simp at hv; subst hv; exact ht) hl
      refine ⟨?_, ?_⟩
      · intro v hv
        rw [← hlog, List.mem_reverse]
        rcases (reach_start _ data idx start v).1 hv with rfl | hv'
        · exact h1 _ (by simp)
        · exact h2 v hv'
      · intro v hv
        rw [← hlog, List.mem_reverse] at hv
        exact h3 v hv

/-- activation flags: a causaloid that is not reachable from `start` keeps its flag, whatever the call answers -/
theorem reason_flags_unreachable (g : CG) (fuel start stop : Nat) (data : List Nat) (idx : Option (List (Nat × Nat)))
    (r : Res) (log : List Nat) (h : reasonFromTo fuel g start stop data idx = some (r, log)) (flags : List Bool) (v : Nat)
    (hv : ¬ Reach g start v) : (applyLog (evalAt g data idx) flags log)[v]? = flags[v]? :=
  applyLog_not_mem _ v log flags (fun hm => hv (reason_log_reachable g fuel start stop data idx r log h v hm))

/-- activation flags after `Ok(true)`: exactly the reachable causaloids are active-by-this-call, the others unchanged -/
theorem reason_true_flags (ops : List Op) (fuel start : Nat) (data : List Nat) (idx : Option (List (Nat × Nat)))
    (log : List Nat) (h : reasonFromTo fuel (build ops) start (lastIndex (build ops)) data idx = some (.ok true, log))
    (flags : List Bool) (hlen : flags.length = lastIndex (build ops)) (v : Nat) :
    (Reach (build ops) start v → (applyLog (evalAt (build ops) data idx) flags log)[v]? = some true) ∧
    (¬ Reach (build ops) start v → (applyLog (evalAt (build ops) data idx) flags log)[v]? = flags[v]?) := by
  obtain ⟨hcov, htrue⟩ := reason_true_log_covers ops fuel start data idx log h
  refine ⟨?_, reason_flags_unreachable _ fuel start _ data idx _ log h flags v⟩
  intro hv
  have hstart : contains (build ops) start = true := by
    unfold reasonFromTo at h
    split at h; · simp at h
    split at h; · simp at h
    split at h; · simp at h
    rename_i hc; simpa using hc
  have hlt : v < flags.length := by
    rw [hlen, lastIndex_eq_upper (wf_build ops)]
    exact reach_lt _ start v hv (((wf_build ops).idx start).1 hstart)
  exact applyLog_all_true _ v log flags htrue (hcov v hv) hlt

/-! ## the model's answers are accepted by the oracle the driver runs (`Spec/CausalGraph.lean`) -/

/-- if everything reachable is true, every answer is `Ok(true)` -/
theorem reason_true_of_all (ops : List Op) (start : Nat) (data : List Nat) (idx : Option (List (Nat × Nat)))
    (hd : data ≠ []) (hc : contains (build ops) start = true)
    (hall : ∀ v, Reach (build ops) start v → evalAt (build ops) data idx v = some .t) :
    ∀ fuel r log, reasonFromTo fuel (build ops) start (lastIndex (build ops)) data idx = some (r, log) → r = .ok true := by
  intro fuel r log h
  have hn := contains_nodeCount _ (wf_build ops) start hc
  have ht := hall start (Dfs.Reach.refl _)
  rcases reason_answer_toV fuel _ start _ data idx hd hc hn r log h with ⟨h0, _⟩ | ⟨h0, _⟩ | ⟨h0, _⟩ | ⟨_, hloop, _⟩
  · rw [ht] at h0; cases h0
  · rw [ht] at h0; cases h0
  · rw [ht] at h0; cases h0
  · apply (toV_t r).1
    exact (Dfs.loop_true_iff (toG (build ops) data idx) (lastIndex (build ops)) fuel _ _
      (fun v hv => stack_ne_stop ops data idx start v hv) hloop).2
      (fun v hv => (toG_eval_t _ data idx v).2 (hall v ((reach_start _ data idx start v).2 (Or.inr hv))))

/-- **model ⊨ spec (verdict)**: whatever `reason_from_to_cause(start, last_index)` answers on an add-only graph is a result
    the executable statement of C01 (`CausalSpec.allowed` over the Floyd–Warshall reachable set) allows -/
theorem model_allowed (ops : List Op) (start : Nat) (data : List Nat) (idx : Option (List (Nat × Nat)))
    (hd : data ≠ []) (hc : contains (build ops) start = true) (fuel : Nat) (r : Res) (log : List Nat)
    (h : reasonFromTo fuel (build ops) start (lastIndex (build ops)) data idx = some (r, log)) :
    CausalSpec.allowed ((CausalSpec.reachSet (build ops) (CausalSpec.table (build ops)) start).map
      (CausalSpec.verdictAt (build ops) data idx)) r = true := by
  have hw := wf_build ops
  have hs : start < (build ops).upper := (hw.idx start).1 hc
  -- membership in the verdict list = verdict of a reachable node
  have hmem : ∀ x, x ∈ (CausalSpec.reachSet (build ops) (CausalSpec.table (build ops)) start).map
      (CausalSpec.verdictAt (build ops) data idx) ↔ ∃ v, Reach (build ops) start v ∧ evalAt (build ops) data idx v = x := by
    intro x
    simp only [List.mem_map, mem_reachSet _ hw start _ hs, verdictAt_eq_evalAt _ hw]
  unfold CausalSpec.allowed
  split
  · rename_i h1
    rw [List.all_eq_true] at h1
    have : r = .ok true := reason_true_of_all ops start data idx hd hc
      (fun v hv => by simpa using h1 _ ((hmem _).2 ⟨v, hv, rfl⟩)) fuel r log h
    simp [this]
  · rename_i h1
    split
    · rename_i h2
      rw [List.all_eq_true] at h2
      have hne : ∀ v, Reach (build ops) start v →
          evalAt (build ops) data idx v = some .t ∨ evalAt (build ops) data idx v = some .f := by
        intro v hv; simpa using h2 _ ((hmem _).2 ⟨v, hv, rfl⟩)
      have hex : ∃ v, Reach (build ops) start v ∧ evalAt (build ops) data idx v = some .f := by
        rw [Bool.not_eq_true, List.all_eq_false] at h1
        obtain ⟨x, hx, hnx⟩ := h1
        obtain ⟨v, hv, rfl⟩ := (hmem x).1 hx
        rcases hne v hv with h3 | h3
        · rw [h3] at hnx; simp at hnx
        · exact ⟨v, hv, h3⟩
      have := (reason_false ops start data idx hd hc hne hex).1 fuel r log h
      simp [this]
    · rename_i h2
      split
      · rename_i h3
        rw [List.all_eq_true] at h3
        have hdef : ∀ v, Reach (build ops) start v → evalAt (build ops) data idx v ≠ none := by
          intro v hv hn
          have := h3 _ ((hmem _).2 ⟨v, hv, rfl⟩)
          rw [hn] at this; simp at this
        rw [Bool.not_eq_true, List.all_eq_false] at h2
        obtain ⟨x, hx, hnx⟩ := h2
        obtain ⟨v, hv, rfl⟩ := (hmem x).1 hx
        have he : evalAt (build ops) data idx v = some .e := by
          cases hev : evalAt (build ops) data idx v with
          | none => exact absurd hev (hdef v hv)
          | some y => cases y <;> simp_all
        rcases reason_err_or_false ops start data idx hd hc hdef v hv he fuel r log h with h4 | h4 <;> simp [h4]
      · rename_i h3
        rw [Bool.not_eq_true, List.all_eq_false] at h3
        obtain ⟨x, hx, hnx⟩ := h3
        obtain ⟨v, hv, rfl⟩ := (hmem x).1 hx
        have hne : evalAt (build ops) data idx v ≠ some .t := by
          intro h4; rw [h4] at hnx; simp at hnx
        have := reason_err_never_true ops start data idx v hv hne fuel log
        cases r with
        | ok b => cases b <;> simp_all
        | err => simp
        | panic => simp

/-- **model ⊨ spec (side effects)**: the flags after the call are accepted by `CausalSpec.flagsAllowed` -/
theorem model_flags_allowed (ops : List Op) (start : Nat) (data : List Nat) (idx : Option (List (Nat × Nat)))
    (hc : contains (build ops) start = true) (fuel : Nat) (r : Res) (log : List Nat)
    (h : reasonFromTo fuel (build ops) start (lastIndex (build ops)) data idx = some (r, log))
    (flags : List Bool) (hlen : flags.length = lastIndex (build ops)) :
    CausalSpec.flagsAllowed (CausalSpec.reachSet (build ops) (CausalSpec.table (build ops)) start) r flags
      (applyLog (evalAt (build ops) data idx) flags log) = true := by
  have hw := wf_build ops
  have hs : start < (build ops).upper := (hw.idx start).1 hc
  unfold CausalSpec.flagsAllowed
  simp only [Bool.and_eq_true, beq_iff_eq, List.all_eq_true, List.mem_range, applyLog_length, true_and]
  intro i _
  split
  · rename_i hi
    have hreach : Reach (build ops) start i := (mem_reachSet _ hw start i hs).1 (by simpa using hi)
    cases r with
    | ok b =>
      cases b with
      | false => simp
      | true => simp [(reason_true_flags ops fuel start data idx log h flags hlen i).1 hreach]
    | err => simp
    | panic => simp
  · rename_i hi
    have hreach : ¬ Reach (build ops) start i := fun hr => hi (by simpa using (mem_reachSet _ hw start i hs).2 hr)
    simp [reason_flags_unreachable _ fuel start _ data idx r log h flags i hreach]

/-! ## non-vacuity: a diamond with a tail, ids permuted against indices, one inverted and one contextual function -/

/-- indices 0..4, ids 4,2,3,0,1; edges 0→1, 0→2, 1→3, 2→3, 3→4 (node 3 is visited twice: no visited set) -/
def diamond : List Op :=
  [.root ⟨4, .plain⟩, .add ⟨2, .inv⟩, .add ⟨3, .ctx 1⟩, .add ⟨0, .plain⟩, .add ⟨1, .plain⟩,
   .edge 2 3 0, .edge 0 2 0, .edge 0 1 0, .edge 1 3 0, .edge 3 4 0]

theorem diamond_acyclic : Acyclic (build diamond) :=
  ⟨fun v => 5 - v, by
    intro a b h
    simp only [out, List.mem_filter, List.mem_range] at h
    have h1 : b < 5 := h.1
    have h2 := h.2
    have hadj : ∀ e, e ∈ (build diamond).adj → e.1 < 5 := by decide
    have ha : a < 5 := by
      simp only [hasEdge, List.any_eq_true, Bool.and_eq_true, beq_iff_eq] at h2
      obtain ⟨e, he, h3, _⟩ := h2
      have := hadj e he; omega
    have key : ∀ a, a < 5 → ∀ b, b < 5 → hasEdge (build diamond) a b = true → a < b := by decide
    have := key a ha b h1 h2
    show 5 - b < 5 - a
    omega⟩

/-- all five causaloids true on data routed by id: 7 evaluations (3 and 4 twice), result `Ok(true)` -/
example : reasonFromTo 100 (build diamond) 0 (lastIndex (build diamond)) [0, 3, 4, 5, 12] none
    = some (.ok true, [0, 1, 3, 4, 2, 3, 4]) := by decide

example : ∃ fuel log, reasonFromTo fuel (build diamond) 0 (lastIndex (build diamond)) [0, 3, 4, 5, 12] none
    = some (.ok true, log) :=
  (reason_true_iff diamond diamond_acyclic 0 [0, 3, 4, 5, 12] none).2 ⟨by decide, by decide, by
    intro v hv
    have hlt := reach_lt _ 0 v hv (by decide)
    have : (build diamond).upper = 5 := by decide
    rw [this] at hlt
    have key : ∀ v, v < 5 → evalAt (build diamond) [0, 3, 4, 5, 12] none v = some .t := by decide
    exact key v hlt⟩

end C01
