import DcVerif.Lemmas.Ring
/-!
# C14 — sequencers hand out disjoint gap-free ranges; the cursor is the published prefix

Single-producer sequencer (`SingleProducerSequencer::next/publish`), every ring size, topology, batch list, wait strategy
and **every schedule** (`Reachable`):

* `c14_claims_tile`      — the ranges returned by `next`, in claim order, partition `[0, next_write)` into consecutive
                            non-empty ranges, each of exactly the requested length (`Tiles`);
* `c14_cursor_monotone`  — no step of any thread decreases the cursor;
* `c14_cursor_is_published_prefix` — the cursor never moves past a sequence that has not been written by its claimant:
                            every sequence `≤ cursor` is in `written` (unless nothing has been published yet);
* `c14_cursor_eq_highest_claimed` — between `write` calls (all claims published) the cursor equals the highest claimed
                            sequence.

Multi-producer sequencer: see the end of this file (`Props/C14` states which clauses fail today — known finding F7/F8 —
with schedule-exact witnesses in `Props/C14Multi.lean` once the multi-producer model is in place).
-/
namespace C14
open Ring

theorem c14_claims_tile {x : PSt} (hr : Reachable x) :
    Tiles 0 x.p.claims (if x.p.pc = .gateCheck ∨ x.p.pc = .gateLoad then x.p.start else x.p.nextWrite) :=
  (reachable_inv hr).2.2.1.tiles

/-- what `Tiles` means, spelled out: consecutive, non-empty, of the requested length -/
theorem tiles_spelled_out {a b : Nat} {cs : List (Nat × Nat × Nat)} (h : Tiles a cs b) :
    a ≤ b ∧ (∀ c ∈ cs, a ≤ c.1 ∧ c.1 ≤ c.2.1 ∧ c.2.1 < b ∧ c.2.1 + 1 = c.1 + c.2.2) ∧
    List.Pairwise (fun c d => c.2.1 < d.1) cs := by
  induction h with
  | nil a => simp
  | cons h1 h2 h3 _ ih =>
    obtain ⟨i1, i2, i3⟩ := ih
    subst h1
    refine ⟨by omega, ?_, ?_⟩
    · intro c hc
      simp only [List.mem_cons] at hc
      rcases hc with rfl | hc
      · simp only; omega
      · have := i2 c hc; omega
    · simp only [List.pairwise_cons]
      exact ⟨fun d hd => by have := i2 d hd; omega, i3⟩

theorem c14_cursor_monotone {x : PSt} (hr : Reachable x) (t : Tid) : x.s.cursor ≤ (stepX x t).s.cursor := by
  cases t with
  | prod => exact cursor_mono_prod x (reachable_inv hr)
  | cons k j =>
    show x.s.cursor ≤ (if k < x.s.K ∧ j < x.s.h k then { x with s := stepC x.s k j } else x).s.cursor
    split <;> exact Nat.le_refl _

theorem c14_cursor_is_published_prefix {x : PSt} (hr : Reachable x) :
    x.s.cursor = 0 ∨ ∀ q, q ≤ x.s.cursor → q ∈ x.p.written := by
  obtain ⟨hI, hK, hP, hb⟩ := reachable_inv hr
  by_cases h0 : x.s.cursor = 0
  · exact Or.inl h0
  · right; intro q hq
    rw [hP.wrote]
    simp only [List.mem_range'_1]
    by_cases hw : x.p.pc = .write ∨ x.p.pc = .publish
    · have := hP.wr hw
      simp only [hw, if_true]
      rcases this.1 with h1 | ⟨h1, h2⟩ <;> omega
    · simp only [hw, if_false]
      by_cases hidle : x.p.pc.idle = true
      · rcases hP.nw hidle with h1 | ⟨h1, h2⟩ <;> omega
      · have hcl : x.p.pc = .gateCheck ∨ x.p.pc = .gateLoad := by
          cases hp : x.p.pc <;> simp_all [PPc.idle]
        have := hP.claim hcl
        rcases this.1 with h1 | ⟨h1, h2⟩ <;> omega

theorem c14_cursor_eq_highest_claimed {x : PSt} (hr : Reachable x) (hidle : x.p.pc.idle = true)
    (hsome : 0 < x.p.nextWrite) : x.s.cursor = x.p.nextWrite - 1 := by
  obtain ⟨hI, hK, hP, hb⟩ := reachable_inv hr
  rcases hP.nw hidle with h1 | ⟨h1, h2⟩ <;> omega

/-! non-vacuity -/
def demo : PSt := runX (mk 4 1 (fun _ => 1) true [2, 1, 3])
  ((List.replicate 12 Tid.prod) ++ (List.replicate 30 (Tid.cons 0 0)) ++ (List.replicate 30 Tid.prod))

example : demo.p.claims = [(0, 1, 2), (2, 2, 1), (3, 5, 3)] ∧ demo.s.cursor = 5 ∧ demo.p.written = [0, 1, 2, 3, 4, 5] := by
  decide +kernel

end C14
