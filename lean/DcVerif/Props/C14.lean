import DcVerif.Model.Ring
namespace C14
theorem placeholder : True := trivial
end C14
