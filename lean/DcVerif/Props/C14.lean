import DcVerif.Lemmas.Ring
import DcVerif.Lemmas.RingMulti
import DcVerif.Lemmas.RingMultiSafe
import DcVerif.Lemmas.RingMultiSerial
/-!
# C14 — sequencers hand out disjoint gap-free ranges; the cursor is the published prefix

Single-producer sequencer (`SingleProducerSequencer::next/publish`), every ring size, topology, batch list, wait strategy
and **every schedule** (`Reachable`):

* `c14_claims_tile`      — the ranges returned by `next`, in claim order, partition `[0, next_write)` into consecutive
                            non-empty ranges, each of exactly the requested length (`Tiles`);
* `c14_cursor_monotone`  — no step of any thread decreases the cursor;
* `c14_cursor_is_published_prefix` — the cursor never moves past a sequence that has not been written by its claimant:
                            every sequence `≤ cursor` is in `written` (unless nothing has been published yet);
* `c14_cursor_eq_highest_claimed` — between `write` calls (all claims published) the cursor equals the highest claimed
                            sequence.

Multi-producer sequencer (`Model/RingMulti.lean`, any number of writer threads, every interleaving of the read /
capacity check / CAS / bitmap / cursor steps): `c14_multi_claims_tile`, `c14_multi_cursor_monotone` and — for every ring size
`n = 2^k` — **release safety** `c14_multi_cursor_is_published_prefix` hold: the cursor never moves past a sequence whose
claimant has not published it (`Lemmas/RingMultiSafe.lean`; also `c14_multi_release_values_published`,
`c14_multi_set_bit_is_published`, `c14_multi_window`, `c14_multi_bitmap_in_bounds`). The last clause (cursor = highest claimed
once every claimant has published) is false today: `c14_multi_cursor_below_highest_claimed` (known finding F7: a later
claimant publishes before an earlier one) and `c14_multi_low_watermark_regresses` (publications *in claim order* that
overlap: the low watermark is stored out of order, moves backwards, and every later publication is stranded for good) are
schedule-exact witnesses, identical to what the real code does under the same schedules (harness corpus cases `F7-witness`,
`F13-witness`).
-/
namespace C14
open Ring

theorem c14_claims_tile {x : PSt} (hr : Reachable x) :
    Tiles 0 x.p.claims (if x.p.pc = .gateCheck ∨ x.p.pc = .gateLoad then x.p.start else x.p.nextWrite) :=
  (reachable_inv hr).2.2.1.tiles

/-- what `Tiles` means, spelled out: consecutive, non-empty, of the requested length -/
theorem tiles_spelled_out {a b : Nat} {cs : List (Nat × Nat × Nat)} (h : Tiles a cs b) :
    a ≤ b ∧ (∀ c ∈ cs, a ≤ c.1 ∧ c.1 ≤ c.2.1 ∧ c.2.1 < b ∧ c.2.1 + 1 = c.1 + c.2.2) ∧
    List.Pairwise (fun c d => c.2.1 < d.1) cs := by
  induction h with
  | nil a => simp
  | cons h1 h2 h3 _ ih =>
    obtain ⟨i1, i2, i3⟩ := ih
    subst h1
    refine ⟨by omega, ?_, ?_⟩
    · intro c hc
      simp only [List.mem_cons] at hc
      rcases hc with rfl | hc
      · simp only; omega
      · have := i2 c hc; omega
    · simp only [List.pairwise_cons]
      exact ⟨fun d hd => by have := i2 d hd; omega, i3⟩

theorem c14_cursor_monotone {x : PSt} (hr : Reachable x) (t : Tid) : x.s.cursor ≤ (stepX x t).s.cursor := by
  cases t with
  | prod => exact cursor_mono_prod x (reachable_inv hr)
  | cons k j =>
    show x.s.cursor ≤ (if k < x.s.K ∧ j < x.s.h k then { x with s := stepC x.s k j } else x).s.cursor
    split <;> exact Nat.le_refl _

theorem c14_cursor_is_published_prefix {x : PSt} (hr : Reachable x) :
    x.s.cursor = 0 ∨ ∀ q, q ≤ x.s.cursor → q ∈ x.p.written := by
  obtain ⟨hI, hK, hP, hb⟩ := reachable_inv hr
  by_cases h0 : x.s.cursor = 0
  · exact Or.inl h0
  · right; intro q hq
    rw [hP.wrote]
    simp only [List.mem_range'_1]
    by_cases hw : x.p.pc = .write ∨ x.p.pc = .publish
    · have := hP.wr hw
      simp only [hw, if_true]
      rcases this.1 with h1 | ⟨h1, h2⟩ <;> omega
    · simp only [hw, if_false]
      by_cases hidle : x.p.pc.idle = true
      · rcases hP.nw hidle with h1 | ⟨h1, h2⟩ <;> omega
      · have hcl : x.p.pc = .gateCheck ∨ x.p.pc = .gateLoad := by
          cases hp : x.p.pc <;> simp_all [PPc.idle]
        have := hP.claim hcl
        rcases this.1 with h1 | ⟨h1, h2⟩ <;> omega

theorem c14_cursor_eq_highest_claimed {x : PSt} (hr : Reachable x) (hidle : x.p.pc.idle = true)
    (hsome : 0 < x.p.nextWrite) : x.s.cursor = x.p.nextWrite - 1 := by
  obtain ⟨hI, hK, hP, hb⟩ := reachable_inv hr
  rcases hP.nw hidle with h1 | ⟨h1, h2⟩ <;> omega

/-! non-vacuity -/
def demo : PSt := runX (mk 4 1 (fun _ => 1) true [2, 1, 3])
  ((List.replicate 12 Tid.prod) ++ (List.replicate 30 (Tid.cons 0 0)) ++ (List.replicate 30 Tid.prod))

example : demo.p.claims = [(0, 1, 2), (2, 2, 1), (3, 5, 3)] ∧ demo.s.cursor = 5 ∧ demo.p.written = [0, 1, 2, 3, 4, 5] := by
  decide +kernel

/-! ## multi-producer sequencer -/
section Multi
open RingMulti

/-- a state reachable with the multi-producer sequencer: any ring size, topology, wait strategy, number of writer threads,
batch lists with batches of at least one element, **any schedule** -/
def MReachable (x : MSt) : Prop :=
  ∃ (n K : Nat) (h : Nat → Nat) (blocking : Bool) (batches : List (List Nat)) (sched : List MTid),
    (∀ l, l ∈ batches → ∀ b, b ∈ l → 1 ≤ b) ∧ x = runM (mkM n K h blocking batches) sched

theorem mreachable_inv {x : MSt} (hr : MReachable x) : MInv x := by
  obtain ⟨n, K, h, bl, bs, sched, hb, rfl⟩ := hr
  exact minv_run _ sched (minv_init n K h bl bs hb)

/-- concurrent claims: the ranges won by the successful compare-and-swaps, in that order, partition `[1, high_watermark]`
into consecutive non-empty ranges of exactly the requested lengths — for every interleaving -/
theorem c14_multi_claims_tile {x : MSt} (hr : MReachable x) : Tiles 1 x.allClaims (x.hw + 1) :=
  (mreachable_inv hr).tiles

/-- the cursor visible to consumers never decreases, whichever thread steps -/
theorem c14_multi_cursor_monotone {x : MSt} (hr : MReachable x) (t : MTid) : x.s.cursor ≤ (stepM x t).s.cursor :=
  cursor_mono_stepM x t (mreachable_inv hr)

/-- **F7 (negation of "once all claimants have published the cursor equals the highest claimed sequence")**: writer 0 claims
sequence 1, writer 1 claims 2, writes and publishes first (its release scan finds 1 unset and releases nothing), then writer 0
publishes (its scan stops at its own `hi = 1`). Both `write` calls have returned, yet the cursor is 1 and sequence 2 is stranded. -/
def strandedRun : MSt := runM (mkM 4 1 (fun _ => 1) false [[1], [1]])
  ((List.replicate 6 (MTid.writer 0)) ++ (List.replicate 20 (MTid.writer 1)) ++ (List.replicate 20 (MTid.writer 0)))

theorem c14_multi_cursor_below_highest_claimed :
    (strandedRun.wr 0).pc = .done ∧ (strandedRun.wr 1).pc = .done ∧
    strandedRun.allClaims = [(1, 1, 1), (2, 2, 1)] ∧ strandedRun.written = [(2, 1), (1, 0)] ∧
    strandedRun.hw = 2 ∧ strandedRun.s.cursor = 1 := by decide +kernel

example : MReachable strandedRun := ⟨4, 1, fun _ => 1, false, [[1], [1]], _, by decide, rfl⟩

/-! ### release safety (true for this sequencer) -/

/-- **the cursor is a published prefix, multi producer** — every ring size `n = 2^k`, topology, wait strategy, number of
writer threads, batch lists, **every schedule**: every sequence `q` with `1 ≤ q ≤ cursor` has been claimed (`q ≤ hw`), has
been written to its slot (it occurs in the ghost list `written`), and is pending with no writer — no writer thread is still
between its successful CAS on the high watermark and the `ready_sequences.set(q)` of its `publish` call (`Pend`). The cursor
never moves past a sequence whose claimant has not published it, although two publishers may read the same low watermark,
unset overlapping ranges and CAS the cursor in either order, although the low watermark may move backwards, and although a
stale publisher may clear the bit of a sequence one lap ahead. -/
theorem c14_multi_cursor_is_published_prefix {x : MSt} (hr : MReachableWF x) (k : Nat) (hn : x.s.n = 2 ^ k)
    (q : Nat) (h1 : 1 ≤ q) (h2 : q ≤ x.s.cursor) :
    q ≤ x.hw ∧ (∃ i, (q, i) ∈ x.written) ∧ ¬ Pend x q :=
  published_below_cursor x (mreachableWF_safe hr k hn) q h1 h2

/-- … and the slot write was made by the claimant: the writer thread `i` that wrote `q` won a claim `(lo, hi, count)` with
`lo ≤ q ≤ hi` (a member of its own claim list and of the global list of successful compare-and-swaps, which tiles
`[1, high_watermark]` by `c14_multi_claims_tile`) -/
theorem c14_multi_written_by_claimant {x : MSt} (hr : MReachableWF x) (k : Nat) (hn : x.s.n = 2 ^ k)
    (q : Nat) (h1 : 1 ≤ q) (h2 : q ≤ x.s.cursor) :
    ∃ i c, (q, i) ∈ x.written ∧ i < x.P ∧ c ∈ (x.wr i).claims ∧ c ∈ x.allClaims ∧ c.1 ≤ q ∧ q ≤ c.2.1 := by
  obtain ⟨hs, ho⟩ := mreachableWF_safeOwn hr k hn
  obtain ⟨_, ⟨i, hi⟩, _⟩ := published_below_cursor x hs q h1 h2
  obtain ⟨hiP, c, hc, hb1, hb2⟩ := ho.wrote q i hi
  exact ⟨i, c, hi, hiP, hc, ho.globl i hiP c hc, hb1, hb2⟩

/-- what `Pend` says, spelled out: no writer thread that holds `q` in its claim `[lo, hi]` is still writing its batch or has
not yet reached `q` in the `set` loop of `publish` -/
theorem pend_spelled_out (x : MSt) (q : Nat) :
    Pend x q ↔ ∃ i, i < x.P ∧ (((x.wr i).pc = .write ∧ (x.wr i).lo ≤ q ∧ q ≤ (x.wr i).hi) ∨
                               ((x.wr i).pc = .setBit ∧ (x.wr i).nbit ≤ q ∧ q ≤ (x.wr i).hi)) := Iff.rfl

/-- every value that can still be CAS-ed into the cursor or stored into the low watermark is a published prefix: the low
watermark itself, and the `good_to_release` of every writer between its read of the low watermark and the end of `publish` -/
theorem c14_multi_release_values_published {x : MSt} (hr : MReachableWF x) (k : Nat) (hn : x.s.n = 2 ^ k) :
    PP x x.lw ∧ x.lw ≤ x.s.cursor ∧
    ∀ i, i < x.P → ((x.wr i).pc = .scan ∨ (x.wr i).pc = .relCheck ∨ (x.wr i).pc = .unsetBit ∨ (x.wr i).pc = .casCur ∨
      (x.wr i).pc = .reloadCur ∨ (x.wr i).pc = .setLw) → PP x (x.wr i).good := by
  have hs := mreachableWF_safe hr k hn
  exact ⟨fun q h1 h2 => hs.2.pref q h1 (Nat.le_trans h2 hs.2.lwLe), hs.2.lwLe, fun i hi hp => (hs.2.ws i hi).goodPP hp⟩

/-- a bit that is set in the bitmap is the bit of a published, not yet released sequence: some `q0` with the same residue has
been published by its claimant and lies above the cursor (and, by `c14_multi_window`, below `cursor + n`, so it is unique) -/
theorem c14_multi_set_bit_is_published {x : MSt} (hr : MReachableWF x) (k : Nat) (hn : x.s.n = 2 ^ k) (q : Nat)
    (hb : bmIsSet x.bm q = true) : ∃ q0, q0 % x.s.n = q % x.s.n ∧ Pub x q0 ∧ x.s.cursor < q0 ∧ q0 < x.s.cursor + x.s.n := by
  have hs := mreachableWF_safe hr k hn
  obtain ⟨q0, h1, h2, h3⟩ := hs.2.bits q hb
  exact ⟨q0, h1, h2, h3, by have := h2.2.1; have := hs.2.window; omega⟩

/-- all claimed sequences lie in a window of fewer than `n` consecutive numbers above the cursor (so residues identify them) -/
theorem c14_multi_window {x : MSt} (hr : MReachableWF x) (k : Nat) (hn : x.s.n = 2 ^ k) :
    x.s.cursor ≤ x.hw ∧ x.hw < x.s.cursor + x.s.n := by
  have hs := mreachableWF_safe hr k hn
  refine ⟨?_, hs.2.window⟩
  rcases Nat.eq_zero_or_pos x.s.cursor with h0 | hp
  · omega
  · exact (hs.2.pref _ hp (Nat.le_refl _)).2.1

/-- the unchecked slot index of the bitmap never goes out of bounds (`bm = none` in the model = undefined behaviour in the
code), for every `n = 2^k` — below, at and above one machine word -/
theorem c14_multi_bitmap_in_bounds {x : MSt} (hr : MReachableWF x) (k : Nat) (hn : x.s.n = 2 ^ k) : x.bm ≠ none := by
  obtain ⟨_, b, _, _, hb, _⟩ := (mreachableWF_safe hr k hn).2.bmOk
  rw [hb]; simp

/-- non-vacuity: two writers published 1 and 2 with overlapping `publish` calls, the cursor is 2 -/
def overlapRun : MSt := runM (mkM 4 1 (fun _ => 1) false [[1, 1, 1], [1]])
  (List.replicate 6 (MTid.writer 0) ++ List.replicate 6 (MTid.writer 1) ++ List.replicate 8 (MTid.writer 0) ++
   List.replicate 16 (MTid.writer 1))

example : overlapRun.s.cursor = 2 ∧ overlapRun.written = [(1, 0), (2, 1)] ∧ (overlapRun.wr 0).pc = .unsetBit ∧
    (overlapRun.wr 0).good = 1 ∧ overlapRun.lw = 2 := by decide +kernel
example : MReachableWF overlapRun :=
  ⟨4, 1, fun _ => 1, false, [[1, 1, 1], [1]], _, by decide, fun _ _ => Nat.one_pos, by decide, rfl⟩

/-- the theorem applied to that state: sequence 2 (≤ cursor) is claimed, written and pending with nobody -/
example : 2 ≤ overlapRun.hw ∧ (∃ i, (2, i) ∈ overlapRun.written) ∧ ¬ Pend overlapRun 2 :=
  c14_multi_cursor_is_published_prefix
    ⟨4, 1, fun _ => 1, false, [[1, 1, 1], [1]], _, by decide, fun _ _ => Nat.one_pos, by decide, rfl⟩ 2 (by decide +kernel)
    2 (by decide) (by decide +kernel)

/-! ### F13: the low watermark moves backwards; publications in claim order are stranded for good -/

/-- writer 0 claims 1, writer 1 claims 2; writer 0 sets its bit, reads the low watermark 0 and scans up to 1 (= its `hi`);
writer 1 sets its bit, reads the same low watermark 0, scans up to 2, unsets `0…2`, moves the cursor `0 → 2` and stores the low
watermark 2; now writer 0 unsets `0…1`, fails its CAS (`0 → 1`), sees the cursor beyond its value and stores the low
watermark **1** (`overlapRun` is the state just before). From here on every publisher starts its scan at 1 and finds the bit
of 2 clear: writer 0 publishes 3, the handler consumes 1 and 2, writer 0 publishes 4 — nothing is released any more. -/
def lwRegressRun : MSt := runM overlapRun
  (List.replicate 20 (MTid.writer 0) ++ List.replicate 12 (MTid.cons 0 0) ++ List.replicate 20 (MTid.writer 0) ++
   List.replicate 12 MTid.drainer ++ List.replicate 8 (MTid.cons 0 0))

/-- **F13 (a second negation of "once all claimants have published the cursor equals the highest claimed sequence")**: here
the `publish` calls *begin* in claim order (writer 0 sets the bit of 1 before writer 1 sets the bit of 2) and merely overlap.
All four `write` calls have returned, `drain` has returned and the handler has terminated having seen `[1, 2]`; the cursor is 2,
the low watermark 1, sequences 3 and 4 are written, published by their claimant and lost. Unlike F7 a later publisher does
not repair it. -/
theorem c14_multi_low_watermark_regresses :
    overlapRun.lw = 2 ∧
    (lwRegressRun.wr 0).pc = .done ∧ (lwRegressRun.wr 1).pc = .done ∧ lwRegressRun.dr.pc = .done ∧
    (lwRegressRun.s.cons 0 0).pc = .done ∧
    lwRegressRun.allClaims = [(1, 1, 1), (2, 2, 1), (3, 3, 1), (4, 4, 1)] ∧
    lwRegressRun.written = [(1, 0), (2, 1), (3, 0), (4, 0)] ∧
    lwRegressRun.hw = 4 ∧ lwRegressRun.s.cursor = 2 ∧ lwRegressRun.lw = 1 ∧ (lwRegressRun.s.cons 0 0).log = [1, 2] := by
  decide +kernel

/-! ### the last clause under serialised, in-claim-order publication

Full statement (false, see F7 and F13 above): *once every claimant has published, the cursor equals the highest claimed
sequence.* What does hold: if the `publish` calls are serialised in claim order — a writer leaves its slot-write loop only
when no `publish` call is in progress and it holds the lowest unpublished claim (`SerialSched`; nothing else is constrained:
claims, slot writes, consumers and the draining thread interleave freely) — then it is true. F7 violates the second condition,
F13 the first; both conditions are needed. -/

/-- **partial C14, last clause**: every ring size `n = 2^k`, topology, wait strategy, number of writer threads, batch lists, and
every schedule that obeys the serialised in-claim-order discipline: when all writer threads are done the cursor equals the
high watermark (the highest claimed sequence) -/
theorem c14_multi_in_order_partial (k K : Nat) (h : Nat → Nat) (blocking : Bool) (batches : List (List Nat))
    (sched : List MTid) (hK : 0 < K) (hh : ∀ j, j < K → 0 < h j) (hb : ∀ l, l ∈ batches → ∀ b, b ∈ l → 1 ≤ b)
    (hser : SerialSched (mkM (2 ^ k) K h blocking batches) sched)
    (hdone : ∀ i, i < (runM (mkM (2 ^ k) K h blocking batches) sched).P →
      ((runM (mkM (2 ^ k) K h blocking batches) sched).wr i).pc = .done) :
    (runM (mkM (2 ^ k) K h blocking batches) sched).s.cursor = (runM (mkM (2 ^ k) K h blocking batches) sched).hw :=
  serial_cursor_eq_hw _ (serAll_run _ sched (serAll_init k K h blocking batches hK hh hb) hser) hdone

/-- … and at every moment of such a run at which no `publish` call is in progress: cursor = low watermark, the bitmap is
clear, and everything claimed above the cursor is held by a writer still in its slot-write loop -/
theorem c14_multi_in_order_quiescent (k K : Nat) (h : Nat → Nat) (blocking : Bool) (batches : List (List Nat))
    (sched : List MTid) (hK : 0 < K) (hh : ∀ j, j < K → 0 < h j) (hb : ∀ l, l ∈ batches → ∀ b, b ∈ l → 1 ≤ b)
    (hser : SerialSched (mkM (2 ^ k) K h blocking batches) sched)
    (hq : ∀ i, i < (runM (mkM (2 ^ k) K h blocking batches) sched).P →
      ((runM (mkM (2 ^ k) K h blocking batches) sched).wr i).pc.pub = false) :
    (runM (mkM (2 ^ k) K h blocking batches) sched).lw = (runM (mkM (2 ^ k) K h blocking batches) sched).s.cursor ∧
    (∀ q, bmIsSet (runM (mkM (2 ^ k) K h blocking batches) sched).bm q = false) ∧
    Cover (runM (mkM (2 ^ k) K h blocking batches) sched) (runM (mkM (2 ^ k) K h blocking batches) sched).s.cursor :=
  (serAll_run _ sched (serAll_init k K h blocking batches hK hh hb) hser).2.idle hq

/-- a single writer thread obeys the discipline under every schedule: with one writer thread the multi-producer sequencer
does satisfy the last clause (every ring size `2^k`, topology, wait strategy, batch list, **every schedule**) -/
theorem c14_multi_single_writer_cursor_eq_highest_claimed (k K : Nat) (h : Nat → Nat) (blocking : Bool) (bs : List Nat)
    (sched : List MTid) (hK : 0 < K) (hh : ∀ j, j < K → 0 < h j) (hb : ∀ b, b ∈ bs → 1 ≤ b)
    (hdone : ((runM (mkM (2 ^ k) K h blocking [bs]) sched).wr 0).pc = .done) :
    (runM (mkM (2 ^ k) K h blocking [bs]) sched).s.cursor = (runM (mkM (2 ^ k) K h blocking [bs]) sched).hw := by
  have hP : ∀ s, (runM (mkM (2 ^ k) K h blocking [bs]) s).P = 1 := by
    intro s
    have : ∀ (y : MSt) (sch : List MTid), (runM y sch).P = y.P := by
      intro y sch
      unfold runM
      induction sch generalizing y with
      | nil => rfl
      | cons t ts ih =>
        simp only [List.foldl_cons]; rw [ih]
        cases t with
        | writer i => simp only [stepM]; split; exact stepWriter_P y i; rfl
        | drainer => exact (stepDrainer_frame y).1
        | cons k j => simp only [stepM]; split <;> rfl
    rw [this]; rfl
  apply c14_multi_in_order_partial k K h blocking [bs] sched hK hh (by intro l hl; simp at hl; subst hl; exact hb)
    (serialSched_of_single _ rfl sched)
  intro i hi
  rw [hP] at hi
  have : i = 0 := by omega
  subst this; exact hdone

/-- non-vacuity: two writers claim 1 and 2 concurrently, then publish one after the other in claim order -/
def serialDemo : List MTid :=
  List.replicate 6 (MTid.writer 0) ++ List.replicate 6 (MTid.writer 1) ++ List.replicate 20 (MTid.writer 0) ++
  List.replicate 20 (MTid.writer 1)

example : SerialSched (mkM 4 1 (fun _ => 1) false [[1], [1]]) serialDemo :=
  serialSched_of_D _ _ (by decide +kernel)

example : ((runM (mkM 4 1 (fun _ => 1) false [[1], [1]]) serialDemo).wr 0).pc = .done ∧
    ((runM (mkM 4 1 (fun _ => 1) false [[1], [1]]) serialDemo).wr 1).pc = .done ∧
    (runM (mkM 4 1 (fun _ => 1) false [[1], [1]]) serialDemo).s.cursor = 2 ∧
    (runM (mkM 4 1 (fun _ => 1) false [[1], [1]]) serialDemo).hw = 2 := by decide +kernel

/-- the F7 schedule violates the order condition, the F13 schedule the non-overlap condition -/
example : ¬ SerialSchedD (mkM 4 1 (fun _ => 1) false [[1], [1]])
    ((List.replicate 6 (MTid.writer 0)) ++ (List.replicate 20 (MTid.writer 1)) ++ (List.replicate 20 (MTid.writer 0))) := by
  decide +kernel
example : ¬ SerialSchedD (mkM 4 1 (fun _ => 1) false [[1, 1, 1], [1]])
    (List.replicate 6 (MTid.writer 0) ++ List.replicate 6 (MTid.writer 1) ++ List.replicate 8 (MTid.writer 0) ++
     List.replicate 16 (MTid.writer 1)) := by decide +kernel

end Multi

end C14
