import DcVerif.Lemmas.Ring
import DcVerif.Lemmas.RingMulti
/-!
# C14 — sequencers hand out disjoint gap-free ranges; the cursor is the published prefix

Single-producer sequencer (`SingleProducerSequencer::next/publish`), every ring size, topology, batch list, wait strategy
and **every schedule** (`Reachable`):

* `c14_claims_tile`      — the ranges returned by `next`, in claim order, partition `[0, next_write)` into consecutive
                            non-empty ranges, each of exactly the requested length (`Tiles`);
* `c14_cursor_monotone`  — no step of any thread decreases the cursor;
* `c14_cursor_is_published_prefix` — the cursor never moves past a sequence that has not been written by its claimant:
                            every sequence `≤ cursor` is in `written` (unless nothing has been published yet);
* `c14_cursor_eq_highest_claimed` — between `write` calls (all claims published) the cursor equals the highest claimed
                            sequence.

Multi-producer sequencer (`Model/RingMulti.lean`, any number of writer threads, every interleaving of the read /
capacity check / CAS / bitmap / cursor steps): `c14_multi_claims_tile` and `c14_multi_cursor_monotone` hold; the other two
clauses are false today (known finding F7): `c14_multi_cursor_below_highest_claimed` is a schedule-exact witness, identical
to what the real code does under the same schedule (harness corpus case `F7-witness`).
-/
namespace C14
open Ring

theorem c14_claims_tile {x : PSt} (hr : Reachable x) :
    Tiles 0 x.p.claims (if x.p.pc = .gateCheck ∨ x.p.pc = .gateLoad then x.p.start else x.p.nextWrite) :=
  (reachable_inv hr).2.2.1.tiles

/-- what `Tiles` means, spelled out: consecutive, non-empty, of the requested length -/
theorem tiles_spelled_out {a b : Nat} {cs : List (Nat × Nat × Nat)} (h : Tiles a cs b) :
    a ≤ b ∧ (∀ c ∈ cs, a ≤ c.1 ∧ c.1 ≤ c.2.1 ∧ c.2.1 < b ∧ c.2.1 + 1 = c.1 + c.2.2) ∧
    List.Pairwise (fun c d => c.2.1 < d.1) cs := by
  induction h with
  | nil a => simp
  | cons h1 h2 h3 _ ih =>
    obtain ⟨i1, i2, i3⟩ := ih
    subst h1
    refine ⟨by omega, ?_, ?_⟩
    · intro c hc
      simp only [List.mem_cons] at hc
      rcases hc with rfl | hc
      · simp only; omega
      · have := i2 c hc; omega
    · simp only [List.pairwise_cons]
      exact ⟨fun d hd => by have := i2 d hd; omega, i3⟩

theorem c14_cursor_monotone {x : PSt} (hr : Reachable x) (t : Tid) : x.s.cursor ≤ (stepX x t).s.cursor := by
  cases t with
  | prod => exact cursor_mono_prod x (reachable_inv hr)
  | cons k j =>
    show x.s.cursor ≤ (if k < x.s.K ∧ j < x.s.h k then { x with s := stepC x.s k j } else x).s.cursor
    split <;> exact Nat.le_refl _

theorem c14_cursor_is_published_prefix {x : PSt} (hr : Reachable x) :
    x.s.cursor = 0 ∨ ∀ q, q ≤ x.s.cursor → q ∈ x.p.written := by
  obtain ⟨hI, hK, hP, hb⟩ := reachable_inv hr
  by_cases h0 : x.s.cursor = 0
  · exact Or.inl h0
  · right; intro q hq
    rw [hP.wrote]
    simp only [List.mem_range'_1]
    by_cases hw : x.p.pc = .write ∨ x.p.pc = .publish
    · have := hP.wr hw
      simp only [hw, if_true]
      rcases this.1 with h1 | ⟨h1, h2⟩ <;> omega
    · simp only [hw, if_false]
      by_cases hidle : x.p.pc.idle = true
      · rcases hP.nw hidle with h1 | ⟨h1, h2⟩ <;> omega
      · have hcl : x.p.pc = .gateCheck ∨ x.p.pc = .gateLoad := by
          cases hp : x.p.pc <;> simp_all [PPc.idle]
        have := hP.claim hcl
        rcases this.1 with h1 | ⟨h1, h2⟩ <;> omega

theorem c14_cursor_eq_highest_claimed {x : PSt} (hr : Reachable x) (hidle : x.p.pc.idle = true)
    (hsome : 0 < x.p.nextWrite) : x.s.cursor = x.p.nextWrite - 1 := by
  obtain ⟨hI, hK, hP, hb⟩ := reachable_inv hr
  rcases hP.nw hidle with h1 | ⟨h1, h2⟩ <;> omega

/-! non-vacuity -/
def demo : PSt := runX (mk 4 1 (fun _ => 1) true [2, 1, 3])
  ((List.replicate 12 Tid.prod) ++ (List.replicate 30 (Tid.cons 0 0)) ++ (List.replicate 30 Tid.prod))

example : demo.p.claims = [(0, 1, 2), (2, 2, 1), (3, 5, 3)] ∧ demo.s.cursor = 5 ∧ demo.p.written = [0, 1, 2, 3, 4, 5] := by
  decide +kernel

/-! ## multi-producer sequencer -/
section Multi
open RingMulti

/-- a state reachable with the multi-producer sequencer: any ring size, topology, wait strategy, number of writer threads,
batch lists with batches of at least one element, **any schedule** -/
def MReachable (x : MSt) : Prop :=
  ∃ (n K : Nat) (h : Nat → Nat) (blocking : Bool) (batches : List (List Nat)) (sched : List MTid),
    (∀ l, l ∈ batches → ∀ b, b ∈ l → 1 ≤ b) ∧ x = runM (mkM n K h blocking batches) sched

theorem mreachable_inv {x : MSt} (hr : MReachable x) : MInv x := by
  obtain ⟨n, K, h, bl, bs, sched, hb, rfl⟩ := hr
  exact minv_run _ sched (minv_init n K h bl bs hb)

/-- concurrent claims: the ranges won by the successful compare-and-swaps, in that order, partition `[1, high_watermark]`
into consecutive non-empty ranges of exactly the requested lengths — for every interleaving -/
theorem c14_multi_claims_tile {x : MSt} (hr : MReachable x) : Tiles 1 x.allClaims (x.hw + 1) :=
  (mreachable_inv hr).tiles

/-- the cursor visible to consumers never decreases, whichever thread steps -/
theorem c14_multi_cursor_monotone {x : MSt} (hr : MReachable x) (t : MTid) : x.s.cursor ≤ (stepM x t).s.cursor :=
  cursor_mono_stepM x t (mreachable_inv hr)

/-- **F7 (negation of "once all claimants have published the cursor equals the highest claimed sequence")**: writer 0 claims
sequence 1, writer 1 claims 2, writes and publishes first (its release scan finds 1 unset and releases nothing), then writer 0
publishes (its scan stops at its own `hi = 1`). Both `write` calls have returned, yet the cursor is 1 and sequence 2 is stranded. -/
def strandedRun : MSt := runM (mkM 4 1 (fun _ => 1) false [[1], [1]])
  ((List.replicate 6 (MTid.writer 0)) ++ (List.replicate 20 (MTid.writer 1)) ++ (List.replicate 20 (MTid.writer 0)))

theorem c14_multi_cursor_below_highest_claimed :
    (strandedRun.wr 0).pc = .done ∧ (strandedRun.wr 1).pc = .done ∧
    strandedRun.allClaims = [(1, 1, 1), (2, 2, 1)] ∧ strandedRun.written = [(2, 1), (1, 0)] ∧
    strandedRun.hw = 2 ∧ strandedRun.s.cursor = 1 := by decide +kernel

example : MReachable strandedRun := ⟨4, 1, fun _ => 1, false, [[1], [1]], _, by decide, rfl⟩

end Multi

end C14
