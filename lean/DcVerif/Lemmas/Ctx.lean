import DcVerif.Model.Ctx
import DcVerif.Props.C08
/-! Lemmas for C09: the invariant of `Model.Ctx`, the abstraction to `Spec.Context`, selection of the current
extra context, and "every graph operation of a context is the `UltraGraph` operation on the addressed component". -/
namespace Model.Ctx
open Spec Spec.DiGraph Spec.Context Model Model.UGraph

/-- the extra contexts as a list (`None` = no map yet) -/
def extrasList (c : Ctx) : List (Nat × UGraph) := c.extras.getD []

/-- what holds in every reachable context: all graphs well-formed (C08), extra contexts are exactly the ids
`1 … count`, the selection is `0` or one of them -/
structure Inv (c : Ctx) : Prop where
  baseWF : WF c.base
  none0 : c.extras = none → c.count = 0
  keysNodup : (c.extrasList.map (·.1)).Nodup
  keys : ∀ k, has c.extrasList k = (decide (1 ≤ k) && decide (k ≤ c.count))
  len : c.extrasList.length = c.count
  allWF : ∀ e ∈ c.extrasList, WF e.2
  cur : c.current ≤ c.count

theorem inv_init : Inv init :=
  ⟨wf_init, fun _ => rfl, List.nodup_nil, fun k => by simp [init, extrasList, has]; omega, rfl,
    fun _ h => by simp [init, extrasList] at h, Nat.le_refl _⟩

/-- the abstraction function -/
def absCtx (c : Ctx) : Context :=
  { base := abs c.base, extras := c.extrasList.map (fun e => (e.1, abs e.2)), current := c.current,
    cur := c.curMap, prev := c.prevMap }

theorem find_abs (m : List (Nat × UGraph)) (k : Nat) :
    ((m.map (fun e => (e.1, abs e.2))).find? (fun e => e.1 == k)).map (·.2) = (mGet m k).map abs := by
  induction m with
  | nil => rfl
  | cons e m ih =>
    rw [List.map_cons, List.find?_cons, mGet_cons]
    by_cases h : e.1 = k
    · simp [h]
    · have : (e.1 == k) = false := by simpa using h
      simp only [this, h, if_false]; exact ih

/-- selection: the model's `get_current_extra_context` against the specification's `selected` -/
theorem getCurrent_spec {c : Ctx} (h : Inv c) :
    (c.current = 0 ∧ (∃ r, c.getCurrent = r ∧ (r = Sel.err)) ∧ (absCtx c).selected = none) ∨
    (c.current ≠ 0 ∧ ∃ g, c.getCurrent = .ok g ∧ (absCtx c).selected = some (abs g) ∧
      mGet c.extrasList c.current = some g ∧ WF g ∧ c.extras = some c.extrasList) := by
  by_cases h0 : c.current = 0
  · left
    refine ⟨h0, ⟨_, rfl, ?_⟩, ?_⟩
    · unfold getCurrent; simp [h0]
    · unfold selected absCtx; simp [h0]
  · right
    refine ⟨h0, ?_⟩
    have hk := h.keys c.current
    have hc := h.cur
    have hhas : has c.extrasList c.current = true := by
      rw [hk]; simp; omega
    have hsome : (mGet c.extrasList c.current).isSome = true := by rw [mGet_isSome]; exact hhas
    cases hg : mGet c.extrasList c.current with
    | none => rw [hg] at hsome; cases hsome
    | some g =>
      have hex : c.extras = some c.extrasList := by
        cases he : c.extras with
        | none => have := h.none0 he; omega
        | some m => simp [extrasList, he]
      have hwf : WF g := by
        unfold mGet at hg
        cases hf : c.extrasList.find? (fun e => e.1 == c.current) with
        | none => rw [hf] at hg; cases hg
        | some e =>
          rw [hf] at hg
          have := h.allWF e (List.mem_of_find?_eq_some hf)
          simp only [Option.map_some, Option.some.injEq] at hg
          rw [← hg]; exact this
      refine ⟨g, ?_, ?_, rfl, hwf, hex⟩
      · unfold getCurrent checkExists
        have h1 : (c.current == 0) = false := by simpa using h0
        have h2 : decide (c.current ≤ c.count) = true := by simpa using hc
        rw [h1, h2, hex]
        simp only [Bool.false_eq_true, if_false, Bool.not_true, hg]
      · unfold selected
        have h1 : ((absCtx c).current == 0) = false := by simpa [absCtx] using h0
        rw [h1]
        simp only [Bool.false_eq_true, if_false]
        show ((c.extrasList.map (fun e => (e.1, abs e.2))).find? (fun e => e.1 == c.current)).map (·.2) = _
        rw [find_abs, hg]; rfl

theorem extrasList_putCurrent (c : Ctx) (g : UGraph) :
    (c.putCurrent g).extrasList = c.extrasList.map (fun e => if e.1 == c.current then (e.1, g) else e) := by
  unfold putCurrent extrasList
  cases c.extras <;> rfl

theorem absCtx_putCurrent (c : Ctx) (g : UGraph) : absCtx (c.putCurrent g) = (absCtx c).putSelected (abs g) := by
  unfold absCtx putSelected
  rw [extrasList_putCurrent]
  simp only [List.map_map]
  have : (c.putCurrent g).base = c.base ∧ (c.putCurrent g).current = c.current ∧
      (c.putCurrent g).curMap = c.curMap ∧ (c.putCurrent g).prevMap = c.prevMap := ⟨rfl, rfl, rfl, rfl⟩
  rw [this.1, this.2.1, this.2.2.1, this.2.2.2]
  congr 1
  apply List.map_congr_left
  intro e _
  simp only [Function.comp]
  by_cases he : e.1 = c.current
  · simp [he]
  · have : (e.1 == c.current) = false := by simpa using he
    simp [this]

theorem map_put_keys (m : List (Nat × UGraph)) (k : Nat) (g : UGraph) :
    (m.map (fun e => if e.1 == k then (e.1, g) else e)).map (·.1) = m.map (·.1) := by
  rw [List.map_map]; apply List.map_congr_left; intro e _
  simp only [Function.comp]; split <;> rfl

theorem inv_putCurrent {c : Ctx} (h : Inv c) (g : UGraph) (hg : WF g) : Inv (c.putCurrent g) := by
  have hl := extrasList_putCurrent c g
  refine ⟨h.baseWF, ?_, ?_, ?_, ?_, ?_, h.cur⟩
  · intro hn
    apply h.none0
    unfold putCurrent at hn
    cases he : c.extras with
    | none => rfl
    | some m => simp [he] at hn
  · rw [hl, map_put_keys]; exact h.keysNodup
  · intro k
    have : has (c.putCurrent g).extrasList k = has c.extrasList k := by
      have e1 := has_iff_mem (c.putCurrent g).extrasList k
      have e2 := has_iff_mem c.extrasList k
      rw [hl, map_put_keys] at e1
      rw [Bool.eq_iff_iff, e2, hl, e1]
    rw [this]; exact h.keys k
  · rw [hl, List.length_map]; exact h.len
  · intro e he
    rw [hl] at he
    obtain ⟨x, hx, hxe⟩ := List.mem_map.1 he
    split at hxe
    · rw [← hxe]; exact hg
    · rw [← hxe]; exact h.allWF x hx

/-- writing back the value that is already there changes nothing -/
theorem putCurrent_self {c : Ctx} (h : Inv c) (g : UGraph) (hg : mGet c.extrasList c.current = some g)
    (hex : c.extras = some c.extrasList) : c.putCurrent g = c := by
  have : c.extrasList.map (fun e => if e.1 == c.current then (e.1, g) else e) = c.extrasList := by
    have hn := h.keysNodup
    generalize c.extrasList = m at hn hg
    induction m with
    | nil => rfl
    | cons e m ih =>
      simp only [List.map_cons, List.nodup_cons] at hn
      rw [mGet_cons] at hg
      rw [List.map_cons]
      by_cases he : e.1 = c.current
      · rw [if_pos he] at hg
        have hb : (e.1 == c.current) = true := by simpa using he
        rw [hb]
        simp only [if_true]
        have hrest : m.map (fun e => if e.1 == c.current then (e.1, g) else e) = m := by
          have : ∀ x ∈ m, ¬ x.1 = c.current := by
            intro x hx hxe
            exact hn.1 (he ▸ hxe ▸ List.mem_map.2 ⟨x, hx, rfl⟩)
          rw [← List.map_id m]
          rw [List.map_map]
          apply List.map_congr_left
          intro x hx
          have hb : (x.1 == c.current) = false := by simpa using this x hx
          simp only [Function.comp, hb, Bool.false_eq_true, if_false, id]
        rw [hrest]
        congr 1
        injection hg with hg
        exact Prod.ext rfl hg.symm
      · have hb : (e.1 == c.current) = false := by simpa using he
        rw [hb, if_neg he] at *
        simp only [Bool.false_eq_true, if_false]
        rw [ih hn.2 hg]
  unfold putCurrent
  rw [hex]
  simp only [Option.map_some, this]
  cases c with
  | mk b e cnt cur cm pm => simp only at hex ⊢; rw [← hex]

theorem putSelected_self {c : Ctx} (h : Inv c) (g : UGraph) (hg : mGet c.extrasList c.current = some g)
    (hex : c.extras = some c.extrasList) : (absCtx c).putSelected (abs g) = absCtx c := by
  rw [← absCtx_putCurrent, putCurrent_self h g hg hex]

/-! ## every graph operation is the `UltraGraph` operation on the addressed component -/

theorem eta_base (c : Ctx) : { c with base := c.base } = c := rfl

/-- base operations: `Context` forwards to `base_context` (its own guards are redundant) -/
theorem base_step {c : Ctx} (h : WF c.base) (op : Op) (gop : DiGraph.Op) (hg : op.graphOp = some (.base, gop)) :
    Ctx.step c op = ({ c with base := (UGraph.step .repaired c.base gop).1 }, (UGraph.step .repaired c.base gop).2) := by
  cases op <;> simp only [Op.graphOp, Option.some.injEq, Prod.mk.injEq, reduceCtorEq, false_and, true_and] at hg
  all_goals subst hg
  case addNode v => rfl
  case containsNode i => rfl
  case getNode i => rfl
  case containsEdge a b => rfl
  case edgeCount => rfl
  case size => simp only [Ctx.step, UGraph.step, lenOut]; cases c.base.ids.len <;> rfl
  case isEmpty => simp only [Ctx.step, UGraph.step, lenOut]; cases c.base.ids.len <;> rfl
  case nodeCount => simp only [Ctx.step, UGraph.step, lenOut]; cases c.base.ids.len <;> rfl
  case removeNode i =>
    simp only [Ctx.step, UGraph.step]
    rw [h.containsNode]
    cases hi : has c.base.nodeMap i
    · rw [removeNode_err .repaired h i hi]; rfl
    · obtain ⟨g', hg', _⟩ := removeNode_ok h i hi
      rw [hg']; rfl
  case addEdge a b w =>
    simp only [Ctx.step, UGraph.step]
    rw [h.containsNode, h.containsNode]
    cases hc : (has c.base.nodeMap a && has c.base.nodeMap b && !c.base.hasCell a b)
    · rw [addEdgeW_err h a b w hc]
      cases has c.base.nodeMap a <;> cases has c.base.nodeMap b <;> rfl
    · obtain ⟨g', hg', _⟩ := addEdgeW_spec h a b w hc
      simp only [Bool.and_eq_true, Bool.not_eq_true'] at hc
      rw [hg', hc.1.1, hc.1.2]; rfl
  case removeEdge a b =>
    simp only [Ctx.step, UGraph.step]
    rw [h.containsNode, h.containsNode]
    cases hc : c.base.hasCell a b
    · rw [removeEdge_err .repaired h a b hc]
      cases has c.base.nodeMap a <;> cases has c.base.nodeMap b <;> rfl
    · obtain ⟨g', hg', _⟩ := removeEdge_ok h a b hc
      obtain ⟨ha, hb⟩ := h.hasCell_live hc
      rw [hg', ha, hb]; rfl

/-- extra operations without a selection fail and change nothing -/
theorem extra_step_nosel {c : Ctx} (hsel : c.getCurrent = .err) (op : Op) (gop : DiGraph.Op)
    (hg : op.graphOp = some (.extra, gop)) : Ctx.step c op = (c, noSel gop) := by
  have hcn : ∀ i, c.extraContainsNode i = false := by intro i; unfold extraContainsNode; rw [hsel]
  cases op <;> simp only [Op.graphOp, Option.some.injEq, Prod.mk.injEq, reduceCtorEq, false_and, true_and] at hg
  all_goals subst hg
  all_goals simp only [Ctx.step, hsel, hcn, noSel, Bool.not_false, if_true]

/-- extra operations with a selection: the `UltraGraph` operation on the selected graph, written back in place;
the answer is wrapped into a `Result` -/
theorem extra_step_sel {c : Ctx} (hinv : Inv c) (g : UGraph) (h : WF g) (hsel : c.getCurrent = .ok g)
    (hget : mGet c.extrasList c.current = some g) (hex : c.extras = some c.extrasList)
    (op : Op) (gop : DiGraph.Op) (hg : op.graphOp = some (.extra, gop)) :
    Ctx.step c op = (c.putCurrent (UGraph.step .repaired g gop).1, wrapX gop (UGraph.step .repaired g gop).2) := by
  have hcn : ∀ i, c.extraContainsNode i = g.containsNode i := by intro i; unfold extraContainsNode; rw [hsel]
  have hself := putCurrent_self hinv g hget hex
  cases op <;> simp only [Op.graphOp, Option.some.injEq, Prod.mk.injEq, reduceCtorEq, false_and, true_and] at hg
  all_goals subst hg
  case xAddNode v => simp only [Ctx.step, hsel, UGraph.step]; rfl
  case xContainsNode i => simp only [Ctx.step, hcn, UGraph.step, hself]; rfl
  case xGetNode i =>
    simp only [Ctx.step, hsel, UGraph.step, hself]
    cases g.getNode i <;> rfl
  case xContainsEdge a b =>
    simp only [Ctx.step, hsel, hcn, UGraph.step, hself]
    rw [h.containsNode, h.containsNode, h.containsEdge]
    cases hc : g.hasCell a b
    · cases has g.nodeMap a <;> cases has g.nodeMap b <;> simp [wrapX]
    · obtain ⟨ha, hb⟩ := h.hasCell_live hc
      simp [wrapX, ha, hb]
  case xEdgeCount => simp only [Ctx.step, hsel, UGraph.step, hself]; rfl
  case xSize =>
    simp only [Ctx.step, hsel, UGraph.step, lenOut, h.len, hself]; rfl
  case xIsEmpty =>
    simp only [Ctx.step, hsel, UGraph.step, lenOut, h.len, hself]; rfl
  case xNodeCount =>
    simp only [Ctx.step, hsel, UGraph.step, lenOut, h.len, hself]; rfl
  case xRemoveNode i =>
    simp only [Ctx.step, hsel, UGraph.step]
    cases hi : has g.nodeMap i
    · rw [removeNode_err .repaired h i hi, hself]; rfl
    · obtain ⟨g', hg', _⟩ := removeNode_ok h i hi
      rw [hg']; rfl
  case xAddEdge a b w =>
    simp only [Ctx.step, hsel, hcn, UGraph.step]
    rw [h.containsNode, h.containsNode]
    cases hc : (has g.nodeMap a && has g.nodeMap b && !g.hasCell a b)
    · rw [addEdgeW_err h a b w hc, hself]
      cases has g.nodeMap a <;> cases has g.nodeMap b <;> rfl
    · obtain ⟨g', hg', _⟩ := addEdgeW_spec h a b w hc
      simp only [Bool.and_eq_true, Bool.not_eq_true'] at hc
      rw [hg', hc.1.1, hc.1.2]; rfl
  case xRemoveEdge a b =>
    simp only [Ctx.step, hsel, hcn, UGraph.step]
    rw [h.containsNode, h.containsNode]
    cases hc : g.hasCell a b
    · rw [removeEdge_err .repaired h a b hc, hself]
      cases has g.nodeMap a <;> cases has g.nodeMap b <;> rfl
    · obtain ⟨g', hg', _⟩ := removeEdge_ok h a b hc
      obtain ⟨ha, hb⟩ := h.hasCell_live hc
      rw [hg', ha, hb]; rfl

end Model.Ctx
