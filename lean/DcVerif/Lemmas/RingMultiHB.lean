import DcVerif.Model.RingMultiHB
import DcVerif.Lemmas.RingHB
import DcVerif.Lemmas.RingMultiSafe
/-!
The ghost (vector-clock) invariant of `Model/RingMultiHB.lean`, part 1: clock algebra, knowledge of slot writes, the
invariant `HMInv`, and its preservation by every step of a handler thread and of the draining thread.
Part 2 (`Lemmas/RingMultiHBW.lean`) treats the writer threads and puts the pieces together for every schedule.

All clauses are of the form "clock entry ≥ local counter" / "clock knows the write of sequence `q`"; they are monotone in the
clock and in the ghost write log, thread clocks only grow, the clocks of RMW-only locations (cursor, high watermark, bitmap
words) only grow, the clock of a plainly stored location (handler cursors, low watermark) is replaced by its storer's.
-/
namespace RingMultiHB
open Ring RingMulti Gen.Orderings
open RingHB (doneOf availPc upd_same upd_other)

/-! ## clock algebra -/

def VC.le (a b : VC) : Prop := (∀ i, a.pw i ≤ b.pw i) ∧ ∀ k j, a.ha k j ≤ b.ha k j

theorem le_refl' (a : VC) : a.le a := ⟨fun _ => Nat.le_refl _, fun _ _ => Nat.le_refl _⟩
theorem le_trans' {a b c : VC} (h1 : a.le b) (h2 : b.le c) : a.le c :=
  ⟨fun i => Nat.le_trans (h1.1 i) (h2.1 i), fun k j => Nat.le_trans (h1.2 k j) (h2.2 k j)⟩
theorem le_join_left (a b : VC) : a.le (a.join b) := ⟨fun _ => Nat.le_max_left _ _, fun _ _ => Nat.le_max_left _ _⟩
theorem le_join_right (a b : VC) : b.le (a.join b) := ⟨fun _ => Nat.le_max_right _ _, fun _ _ => Nat.le_max_right _ _⟩
theorem le_incH (a : VC) (k j : Nat) : a.le (a.incH k j) := by
  refine ⟨fun _ => Nat.le_refl _, fun k' j' => ?_⟩
  simp only [VC.incH]; split <;> omega
theorem le_incW (a : VC) (i : Nat) : a.le (a.incW i) := by
  refine ⟨fun i' => ?_, fun _ _ => Nat.le_refl _⟩
  simp only [VC.incW]; split <;> omega
theorem le_ite {t a b : VC} (c : Prop) [Decidable c] (h1 : t.le a) (h2 : t.le b) : t.le (if c then a else b) := by
  split <;> assumption
theorem le_loadClock (o : Ord) (t l : VC) : t.le (loadClock o t l) := by
  unfold loadClock; split
  · exact le_join_left _ _
  · exact le_refl' _
theorem loc_le_loadClock (o : Ord) (ho : o.isAcquire = true) (t l : VC) : l.le (loadClock o t l) := by
  simp only [loadClock, ho, if_true]; exact le_join_right _ _
theorem le_rmwClock (o : Ord) (t l : VC) : l.le (rmwClock o t l) := by
  unfold rmwClock; split
  · exact le_join_left _ _
  · exact le_refl' _
theorem thread_le_rmwClock (o : Ord) (ho : o.isRelease = true) (t l : VC) : t.le (rmwClock o t l) := by
  simp only [rmwClock, ho, if_true]; exact le_join_right _ _

@[simp] theorem updV_same (f : Nat → Nat → VC) (k j : Nat) (v : VC) : updV f k j v k j = v := by simp [updV]
theorem updV_other (f : Nat → Nat → VC) (k j k' j' : Nat) (v : VC) (h : ¬(k' = k ∧ j' = j)) :
    updV f k j v k' j' = f k' j' := by simp [updV, h]
@[simp] theorem updV1_same (f : Nat → VC) (i : Nat) (v : VC) : updV1 f i v i = v := by simp [updV1]
theorem updV1_other (f : Nat → VC) (i i' : Nat) (v : VC) (h : i' ≠ i) : updV1 f i v i' = f i' := by simp [updV1, h]

/-! ## "nobody knows more about a thread's accesses than the thread itself" -/

/-- clock `c` is dominated by the owners' own entries `ow` (writers) and `oh` (handlers) -/
def Dom (ow : Nat → Nat) (oh : Nat → Nat → Nat) (c : VC) : Prop := (∀ a, c.pw a ≤ ow a) ∧ ∀ k j, c.ha k j ≤ oh k j

def ow (s : HMSt) : Nat → Nat := fun a => (s.vcW a).pw a
def oh (s : HMSt) : Nat → Nat → Nat := fun k j => (s.vcC k j).ha k j

theorem dom_mono {ow ow' : Nat → Nat} {oh oh' : Nat → Nat → Nat} {c : VC} (h : Dom ow oh c)
    (h1 : ∀ a, ow a ≤ ow' a) (h2 : ∀ k j, oh k j ≤ oh' k j) : Dom ow' oh' c :=
  ⟨fun a => Nat.le_trans (h.1 a) (h1 a), fun k j => Nat.le_trans (h.2 k j) (h2 k j)⟩
theorem dom_empty (ow : Nat → Nat) (oh : Nat → Nat → Nat) : Dom ow oh {} := ⟨fun _ => Nat.zero_le _, fun _ _ => Nat.zero_le _⟩
theorem dom_join {ow : Nat → Nat} {oh : Nat → Nat → Nat} {a b : VC} (ha : Dom ow oh a) (hb : Dom ow oh b) :
    Dom ow oh (a.join b) :=
  ⟨fun i => Nat.max_le.2 ⟨ha.1 i, hb.1 i⟩, fun k j => Nat.max_le.2 ⟨ha.2 k j, hb.2 k j⟩⟩
theorem dom_load {ow : Nat → Nat} {oh : Nat → Nat → Nat} (o : Ord) {t l : VC} (ht : Dom ow oh t) (hl : Dom ow oh l) :
    Dom ow oh (loadClock o t l) := by
  unfold loadClock; split
  · exact dom_join ht hl
  · exact ht
theorem dom_rmw {ow : Nat → Nat} {oh : Nat → Nat → Nat} (o : Ord) {t l : VC} (ht : Dom ow oh t) (hl : Dom ow oh l) :
    Dom ow oh (rmwClock o t l) := by
  unfold rmwClock; split
  · exact dom_join hl ht
  · exact hl
theorem dom_store {ow : Nat → Nat} {oh : Nat → Nat → Nat} (o : Ord) {t : VC} (ht : Dom ow oh t) :
    Dom ow oh (storeClock o t) := by
  unfold storeClock; split
  · exact ht
  · exact dom_empty _ _

/-- every clock of the system is dominated by the owners' entries -/
structure HDom (s : HMSt) : Prop where
  dCur : Dom (ow s) (oh s) s.lcCur
  dHw  : Dom (ow s) (oh s) s.lcHw
  dLw  : Dom (ow s) (oh s) s.lcLw
  dH   : ∀ a b, Dom (ow s) (oh s) (s.lcH a b)
  dB   : ∀ ix, Dom (ow s) (oh s) (s.lcB ix)
  dW   : ∀ i, Dom (ow s) (oh s) (s.vcW i)
  dC   : ∀ a b, Dom (ow s) (oh s) (s.vcC a b)
  dD   : Dom (ow s) (oh s) s.vcD

/-! ## knowledge of slot writes -/

theorem wlog_append (W L : List (Nat × Nat)) (a : Nat) : wlog (W ++ L) a = wlog W a ++ wlog L a := by
  simp [wlog, List.filter_append]

theorem wlog_single (w i a : Nat) : wlog [(w, i)] a = if i = a then [w] else [] := by
  by_cases h : i = a <;> simp [wlog, h]

theorem knowsW_mono {W : List (Nat × Nat)} {v v' : VC} {q : Nat} (h : KnowsW W v q) (hv : v.le v')
    (L : List (Nat × Nat)) : KnowsW (W ++ L) v' q := by
  obtain ⟨a, m, h1, h2⟩ := h
  refine ⟨a, m, ?_, Nat.lt_of_lt_of_le h2 (hv.1 a)⟩
  rw [wlog_append]
  have hm : m < (wlog W a).length := by
    rcases Nat.lt_or_ge m (wlog W a).length with h | h
    · exact h
    · rw [List.getElem?_eq_none h] at h1; cases h1
  rw [List.getElem?_append_left hm]; exact h1

theorem knowsW_le {W : List (Nat × Nat)} {v v' : VC} {q : Nat} (h : KnowsW W v q) (hv : v.le v') : KnowsW W v' q := by
  have := knowsW_mono h hv []; simpa using this

/-- a known write has been made -/
theorem knowsW_mem {W : List (Nat × Nat)} {v : VC} {q : Nat} (h : KnowsW W v q) : ∃ a, (q, a) ∈ W ∧ 0 < v.pw a := by
  obtain ⟨a, m, h1, h2⟩ := h
  refine ⟨a, ?_, by omega⟩
  have hm := List.mem_of_getElem? h1
  simp only [wlog, List.mem_map, List.mem_filter] at hm
  obtain ⟨e, ⟨he, hea⟩, hq⟩ := hm
  have : e = (q, a) := by
    cases e with
    | mk e1 e2 => simp at hea hq; simp [hea, hq]
  rw [← this]; exact he

/-- clock `v` knows the slot write of every sequence `1 … b` -/
def KnowsUpTo (W : List (Nat × Nat)) (v : VC) (b : Nat) : Prop := ∀ q, 1 ≤ q → q ≤ b → KnowsW W v q

theorem KnowsUpTo.mono {W : List (Nat × Nat)} {v v' : VC} {b b' : Nat} (h : KnowsUpTo W v b) (hv : v.le v') (hb : b' ≤ b)
    (L : List (Nat × Nat)) : KnowsUpTo (W ++ L) v' b' :=
  fun q h1 h2 => knowsW_mono (h q h1 (by omega)) hv L

theorem KnowsUpTo.le {W : List (Nat × Nat)} {v v' : VC} {b b' : Nat} (h : KnowsUpTo W v b) (hv : v.le v') (hb : b' ≤ b) :
    KnowsUpTo W v' b' :=
  fun q h1 h2 => knowsW_le (h q h1 (by omega)) hv

theorem CoversM.mono {W : List (Nat × Nat)} {K : Nat} {h : Nat → Nat} {n : Nat} {v v' : VC} {k b b' : Nat}
    (hc : CoversM W K h n v k b) (hv : v.le v') (hb : b' ≤ b) (L : List (Nat × Nat)) :
    CoversM (W ++ L) K h n v' k b' := by
  obtain ⟨h1, h2, h3⟩ := hc
  constructor
  · intro q hq1 hq2; exact knowsW_mono (h1 q hq1 (by omega)) hv L
  · intro k' j' hk hK hj; have := h2 k' j' hk hK hj; have := hv.2 k' j'; omega
  · intro k' j' hK hj; have := h3 k' j' hK hj; have := hv.2 k' j'; omega

theorem CoversM.le {W : List (Nat × Nat)} {K : Nat} {h : Nat → Nat} {n : Nat} {v v' : VC} {k b b' : Nat}
    (hc : CoversM W K h n v k b) (hv : v.le v') (hb : b' ≤ b) : CoversM W K h n v' k b' := by
  have := hc.mono hv hb []; simpa using this

theorem CoversM.weaken {W : List (Nat × Nat)} {K : Nat} {h : Nat → Nat} {n : Nat} {v : VC} {k k' b : Nat}
    (hc : CoversM W K h n v k b) (hk : k' ≤ k) : CoversM W K h n v k' b :=
  ⟨hc.pw, fun a j ha hK hj => hc.prev a j (by omega) hK hj, hc.old⟩

theorem coversM_combine {W : List (Nat × Nat)} {K : Nat} {h : Nat → Nat} {n : Nat} {v : VC} {k m : Nat}
    (h1 : CoversM W K h n v (k - 1) m) (h2 : 0 < k → ∀ d, d < h (k-1) → m ≤ v.ha (k-1) d) :
    CoversM W K h n v k m := by
  refine ⟨h1.pw, ?_, h1.old⟩
  intro k' j' hk hK hj
  by_cases hlt : k' < k - 1
  · exact h1.prev k' j' hlt hK hj
  · have : k' = k - 1 := by omega
    subst this
    exact h2 (by omega) j' hj

theorem coversM_zero (W : List (Nat × Nat)) (K : Nat) (h : Nat → Nat) (n : Nat) (v : VC) (k : Nat) : CoversM W K h n v k 0 :=
  ⟨fun q h1 h2 => by omega, fun _ _ _ _ _ => Nat.zero_le _, fun _ _ _ _ => Nat.zero_le _⟩

/-- what the clock of a bitmap word knows about a published sequence `q0` whose bit is set: the slot write of `q0`, the
slot write of every sequence at least one lap below `q0` (the claimant of `q0` learnt those in `has_capacity`), and every
handler's access of `q0 - n` -/
structure SeqK (W : List (Nat × Nat)) (K : Nat) (h : Nat → Nat) (n : Nat) (v : VC) (q0 : Nat) : Prop where
  self : KnowsW W v q0
  lap  : ∀ q, 1 ≤ q → q + n ≤ q0 → KnowsW W v q
  old  : ∀ k j, k < K → j < h k → q0 ≤ v.ha k j + n

theorem SeqK.mono {W : List (Nat × Nat)} {K : Nat} {h : Nat → Nat} {n : Nat} {v v' : VC} {q0 : Nat}
    (hs : SeqK W K h n v q0) (hv : v.le v') (L : List (Nat × Nat)) : SeqK (W ++ L) K h n v' q0 :=
  ⟨knowsW_mono hs.self hv L, fun q h1 h2 => knowsW_mono (hs.lap q h1 h2) hv L,
   fun k j hk hj => by have := hs.old k j hk hj; have := hv.2 k j; omega⟩

/-! ## the invariant -/

/-- handlers and their cursors (the clauses of `RingHB.HInv` about handlers, with `CoversM`) -/
structure HCons (W : List (Nat × Nat)) (sx : St) (vcC lcH : Nat → Nat → VC) : Prop where
  lH   : ∀ k j, k < sx.K → j < sx.h k →
           CoversM W sx.K sx.h sx.n (lcH k j) k (sx.cons k j).cur ∧ (sx.cons k j).cur ≤ (lcH k j).ha k j
  cOwn : ∀ k j, k < sx.K → j < sx.h k → (vcC k j).ha k j = doneOf (sx.cons k j)
  cCur : ∀ k j, k < sx.K → j < sx.h k → CoversM W sx.K sx.h sx.n (vcC k j) k (sx.cons k j).cur
  cAv  : ∀ k j, k < sx.K → j < sx.h k → availPc (sx.cons k j).pc →
           CoversM W sx.K sx.h sx.n (vcC k j) k (sx.cons k j).avail
  cLd  : ∀ k j, k < sx.K → j < sx.h k → (sx.cons k j).pc = .waitLoad →
           ∀ m, (sx.cons k j).acc = some m →
             (0 < (sx.cons k j).idx → CoversM W sx.K sx.h sx.n (vcC k j) (k - 1) m) ∧
             (0 < k → ∀ d, d < (sx.cons k j).idx → m ≤ (vcC k j).ha (k-1) d)

/-- the producer-side locations: the cursor's and the low watermark's clock cover their values; the clock of the word of a
published sequence above the cursor whose bit is set knows that sequence -/
structure HLoc (x : MSt) (lcCur lcLw : VC) (lcB : Nat → VC) : Prop where
  lCur : CoversM x.written x.s.K x.s.h x.s.n lcCur 0 x.s.cursor
  lLw  : CoversM x.written x.s.K x.s.h x.s.n lcLw 0 x.lw
  lB   : ∀ q0, Pub x q0 → x.s.cursor < q0 → bmIsSet x.bm q0 = true →
           SeqK x.written x.s.K x.s.h x.s.n (lcB (C19.slotOf x.s.n q0)) q0

def goodPc (pc : WPc) : Prop :=
  pc = .scan ∨ pc = .relCheck ∨ pc = .unsetBit ∨ pc = .casCur ∨ pc = .reloadCur ∨ pc = .setLw

/-- what the clock `v` of a writer thread with local state `w` knows -/
structure WKnow (W : List (Nat × Nat)) (K : Nat) (h : Nat → Nat) (n : Nat) (v : VC) (w : Writer) : Prop where
  /-- `has_capacity`'s acquire loads: every handler's accesses up to `minG`, every slot write up to `minG` -/
  min    : ∀ k j, k < K → j < h k → w.minG ≤ v.ha k j
  minW   : KnowsUpTo W v w.minG
  ld     : w.pc = .capLoad → ∀ m, w.acc = some m →
             (0 < w.idx → (∀ k j, k < K - 1 → j < h k → m ≤ v.ha k j) ∧ KnowsUpTo W v m) ∧
             (∀ d, d < w.idx → m ≤ v.ha (K - 1) d)
  /-- its own slot writes of the current claim -/
  claimW : w.pc = .write → ∀ q, w.lo ≤ q → q < w.w → KnowsW W v q
  claimS : w.pc = .setBit → ∀ q, w.lo ≤ q → q ≤ w.hi → KnowsW W v q
  /-- the release phase: everything up to `good_to_release` -/
  good   : goodPc w.pc → CoversM W K h n v 0 w.good

theorem WKnow.mono {W : List (Nat × Nat)} {K : Nat} {h : Nat → Nat} {n : Nat} {v v' : VC} {w : Writer}
    (hw : WKnow W K h n v w) (hv : v.le v') (L : List (Nat × Nat)) : WKnow (W ++ L) K h n v' w := by
  obtain ⟨a1, a2, a3, a4, a5, a6⟩ := hw
  refine ⟨?_, a2.mono hv (Nat.le_refl _) L, ?_, ?_, ?_, ?_⟩
  · intro k j hk hj; have := a1 k j hk hj; have := hv.2 k j; omega
  · intro hp m hm
    obtain ⟨b1, b2⟩ := a3 hp m hm
    refine ⟨fun hi => ⟨fun k j hk hj => ?_, ((b1 hi).2).mono hv (Nat.le_refl _) L⟩, fun d hd => ?_⟩
    · have := (b1 hi).1 k j hk hj; have := hv.2 k j; omega
    · have := b2 d hd; have := hv.2 (K - 1) d; omega
  · intro hp q h1 h2; exact knowsW_mono (a4 hp q h1 h2) hv L
  · intro hp q h1 h2; exact knowsW_mono (a5 hp q h1 h2) hv L
  · intro hp; exact (a6 hp).mono hv (Nat.le_refl _) L

/-- the writer threads -/
structure HWr (x : MSt) (vcW : Nat → VC) : Prop where
  own  : ∀ i, i < x.P → (vcW i).pw i = (wlog x.written i).length
  know : ∀ i, i < x.P → WKnow x.written x.s.K x.s.h x.s.n (vcW i) (x.wr i)

/-- ghost invariant -/
structure HMInv (s : HMSt) : Prop where
  hc : HCons s.x.written s.x.s s.vcC s.lcH
  hl : HLoc s.x s.lcCur s.lcLw s.lcB
  hw : HWr s.x s.vcW
  hz : HDom s

/-! ## a handler's step -/

theorem hcons_mono {W : List (Nat × Nat)} {sx : St} {vcC lcH : Nat → Nat → VC} (h : HCons W sx vcC lcH)
    (L : List (Nat × Nat)) : HCons (W ++ L) sx vcC lcH := by
  obtain ⟨a1, a2, a3, a4, a5⟩ := h
  refine ⟨?_, a2, ?_, ?_, ?_⟩
  · intro k j hk hj; exact ⟨(a1 k j hk hj).1.mono (le_refl' _) (Nat.le_refl _) L, (a1 k j hk hj).2⟩
  · intro k j hk hj; exact (a3 k j hk hj).mono (le_refl' _) (Nat.le_refl _) L
  · intro k j hk hj hp; exact (a4 k j hk hj hp).mono (le_refl' _) (Nat.le_refl _) L
  · intro k j hk hj hp m hm
    obtain ⟨b1, b2⟩ := a5 k j hk hj hp m hm
    exact ⟨fun hi => (b1 hi).mono (le_refl' _) (Nat.le_refl _) L, b2⟩

/-- frame: replacing one handler record / its clock / its cursor's clock (and the mutex state, which no clause mentions) -/
theorem hcons_frame (W : List (Nat × Nat)) (sx : St) (vcC lcH : Nat → Nat → VC) (k j : Nat)
    (c' : Cons) (v' l' : VC) (m' : Option Tid) (w' : Nat → Nat → Bool) (hC : HCons W sx vcC lcH)
    (hcur  : CoversM W sx.K sx.h sx.n l' k c'.cur ∧ c'.cur ≤ l'.ha k j)
    (hown  : v'.ha k j = doneOf c')
    (hccur : CoversM W sx.K sx.h sx.n v' k c'.cur)
    (hcav  : availPc c'.pc → CoversM W sx.K sx.h sx.n v' k c'.avail)
    (hcld  : c'.pc = .waitLoad → ∀ m, c'.acc = some m →
               (0 < c'.idx → CoversM W sx.K sx.h sx.n v' (k - 1) m) ∧ (0 < k → ∀ d, d < c'.idx → m ≤ v'.ha (k-1) d)) :
    HCons W { sx with cons := upd sx.cons k j c', mtx := m', woken := w' } (updV vcC k j v') (updV lcH k j l') := by
  obtain ⟨a2, a3, a4, a5, a6⟩ := hC
  constructor
  · intro a b ha hb
    by_cases he : a = k ∧ b = j
    · obtain ⟨rfl, rfl⟩ := he; simpa using hcur
    · simp only [updV_other _ _ _ _ _ _ he, upd_other _ _ _ _ _ _ he]; exact a2 a b ha hb
  · intro a b ha hb
    by_cases he : a = k ∧ b = j
    · obtain ⟨rfl, rfl⟩ := he; simpa using hown
    · simp only [updV_other _ _ _ _ _ _ he, upd_other _ _ _ _ _ _ he]; exact a3 a b ha hb
  · intro a b ha hb
    by_cases he : a = k ∧ b = j
    · obtain ⟨rfl, rfl⟩ := he; simpa using hccur
    · simp only [updV_other _ _ _ _ _ _ he, upd_other _ _ _ _ _ _ he]; exact a4 a b ha hb
  · intro a b ha hb
    by_cases he : a = k ∧ b = j
    · obtain ⟨rfl, rfl⟩ := he; simpa using hcav
    · simp only [updV_other _ _ _ _ _ _ he, upd_other _ _ _ _ _ _ he]; exact a5 a b ha hb
  · intro a b ha hb
    by_cases he : a = k ∧ b = j
    · obtain ⟨rfl, rfl⟩ := he; simpa using hcld
    · simp only [updV_other _ _ _ _ _ _ he, upd_other _ _ _ _ _ _ he]; exact a6 a b ha hb

theorem hcons_quiet (W : List (Nat × Nat)) (sx : St) (vcC lcH : Nat → Nat → VC) (k j : Nat) (hk : k < sx.K) (hj : j < sx.h k)
    (c' : Cons) (m' : Option Tid) (w' : Nat → Nat → Bool) (hC : HCons W sx vcC lcH)
    (hcur : c'.cur = (sx.cons k j).cur) (hdone : doneOf c' = doneOf (sx.cons k j))
    (hav : availPc c'.pc → availPc (sx.cons k j).pc ∧ c'.avail = (sx.cons k j).avail)
    (hld : c'.pc = .waitLoad → c'.acc = none) :
    HCons W { sx with cons := upd sx.cons k j c', mtx := m', woken := w' }
      (updV vcC k j (vcC k j)) (updV lcH k j (lcH k j)) := by
  refine hcons_frame W sx vcC lcH k j c' _ _ m' w' hC ?_ ?_ ?_ ?_ ?_
  · rw [hcur]; exact hC.lH k j hk hj
  · rw [hdone]; exact hC.cOwn k j hk hj
  · rw [hcur]; exact hC.cCur k j hk hj
  · intro h; obtain ⟨h1, h2⟩ := hav h; rw [h2]; exact hC.cAv k j hk hj h1
  · intro h m hm; rw [hld h] at hm; cases hm

/-- a handler's step preserves the handler clauses (cursor stores Release, cursor loads Acquire) -/
theorem hcons_cons (og os : Ord) (hset : os.isRelease = true) (hget : og.isAcquire = true)
    (s : HMSt) (k j : Nat) (hk : k < s.x.s.K) (hj : j < s.x.s.h k) (hI : Inv s.x.s)
    (hC : HCons s.x.written s.x.s s.vcC s.lcH)
    (hLc : CoversM s.x.written s.x.s.K s.x.s.h s.x.s.n s.lcCur 0 s.x.s.cursor) (hZ : HDom s) :
    HCons s.x.written (stepC s.x.s k j) (updV s.vcC k j (consV og s k j)) (updV s.lcH k j (consL os s k j)) := by
  have hci := hI.2 k j hk hj
  have hpos := ndeps_pos s.x.s hI.1 k hk
  simp only [stepC]
  have b2 := hC.lH k j hk hj
  have b3 := hC.cOwn k j hk hj
  have b4 := hC.cCur k j hk hj
  have b5 := hC.cAv k j hk hj
  have b6 := hC.cLd k j hk hj
  have cNext := hci.nextEq; have cIGe := hci.iGe; have cILe := hci.iLe
  have cIdx := hci.idxLe; have cSome := hci.accSome
  -- joining a location clock does not change the handler's own entry
  have joinOwn : ∀ ld : VC, Dom (ow s) (oh s) ld → ((s.vcC k j).join ld).ha k j = (s.vcC k j).ha k j := by
    intro ld hld; simp only [VC.join]; exact Nat.max_eq_left (hld.2 k j)
  have depCov : ∀ d, d < ndeps s.x.s k →
      CoversM s.x.written s.x.s.K s.x.s.h s.x.s.n (depClock s k d) (k - 1) (dep s.x.s k d) ∧
      (0 < k → dep s.x.s k d ≤ (depClock s k d).ha (k-1) d) := by
    intro d hd
    by_cases h0 : k = 0
    · subst h0; simp [dep, depClock]; exact hLc
    · have hd' : d < s.x.s.h (k-1) := by simpa [ndeps, h0] using hd
      have := hC.lH (k-1) d (by omega) hd'
      simp [dep, depClock, h0]; exact ⟨this.1, fun _ => this.2⟩
  have depZ : ∀ d, Dom (ow s) (oh s) (depClock s k d) := by
    intro d; unfold depClock; split
    · exact hZ.dCur
    · exact hZ.dH _ _
  cases hpc : (s.x.s.cons k j).pc
  case readOwn =>
    have e2 : consV og s k j = (s.vcC k j).join (s.lcH k j) := by simp [consV, hpc, loadClock, hget]
    have e3 : consL os s k j = s.lcH k j := by simp [consL, hpc]
    rw [e2, e3]
    have jz3 := joinOwn _ (hZ.dH k j)
    have e1 : ∃ pc', (pc' = .bLock ∨ pc' = .waitLoad) ∧ stepCons s.x.s k j (s.x.s.cons k j) =
        { s.x.s.cons k j with next := (s.x.s.cons k j).cur + 1, pc := pc',
                              acc := if pc' = .waitLoad then none else (s.x.s.cons k j).acc,
                              idx := if pc' = .waitLoad then 0 else (s.x.s.cons k j).idx } := by
      cases hb : s.x.s.blocking
      · exact ⟨.waitLoad, by simp, by simp [stepCons, hpc, hb]⟩
      · exact ⟨.bLock, by simp, by simp [stepCons, hpc, hb]⟩
    obtain ⟨pc', hpc', e1⟩ := e1
    rw [e1]
    refine hcons_frame _ s.x.s s.vcC s.lcH k j _ _ _ _ _ hC ?hcur ?hown ?hccur ?hcav ?hcld
    case hcur => exact b2
    case hown => rw [jz3, b3]; rcases hpc' with h | h <;> simp [doneOf, hpc, h]
    case hccur => exact b4.le (le_join_left _ _) (Nat.le_refl _)
    case hcav => rcases hpc' with h | h <;> simp [availPc, h]
    case hcld => intro h; simp only at h; simp [h]
  case waitLoad =>
    by_cases hlt : (s.x.s.cons k j).idx < ndeps s.x.s k
    · have e1 : stepCons s.x.s k j (s.x.s.cons k j) = { s.x.s.cons k j with acc := minOpt (s.x.s.cons k j).acc (dep s.x.s k (s.x.s.cons k j).idx), idx := (s.x.s.cons k j).idx + 1 } := by
        simp [stepCons, hpc, hlt]
      have e2 : consV og s k j = (s.vcC k j).join (depClock s k (s.x.s.cons k j).idx) := by
        simp [consV, hpc, hlt, loadClock, hget]
      have e3 : consL os s k j = s.lcH k j := by simp [consL, hpc]
      rw [e1, e2, e3]
      obtain ⟨dc1, dc2⟩ := depCov _ hlt
      have jz3 := joinOwn _ (depZ (s.x.s.cons k j).idx)
      refine hcons_frame _ s.x.s s.vcC s.lcH k j _ _ _ _ _ hC ?hcur ?hown ?hccur ?hcav ?hcld
      case hcur => exact b2
      case hown => rw [jz3, b3]; simp [doneOf, hpc]
      case hccur => exact b4.le (le_join_left _ _) (Nat.le_refl _)
      case hcav => simp [availPc, hpc]
      case hcld =>
        intro _ m hm
        have hle := minOpt_le _ _ _ hm
        constructor
        · intro _; exact dc1.le (le_join_right _ _) hle.1
        · intro hk0 d hd
          by_cases hdi : d < (s.x.s.cons k j).idx
          · cases hacc : (s.x.s.cons k j).acc with
            | none => have := cSome hpc (by omega); simp [hacc] at this
            | some m0 =>
              have h1 := (b6 hpc m0 hacc).2 hk0 d hdi
              have h2 := hle.2 m0 hacc
              simp only [VC.join]; exact Nat.le_trans (Nat.le_trans h2 h1) (Nat.le_max_left _ _)
          · have hd' : d = (s.x.s.cons k j).idx := by simp at hd; omega
            subst hd'
            have h1 := dc2 hk0
            simp only [VC.join]; exact Nat.le_trans (Nat.le_trans hle.1 h1) (Nat.le_max_right _ _)
    · have e1 : stepCons s.x.s k j (s.x.s.cons k j) = { s.x.s.cons k j with avail := (s.x.s.cons k j).acc.getD 0, pc := .checkAvail } := by
        simp [stepCons, hpc, hlt]
      have e2 : consV og s k j = s.vcC k j := by simp [consV, hpc, hlt]
      have e3 : consL os s k j = s.lcH k j := by simp [consL, hpc]
      rw [e1, e2, e3]
      refine hcons_frame _ s.x.s s.vcC s.lcH k j _ _ _ _ _ hC ?hcur ?hown ?hccur ?hcav ?hcld
      case hcur => exact b2
      case hown => simpa [doneOf, hpc] using b3
      case hccur => exact b4
      case hcav =>
        intro _
        have hidx : (s.x.s.cons k j).idx = ndeps s.x.s k := by have := cIdx hpc; omega
        have hsome := cSome hpc (by omega)
        cases hacc : (s.x.s.cons k j).acc with
        | none => simp [hacc] at hsome
        | some m =>
          simp
          have := b6 hpc m hacc
          apply coversM_combine (this.1 (by omega))
          intro hk0 d hd
          exact this.2 hk0 d (by rw [hidx]; simpa [ndeps, Nat.pos_iff_ne_zero.mp hk0] using hd)
      case hcld => simp
  case handle =>
    have e3 : consL os s k j = s.lcH k j := by simp [consL, hpc]
    by_cases hle : (s.x.s.cons k j).i ≤ (s.x.s.cons k j).avail
    · have e1 : stepCons s.x.s k j (s.x.s.cons k j) = { s.x.s.cons k j with log := (s.x.s.cons k j).log ++ [(s.x.s.cons k j).i], i := (s.x.s.cons k j).i + 1 } := by
        simp [stepCons, hpc, hle]
      have e2 : consV og s k j = (s.vcC k j).incH k j := by simp [consV, hpc, hle]
      rw [e1, e2, e3]
      refine hcons_frame _ s.x.s s.vcC s.lcH k j _ _ _ _ _ hC ?hcur ?hown ?hccur ?hcav ?hcld
      case hcur => exact b2
      case hown =>
        have h1 := cIGe hpc; have h2 := cNext (by simp [hpc])
        simp [doneOf, hpc, VC.incH] at b3 ⊢; omega
      case hccur => exact b4.le (le_incH _ _ _) (Nat.le_refl _)
      case hcav => intro _; exact (b5 (by simp [availPc, hpc])).le (le_incH _ _ _) (Nat.le_refl _)
      case hcld => simp [hpc]
    · have e1 : stepCons s.x.s k j (s.x.s.cons k j) = { s.x.s.cons k j with pc := .publish } := by
        simp [stepCons, hpc, hle]
      have e2 : consV og s k j = s.vcC k j := by simp [consV, hpc, hle]
      rw [e1, e2, e3]
      apply hcons_quiet _ s.x.s s.vcC s.lcH k j hk hj _ _ _ hC
      · rfl
      · have := cILe hpc; simp [doneOf, hpc]; omega
      · intro _; exact ⟨by simp [availPc, hpc], rfl⟩
      · simp
  case publish =>
    have e2 : consV og s k j = s.vcC k j := by simp [consV, hpc]
    have e3 : consL os s k j = s.vcC k j := by simp [consL, hpc, storeClock, hset]
    rw [e2, e3]
    have hav := b5 (by simp [availPc, hpc])
    have hown : (s.vcC k j).ha k j = (s.x.s.cons k j).avail := by simpa [doneOf, hpc] using b3
    have e1 : ∃ pc', (pc' = .sLock ∨ pc' = .readOwn) ∧ stepCons s.x.s k j (s.x.s.cons k j) =
        { s.x.s.cons k j with cur := (s.x.s.cons k j).avail, pc := pc' } := by
      cases hb : s.x.s.blocking
      · exact ⟨.readOwn, by simp, by simp [stepCons, hpc, hb]⟩
      · exact ⟨.sLock, by simp, by simp [stepCons, hpc, hb]⟩
    obtain ⟨pc', hpc', e1⟩ := e1
    rw [e1]
    refine hcons_frame _ s.x.s s.vcC s.lcH k j _ _ _ _ _ hC ?hcur ?hown ?hccur ?hcav ?hcld
    case hcur => exact ⟨hav, Nat.le_of_eq hown.symm⟩
    case hown => rcases hpc' with h | h <;> simpa [doneOf, h] using hown
    case hccur => exact hav
    case hcav => rcases hpc' with h | h <;> simp [availPc, h]
    case hcld => rcases hpc' with h | h <;> simp [h]
  case checkAvail | bUnlockGo =>
    have e2 : consV og s k j = s.vcC k j := by simp [consV, hpc]
    have e3 : consL os s k j = s.lcH k j := by simp [consL, hpc]
    rw [e2, e3]
    have hn := cNext (by simp [hpc])
    apply hcons_quiet _ s.x.s s.vcC s.lcH k j hk hj _ _ _ hC <;> simp only [stepCons, hpc] <;> (repeat' split) <;>
      simp_all [doneOf, availPc]
  all_goals
    have e2 : consV og s k j = s.vcC k j := by simp [consV, hpc]
    have e3 : consL os s k j = s.lcH k j := by simp [consL, hpc]
    rw [e2, e3]
    apply hcons_quiet _ s.x.s s.vcC s.lcH k j hk hj _ _ _ hC <;> simp only [stepCons, hpc] <;> (repeat' split) <;>
      simp_all [doneOf, availPc]

/-- the handler's new clock and its cursor's new clock are dominated, and the owners' entries only grow -/
theorem hdom_cons (og os : Ord) (s : HMSt) (k j : Nat) (hZ : HDom s) :
    HDom { s with x := { s.x with s := stepC s.x.s k j },
                  vcC := updV s.vcC k j (consV og s k j), lcH := updV s.lcH k j (consL os s k j) } := by
  have hv : (s.vcC k j).le (consV og s k j) := by
    cases hpc : (s.x.s.cons k j).pc <;> simp only [consV, hpc] <;>
      first | exact le_refl' _ | exact le_loadClock _ _ _ | exact le_ite _ (le_loadClock _ _ _) (le_refl' _)
            | exact le_ite _ (le_incH _ _ _) (le_refl' _)
  have depZ : ∀ d, Dom (ow s) (oh s) (depClock s k d) := by
    intro d; unfold depClock; split
    · exact hZ.dCur
    · exact hZ.dH _ _
  have how : ∀ a, ow s a ≤ ow s a := fun _ => Nat.le_refl _
  let s' : HMSt :=
    { s with x := { s.x with s := stepC s.x.s k j },
             vcC := updV s.vcC k j (consV og s k j), lcH := updV s.lcH k j (consL os s k j) }
  have hoh : ∀ a b, oh s a b ≤ oh s' a b := by
    intro a b
    by_cases he : a = k ∧ b = j
    · obtain ⟨rfl, rfl⟩ := he; simp [oh, s']; exact hv.2 a b
    · simp [oh, s', updV_other _ _ _ _ _ _ he]
  have hsame : ow s' = ow s := rfl
  have old : ∀ c, Dom (ow s) (oh s) c → Dom (ow s') (oh s') c := fun c hc => dom_mono hc how hoh
  -- the new clock of the handler
  have hv' : Dom (ow s') (oh s') (consV og s k j) := by
    by_cases hacc : (s.x.s.cons k j).pc = .handle ∧ (s.x.s.cons k j).i ≤ (s.x.s.cons k j).avail
    · have e : consV og s k j = (s.vcC k j).incH k j := by simp [consV, hacc.1, hacc.2]
      refine ⟨fun a => ?_, fun a b => ?_⟩
      · rw [e]; exact (hZ.dC k j).1 a
      · by_cases he : a = k ∧ b = j
        · obtain ⟨rfl, rfl⟩ := he; simp [oh, s']
        · rw [e]; simp only [oh, s', updV_other _ _ _ _ _ _ he, VC.incH, he, if_false]; exact (hZ.dC k j).2 a b
    · apply old
      cases hpc : (s.x.s.cons k j).pc <;> simp only [consV, hpc]
      case readOwn => exact dom_load _ (hZ.dC k j) (hZ.dH k j)
      case waitLoad =>
        split
        · exact dom_load _ (hZ.dC k j) (depZ _)
        · exact hZ.dC k j
      case handle =>
        split
        · rename_i h; exact absurd ⟨hpc, h⟩ hacc
        · exact hZ.dC k j
      all_goals exact hZ.dC k j
  have hl' : Dom (ow s') (oh s') (consL os s k j) := by
    apply old
    cases hpc : (s.x.s.cons k j).pc <;> simp only [consL, hpc] <;> first | exact hZ.dH k j | exact dom_store _ (hZ.dC k j)
  refine ⟨old _ hZ.dCur, old _ hZ.dHw, old _ hZ.dLw, ?_, fun ix => old _ (hZ.dB ix), fun i => old _ (hZ.dW i), ?_,
    old _ hZ.dD⟩
  · intro a b
    show Dom (ow s') (oh s') (updV s.lcH k j (consL os s k j) a b)
    by_cases he : a = k ∧ b = j
    · obtain ⟨rfl, rfl⟩ := he; simpa using hl'
    · rw [updV_other _ _ _ _ _ _ he]; exact old _ (hZ.dH a b)
  · intro a b
    show Dom (ow s') (oh s') (updV s.vcC k j (consV og s k j) a b)
    by_cases he : a = k ∧ b = j
    · obtain ⟨rfl, rfl⟩ := he; simpa using hv'
    · rw [updV_other _ _ _ _ _ _ he]; exact old _ (hZ.dC a b)

/-- `HLoc` and `HWr` read the state only through these components -/
theorem hloc_congr (x x' : MSt) (lcCur lcLw : VC) (lcB : Nat → VC) (hP : x'.P = x.P) (hwr : x'.wr = x.wr) (hhw : x'.hw = x.hw)
    (hlw : x'.lw = x.lw) (hbm : x'.bm = x.bm) (hwritten : x'.written = x.written) (hcur : x'.s.cursor = x.s.cursor)
    (hn : x'.s.n = x.s.n) (hK : x'.s.K = x.s.K) (hh : x'.s.h = x.s.h) (h : HLoc x lcCur lcLw lcB) : HLoc x' lcCur lcLw lcB := by
  obtain ⟨s', P', hw', lw', bm', wr', dr', written', ac'⟩ := x'
  obtain ⟨n', K', h', bl', cur', isDone', mtx', woken', cons'⟩ := s'
  simp only at hP hwr hhw hlw hbm hwritten hcur hn hK hh
  subst hP hwr hhw hlw hbm hwritten hcur hn hK hh
  exact ⟨h.1, h.2, h.3⟩

theorem hwr_congr (x x' : MSt) (vcW : Nat → VC) (hP : x'.P = x.P) (hwr : x'.wr = x.wr)
    (hwritten : x'.written = x.written) (hn : x'.s.n = x.s.n) (hK : x'.s.K = x.s.K) (hh : x'.s.h = x.s.h)
    (h : HWr x vcW) : HWr x' vcW := by
  obtain ⟨s', P', hw', lw', bm', wr', dr', written', ac'⟩ := x'
  obtain ⟨n', K', h', bl', cur', isDone', mtx', woken', cons'⟩ := s'
  simp only at hP hwr hwritten hn hK hh
  subst hP hwr hwritten hn hK hh
  exact ⟨h.1, h.2⟩

/-- a handler's step preserves the whole invariant -/
theorem hminv_cons (o : Ords) (hset : o.set.isRelease = true) (hget : o.get.isAcquire = true)
    (s : HMSt) (k j : Nat) (hk : k < s.x.s.K) (hj : j < s.x.s.h k) (hI : Inv s.x.s) (hH : HMInv s) :
    HMInv (stepMH o s (.cons k j)) := by
  simp only [stepMH, hk, hj, and_self, if_true]
  refine ⟨hcons_cons o.get o.set hset hget s k j hk hj hI hH.hc hH.hl.lCur hH.hz, ?_, ?_, hdom_cons o.get o.set s k j hH.hz⟩
  · exact hloc_congr s.x _ _ _ _ rfl rfl rfl rfl rfl rfl rfl rfl rfl rfl hH.hl
  · exact hwr_congr s.x _ _ rfl rfl rfl rfl rfl rfl hH.hw

/-! ## the draining thread's step -/

theorem stepDrainer_s' (x : MSt) : (stepDrainer x).s.cons = x.s.cons ∧ (stepDrainer x).s.K = x.s.K ∧
    (stepDrainer x).s.h = x.s.h ∧ (stepDrainer x).s.n = x.s.n ∧ (stepDrainer x).s.cursor = x.s.cursor := by
  unfold stepDrainer
  cases hpc : x.dr.pc <;> simp only [hpc] <;> (repeat' split) <;> simp

/-- the handler clauses read `St` only through `cons`, `K`, `h`, `n` -/
theorem hcons_congr (W : List (Nat × Nat)) (sx sx' : St) (vcC lcH : Nat → Nat → VC) (hc : sx'.cons = sx.cons)
    (hK : sx'.K = sx.K) (hh : sx'.h = sx.h) (hn : sx'.n = sx.n) (h : HCons W sx vcC lcH) : HCons W sx' vcC lcH := by
  obtain ⟨n', K', h', bl', cur', isDone', mtx', woken', cons'⟩ := sx'
  simp only at hc hK hh hn
  subst hc hK hh hn
  exact ⟨h.1, h.2, h.3, h.4, h.5⟩

theorem hminv_drainer (o : Ords) (s : HMSt) (hH : HMInv s) : HMInv (stepMH o s .drainer) := by
  simp only [stepMH]
  obtain ⟨e1, e2, e3, e4, e5⟩ := stepDrainer_s' s.x
  obtain ⟨f1, f2, f3, f4, f5, f6, _, _⟩ := stepDrainer_frame s.x
  refine ⟨?_, ?_, ?_, ?_⟩
  · show HCons (stepDrainer s.x).written (stepDrainer s.x).s s.vcC s.lcH
    rw [f6]; exact hcons_congr _ s.x.s _ _ _ e1 e2 e3 e4 hH.hc
  · exact hloc_congr s.x _ _ _ _ f1 f2 f3 f4 f5 f6 e5 e4 e2 e3 hH.hl
  · exact hwr_congr s.x _ _ f1 f2 f6 e4 e2 e3 hH.hw
  · have hZ := hH.hz
    have hd : Dom (ow s) (oh s) (drainV o s) := by
      cases hpc : s.x.dr.pc <;> simp only [drainV, hpc] <;> (try split) <;>
        first | exact hZ.dD | exact dom_load _ hZ.dD hZ.dCur | exact dom_load _ hZ.dD (hZ.dH _ _)
    exact ⟨hZ.dCur, hZ.dHw, hZ.dLw, hZ.dH, hZ.dB, hZ.dW, hZ.dC, hd⟩

end RingMultiHB
