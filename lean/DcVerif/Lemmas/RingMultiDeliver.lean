import DcVerif.Lemmas.RingMultiLiveInv
import DcVerif.Lemmas.RingMultiPay
/-!
# Complete delivery after `drain` — pipelines fed by the multi-producer sequencer, any number of writers, every schedule

`MultiProducerSequencer::drain` reads the cursor **once** (`readCur`) and waits until every gating sequence (the cursors of
the last stage) has reached that value. It runs after the join of the writer threads, so nothing moves the cursor any more:
the value it read *is* the final cursor. `DDel` is the inductive invariant that says so, together with the bookkeeping of the
`get_min_cursor_sequence` loop of `drain` as a *lower bound* of the gating cursors (the liveness files only keep its
termination measure). Consequence (`drained_all_caught_up`): from the moment the wait loop of `drain` has exited, every
handler's published cursor equals the producer cursor, no handler is inside a batch, and every handler's log is `1 … cursor`.

Nothing here needs the ring size to be a power of two: the release protocol (bitmap) only decides *how far* the cursor gets,
not what happens below it.
-/
namespace RingMulti
open Ring

/-- pcs of the draining thread after the exit of `drain`'s wait loop -/
def dDrained : DPc → Bool
  | .setDone | .eLock | .eNotify | .eUnlock | .done => true
  | _ => false

theorem dAfterSet_drained {pc : DPc} (h : dAfterSet pc = true) : dDrained pc = true := by
  cases pc <;> simp_all [dAfterSet, dDrained]

/-- the draining thread, safety side: the value it waits for is the (final) cursor; its running minimum is a lower bound of
the gating cursors it has loaded; once the wait loop has exited every gating cursor has reached the cursor -/
structure DDel (x : MSt) : Prop where
  curEq   : x.dr.pc ≠ .waitJoin → x.dr.pc ≠ .readCur → x.dr.current = x.s.cursor
  accLe   : x.dr.pc = .drainLoad → ∀ m, x.dr.acc = some m → ∀ d, d < x.dr.idx → m ≤ gate x.s d
  minLe   : x.dr.pc = .drainCheck → ∀ d, d < ngate x.s → x.dr.min ≤ gate x.s d
  drained : dDrained x.dr.pc = true → ∀ d, d < ngate x.s → x.dr.current ≤ gate x.s d

theorem ddel_init (n K : Nat) (h : Nat → Nat) (bl : Bool) (batches : List (List Nat)) : DDel (mkM n K h bl batches) := by
  constructor <;> simp [mkM, dDrained]

/-- the draining thread's own step -/
theorem ddel_stepDrainer (x : MSt) (hpos : 0 < ngate x.s) (hD : DInv x) (h : DDel x) : DDel (stepDrainer x) := by
  obtain ⟨h1, h2, h3, h4⟩ := h
  have hng := (stepDrainer_gate x).1
  have hg := (stepDrainer_gate x).2
  have hcur := (stepDrainer_frame2 x).2.2.2.2.2.1
  constructor
  · -- the value waited for is the cursor
    intro n1 n2; rw [hcur]; revert n1 n2
    unfold stepDrainer
    cases hpc : x.dr.pc <;> simp only [hpc] <;> (repeat' split) <;> simp_all
  · -- running minimum
    intro hp m hm d hd; rw [hg]; revert hp hm hd
    unfold stepDrainer
    cases hpc : x.dr.pc <;> simp only [hpc] <;> (repeat' split) <;> intro hp hm hd <;> (try cases hp) <;>
      first
      | exact absurd hd (Nat.not_lt_zero _)
      | exact load_step_accLe x.s x.dr.acc x.dr.idx (h2 hpc) (hD.accSome hpc) m hm d hd
      | (rw [hpc] at hp; cases hp)
  · -- the minimum of a completed load loop
    intro hp d hd; rw [hg]; rw [hng] at hd; revert hp
    unfold stepDrainer
    cases hpc : x.dr.pc <;> simp only [hpc] <;> (repeat' split) <;> intro hp <;> (try cases hp) <;>
      first
      | exact load_done_le x.s x.dr.acc x.dr.idx (h2 hpc) (hD.accSome hpc) (by have := hD.idxLe hpc; omega) hpos d hd
      | (rw [hpc] at hp; cases hp)
  · -- after the loop
    intro hp d hd; rw [hg]; rw [hng] at hd; revert hp
    unfold stepDrainer
    cases hpc : x.dr.pc <;> simp only [hpc] <;> (repeat' split) <;> intro hp <;> (try cases hp) <;>
      first
      | exact h4 (by rw [hpc]; rfl) d hd
      | (have := h3 hpc d hd; show x.dr.current ≤ gate x.s d; omega)
      | (rw [hpc] at hp; cases hp)

/-- every step of every thread -/
theorem ddel_stepM (x : MSt) (t : MTid) (hG : GInv x) (h : DDel x) : DDel (stepM x t) := by
  cases t with
  | writer i =>
    by_cases hw : x.dr.pc = .waitJoin
    · show DDel (if i < x.P then stepWriter x i else x)
      split
      · obtain ⟨_, _, _, _, _, _, edr, _⟩ := stepWriter_frame x i
        constructor <;> rw [edr] <;> intros <;> simp_all [dDrained]
      · exact h
    · rw [stepM_writer_done x i (hG.dr.joined hw)]; exact h
  | drainer =>
    exact ddel_stepDrainer x (ngate_pos x.s hG.good.2.1.1 hG.good.2.2) hG.dr h
  | cons k j =>
    show DDel (if k < x.s.K ∧ j < x.s.h k then { x with s := stepC x.s k j } else x)
    split
    · rename_i hkj
      have hm := gate_mono_stepC x.s k j hkj.1 hkj.2 hG.good.2.1
      have hn : ngate (stepC x.s k j) = ngate x.s := rfl
      refine ⟨h.curEq, ?_, ?_, ?_⟩
      · intro hp m hm' d hd; exact Nat.le_trans (h.accLe hp m hm' d hd) (hm d)
      · intro hp d hd; exact Nat.le_trans (h.minLe hp d (by rw [← hn]; exact hd)) (hm d)
      · intro hp d hd; exact Nat.le_trans (h.drained hp d (by rw [← hn]; exact hd)) (hm d)
    · exact h

theorem gddel_run (x : MSt) (sched : List MTid) (hG : GInv x) (h : DDel x) : DDel (runM x sched) := by
  unfold runM
  induction sched generalizing x with
  | nil => exact h
  | cons t ts ih => exact ih _ (ginv_stepM x t hG) (ddel_stepM x t hG h)

theorem mreachableWF_ddel {x : MSt} (hr : MReachableWF x) : DDel x := by
  obtain ⟨n, K, h, bl, bs, sched, hK, hh, hb, rfl⟩ := hr
  exact gddel_run _ sched (ginv_init n K h bl bs hK hh hb) (ddel_init n K h bl bs)

/-! ## consequences -/

/-- once the wait loop of `drain` has exited, every handler has caught up with the producer cursor: its published cursor
equals the cursor, it is not inside a batch, and it has been handed exactly `1 … cursor` -/
theorem drained_all_caught_up (x : MSt) (hG : MGood x) (hD : DDel x) (hd : dDrained x.dr.pc = true)
    (k j : Nat) (hk : k < x.s.K) (hj : j < x.s.h k) :
    (x.s.cons k j).cur = x.s.cursor ∧ (x.s.cons k j).pc ≠ .handle ∧ (x.s.cons k j).pc ≠ .publish ∧
    (x.s.cons k j).log = List.range' 1 x.s.cursor := by
  obtain ⟨_, hI, hK⟩ := hG
  have hne1 : x.dr.pc ≠ .waitJoin := by intro e; rw [e] at hd; cases hd
  have hne2 : x.dr.pc ≠ .readCur := by intro e; rw [e] at hd; cases hd
  have hcur := hD.curEq hne1 hne2
  have hlow := below_all x.s hI hK x.dr.current (hD.drained hd) (x.s.K - 1 - k) k j (by omega) hj
  have hup := chain_up x.s hI k j hk hj
  have hci := hI.2 k j hk hj
  have heq : (x.s.cons k j).cur = x.s.cursor := by omega
  have hnh : (x.s.cons k j).pc ≠ .handle := by
    intro hp
    have := hci.curAvail (by simp [hp])
    have := avail_le_cursor x.s hI k j hk hj (by simp [hp])
    omega
  have hnp : (x.s.cons k j).pc ≠ .publish := by
    intro hp
    have := hci.curAvail (by simp [hp])
    have := avail_le_cursor x.s hI k j hk hj (by simp [hp])
    omega
  exact ⟨heq, hnh, hnp, by rw [hci.logO hnh hnp, heq]⟩

/-- a handler thread only terminates after `drain` has left its wait loop (it exits on `is_done`, which `drain` sets after
the loop) -/
theorem drained_of_cons_done (x : MSt) (hX : XInv x) (k j : Nat) (hk : k < x.s.K) (hj : j < x.s.h k)
    (hc : (x.s.cons k j).pc = .done) : dDrained x.dr.pc = true :=
  dAfterSet_drained (hX.doneIff.1 (hX.consDone k j hk hj (Or.inl hc)))

/-! ## every sequence is written at most once (system level, without the payload layer) -/

open RingMultiPay in
theorem mreachableWF_once {x : MSt} (hr : MReachableWF x) (e : Nat) (hn : x.s.n = 2 ^ e) : MOnce x := by
  obtain ⟨n, K, h, bl, bs, sched, hK, hh, hb, rfl⟩ := hr
  have hn' : n = 2 ^ e := by rw [runM_n] at hn; exact hn
  subst hn'
  clear hn
  have hS := msafe_init e K h bl bs hK hh hb
  have hO : MOnce (mkM (2 ^ e) K h bl bs) := by
    refine ⟨by simp [mkM], ?_, ?_⟩ <;> (intro q i hq; simp [mkM] at hq)
  suffices H : ∀ (y : MSt), MSafe y → MOnce y → MOnce (runM y sched) from H _ hS hO
  unfold runM
  induction sched with
  | nil => intro y _ h; exact h
  | cons t ts ih => intro y hs ho; exact ih _ (msafe_stepM y t hs) (monce_stepM y t hs.2 ho)

end RingMulti
