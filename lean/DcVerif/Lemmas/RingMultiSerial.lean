import DcVerif.Lemmas.RingMultiSafe
/-!
The multi-producer sequencer under a *serialised, in-claim-order* publication discipline: a writer thread enters `publish`
(leaves its slot-write loop) only when no other `publish` call is in progress and it holds the lowest unpublished claim.
Under that discipline — and only the `publish` calls are constrained: claims, slot writes, consumers and the draining thread
interleave freely — every `publish` call releases exactly its own range, and once all writers are done the cursor equals the
highest claimed sequence. Both conditions are necessary: F7 (out of claim order) and F13 (in claim order but overlapping)
are the counterexamples (`Props/C14.lean`).
-/
namespace RingMulti
open Ring

theorem true_ne_false' : true ≠ false := fun h => Bool.noConfusion h

/-- program counters inside `publish` -/
def WPc.pub : WPc → Bool
  | .setBit | .readLw | .scan | .relCheck | .unsetBit | .casCur | .reloadCur | .setLw | .sLock | .sNotify | .sUnlock => true
  | _ => false

/-- the discipline, as a condition on one scheduling decision: if the step lets writer `i` leave its slot-write loop (i.e.
call `publish`), then no writer is inside `publish` and `i` holds the lowest claim among the writers that still hold one -/
def SerialStep (x : MSt) (t : MTid) : Prop :=
  ∀ i, t = .writer i → i < x.P → (x.wr i).pc = .write → (x.wr i).hi < (x.wr i).w →
    (∀ j, j < x.P → (x.wr j).pc.pub = false) ∧
    (∀ j, j < x.P → j ≠ i → (x.wr j).pc = .write → (x.wr i).lo < (x.wr j).lo)

def SerialSched (x : MSt) : List MTid → Prop
  | [] => True
  | t :: ts => SerialStep x t ∧ SerialSched (stepM x t) ts

/-- every set bit is the bit of a sequence in `[a, b)` -/
def BitsSub (n : Nat) (bm : Option Gen.BitMap.BitMap) (a b : Nat) : Prop :=
  ∀ q, bmIsSet bm q = true → ∃ q0, a ≤ q0 ∧ q0 < b ∧ q0 % n = q % n
/-- the bit of every sequence in `[a, b)` is set -/
def BitsSup (bm : Option Gen.BitMap.BitMap) (a b : Nat) : Prop := ∀ q0, a ≤ q0 → q0 < b → bmIsSet bm q0 = true
def Clear (bm : Option Gen.BitMap.BitMap) : Prop := ∀ q, bmIsSet bm q = false

/-- every claimed sequence above `c` is held by a writer that is still in its slot-write loop -/
def Cover (x : MSt) (c : Nat) : Prop :=
  ∀ q, c < q → q ≤ x.hw → ∃ j, j < x.P ∧ (x.wr j).pc = .write ∧ (x.wr j).lo ≤ q ∧ q ≤ (x.wr j).hi

/-! ### bitmap facts -/

theorem bits_set {n : Nat} {bm : Option Gen.BitMap.BitMap} (h : BmOk n bm) (a b : Nat) (hab : a ≤ b)
    (h1 : BitsSub n bm a b) (h2 : BitsSup bm a b) :
    BitsSub n (bmApply bm (fun m => Gen.BitMap.set m b)) a (b + 1) ∧ BitsSup (bmApply bm (fun m => Gen.BitMap.set m b)) a (b + 1) := by
  obtain ⟨_, hs⟩ := bm_set h b
  constructor
  · intro q hq
    rw [hs q] at hq
    by_cases hr : b % n = q % n
    · exact ⟨b, hab, by omega, hr⟩
    · rw [if_neg hr] at hq
      obtain ⟨q0, p1, p2, p3⟩ := h1 q hq
      exact ⟨q0, p1, by omega, p3⟩
  · intro q0 p1 p2
    rw [hs q0]
    by_cases hr : b % n = q0 % n
    · rw [if_pos hr]
    · rw [if_neg hr]
      exact h2 q0 p1 (by
        rcases Nat.lt_or_ge q0 b with h' | h'
        · exact h'
        · have : q0 = b := by omega
          subst this; exact absurd rfl hr)

theorem bits_unset {n : Nat} {bm : Option Gen.BitMap.BitMap} (h : BmOk n bm) (u lo b : Nat)
    (h1 : BitsSub n bm (max u lo) b) : BitsSub n (bmApply bm (fun m => Gen.BitMap.unset m u)) (max (u + 1) lo) b := by
  obtain ⟨_, hs⟩ := bm_unset h u
  intro q hq
  rw [hs q] at hq
  by_cases hr : u % n = q % n
  · rw [if_pos hr] at hq; exact absurd hq (by simp)
  · rw [if_neg hr] at hq
    obtain ⟨q0, p1, p2, p3⟩ := h1 q hq
    refine ⟨q0, ?_, p2, p3⟩
    have : q0 ≠ u := by intro e; subst e; exact hr p3
    omega

theorem bits_empty {n : Nat} {bm : Option Gen.BitMap.BitMap} (a b : Nat) (hab : b ≤ a) (h1 : BitsSub n bm a b) : Clear bm := by
  intro q
  cases hq : bmIsSet bm q with
  | false => rfl
  | true => obtain ⟨q0, p1, p2, _⟩ := h1 q hq; omega

theorem clear_sub {n : Nat} {bm : Option Gen.BitMap.BitMap} (a b : Nat) (h : Clear bm) : BitsSub n bm a b := by
  intro q hq; rw [h q] at hq; exact absurd hq (by simp)

/-! ### the invariant -/

/-- what holds while a writer is inside `publish` under the discipline -/
structure ActG (n cursor lw : Nat) (bm : Option Gen.BitMap.BitMap) (cov : Nat → Prop) (w : Writer) : Prop where
  lohi  : 1 ≤ w.lo ∧ w.lo ≤ w.hi
  cover : cov w.hi
  pre   : (w.pc = .setBit ∨ w.pc = .readLw ∨ w.pc = .scan ∨ w.pc = .relCheck ∨ w.pc = .unsetBit ∨ w.pc = .casCur) →
            cursor + 1 = w.lo ∧ lw = cursor
  lws   : (w.pc = .scan ∨ w.pc = .relCheck ∨ w.pc = .unsetBit ∨ w.pc = .casCur ∨ w.pc = .setLw) → w.lwSeen + 1 = w.lo
  setb  : w.pc = .setBit → w.lo ≤ w.nbit ∧ w.nbit ≤ w.hi + 1 ∧ BitsSub n bm w.lo w.nbit ∧ BitsSup bm w.lo w.nbit
  full  : (w.pc = .readLw ∨ w.pc = .scan ∨ w.pc = .relCheck) → BitsSub n bm w.lo (w.hi + 1) ∧ BitsSup bm w.lo (w.hi + 1)
  scn   : w.pc = .scan → w.lwSeen ≤ w.good ∧ w.good ≤ w.hi
  gd    : (w.pc = .relCheck ∨ w.pc = .unsetBit ∨ w.pc = .casCur ∨ w.pc = .setLw) → w.good = w.hi
  uns   : w.pc = .unsetBit → w.lwSeen ≤ w.u ∧ BitsSub n bm (max w.u w.lo) (w.hi + 1)
  cas   : w.pc = .casCur → w.cur = w.lwSeen ∧ Clear bm
  nore  : w.pc ≠ .reloadCur
  post  : (w.pc = .setLw ∨ w.pc = .sLock ∨ w.pc = .sNotify ∨ w.pc = .sUnlock) → cursor = w.hi ∧ Clear bm
  postLw: (w.pc = .sLock ∨ w.pc = .sNotify ∨ w.pc = .sUnlock) → lw = w.hi

def Act (x : MSt) (w : Writer) : Prop := ActG x.s.n x.s.cursor x.lw x.bm (Cover x) w

structure Ser (x : MSt) : Prop where
  one  : ∀ i j, i < x.P → j < x.P → (x.wr i).pc.pub = true → (x.wr j).pc.pub = true → i = j
  idle : (∀ j, j < x.P → (x.wr j).pc.pub = false) → x.lw = x.s.cursor ∧ Clear x.bm ∧ Cover x x.s.cursor
  act  : ∀ i, i < x.P → (x.wr i).pc.pub = true → Act x (x.wr i)
  wlo  : ∀ i, i < x.P → (x.wr i).pc = .write → (x.wr i).lo ≤ (x.wr i).hi

/-! ### the step of the writer that is inside `publish` -/

theorem act_own1 (x : MSt) (i : Nat) (hb : BmOk x.s.n x.bm) (hp : (x.wr i).pc.pub = true) (h : Act x (x.wr i))
    (hp' : ((stepWriter x i).wr i).pc.pub = true) :
    ActG x.s.n (stepWriter x i).s.cursor (stepWriter x i).lw (stepWriter x i).bm (Cover x) ((stepWriter x i).wr i) := by
  obtain ⟨a1, a2, a3, a4, a5, a6, a7, a8, a9, a10, a11, a12, a13⟩ := h
  have f1 := bits_set hb (x.wr i).lo (x.wr i).nbit
  have f2 : ¬ (x.wr i).nbit ≤ (x.wr i).hi → (x.wr i).nbit ≤ (x.wr i).hi + 1 → (x.wr i).nbit = (x.wr i).hi + 1 := by omega
  have f3 : BitsSup x.bm (x.wr i).lo ((x.wr i).hi + 1) → (x.wr i).lo ≤ (x.wr i).good + 1 → (x.wr i).good < (x.wr i).hi →
      bmIsSet x.bm ((x.wr i).good + 1) = true := fun h1 h2 h3 => h1 _ h2 (by omega)
  have f4 : (x.wr i).lwSeen + 1 = (x.wr i).lo → max (x.wr i).lwSeen (x.wr i).lo = (x.wr i).lo := by omega
  have f5 := bits_unset hb (x.wr i).u (x.wr i).lo ((x.wr i).hi + 1)
  have f6 : ¬ (x.wr i).u ≤ (x.wr i).hi → BitsSub x.s.n x.bm (max (x.wr i).u (x.wr i).lo) ((x.wr i).hi + 1) → Clear x.bm :=
    fun h1 h2 => bits_empty _ _ (by omega) h2
  revert hp'
  unfold stepWriter
  cases hpc : (x.wr i).pc <;> (try (rw [hpc] at hp; exact absurd hp Bool.false_ne_true)) <;> simp only [hpc] <;>
    (repeat' split) <;> (try simp only [updW_same]) <;> intro hp' <;>
    (try (exact absurd hp' Bool.false_ne_true)) <;> constructor <;> grind

/-- … and when it returns from `publish`: the cursor and the low watermark are both its `hi`, the bitmap is clear -/
theorem act_leave (x : MSt) (i : Nat) (hp : (x.wr i).pc.pub = true) (h : Act x (x.wr i))
    (hp' : ((stepWriter x i).wr i).pc.pub = false) :
    (stepWriter x i).lw = (stepWriter x i).s.cursor ∧ Clear (stepWriter x i).bm ∧
    (stepWriter x i).s.cursor = (x.wr i).hi ∧ ((stepWriter x i).wr i).pc ≠ .write := by
  obtain ⟨a1, a2, a3, a4, a5, a6, a7, a8, a9, a10, a11, a12, a13⟩ := h
  revert hp'
  unfold stepWriter
  cases hpc : (x.wr i).pc <;> (try (rw [hpc] at hp; exact absurd hp Bool.false_ne_true)) <;> simp only [hpc] <;>
    (repeat' split) <;> (try simp only [updW_same]) <;> intro hp' <;>
    (try (exact absurd hp' true_ne_false')) <;> (try (rw [hpc] at hp'; exact absurd hp' true_ne_false')) <;> grind

/-- steps of the writer inside `publish` leave the high watermark and the other writers alone: `Cover` is kept -/
theorem cover_own (x : MSt) (i : Nat) (hp : (x.wr i).pc.pub = true) (c : Nat) (h : Cover x c) : Cover (stepWriter x i) c := by
  have hhw : (stepWriter x i).hw = x.hw := by
    rcases stepWriter_hw x i with e | ⟨e, _⟩
    · exact e
    · rw [e] at hp; exact absurd hp Bool.false_ne_true
  intro q h1 h2
  rw [hhw] at h2
  obtain ⟨j, hj, p1, p2⟩ := h q h1 h2
  have hne : j ≠ i := by intro e; subst e; rw [p1] at hp; exact absurd hp Bool.false_ne_true
  exact ⟨j, by rw [stepWriter_P]; exact hj, by rw [stepWriter_others x i j hne]; exact ⟨p1, p2⟩⟩

/-! ### the step of a writer that is outside `publish` -/

theorem outside_frame (x : MSt) (j : Nat) (hp : (x.wr j).pc.pub = false) :
    (stepWriter x j).lw = x.lw ∧ (stepWriter x j).s.cursor = x.s.cursor ∧ (stepWriter x j).bm = x.bm := by
  refine ⟨?_, ?_, ?_⟩
  · rcases stepWriter_lw x j with e | ⟨e, _⟩
    · exact e
    · rw [e] at hp; exact absurd hp true_ne_false'
  · rcases stepWriter_cursor x j with e | ⟨e, _⟩
    · exact e
    · rw [e] at hp; exact absurd hp true_ne_false'
  · rcases stepWriter_bm x j with e | ⟨e, _⟩ | ⟨e, _⟩
    · exact e
    · rw [e] at hp; exact absurd hp true_ne_false'
    · rw [e] at hp; exact absurd hp true_ne_false'

/-- the claim held by a writer in its slot-write loop survives its own step unless that step ends the loop; a fresh claim is
held by its claimant -/
theorem holder_step (x : MSt) (j : Nat) (hstay : ((stepWriter x j).wr j).pc.pub = false) :
    ((x.wr j).pc = .write → ((stepWriter x j).wr j).pc = .write ∧ ((stepWriter x j).wr j).lo = (x.wr j).lo ∧
      ((stepWriter x j).wr j).hi = (x.wr j).hi) ∧
    (∀ q, x.hw < q → q ≤ (stepWriter x j).hw → ((stepWriter x j).wr j).pc = .write ∧ ((stepWriter x j).wr j).lo ≤ q ∧
      q ≤ ((stepWriter x j).wr j).hi) := by
  revert hstay
  unfold stepWriter
  cases hpc : (x.wr j).pc <;> simp only [hpc] <;> (repeat' split) <;> (try simp only [updW_same]) <;> intro hstay <;>
    (try (exact absurd hstay true_ne_false')) <;> grind

theorem cover_outside (x : MSt) (j : Nat) (hj : j < x.P) (hstay : ((stepWriter x j).wr j).pc.pub = false)
    (c : Nat) (h : Cover x c) : Cover (stepWriter x j) c := by
  obtain ⟨g1, g2⟩ := holder_step x j hstay
  intro q h1 h2
  rw [stepWriter_P]
  by_cases hq : q ≤ x.hw
  · obtain ⟨a, ha, p1, p2⟩ := h q h1 hq
    by_cases he : a = j
    · subst he
      obtain ⟨e1, e2, e3⟩ := g1 p1
      exact ⟨a, ha, e1, by rw [e2, e3]; exact p2⟩
    · exact ⟨a, ha, by rw [stepWriter_others x j a he]; exact ⟨p1, p2⟩⟩
  · exact ⟨j, hj, g2 q (by omega) h2⟩

/-- entering `publish`: the state of the writer right after it left its slot-write loop -/
theorem enter_state (x : MSt) (j : Nat) (hp : (x.wr j).pc.pub = false) (hp' : ((stepWriter x j).wr j).pc.pub = true) :
    (x.wr j).pc = .write ∧ (x.wr j).hi < (x.wr j).w ∧ ((stepWriter x j).wr j).pc = .setBit ∧
    ((stepWriter x j).wr j).nbit = (x.wr j).lo ∧ ((stepWriter x j).wr j).lo = (x.wr j).lo ∧
    ((stepWriter x j).wr j).hi = (x.wr j).hi ∧ (stepWriter x j).hw = x.hw := by
  revert hp'
  unfold stepWriter
  cases hpc : (x.wr j).pc <;> (try (rw [hpc] at hp; exact absurd hp true_ne_false')) <;> simp only [hpc] <;>
    (repeat' split) <;> (try simp only [updW_same]) <;> intro hp' <;>
    (try (exact absurd hp' Bool.false_ne_true)) <;> grind

theorem wlo_step (x : MSt) (j : Nat) (hw : WInv (x.wr j)) (h : (x.wr j).pc = .write → (x.wr j).lo ≤ (x.wr j).hi)
    (hp : ((stepWriter x j).wr j).pc = .write) : ((stepWriter x j).wr j).lo ≤ ((stepWriter x j).wr j).hi := by
  have := hw.cntPos
  revert hp
  unfold stepWriter
  cases hpc : (x.wr j).pc <;> simp only [hpc] <;> (repeat' split) <;> (try simp only [updW_same]) <;> grind

theorem actG_mono {n c l : Nat} {bm : Option Gen.BitMap.BitMap} {cov cov' : Nat → Prop} {w : Writer}
    (h : ActG n c l bm cov w) (hc : cov w.hi → cov' w.hi) : ActG n c l bm cov' w :=
  ⟨h.1, hc h.2, h.3, h.4, h.5, h.6, h.7, h.8, h.9, h.10, h.11, h.12, h.13⟩

theorem pub_ne_write {pc : WPc} (h : pc.pub = true) : pc ≠ .write := by
  intro e; subst e; exact absurd h Bool.false_ne_true

/-! ### one step of a writer preserves `Ser` (given the safety invariant and the discipline) -/

theorem ser_stepWriter (x : MSt) (i : Nat) (hi : i < x.P) (hs : MSafe x) (h : Ser x) (hg : SerialStep x (.writer i)) :
    Ser (stepWriter x i) := by
  have hoth : ∀ j, j ≠ i → (stepWriter x i).wr j = x.wr j := fun j hj => stepWriter_others x i j hj
  have hn := (stepWriter_s x i).2.2.2
  have hP := stepWriter_P x i
  by_cases hp : (x.wr i).pc.pub = true
  · -- the writer inside `publish` steps
    have hsolo : ∀ j, j < x.P → j ≠ i → (x.wr j).pc.pub = false := by
      intro j hj hne
      cases hq : (x.wr j).pc.pub with
      | false => rfl
      | true => exact absurd (h.one j i hj hi hq hp) hne
    have hact := h.act i hi hp
    by_cases hp' : ((stepWriter x i).wr i).pc.pub = true
    · have hnew : Act (stepWriter x i) ((stepWriter x i).wr i) := by
        have := act_own1 x i hs.2.bmOk hp hact hp'
        unfold Act; rw [hn]
        exact actG_mono this (cover_own x i hp _)
      refine ⟨?_, ?_, ?_, ?_⟩
      · intro a b ha hb pa pb
        rw [hP] at ha hb
        have ea : a = i := by
          apply Classical.byContradiction; intro hne
          rw [hoth a hne, hsolo a ha hne] at pa; exact absurd pa Bool.false_ne_true
        have eb : b = i := by
          apply Classical.byContradiction; intro hne
          rw [hoth b hne, hsolo b hb hne] at pb; exact absurd pb Bool.false_ne_true
        omega
      · intro hall
        have := hall i (by rw [hP]; exact hi)
        rw [hp'] at this; exact absurd this true_ne_false'
      · intro a ha pa
        rw [hP] at ha
        have ea : a = i := by
          apply Classical.byContradiction; intro hne
          rw [hoth a hne, hsolo a ha hne] at pa; exact absurd pa Bool.false_ne_true
        subst ea; exact hnew
      · intro a ha pa
        rw [hP] at ha
        have hne : a ≠ i := by intro e; subst e; exact pub_ne_write hp' pa
        rw [hoth a hne] at pa ⊢; exact h.wlo a ha pa
    · have hp'' : ((stepWriter x i).wr i).pc.pub = false := by
        cases hq : ((stepWriter x i).wr i).pc.pub with
        | false => rfl
        | true => exact absurd hq hp'
      obtain ⟨l1, l2, l3, l4⟩ := act_leave x i hp hact hp''
      have hnone : ∀ a, a < x.P → ((stepWriter x i).wr a).pc.pub = false := by
        intro a ha
        by_cases hne : a = i
        · subst hne; exact hp''
        · rw [hoth a hne]; exact hsolo a ha hne
      refine ⟨?_, ?_, ?_, ?_⟩
      · intro a b ha hb pa pb
        rw [hP] at ha
        rw [hnone a ha] at pa; exact absurd pa Bool.false_ne_true
      · intro _
        refine ⟨l1, l2, ?_⟩
        rw [l3]; exact cover_own x i hp _ hact.cover
      · intro a ha pa
        rw [hP] at ha
        rw [hnone a ha] at pa; exact absurd pa Bool.false_ne_true
      · intro a ha pa
        rw [hP] at ha
        have hne : a ≠ i := by intro e; subst e; exact l4 pa
        rw [hoth a hne] at pa ⊢; exact h.wlo a ha pa
  · -- a writer outside `publish` steps
    have hp0 : (x.wr i).pc.pub = false := by
      cases hq : (x.wr i).pc.pub with
      | false => rfl
      | true => exact absurd hq hp
    obtain ⟨f1, f2, f3⟩ := outside_frame x i hp0
    by_cases hp' : ((stepWriter x i).wr i).pc.pub = true
    · -- it enters `publish`
      obtain ⟨e1, e2, e3, e4, e5, e6, e7⟩ := enter_state x i hp0 hp'
      obtain ⟨hq, hmin⟩ := hg i rfl hi e1 e2
      obtain ⟨i1, i2, i3⟩ := h.idle hq
      have hws := hs.2.ws i hi
      have hlo1 := hws.loPos (Or.inl e1)
      have hlohi := h.wlo i hi e1
      have hhi := hws.hiLe
      have hcurlt : x.s.cursor < (x.wr i).lo := by
        apply Nat.lt_of_not_le
        intro hle
        exact (hs.2.pref _ hlo1 hle).2.2 ⟨i, hi, Or.inl ⟨e1, Nat.le_refl _, hlohi⟩⟩
      have hcur : x.s.cursor + 1 = (x.wr i).lo := by
        obtain ⟨j, hj, p1, p2, p3⟩ := i3 (x.s.cursor + 1) (by omega) (by omega)
        by_cases hje : j = i
        · subst hje; omega
        · have := hmin j hj hje p1; omega
      have hcov : Cover (stepWriter x i) (x.wr i).hi := by
        intro q q1 q2
        rw [e7] at q2
        obtain ⟨j, hj, p1, p2, p3⟩ := i3 q (by omega) q2
        have hje : j ≠ i := by intro e; subst e; omega
        exact ⟨j, by rw [hP]; exact hj, by rw [hoth j hje]; exact ⟨p1, p2, p3⟩⟩
      have hb1 : BitsSub x.s.n x.bm (x.wr i).lo (x.wr i).lo := clear_sub _ _ i2
      have hb2 : BitsSup x.bm (x.wr i).lo (x.wr i).lo := fun q0 a b => by omega
      have hnew : Act (stepWriter x i) ((stepWriter x i).wr i) := by
        unfold Act; rw [hn, f1, f2, f3]
        constructor <;> grind
      refine ⟨?_, ?_, ?_, ?_⟩
      · intro a b ha hb pa pb
        rw [hP] at ha hb
        have ea : a = i := by
          apply Classical.byContradiction; intro hne
          rw [hoth a hne, hq a ha] at pa; exact absurd pa Bool.false_ne_true
        have eb : b = i := by
          apply Classical.byContradiction; intro hne
          rw [hoth b hne, hq b hb] at pb; exact absurd pb Bool.false_ne_true
        omega
      · intro hall
        have := hall i (by rw [hP]; exact hi)
        rw [hp'] at this; exact absurd this true_ne_false'
      · intro a ha pa
        rw [hP] at ha
        have ea : a = i := by
          apply Classical.byContradiction; intro hne
          rw [hoth a hne, hq a ha] at pa; exact absurd pa Bool.false_ne_true
        subst ea; exact hnew
      · intro a ha pa
        rw [hP] at ha
        have hne : a ≠ i := by intro e; subst e; rw [e3] at pa; exact absurd pa (by simp)
        rw [hoth a hne] at pa ⊢; exact h.wlo a ha pa
    · have hp'' : ((stepWriter x i).wr i).pc.pub = false := by
        cases hq : ((stepWriter x i).wr i).pc.pub with
        | false => rfl
        | true => exact absurd hq hp'
      refine ⟨?_, ?_, ?_, ?_⟩
      · intro a b ha hb pa pb
        rw [hP] at ha hb
        have na : a ≠ i := by intro e; subst e; rw [hp''] at pa; exact absurd pa Bool.false_ne_true
        have nb : b ≠ i := by intro e; subst e; rw [hp''] at pb; exact absurd pb Bool.false_ne_true
        rw [hoth a na] at pa; rw [hoth b nb] at pb
        exact h.one a b ha hb pa pb
      · intro hall
        have hq : ∀ j, j < x.P → (x.wr j).pc.pub = false := by
          intro j hj
          by_cases hje : j = i
          · subst hje; exact hp0
          · have := hall j (by rw [hP]; exact hj); rw [hoth j hje] at this; exact this
        obtain ⟨i1, i2, i3⟩ := h.idle hq
        rw [f1, f2, f3]
        exact ⟨i1, i2, cover_outside x i hi hp'' _ i3⟩
      · intro a ha pa
        rw [hP] at ha
        have na : a ≠ i := by intro e; subst e; rw [hp''] at pa; exact absurd pa Bool.false_ne_true
        rw [hoth a na] at pa ⊢
        have := h.act a ha pa
        unfold Act at this ⊢; rw [hn, f1, f2, f3]
        exact actG_mono this (cover_outside x i hi hp'' _)
      · intro a ha pa
        rw [hP] at ha
        by_cases hne : a = i
        · subst hne; exact wlo_step x a (hs.1.1.1.writers a ha) (h.wlo a ha) pa
        · rw [hoth a hne] at pa ⊢; exact h.wlo a ha pa

/-- `Ser` reads the state only through `P, wr, hw, lw, bm, s.cursor, s.n` -/
theorem ser_congr (x x' : MSt) (hP : x'.P = x.P) (hwr : x'.wr = x.wr) (hhw : x'.hw = x.hw) (hlw : x'.lw = x.lw)
    (hbm : x'.bm = x.bm) (hcur : x'.s.cursor = x.s.cursor) (hn : x'.s.n = x.s.n) (h : Ser x) : Ser x' := by
  obtain ⟨s', P', hw', lw', bm', wr', dr', written', ac'⟩ := x'
  obtain ⟨n', K', h', bl', cur', isDone', mtx', woken', cons'⟩ := s'
  simp only at hP hwr hhw hlw hbm hcur hn
  subst hP hwr hhw hlw hbm hcur hn
  exact ⟨h.1, h.2, h.3, h.4⟩

/-- safety invariant + serial-publication invariant -/
def SerAll (x : MSt) : Prop := MSafe x ∧ Ser x

theorem serAll_stepM (x : MSt) (t : MTid) (h : SerAll x) (hg : SerialStep x t) : SerAll (stepM x t) := by
  refine ⟨msafe_stepM x t h.1, ?_⟩
  cases t with
  | writer i =>
    show Ser (if i < x.P then stepWriter x i else x)
    split
    · rename_i hi; exact ser_stepWriter x i hi h.1 h.2 hg
    · exact h.2
  | drainer =>
    obtain ⟨h1, h2, h3, h4, h5, _, h7, h8⟩ := stepDrainer_frame x
    exact ser_congr x (stepDrainer x) h1 h2 h3 h4 h5 h7 h8 h.2
  | cons k j =>
    show Ser (if k < x.s.K ∧ j < x.s.h k then { x with s := stepC x.s k j } else x)
    split
    · exact ser_congr x _ rfl rfl rfl rfl rfl rfl rfl h.2
    · exact h.2

theorem serAll_run (x : MSt) (sched : List MTid) (h : SerAll x) (hg : SerialSched x sched) : SerAll (runM x sched) := by
  unfold runM
  induction sched generalizing x with
  | nil => exact h
  | cons t ts ih => exact ih _ (serAll_stepM x t h hg.1) hg.2

theorem serAll_init (k K : Nat) (hh : Nat → Nat) (blocking : Bool) (batches : List (List Nat))
    (hK : 0 < K) (hpos : ∀ j, j < K → 0 < hh j) (hb : ∀ l, l ∈ batches → ∀ b, b ∈ l → 1 ≤ b) :
    SerAll (mkM (2 ^ k) K hh blocking batches) := by
  refine ⟨msafe_init k K hh blocking batches hK hpos hb, ?_, ?_, ?_, ?_⟩
  · intro i j _ _ pi _; simp [mkM, WPc.pub] at pi
  · intro _
    refine ⟨rfl, ?_, ?_⟩
    · intro q
      show bmIsSet (some (Gen.BitMap.build (2 ^ k))) q = false
      rw [bmIsSet_eq (C19.inv_build k)]; rfl
    · intro q h1 h2; simp [mkM] at h2; omega
  · intro i _ pi; simp [mkM, WPc.pub] at pi
  · intro i _ pi; simp [mkM] at pi

/-- **serialised in-claim-order publication releases everything**: at every moment at which no `publish` call is in progress the
cursor equals the low watermark, the bitmap is clear, and every claimed sequence above the cursor is held by a writer that is
still in its slot-write loop; in particular, once all writer threads are done, the cursor equals the highest claimed sequence -/
theorem serial_cursor_eq_hw (x : MSt) (h : SerAll x) (hdone : ∀ i, i < x.P → (x.wr i).pc = .done) : x.s.cursor = x.hw := by
  obtain ⟨_, _, hc⟩ := h.2.idle (fun j hj => by rw [hdone j hj]; rfl)
  have hle : x.s.cursor ≤ x.hw := by
    rcases Nat.eq_zero_or_pos x.s.cursor with h0 | hp
    · omega
    · exact (h.1.2.pref _ hp (Nat.le_refl _)).2.1
  apply Nat.le_antisymm hle
  apply Nat.le_of_not_lt
  intro hlt
  obtain ⟨j, hj, p1, _⟩ := hc x.hw hlt (Nat.le_refl _)
  rw [hdone j hj] at p1
  exact absurd p1 (by simp)

/-- with a single writer thread every schedule obeys the discipline -/
theorem serialSched_of_single (x : MSt) (hP : x.P = 1) (sched : List MTid) : SerialSched x sched := by
  induction sched generalizing x with
  | nil => trivial
  | cons t ts ih =>
    refine ⟨?_, ih _ ?_⟩
    · intro i _ hi hpc _
      have hi0 : i = 0 := by omega
      subst hi0
      refine ⟨fun j hj => ?_, fun j hj hne => ?_⟩
      · have : j = 0 := by omega
        subst this; rw [hpc]; rfl
      · omega
    · cases t with
      | writer i => simp only [stepM]; split; rw [stepWriter_P]; exact hP; exact hP
      | drainer => rw [show (stepM x .drainer) = stepDrainer x from rfl, (stepDrainer_frame x).1]; exact hP
      | cons k j => simp only [stepM]; split <;> exact hP

/-! ### a decidable form of the discipline (for concrete schedules) -/

def SerialStepD (x : MSt) : MTid → Prop
  | .writer i => i < x.P → (x.wr i).pc = .write → (x.wr i).hi < (x.wr i).w →
      (∀ j, j < x.P → (x.wr j).pc.pub = false) ∧
      (∀ j, j < x.P → j ≠ i → (x.wr j).pc = .write → (x.wr i).lo < (x.wr j).lo)
  | _ => True

instance (x : MSt) (t : MTid) : Decidable (SerialStepD x t) := by
  cases t <;> unfold SerialStepD <;> infer_instance

def SerialSchedD (x : MSt) : List MTid → Prop
  | [] => True
  | t :: ts => SerialStepD x t ∧ SerialSchedD (stepM x t) ts

def decSerialSchedD : (x : MSt) → (sched : List MTid) → Decidable (SerialSchedD x sched)
  | _, [] => isTrue trivial
  | x, t :: ts =>
    match (inferInstance : Decidable (SerialStepD x t)), decSerialSchedD (stepM x t) ts with
    | isTrue a, isTrue b => isTrue ⟨a, b⟩
    | isFalse a, _ => isFalse (fun h => a h.1)
    | _, isFalse b => isFalse (fun h => b h.2)

instance (x : MSt) (sched : List MTid) : Decidable (SerialSchedD x sched) := decSerialSchedD x sched

theorem serialSched_of_D (x : MSt) (sched : List MTid) (h : SerialSchedD x sched) : SerialSched x sched := by
  induction sched generalizing x with
  | nil => trivial
  | cons t ts ih =>
    refine ⟨?_, ih _ h.2⟩
    intro i e
    subst e
    exact h.1

end RingMulti
