import DcVerif.Model.RingHB
import DcVerif.Lemmas.Ring
/-!
The ghost (vector-clock) invariant of `Model/RingHB.lean` and its preservation by every step of every thread — all
program points of both wait strategies — hence for **every schedule**, ring size, topology and batch list.

All clauses of `HInv` are of the form "clock entry ≥ local counter"; clocks only grow along a thread's own steps, a
location's clock is only replaced by its single writer's (larger) clock. The proofs are generic in the two orderings
`set` / `get` and need exactly the hypotheses `set.isRelease = true` and `get.isAcquire = true`; `Props/C05.lean`
discharges them for `Gen.Orderings.seqSet` / `seqGet` by evaluation, so weakening either ordering in the source
breaks that obligation.
-/
namespace RingHB
open Ring Gen.Orderings

def VC.le (a b : VC) : Prop := a.pw ≤ b.pw ∧ ∀ k j, a.ha k j ≤ b.ha k j

theorem Covers.mono {K : Nat} {h : Nat → Nat} {n : Nat} {v v' : VC} {k b b' : Nat}
    (hc : Covers K h n v k b) (hv : v.le v') (hb : b' ≤ b) : Covers K h n v' k b' := by
  obtain ⟨h1, h2, h3⟩ := hc
  obtain ⟨l1, l2⟩ := hv
  constructor
  · intro hb1; have := h1 (by omega); omega
  · intro k' j' hk hK hj; have := h2 k' j' hk hK hj; have := l2 k' j'; omega
  · intro k' j' hK hj; have := h3 k' j' hK hj; have := l2 k' j'; omega

theorem Covers.weaken {K : Nat} {h : Nat → Nat} {n : Nat} {v : VC} {k k' b : Nat}
    (hc : Covers K h n v k b) (hk : k' ≤ k) : Covers K h n v k' b :=
  ⟨hc.pw, fun a j ha hK hj => hc.prev a j (by omega) hK hj, hc.old⟩

theorem le_join_left (a b : VC) : a.le (a.join b) := ⟨Nat.le_max_left _ _, fun _ _ => Nat.le_max_left _ _⟩
theorem le_join_right (a b : VC) : b.le (a.join b) := ⟨Nat.le_max_right _ _, fun _ _ => Nat.le_max_right _ _⟩
theorem le_refl' (a : VC) : a.le a := ⟨Nat.le_refl _, fun _ _ => Nat.le_refl _⟩
theorem le_incH (a : VC) (k j : Nat) : a.le (a.incH k j) := by
  refine ⟨Nat.le_refl _, fun k' j' => ?_⟩
  simp only [VC.incH]; split <;> omega
theorem le_incP (a : VC) : a.le a.incP := ⟨Nat.le_succ _, fun _ _ => Nat.le_refl _⟩

/-- number of sequences handler state `c` has finished handling -/
def doneOf (c : Cons) : Nat :=
  match c.pc with | .handle => c.i - 1 | .publish => c.avail | _ => c.cur

/-- program points at which the handler's `avail` is a checked observation of its dependencies -/
def availPc (pc : CPc) : Prop := pc = .checkAvail ∨ pc = .bUnlockGo ∨ pc = .handle ∨ pc = .publish

/-- ghost invariant -/
structure HInv (s : HSt) : Prop where
  /-- the producer cursor's clock covers its value -/
  lCur : Covers s.x.s.K s.x.s.h s.x.s.n s.lcCur 0 s.x.s.cursor
  /-- a handler cursor's clock covers its value as seen from that handler's stage, and knows the owner's accesses up to it -/
  lH   : ∀ k j, k < s.x.s.K → j < s.x.s.h k →
           Covers s.x.s.K s.x.s.h s.x.s.n (s.lcH k j) k (s.x.s.cons k j).cur ∧ (s.x.s.cons k j).cur ≤ (s.lcH k j).ha k j
  /-- a handler's own entry = number of sequences it has handled -/
  cOwn : ∀ k j, k < s.x.s.K → j < s.x.s.h k → (s.vcC k j).ha k j = doneOf (s.x.s.cons k j)
  cCur : ∀ k j, k < s.x.s.K → j < s.x.s.h k → Covers s.x.s.K s.x.s.h s.x.s.n (s.vcC k j) k (s.x.s.cons k j).cur
  cAv  : ∀ k j, k < s.x.s.K → j < s.x.s.h k → availPc (s.x.s.cons k j).pc →
           Covers s.x.s.K s.x.s.h s.x.s.n (s.vcC k j) k (s.x.s.cons k j).avail
  /-- in the middle of `get_min_cursor_sequence`: the running minimum is covered for the dependencies already loaded -/
  cLd  : ∀ k j, k < s.x.s.K → j < s.x.s.h k → (s.x.s.cons k j).pc = .waitLoad →
           ∀ m, (s.x.s.cons k j).acc = some m →
             (0 < (s.x.s.cons k j).idx → Covers s.x.s.K s.x.s.h s.x.s.n (s.vcC k j) (k - 1) m) ∧
             (0 < k → ∀ d, d < (s.x.s.cons k j).idx → m ≤ (s.vcC k j).ha (k-1) d)
  pOwn : s.vcP.pw = if s.x.p.pc = .write then s.x.p.w else s.x.p.nextWrite
  pMin : ∀ k j, k < s.x.s.K → j < s.x.s.h k → s.x.p.min ≤ s.vcP.ha k j ∧ s.x.p.cached ≤ s.vcP.ha k j
  pLd  : (s.x.p.pc = .gateLoad ∨ s.x.p.pc = .drainLoad) → ∀ m, s.x.p.acc = some m →
           (0 < s.x.p.idx → ∀ k j, k < s.x.s.K - 1 → j < s.x.s.h k → m ≤ s.vcP.ha k j) ∧
           (∀ d, d < s.x.p.idx → m ≤ s.vcP.ha (s.x.s.K - 1) d)
  /-- nobody knows more about a thread's accesses than the thread itself -/
  zCur : s.lcCur.pw ≤ s.vcP.pw ∧ ∀ k j, s.lcCur.ha k j ≤ (s.vcC k j).ha k j
  zH   : ∀ a b, (s.lcH a b).pw ≤ s.vcP.pw ∧ ∀ k j, (s.lcH a b).ha k j ≤ (s.vcC k j).ha k j
  zC   : ∀ a b, (s.vcC a b).pw ≤ s.vcP.pw ∧ ∀ k j, (s.vcC a b).ha k j ≤ (s.vcC k j).ha k j
  zP   : ∀ k j, s.vcP.ha k j ≤ (s.vcC k j).ha k j

theorem raceFree_of_inv (s : HSt) (hP : PInvAll s.x) (hH : HInv s) : RaceFree s := by
  constructor
  · intro k j hk hj hpc hi
    exact (hH.cAv k j hk hj (by simp [availPc, hpc])).mono (le_refl' _) hi
  · intro hpc hw k j hk hj
    have := (hH.pMin k j hk hj).1
    have := (hP.2.2.1.wr (by simp [hpc])).2.2.2.1
    omega

theorem stepH_x (set get : Ord) (s : HSt) (t : Tid) : (stepH set get s t).x = stepX s.x t := by
  cases t with
  | prod => rfl
  | cons k j => simp only [stepH, stepX]; split <;> rfl

theorem runH_x (set get : Ord) (s : HSt) (sched : List Tid) : (runH set get s sched).x = runX s.x sched := by
  unfold runH runX
  induction sched generalizing s with
  | nil => rfl
  | cons t ts ih => simp only [List.foldl_cons]; rw [ih, stepH_x]

@[simp] theorem updV_same (f : Nat → Nat → VC) (k j : Nat) (v : VC) : updV f k j v k j = v := by simp [updV]
theorem updV_other (f : Nat → Nat → VC) (k j k' j' : Nat) (v : VC) (h : ¬(k' = k ∧ j' = j)) :
    updV f k j v k' j' = f k' j' := by simp [updV, h]
@[simp] theorem upd_same (f : Nat → Nat → Cons) (k j : Nat) (c : Cons) : upd f k j c k j = c := by simp [upd]
theorem upd_other (f : Nat → Nat → Cons) (k j k' j' : Nat) (c : Cons) (h : ¬(k' = k ∧ j' = j)) :
    upd f k j c k' j' = f k' j' := by simp [upd, h]

/-- frame: replacing one handler record / one handler clock / its cursor's clock (and the mutex state, which no clause
mentions), everything about the *other* handlers and about the producer carries over when the new thread clock
dominates the old one. -/
theorem hinv_cons_frame (s : HSt) (k j : Nat) (hk : k < s.x.s.K) (hj : j < s.x.s.h k)
    (c' : Cons) (v' : VC) (l' : VC) (m' : Option Tid) (w' : Nat → Nat → Bool) (hH : HInv s)
    (hv : (s.vcC k j).le v')
    -- obligations about the stepping handler itself
    (hcur  : Covers s.x.s.K s.x.s.h s.x.s.n l' k c'.cur ∧ c'.cur ≤ l'.ha k j)
    (hown  : v'.ha k j = doneOf c')
    (hccur : Covers s.x.s.K s.x.s.h s.x.s.n v' k c'.cur)
    (hcav  : availPc c'.pc → Covers s.x.s.K s.x.s.h s.x.s.n v' k c'.avail)
    (hcld  : c'.pc = .waitLoad → ∀ m, c'.acc = some m →
               (0 < c'.idx → Covers s.x.s.K s.x.s.h s.x.s.n v' (k - 1) m) ∧ (0 < k → ∀ d, d < c'.idx → m ≤ v'.ha (k-1) d))
    -- owner-maximality of the new clocks
    (hzv : v'.pw ≤ s.vcP.pw ∧ ∀ a b, ¬(a = k ∧ b = j) → v'.ha a b ≤ (s.vcC a b).ha a b)
    (hzl : l'.pw ≤ s.vcP.pw ∧ (∀ a b, ¬(a = k ∧ b = j) → l'.ha a b ≤ (s.vcC a b).ha a b) ∧ l'.ha k j ≤ v'.ha k j) :
    HInv { s with x := { s.x with s := { s.x.s with cons := upd s.x.s.cons k j c', mtx := m', woken := w' } },
                  vcC := updV s.vcC k j v', lcH := updV s.lcH k j l' } := by
  obtain ⟨a1, a2, a3, a4, a5, a6, a7, a8, a9, z1, z2, z3, z4⟩ := hH
  have own_mono : (s.vcC k j).ha k j ≤ v'.ha k j := hv.2 k j
  constructor
  · exact a1
  · intro a b ha hb
    by_cases he : a = k ∧ b = j
    · obtain ⟨rfl, rfl⟩ := he; simpa using hcur
    · simp only [updV_other _ _ _ _ _ _ he, upd_other _ _ _ _ _ _ he]; exact a2 a b ha hb
  · intro a b ha hb
    by_cases he : a = k ∧ b = j
    · obtain ⟨rfl, rfl⟩ := he; simpa using hown
    · simp only [updV_other _ _ _ _ _ _ he, upd_other _ _ _ _ _ _ he]; exact a3 a b ha hb
  · intro a b ha hb
    by_cases he : a = k ∧ b = j
    · obtain ⟨rfl, rfl⟩ := he; simpa using hccur
    · simp only [updV_other _ _ _ _ _ _ he, upd_other _ _ _ _ _ _ he]; exact a4 a b ha hb
  · intro a b ha hb
    by_cases he : a = k ∧ b = j
    · obtain ⟨rfl, rfl⟩ := he; simpa using hcav
    · simp only [updV_other _ _ _ _ _ _ he, upd_other _ _ _ _ _ _ he]; exact a5 a b ha hb
  · intro a b ha hb
    by_cases he : a = k ∧ b = j
    · obtain ⟨rfl, rfl⟩ := he; simpa using hcld
    · simp only [updV_other _ _ _ _ _ _ he, upd_other _ _ _ _ _ _ he]; exact a6 a b ha hb
  · exact a7
  · exact a8
  · exact a9
  · -- zCur
    refine ⟨z1.1, fun a b => ?_⟩
    by_cases he : a = k ∧ b = j
    · obtain ⟨rfl, rfl⟩ := he; simp; exact Nat.le_trans (z1.2 a b) own_mono
    · simp only [updV_other _ _ _ _ _ _ he]; exact z1.2 a b
  · -- zH
    intro a b
    by_cases hab : a = k ∧ b = j
    · obtain ⟨rfl, rfl⟩ := hab
      simp only [updV_same]
      refine ⟨hzl.1, fun a' b' => ?_⟩
      by_cases he : a' = a ∧ b' = b
      · obtain ⟨rfl, rfl⟩ := he; simp; exact hzl.2.2
      · simp only [updV_other _ _ _ _ _ _ he]; exact hzl.2.1 a' b' he
    · simp only [updV_other _ _ _ _ _ _ hab]
      refine ⟨(z2 a b).1, fun a' b' => ?_⟩
      by_cases he : a' = k ∧ b' = j
      · obtain ⟨rfl, rfl⟩ := he; simp; exact Nat.le_trans ((z2 a b).2 a' b') own_mono
      · simp only [updV_other _ _ _ _ _ _ he]; exact (z2 a b).2 a' b'
  · -- zC
    intro a b
    by_cases hab : a = k ∧ b = j
    · obtain ⟨rfl, rfl⟩ := hab
      simp only [updV_same]
      refine ⟨hzv.1, fun a' b' => ?_⟩
      by_cases he : a' = a ∧ b' = b
      · obtain ⟨rfl, rfl⟩ := he; simp
      · simp only [updV_other _ _ _ _ _ _ he]; exact hzv.2 a' b' he
    · simp only [updV_other _ _ _ _ _ _ hab]
      refine ⟨(z3 a b).1, fun a' b' => ?_⟩
      by_cases he : a' = k ∧ b' = j
      · obtain ⟨rfl, rfl⟩ := he; simp; exact Nat.le_trans ((z3 a b).2 a' b') own_mono
      · simp only [updV_other _ _ _ _ _ _ he]; exact (z3 a b).2 a' b'
  · -- zP
    intro a b
    by_cases he : a = k ∧ b = j
    · obtain ⟨rfl, rfl⟩ := he; simp; exact Nat.le_trans (z4 a b) own_mono
    · simp only [updV_other _ _ _ _ _ _ he]; exact z4 a b

/-- a handler step that touches neither its clock nor its cursor (mutex / condvar / `is_done` operations, internal
branches): enough that `cur` and the number of handled sequences are unchanged, `avail` is kept wherever it is still
meaningful and a freshly entered load loop starts with an empty accumulator -/
theorem hinv_cons_quiet (s : HSt) (k j : Nat) (hk : k < s.x.s.K) (hj : j < s.x.s.h k)
    (c' : Cons) (m' : Option Tid) (w' : Nat → Nat → Bool) (hH : HInv s)
    (hcur : c'.cur = (s.x.s.cons k j).cur) (hdone : doneOf c' = doneOf (s.x.s.cons k j))
    (hav : availPc c'.pc → availPc (s.x.s.cons k j).pc ∧ c'.avail = (s.x.s.cons k j).avail)
    (hld : c'.pc = .waitLoad → c'.acc = none) :
    HInv { s with x := { s.x with s := { s.x.s with cons := upd s.x.s.cons k j c', mtx := m', woken := w' } },
                  vcC := updV s.vcC k j (s.vcC k j), lcH := updV s.lcH k j (s.lcH k j) } := by
  have z2 := hH.zH; have z3 := hH.zC
  refine hinv_cons_frame s k j hk hj c' _ _ m' w' hH (le_refl' _) ?_ ?_ ?_ ?_ ?_ ?_ ?_
  · rw [hcur]; exact hH.lH k j hk hj
  · rw [hdone]; exact hH.cOwn k j hk hj
  · rw [hcur]; exact hH.cCur k j hk hj
  · intro h; obtain ⟨h1, h2⟩ := hav h; rw [h2]; exact hH.cAv k j hk hj h1
  · intro h m hm; rw [hld h] at hm; cases hm
  · exact ⟨(z3 k j).1, fun a b _ => (z3 k j).2 a b⟩
  · exact ⟨(z2 k j).1, fun a b _ => (z2 k j).2 a b, (z2 k j).2 k j⟩

theorem covers_combine {K : Nat} {h : Nat → Nat} {n : Nat} {v : VC} {k m : Nat}
    (h1 : Covers K h n v (k - 1) m) (h2 : 0 < k → ∀ d, d < h (k-1) → m ≤ v.ha (k-1) d) :
    Covers K h n v k m := by
  refine ⟨h1.pw, ?_, h1.old⟩
  intro k' j' hk hK hj
  by_cases hlt : k' < k - 1
  · exact h1.prev k' j' hlt hK hj
  · have : k' = k - 1 := by omega
    subst this
    exact h2 (by omega) j' hj

/-- joining a location clock into a handler clock keeps "nobody knows more about a thread than the thread itself" -/
theorem join_owner (s : HSt) (k j : Nat) (ld : VC) (hH : HInv s)
    (hld : ld.pw ≤ s.vcP.pw ∧ ∀ a b, ld.ha a b ≤ (s.vcC a b).ha a b) :
    (((s.vcC k j).join ld).pw ≤ s.vcP.pw ∧
      ∀ a b, ¬(a = k ∧ b = j) → ((s.vcC k j).join ld).ha a b ≤ (s.vcC a b).ha a b) ∧
    ((s.lcH k j).pw ≤ s.vcP.pw ∧ (∀ a b, ¬(a = k ∧ b = j) → (s.lcH k j).ha a b ≤ (s.vcC a b).ha a b) ∧
      (s.lcH k j).ha k j ≤ ((s.vcC k j).join ld).ha k j) ∧
    ((s.vcC k j).join ld).ha k j = (s.vcC k j).ha k j := by
  have z2 := hH.zH; have z3 := hH.zC
  refine ⟨⟨?_, fun a b _ => ?_⟩, ⟨(z2 k j).1, fun a b _ => (z2 k j).2 a b, ?_⟩, ?_⟩
  · simp only [VC.join]; exact Nat.max_le.2 ⟨(z3 k j).1, hld.1⟩
  · simp only [VC.join]; exact Nat.max_le.2 ⟨(z3 k j).2 a b, hld.2 a b⟩
  · simp only [VC.join]; exact Nat.le_trans ((z2 k j).2 k j) (Nat.le_max_left _ _)
  · simp only [VC.join]; exact Nat.max_eq_left (hld.2 k j)

/-- a handler's step preserves the clock invariant (cursor stores Release, cursor loads Acquire) -/
theorem hinv_cons (set get : Ord) (hset : set.isRelease = true) (hget : get.isAcquire = true)
    (s : HSt) (k j : Nat) (hk : k < s.x.s.K) (hj : j < s.x.s.h k)
    (hP : PInvAll s.x) (hH : HInv s) : HInv (stepH set get s (.cons k j)) := by
  have hci := hP.1.2 k j hk hj
  have hpos := ndeps_pos s.x.s hP.1.1 k hk
  simp only [stepH, hk, hj, and_self, if_true, stepC]
  have b2 := hH.lH k j hk hj
  have b3 := hH.cOwn k j hk hj
  have b4 := hH.cCur k j hk hj
  have b5 := hH.cAv k j hk hj
  have b6 := hH.cLd k j hk hj
  have z1 := hH.zCur; have z2 := hH.zH; have z3 := hH.zC
  have cNext := hci.nextEq; have cIGe := hci.iGe; have cILe := hci.iLe
  have cIdx := hci.idxLe; have cSome := hci.accSome
  -- the clock of the dependency being loaded covers the loaded value
  have depCov : ∀ d, d < ndeps s.x.s k →
      Covers s.x.s.K s.x.s.h s.x.s.n (depClock s k d) (k - 1) (dep s.x.s k d) ∧
      (0 < k → dep s.x.s k d ≤ (depClock s k d).ha (k-1) d) := by
    intro d hd
    by_cases h0 : k = 0
    · subst h0; simp [dep, depClock]; exact hH.lCur
    · have hd' : d < s.x.s.h (k-1) := by simpa [ndeps, h0] using hd
      have := hH.lH (k-1) d (by omega) hd'
      simp [dep, depClock, h0]; exact ⟨this.1, fun _ => this.2⟩
  have depZ : ∀ d, (depClock s k d).pw ≤ s.vcP.pw ∧ ∀ a b, (depClock s k d).ha a b ≤ (s.vcC a b).ha a b := by
    intro d; unfold depClock; split
    · exact z1
    · exact z2 _ _
  -- facts reused by the cases in which the clocks do not change
  have zv0 : (s.vcC k j).pw ≤ s.vcP.pw ∧ ∀ a b, ¬(a = k ∧ b = j) → (s.vcC k j).ha a b ≤ (s.vcC a b).ha a b :=
    ⟨(z3 k j).1, fun a b _ => (z3 k j).2 a b⟩
  have zl0 : (s.lcH k j).pw ≤ s.vcP.pw ∧ (∀ a b, ¬(a = k ∧ b = j) → (s.lcH k j).ha a b ≤ (s.vcC a b).ha a b) ∧
      (s.lcH k j).ha k j ≤ (s.vcC k j).ha k j :=
    ⟨(z2 k j).1, fun a b _ => (z2 k j).2 a b, (z2 k j).2 k j⟩
  cases hpc : (s.x.s.cons k j).pc
  case readOwn =>
    -- `cursor.get()`: an acquire load of the handler's own cursor
    have e2 : consV get s k j = (s.vcC k j).join (s.lcH k j) := by simp [consV, hpc, loadClock, hget]
    have e3 : consL set s k j = s.lcH k j := by simp [consL, hpc]
    rw [e2, e3]
    obtain ⟨jz1, jz2, jz3⟩ := join_owner s k j (s.lcH k j) hH (z2 k j)
    have e1 : ∃ pc', (pc' = .bLock ∨ pc' = .waitLoad) ∧ stepCons s.x.s k j (s.x.s.cons k j) =
        { s.x.s.cons k j with next := (s.x.s.cons k j).cur + 1, pc := pc',
                              acc := if pc' = .waitLoad then none else (s.x.s.cons k j).acc,
                              idx := if pc' = .waitLoad then 0 else (s.x.s.cons k j).idx } := by
      cases hb : s.x.s.blocking
      · exact ⟨.waitLoad, by simp, by simp [stepCons, hpc, hb]⟩
      · exact ⟨.bLock, by simp, by simp [stepCons, hpc, hb]⟩
    obtain ⟨pc', hpc', e1⟩ := e1
    rw [e1]
    refine hinv_cons_frame s k j hk hj _ _ _ _ _ hH (le_join_left _ _) ?hcur ?hown ?hccur ?hcav ?hcld jz1 jz2
    case hcur => exact b2
    case hown => rw [jz3, b3]; rcases hpc' with h | h <;> simp [doneOf, hpc, h]
    case hccur => exact b4.mono (le_join_left _ _) (Nat.le_refl _)
    case hcav => rcases hpc' with h | h <;> simp [availPc, h]
    case hcld => intro h; simp only at h; simp [h]
  case waitLoad =>
    by_cases hlt : (s.x.s.cons k j).idx < ndeps s.x.s k
    · have e1 : stepCons s.x.s k j (s.x.s.cons k j) = { s.x.s.cons k j with acc := minOpt (s.x.s.cons k j).acc (dep s.x.s k (s.x.s.cons k j).idx), idx := (s.x.s.cons k j).idx + 1 } := by
        simp [stepCons, hpc, hlt]
      have e2 : consV get s k j = (s.vcC k j).join (depClock s k (s.x.s.cons k j).idx) := by
        simp [consV, hpc, hlt, loadClock, hget]
      have e3 : consL set s k j = s.lcH k j := by simp [consL, hpc]
      rw [e1, e2, e3]
      obtain ⟨dc1, dc2⟩ := depCov _ hlt
      obtain ⟨jz1, jz2, jz3⟩ := join_owner s k j (depClock s k (s.x.s.cons k j).idx) hH (depZ _)
      refine hinv_cons_frame s k j hk hj _ _ _ _ _ hH (le_join_left _ _) ?hcur ?hown ?hccur ?hcav ?hcld jz1 jz2
      case hcur => exact b2
      case hown => rw [jz3, b3]; simp [doneOf, hpc]
      case hccur => exact b4.mono (le_join_left _ _) (Nat.le_refl _)
      case hcav => simp [availPc, hpc]
      case hcld =>
        intro _ m hm
        have hle := minOpt_le _ _ _ hm
        constructor
        · intro _; exact dc1.mono (le_join_right _ _) hle.1
        · intro hk0 d hd
          by_cases hdi : d < (s.x.s.cons k j).idx
          · cases hacc : (s.x.s.cons k j).acc with
            | none => have := cSome hpc (by omega); simp [hacc] at this
            | some m0 =>
              have h1 := (b6 hpc m0 hacc).2 hk0 d hdi
              have h2 := hle.2 m0 hacc
              simp only [VC.join]; exact Nat.le_trans (Nat.le_trans h2 h1) (Nat.le_max_left _ _)
          · have hd' : d = (s.x.s.cons k j).idx := by simp at hd; omega
            subst hd'
            have h1 := dc2 hk0
            simp only [VC.join]; exact Nat.le_trans (Nat.le_trans hle.1 h1) (Nat.le_max_right _ _)
    · have e1 : stepCons s.x.s k j (s.x.s.cons k j) = { s.x.s.cons k j with avail := (s.x.s.cons k j).acc.getD 0, pc := .checkAvail } := by
        simp [stepCons, hpc, hlt]
      have e2 : consV get s k j = s.vcC k j := by simp [consV, hpc, hlt]
      have e3 : consL set s k j = s.lcH k j := by simp [consL, hpc]
      rw [e1, e2, e3]
      refine hinv_cons_frame s k j hk hj _ _ _ _ _ hH (le_refl' _) ?hcur ?hown ?hccur ?hcav ?hcld zv0 zl0
      case hcur => exact b2
      case hown => simpa [doneOf, hpc] using b3
      case hccur => exact b4
      case hcav =>
        intro _
        have hidx : (s.x.s.cons k j).idx = ndeps s.x.s k := by have := cIdx hpc; omega
        have hsome := cSome hpc (by omega)
        cases hacc : (s.x.s.cons k j).acc with
        | none => simp [hacc] at hsome
        | some m =>
          simp
          have := b6 hpc m hacc
          apply covers_combine (this.1 (by omega))
          intro hk0 d hd
          exact this.2 hk0 d (by rw [hidx]; simpa [ndeps, Nat.pos_iff_ne_zero.mp hk0] using hd)
      case hcld => simp
  case handle =>
    have e3 : consL set s k j = s.lcH k j := by simp [consL, hpc]
    by_cases hle : (s.x.s.cons k j).i ≤ (s.x.s.cons k j).avail
    · -- the slot access
      have e1 : stepCons s.x.s k j (s.x.s.cons k j) = { s.x.s.cons k j with log := (s.x.s.cons k j).log ++ [(s.x.s.cons k j).i], i := (s.x.s.cons k j).i + 1 } := by
        simp [stepCons, hpc, hle]
      have e2 : consV get s k j = (s.vcC k j).incH k j := by simp [consV, hpc, hle]
      rw [e1, e2, e3]
      refine hinv_cons_frame s k j hk hj _ _ _ _ _ hH (le_incH _ _ _) ?hcur ?hown ?hccur ?hcav ?hcld ?hzv ?hzl
      case hcur => exact b2
      case hown =>
        have h1 := cIGe hpc; have h2 := cNext (by simp [hpc])
        simp [doneOf, hpc, VC.incH] at b3 ⊢; omega
      case hccur => exact b4.mono (le_incH _ _ _) (Nat.le_refl _)
      case hcav => intro _; exact (b5 (by simp [availPc, hpc])).mono (le_incH _ _ _) (Nat.le_refl _)
      case hcld => simp [hpc]
      case hzv =>
        refine ⟨(z3 k j).1, fun a b hab => ?_⟩
        simp [VC.incH, hab]; exact (z3 k j).2 a b
      case hzl =>
        refine ⟨(z2 k j).1, fun a b _ => (z2 k j).2 a b, ?_⟩
        simp [VC.incH]; exact Nat.le_trans ((z2 k j).2 k j) (Nat.le_succ _)
    · have e1 : stepCons s.x.s k j (s.x.s.cons k j) = { s.x.s.cons k j with pc := .publish } := by
        simp [stepCons, hpc, hle]
      have e2 : consV get s k j = s.vcC k j := by simp [consV, hpc, hle]
      rw [e1, e2, e3]
      apply hinv_cons_quiet s k j hk hj _ _ _ hH
      · rfl
      · have := cILe hpc; simp [doneOf, hpc]; omega
      · intro _; exact ⟨by simp [availPc, hpc], rfl⟩
      · simp
  case publish =>
    -- `cursor.set(available)`: a release store of the handler's cursor
    have e2 : consV get s k j = s.vcC k j := by simp [consV, hpc]
    have e3 : consL set s k j = s.vcC k j := by simp [consL, hpc, storeClock, hset]
    rw [e2, e3]
    have hav := b5 (by simp [availPc, hpc])
    have hown : (s.vcC k j).ha k j = (s.x.s.cons k j).avail := by simpa [doneOf, hpc] using b3
    have e1 : ∃ pc', (pc' = .sLock ∨ pc' = .readOwn) ∧ stepCons s.x.s k j (s.x.s.cons k j) =
        { s.x.s.cons k j with cur := (s.x.s.cons k j).avail, pc := pc' } := by
      cases hb : s.x.s.blocking
      · exact ⟨.readOwn, by simp, by simp [stepCons, hpc, hb]⟩
      · exact ⟨.sLock, by simp, by simp [stepCons, hpc, hb]⟩
    obtain ⟨pc', hpc', e1⟩ := e1
    rw [e1]
    refine hinv_cons_frame s k j hk hj _ _ _ _ _ hH (le_refl' _) ?hcur ?hown ?hccur ?hcav ?hcld zv0 ?hzl
    case hcur => exact ⟨hav, Nat.le_of_eq hown.symm⟩
    case hown => rcases hpc' with h | h <;> simpa [doneOf, h] using hown
    case hccur => exact hav
    case hcav => rcases hpc' with h | h <;> simp [availPc, h]
    case hcld => rcases hpc' with h | h <;> simp [h]
    case hzl => exact ⟨(z3 k j).1, fun a b _ => (z3 k j).2 a b, Nat.le_refl _⟩
  -- every other program point moves the program counter only
  case checkAvail | bUnlockGo =>
    have e2 : consV get s k j = s.vcC k j := by simp [consV, hpc]
    have e3 : consL set s k j = s.lcH k j := by simp [consL, hpc]
    rw [e2, e3]
    have hn := cNext (by simp [hpc])
    apply hinv_cons_quiet s k j hk hj _ _ _ hH <;> simp only [stepCons, hpc] <;> (repeat' split) <;>
      simp_all [doneOf, availPc]
  all_goals
    have e2 : consV get s k j = s.vcC k j := by simp [consV, hpc]
    have e3 : consL set s k j = s.lcH k j := by simp [consL, hpc]
    rw [e2, e3]
    apply hinv_cons_quiet s k j hk hj _ _ _ hH <;> simp only [stepCons, hpc] <;> (repeat' split) <;>
      simp_all [doneOf, availPc]

/-! ## the producer -/

/-- frame for a producer step: everything about the handlers is untouched (the producer writes neither a handler
record nor a handler clock nor a handler cursor) -/
theorem hinv_prod_frame (s : HSt) (hH : HInv s) (vP lC : VC)
    (g1 : Covers s.x.s.K s.x.s.h s.x.s.n lC 0 (stepProd s.x).s.cursor)
    (g2 : vP.pw = if (stepProd s.x).p.pc = .write then (stepProd s.x).p.w else (stepProd s.x).p.nextWrite)
    (g3 : ∀ k j, k < s.x.s.K → j < s.x.s.h k → (stepProd s.x).p.min ≤ vP.ha k j ∧ (stepProd s.x).p.cached ≤ vP.ha k j)
    (g4 : ((stepProd s.x).p.pc = .gateLoad ∨ (stepProd s.x).p.pc = .drainLoad) → ∀ m, (stepProd s.x).p.acc = some m →
           (0 < (stepProd s.x).p.idx → ∀ k j, k < s.x.s.K - 1 → j < s.x.s.h k → m ≤ vP.ha k j) ∧
           (∀ d, d < (stepProd s.x).p.idx → m ≤ vP.ha (s.x.s.K - 1) d))
    (g5 : s.vcP.le vP) (g6 : ∀ k j, vP.ha k j ≤ (s.vcC k j).ha k j)
    (g7 : lC.pw ≤ vP.pw ∧ ∀ k j, lC.ha k j ≤ (s.vcC k j).ha k j) :
    HInv { s with x := stepProd s.x, vcP := vP, lcCur := lC } := by
  obtain ⟨a1, a2, a3, a4, a5, a6, a7, a8, a9, z1, z2, z3, z4⟩ := hH
  obtain ⟨ec, eK, eh, en, _⟩ := cons_same_prod s.x
  constructor
  · show Covers (stepProd s.x).s.K (stepProd s.x).s.h (stepProd s.x).s.n lC 0 (stepProd s.x).s.cursor
    rw [eK, eh, en]; exact g1
  · intro k j hk hj
    show Covers (stepProd s.x).s.K (stepProd s.x).s.h (stepProd s.x).s.n (s.lcH k j) k ((stepProd s.x).s.cons k j).cur ∧ _
    rw [eK, eh, en, ec]
    have hk' : k < s.x.s.K := by rw [← eK]; exact hk
    have hj' : j < s.x.s.h k := by rw [← eh]; exact hj
    exact a2 k j hk' hj'
  · intro k j hk hj
    show (s.vcC k j).ha k j = doneOf ((stepProd s.x).s.cons k j)
    rw [ec]; exact a3 k j (by rw [← eK]; exact hk) (by rw [← eh]; exact hj)
  · intro k j hk hj
    show Covers (stepProd s.x).s.K (stepProd s.x).s.h (stepProd s.x).s.n (s.vcC k j) k ((stepProd s.x).s.cons k j).cur
    rw [eK, eh, en, ec]; exact a4 k j (by rw [← eK]; exact hk) (by rw [← eh]; exact hj)
  · intro k j hk hj
    show availPc ((stepProd s.x).s.cons k j).pc →
      Covers (stepProd s.x).s.K (stepProd s.x).s.h (stepProd s.x).s.n (s.vcC k j) k ((stepProd s.x).s.cons k j).avail
    rw [eK, eh, en, ec]; exact a5 k j (by rw [← eK]; exact hk) (by rw [← eh]; exact hj)
  · intro k j hk hj
    show ((stepProd s.x).s.cons k j).pc = .waitLoad → ∀ m, ((stepProd s.x).s.cons k j).acc = some m →
      (0 < ((stepProd s.x).s.cons k j).idx → Covers (stepProd s.x).s.K (stepProd s.x).s.h (stepProd s.x).s.n (s.vcC k j) (k-1) m) ∧ _
    rw [eK, eh, en, ec]; exact a6 k j (by rw [← eK]; exact hk) (by rw [← eh]; exact hj)
  · exact g2
  · intro k j hk hj
    exact g3 k j (by rw [← eK]; exact hk) (by rw [← eh]; exact hj)
  · show ((stepProd s.x).p.pc = .gateLoad ∨ (stepProd s.x).p.pc = .drainLoad) → ∀ m, (stepProd s.x).p.acc = some m →
         (0 < (stepProd s.x).p.idx → ∀ k j, k < (stepProd s.x).s.K - 1 → j < (stepProd s.x).s.h k → m ≤ vP.ha k j) ∧
         (∀ d, d < (stepProd s.x).p.idx → m ≤ vP.ha ((stepProd s.x).s.K - 1) d)
    rw [eK, eh]; exact g4
  · exact g7
  · intro a b; exact ⟨Nat.le_trans (z2 a b).1 g5.1, (z2 a b).2⟩
  · intro a b; exact ⟨Nat.le_trans (z3 a b).1 g5.1, (z3 a b).2⟩
  · exact g6

/-- a producer step that touches neither its clock nor its cursor (mutex / condvar / `is_done` operations, internal
branches of `next` and `drain`) -/
theorem hinv_prod_quiet (s : HSt) (hH : HInv s)
    (hcur : (stepProd s.x).s.cursor = s.x.s.cursor)
    (hpw : (if (stepProd s.x).p.pc = .write then (stepProd s.x).p.w else (stepProd s.x).p.nextWrite) =
           (if s.x.p.pc = .write then s.x.p.w else s.x.p.nextWrite))
    (hmin : ((stepProd s.x).p.min = s.x.p.min ∨ (stepProd s.x).p.min = s.x.p.cached) ∧
            ((stepProd s.x).p.cached = s.x.p.cached ∨ (stepProd s.x).p.cached = s.x.p.min))
    (hacc : ((stepProd s.x).p.pc = .gateLoad ∨ (stepProd s.x).p.pc = .drainLoad) → (stepProd s.x).p.acc = none) :
    HInv { s with x := stepProd s.x, vcP := s.vcP, lcCur := s.lcCur } := by
  apply hinv_prod_frame s hH s.vcP s.lcCur
  · rw [hcur]; exact hH.lCur
  · rw [hpw]; exact hH.pOwn
  · intro k j hk hj
    have := hH.pMin k j hk hj
    rcases hmin with ⟨h1 | h1, h2 | h2⟩ <;> rw [h1, h2] <;> simp [this]
  · intro h m hm; rw [hacc h] at hm; cases hm
  · exact le_refl' _
  · exact hH.zP
  · exact hH.zCur

/-- program points of the producer that neither load nor store a cursor, nor write a slot, nor move `min`/`cached`
in a way that needs the producer invariant -/
def quietP : PPc → Bool
  | .gateCheck | .gateLoad | .drainLoad | .write | .publish => false
  | _ => true

set_option maxHeartbeats 1000000 in
/-- … at those, the producer's step only moves its program counter (and the mutex / wake-up flags / `is_done`) -/
theorem hinv_prod_quiet_pcs (set get : Ord) (s : HSt) (hH : HInv s) (hq : quietP s.x.p.pc = true) :
    HInv (stepH set get s .prod) := by
  simp only [stepH]
  cases hpc : s.x.p.pc <;> simp only [hpc, quietP, Bool.false_eq_true] at hq
  all_goals
    have e2 : prodV get s = s.vcP := by simp [prodV, hpc]
    have e3 : prodL set s = s.lcCur := by simp [prodL, hpc]
    rw [e2, e3]
    apply hinv_prod_quiet s hH <;> simp only [stepProd, hpc] <;> (repeat' split) <;> simp_all

/-- the producer's step preserves the clock invariant -/
theorem hinv_prod (set get : Ord) (hset : set.isRelease = true) (hget : get.isAcquire = true)
    (s : HSt) (hP : PInvAll s.x) (hH : HInv s) : HInv (stepH set get s .prod) := by
  obtain ⟨hI, hK, hPI, hb⟩ := hP
  have q4 := hPI.accSome; have q5 := hPI.idxLe; have q7 := hPI.claim; have q8 := hPI.wr
  have a1 := hH.lCur; have a2 := hH.lH; have a7 := hH.pOwn; have a8 := hH.pMin; have a9 := hH.pLd
  have z1 := hH.zCur; have z2 := hH.zH; have z4 := hH.zP
  have hgpos := ngate_pos s.x.s hI.1 hK
  simp only [stepH]
  -- clock of the gating cursor being loaded
  have gateCov : ∀ d, d < ngate s.x.s →
      (∀ k j, k < s.x.s.K - 1 → j < s.x.s.h k → gate s.x.s d ≤ (s.lcH (s.x.s.K - 1) d).ha k j) ∧
      gate s.x.s d ≤ (s.lcH (s.x.s.K - 1) d).ha (s.x.s.K - 1) d := by
    intro d hd
    have := a2 (s.x.s.K - 1) d (by omega) (by simpa [ngate] using hd)
    exact ⟨fun k j hk hj => this.1.prev k j hk (by omega) hj, this.2⟩
  have loadStep : ∀ (_ : s.x.p.pc = .gateLoad ∨ s.x.p.pc = .drainLoad) (_ : s.x.p.idx < ngate s.x.s),
      ∀ m, minOpt s.x.p.acc (gate s.x.s s.x.p.idx) = some m →
        (0 < s.x.p.idx + 1 → ∀ k j, k < s.x.s.K - 1 → j < s.x.s.h k →
            m ≤ (s.vcP.join (s.lcH (s.x.s.K - 1) s.x.p.idx)).ha k j) ∧
        (∀ d, d < s.x.p.idx + 1 → m ≤ (s.vcP.join (s.lcH (s.x.s.K - 1) s.x.p.idx)).ha (s.x.s.K - 1) d) := by
    intro hpc hlt m hm
    have hle := minOpt_le _ _ _ hm
    obtain ⟨gc1, gc2⟩ := gateCov _ hlt
    constructor
    · intro _ k j hk hj
      simp only [VC.join]
      exact Nat.le_trans (Nat.le_trans hle.1 (gc1 k j hk hj)) (Nat.le_max_right _ _)
    · intro d hd
      by_cases hdi : d < s.x.p.idx
      · cases hacc : s.x.p.acc with
        | none => have := q4 hpc (by omega); simp [hacc] at this
        | some m0 =>
          have h1 := (a9 hpc m0 hacc).2 d hdi
          have h2 := hle.2 m0 hacc
          simp only [VC.join]; exact Nat.le_trans (Nat.le_trans h2 h1) (Nat.le_max_left _ _)
      · have : d = s.x.p.idx := by omega
        subst this
        simp only [VC.join]; exact Nat.le_trans (Nat.le_trans hle.1 gc2) (Nat.le_max_right _ _)
  have loadDone : ∀ (_ : s.x.p.pc = .gateLoad ∨ s.x.p.pc = .drainLoad) (_ : ¬ s.x.p.idx < ngate s.x.s),
      ∀ k j, k < s.x.s.K → j < s.x.s.h k → s.x.p.acc.getD 0 ≤ s.vcP.ha k j := by
    intro hpc hge k j hk hj
    have hidx : s.x.p.idx = ngate s.x.s := by have := q5 hpc; omega
    have hsome := q4 hpc (by omega)
    cases hacc : s.x.p.acc with
    | none => simp [hacc] at hsome
    | some m =>
      simp
      have := a9 hpc m hacc
      by_cases hkl : k < s.x.s.K - 1
      · exact this.1 (by omega) k j hkl hj
      · have : k = s.x.s.K - 1 := by omega
        subst this
        exact (a9 hpc m hacc).2 j (by rw [hidx]; simpa [ngate] using hj)
  have joinZ : ∀ d, (∀ k j, (s.vcP.join (s.lcH (s.x.s.K - 1) d)).ha k j ≤ (s.vcC k j).ha k j) := by
    intro d k j; simp only [VC.join]; exact Nat.max_le.2 ⟨z4 k j, (z2 _ _).2 k j⟩
  have joinPw : ∀ d, (s.vcP.join (s.lcH (s.x.s.K - 1) d)).pw = s.vcP.pw := by
    intro d; simp only [VC.join]; exact Nat.max_eq_left (z2 _ _).1
  -- the two load loops (`gateLoad` in `next`, `drainLoad` in `drain`) are the same code
  have loadCase : (s.x.p.pc = .gateLoad ∨ s.x.p.pc = .drainLoad) →
      HInv { s with x := stepProd s.x, vcP := prodV get s, lcCur := prodL set s } := by
    intro hpc
    have e3 : prodL set s = s.lcCur := by rcases hpc with h | h <;> simp [prodL, h]
    rw [e3]
    by_cases hlt : s.x.p.idx < ngate s.x.s
    · have e2 : prodV get s = s.vcP.join (s.lcH (s.x.s.K - 1) s.x.p.idx) := by
        rcases hpc with h | h <;> simp [prodV, h, hlt, loadClock, hget]
      rw [e2]
      apply hinv_prod_frame s hH _ s.lcCur
      · rcases hpc with h | h <;> simpa [stepProd, h, hlt] using a1
      · rw [joinPw, a7]; rcases hpc with h | h <;> simp [stepProd, h, hlt]
      · intro k j hk hj
        have h1 := a8 k j hk hj
        have h2 := (le_join_left s.vcP (s.lcH (s.x.s.K - 1) s.x.p.idx)).2 k j
        rcases hpc with h | h <;> simp [stepProd, h, hlt] <;> omega
      · have hs : (stepProd s.x).p.acc = minOpt s.x.p.acc (gate s.x.s s.x.p.idx) ∧
            (stepProd s.x).p.idx = s.x.p.idx + 1 := by
          rcases hpc with h | h <;> simp [stepProd, h, hlt]
        intro _ m hm
        rw [hs.1] at hm; rw [hs.2]
        have := loadStep hpc hlt m hm
        exact ⟨fun _ => this.1 (by omega), this.2⟩
      · exact le_join_left _ _
      · exact joinZ _
      · exact ⟨by rw [joinPw]; exact z1.1, z1.2⟩
    · have e2 : prodV get s = s.vcP := by rcases hpc with h | h <;> simp [prodV, h, hlt]
      rw [e2]
      have hs : (stepProd s.x).p.min = s.x.p.acc.getD 0 ∧ (stepProd s.x).p.cached = s.x.p.cached ∧
          (stepProd s.x).p.nextWrite = s.x.p.nextWrite ∧ (stepProd s.x).s.cursor = s.x.s.cursor ∧
          ((stepProd s.x).p.pc = .gateCheck ∨ (stepProd s.x).p.pc = .drainCheck) := by
        rcases hpc with h | h <;> simp [stepProd, h, hlt]
      obtain ⟨hs1, hs2, hs3, hs4, hs5⟩ := hs
      apply hinv_prod_frame s hH s.vcP s.lcCur
      · rw [hs4]; exact a1
      · rw [a7, hs3]; rcases hpc with h | h <;> rcases hs5 with h' | h' <;> simp [h, h']
      · intro k j hk hj; rw [hs1, hs2]; exact ⟨loadDone hpc hlt k j hk hj, (a8 k j hk hj).2⟩
      · intro h; rcases hs5 with h' | h' <;> rcases h with h | h <;> simp [h'] at h
      · exact le_refl' _
      · exact z4
      · exact z1
  cases hpc : s.x.p.pc
  case gateLoad => exact loadCase (Or.inl hpc)
  case drainLoad => exact loadCase (Or.inr hpc)
  case write =>
    have e3 : prodL set s = s.lcCur := by simp [prodL, hpc]
    rw [e3]
    have hwr := q8 (by simp [hpc])
    by_cases hle : s.x.p.w ≤ s.x.p.stop
    · -- the slot write
      have e2 : prodV get s = s.vcP.incP := by simp [prodV, hpc, hle]
      rw [e2]
      apply hinv_prod_frame s hH _ s.lcCur <;> (try simp [stepProd, hpc, hle])
      · exact a1
      · simp [hpc] at a7; simp [VC.incP]; omega
      · exact a8
      · exact le_incP _
      · exact z4
      · exact ⟨Nat.le_trans z1.1 (Nat.le_succ _), z1.2⟩
    · have e2 : prodV get s = s.vcP := by simp [prodV, hpc, hle]
      rw [e2]
      apply hinv_prod_quiet s hH <;> simp [stepProd, hpc, hle]
      omega
  case publish =>
    -- `cursor.set(hi)`: a release store of the producer cursor
    have e2 : prodV get s = s.vcP := by simp [prodV, hpc]
    have e3 : prodL set s = s.vcP := by simp [prodL, hpc, storeClock, hset]
    rw [e2, e3]
    have hwr := q8 (by simp [hpc])
    have hs : (stepProd s.x).s.cursor = s.x.p.stop ∧ (stepProd s.x).p.min = s.x.p.min ∧
        (stepProd s.x).p.cached = s.x.p.cached ∧ (stepProd s.x).p.nextWrite = s.x.p.nextWrite ∧
        ((stepProd s.x).p.pc = .pLock ∨ (stepProd s.x).p.pc = .start) := by
      simp only [stepProd, hpc]; split <;> simp
    obtain ⟨hs1, hs2, hs3, hs4, hs5⟩ := hs
    apply hinv_prod_frame s hH s.vcP s.vcP
    · -- the published value is covered by the producer's clock
      rw [hs1]
      refine ⟨?_, ?_, ?_⟩
      · intro _; simp [hpc] at a7; omega
      · intro k' j' h0; omega
      · intro k' j' hk' hj'; have := (a8 k' j' hk' hj').1; omega
    · rw [a7, hs4]; rcases hs5 with h' | h' <;> simp [hpc, h']
    · rw [hs2, hs3]; exact a8
    · intro h; rcases hs5 with h' | h' <;> rcases h with h | h <;> simp [h'] at h
    · exact le_refl' _
    · exact z4
    · exact ⟨Nat.le_refl _, z4⟩
  case gateCheck =>
    have e2 : prodV get s = s.vcP := by simp [prodV, hpc]
    have e3 : prodL set s = s.lcCur := by simp [prodL, hpc]
    rw [e2, e3]
    have hcl := q7 (by simp [hpc])
    apply hinv_prod_quiet s hH <;> simp only [stepProd, hpc] <;> split <;> simp
    omega
  -- every other program point moves the program counter (and the mutex / wake-up flags / `is_done`) only
  all_goals exact hinv_prod_quiet_pcs set get s hH (by simp [hpc, quietP])

/-! ## every schedule -/

def HGood (s : HSt) : Prop := PInvAll s.x ∧ HInv s

theorem hgood_step (set get : Ord) (hset : set.isRelease = true) (hget : get.isAcquire = true)
    (s : HSt) (t : Tid) (h : HGood s) : HGood (stepH set get s t) := by
  refine ⟨?_, ?_⟩
  · rw [stepH_x]; exact inv_stepX s.x t h.1
  · cases t with
    | prod => exact hinv_prod set get hset hget s h.1 h.2
    | cons k j =>
      by_cases hv : k < s.x.s.K ∧ j < s.x.s.h k
      · exact hinv_cons set get hset hget s k j hv.1 hv.2 h.1 h.2
      · simp only [stepH, hv, if_false]; exact h.2

theorem hgood_run (set get : Ord) (hset : set.isRelease = true) (hget : get.isAcquire = true)
    (s : HSt) (sched : List Tid) (h : HGood s) : HGood (runH set get s sched) := by
  unfold runH
  induction sched generalizing s with
  | nil => exact h
  | cons t ts ih => exact ih _ (hgood_step set get hset hget s t h)

theorem hgood_init (n K : Nat) (h : Nat → Nat) (blocking : Bool) (batches : List Nat)
    (hK : 0 < K) (hh : ∀ k, k < K → 0 < h k) (hb : ∀ b, b ∈ batches → 1 ≤ b) :
    HGood (mkH n K h blocking batches) := by
  refine ⟨inv_init n K h blocking batches hK hh hb, ?_⟩
  constructor <;> simp [mkH, mk, doneOf, availPc]
  · constructor <;> simp
  · intro k j _ _; constructor <;> simp
  · intro k j _ _; constructor <;> simp

end RingHB
