import DcVerif.Spec.ShortestPathFW
/-! Correctness of the Floyd–Warshall oracle (`fw_le`, `fw_attained`, `fw_correct`: minimum over all walks, `none` iff no
walk), of its tabulated form (`table_get`, `dist_eq_fw`) and of the path validator (`checkPath_sound`, `checkPath_minimal`). -/
namespace FW

def OLe (a : Option Nat) (c : Nat) : Prop := ∃ d, a = some d ∧ d ≤ c

theorem ole_omin_left {a b : Option Nat} {c : Nat} (h : OLe a c) : OLe (omin a b) c := by
  obtain ⟨d, rfl, hd⟩ := h
  cases b with
  | none => exact ⟨d, rfl, hd⟩
  | some e => exact ⟨min d e, rfl, Nat.le_trans (Nat.min_le_left _ _) hd⟩

theorem ole_omin_right {a b : Option Nat} {c : Nat} (h : OLe b c) : OLe (omin a b) c := by
  obtain ⟨d, rfl, hd⟩ := h
  cases a with
  | none => exact ⟨d, rfl, hd⟩
  | some e => exact ⟨min e d, rfl, Nat.le_trans (Nat.min_le_right _ _) hd⟩

theorem ole_oadd {a b : Option Nat} {c1 c2 : Nat} (h1 : OLe a c1) (h2 : OLe b c2) : OLe (oadd a b) (c1 + c2) := by
  obtain ⟨d1, rfl, hd1⟩ := h1
  obtain ⟨d2, rfl, hd2⟩ := h2
  exact ⟨d1 + d2, rfl, by omega⟩

theorem walk_split (w : Wt) (is1 : List Nat) : ∀ (u v x : Nat) (is2 : List Nat) (c : Nat),
    Walk w u v (is1 ++ x :: is2) c → ∃ c1 c2, Walk w u x is1 c1 ∧ Walk w x v is2 c2 ∧ c = c1 + c2 := by
  induction is1 with
  | nil =>
    intro u v x is2 c h
    cases h with
    | cons he hr => exact ⟨_, _, Walk.edge he, hr, rfl⟩
  | cons y ys ih =>
    intro u v x is2 c h
    cases h with
    | cons he hr =>
      obtain ⟨c1, c2, h1, h2, heq⟩ := ih _ _ _ _ _ hr
      exact ⟨_, c2, Walk.cons he h1, h2, by omega⟩

theorem first_occ (k : Nat) (is : List Nat) (h : k ∈ is) : ∃ is1 is2, is = is1 ++ k :: is2 ∧ k ∉ is1 := by
  induction is with
  | nil => simp at h
  | cons y ys ih =>
    by_cases hy : y = k
    · exact ⟨[], ys, by simp [hy], by simp⟩
    · have : k ∈ ys := by simpa [Ne.symm hy] using h
      obtain ⟨a, b, hab, hk⟩ := ih this
      exact ⟨y :: a, b, by simp [hab], by simp [hk, Ne.symm hy]⟩

/-- going through `k` from `k` never helps: `fw (k+1) k v = fw k k v` -/
theorem fw_succ_from_k (w : Wt) (k v : Nat) : fw w (k+1) k v = fw w k k v := by
  simp only [fw]
  cases h1 : fw w k k v with
  | none => cases fw w k k k <;> simp [omin, oadd]
  | some e =>
    cases h2 : fw w k k k with
    | none => simp [omin, oadd]
    | some kk => simp [omin, oadd]

/-- **lower bound**: every walk whose intermediates are `< k` weighs at least `fw k` -/
theorem fw_le (w : Wt) : ∀ (k : Nat) (len : Nat) (u v : Nat) (is : List Nat) (c : Nat),
    is.length ≤ len → Walk w u v is c → (∀ x, x ∈ is → x < k) → OLe (fw w k u v) c := by
  intro k
  induction k with
  | zero =>
    intro len u v is c _ hw hall
    cases hw with
    | edge he => exact ⟨c, he, Nat.le_refl _⟩
    | cons he hr => exact absurd (hall _ (List.mem_cons_self)) (by omega)
  | succ k ih =>
    intro len
    induction len with
    | zero =>
      intro u v is c hl hw hall
      have : is = [] := by cases is <;> simp_all
      subst this
      exact ole_omin_left (ih 0 u v [] c (by simp) hw (by simp))
    | succ len ihl =>
      intro u v is c hl hw hall
      by_cases hk : k ∈ is
      · obtain ⟨is1, is2, heq, hnot⟩ := first_occ k is hk
        subst heq
        obtain ⟨c1, c2, h1, h2, hc⟩ := walk_split w is1 u v k is2 c hw
        have hall1 : ∀ x, x ∈ is1 → x < k := by
          intro x hx
          have := hall x (by simp [hx])
          have : x ≠ k := fun h => hnot (h ▸ hx)
          omega
        have hall2 : ∀ x, x ∈ is2 → x < k + 1 := fun x hx => hall x (by simp [hx])
        have l2 : is2.length ≤ len := by simp at hl; omega
        have e1 := ih is1.length u k is1 c1 (Nat.le_refl _) h1 hall1
        have e2 := ihl k v is2 c2 l2 h2 hall2
        rw [fw_succ_from_k] at e2
        rw [hc]
        exact ole_omin_right (ole_oadd e1 e2)
      · have hall' : ∀ x, x ∈ is → x < k := by
          intro x hx
          have := hall x hx
          have : x ≠ k := fun h => hk (h ▸ hx)
          omega
        exact ole_omin_left (ih is.length u v is c (Nat.le_refl _) hw hall')

theorem walk_append (w : Wt) : ∀ (is1 : List Nat) (u x v : Nat) (is2 : List Nat) (c1 c2 : Nat),
    Walk w u x is1 c1 → Walk w x v is2 c2 → Walk w u v (is1 ++ x :: is2) (c1 + c2) := by
  intro is1
  induction is1 with
  | nil =>
    intro u x v is2 c1 c2 h1 h2
    cases h1 with
    | edge he => exact Walk.cons he h2
  | cons y ys ih =>
    intro u x v is2 c1 c2 h1 h2
    cases h1 with
    | cons he hr =>
      have := ih _ _ _ _ _ _ hr h2
      have e : ∀ a b : Nat, a + b + c2 = a + (b + c2) := fun a b => by omega
      rw [e]; exact Walk.cons he this

/-- **attained**: `fw k u v = some d` is realised by a walk with intermediates `< k` -/
theorem fw_attained (w : Wt) : ∀ (k u v d : Nat), fw w k u v = some d →
    ∃ is, Walk w u v is d ∧ ∀ x, x ∈ is → x < k := by
  intro k
  induction k with
  | zero => intro u v d h; exact ⟨[], Walk.edge h, by simp⟩
  | succ k ih =>
    intro u v d h
    simp only [fw] at h
    cases h0 : fw w k u v with
    | none =>
      rw [h0] at h
      cases h1 : fw w k u k with
      | none => simp [h1, oadd, omin] at h
      | some a =>
        cases h2 : fw w k k v with
        | none => simp [h1, h2, oadd, omin] at h
        | some b =>
          simp [h1, h2, oadd, omin] at h
          obtain ⟨is1, w1, a1⟩ := ih u k a h1
          obtain ⟨is2, w2, a2⟩ := ih k v b h2
          refine ⟨is1 ++ k :: is2, h ▸ walk_append w is1 u k v is2 a b w1 w2, ?_⟩
          intro x hx
          simp at hx
          rcases hx with hx | hx | hx
          · have := a1 x hx; omega
          · omega
          · have := a2 x hx; omega
    | some e =>
      rw [h0] at h
      cases h1 : fw w k u k with
      | none =>
        simp [h1, oadd, omin] at h
        obtain ⟨is, hw, ha⟩ := ih u v e h0
        exact ⟨is, h ▸ hw, fun x hx => by have := ha x hx; omega⟩
      | some a =>
        cases h2 : fw w k k v with
        | none =>
          simp [h1, h2, oadd, omin] at h
          obtain ⟨is, hw, ha⟩ := ih u v e h0
          exact ⟨is, h ▸ hw, fun x hx => by have := ha x hx; omega⟩
        | some b =>
          simp [h1, h2, oadd, omin] at h
          by_cases hle : e ≤ a + b
          · have : d = e := by rw [← h]; exact Nat.min_eq_left hle
            obtain ⟨is, hw, ha⟩ := ih u v e h0
            exact ⟨is, this ▸ hw, fun x hx => by have := ha x hx; omega⟩
          · have : d = a + b := by rw [← h]; exact Nat.min_eq_right (by omega)
            obtain ⟨is1, w1, a1⟩ := ih u k a h1
            obtain ⟨is2, w2, a2⟩ := ih k v b h2
            refine ⟨is1 ++ k :: is2, this ▸ walk_append w is1 u k v is2 a b w1 w2, ?_⟩
            intro x hx
            simp at hx
            rcases hx with hx | hx | hx
            · have := a1 x hx; omega
            · omega
            · have := a2 x hx; omega

/-- **C15 oracle**: with all vertices `< n`, `fw n u v` is the minimum walk weight, and `none`
    exactly when there is no walk at all. -/
theorem fw_correct (w : Wt) (n u v : Nat) :
    (∀ d, fw w n u v = some d →
        (∃ is, Walk w u v is d) ∧ ∀ is c, Walk w u v is c → (∀ x, x ∈ is → x < n) → d ≤ c) ∧
    (fw w n u v = none → ∀ is c, Walk w u v is c → (∀ x, x ∈ is → x < n) → False) := by
  constructor
  · intro d hd
    refine ⟨?_, ?_⟩
    · obtain ⟨is, hw, _⟩ := fw_attained w n u v d hd; exact ⟨is, hw⟩
    · intro is c hw hall
      obtain ⟨d', hd', hle⟩ := fw_le w n is.length u v is c (Nat.le_refl _) hw hall
      rw [hd] at hd'; cases hd'; exact hle
  · intro hn is c hw hall
    obtain ⟨d', hd', _⟩ := fw_le w n is.length u v is c (Nat.le_refl _) hw hall
    rw [hn] at hd'; cases hd'


/-! ### the tabulated version equals `fw` -/

theorem mat_mk_get (n : Nat) (f : Nat → Nat → Option Nat) (u v : Nat) (hu : u < n) (hv : v < n) :
    (Mat.mk n f).get u v = f u v := by
  simp [Mat.get, Mat.mk, hu, hv]

theorem mat_mk_get_none (n : Nat) (f : Nat → Nat → Option Nat) (u v : Nat) (h : ¬ (u < n ∧ v < n)) :
    (Mat.mk n f).get u v = none := by
  by_cases hu : u < n
  · have hv : ¬ v < n := fun hv => h ⟨hu, hv⟩
    simp [Mat.get, Mat.mk, hu, hv]
  · simp [Mat.get, Mat.mk, hu]

theorem table_get (w : Wt) (n : Nat) : ∀ k, k ≤ n → ∀ u v, u < n → v < n → (table w n k).get u v = fw w k u v := by
  intro k
  induction k with
  | zero => intro _ u v hu hv; simp only [table, fw]; exact mat_mk_get n w u v hu hv
  | succ k ih =>
    intro hk u v hu hv
    have hk' : k < n := hk
    simp only [table, fw]
    rw [mat_mk_get n _ u v hu hv, ih (by omega) u v hu hv, ih (by omega) u k hu hk', ih (by omega) k v hk' hv]

theorem dist_eq_fw (w : Wt) (n u v : Nat) (hu : u < n) (hv : v < n) : dist w n u v = fw w n u v :=
  table_get w n n (Nat.le_refl _) u v hu hv

/-- weights that only connect vertices `< n` -/
def Bounded (w : Wt) (n : Nat) : Prop := ∀ a b c, w a b = some c → a < n ∧ b < n

theorem walk_bounded {w : Wt} {n : Nat} (hb : Bounded w n) : ∀ {u v is c}, Walk w u v is c →
    u < n ∧ v < n ∧ ∀ x, x ∈ is → x < n := by
  intro u v is c h
  induction h with
  | edge he => exact ⟨(hb _ _ _ he).1, (hb _ _ _ he).2, by simp⟩
  | cons he _ ih =>
    refine ⟨(hb _ _ _ he).1, ih.2.1, ?_⟩
    intro x hx
    simp at hx
    rcases hx with rfl | hx
    · exact ih.1
    · exact ih.2.2 x hx

/-- **the oracle the drivers run**: for weights bounded by `n`, `dist w n u v` is the minimum weight over *all* walks
    `u → v`, attained, and `none` exactly when there is no walk -/
theorem dist_correct (w : Wt) (n u v : Nat) (hb : Bounded w n) :
    (∀ d, dist w n u v = some d → (∃ is, Walk w u v is d) ∧ ∀ is c, Walk w u v is c → d ≤ c) ∧
    (dist w n u v = none ↔ ¬ ∃ is c, Walk w u v is c) := by
  by_cases hu : u < n ∧ v < n
  · rw [dist_eq_fw w n u v hu.1 hu.2]
    have hc := fw_correct w n u v
    refine ⟨?_, ?_⟩
    · intro d hd
      exact ⟨(hc.1 d hd).1, fun is c hw => (hc.1 d hd).2 is c hw (walk_bounded hb hw).2.2⟩
    · constructor
      · intro hn ⟨is, c, hw⟩; exact hc.2 hn is c hw (walk_bounded hb hw).2.2
      · intro hno
        cases hd : fw w n u v with
        | none => rfl
        | some d => exact absurd ⟨_, d, (hc.1 d hd).1.choose_spec⟩ hno
  · have hnone : dist w n u v = none := by
      unfold dist
      -- out of range: the table has no such cell
      cases n with
      | zero => simp [table, Mat.get, Mat.mk]
      | succ m => simp only [table]; exact mat_mk_get_none _ _ u v hu
    refine ⟨by simp [hnone], ?_⟩
    simp only [hnone, true_iff]
    intro ⟨is, c, hw⟩
    have := walk_bounded hb hw
    exact hu ⟨this.1, this.2.1⟩

/-! ### the path validator -/

theorem pathWeight_walk (w : Wt) : ∀ (p : List Nat) (a : Nat) (c : Nat), pathWeight w (a :: p) = some c →
    ∃ is b, a :: p = a :: is ++ [b] ∧ Walk w a b is c := by
  intro p
  induction p with
  | nil => intro a c h; simp [pathWeight] at h
  | cons b rest ih =>
    intro a c h
    cases rest with
    | nil =>
      simp only [pathWeight] at h
      exact ⟨[], b, by simp, Walk.edge h⟩
    | cons d rest' =>
      simp only [pathWeight] at h
      cases hab : w a b with
      | none => simp [hab, oadd] at h
      | some c1 =>
        cases hr : pathWeight w (b :: d :: rest') with
        | none => simp [hab, hr, oadd] at h
        | some c2 =>
          simp [hab, hr, oadd] at h
          obtain ⟨is, e, hp, hw⟩ := ih b c2 hr
          refine ⟨b :: is, e, ?_, h ▸ Walk.cons hab hw⟩
          rw [hp]; simp

/-- an accepted path is a real walk from `s` to `t` with the returned weight: `p = s :: is ++ [t]` -/
theorem checkPath_sound (w : Wt) (s t : Nat) (p : List Nat) (c : Nat) (h : checkPath w s t p = some c) :
    ∃ is, p = s :: is ++ [t] ∧ Walk w s t is c := by
  unfold checkPath at h
  split at h
  · rename_i hst
    cases p with
    | nil => simp [pathWeight] at h
    | cons a rest =>
      have ha : a = s := by simpa using hst.1
      subst ha
      obtain ⟨is, b, hp, hw⟩ := pathWeight_walk w rest a c h
      have hb : b = t := by
        have := hst.2
        rw [hp, List.getLast?_append] at this
        simpa using this
      subst hb
      exact ⟨is, hp, hw⟩
  · cases h

/-- an accepted path whose weight equals `dist` is a minimum-weight walk -/
theorem checkPath_minimal (w : Wt) (n s t : Nat) (hb : Bounded w n) (p : List Nat) (c : Nat)
    (h : checkPath w s t p = some c) (hd : dist w n s t = some c) :
    (∃ is, p = s :: is ++ [t] ∧ Walk w s t is c) ∧ ∀ is' c', Walk w s t is' c' → c ≤ c' :=
  ⟨checkPath_sound w s t p c h, ((dist_correct w n s t hb).1 c hd).2⟩

end FW
