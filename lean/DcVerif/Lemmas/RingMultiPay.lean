import DcVerif.Model.RingMultiPay
import DcVerif.Lemmas.RingPay
import DcVerif.Lemmas.RingMultiSafe
/-!
Slot contents of pipelines fed by the **multi-producer** sequencer, along every schedule (ring sizes `2^k`, any topology whose
mutable handlers are alone in their stage, any number of writer threads, any batch lists).

Writers write concurrently and not in sequence order, so there is no single "number of written sequences". A sequence `q` is
*live* (`Live`) when it has been written to its slot and the high watermark is still less than a ring above it
(`hw < q + n`: nobody can even have *claimed* `q + n`, let alone overwritten the slot). The invariant `MPayInv`:

* `slots` — every live slot holds the value written for its sequence (`val q`), transformed by exactly those mutable handlers
  whose progress has reached `q`;
* `saw` — every `(sequence, payload)` pair handed to a handler of stage `k` is the written value transformed by all mutable
  handlers of the stages below `k` (`expectBelow`).

Why it is preserved: (1) a writer about to write `w` has `cursor < w ≤ hw < cursor + n` (release safety, `MRel`), so no handler
has reached `w` and every other live sequence has a different residue; (2) a handler about to handle `i` has `i ≤ cursor`, so
by release safety `i` has been written by its claimant, and `hw < cur + n < i + n` for its own published cursor `cur`
(`MFit`, from `has_capacity`), so `i` is live; (3) all live sequences lie in the window `(hw − n, hw]`: distinct residues.
Separately (`MOnce`, `MLogInv`): every sequence is written at most once, the ghost `val q` is the value of that write, and it is
the `pay` of the claimant's next item.
-/
namespace RingMultiPay
open Ring RingMulti RingPay

/-! ## the high watermark is less than a ring above every handler cursor -/

/-- `has_capacity` against *every* handler: nothing has been claimed a ring or more above any published handler cursor -/
def MFit (x : MSt) : Prop := ∀ k j, k < x.s.K → j < x.s.h k → x.hw < (x.s.cons k j).cur + x.s.n

theorem mfit_stepWriter (x : MSt) (i : Nat) (hi : i < x.P) (hc : MCap x) (h : MFit x) : MFit (stepWriter x i) := by
  obtain ⟨hcons, hK, hh, hn⟩ := stepWriter_s x i
  intro k j hk hj
  rw [hK] at hk; rw [hh] at hj; rw [hcons, hn]
  rcases stepWriter_hw x i with e | ⟨hpc, _, e⟩
  · rw [e]; exact h k j hk hj
  · rw [e]
    have h1 := (hc.2 i hi).capOk hpc
    have h2 := minG_le_all x hc i hi k j hk hj
    omega

theorem mfit_stepM (x : MSt) (t : MTid) (hc : MCap x) (h : MFit x) : MFit (stepM x t) := by
  cases t with
  | writer i =>
    show MFit (if i < x.P then stepWriter x i else x)
    split
    · rename_i hi; exact mfit_stepWriter x i hi hc h
    · exact h
  | drainer =>
    show MFit (stepDrainer x)
    obtain ⟨hcons, hK, hh, hn, _⟩ := stepDrainer_s x
    have hhw := (stepDrainer_frame x).2.2.1
    intro k j hk hj
    rw [hK] at hk; rw [hh] at hj; rw [hcons, hn, hhw]
    exact h k j hk hj
  | cons k j =>
    show MFit (if k < x.s.K ∧ j < x.s.h k then { x with s := stepC x.s k j } else x)
    split
    · rename_i hkj
      intro k' j' hk' hj'
      show x.hw < ((stepC x.s k j).cons k' j').cur + x.s.n
      have := h k' j' hk' hj'
      by_cases he : k' = k ∧ j' = j
      · obtain ⟨rfl, rfl⟩ := he
        rw [stepC_cons_self]
        have := cur_mono x.s k' j' _ (hc.1.2.1.2 k' j' hkj.1 hkj.2)
        omega
      · rw [stepC_cons_other _ _ _ _ _ he]; exact this
    · exact h

/-! ## every sequence is written at most once -/

theorem stepWriter_written_eq (x : MSt) (i : Nat) :
    (stepWriter x i).written =
      if (x.wr i).pc = .write ∧ (x.wr i).w ≤ (x.wr i).hi then x.written ++ [((x.wr i).w, i)] else x.written := by
  unfold stepWriter
  cases hpc : (x.wr i).pc <;> simp only [hpc] <;> (repeat' split) <;> simp_all

theorem stepWriter_write_wr (x : MSt) (i : Nat) (hpc : (x.wr i).pc = .write) (hw : (x.wr i).w ≤ (x.wr i).hi) :
    (stepWriter x i).wr i = { x.wr i with w := (x.wr i).w + 1 } := by
  simp [stepWriter, hpc, hw, updW_same]

/-- the set of sequences the stepping writer still has to write only shrinks, except for a fresh claim, which lies above the
old high watermark -/
theorem unwr_step_back (x : MSt) (i q : Nat) (h : unwr ((stepWriter x i).wr i) q) : unwr (x.wr i) q ∨ x.hw < q := by
  revert h
  unfold stepWriter unwr
  cases hpc : (x.wr i).pc <;> simp only [hpc] <;> (repeat' split) <;> (try simp only [updW_same]) <;> grind

/-- the written sequences are pairwise different, all claimed, and none of them is still to be written by anybody -/
structure MOnce (x : MSt) : Prop where
  nodup : (x.written.map (·.1)).Nodup
  le    : ∀ q i, (q, i) ∈ x.written → q ≤ x.hw
  gone  : ∀ q i, (q, i) ∈ x.written → ∀ j, j < x.P → ¬ unwr (x.wr j) q

theorem monce_stepWriter (x : MSt) (i : Nat) (hi : i < x.P) (hr : MRel x) (h : MOnce x) : MOnce (stepWriter x i) := by
  have hw := stepWriter_written_eq x i
  have hmono := stepWriter_hw_mono x i
  by_cases hwr : (x.wr i).pc = .write ∧ (x.wr i).w ≤ (x.wr i).hi
  · rw [if_pos hwr] at hw
    have hun : unwr (x.wr i) (x.wr i).w := ⟨hwr.1, Nat.le_refl _, hwr.2⟩
    have hnew : ∀ i', ((x.wr i).w, i') ∉ x.written := fun i' hm => h.gone _ _ hm i hi hun
    refine ⟨?_, ?_, ?_⟩
    · rw [hw, List.map_append, List.nodup_append]
      refine ⟨h.nodup, by simp, ?_⟩
      intro a ha b hb
      simp only [List.map_cons, List.map_nil, List.mem_singleton] at hb
      subst hb
      obtain ⟨⟨q, i'⟩, hm, rfl⟩ := List.mem_map.1 ha
      intro he
      have he' : q = (x.wr i).w := he
      subst he'
      exact hnew i' hm
    · intro q i' hm
      rw [hw, List.mem_append, List.mem_singleton] at hm
      rcases hm with hm | hm
      · have := h.le q i' hm; omega
      · have := (hr.ws i hi).hiLe
        simp only [Prod.mk.injEq] at hm
        omega
    · intro q i' hm j hj hu
      rw [stepWriter_P] at hj
      rw [hw, List.mem_append, List.mem_singleton] at hm
      by_cases he : j = i
      · subst he
        rcases hm with hm | hm
        · rcases unwr_step_back x j q hu with h1 | h1
          · exact h.gone q i' hm j hj h1
          · have := h.le q i' hm; omega
        · simp only [Prod.mk.injEq] at hm
          rw [stepWriter_write_wr x j hwr.1 hwr.2] at hu
          have := hu.2.1
          simp only at this
          omega
      · rw [stepWriter_others x i j he] at hu
        rcases hm with hm | hm
        · exact h.gone q i' hm j hj hu
        · simp only [Prod.mk.injEq] at hm
          obtain ⟨rfl, _⟩ := hm
          have p1 : wpend (x.wr i) (x.wr i).w := Or.inl ⟨hwr.1, (hr.ws i hi).wGe hwr.1, hwr.2⟩
          have p2 : wpend (x.wr j) (x.wr i).w := Or.inl ⟨hu.1, by have := (hr.ws j hj).wGe hu.1; have := hu.2.1; omega, hu.2.2⟩
          exact he (hr.disj i j _ hi hj p1 p2).symm
  · rw [if_neg hwr] at hw
    refine ⟨by rw [hw]; exact h.nodup, ?_, ?_⟩
    · intro q i' hm
      rw [hw] at hm
      have := h.le q i' hm; omega
    · intro q i' hm j hj hu
      rw [stepWriter_P] at hj
      rw [hw] at hm
      by_cases he : j = i
      · subst he
        rcases unwr_step_back x j q hu with h1 | h1
        · exact h.gone q i' hm j hj h1
        · have := h.le q i' hm; omega
      · rw [stepWriter_others x i j he] at hu
        exact h.gone q i' hm j hj hu

theorem monce_congr (x x' : MSt) (hP : x'.P = x.P) (hwr : x'.wr = x.wr) (hhw : x'.hw = x.hw)
    (hwritten : x'.written = x.written) (h : MOnce x) : MOnce x' := by
  obtain ⟨s', P', hw', lw', bm', wr', dr', written', ac'⟩ := x'
  simp only at hP hwr hhw hwritten
  subst hP hwr hhw hwritten
  exact ⟨h.1, h.2, h.3⟩

theorem monce_stepM (x : MSt) (t : MTid) (hr : MRel x) (h : MOnce x) : MOnce (stepM x t) := by
  cases t with
  | writer i =>
    show MOnce (if i < x.P then stepWriter x i else x)
    split
    · rename_i hi; exact monce_stepWriter x i hi hr h
    · exact h
  | drainer =>
    obtain ⟨h1, h2, h3, _, _, h6, _, _⟩ := stepDrainer_frame x
    exact monce_congr x (stepDrainer x) h1 h2 h3 h6 h
  | cons k j =>
    show MOnce (if k < x.s.K ∧ j < x.s.h k then { x with s := stepC x.s k j } else x)
    split
    · exact monce_congr x _ rfl rfl rfl rfl h
    · exact h

/-! ## slot contents -/

/-- sequence `q` has been written to its slot (by some writer) -/
def Wrt (x : MSt) (q : Nat) : Prop := ∃ i, (q, i) ∈ x.written

/-- `q` is written and nothing a ring or more above it has even been claimed: its slot still belongs to it -/
def Live (x : MSt) (q : Nat) : Prop := 1 ≤ q ∧ x.hw < q + x.s.n ∧ Wrt x q

structure MPayInv (c : MPCfg) (s : MPaySt) : Prop where
  slots : ∀ q, Live s.x q → s.slot (q % s.x.s.n) = expectUpTo c.hc s.x.s s.x.s.K q (s.val q)
  saw   : ∀ k j, k < s.x.s.K → j < s.x.s.h k → ∀ e, e ∈ s.seen k j →
            1 ≤ e.1 ∧ e.1 ≤ s.x.s.cursor ∧ e.2 = expectBelow c.hc k (s.val e.1)

theorem stepMPay_write (c : MPCfg) (s : MPaySt) (i : Nat) (hi : i < s.x.P) (hpc : (s.x.wr i).pc = .write)
    (hw : (s.x.wr i).w ≤ (s.x.wr i).hi) :
    stepMPay c s (.writer i) =
      { s with x := stepWriter s.x i,
               slot := updN s.slot ((s.x.wr i).w % s.x.s.n) (c.pay i (s.cnt i) (s.x.wr i).w),
               cnt := updN s.cnt i (s.cnt i + 1),
               val := updN s.val (s.x.wr i).w (c.pay i (s.cnt i) (s.x.wr i).w),
               wlog := s.wlog ++ [((s.x.wr i).w, i, c.pay i (s.cnt i) (s.x.wr i).w)] } := by
  simp [stepMPay, stepM, hi, hpc, hw]

theorem stepMPay_nowrite (c : MPCfg) (s : MPaySt) (i : Nat)
    (h : ¬ (i < s.x.P ∧ (s.x.wr i).pc = .write ∧ (s.x.wr i).w ≤ (s.x.wr i).hi)) :
    stepMPay c s (.writer i) = { s with x := stepM s.x (.writer i) } := by
  simp only [stepMPay]; rw [if_neg h]

/-- two sequences in the window `(hw − n, hw]` have different residues -/
theorem mod_ne_of_hw {q i hw n : Nat} (hq : q ≤ hw) (hqn : hw < q + n) (hi : i ≤ hw) (hin : hw < i + n) (hne : q ≠ i) :
    q % n ≠ i % n :=
  mod_ne_of_window (w := hw + 1) (by omega) (by omega) (by omega) (by omega) hne

theorem mpayinv_writer (c : MPCfg) (s : MPaySt) (i : Nat) (hi : i < s.x.P) (hS : MSafe s.x) (hO : MOnce s.x)
    (h : MPayInv c s) : MPayInv c (stepMPay c s (.writer i)) := by
  have hI := hS.1.1.2.1
  obtain ⟨hcons, hK, hh, hn⟩ := stepWriter_s s.x i
  have hwe := stepWriter_written_eq s.x i
  have hhw := stepWriter_hw_mono s.x i
  have hcm := stepWriter_cursor_mono s.x i hi hS.1.1.1
  have hx : stepM s.x (.writer i) = stepWriter s.x i := by simp [stepM, hi]
  by_cases hwr : (s.x.wr i).pc = .write ∧ (s.x.wr i).w ≤ (s.x.wr i).hi
  · -- slot write of `w`
    rw [stepMPay_write c s i hi hwr.1 hwr.2]
    rw [if_pos hwr] at hwe
    obtain ⟨hcw, hwc⟩ := writing_above_cursor s.x hS i hi hwr.1 hwr.2
    have hwin := hS.2.window
    have hhi := (hS.2.ws i hi).hiLe
    have hhw' : (stepWriter s.x i).hw = s.x.hw := by
      rcases stepWriter_hw s.x i with e | ⟨hp, _⟩
      · exact e
      · rw [hwr.1] at hp; exact absurd hp (by simp)
    constructor
    · rintro q ⟨hq1, hq2, i', hq3⟩
      show updN s.slot ((s.x.wr i).w % s.x.s.n) _ (q % (stepWriter s.x i).s.n) =
        expectUpTo c.hc (stepWriter s.x i).s (stepWriter s.x i).s.K q (updN s.val (s.x.wr i).w _ q)
      rw [hn, hK, expectUpTo_congr c.hc s.x.s (stepWriter s.x i).s _ _ _ (by intro k' _ _; rw [hcons])]
      rw [hhw', hn] at hq2
      by_cases he : q = (s.x.wr i).w
      · subst he
        simp only [updN, if_true]
        rw [expectUpTo_unapplied c.hc s.x.s _ _ 0 s.x.s.K (Nat.zero_le _)]
        · rfl
        · intro k' _ hk' _ hle
          have := progress_le_cursor s.x.s hI k' 0 hk' (hI.1 k' hk')
          omega
      · have hq3' : (q, i') ∈ s.x.written := by
          rw [hwe, List.mem_append, List.mem_singleton] at hq3
          rcases hq3 with h1 | h1
          · exact h1
          · simp only [Prod.mk.injEq] at h1; exact absurd h1.1 he
        have hqle := hO.le q i' hq3'
        have hne := mod_ne_of_hw hqle hq2 (by omega : (s.x.wr i).w ≤ s.x.hw) (by omega) he
        simp only [updN, hne, he, if_false]
        exact h.slots q ⟨hq1, hq2, i', hq3'⟩
    · intro k j hk hj e he
      rw [hK] at hk; rw [hh] at hj
      obtain ⟨h1, h2, h3⟩ := h.saw k j hk hj e he
      refine ⟨h1, by show e.1 ≤ (stepWriter s.x i).s.cursor; omega, ?_⟩
      show e.2 = expectBelow c.hc k (updN s.val (s.x.wr i).w _ e.1)
      have : e.1 ≠ (s.x.wr i).w := by omega
      simp only [updN, this, if_false]
      exact h3
  · -- any other writer step: slots, logs and the written set are untouched, the high watermark may grow
    rw [stepMPay_nowrite c s i (fun hc => hwr hc.2), hx]
    rw [if_neg hwr] at hwe
    constructor
    · rintro q ⟨hq1, hq2, i', hq3⟩
      show s.slot (q % (stepWriter s.x i).s.n) = expectUpTo c.hc (stepWriter s.x i).s (stepWriter s.x i).s.K q (s.val q)
      rw [hn, hK, expectUpTo_congr c.hc s.x.s (stepWriter s.x i).s _ _ _ (by intro k' _ _; rw [hcons])]
      have hq2' : (stepWriter s.x i).hw < q + (stepWriter s.x i).s.n := hq2
      have hq3' : (q, i') ∈ (stepWriter s.x i).written := hq3
      rw [hn] at hq2'
      rw [hwe] at hq3'
      exact h.slots q ⟨hq1, by omega, i', hq3'⟩
    · intro k j hk hj e he
      rw [hK] at hk; rw [hh] at hj
      obtain ⟨h1, h2, h3⟩ := h.saw k j hk hj e he
      exact ⟨h1, by show e.1 ≤ (stepWriter s.x i).s.cursor; omega, h3⟩

theorem mpayinv_drainer (c : MPCfg) (s : MPaySt) (h : MPayInv c s) : MPayInv c (stepMPay c s .drainer) := by
  obtain ⟨hcons, hK, hh, hn, _⟩ := stepDrainer_s s.x
  obtain ⟨_, _, hhw, _, _, hwritten, hcur, _⟩ := stepDrainer_frame s.x
  constructor
  · rintro q ⟨hq1, hq2, i', hq3⟩
    show s.slot (q % (stepDrainer s.x).s.n) = expectUpTo c.hc (stepDrainer s.x).s (stepDrainer s.x).s.K q (s.val q)
    rw [hn, hK, expectUpTo_congr c.hc s.x.s (stepDrainer s.x).s _ _ _ (by intro k' _ _; rw [hcons])]
    have hq2' : (stepDrainer s.x).hw < q + (stepDrainer s.x).s.n := hq2
    have hq3' : (q, i') ∈ (stepDrainer s.x).written := hq3
    rw [hhw, hn] at hq2'; rw [hwritten] at hq3'
    exact h.slots q ⟨hq1, hq2', i', hq3'⟩
  · intro k j hk hj e he
    have hk' : k < (stepDrainer s.x).s.K := hk
    have hj' : j < (stepDrainer s.x).s.h k := hj
    rw [hK] at hk'; rw [hh] at hj'
    obtain ⟨h1, h2, h3⟩ := h.saw k j hk' hj' e he
    exact ⟨h1, by show e.1 ≤ (stepDrainer s.x).s.cursor; omega, h3⟩

theorem hc_mutH (c : MPCfg) (k j : Nat) : c.hc.mutH k j = c.mutH k j := rfl
theorem hc_tf (c : MPCfg) (k j v : Nat) : c.hc.tf k j v = c.tf k j v := rfl

theorem mpayinv_cons (c : MPCfg) (s : MPaySt) (k j : Nat) (hk : k < s.x.s.K) (hj : j < s.x.s.h k)
    (hS : MSafe s.x) (hF : MFit s.x) (hO : MOnce s.x) (hT : Topo c.hc s.x.s) (h : MPayInv c s) :
    MPayInv c (stepMPay c s (.cons k j)) := by
  have hI := hS.1.1.2.1
  have hci := hI.2 k j hk hj
  have hprog := progress_stepCons s.x.s k j _ hci
  have hx : stepM s.x (.cons k j) = { s.x with s := stepC s.x.s k j } := by simp [stepM, hk, hj]
  simp only [stepMPay, hk, hj, and_self, if_true]
  split
  · -- the handler is invoked for `i`
    rename_i hh
    have hge := hci.iGe hh.1
    have hne := hci.nextEq (by simp [hh.1])
    have hca := hci.curAvail (by simp [hh.1])
    have hi1 : 1 ≤ (s.x.s.cons k j).i := by omega
    have hpi : progress (s.x.s.cons k j) = (s.x.s.cons k j).i - 1 := by simp [progress, hh.1]
    rw [if_pos hh] at hprog
    -- `i` is published, hence written by its claimant, and still live
    have hav := avail_le_cursor s.x.s hI k j hk hj (by simp [hh.1])
    have hicur : (s.x.s.cons k j).i ≤ s.x.s.cursor := by omega
    obtain ⟨hihw, hiw, _⟩ := published_below_cursor s.x hS (s.x.s.cons k j).i hi1 hicur
    have hfit := hF k j hk hj
    have hilive : Live s.x (s.x.s.cons k j).i := ⟨hi1, by omega, hiw⟩
    -- a mutable handler is alone in its stage
    have hj0 : c.hc.mutH k 0 = true → j = 0 := by
      intro hm; have := hT k 0 hk (hI.1 k hk) hm; omega
    have hmj : c.hc.mutH k j = true → j = 0 := by
      intro hm; have := hT k j hk hj hm; omega
    -- later stages (and the own stage) have not reached `i`
    have hlater : ∀ k', k ≤ k' → k' < s.x.s.K → c.hc.mutH k' 0 = true →
        ¬ (s.x.s.cons k j).i ≤ progress (s.x.s.cons k' 0) := by
      intro k' hkk hk' hm
      by_cases he : k' = k
      · subst he; have := hj0 hm; subst this; omega
      · have := progress_le_earlier_cur s.x.s hI (k' - k - 1) k' k 0 j (by omega) hk' (hI.1 k' hk') hj
        omega
    have hearlier : ∀ k', k' < k → c.hc.mutH k' 0 = true → (s.x.s.cons k j).i ≤ progress (s.x.s.cons k' 0) := by
      intro k' hkk _
      exact handling_le_earlier s.x.s hI k j hk hj hh.1 hh.2 k' 0 hkk (hI.1 k' (by omega))
    -- hence the slot holds what stage `k` must see
    have hv : s.slot ((s.x.s.cons k j).i % s.x.s.n) = expectBelow c.hc k (s.val (s.x.s.cons k j).i) := by
      rw [h.slots _ hilive, expectUpTo_unapplied c.hc s.x.s _ _ k s.x.s.K (by omega) hlater,
        expectUpTo_applied c.hc s.x.s _ _ hi1 k hearlier]
    constructor
    · rintro q ⟨hq1, hq2, hq3⟩
      rw [hx] at hq2 hq3 ⊢
      show (if c.mutH k j then updN s.slot _ _ else s.slot) (q % s.x.s.n) =
        expectUpTo c.hc (stepC s.x.s k j) s.x.s.K q (s.val q)
      have hq2' : s.x.hw < q + s.x.s.n := hq2
      have hq3' : Wrt s.x q := hq3
      have hqlive : Live s.x q := ⟨hq1, hq2', hq3'⟩
      by_cases he : q = (s.x.s.cons k j).i
      · subst he
        -- stages above `k` still have not reached `i`, stages below are unchanged
        rw [expectUpTo_unapplied c.hc (stepC s.x.s k j) _ _ (k + 1) s.x.s.K (by omega)
          (by intro k' hkk hk' hm
              rw [stepC_cons_other _ _ _ _ _ (by omega)]
              exact hlater k' (by omega) hk' hm)]
        simp only [expectUpTo]
        rw [expectUpTo_congr c.hc s.x.s (stepC s.x.s k j) k _ _
          (by intro k' hkk _; rw [stepC_cons_other _ _ _ _ _ (by omega)]),
          expectUpTo_applied c.hc s.x.s _ _ hi1 k hearlier, ← hv]
        by_cases hm : c.hc.mutH k 0 = true
        · have := hj0 hm; subst this
          rw [stepC_cons_self, hprog, hpi]
          have hm' : c.mutH k 0 = true := hm
          simp only [hm, hm', if_true, updN, hc_tf]
          have : (1 ≤ (s.x.s.cons k 0).i ∧ (s.x.s.cons k 0).i ≤ (s.x.s.cons k 0).i - 1 + 1) := by omega
          simp [this]
        · have hmj' : c.mutH k j = false := by
            cases hc' : c.mutH k j
            · rfl
            · have := hmj hc'; subst this; simp [hc_mutH, hc'] at hm
          simp [hm, hmj']
      · obtain ⟨i', hqw⟩ := hq3'
        have hmod := mod_ne_of_hw (hO.le q i' hqw) hq2' hihw (by omega) he
        have hslot : (if c.mutH k j then updN s.slot ((s.x.s.cons k j).i % s.x.s.n)
            (c.tf k j (s.slot ((s.x.s.cons k j).i % s.x.s.n))) else s.slot) (q % s.x.s.n) = s.slot (q % s.x.s.n) := by
          split
          · simp [updN, hmod]
          · rfl
        rw [hslot, h.slots q hqlive]
        apply expectUpTo_congr c.hc (stepC s.x.s k j) s.x.s
        intro k' _ hm
        by_cases hek : k' = k ∧ (0 : Nat) = j
        · obtain ⟨rfl, rfl⟩ := hek
          rw [stepC_cons_self, hprog, hpi]; omega
        · rw [stepC_cons_other _ _ _ _ _ hek] at *
    · intro k' j' hk' hj' e he
      rw [hx] at hk' hj' ⊢
      show 1 ≤ e.1 ∧ e.1 ≤ s.x.s.cursor ∧ e.2 = expectBelow c.hc k' (s.val e.1)
      by_cases hek : k' = k ∧ j' = j
      · obtain ⟨rfl, rfl⟩ := hek
        simp only [updL, and_self, if_true, List.mem_append, List.mem_singleton] at he
        rcases he with he | rfl
        · exact h.saw k' j' hk' hj' e he
        · exact ⟨hi1, hicur, hv⟩
      · simp only [updL, hek, if_false] at he
        exact h.saw k' j' hk' hj' e he
  · -- any other consumer step: slots and logs untouched, nobody's progress changes
    rename_i hnh
    rw [if_neg hnh] at hprog
    constructor
    · rintro q ⟨hq1, hq2, hq3⟩
      rw [hx] at hq2 hq3 ⊢
      show s.slot (q % s.x.s.n) = expectUpTo c.hc (stepC s.x.s k j) s.x.s.K q (s.val q)
      rw [h.slots q ⟨hq1, hq2, hq3⟩]
      apply expectUpTo_congr c.hc (stepC s.x.s k j) s.x.s
      intro k' _ hm
      by_cases hek : k' = k ∧ (0 : Nat) = j
      · obtain ⟨rfl, rfl⟩ := hek
        rw [stepC_cons_self, hprog]
      · rw [stepC_cons_other _ _ _ _ _ hek]
    · intro k' j' hk' hj' e he
      rw [hx] at hk' hj' ⊢
      exact h.saw k' j' hk' hj' e he

/-! ## the ghost write log: `val q` is the value of the one write of `q`, and that value is the claimant's next item -/

theorem snoc_eq_split {α : Type} (l : List α) (a b : α) (pre post : List α) (h : l ++ [a] = pre ++ b :: post) :
    (post = [] ∧ l = pre ∧ a = b) ∨ ∃ post', post = post' ++ [a] ∧ l = pre ++ b :: post' := by
  rcases List.eq_nil_or_concat post with rfl | ⟨L, z, rfl⟩
  · left
    have := List.append_inj' h (by simp)
    simp at this
    exact ⟨rfl, this⟩
  · right
    have h' : l ++ [a] = (pre ++ b :: L) ++ [z] := by simpa using h
    have := List.append_inj' h' (by simp)
    simp at this
    exact ⟨L, by rw [this.2]; simp, this.1⟩

structure MLogInv (c : MPCfg) (s : MPaySt) : Prop where
  /-- the log is the system's ghost list `written`, with values -/
  proj  : s.wlog.map (fun e => (e.1, e.2.1)) = s.x.written
  /-- `val` is the value of the (one) write of the sequence -/
  valOk : ∀ e, e ∈ s.wlog → s.val e.1 = e.2.2
  /-- the per-writer counter is the number of slot writes of that writer -/
  cntOk : ∀ i, s.cnt i = s.wlog.countP (fun e => e.2.1 == i)
  /-- the value of a write is the `pay` of the writer's next item: its `m`-th event, `m` = number of its earlier writes -/
  src   : ∀ pre e post, s.wlog = pre ++ e :: post →
            e.2.2 = c.pay e.2.1 (pre.countP (fun e' => e'.2.1 == e.2.1)) e.1

/-- a step that is not a slot write leaves the ghost log, the value map, the counters and `written` alone -/
theorem stepMPay_log_frame (c : MPCfg) (s : MPaySt) (t : MTid)
    (h : ∀ i, t = .writer i → ¬ (i < s.x.P ∧ (s.x.wr i).pc = .write ∧ (s.x.wr i).w ≤ (s.x.wr i).hi)) :
    (stepMPay c s t).wlog = s.wlog ∧ (stepMPay c s t).val = s.val ∧ (stepMPay c s t).cnt = s.cnt ∧
    (stepMPay c s t).x.written = s.x.written := by
  cases t with
  | writer i =>
    have hn := h i rfl
    rw [stepMPay_nowrite c s i hn]
    refine ⟨rfl, rfl, rfl, ?_⟩
    show (if i < s.x.P then stepWriter s.x i else s.x).written = s.x.written
    split
    · rename_i hi
      rw [stepWriter_written_eq, if_neg (fun hc => hn ⟨hi, hc⟩)]
    · rfl
  | drainer => exact ⟨rfl, rfl, rfl, (stepDrainer_frame s.x).2.2.2.2.2.1⟩
  | cons k j =>
    simp only [stepMPay]
    split
    · rename_i hkj
      have hx : stepM s.x (.cons k j) = { s.x with s := stepC s.x.s k j } := by simp [stepM, hkj]
      split <;> exact ⟨rfl, rfl, rfl, by rw [hx]⟩
    · exact ⟨rfl, rfl, rfl, rfl⟩

theorem mloginv_step (c : MPCfg) (s : MPaySt) (t : MTid) (hO : MOnce s.x) (h : MLogInv c s) :
    MLogInv c (stepMPay c s t) := by
  by_cases hw : ∀ i, t = .writer i → ¬ (i < s.x.P ∧ (s.x.wr i).pc = .write ∧ (s.x.wr i).w ≤ (s.x.wr i).hi)
  · obtain ⟨h1, h2, h3, h4⟩ := stepMPay_log_frame c s t hw
    exact ⟨by rw [h1, h4]; exact h.proj, by rw [h1, h2]; exact h.valOk, by rw [h1, h3]; exact h.cntOk,
      by rw [h1]; exact h.src⟩
  · have : ∃ i, t = .writer i ∧ i < s.x.P ∧ (s.x.wr i).pc = .write ∧ (s.x.wr i).w ≤ (s.x.wr i).hi := by
      apply Classical.byContradiction
      intro hc
      exact hw (fun i ht hcond => hc ⟨i, ht, hcond⟩)
    obtain ⟨i, rfl, hi, hpc, hle⟩ := this
    rw [stepMPay_write c s i hi hpc hle]
    have hwe := stepWriter_written_eq s.x i
    rw [if_pos ⟨hpc, hle⟩] at hwe
    have hun : unwr (s.x.wr i) (s.x.wr i).w := ⟨hpc, Nat.le_refl _, hle⟩
    constructor
    · show (s.wlog ++ [_]).map _ = (stepWriter s.x i).written
      rw [hwe, List.map_append, h.proj]; rfl
    · intro e he
      show updN s.val (s.x.wr i).w _ e.1 = e.2.2
      rw [List.mem_append, List.mem_singleton] at he
      rcases he with he | rfl
      · have hne : e.1 ≠ (s.x.wr i).w := by
          intro heq
          have hm : (e.1, e.2.1) ∈ s.x.written := by
            rw [← h.proj]; exact List.mem_map.2 ⟨e, he, rfl⟩
          rw [heq] at hm
          exact hO.gone _ _ hm i hi hun
        simp only [updN, hne, if_false]
        exact h.valOk e he
      · simp [updN]
    · intro i'
      show updN s.cnt i (s.cnt i + 1) i' = (s.wlog ++ [_]).countP _
      rw [List.countP_append, List.countP_singleton, ← h.cntOk i']
      by_cases he : i' = i
      · subst he; simp [updN]
      · have : ¬ i = i' := fun e => he e.symm
        simp [updN, he, this]
    · intro pre e post heq
      have heq' : s.wlog ++ [((s.x.wr i).w, i, c.pay i (s.cnt i) (s.x.wr i).w)] = pre ++ e :: post := heq
      rcases snoc_eq_split _ _ _ _ _ heq' with ⟨_, h1, h2⟩ | ⟨post', _, h1⟩
      · subst h2
        show c.pay i (s.cnt i) (s.x.wr i).w = c.pay i (pre.countP _) (s.x.wr i).w
        rw [h.cntOk i, h1]
      · exact h.src pre e post' h1

/-! ## what a handler saw is its delivery log -/

theorem mseen_eq_log_step (c : MPCfg) (s : MPaySt) (t : MTid)
    (h : ∀ k j, (s.seen k j).map (·.1) = (s.x.s.cons k j).log) :
    ∀ k j, ((stepMPay c s t).seen k j).map (·.1) = ((stepMPay c s t).x.s.cons k j).log := by
  intro k' j'
  cases t with
  | writer i =>
    have hc : (stepM s.x (.writer i)).s.cons = s.x.s.cons := by
      show (if i < s.x.P then stepWriter s.x i else s.x).s.cons = s.x.s.cons
      split
      · exact (stepWriter_s s.x i).1
      · rfl
    rw [stepMPay_x]
    simp only [stepMPay]
    split <;> (rw [hc]; exact h k' j')
  | drainer =>
    rw [stepMPay_x]
    show (s.seen k' j').map (·.1) = ((stepDrainer s.x).s.cons k' j').log
    rw [(stepDrainer_s s.x).1]; exact h k' j'
  | cons k j =>
    rw [stepMPay_x]
    simp only [stepMPay]
    split
    · rename_i hkj
      have hx : stepM s.x (.cons k j) = { s.x with s := stepC s.x.s k j } := by simp [stepM, hkj]
      split
      · rename_i hh
        rw [hx]
        by_cases he : k' = k ∧ j' = j
        · obtain ⟨rfl, rfl⟩ := he
          show (updL s.seen k' j' _ k' j').map (·.1) = ((stepC s.x.s k' j').cons k' j').log
          rw [stepC_cons_self]
          simp only [updL, and_self, if_true, List.map_append, List.map_cons, List.map_nil, h k' j', stepCons, hh.1, hh.2, if_true]
        · show (updL s.seen k j _ k' j').map (·.1) = ((stepC s.x.s k j).cons k' j').log
          rw [stepC_cons_other _ _ _ _ _ he]
          simp only [updL, he, if_false]; exact h k' j'
      · rename_i hnh
        rw [hx]
        show (s.seen k' j').map (·.1) = ((stepC s.x.s k j).cons k' j').log
        by_cases he : k' = k ∧ j' = j
        · obtain ⟨rfl, rfl⟩ := he
          rw [stepC_cons_self, h k' j']
          cases hpc : (s.x.s.cons k' j').pc <;> simp only [stepCons, hpc] <;> (repeat' split) <;> first | rfl | simp_all
        · rw [stepC_cons_other _ _ _ _ _ he]; exact h k' j'
    · rename_i hkj
      have : stepM s.x (.cons k j) = s.x := by simp [stepM, hkj]
      rw [this]; exact h k' j'

/-! ## every schedule -/

theorem mtopo_step (c : MPCfg) (x : MSt) (t : MTid) (h : Topo c.hc x.s) : Topo c.hc (stepM x t).s := by
  have key : ∀ s' : St, s'.K = x.s.K → s'.h = x.s.h → Topo c.hc s' := by
    intro s' hK hh k j hk hj hm
    rw [hK] at hk; rw [hh] at hj ⊢
    exact h k j hk hj hm
  cases t with
  | writer i =>
    show Topo c.hc (if i < x.P then stepWriter x i else x).s
    split
    · exact key _ (stepWriter_s x i).2.1 (stepWriter_s x i).2.2.1
    · exact h
  | drainer => exact key _ (stepDrainer_s x).2.1 (stepDrainer_s x).2.2.1
  | cons k j =>
    show Topo c.hc (if k < x.s.K ∧ j < x.s.h k then { x with s := stepC x.s k j } else x).s
    split
    · exact h
    · exact h

/-- everything the payload theorems need, as one inductive invariant of the layer -/
structure MPayGood (c : MPCfg) (s : MPaySt) : Prop where
  safe : MSafeOwn s.x
  fit  : MFit s.x
  once : MOnce s.x
  topo : Topo c.hc s.x.s
  pay  : MPayInv c s
  log  : MLogInv c s
  seen : ∀ k j, (s.seen k j).map (·.1) = (s.x.s.cons k j).log

theorem mpaygood_step (c : MPCfg) (s : MPaySt) (t : MTid) (h : MPayGood c s) : MPayGood c (stepMPay c s t) := by
  obtain ⟨hS, hF, hO, hT, hP, hL, hSeen⟩ := h
  refine ⟨by rw [stepMPay_x]; exact msafeOwn_stepM s.x t hS, by rw [stepMPay_x]; exact mfit_stepM s.x t hS.1.1 hF,
    by rw [stepMPay_x]; exact monce_stepM s.x t hS.1.2 hO, by rw [stepMPay_x]; exact mtopo_step c s.x t hT, ?_,
    mloginv_step c s t hO hL, mseen_eq_log_step c s t hSeen⟩
  cases t with
  | writer i =>
    by_cases hi : i < s.x.P
    · exact mpayinv_writer c s i hi hS.1 hO hP
    · have : stepMPay c s (.writer i) = s := by
        rw [stepMPay_nowrite c s i (fun hc => hi hc.1)]
        simp [stepM, hi]
      rw [this]; exact hP
  | drainer => exact mpayinv_drainer c s hP
  | cons k j =>
    by_cases hkj : k < s.x.s.K ∧ j < s.x.s.h k
    · exact mpayinv_cons c s k j hkj.1 hkj.2 hS.1 hF hO hT hP
    · have : stepMPay c s (.cons k j) = s := by simp [stepMPay, hkj]
      rw [this]; exact hP

theorem mpaygood_run (c : MPCfg) (s : MPaySt) (sched : List MTid) (h : MPayGood c s) : MPayGood c (runMPay c s sched) := by
  unfold runMPay
  induction sched generalizing s with
  | nil => exact h
  | cons t ts ih => exact ih _ (mpaygood_step c s t h)

theorem mpaygood_init (c : MPCfg) (e K : Nat) (h : Nat → Nat) (blocking : Bool) (batches : List (List Nat))
    (hK : 0 < K) (hh : ∀ k, k < K → 0 < h k) (hb : ∀ l, l ∈ batches → ∀ b, b ∈ l → 1 ≤ b)
    (hT : ∀ k j, k < K → j < h k → c.mutH k j = true → h k = 1) :
    MPayGood c (mkMPay (2 ^ e) K h blocking batches) := by
  have hS := msafe_init e K h blocking batches hK hh hb
  refine ⟨⟨hS, ?_⟩, ?_, ?_, hT, ?_, ?_, ?_⟩
  · refine ⟨?_, ?_, ?_⟩
    · intro i _ hp; simp [mkMPay, mkM] at hp
    · intro i _ cl hcl; simp [mkMPay, mkM] at hcl
    · intro q i hq; simp [mkMPay, mkM] at hq
  · intro k j _ _
    simp only [mkMPay, mkM]
    have := Nat.two_pow_pos e; omega
  · refine ⟨by simp [mkMPay, mkM], ?_, ?_⟩ <;> (intro q i hq; simp [mkMPay, mkM] at hq)
  · constructor
    · rintro q ⟨_, _, i, hq⟩; simp [mkMPay, mkM] at hq
    · intro k j _ _ e' he; simp [mkMPay] at he
  · constructor
    · simp [mkMPay, mkM]
    · intro e' he; simp [mkMPay] at he
    · intro i; simp [mkMPay]
    · intro pre e' post heq; simp [mkMPay] at heq
  · intro k j; rfl

/-- in a list of pairs whose first components are pairwise different the first component determines the second -/
theorem nodup_fst_unique {α β : Type} (l : List (α × β)) (h : (l.map (·.1)).Nodup) (a : α) (b b' : β)
    (h1 : (a, b) ∈ l) (h2 : (a, b') ∈ l) : b = b' := by
  induction l with
  | nil => simp at h1
  | cons x xs ih =>
    simp only [List.map_cons, List.nodup_cons] at h
    simp only [List.mem_cons] at h1 h2
    rcases h1 with rfl | h1 <;> rcases h2 with h2 | h2
    · exact (Prod.mk.inj h2).2.symm
    · exact absurd (List.mem_map.2 ⟨(a, b'), h2, rfl⟩) h.1
    · subst h2; exact absurd (List.mem_map.2 ⟨(a, b), h1, rfl⟩) h.1
    · exact ih h.2 h1 h2

end RingMultiPay
