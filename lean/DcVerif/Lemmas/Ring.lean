import DcVerif.Model.Ring
/-!
Inductive invariants of the single-producer pipeline (`Model/Ring.lean`), for **every** ring size, stage/handler
topology, batch list, wait strategy and schedule.

Proof pattern: a *local* invariant per thread whose clauses are of the form "local observation ≤ current global
counter" or relate locals to each other; (1) the thread's own step preserves it, (2) it is stable under growth of the
counters it mentions, (3) every step of every thread only grows counters. The mutex / wake-up state of the blocking
strategy occurs in no clause, so lock, unlock, wait and notify steps only move program counters.
-/
namespace Ring

/-- consumer-local invariant -/
structure CInv (s : St) (k : Nat) (c : Cons) : Prop where
  curDep  : ∀ d, d < ndeps s k → c.cur ≤ dep s k d
  idxLe   : c.pc = .waitLoad → c.idx ≤ ndeps s k
  accNone : c.pc = .waitLoad → c.idx = 0 → c.acc = none
  accLe   : c.pc = .waitLoad → ∀ m, c.acc = some m → ∀ d, d < c.idx → m ≤ dep s k d
  accSome : c.pc = .waitLoad → 0 < c.idx → c.acc.isSome
  availLe : (c.pc = .checkAvail ∨ c.pc = .bUnlockGo ∨ c.pc = .handle ∨ c.pc = .publish) →
              ∀ d, d < ndeps s k → c.avail ≤ dep s k d
  curAvail: (c.pc = .bUnlockGo ∨ c.pc = .handle ∨ c.pc = .publish) → c.cur < c.next ∧ c.next ≤ c.avail
  nextEq  : (c.pc = .bLock ∨ c.pc = .bAlert ∨ c.pc = .waitLoad ∨ c.pc = .checkAvail ∨ c.pc = .checkAlert ∨
             c.pc = .bUnlockGo ∨ c.pc = .bWait ∨ c.pc = .bRelock ∨ c.pc = .bUnlockRetry ∨ c.pc = .handle ∨
             c.pc = .publish) → c.next = c.cur + 1
  iGe     : c.pc = .handle → c.next ≤ c.i
  iLe     : c.pc = .handle → c.i ≤ c.avail + 1
  logH    : c.pc = .handle → c.log = List.range' 1 (c.i - 1)
  logP    : c.pc = .publish → c.log = List.range' 1 c.avail
  logO    : c.pc ≠ .handle → c.pc ≠ .publish → c.log = List.range' 1 c.cur

def Inv (s : St) : Prop :=
  (∀ k, k < s.K → 0 < s.h k) ∧ ∀ k j, k < s.K → j < s.h k → CInv s k (s.cons k j)

theorem ndeps_pos (s : St) (hp : ∀ k, k < s.K → 0 < s.h k) (k : Nat) (hk : k < s.K) : 0 < ndeps s k := by
  unfold ndeps; split
  · omega
  · apply hp; omega

theorem minOpt_le (a : Option Nat) (v m : Nat) (h : minOpt a v = some m) :
    m ≤ v ∧ ∀ m0, a = some m0 → m ≤ m0 := by
  cases a with
  | none => simp [minOpt] at h; subst h; simp
  | some m0 =>
    simp [minOpt] at h; subst h
    exact ⟨Nat.min_le_right _ _, by intro m1 h1; cases h1; exact Nat.min_le_left _ _⟩

theorem minOpt_isSome (a : Option Nat) (v : Nat) : (minOpt a v).isSome := by
  cases a <;> simp [minOpt]

theorem cload_step_accLe (s : St) (k : Nat) (acc : Option Nat) (idx : Nat)
    (h3 : ∀ m, acc = some m → ∀ d, d < idx → m ≤ dep s k d)
    (h4 : 0 < idx → acc.isSome) :
    ∀ m, minOpt acc (dep s k idx) = some m → ∀ d, d < idx + 1 → m ≤ dep s k d := by
  intro m hm d hd
  have hle := minOpt_le _ _ _ hm
  by_cases hdi : d < idx
  · cases hacc : acc with
    | none => have := h4 (by omega); simp [hacc] at this
    | some m0 => have := hle.2 m0 hacc; have := h3 m0 hacc d hdi; omega
  · have : d = idx := by omega
    subst this; exact hle.1

theorem cload_done_le (s : St) (k : Nat) (acc : Option Nat) (idx : Nat)
    (h3 : ∀ m, acc = some m → ∀ d, d < idx → m ≤ dep s k d)
    (h4 : 0 < idx → acc.isSome) (hidx : idx = ndeps s k) (hpos : 0 < ndeps s k) :
    ∀ d, d < ndeps s k → acc.getD 0 ≤ dep s k d := by
  intro d hd
  cases hacc : acc with
  | none => have := h4 (by omega); simp [hacc] at this
  | some m => simp; exact h3 m hacc d (by omega)

theorem range_snoc (i : Nat) (hi : 1 ≤ i) : List.range' 1 (i - 1) ++ [i] = List.range' 1 (i + 1 - 1) := by
  have : i + 1 - 1 = (i - 1) + 1 := by omega
  rw [this, List.range'_concat]; congr 2; omega

/-- a consumer's own step preserves its own local invariant -/
theorem own_step (s : St) (k j : Nat) (hk : k < s.K) (hI : Inv s)
    (c : Cons) (hc : CInv s k c) : CInv s k (stepCons s k j c) := by
  have hpos := ndeps_pos s hI.1 k hk
  obtain ⟨h1, h2, h3, h4, h5, h6, h7, h8, h9, h10, h11, h12, h13⟩ := hc
  cases hpc : c.pc <;> simp only [stepCons, hpc]
  case readOwn => split <;> constructor <;> grind
  case bLock => split <;> constructor <;> grind
  case bAlert => split <;> constructor <;> grind
  case waitLoad =>
    split
    · have := cload_step_accLe s k c.acc c.idx (h4 hpc) (h5 hpc)
      have := minOpt_isSome c.acc (dep s k c.idx)
      constructor <;> grind
    · have := cload_done_le s k c.acc c.idx (h4 hpc) (h5 hpc) (by grind) hpos
      constructor <;> grind
  case checkAvail => split <;> split <;> constructor <;> grind
  case checkAlert => split <;> constructor <;> grind
  case bUnlockGo => constructor <;> grind
  case bWait => constructor <;> grind
  case bRelock => split <;> constructor <;> grind
  case bUnlockRetry => constructor <;> grind
  case bUnlockExit => constructor <;> grind
  case handle =>
    split
    · have := range_snoc c.i (by grind)
      constructor <;> grind
    · constructor <;> grind
  case publish => split <;> constructor <;> grind
  case sLock => split <;> constructor <;> grind
  case sNotify => constructor <;> grind
  case sUnlock => constructor <;> grind
  case done => constructor <;> grind

/-- cursors only grow along a consumer's own step (given its invariant) -/
theorem cur_mono (s : St) (k j : Nat) (c : Cons) (hc : CInv s k c) : c.cur ≤ (stepCons s k j c).cur := by
  obtain ⟨h1, h2, h3, h4, h5, h6, h7, h8, h9, h10, h11, h12, h13⟩ := hc
  cases hpc : c.pc <;> simp only [stepCons, hpc] <;> (repeat' split) <;> grind

theorem stepC_cons (s : St) (k j : Nat) :
    (stepC s k j).cons = upd s.cons k j (stepCons s k j (s.cons k j)) := rfl

theorem stepC_fields (s : St) (k j : Nat) :
    (stepC s k j).n = s.n ∧ (stepC s k j).K = s.K ∧ (stepC s k j).h = s.h ∧ (stepC s k j).cursor = s.cursor ∧
    (stepC s k j).isDone = s.isDone ∧ (stepC s k j).blocking = s.blocking := ⟨rfl, rfl, rfl, rfl, rfl, rfl⟩

/-- every dependency value only grows when some consumer steps -/
theorem dep_mono_stepC (s : St) (k j : Nat) (hk : k < s.K) (hj : j < s.h k) (hI : Inv s) (k' d : Nat) :
    dep s k' d ≤ dep (stepC s k j) k' d := by
  unfold dep
  rw [stepC_cons]; unfold upd
  by_cases h0 : k' = 0
  · simp [h0, stepC]
  · simp only [h0, if_false]
    by_cases hh : k' - 1 = k ∧ d = j
    · simp only [hh, and_self, if_true]
      exact cur_mono s k j _ (hI.2 k j hk hj)
    · simp only [hh, if_false]; exact Nat.le_refl _

/-- the local invariant of a consumer is stable under growth of its dependencies -/
theorem cinv_stable (s s' : St) (k : Nat) (c : Cons) (hc : CInv s k c)
    (hn : ndeps s' k = ndeps s k) (hm : ∀ d, dep s k d ≤ dep s' k d) : CInv s' k c := by
  obtain ⟨h1, h2, h3, h4, h5, h6, h7, h8, h9, h10, h11, h12, h13⟩ := hc
  constructor
  · intro d hd; exact Nat.le_trans (h1 d (by omega)) (hm d)
  · grind
  · grind
  · intro hp m hmm d hd; exact Nat.le_trans (h4 hp m hmm d hd) (hm d)
  · grind
  · intro hp d hd; exact Nat.le_trans (h6 hp d (by omega)) (hm d)
  all_goals grind

/-- own step of a consumer seen from the stepped state: only `blocking`, `isDone`, `mtx`, `woken`, `ndeps`, `dep` of
the *pre*-state are read -/
theorem inv_stepC (s : St) (k j : Nat) (hk : k < s.K) (hj : j < s.h k) (hI : Inv s) : Inv (stepC s k j) := by
  refine ⟨hI.1, ?_⟩
  intro k' j' hk' hj'
  have hown := own_step s k j hk hI (s.cons k j) (hI.2 k j hk hj)
  have hn : ∀ k'', ndeps (stepC s k j) k'' = ndeps s k'' := by intro k''; rfl
  have hm : ∀ k'' d, dep s k'' d ≤ dep (stepC s k j) k'' d := fun k'' d => dep_mono_stepC s k j hk hj hI k'' d
  by_cases he : k' = k ∧ j' = j
  · obtain ⟨rfl, rfl⟩ := he
    have : (stepC s k' j').cons k' j' = stepCons s k' j' (s.cons k' j') := by simp [stepC, upd]
    rw [this]
    exact cinv_stable s _ k' _ hown (hn k') (hm k')
  · have : (stepC s k j).cons k' j' = s.cons k' j' := by simp [stepC, upd, he]
    rw [this]
    exact cinv_stable s _ k' _ (hI.2 k' j' hk' hj') (hn k') (hm k')

/-! ## producer -/

/-- pcs at which the producer is between two `write` calls or draining: the published cursor accounts for
everything claimed -/
def PPc.idle : PPc → Bool
  | .start | .pLock | .pNotify | .pUnlock | .drainInit | .drainLoad | .drainCheck | .dLock | .dNotify | .dUnlock
  | .setDone | .eLock | .eNotify | .eUnlock | .dropDone | .fLock | .fNotify | .fUnlock | .done => true
  | _ => false

def PPc.draining : PPc → Bool
  | .drainLoad | .drainCheck | .dLock | .dNotify | .dUnlock
  | .setDone | .eLock | .eNotify | .eUnlock | .dropDone | .fLock | .fNotify | .fUnlock | .done => true
  | _ => false

def PPc.drained : PPc → Bool
  | .setDone | .eLock | .eNotify | .eUnlock | .dropDone | .fLock | .fNotify | .fUnlock | .done => true
  | _ => false

/-- `Tiles a cs b`: the claimed ranges `cs`, in claim order, partition `[a, b)` into consecutive non-empty ranges, each
of exactly the requested length -/
inductive Tiles : Nat → List (Nat × Nat × Nat) → Nat → Prop
  | nil (a) : Tiles a [] a
  | cons {a lo hi cnt rest b} : lo = a → 1 ≤ cnt → hi + 1 = lo + cnt → Tiles (hi + 1) rest b →
      Tiles a ((lo, hi, cnt) :: rest) b

theorem Tiles.snoc {a b : Nat} {cs : List (Nat × Nat × Nat)} (h : Tiles a cs b) (hi cnt : Nat)
    (hc : 1 ≤ cnt) (he : hi + 1 = b + cnt) : Tiles a (cs ++ [(b, hi, cnt)]) (hi + 1) := by
  induction h with
  | nil a => exact Tiles.cons rfl hc he (Tiles.nil _)
  | cons h1 h2 h3 _ ih => exact Tiles.cons h1 h2 h3 (ih he)

/-- producer-local invariant -/
structure PInv (s : St) (p : Prod) : Prop where
  minLe    : ∀ d, d < ngate s → p.min ≤ gate s d
  cachedLe : ∀ d, d < ngate s → p.cached ≤ gate s d
  accLe    : (p.pc = .gateLoad ∨ p.pc = .drainLoad) → ∀ m, p.acc = some m → ∀ d, d < p.idx → m ≤ gate s d
  accSome  : (p.pc = .gateLoad ∨ p.pc = .drainLoad) → 0 < p.idx → p.acc.isSome
  idxLe    : (p.pc = .gateLoad ∨ p.pc = .drainLoad) → p.idx ≤ ngate s
  nw       : p.pc.idle = true → (s.cursor + 1 = p.nextWrite ∨ (s.cursor = 0 ∧ p.nextWrite = 0))
  cur      : p.pc.draining = true → p.current = p.nextWrite - 1
  claim    : (p.pc = .gateCheck ∨ p.pc = .gateLoad) →
               (s.cursor + 1 = p.start ∨ (s.cursor = 0 ∧ p.start = 0)) ∧ p.start ≤ p.stop ∧ p.nextWrite = p.start
  wr       : (p.pc = .write ∨ p.pc = .publish) →
               (s.cursor + 1 = p.start ∨ (s.cursor = 0 ∧ p.start = 0)) ∧ p.start ≤ p.stop ∧
               p.nextWrite = p.stop + 1 ∧ p.stop ≤ p.min + s.n ∧ p.start ≤ p.w ∧ p.w ≤ p.stop + 1 ∧
               (p.pc = .publish → p.w = p.stop + 1)
  drained  : p.pc.drained = true → ∀ d, d < ngate s → p.nextWrite - 1 ≤ gate s d
  wrote    : p.written = List.range' 0 (if p.pc = .write ∨ p.pc = .publish then p.w else p.nextWrite)
  cnt      : (p.pc = .gateCheck ∨ p.pc = .gateLoad) → 1 ≤ p.count ∧ p.stop + 1 = p.start + p.count
  tiles    : Tiles 0 p.claims (if p.pc = .gateCheck ∨ p.pc = .gateLoad then p.start else p.nextWrite)

def PInvAll (x : PSt) : Prop := Inv x.s ∧ 0 < x.s.K ∧ PInv x.s x.p ∧ (∀ b, b ∈ x.p.todo → 1 ≤ b)

theorem ngate_pos (s : St) (hp : ∀ k, k < s.K → 0 < s.h k) (hK : 0 < s.K) : 0 < ngate s := by
  unfold ngate; apply hp; omega

theorem load_step_accLe (s : St) (acc : Option Nat) (idx : Nat)
    (h3 : ∀ m, acc = some m → ∀ d, d < idx → m ≤ gate s d)
    (h4 : 0 < idx → acc.isSome) :
    ∀ m, minOpt acc (gate s idx) = some m → ∀ d, d < idx + 1 → m ≤ gate s d := by
  intro m hm d hd
  have hle := minOpt_le _ _ _ hm
  by_cases hdi : d < idx
  · cases hacc : acc with
    | none => have := h4 (by omega); simp [hacc] at this
    | some m0 => have := hle.2 m0 hacc; have := h3 m0 hacc d hdi; omega
  · have : d = idx := by omega
    subst this; exact hle.1

theorem load_done_le (s : St) (acc : Option Nat) (idx : Nat)
    (h3 : ∀ m, acc = some m → ∀ d, d < idx → m ≤ gate s d)
    (h4 : 0 < idx → acc.isSome) (hidx : idx = ngate s) (hpos : 0 < ngate s) :
    ∀ d, d < ngate s → acc.getD 0 ≤ gate s d := by
  intro d hd
  cases hacc : acc with
  | none => have := h4 (by omega); simp [hacc] at this
  | some m => simp; exact h3 m hacc d (by omega)

theorem range_snoc0 (w : Nat) : List.range' 0 w ++ [w] = List.range' 0 (w + 1) := by
  rw [List.range'_concat]; simp

macro "pstep" : tactic => `(tactic| (constructor <;> (try simp only [PPc.idle, PPc.draining, PPc.drained]) <;> grind [ngate, gate]))

set_option maxHeartbeats 1000000 in
theorem prod_own_step (x : PSt) (h : PInvAll x) : PInv (stepProd x).s (stepProd x).p := by
  obtain ⟨hI, hK, ⟨h1, h2, h3, h4, h5, h6, h6c, h7, h8, h9, h10, h11, h12⟩, hb⟩ := h
  have hpos := ngate_pos x.s hI.1 hK
  have hsn := range_snoc0 x.p.w
  cases hpc : x.p.pc <;> simp only [stepProd, hpc] <;>
    simp only [hpc, PPc.idle, PPc.draining, PPc.drained] at h6 h6c h9 h10 h3 h4 h5 h7 h8 h11 h12
  case start =>
    cases htodo : x.p.todo with
    | nil => simp only []; pstep
    | cons b rest =>
      have hb1 := hb b (by simp [htodo])
      simp only []; pstep
  case gateCheck =>
    have htile := Tiles.snoc (by simpa using h12) x.p.stop x.p.count (h11 (by simp)).1 (h11 (by simp)).2
    split <;> pstep
  case gateLoad =>
    split
    · have := load_step_accLe x.s x.p.acc x.p.idx (h3 (by simp)) (h4 (by simp))
      have := minOpt_isSome x.p.acc (gate x.s x.p.idx)
      pstep
    · have := load_done_le x.s x.p.acc x.p.idx (h3 (by simp)) (h4 (by simp)) (by grind) hpos
      pstep
  case write => split <;> pstep
  case publish => split <;> pstep
  case drainLoad =>
    split
    · have := load_step_accLe x.s x.p.acc x.p.idx (h3 (by simp)) (h4 (by simp))
      have := minOpt_isSome x.p.acc (gate x.s x.p.idx)
      pstep
    · have := load_done_le x.s x.p.acc x.p.idx (h3 (by simp)) (h4 (by simp)) (by grind) hpos
      pstep
  case drainCheck => split <;> (try split) <;> pstep
  case drainInit => pstep
  case pLock => split <;> pstep
  case pNotify => pstep
  case pUnlock => pstep
  case dLock => split <;> pstep
  case dNotify => pstep
  case dUnlock => pstep
  case setDone => split <;> pstep
  case eLock => split <;> pstep
  case eNotify => pstep
  case eUnlock => pstep
  case dropDone => split <;> pstep
  case fLock => split <;> pstep
  case fNotify => pstep
  case fUnlock => pstep
  case done => pstep

/-! ## the combined system -/

theorem pinv_stable (s s' : St) (p : Prod) (hp : PInv s p)
    (hn : ngate s' = ngate s) (hm : ∀ d, gate s d ≤ gate s' d) (hc : s'.cursor = s.cursor) (hnn : s'.n = s.n) :
    PInv s' p := by
  obtain ⟨h1, h2, h3, h4, h5, h6, h6c, h7, h8, h9, h10, h11, h12⟩ := hp
  constructor
  · intro d hd; exact Nat.le_trans (h1 d (by omega)) (hm d)
  · intro d hd; exact Nat.le_trans (h2 d (by omega)) (hm d)
  · intro hp m hmm d hd; exact Nat.le_trans (h3 hp m hmm d hd) (hm d)
  · grind
  · grind
  · grind
  · grind
  · grind
  · grind
  · intro hp d hd; exact Nat.le_trans (h9 hp d (by omega)) (hm d)
  · grind
  · grind
  · grind

theorem gate_mono_stepC (s : St) (k j : Nat) (hk : k < s.K) (hj : j < s.h k) (hI : Inv s) (d : Nat) :
    gate s d ≤ gate (stepC s k j) d := by
  unfold gate
  rw [stepC_cons]; unfold upd
  show (s.cons (s.K - 1) d).cur ≤ _
  have hK : (stepC s k j).K = s.K := rfl
  rw [hK]
  by_cases hh : s.K - 1 = k ∧ d = j
  · simp only [hh, and_self, if_true]
    have := cur_mono s k j _ (hI.2 k j hk hj)
    obtain ⟨rfl, rfl⟩ := hh
    exact this
  · simp only [hh, if_false]; exact Nat.le_refl _

theorem cursor_mono_prod (x : PSt) (h : PInvAll x) : x.s.cursor ≤ (stepProd x).s.cursor := by
  obtain ⟨hI, hK, ⟨h1, h2, h3, h4, h5, h6, h6c, h7, h8, h9, h10, h11, h12⟩, hb⟩ := h
  cases hpc : x.p.pc <;> simp only [stepProd, hpc] <;> (try split) <;> (try split) <;> grind

theorem cons_same_prod (x : PSt) : (stepProd x).s.cons = x.s.cons ∧ (stepProd x).s.K = x.s.K ∧
    (stepProd x).s.h = x.s.h ∧ (stepProd x).s.n = x.s.n ∧ (stepProd x).s.blocking = x.s.blocking := by
  cases hpc : x.p.pc <;> simp only [stepProd, hpc] <;> (try split) <;> (try split) <;> simp

theorem todo_prod (x : PSt) (hb : ∀ b, b ∈ x.p.todo → 1 ≤ b) : ∀ b, b ∈ (stepProd x).p.todo → 1 ≤ b := by
  cases hpc : x.p.pc <;> simp only [stepProd, hpc] <;> (try split) <;> (try split) <;> grind

theorem inv_stepX (x : PSt) (t : Tid) (h : PInvAll x) : PInvAll (stepX x t) := by
  cases t with
  | prod =>
    show PInvAll (stepProd x)
    have hown := prod_own_step x h
    have hmono := cursor_mono_prod x h
    obtain ⟨hc, hK', hh, hn, _⟩ := cons_same_prod x
    obtain ⟨hI, hK, hP, hb⟩ := h
    refine ⟨⟨?_, ?_⟩, ?_, hown, todo_prod x hb⟩
    · intro k hk; rw [hh]; rw [hK'] at hk; exact hI.1 k hk
    · intro k j hk hj
      rw [hK'] at hk; rw [hh] at hj; rw [hc]
      apply cinv_stable x.s _ k _ (hI.2 k j hk hj)
      · simp [ndeps, hh]
      · intro d; unfold dep; rw [hc]; split
        · exact hmono
        · exact Nat.le_refl _
    · rw [hK']; exact hK
  | cons k j =>
    show PInvAll (if k < x.s.K ∧ j < x.s.h k then { x with s := stepC x.s k j } else x)
    split
    · rename_i hkj
      obtain ⟨hI, hK, hP, hb⟩ := h
      refine ⟨inv_stepC x.s k j hkj.1 hkj.2 hI, hK, ?_, hb⟩
      exact pinv_stable x.s _ x.p hP rfl (gate_mono_stepC x.s k j hkj.1 hkj.2 hI) rfl rfl
    · exact h

/-- every reachable state satisfies the invariant, for every schedule -/
theorem inv_run (x : PSt) (sched : List Tid) (h : PInvAll x) : PInvAll (runX x sched) := by
  unfold runX
  induction sched generalizing x with
  | nil => exact h
  | cons t ts ih => exact ih _ (inv_stepX x t h)

/-- the initial state of every configuration satisfies the invariant -/
theorem inv_init (n K : Nat) (h : Nat → Nat) (blocking : Bool) (batches : List Nat)
    (hK : 0 < K) (hh : ∀ k, k < K → 0 < h k) (hb : ∀ b, b ∈ batches → 1 ≤ b) :
    PInvAll (mk n K h blocking batches) := by
  refine ⟨⟨hh, ?_⟩, hK, ?_, hb⟩
  · intro k j hk hj
    constructor <;> simp [mk, dep]
  · constructor <;> simp [mk, gate, PPc.idle, PPc.draining, PPc.drained]
    exact Tiles.nil 0

/-! ## consequences: stage chain, no-lap -/

theorem chain_up (s : St) (hI : Inv s) : ∀ k j, k < s.K → j < s.h k → (s.cons k j).cur ≤ s.cursor := by
  intro k
  induction k with
  | zero =>
    intro j hk hj
    have := (hI.2 0 j hk hj).curDep 0 (by simp [ndeps])
    simpa [dep] using this
  | succ k ih =>
    intro j hk hj
    have hpos := hI.1 k (by omega)
    have := (hI.2 (k+1) j hk hj).curDep 0 (by simp [ndeps]; exact hpos)
    simp [dep] at this
    exact Nat.le_trans this (ih 0 (by omega) hpos)

theorem avail_le_cursor (s : St) (hI : Inv s) (k j : Nat) (hk : k < s.K) (hj : j < s.h k)
    (hpc : (s.cons k j).pc = .checkAvail ∨ (s.cons k j).pc = .bUnlockGo ∨ (s.cons k j).pc = .handle ∨
           (s.cons k j).pc = .publish) :
    (s.cons k j).avail ≤ s.cursor := by
  have hpos := ndeps_pos s hI.1 k hk
  have := (hI.2 k j hk hj).availLe hpc 0 hpos
  cases k with
  | zero => simpa [dep] using this
  | succ k =>
    simp [dep] at this
    exact Nat.le_trans this (chain_up s hI k 0 (by omega) (hI.1 k (by omega)))

/-- any value below all last-stage cursors is below every handler cursor -/
theorem below_all (s : St) (hI : Inv s) (hK : 0 < s.K) (m : Nat) (hm : ∀ d, d < ngate s → m ≤ gate s d) :
    ∀ r k j, k + r + 1 = s.K → j < s.h k → m ≤ (s.cons k j).cur := by
  intro r
  induction r with
  | zero =>
    intro k j hk hj
    have : k = s.K - 1 := by omega
    subst this
    exact hm j (by simpa [ngate] using hj)
  | succ r ih =>
    intro k j hk hj
    have hpos := hI.1 (k+1) (by omega)
    have h1 := ih (k+1) 0 (by omega) hpos
    have h2 := (hI.2 (k+1) 0 (by omega) hpos).curDep j (by simp [ndeps]; exact hj)
    simp [dep] at h2
    exact Nat.le_trans h1 h2

/-- **no-lap**: while the producer is writing sequence `w`, every handler that is handling sequence `i` has
`i < w < i + n` — so the two never touch the same slot (`mod n`). -/
theorem no_lap (x : PSt) (h : PInvAll x) (hw : x.p.pc = .write) (hww : x.p.w ≤ x.p.stop)
    (k j : Nat) (hk : k < x.s.K) (hj : j < x.s.h k)
    (hc : (x.s.cons k j).pc = .handle) (hi : (x.s.cons k j).i ≤ (x.s.cons k j).avail) :
    (x.s.cons k j).i < x.p.w ∧ x.p.w < (x.s.cons k j).i + x.s.n := by
  obtain ⟨hI, hK, hP, hb⟩ := h
  have hav := avail_le_cursor x.s hI k j hk hj (by simp [hc])
  have hci := hI.2 k j hk hj
  have hnext := hci.nextEq (by simp [hc])
  have hige := hci.iGe hc
  have hwr := hP.wr (by simp [hw])
  have hmin := below_all x.s hI hK x.p.min hP.minLe (x.s.K - 1 - k) k j (by omega) hj
  have hca := hci.curAvail (by simp [hc])
  constructor
  · rcases hwr.1 with h1 | ⟨h1, h2⟩ <;> omega
  · omega

/-- a state reachable in a well-formed single-producer pipeline: any ring size, any topology with at least one stage and at
least one handler per stage, either wait strategy, any list of batches of at least one event, **any schedule** -/
def Reachable (x : PSt) : Prop :=
  ∃ (n K : Nat) (h : Nat → Nat) (blocking : Bool) (batches : List Nat) (sched : List Tid),
    0 < K ∧ (∀ k, k < K → 0 < h k) ∧ (∀ b, b ∈ batches → 1 ≤ b) ∧ x = runX (mk n K h blocking batches) sched

theorem reachable_inv {x : PSt} (hr : Reachable x) : PInvAll x := by
  obtain ⟨n, K, h, bl, bs, sched, hK, hh, hb, rfl⟩ := hr
  exact inv_run _ sched (inv_init n K h bl bs hK hh hb)

theorem reachable_step {x : PSt} (hr : Reachable x) (t : Tid) : Reachable (stepX x t) := by
  obtain ⟨n, K, h, bl, bs, sched, hK, hh, hb, rfl⟩ := hr
  exact ⟨n, K, h, bl, bs, sched ++ [t], hK, hh, hb, by simp [runX, List.foldl_append]⟩

end Ring
