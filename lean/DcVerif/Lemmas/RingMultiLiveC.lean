import DcVerif.Lemmas.RingLive
/-!
# The handler threads' side of the liveness argument, independent of the producer

`Lemmas/RingLive.lean` instantiates the fair-termination rules for the pipeline with the single-producer sequencer. The part
of that argument that concerns the handler threads reads the shared state `St` only (producer cursor, `is_done`, the mutex,
the wake-up flags, the handler records). This file restates it over `St`, so that it can be combined with any producer
side — here the multi-producer sequencer (`Lemmas/RingMultiLive*.lean`). Nothing in here is specific to one sequencer.

* remaining-work measure of the handlers relative to a final cursor value `fin` (`wC`, `μC`);
* outstanding wake-ups (`ow`, `owedW`, `bnd`), readiness and ranks of the blocking strategy (`readyC`, `rankC`,
  `owedParked`), the own-step lemma `hown_cons`, the frame lemma `cons_frame`.
-/
namespace Ring
namespace CS
open Blk (condCD cons_cur_nonpublish woken_other woken_other_eq owed_congr owed_congr_nr stepC_stutter)

/-! ## frame facts of a handler step -/

theorem stepC_cur_same (s : St) (k j : Nat) (hcur : (stepCons s k j (s.cons k j)).cur = (s.cons k j).cur)
    (a b : Nat) : ((stepC s k j).cons a b).cur = (s.cons a b).cur := by
  by_cases he : a = k ∧ b = j
  · obtain ⟨rfl, rfl⟩ := he; simp [stepC, upd, hcur]
  · simp [stepC, upd, he]

theorem dep_stepC (s : St) (k j : Nat) (hcur : (stepCons s k j (s.cons k j)).cur = (s.cons k j).cur)
    (a d : Nat) : dep (stepC s k j) a d = dep s a d := by
  unfold dep
  by_cases h0 : a = 0
  · simp [h0]; rfl
  · simp only [h0, if_false]; exact stepC_cur_same s k j hcur (a-1) d

theorem gate_stepC (s : St) (k j : Nat) (hcur : (stepCons s k j (s.cons k j)).cur = (s.cons k j).cur)
    (d : Nat) : gate (stepC s k j) d = gate s d := by
  unfold gate; exact stepC_cur_same s k j hcur _ d

/-! ## remaining work of the handlers, relative to the final value `fin` of the producer cursor -/

def wC (fin : Nat) (s : St) (k j : Nat) : Nat :=
  (fin - (s.cons k j).cur) + (if (s.cons k j).pc = .done then 0 else 1)

def μC (fin : Nat) (s : St) : Nat := sumTo s.K (fun k => sumTo (s.h k) (fun j => wC fin s k j))

theorem wC_other (fin : Nat) (s : St) (k j k' j' : Nat) (h : ¬(k' = k ∧ j' = j)) :
    wC fin (stepC s k j) k' j' = wC fin s k' j' := by
  simp [wC, stepC, upd, h]

theorem wC_own_le (fin : Nat) (s : St) (k j : Nat) (hk : k < s.K) (hj : j < s.h k) (hI : Inv s) :
    wC fin (stepC s k j) k j ≤ wC fin s k j := by
  have hci := hI.2 k j hk hj
  have hm := cur_mono s k j _ hci
  have e : (stepC s k j).cons k j = stepCons s k j (s.cons k j) := by simp [stepC, upd]
  simp only [wC, e]
  have hd : (s.cons k j).pc = .done → (stepCons s k j (s.cons k j)).pc = .done := by
    intro hpc; simp [stepCons, hpc]
  by_cases hpc : (s.cons k j).pc = .done
  · simp [hpc, hd hpc]; omega
  · simp only [hpc, if_false]; split <;> omega

theorem μC_stepC_le (fin : Nat) (s : St) (k j : Nat) (hk : k < s.K) (hj : j < s.h k) (hI : Inv s) :
    μC fin (stepC s k j) ≤ μC fin s := by
  apply sumTo_le
  intro a ha
  apply sumTo_le
  intro b hb
  by_cases he : a = k ∧ b = j
  · obtain ⟨rfl, rfl⟩ := he; exact wC_own_le fin s a b hk hj hI
  · rw [wC_other fin s k j a b he]; exact Nat.le_refl _

theorem μC_stepC_lt (fin : Nat) (s : St) (k j : Nat) (hk : k < s.K) (hj : j < s.h k) (hI : Inv s)
    (hs : wC fin (stepC s k j) k j < wC fin s k j) : μC fin (stepC s k j) < μC fin s := by
  apply sumTo_lt _ _ _ _ k hk
  · apply sumTo_lt _ _ _ _ j hj hs
    intro b hb
    by_cases he : k = k ∧ b = j
    · obtain ⟨_, rfl⟩ := he; exact wC_own_le fin s k b hk hj hI
    · rw [wC_other fin s k j k b he]; exact Nat.le_refl _
  · intro a ha
    apply sumTo_le
    intro b hb
    by_cases he : a = k ∧ b = j
    · obtain ⟨rfl, rfl⟩ := he; exact wC_own_le fin s a b hk hj hI
    · rw [wC_other fin s k j a b he]; exact Nat.le_refl _

theorem wC_progress (fin : Nat) (s : St) (k j : Nat) (hk : k < s.K) (hj : j < s.h k) (hI : Inv s)
    (hfin : s.cursor ≤ fin)
    (hp : progressC (s.cons k j) (stepCons s k j (s.cons k j))) : wC fin (stepC s k j) k j < wC fin s k j := by
  have hci := hI.2 k j hk hj
  have hm := cur_mono s k j _ hci
  have hI' := inv_stepC s k j hk hj hI
  have hup := chain_up (stepC s k j) hI' k j hk hj
  have e : (stepC s k j).cons k j = stepCons s k j (s.cons k j) := by simp [stepC, upd]
  have ecur : (stepC s k j).cursor = s.cursor := rfl
  rw [e, ecur] at hup
  simp only [wC, e]
  rcases hp with hp | ⟨hp1, hp2⟩
  · have hd : (s.cons k j).pc ≠ .done := by
      intro hd; simp [stepCons, hd] at hp
    simp only [hd, if_false]
    split <;> omega
  · simp [hp1, hp2]; omega

theorem μC_progress (fin : Nat) (s : St) (k j : Nat) (hk : k < s.K) (hj : j < s.h k) (hI : Inv s)
    (hfin : s.cursor ≤ fin)
    (hp : progressC (s.cons k j) (stepCons s k j (s.cons k j))) : μC fin (stepC s k j) < μC fin s :=
  μC_stepC_lt fin s k j hk hj hI (wC_progress fin s k j hk hj hI hfin hp)

/-- the measure only reads the handler records and the topology -/
theorem μC_congr (fin : Nat) (s s' : St) (hc : s'.cons = s.cons) (hK : s'.K = s.K) (hh : s'.h = s.h) :
    μC fin s' = μC fin s := by
  simp only [μC, wC, hc, hK, hh]

theorem publish_progress (s : St) (k j : Nat) (hk : k < s.K) (hj : j < s.h k) (hI : Inv s)
    (hp : (s.cons k j).pc = .publish) : progressC (s.cons k j) (stepCons s k j (s.cons k j)) := by
  left
  have := (hI.2 k j hk hj).curAvail (by simp [hp])
  simp [stepCons, hp]; omega

/-! ## spin strategy: a ready handler's own step, another handler's step -/

open Classical in
noncomputable def rankS (s : St) (k j : Nat) : Nat :=
  Spin.rankC (ndeps s k) (decide (condC s k (s.cons k j))) s.cursor s.isDone (s.cons k j)

open Classical in
/-- spin strategy: the own step of a ready handler is a progress event, or decreases its rank and keeps it ready -/
theorem spin_hown (s : St) (hI : Inv s) (hspin : s.blocking = false) (k j : Nat) (hk : k < s.K) (hj : j < s.h k)
    (hrc : Spin.readyC s k (s.cons k j)) :
    progressC (s.cons k j) (stepCons s k j (s.cons k j)) ∨
      (rankS (stepC s k j) k j < rankS s k j ∧ Spin.readyC (stepC s k j) k ((stepC s k j).cons k j)) := by
  have hci := hI.2 k j hk hj
  have hpos := ndeps_pos s hI.1 k hk
  have hdepc := Spin.dep_le_cursor s hI k hk
  have e : (stepC s k j).cons k j = stepCons s k j (s.cons k j) := by simp [stepC, upd]
  rcases Classical.em (progressC (s.cons k j) (stepCons s k j (s.cons k j))) with hp | hnp
  · exact Or.inl hp
  · right
    have hcur := cons_step_cur s k j _ hci hnp
    have hcond : condC (stepC s k j) k ((stepC s k j).cons k j) ↔ condC s k (s.cons k j) := by
      rw [e]; exact condC_stepC s k j _ _ hcur
    have hown := Spin.own_rank_cons s k j (s.cons k j) (decide (condC s k (s.cons k j))) hspin hci hpos
      (by simp) hdepc ((Spin.readyC_iff _ _ _).1 hrc)
    rcases hown with hp | ⟨hrk, hrd⟩
    · exact absurd hp hnp
    · have hd : decide (condC (stepC s k j) k ((stepC s k j).cons k j)) = decide (condC s k (s.cons k j)) :=
        decide_eq_decide.2 hcond
      refine ⟨?_, ?_⟩
      · show Spin.rankC (ndeps (stepC s k j) k) (decide (condC (stepC s k j) k ((stepC s k j).cons k j)))
            (stepC s k j).cursor (stepC s k j).isDone ((stepC s k j).cons k j) < _
        rw [hd, e]; exact hrk
      · rw [Spin.readyC_iff, hd, e]; exact hrd

open Classical in
/-- spin strategy: readiness and rank of a handler only depend on its own record, the counters it reads and `is_done` -/
theorem spin_frame (s s' : St) (k j : Nat) (hcj : s'.cons k j = s.cons k j)
    (hcur : ∀ a b, (s'.cons a b).cur = (s.cons a b).cur) (hcursor : s'.cursor = s.cursor)
    (hd : s'.isDone = s.isDone) (hh : s'.h = s.h)
    (hr : Spin.readyC s k (s.cons k j)) : rankS s' k j = rankS s k j ∧ Spin.readyC s' k (s'.cons k j) := by
  have hcc : condC s' k (s.cons k j) ↔ condC s k (s.cons k j) := condC_congr s s' k _ hcur hcursor hh
  have hdd : decide (condC s' k (s.cons k j)) = decide (condC s k (s.cons k j)) := decide_eq_decide.2 hcc
  have hnd : ndeps s' k = ndeps s k := by simp [ndeps, hh]
  refine ⟨?_, ?_⟩
  · unfold rankS; rw [hcj, hdd, hnd, hcursor, hd]
  · rw [Spin.readyC_iff, hcj, hdd, hd]; exact (Spin.readyC_iff _ _ _).1 hr

/-! ## blocking strategy: outstanding wake-ups -/

open Classical in
/-- weight of an outstanding wake-up: 2 while the handler is still on its way to park, 1 once it is parked -/
noncomputable def ow (s : St) (k j : Nat) : Nat :=
  if owed s k j then (if (s.cons k j).pc = .bRelock then 1 else 2) else 0

noncomputable def owedW (s : St) : Nat := sumTo s.K (fun k => sumTo (s.h k) (fun j => ow s k j))

def bnd (s : St) : Nat := sumTo s.K (fun k => sumTo (s.h k) (fun _ => 2))

theorem ow_le_two (s : St) (k j : Nat) : ow s k j ≤ 2 := by
  unfold ow; split <;> (try split) <;> omega

theorem owedW_le_bnd (s : St) : owedW s ≤ bnd s := by
  apply sumTo_le; intro k _; apply sumTo_le; intro j _; exact ow_le_two s k j

open Classical in
/-- a handler step other than its cursor store does not create or upgrade an obligation -/
theorem ow_cons_le (s : St) (hI : Inv s) (k j : Nat) (hk : k < s.K) (hj : j < s.h k)
    (hnp : (s.cons k j).pc ≠ .publish) (k' j' : Nat) : ow (stepC s k j) k' j' ≤ ow s k' j' := by
  have hcur := cons_cur_nonpublish s k j _ hnp
  have hcurs : ∀ a b, ((stepC s k j).cons a b).cur = (s.cons a b).cur := stepC_cur_same s k j hcur
  by_cases he : k' = k ∧ j' = j
  · obtain ⟨rfl, rfl⟩ := he
    have himp : owed (stepC s k' j') k' j' → owed s k' j' :=
      own_owed s k' j' (hI.2 k' j' hk hj) (ndeps_pos s hI.1 k' hk) hcur
    unfold ow
    by_cases ho' : owed (stepC s k' j') k' j'
    · have ho := himp ho'
      simp only [ho', ho, if_true]
      by_cases hp' : ((stepC s k' j').cons k' j').pc = .bRelock
      · simp only [hp', if_true]; split <;> omega
      · simp only [hp', if_false]
        have : (s.cons k' j').pc ≠ .bRelock := by
          intro hp
          rw [stepC_own] at hp'
          obtain ⟨_, _, hpk⟩ := ho'
          unfold parkish at hpk
          rw [stepC_own] at hpk
          by_cases a : s.woken k' j' = true ∧ s.mtx = none
          · simp [stepCons, hp, a] at hpk
          · simp [stepCons, hp, a] at hp'
        simp [this]
    · simp only [ho', if_false]; exact Nat.zero_le _
  · have himp : owed (stepC s k j) k' j' → owed s k' j' :=
      owed_mono s (stepC s k j) k' j' (stepC_other _ _ _ _ _ he) hcurs rfl rfl rfl rfl
        (by rw [stepC_woken]; exact woken_other s k j k' j' he)
    unfold ow
    rw [stepC_other _ _ _ _ _ he]
    by_cases ho' : owed (stepC s k j) k' j'
    · simp [ho', himp ho']
    · simp only [ho', if_false]; exact Nat.zero_le _

theorem owedW_cons_le (s : St) (hI : Inv s) (k j : Nat) (hk : k < s.K) (hj : j < s.h k)
    (hnp : (s.cons k j).pc ≠ .publish) : owedW (stepC s k j) ≤ owedW s := by
  apply sumTo_le; intro a _; apply sumTo_le; intro b _
  exact ow_cons_le s hI k j hk hj hnp a b

theorem owedW_cons_lt (s : St) (hI : Inv s) (k j : Nat) (hk : k < s.K) (hj : j < s.h k)
    (hnp : (s.cons k j).pc ≠ .publish) (a b : Nat) (ha : a < s.K) (hb : b < s.h a)
    (hlt : ow (stepC s k j) a b < ow s a b) : owedW (stepC s k j) < owedW s := by
  apply sumTo_lt _ _ _ _ a ha
  · apply sumTo_lt _ _ _ _ b hb hlt
    intro b' _; exact ow_cons_le s hI k j hk hj hnp a b'
  · intro a' _; apply sumTo_le; intro b' _; exact ow_cons_le s hI k j hk hj hnp a' b'

open Classical in
/-- a step of another thread that keeps the handler records, the cursor, `is_done` and only sets wake-up flags does not
create or upgrade an obligation -/
theorem ow_frame_le (s s' : St) (k j : Nat) (hc : s'.cons = s.cons) (hcursor : s'.cursor = s.cursor)
    (hd : s'.isDone = s.isDone) (hh : s'.h = s.h) (hb : s'.blocking = s.blocking)
    (hw : s'.woken = s.woken ∨ s'.woken = fun _ _ => true) : ow s' k j ≤ ow s k j := by
  have himp : owed s' k j → owed s k j := by
    apply owed_mono s s' k j (by rw [hc]) (by rw [hc]; intros; rfl) hcursor hd hh hb
    rcases hw with h3 | h3
    · rw [h3]; exact id
    · rw [h3]; intro hh; cases hh
  unfold ow
  rw [hc]
  by_cases ho' : owed s' k j
  · simp [ho', himp ho']
  · simp only [ho', if_false]; exact Nat.zero_le _

theorem owedW_frame_le (s s' : St) (hc : s'.cons = s.cons) (hcursor : s'.cursor = s.cursor)
    (hd : s'.isDone = s.isDone) (hK : s'.K = s.K) (hh : s'.h = s.h) (hb : s'.blocking = s.blocking)
    (hw : s'.woken = s.woken ∨ s'.woken = fun _ _ => true) : owedW s' ≤ owedW s := by
  simp only [owedW, hK, hh]
  apply sumTo_le; intro k _; apply sumTo_le; intro j _
  exact ow_frame_le s s' k j hc hcursor hd hh hb hw

theorem owedW_frame_lt (s s' : St) (hc : s'.cons = s.cons) (hcursor : s'.cursor = s.cursor)
    (hd : s'.isDone = s.isDone) (hK : s'.K = s.K) (hh : s'.h = s.h) (hb : s'.blocking = s.blocking)
    (hw : s'.woken = s.woken ∨ s'.woken = fun _ _ => true)
    (k j : Nat) (hk : k < s.K) (hj : j < s.h k) (hlt : ow s' k j < ow s k j) : owedW s' < owedW s := by
  simp only [owedW, hK, hh]
  apply sumTo_lt _ _ _ _ k hk
  · apply sumTo_lt _ _ _ _ j hj hlt
    intro b _; exact ow_frame_le s s' k b hc hcursor hd hh hb hw
  · intro a _; apply sumTo_le; intro b _; exact ow_frame_le s s' a b hc hcursor hd hh hb hw

theorem bnd_congr (s s' : St) (hK : s'.K = s.K) (hh : s'.h = s.h) : bnd s' = bnd s := by
  simp only [bnd, hK, hh]

/-! ## blocking strategy: readiness and ranks of the handlers -/

/-- some handler is parked and owed a wake-up -/
def owedParked (s : St) : Prop :=
  ∃ k j, k < s.K ∧ j < s.h k ∧ (s.cons k j).pc = .bRelock ∧ owed s k j

def readyC (s : St) (k j : Nat) : Prop :=
  match (s.cons k j).pc with
  | .handle | .publish | .bUnlockGo | .bUnlockExit => True
  | .checkAvail => (s.cons k j).next ≤ (s.cons k j).avail ∨ owed s k j
  | .waitLoad => owed s k j ∨
      (condC s k (s.cons k j) ∧ bad (s.cons k j) = false ∧ s.isDone = false)
  | .bWait => owed s k j
  | .bRelock => s.woken k j = true ∧ condCD s k j
  | .sLock | .sNotify => condCD s k j ∨ owedParked s
  | .readOwn | .bLock | .bAlert | .sUnlock | .bUnlockRetry => condCD s k j
  | .checkAlert | .done => False

open Classical in
noncomputable def rankC (s : St) (k j : Nat) : Nat :=
  let c := s.cons k j
  let nd := ndeps s k
  let L := s.cursor - c.cur + 5
  match c.pc with
  | .publish => 1
  | .handle => c.avail + 3 - c.i
  | .bUnlockGo => c.avail + 4 - c.next
  | .checkAvail => if c.next ≤ c.avail then c.avail + 5 - c.next else 2
  | .waitLoad => if owed s k j then (nd - c.idx) + 3 else (nd - c.idx) + 1 + L
  | .bWait => 1
  | .bUnlockExit => 1
  | .bAlert => if s.isDone then 2 else nd + L + 2
  | .bLock => nd + L + 4
  | .readOwn => nd + L + 5
  | .bUnlockRetry => nd + L + 5
  | .bRelock => nd + L + 6
  | .sUnlock => nd + L + 6
  | .sNotify => if condCD s k j then nd + L + 7 else 1
  | .sLock => if condCD s k j then nd + L + 8 else 2
  | _ => 0

/-- is the handler's next step enabled (not a stutter)? -/
def cEn (s : St) (k j : Nat) : Bool := enabled { s := s, p := {} } (.cons k j)

/-- a handler whose wait is over is ready, or owed a wake-up while parked -/
theorem cons_ready_of_cond (s : St) (hblk : s.blocking = true) (k j : Nat)
    (hne : (s.cons k j).pc ≠ .checkAlert)
    (hnd : (s.cons k j).pc ≠ .done) (hc : condCD s k j) :
    readyC s k j ∨ ((s.cons k j).pc = .bRelock ∧ owed s k j) := by
  unfold readyC
  cases hpc : (s.cons k j).pc <;> simp only [hpc] at hnd hne ⊢ <;> (try contradiction) <;> (try (left; trivial)) <;>
    (try (left; exact hc))
  case waitLoad =>
    left
    by_cases hd : s.isDone = true
    · left; exact ⟨hblk, hc, by simp [parkish, hpc, hd]⟩
    · by_cases hb : bad (s.cons k j) = true
      · left; exact ⟨hblk, hc, by simp [parkish, hpc, hb]⟩
      · right
        rcases hc with hc | hc
        · exact ⟨hc, by simpa using hb, by simpa using hd⟩
        · exact absurd hc hd
  case checkAvail =>
    left
    by_cases ha : (s.cons k j).next ≤ (s.cons k j).avail
    · left; exact ha
    · right; exact ⟨hblk, hc, by simp [parkish, hpc]; omega⟩
  case bWait => left; exact ⟨hblk, hc, by simp [parkish, hpc]⟩
  case bRelock =>
    cases hw : s.woken k j
    · right; exact ⟨trivial, hblk, hc, by simp [parkish, hpc, hw]⟩
    · left; exact ⟨rfl, hc⟩
  case sLock => left; left; exact hc
  case sNotify => left; left; exact hc

/-- facts about a handler's own step that is not its cursor store -/
theorem own_frame (s : St) (k j : Nat) (hnp : (s.cons k j).pc ≠ .publish) :
    (stepC s k j).cons k j = stepCons s k j (s.cons k j) ∧
    (stepCons s k j (s.cons k j)).cur = (s.cons k j).cur ∧
    (condC (stepC s k j) k ((stepC s k j).cons k j) ↔ condC s k (s.cons k j)) ∧
    (condCD (stepC s k j) k j ↔ condCD s k j) := by
  have e : (stepC s k j).cons k j = stepCons s k j (s.cons k j) := by simp [stepC, upd]
  have hcur := cons_cur_nonpublish s k j _ hnp
  have hc : condC (stepC s k j) k ((stepC s k j).cons k j) ↔ condC s k (s.cons k j) := by
    rw [e]; exact condC_stepC s k j _ _ hcur
  refine ⟨e, hcur, hc, ?_⟩
  unfold condCD
  rw [hc]; rfl

/-- other handlers' obligations are untouched by a step that neither stores a cursor nor touches wake-up flags -/
theorem owedParked_stepC (s : St) (k j : Nat) (hnp : (s.cons k j).pc ≠ .publish)
    (hnr : (s.cons k j).pc ≠ .bRelock)
    (hw : wokenAfterC s k j = s.woken) (hop : owedParked s) : owedParked (stepC s k j) := by
  obtain ⟨a, b, ha, hb, hpc, ho⟩ := hop
  have hne : ¬(a = k ∧ b = j) := by
    intro he; obtain ⟨rfl, rfl⟩ := he; exact hnr hpc
  have hcur := cons_cur_nonpublish s k j _ hnp
  refine ⟨a, b, ha, hb, ?_, ?_⟩
  · show ((stepC s k j).cons a b).pc = .bRelock
    rw [stepC_other _ _ _ _ _ hne]; exact hpc
  · rw [owed_congr s (stepC s k j) a b (stepC_other _ _ _ _ _ hne) (stepC_cur_same s k j hcur) rfl rfl rfl rfl
      (by rw [stepC_woken, hw])]
    exact ho

/-- the three kinds of progress of a handler step: a progress event of the handler (cursor store or exit), a wake-up
obligation that is discharged or downgraded (by a step that is not a cursor store), or a smaller rank -/
def Drop (s : St) (k j : Nat) : Prop :=
  progressC (s.cons k j) (stepCons s k j (s.cons k j)) ∨
  ((s.cons k j).pc ≠ .publish ∧ ∃ a b, a < s.K ∧ b < s.h a ∧ ow (stepC s k j) a b < ow s a b)

open Classical in
/-- a ready handler's own enabled step: progress (`Drop`) or its rank drops and it stays ready -/
theorem hown_cons (s : St) (hI : Inv s) (hblk : s.blocking = true) (k j : Nat) (hk : k < s.K) (hj : j < s.h k)
    (hr : readyC s k j) (he : cEn s k j = true) :
    Drop s k j ∨ (rankC (stepC s k j) k j < rankC s k j ∧ readyC (stepC s k j) k j) := by
  have hci := hI.2 k j hk hj
  have hpos := ndeps_pos s hI.1 k hk
  have hcs : (stepC s k j).cursor = s.cursor := rfl
  have hds : (stepC s k j).isDone = s.isDone := rfl
  have hnd : ndeps (stepC s k j) k = ndeps s k := rfl
  have dropOw : ∀ a b, (s.cons k j).pc ≠ .publish → a < s.K → b < s.h a → ow (stepC s k j) a b < ow s a b →
      Drop s k j := fun a b h1 h2 h3 h4 => Or.inr ⟨h1, a, b, h2, h3, h4⟩
  obtain ⟨h1, h2, h3, h4, h5, h6, h7, h8, h9, h10, h11, h12, h13⟩ := hci
  unfold cEn at he
  cases hpc : (s.cons k j).pc <;> simp only [readyC, hpc] at hr
  case readOwn =>
    right
    obtain ⟨e, hcur, hcc, hcd⟩ := own_frame s k j (by simp [hpc])
    have e' : (stepC s k j).cons k j = { s.cons k j with next := (s.cons k j).cur + 1, pc := .bLock } := by
      rw [e]; simp [stepCons, hpc, hblk]
    refine ⟨?_, ?_⟩
    · simp only [rankC, e', hpc, hcs, hnd]; omega
    · simp only [readyC, e']; exact hcd.2 hr
  case bLock =>
    right
    obtain ⟨e, hcur, hcc, hcd⟩ := own_frame s k j (by simp [hpc])
    have hm : s.mtx = none := by simpa [enabled, hpc] using he
    have e' : (stepC s k j).cons k j = { s.cons k j with pc := .bAlert } := by
      rw [e]; simp [stepCons, hpc, hm]
    refine ⟨?_, ?_⟩
    · simp only [rankC, e', hpc, hcs, hds, hnd]; split <;> omega
    · simp only [readyC, e']; exact hcd.2 hr
  case bAlert =>
    right
    obtain ⟨e, hcur, hcc, hcd⟩ := own_frame s k j (by simp [hpc])
    by_cases hd : s.isDone = true
    · have e' : (stepC s k j).cons k j = { s.cons k j with pc := .bUnlockExit } := by
        rw [e]; simp [stepCons, hpc, hd]
      refine ⟨?_, ?_⟩
      · simp only [rankC, e', hpc, hd, if_true]; omega
      · simp only [readyC, e']
    · have hd' : s.isDone = false := by simpa using hd
      have e' : (stepC s k j).cons k j = { s.cons k j with pc := .waitLoad, acc := none, idx := 0 } := by
        rw [e]; simp [stepCons, hpc, hd']
      have hno : ¬ owed (stepC s k j) k j := by
        intro ⟨_, _, hp⟩
        unfold parkish at hp
        rw [e'] at hp
        simp [bad, hds, hd'] at hp
      have hcC : condC s k (s.cons k j) := by
        rcases hr with hr | hr
        · exact hr
        · exact absurd hr hd
      refine ⟨?_, ?_⟩
      · simp only [rankC, e', hpc, hcs, hnd, hd', hno, if_false]; simp; omega
      · simp only [readyC, e']
        right
        have := hcc.2 hcC
        rw [e'] at this
        exact ⟨this, by simp [bad], by rw [hds]; exact hd'⟩
  case waitLoad =>
    obtain ⟨e, hcur, hcc, hcd⟩ := own_frame s k j (by simp [hpc])
    have hnx := h8 (by simp [hpc])
    have himp : owed (stepC s k j) k j → owed s k j :=
      own_owed s k j ⟨h1, h2, h3, h4, h5, h6, h7, h8, h9, h10, h11, h12, h13⟩ hpos hcur
    by_cases hlt : (s.cons k j).idx < ndeps s k
    · have e' : (stepC s k j).cons k j = { s.cons k j with
          acc := minOpt (s.cons k j).acc (dep s k (s.cons k j).idx), idx := (s.cons k j).idx + 1 } := by
        rw [e]; simp [stepCons, hpc, hlt]
      by_cases ho : owed s k j
      · by_cases ho' : owed (stepC s k j) k j
        · right
          refine ⟨?_, ?_⟩
          · simp only [rankC, e', hpc, hnd, ho, ho', if_true]; omega
          · simp only [readyC, e', hpc]; left; exact ho'
        · left
          apply dropOw k j (by simp [hpc]) hk hj
          simp [ow, ho, ho', hpc]
      · right
        have ho' : ¬ owed (stepC s k j) k j := fun hh => ho (himp hh)
        obtain ⟨hcC, hbd, hdn⟩ := hr.resolve_left ho
        have hv : (s.cons k j).next ≤ dep s k (s.cons k j).idx := by have := hcC _ hlt; omega
        refine ⟨?_, ?_⟩
        · simp only [rankC, e', hpc, hnd, hcs, ho, ho', if_false]; omega
        · simp only [readyC, e', hpc]; right
          have := hcc.2 hcC
          rw [e'] at this
          exact ⟨this, by apply Eq.trans _ hbd; exact bad_minOpt (s.cons k j) _ hv _ rfl rfl, by rw [hds]; exact hdn⟩
    · have hidx : (s.cons k j).idx = ndeps s k := by have := h2 hpc; omega
      have e' : (stepC s k j).cons k j = { s.cons k j with avail := (s.cons k j).acc.getD 0, pc := .checkAvail } := by
        rw [e]; simp [stepCons, hpc, hlt]
      by_cases ho : owed s k j
      · by_cases ho' : owed (stepC s k j) k j
        · right
          have hav : ¬ (s.cons k j).next ≤ (s.cons k j).acc.getD 0 := by
            obtain ⟨_, _, hp⟩ := ho'
            unfold parkish at hp
            rw [e'] at hp
            simp only at hp
            omega
          refine ⟨?_, ?_⟩
          · simp only [rankC, e', hpc, ho, if_true, hav, if_false]; omega
          · simp only [readyC, e']; right; exact ho'
        · left
          apply dropOw k j (by simp [hpc]) hk hj
          simp [ow, ho, ho', hpc]
      · right
        obtain ⟨hcC, hbd, hdn⟩ := hr.resolve_left ho
        have hsome := h5 hpc (by omega)
        cases hacc : (s.cons k j).acc with
        | none => simp [hacc] at hsome
        | some m =>
          have hmn : (s.cons k j).next ≤ m := by
            have : ¬ m < (s.cons k j).next := by simpa [bad, hacc] using hbd
            omega
          have hmle : ∀ d, d < ndeps s k → m ≤ dep s k d := fun d hd => h4 hpc m hacc d (by omega)
          have hmc : m ≤ s.cursor := Nat.le_trans (hmle 0 hpos) (Spin.dep_le_cursor s hI k hk 0 hpos)
          refine ⟨?_, ?_⟩
          · simp only [rankC, e', hpc, ho, if_false, hacc, Option.getD_some, hmn, if_true]; omega
          · simp only [readyC, e', hacc, Option.getD_some]; left; exact hmn
  case checkAvail =>
    obtain ⟨e, hcur, hcc, hcd⟩ := own_frame s k j (by simp [hpc])
    by_cases ha : (s.cons k j).next ≤ (s.cons k j).avail
    · right
      have e' : (stepC s k j).cons k j = { s.cons k j with pc := .bUnlockGo } := by
        rw [e]; simp [stepCons, hpc, hblk, ha]
      refine ⟨?_, ?_⟩
      · simp only [rankC, e', hpc, ha, if_true]; omega
      · simp only [readyC, e']
    · right
      have ho : owed s k j := hr.resolve_left ha
      have e' : (stepC s k j).cons k j = { s.cons k j with pc := .bWait } := by
        rw [e]; simp [stepCons, hpc, hblk, ha]
      have ho' : owed (stepC s k j) k j := by
        refine ⟨hblk, hcd.2 ho.2.1, ?_⟩
        unfold parkish; rw [e']; trivial
      refine ⟨?_, ?_⟩
      · simp only [rankC, e', hpc, ha, if_false]; omega
      · simp only [readyC, e']; exact ho'
  case bUnlockGo =>
    right
    obtain ⟨e, hcur, hcc, hcd⟩ := own_frame s k j (by simp [hpc])
    have e' : (stepC s k j).cons k j = { s.cons k j with pc := .handle, i := (s.cons k j).next } := by
      rw [e]; simp [stepCons, hpc]
    have := h7 (by simp [hpc])
    refine ⟨?_, ?_⟩
    · simp only [rankC, e', hpc]; omega
    · simp only [readyC, e']
  case bWait =>
    left
    obtain ⟨e, hcur, hcc, hcd⟩ := own_frame s k j (by simp [hpc])
    have e' : (stepC s k j).cons k j = { s.cons k j with pc := .bRelock } := by
      rw [e]; simp [stepCons, hpc]
    apply dropOw k j (by simp [hpc]) hk hj
    have : ow (stepC s k j) k j ≤ 1 := by
      unfold ow; rw [e']; split <;> simp
    have : ow s k j = 2 := by simp [ow, hr, hpc]
    omega
  case bRelock =>
    right
    obtain ⟨e, hcur, hcc, hcd⟩ := own_frame s k j (by simp [hpc])
    have hm : s.woken k j = true ∧ s.mtx = none := by simpa [enabled, hpc] using he
    have e' : (stepC s k j).cons k j = { s.cons k j with pc := .bUnlockRetry } := by
      rw [e]; simp [stepCons, hpc, hm]
    refine ⟨?_, ?_⟩
    · simp only [rankC, e', hpc, hcs, hnd]; omega
    · simp only [readyC, e']; exact hcd.2 hr.2
  case bUnlockRetry =>
    right
    obtain ⟨e, hcur, hcc, hcd⟩ := own_frame s k j (by simp [hpc])
    have e' : (stepC s k j).cons k j = { s.cons k j with pc := .bLock } := by
      rw [e]; simp [stepCons, hpc]
    refine ⟨?_, ?_⟩
    · simp only [rankC, e', hpc, hcs, hnd]; omega
    · simp only [readyC, e']; exact hcd.2 hr
  case bUnlockExit =>
    left; left
    right; simp [stepCons, hpc]
  case handle =>
    right
    obtain ⟨e, hcur, hcc, hcd⟩ := own_frame s k j (by simp [hpc])
    by_cases hle : (s.cons k j).i ≤ (s.cons k j).avail
    · have e' : (stepC s k j).cons k j = { s.cons k j with log := (s.cons k j).log ++ [(s.cons k j).i], i := (s.cons k j).i + 1 } := by
        rw [e]; simp [stepCons, hpc, hle]
      refine ⟨?_, ?_⟩
      · simp only [rankC, e', hpc]; omega
      · simp only [readyC, e', hpc]
    · have e' : (stepC s k j).cons k j = { s.cons k j with pc := .publish } := by
        rw [e]; simp [stepCons, hpc, hle]
      have := h10 hpc
      refine ⟨?_, ?_⟩
      · simp only [rankC, e', hpc]; omega
      · simp only [readyC, e']
  case publish =>
    left; left
    exact publish_progress s k j hk hj hI hpc
  case sLock =>
    right
    obtain ⟨e, hcur, hcc, hcd⟩ := own_frame s k j (by simp [hpc])
    have hm : s.mtx = none := by simpa [enabled, hpc] using he
    have e' : (stepC s k j).cons k j = { s.cons k j with pc := .sNotify } := by
      rw [e]; simp [stepCons, hpc, hm]
    have hcdi : (condCD (stepC s k j) k j) = (condCD s k j) := propext hcd
    by_cases hc : condCD s k j
    · refine ⟨?_, ?_⟩
      · simp only [rankC, e', hpc, hcs, hnd, hcdi, hc, if_true]; omega
      · simp only [readyC, e']; left; exact hcd.2 hc
    · have hop : owedParked s := hr.resolve_left hc
      refine ⟨?_, ?_⟩
      · simp only [rankC, e', hpc, hcdi, hc, if_false]; omega
      · simp only [readyC, e']; right
        exact owedParked_stepC s k j (by simp [hpc]) (by simp [hpc]) (by simp [wokenAfterC, hpc]) hop
  case sNotify =>
    obtain ⟨e, hcur, hcc, hcd⟩ := own_frame s k j (by simp [hpc])
    have e' : (stepC s k j).cons k j = { s.cons k j with pc := .sUnlock } := by
      rw [e]; simp [stepCons, hpc]
    have hcdi : (condCD (stepC s k j) k j) = (condCD s k j) := propext hcd
    by_cases hc : condCD s k j
    · right
      refine ⟨?_, ?_⟩
      · simp only [rankC, e', hpc, hcs, hnd, hc, if_true]; omega
      · simp only [readyC, e']; exact hcd.2 hc
    · left
      obtain ⟨a, b, ha, hb, hpa, hoa⟩ := hr.resolve_left hc
      apply dropOw a b (by simp [hpc]) ha hb
      have hne : ¬(a = k ∧ b = j) := by
        intro he; obtain ⟨rfl, rfl⟩ := he; rw [hpc] at hpa; cases hpa
      have hno : ¬ owed (stepC s k j) a b := by
        intro ⟨_, _, hp⟩
        unfold parkish at hp
        have : (stepC s k j).cons a b = s.cons a b := stepC_other _ _ _ _ _ hne
        rw [this, hpa] at hp
        have hw : (stepC s k j).woken a b = true := by
          show wokenAfterC s k j a b = true
          simp [wokenAfterC, hpc]
        simp [hw] at hp
      simp [ow, hoa, hno, hpa]
  case sUnlock =>
    right
    obtain ⟨e, hcur, hcc, hcd⟩ := own_frame s k j (by simp [hpc])
    have e' : (stepC s k j).cons k j = { s.cons k j with pc := .readOwn } := by
      rw [e]; simp [stepCons, hpc]
    refine ⟨?_, ?_⟩
    · simp only [rankC, e', hpc, hcs, hnd]; omega
    · simp only [readyC, e']; exact hcd.2 hr

open Classical in
/-- readiness and rank of a handler only depend on its own state, the counters it reads, `is_done`, its wake-up
flag, and on whether somebody is parked and owed a wake-up -/
theorem cons_frame (s s' : St) (k j : Nat) (hcj : s'.cons k j = s.cons k j)
    (hcur : ∀ a b, (s'.cons a b).cur = (s.cons a b).cur) (hcursor : s'.cursor = s.cursor)
    (hd : s'.isDone = s.isDone) (hh : s'.h = s.h) (hb : s'.blocking = s.blocking)
    (hw : s.woken k j = true → s'.woken k j = true)
    (hop : owedParked s → owedParked s')
    (hr : readyC s k j) : rankC s' k j = rankC s k j ∧ readyC s' k j := by
  have hcc : condC s' k (s.cons k j) ↔ condC s k (s.cons k j) := condC_congr s s' k _ hcur hcursor hh
  have hcd : condCD s' k j = condCD s k j := by
    unfold condCD; rw [hcj, hd]; exact propext (by rw [hcc])
  have hnd : ndeps s' k = ndeps s k := by simp [ndeps, hh]
  have hcci : condC s' k (s.cons k j) = condC s k (s.cons k j) := propext hcc
  by_cases hnr : (s.cons k j).pc = .bRelock
  · unfold readyC at hr ⊢
    unfold rankC
    rw [hcj]
    simp only [hnr] at hr ⊢
    simp only [hcursor, hnd, hcd]
    exact ⟨trivial, hw hr.1, hr.2⟩
  have ho : owed s' k j = owed s k j :=
    propext (owed_congr_nr s s' k j hcj hcur hcursor hd hh hb hnr)
  unfold readyC at hr ⊢
  unfold rankC
  rw [hcj]
  cases hpc : (s.cons k j).pc <;> simp only [hpc] at hr hnr ⊢ <;>
    simp only [hcursor, hd, hnd, hcd, hcci, ho, true_and, and_true] <;> (try exact hr) <;>
    (try exact absurd trivial hnr)
  case sLock => exact hr.imp id hop
  case sNotify => exact hr.imp id hop

open Classical in
/-- somebody parked and owed a wake-up stays so under a handler step that is not a cursor store — or an obligation is
discharged (the parked handler was notified) -/
theorem owedParked_cons_step (s : St) (k j : Nat)
    (hnp : (s.cons k j).pc ≠ .publish) (hop : owedParked s) :
    owedParked (stepC s k j) ∨ ∃ a b, a < s.K ∧ b < s.h a ∧ ow (stepC s k j) a b < ow s a b := by
  obtain ⟨a, b, ha, hb, hpa, hoa⟩ := hop
  have hcur := cons_cur_nonpublish s k j _ hnp
  by_cases he : a = k ∧ b = j
  · -- the parked handler itself: its step is a stutter
    obtain ⟨rfl, rfl⟩ := he
    left
    have hw : s.woken a b = false := by
      have := hoa.2.2; unfold parkish at this; rw [hpa] at this; exact this
    have : stepC s a b = s := stepC_stutter s a b (by simp [hpa, hw])
    rw [this]; exact ⟨a, b, ha, hb, hpa, hoa⟩
  · by_cases hsn : (s.cons k j).pc = .sNotify
    · right
      refine ⟨a, b, ha, hb, ?_⟩
      have hno : ¬ owed (stepC s k j) a b := by
        intro ⟨_, _, hp⟩
        unfold parkish at hp
        have e1 : (stepC s k j).cons a b = s.cons a b := stepC_other _ _ _ _ _ he
        have hw : (stepC s k j).woken a b = true := by
          show wokenAfterC s k j a b = true
          simp [wokenAfterC, hsn]
        rw [e1, hpa, hw] at hp
        cases hp
      simp [ow, hoa, hno, hpa]
    · left
      refine ⟨a, b, ha, hb, ?_, ?_⟩
      · show ((stepC s k j).cons a b).pc = .bRelock
        rw [stepC_other _ _ _ _ _ he]; exact hpa
      · rw [owed_congr s (stepC s k j) a b (stepC_other _ _ _ _ _ he) (stepC_cur_same s k j hcur) rfl rfl rfl rfl
          (by rw [stepC_woken]; exact woken_other_eq s k j a b he hsn)]
        exact hoa

open Classical in
/-- a step of another thread that keeps the handler records, the cursor and `is_done`: somebody parked and owed a wake-up
stays so if the wake-up flags are untouched, and is discharged if all flags are set -/
theorem owedParked_frame (s s' : St) (hc : s'.cons = s.cons) (hcursor : s'.cursor = s.cursor)
    (hd : s'.isDone = s.isDone) (hK : s'.K = s.K) (hh : s'.h = s.h) (hb : s'.blocking = s.blocking)
    (hw : s'.woken = s.woken ∨ s'.woken = fun _ _ => true) (hop : owedParked s) :
    owedParked s' ∨ ∃ a b, a < s.K ∧ b < s.h a ∧ ow s' a b < ow s a b := by
  obtain ⟨a, b, ha, hb', hpa, hoa⟩ := hop
  rcases hw with h3 | h3
  · left
    refine ⟨a, b, by rw [hK]; exact ha, by rw [hh]; exact hb', by rw [hc]; exact hpa, ?_⟩
    rw [owed_congr s s' a b (by rw [hc]) (by rw [hc]; intros; rfl) hcursor hd hh hb (by rw [h3])]
    exact hoa
  · right
    refine ⟨a, b, ha, hb', ?_⟩
    have hno : ¬ owed s' a b := by
      intro ⟨_, _, hp⟩
      unfold parkish at hp
      rw [hc, hpa, h3] at hp
      simp at hp
    simp [ow, hoa, hno, hpa]

/-- a ready handler is enabled whenever the mutex is free -/
theorem hen_cons (s : St) (k j : Nat) (hr : readyC s k j) (hf : s.mtx = none) : cEn s k j = true := by
  unfold readyC at hr
  unfold cEn
  cases hpc : (s.cons k j).pc <;> simp_all [enabled]

/-- a disabled handler step is a stutter -/
theorem stutter_cons (s : St) (k j : Nat) (he : cEn s k j = false) : stepC s k j = s :=
  stepC_stutter s k j he

end CS
end Ring
