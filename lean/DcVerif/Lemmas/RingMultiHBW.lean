import DcVerif.Lemmas.RingMultiHB
/-!
The ghost (vector-clock) invariant of `Model/RingMultiHB.lean`, part 2: preservation by every step of a writer thread
(`next`: `readHw capLoad capCheck casHw`, slot writes, `publish`: `setBit readLw scan relCheck unsetBit casCur reloadCur setLw`,
`signal`), and the invariant for **every schedule** (`hmgood_run`), every ring size `2^k`, topology, wait strategy, number of
writer threads and batch lists.

The chain for R1: the claimant `A` of sequence `q` writes the slot (its own clock entry counts the write, `WKnow.claimW/S`),
`fetch_or`s the bit of `q` (`bOr` release: the word's clock now knows the write — `HLoc.lB`, tied to "the bit is set" by the
release-safety invariant `MRel` of `Lemmas/RingMultiSafe.lean`: a set bit has exactly one published witness above the cursor,
and a sequence whose bit is being set is pending with exactly one writer); a publisher `B` that scans the word (`bLoad`
acquire) and sees the bit set learns the write (`WKnow.good`: `B` knows everything up to `good_to_release`; below its stale low
watermark through the low watermark's clock, `HLoc.lLw`); `B`'s successful CAS on the cursor (`casOk` release) makes the
cursor's clock cover the new cursor value (`HLoc.lCur`); handlers acquire it from there (`HCons`, as for the single producer).
R3 / R4 and writer/writer across laps: `has_capacity`'s acquire loads of the last-stage cursors (`WKnow.min`, `WKnow.minW`).
-/
namespace RingMultiHB
open Ring RingMulti Gen.Orderings
open RingHB (doneOf availPc)

/-! ## what one step of a writer does to the ghost log and to the clocks -/

theorem stepWriter_written (x : MSt) (i : Nat) :
    (stepWriter x i).written = x.written ∨
    ((x.wr i).pc = .write ∧ (x.wr i).w ≤ (x.wr i).hi ∧ (stepWriter x i).written = x.written ++ [((x.wr i).w, i)]) := by
  unfold stepWriter
  cases hpc : (x.wr i).pc <;> simp only [hpc] <;> (repeat' split) <;> simp_all

theorem stepWriter_written_app (x : MSt) (i : Nat) : ∃ L, (stepWriter x i).written = x.written ++ L ∧
    (∀ a, a ≠ i → wlog L a = []) := by
  rcases stepWriter_written x i with h | ⟨_, _, h⟩
  · exact ⟨[], by simpa using h, fun _ _ => rfl⟩
  · refine ⟨_, h, fun a ha => ?_⟩
    rw [wlog_single, if_neg (fun e => ha e.symm)]

theorem relaxed_load (v ld : VC) : loadClock .relaxed v ld = v := rfl

/-- the writer's new clock: one more own write at a slot write, otherwise its old clock with (possibly) a location's clock
joined in -/
theorem writerV_cases (o : Ords) (s : HMSt) (i : Nat) (hZ : HDom s) :
    ((s.x.wr i).pc = .write ∧ (s.x.wr i).w ≤ (s.x.wr i).hi ∧ writerV o s i = (s.vcW i).incW i) ∨
    (¬((s.x.wr i).pc = .write ∧ (s.x.wr i).w ≤ (s.x.wr i).hi) ∧
      ∃ (oo : Ord) (ld : VC), Dom (ow s) (oh s) ld ∧ writerV o s i = loadClock oo (s.vcW i) ld) := by
  cases hpc : (s.x.wr i).pc <;> simp only [writerV, hpc]
  case write =>
    by_cases h : (s.x.wr i).w ≤ (s.x.wr i).hi
    · left; simp [h]
    · right; exact ⟨by simp [h], .relaxed, {}, dom_empty _ _, by simp [h, relaxed_load]⟩
  case readHw => right; exact ⟨by simp, _, _, hZ.dHw, rfl⟩
  case readLw => right; exact ⟨by simp, _, _, hZ.dLw, rfl⟩
  case reloadCur => right; exact ⟨by simp, _, _, hZ.dCur, rfl⟩
  case capLoad =>
    right; refine ⟨by simp, ?_⟩
    split
    · exact ⟨_, _, hZ.dH _ _, rfl⟩
    · exact ⟨.relaxed, {}, dom_empty _ _, rfl⟩
  case casHw =>
    right; refine ⟨by simp, ?_⟩
    split
    · exact ⟨_, _, hZ.dHw, rfl⟩
    · exact ⟨_, _, hZ.dHw, rfl⟩
  case casCur =>
    right; refine ⟨by simp, ?_⟩
    split
    · exact ⟨_, _, hZ.dCur, rfl⟩
    · exact ⟨_, _, hZ.dCur, rfl⟩
  case setBit =>
    right; refine ⟨by simp, ?_⟩
    split
    · exact ⟨_, _, hZ.dB _, rfl⟩
    · exact ⟨.relaxed, {}, dom_empty _ _, rfl⟩
  case scan =>
    right; refine ⟨by simp, ?_⟩
    split
    · exact ⟨_, _, hZ.dB _, rfl⟩
    · exact ⟨.relaxed, {}, dom_empty _ _, rfl⟩
  case unsetBit =>
    right; refine ⟨by simp, ?_⟩
    split
    · exact ⟨_, _, hZ.dB _, rfl⟩
    · exact ⟨.relaxed, {}, dom_empty _ _, rfl⟩
  all_goals (right; exact ⟨by simp, .relaxed, {}, dom_empty _ _, rfl⟩)

theorem writerV_le (o : Ords) (s : HMSt) (i : Nat) (hZ : HDom s) : (s.vcW i).le (writerV o s i) := by
  rcases writerV_cases o s i hZ with ⟨_, _, e⟩ | ⟨_, oo, ld, _, e⟩ <;> rw [e]
  · exact le_incW _ _
  · exact le_loadClock _ _ _

/-- joining a dominated clock does not change the writer's own entry -/
theorem writerV_own (o : Ords) (s : HMSt) (i : Nat) (hZ : HDom s) :
    (writerV o s i).pw i = if (s.x.wr i).pc = .write ∧ (s.x.wr i).w ≤ (s.x.wr i).hi then (s.vcW i).pw i + 1 else (s.vcW i).pw i := by
  rcases writerV_cases o s i hZ with ⟨h1, h2, e⟩ | ⟨h, oo, ld, hld, e⟩ <;> rw [e]
  · simp [h1, h2, VC.incW]
  · rw [if_neg h]
    unfold loadClock; split
    · simp only [VC.join]; exact Nat.max_eq_left (hld.1 i)
    · rfl

theorem writerCur_le (o : Ords) (s : HMSt) (i : Nat) : s.lcCur.le (writerCur o s i) := by
  cases hpc : (s.x.wr i).pc <;> simp only [writerCur, hpc] <;>
    first | exact le_refl' _ | exact le_ite _ (le_rmwClock _ _ _) (le_refl' _)

theorem writerB_le (o : Ords) (s : HMSt) (i ix : Nat) : (s.lcB ix).le (writerB o s i ix) := by
  have key : ∀ (j : Nat) (c : VC), (s.lcB j).le c → (s.lcB ix).le (updV1 s.lcB j c ix) := by
    intro j c hc
    by_cases he : ix = j
    · subst he; simpa using hc
    · rw [updV1_other _ _ _ _ he]; exact le_refl' _
  cases hpc : (s.x.wr i).pc <;> simp only [writerB, hpc] <;> (try split) <;>
    first | exact le_refl' _ | exact key _ _ (le_rmwClock _ _ _)

/-- the system state of the clocked step of a writer -/
def wstep (o : Ords) (s : HMSt) (i : Nat) : HMSt :=
  { s with x := stepWriter s.x i, vcW := updV1 s.vcW i (writerV o s i), lcCur := writerCur o s i,
           lcHw := writerHw o s i, lcLw := writerLw o s i, lcB := writerB o s i }

theorem stepMH_writer (o : Ords) (s : HMSt) (i : Nat) (hi : i < s.x.P) : stepMH o s (.writer i) = wstep o s i := by
  simp [stepMH, hi, wstep]

/-! ## `HDom` -/

theorem hdom_writer (o : Ords) (s : HMSt) (i : Nat) (hZ : HDom s) : HDom (wstep o s i) := by
  have hv := writerV_le o s i hZ
  have how : ∀ a, ow s a ≤ ow (wstep o s i) a := by
    intro a
    by_cases he : a = i
    · subst he; simp [ow, wstep]; exact hv.1 a
    · simp [ow, wstep, updV1_other _ _ _ _ he]
  have hoh : ∀ k j, oh s k j ≤ oh (wstep o s i) k j := fun _ _ => Nat.le_refl _
  have old : ∀ c, Dom (ow s) (oh s) c → Dom (ow (wstep o s i)) (oh (wstep o s i)) c := fun c hc => dom_mono hc how hoh
  have hv' : Dom (ow (wstep o s i)) (oh (wstep o s i)) (writerV o s i) := by
    rcases writerV_cases o s i hZ with ⟨_, _, e⟩ | ⟨_, oo, ld, hld, e⟩
    · refine ⟨fun a => ?_, fun a b => ?_⟩
      · by_cases he : a = i
        · subst he; simp [ow, wstep]
        · rw [e]; simp only [ow, wstep, updV1_other _ _ _ _ he, VC.incW, he, if_false]; exact (hZ.dW i).1 a
      · rw [e]; exact (hZ.dW i).2 a b
    · rw [e]; exact old _ (dom_load _ (hZ.dW i) hld)
  refine ⟨?_, ?_, ?_, fun a b => old _ (hZ.dH a b), ?_, ?_, fun a b => old _ (hZ.dC a b), old _ hZ.dD⟩
  · show Dom _ _ (writerCur o s i)
    cases hpc : (s.x.wr i).pc <;> simp only [writerCur, hpc] <;> (try split) <;>
      first | exact old _ hZ.dCur | exact dom_rmw _ hv' (old _ hZ.dCur)
  · show Dom _ _ (writerHw o s i)
    cases hpc : (s.x.wr i).pc <;> simp only [writerHw, hpc] <;> (try split) <;>
      first | exact old _ hZ.dHw | exact dom_rmw _ hv' (old _ hZ.dHw)
  · show Dom _ _ (writerLw o s i)
    cases hpc : (s.x.wr i).pc <;> simp only [writerLw, hpc] <;>
      first | exact old _ hZ.dLw | exact old _ (dom_store _ (hZ.dW i))
  · intro ix
    show Dom _ _ (writerB o s i ix)
    have key : ∀ (j : Nat) (c : VC), Dom (ow (wstep o s i)) (oh (wstep o s i)) c →
        Dom (ow (wstep o s i)) (oh (wstep o s i)) (updV1 s.lcB j c ix) := by
      intro j c hc
      by_cases he : ix = j
      · subst he; simpa using hc
      · rw [updV1_other _ _ _ _ he]; exact old _ (hZ.dB ix)
    cases hpc : (s.x.wr i).pc <;> simp only [writerB, hpc] <;> (try split) <;>
      first | exact old _ (hZ.dB ix) | exact key _ _ (dom_rmw _ hv' (old _ (hZ.dB _)))
  · intro a
    show Dom _ _ (updV1 s.vcW i (writerV o s i) a)
    by_cases he : a = i
    · subst he; simpa using hv'
    · rw [updV1_other _ _ _ _ he]; exact old _ (hZ.dW a)

/-! ## `HCons` -/

theorem hcons_writer (s : HMSt) (i : Nat) (hC : HCons s.x.written s.x.s s.vcC s.lcH) :
    HCons (stepWriter s.x i).written (stepWriter s.x i).s s.vcC s.lcH := by
  obtain ⟨L, hL, _⟩ := stepWriter_written_app s.x i
  obtain ⟨e1, e2, e3, e4⟩ := stepWriter_s s.x i
  rw [hL]
  exact hcons_congr _ s.x.s _ _ _ e1 e2 e3 e4 (hcons_mono hC L)

/-! ## `HWr`: the stepping writer's own knowledge -/

/-- the writer-local part: given the facts the non-trivial program points establish (`hcapA … hscan`), every clause of
`WKnow` holds for the writer's new record (the clock `v'` and the log `W'` are those *after* the step) -/
theorem wknow_own1 (x : MSt) (i : Nat) (W' : List (Nat × Nat)) (K : Nat) (h : Nat → Nat) (n : Nat) (v' : VC)
    (base : WKnow W' K h n v' (x.wr i))
    (hcapA : (x.wr i).pc = .capLoad → (x.wr i).idx < ngate x.s → ∀ m, minOpt (x.wr i).acc (gate x.s (x.wr i).idx) = some m →
        ((∀ k j, k < K - 1 → j < h k → m ≤ v'.ha k j) ∧ KnowsUpTo W' v' m) ∧ (∀ d, d < (x.wr i).idx + 1 → m ≤ v'.ha (K - 1) d))
    (hcapB : (x.wr i).pc = .capLoad → ¬ (x.wr i).idx < ngate x.s →
        (∀ k j, k < K → j < h k → (x.wr i).acc.getD 0 ≤ v'.ha k j) ∧ KnowsUpTo W' v' ((x.wr i).acc.getD 0))
    (hwr : (x.wr i).pc = .write → (x.wr i).w ≤ (x.wr i).hi → KnowsW W' v' (x.wr i).w)
    (hrl : (x.wr i).pc = .readLw → CoversM W' K h n v' 0 x.lw)
    (hscan : (x.wr i).pc = .scan → (x.wr i).good < (x.wr i).hi → bmIsSet x.bm ((x.wr i).good + 1) = true →
        CoversM W' K h n v' 0 ((x.wr i).good + 1)) :
    WKnow W' K h n v' ((stepWriter x i).wr i) := by
  obtain ⟨a1, a2, a3, a4, a5, a6⟩ := base
  simp only [goodPc] at a6
  unfold stepWriter
  cases hpc : (x.wr i).pc <;> simp only [hpc] <;> (repeat' split) <;> (try simp only [updW_same]) <;> constructor <;>
    (try simp only [goodPc]) <;> grind

/-- residues: two sequences with the same residue, the smaller one is at least a lap below -/
theorem lap_of_mod_eq {a b n : Nat} (h : a % n = b % n) (hab : a < b) : a + n ≤ b := by
  apply Nat.le_of_not_lt
  intro hlt
  have := eq_of_mod_eq_window h (Nat.le_of_lt hab) hlt
  omega

theorem slotOf_congr (n a b : Nat) (h : a % n = b % n) : C19.slotOf n a = C19.slotOf n b := by
  unfold C19.slotOf; rw [h]

/-- the word index the three generated index functions compute is `slotOf` (and the three functions are the same) -/
theorem wordIx_eq {x : MSt} (h : BmOk x.s.n x.bm) (q : Nat) :
    wordIx x Gen.BitMap.is_set_index q = C19.slotOf x.s.n q ∧ wordIx x Gen.BitMap.set_index q = C19.slotOf x.s.n q ∧
    wordIx x Gen.BitMap.unset_index q = C19.slotOf x.s.n q := by
  obtain ⟨k, b, hist, hn, hb, hinv⟩ := h
  obtain ⟨h1, h2, h3⟩ := C19.index_nf hinv.shape q
  simp only [wordIx, bmIndex, hb, hn]
  exact ⟨h1, h2, h3⟩

/-- `has_capacity`, one acquire load of a last-stage cursor -/
theorem capA_fact (o : Ords) (hget : o.get.isAcquire = true) (s : HMSt) (i : Nat) (hi : i < s.x.P) (hc : MCap s.x)
    (hH : HMInv s) (L : List (Nat × Nat)) (hpc : (s.x.wr i).pc = .capLoad) (hlt : (s.x.wr i).idx < ngate s.x.s) :
    ∀ m, minOpt (s.x.wr i).acc (gate s.x.s (s.x.wr i).idx) = some m →
      ((∀ k j, k < s.x.s.K - 1 → j < s.x.s.h k → m ≤ (writerV o s i).ha k j) ∧
        KnowsUpTo (s.x.written ++ L) (writerV o s i) m) ∧
      (∀ d, d < (s.x.wr i).idx + 1 → m ≤ (writerV o s i).ha (s.x.s.K - 1) d) := by
  intro m hm
  have hK := hc.1.2.2
  have e : writerV o s i = (s.vcW i).join (s.lcH (s.x.s.K - 1) (s.x.wr i).idx) := by
    simp [writerV, hpc, hlt, loadClock, hget]
  have hle := minOpt_le _ _ _ hm
  obtain ⟨g1, g2⟩ := hH.hc.lH (s.x.s.K - 1) (s.x.wr i).idx (by omega) (by simpa [ngate] using hlt)
  have hg : gate s.x.s (s.x.wr i).idx = (s.x.s.cons (s.x.s.K - 1) (s.x.wr i).idx).cur := rfl
  rw [← hg] at g1 g2
  rw [e]
  refine ⟨⟨fun k j hk hj => ?_, ?_⟩, fun d hd => ?_⟩
  · have := g1.prev k j hk (by omega) hj
    simp only [VC.join]; exact Nat.le_trans (Nat.le_trans hle.1 this) (Nat.le_max_right _ _)
  · exact KnowsUpTo.mono (fun q h1 h2 => g1.pw q h1 h2) (le_join_right _ _) hle.1 L
  · by_cases hdi : d < (s.x.wr i).idx
    · cases hacc : (s.x.wr i).acc with
      | none => have := (hc.2 i hi).accSome hpc (by omega); simp [hacc] at this
      | some m0 =>
        have h1 := ((hH.hw.know i hi).ld hpc m0 hacc).2 d hdi
        have h2 := hle.2 m0 hacc
        simp only [VC.join]; exact Nat.le_trans (Nat.le_trans h2 h1) (Nat.le_max_left _ _)
    · have : d = (s.x.wr i).idx := by omega
      subst this
      simp only [VC.join]; exact Nat.le_trans (Nat.le_trans hle.1 g2) (Nat.le_max_right _ _)

/-- `has_capacity`, all last-stage cursors loaded: the minimum is known for every handler of every stage -/
theorem capB_fact (o : Ords) (s : HMSt) (i : Nat) (hi : i < s.x.P) (hc : MCap s.x)
    (hH : HMInv s) (L : List (Nat × Nat)) (hpc : (s.x.wr i).pc = .capLoad) (hge : ¬ (s.x.wr i).idx < ngate s.x.s) :
    (∀ k j, k < s.x.s.K → j < s.x.s.h k → (s.x.wr i).acc.getD 0 ≤ (writerV o s i).ha k j) ∧
    KnowsUpTo (s.x.written ++ L) (writerV o s i) ((s.x.wr i).acc.getD 0) := by
  have hK := hc.1.2.2
  have hgpos := ngate_pos s.x.s hc.1.2.1.1 hK
  have e : writerV o s i = s.vcW i := by simp [writerV, hpc, hge]
  have hidx : (s.x.wr i).idx = ngate s.x.s := by have := (hc.2 i hi).idxLe hpc; omega
  have hsome := (hc.2 i hi).accSome hpc (by omega)
  rw [e]
  cases hacc : (s.x.wr i).acc with
  | none => simp [hacc] at hsome
  | some m =>
    simp only [Option.getD_some]
    obtain ⟨b1, b2⟩ := (hH.hw.know i hi).ld hpc m hacc
    obtain ⟨b3, b4⟩ := b1 (by omega)
    refine ⟨fun k j hk hj => ?_, b4.mono (le_refl' _) (Nat.le_refl _) L⟩
    by_cases hkl : k < s.x.s.K - 1
    · exact b3 k j hkl hj
    · have : k = s.x.s.K - 1 := by omega
      subst this
      exact b2 j (by rw [hidx]; simpa [ngate] using hj)

/-- the slot write: the writer's new clock knows it -/
theorem write_fact (o : Ords) (s : HMSt) (i : Nat) (hi : i < s.x.P) (hH : HMInv s)
    (hpc : (s.x.wr i).pc = .write) (hle : (s.x.wr i).w ≤ (s.x.wr i).hi) :
    KnowsW (s.x.written ++ [((s.x.wr i).w, i)]) (writerV o s i) (s.x.wr i).w := by
  have e : writerV o s i = (s.vcW i).incW i := by simp [writerV, hpc, hle]
  refine ⟨i, (wlog s.x.written i).length, ?_, ?_⟩
  · rw [wlog_append, wlog_single, if_pos rfl]; simp
  · rw [e]; simp [VC.incW, hH.hw.own i hi]

/-- the acquire load of the low watermark -/
theorem readLw_fact (o : Ords) (hget : o.get.isAcquire = true) (s : HMSt) (i : Nat) (hH : HMInv s) (L : List (Nat × Nat))
    (hpc : (s.x.wr i).pc = .readLw) :
    CoversM (s.x.written ++ L) s.x.s.K s.x.s.h s.x.s.n (writerV o s i) 0 s.x.lw := by
  have e : writerV o s i = loadClock o.get (s.vcW i) s.lcLw := by simp [writerV, hpc]
  rw [e]
  exact hH.hl.lLw.mono (loc_le_loadClock _ hget _ _) (Nat.le_refl _) L

/-- the scan: an acquire load of the word of `good + 1` that finds the bit set teaches the publisher the slot write of
`good + 1` — the bit is the bit of a published sequence `q0` above the cursor with the same residue (release safety), whose
word clock knows `q0` and everything a lap below `q0`; either `q0 = good + 1`, or `good + 1` is at or below the cursor and `q0`
is at least a lap above it -/
theorem scan_fact (o : Ords) (hbl : o.bLoad.isAcquire = true) (s : HMSt) (i : Nat) (hi : i < s.x.P) (hS : MSafe s.x)
    (hH : HMInv s) (L : List (Nat × Nat)) (hpc : (s.x.wr i).pc = .scan) (hlt : (s.x.wr i).good < (s.x.wr i).hi)
    (hbit : bmIsSet s.x.bm ((s.x.wr i).good + 1) = true) :
    CoversM (s.x.written ++ L) s.x.s.K s.x.s.h s.x.s.n (writerV o s i) 0 ((s.x.wr i).good + 1) := by
  have hR := hS.2
  have hix := (wordIx_eq hR.bmOk ((s.x.wr i).good + 1)).1
  have e : writerV o s i = (s.vcW i).join (s.lcB (C19.slotOf s.x.s.n ((s.x.wr i).good + 1))) := by
    simp [writerV, hpc, hlt, loadClock, hbl, hix]
  have hgood := (hH.hw.know i hi).good (by simp [goodPc, hpc])
  obtain ⟨q0, hr, hp, hq0⟩ := hR.bits _ hbit
  have hb0 : bmIsSet s.x.bm q0 = true := by rw [bmIsSet_congr hR.bmOk q0 _ hr]; exact hbit
  have hk := hH.hl.lB q0 hp hq0 hb0
  rw [slotOf_congr _ _ _ hr] at hk
  have hws := hR.ws i hi
  have hhi := hws.hiLe
  have hwin := hR.window
  have hq0hw := hp.2.1
  -- what the word's clock knows about `good + 1`
  have hself : KnowsW s.x.written (s.lcB (C19.slotOf s.x.s.n ((s.x.wr i).good + 1))) ((s.x.wr i).good + 1) ∧
      ∀ k j, k < s.x.s.K → j < s.x.s.h k →
        (s.x.wr i).good + 1 ≤ (s.lcB (C19.slotOf s.x.s.n ((s.x.wr i).good + 1))).ha k j + s.x.s.n := by
    by_cases heq : q0 = (s.x.wr i).good + 1
    · rw [heq] at hk; exact ⟨hk.self, hk.old⟩
    · have hlt0 : (s.x.wr i).good + 1 < q0 := by
        rcases Nat.lt_or_ge ((s.x.wr i).good + 1) q0 with h | h
        · exact h
        · exact absurd (eq_of_mod_eq_window hr h (by omega)) heq
      have hlap := lap_of_mod_eq hr.symm hlt0
      exact ⟨hk.lap _ (by omega) hlap, fun k j hk' hj => by have := hk.old k j hk' hj; omega⟩
  rw [e]
  refine ⟨fun q h1 h2 => ?_, fun k' j' hk' => by omega, fun k' j' hK hj => ?_⟩
  · by_cases hq : q ≤ (s.x.wr i).good
    · exact knowsW_mono (hgood.pw q h1 hq) (le_join_left _ _) L
    · have : q = (s.x.wr i).good + 1 := by omega
      subst this
      exact knowsW_mono hself.1 (le_join_right _ _) L
  · have := hself.2 k' j' hK hj
    have := (le_join_right (s.vcW i) (s.lcB (C19.slotOf s.x.s.n ((s.x.wr i).good + 1)))).2 k' j'
    omega

/-- the writer threads' clauses are preserved by a writer's step -/
theorem hwr_writer (o : Ords) (hget : o.get.isAcquire = true) (hbl : o.bLoad.isAcquire = true)
    (s : HMSt) (i : Nat) (hi : i < s.x.P) (hS : MSafe s.x) (hH : HMInv s) :
    HWr (stepWriter s.x i) (updV1 s.vcW i (writerV o s i)) := by
  obtain ⟨L, hL, hLo⟩ := stepWriter_written_app s.x i
  obtain ⟨_, eK, eh, en⟩ := stepWriter_s s.x i
  have hv := writerV_le o s i hH.hz
  constructor
  · intro j hj
    rw [stepWriter_P] at hj
    by_cases he : j = i
    · subst he
      rw [updV1_same, writerV_own o s j hH.hz]
      by_cases hacc : (s.x.wr j).pc = .write ∧ (s.x.wr j).w ≤ (s.x.wr j).hi
      · rw [if_pos hacc]
        have : (stepWriter s.x j).written = s.x.written ++ [((s.x.wr j).w, j)] := by
          simp [stepWriter, hacc.1, hacc.2]
        rw [this, wlog_append, wlog_single, if_pos rfl, hH.hw.own j hj]; simp
      · rw [if_neg hacc]
        rcases stepWriter_written s.x j with h | ⟨h1, h2, _⟩
        · rw [h]; exact hH.hw.own j hj
        · exact absurd ⟨h1, h2⟩ hacc
    · rw [updV1_other _ _ _ _ he, hL, wlog_append, hLo j he, List.append_nil]; exact hH.hw.own j hj
  · intro j hj
    rw [stepWriter_P] at hj
    rw [eK, eh, en, hL]
    by_cases he : j = i
    · subst he
      rw [updV1_same]
      have base := (hH.hw.know j hj).mono hv L
      apply wknow_own1 s.x j _ _ _ _ _ base
      · intro hpc hlt; exact capA_fact o hget s j hj hS.1 hH L hpc hlt
      · intro hpc hge; exact capB_fact o s j hj hS.1 hH L hpc hge
      · intro hpc hle
        have : (stepWriter s.x j).written = s.x.written ++ [((s.x.wr j).w, j)] := by simp [stepWriter, hpc, hle]
        rw [← hL, this]; exact write_fact o s j hj hH hpc hle
      · intro hpc; exact readLw_fact o hget s j hH L hpc
      · intro hpc hlt hbit; exact scan_fact o hbl s j hj hS hH L hpc hlt hbit
    · rw [updV1_other _ _ _ _ he, stepWriter_others s.x i j he]
      exact (hH.hw.know j hj).mono (le_refl' _) L

/-! ## `HLoc`: cursor, low watermark, bitmap words -/

/-- the only sequence that leaves the pending set of the stepping writer is the one whose bit it sets -/
theorem wpend_lost (x : MSt) (i q : Nat) (h : wpend (x.wr i) q) (hn : ¬ wpend ((stepWriter x i).wr i) q) :
    (x.wr i).pc = .setBit ∧ (x.wr i).nbit ≤ (x.wr i).hi ∧ q = (x.wr i).nbit := by
  revert h hn
  unfold stepWriter wpend
  cases hpc : (x.wr i).pc <;> simp only [hpc] <;> (repeat' split) <;> (try simp only [updW_same]) <;> grind

theorem fresh_pend (x : MSt) (i q : Nat) (hpc : (x.wr i).pc = .casHw) (he : x.hw = (x.wr i).hwSeen)
    (h1 : x.hw < q) (h2 : q ≤ (stepWriter x i).hw) : wpend ((stepWriter x i).wr i) q := by
  revert h2
  simp [stepWriter, hpc, he, updW_same, wpend]
  omega

/-- a sequence that is published after a writer's step was published before it, or is the one whose bit was just set -/
theorem pub_back (x : MSt) (i q : Nat) (hi : i < x.P) (h : Pub (stepWriter x i) q) :
    Pub x q ∨ ((x.wr i).pc = .setBit ∧ (x.wr i).nbit ≤ (x.wr i).hi ∧ q = (x.wr i).nbit) := by
  obtain ⟨h1, h2, h3⟩ := h
  by_cases hq : q ≤ x.hw
  · by_cases hp : Pend x q
    · obtain ⟨j, hj, hw⟩ := hp
      by_cases he : j = i
      · subst he
        right
        apply wpend_lost x j q hw
        intro hn
        exact h3 ⟨j, by rw [stepWriter_P]; exact hj, hn⟩
      · exfalso
        exact h3 ⟨j, by rw [stepWriter_P]; exact hj, by rw [stepWriter_others x i j he]; exact hw⟩
    · left; exact ⟨h1, hq, hp⟩
  · exfalso
    rcases stepWriter_hw x i with e | ⟨hpc, he, _⟩
    · omega
    · exact h3 ⟨i, by rw [stepWriter_P]; exact hi, fresh_pend x i q hpc he (by omega) h2⟩

/-- `fetch_or` of the bit of `nbit` by its claimant: the claimant's clock knows the slot write of `nbit`, of everything a lap
below, and every handler's access of `nbit - n` -/
theorem setBit_fact (s : HMSt) (i : Nat) (hi : i < s.x.P) (hS : MSafe s.x) (hH : HMInv s)
    (hpc : (s.x.wr i).pc = .setBit) (hle : (s.x.wr i).nbit ≤ (s.x.wr i).hi) :
    SeqK s.x.written s.x.s.K s.x.s.h s.x.s.n (s.vcW i) (s.x.wr i).nbit := by
  have hk := hH.hw.know i hi
  have hcap := (hS.1.2 i hi).hiLt (Or.inr hpc)
  have hnb := (hS.2.ws i hi).nbitGe hpc
  refine ⟨hk.claimS hpc _ hnb hle, fun q h1 h2 => hk.minW q h1 (by omega), fun k j hk' hj => ?_⟩
  have := hk.min k j hk' hj
  omega

theorem hloc_writer (o : Ords) (hset : o.set.isRelease = true) (hcas : o.casOk.isRelease = true)
    (hbor : o.bOr.isRelease = true) (s : HMSt) (i : Nat) (hi : i < s.x.P) (hS : MSafe s.x) (hH : HMInv s) :
    HLoc (stepWriter s.x i) (writerCur o s i) (writerLw o s i) (writerB o s i) := by
  obtain ⟨L, hL, _⟩ := stepWriter_written_app s.x i
  obtain ⟨_, eK, eh, en⟩ := stepWriter_s s.x i
  have hv := writerV_le o s i hH.hz
  have hR := hS.2
  have hcm := stepWriter_cursor_mono s.x i hi hS.1.1.1
  constructor
  · -- the cursor
    rw [eK, eh, en, hL]
    rcases stepWriter_cursor s.x i with e | ⟨hpc, hc, e⟩
    · rw [e]; exact hH.hl.lCur.mono (writerCur_le o s i) (Nat.le_refl _) L
    · rw [e]
      have e2 : writerCur o s i = rmwClock o.casOk (writerV o s i) s.lcCur := by simp [writerCur, hpc, hc]
      rw [e2]
      exact ((hH.hw.know i hi).good (by simp [goodPc, hpc])).mono
        (le_trans' hv (thread_le_rmwClock _ hcas _ _)) (Nat.le_refl _) L
  · -- the low watermark
    rw [eK, eh, en, hL]
    by_cases hpc : (s.x.wr i).pc = .setLw
    · have e1 : (stepWriter s.x i).lw = (s.x.wr i).good := by simp [stepWriter, hpc]
      have e2 : writerLw o s i = s.vcW i := by simp [writerLw, hpc, storeClock, hset]
      rw [e1, e2]
      exact ((hH.hw.know i hi).good (by simp [goodPc, hpc])).mono (le_refl' _) (Nat.le_refl _) L
    · have e1 : (stepWriter s.x i).lw = s.x.lw := by
        rcases stepWriter_lw s.x i with e | ⟨h, _⟩
        · exact e
        · exact absurd h hpc
      have e2 : writerLw o s i = s.lcLw := by
        cases hpc' : (s.x.wr i).pc <;> simp only [writerLw, hpc']
        exact absurd hpc' hpc
      rw [e1, e2]
      exact hH.hl.lLw.mono (le_refl' _) (Nat.le_refl _) L
  · -- the bitmap words
    intro q0 hp hq0 hbit
    rw [eK, eh, en, hL]
    have hcur : s.x.s.cursor < q0 := by omega
    -- a bit that is set after the step was set before it or is the one being set
    have hbm : bmIsSet s.x.bm q0 = true ∨
        ((s.x.wr i).pc = .setBit ∧ (s.x.wr i).nbit ≤ (s.x.wr i).hi ∧ (s.x.wr i).nbit % s.x.s.n = q0 % s.x.s.n) := by
      rcases stepWriter_bm s.x i with e | ⟨hpc, hle, e, _⟩ | ⟨hpc, hle, e⟩
      · rw [e] at hbit; exact Or.inl hbit
      · rw [e, (bm_set hR.bmOk _).2 q0] at hbit
        by_cases hr : (s.x.wr i).nbit % s.x.s.n = q0 % s.x.s.n
        · exact Or.inr ⟨hpc, hle, hr⟩
        · rw [if_neg hr] at hbit; exact Or.inl hbit
      · rw [e, (bm_unset hR.bmOk _).2 q0] at hbit
        split at hbit
        · exact absurd hbit (by simp)
        · exact Or.inl hbit
    have hnew : (s.x.wr i).pc = .setBit → (s.x.wr i).nbit ≤ (s.x.wr i).hi → q0 = (s.x.wr i).nbit →
        SeqK (s.x.written ++ L) s.x.s.K s.x.s.h s.x.s.n (writerB o s i (C19.slotOf s.x.s.n q0)) q0 := by
      intro hpc hle heq
      subst heq
      have hix := (wordIx_eq hR.bmOk (s.x.wr i).nbit).2.1
      have e : writerB o s i (C19.slotOf s.x.s.n (s.x.wr i).nbit) =
          rmwClock o.bOr (writerV o s i) (s.lcB (C19.slotOf s.x.s.n (s.x.wr i).nbit)) := by
        simp [writerB, hpc, hle, hix]
      rw [e]
      exact (setBit_fact s i hi hS hH hpc hle).mono (le_trans' hv (thread_le_rmwClock _ hbor _ _)) L
    rcases pub_back s.x i q0 hi hp with hpx | ⟨hpc, hle, heq⟩
    · rcases hbm with hb | ⟨hpc, hle, hr⟩
      · exact (hH.hl.lB q0 hpx hcur hb).mono (writerB_le o s i _) L
      · -- the bit being set has the residue of `q0`: both lie in the window above the cursor, so `q0` is the pending `nbit`
        exfalso
        have hws := hR.ws i hi
        have hpend : wpend (s.x.wr i) (s.x.wr i).nbit := Or.inr ⟨hpc, Nat.le_refl _, hle⟩
        have h1 := hws.hiLe
        have h2 := hws.loPos (Or.inr hpc)
        have h3 := hws.nbitGe hpc
        have hwin := hR.window
        have hq0hw := hpx.2.1
        have hnc : s.x.s.cursor < (s.x.wr i).nbit := by
          apply Nat.lt_of_not_le
          intro hcb
          exact (hR.pref _ (by omega) hcb).2.2 ⟨i, hi, hpend⟩
        have : (s.x.wr i).nbit = q0 := by
          rcases Nat.le_total (s.x.wr i).nbit q0 with h | h
          · exact eq_of_mod_eq_window hr h (by omega)
          · exact (eq_of_mod_eq_window hr.symm h (by omega)).symm
        rw [← this] at hpx
        exact hpx.2.2 ⟨i, hi, hpend⟩
    · exact hnew hpc hle heq

/-! ## the whole invariant, every schedule -/

/-- the facts about the orderings the proof uses -/
structure OrdsOk (o : Ords) : Prop where
  get   : o.get.isAcquire = true
  set   : o.set.isRelease = true
  casOk : o.casOk.isRelease = true
  bOr   : o.bOr.isRelease = true
  bLoad : o.bLoad.isAcquire = true

theorem hminv_writer (o : Ords) (ho : OrdsOk o) (s : HMSt) (i : Nat) (hi : i < s.x.P) (hS : MSafe s.x) (hH : HMInv s) :
    HMInv (stepMH o s (.writer i)) := by
  rw [stepMH_writer o s i hi]
  exact ⟨hcons_writer s i hH.hc, hloc_writer o ho.set ho.casOk ho.bOr s i hi hS hH,
    hwr_writer o ho.get ho.bLoad s i hi hS hH, hdom_writer o s i hH.hz⟩

theorem stepMH_x (o : Ords) (s : HMSt) (t : MTid) : (stepMH o s t).x = stepM s.x t := by
  cases t with
  | writer i => simp only [stepMH, stepM]; split <;> rfl
  | drainer => rfl
  | cons k j => simp only [stepMH, stepM]; split <;> rfl

theorem runMH_x (o : Ords) (s : HMSt) (sched : List MTid) : (runMH o s sched).x = runM s.x sched := by
  unfold runMH runM
  induction sched generalizing s with
  | nil => rfl
  | cons t ts ih => simp only [List.foldl_cons]; rw [ih, stepMH_x]

/-- the release-safety invariant of the underlying system together with the clock invariant -/
def HMGood (s : HMSt) : Prop := MSafe s.x ∧ HMInv s

theorem hmgood_step (o : Ords) (ho : OrdsOk o) (s : HMSt) (t : MTid) (h : HMGood s) : HMGood (stepMH o s t) := by
  refine ⟨by rw [stepMH_x]; exact msafe_stepM s.x t h.1, ?_⟩
  cases t with
  | writer i =>
    by_cases hi : i < s.x.P
    · exact hminv_writer o ho s i hi h.1 h.2
    · simp only [stepMH, hi, if_false]; exact h.2
  | drainer => exact hminv_drainer o s h.2
  | cons k j =>
    by_cases hv : k < s.x.s.K ∧ j < s.x.s.h k
    · exact hminv_cons o ho.set ho.get s k j hv.1 hv.2 h.1.1.1.2.1 h.2
    · simp only [stepMH, hv, if_false]; exact h.2

theorem hmgood_run (o : Ords) (ho : OrdsOk o) (s : HMSt) (sched : List MTid) (h : HMGood s) :
    HMGood (runMH o s sched) := by
  unfold runMH
  induction sched generalizing s with
  | nil => exact h
  | cons t ts ih => exact ih _ (hmgood_step o ho s t h)

theorem hmgood_init (k K : Nat) (h : Nat → Nat) (blocking : Bool) (batches : List (List Nat))
    (hK : 0 < K) (hh : ∀ j, j < K → 0 < h j) (hb : ∀ l, l ∈ batches → ∀ b, b ∈ l → 1 ≤ b) :
    HMGood (mkMH (2 ^ k) K h blocking batches) := by
  refine ⟨msafe_init k K h blocking batches hK hh hb, ?_, ?_, ?_, ?_⟩
  · constructor <;> simp [mkMH, mkM, doneOf, availPc]
    · intro _ _ _ _; exact coversM_zero _ _ _ _ _ _
    · intro _ _ _ _; exact coversM_zero _ _ _ _ _ _
  · refine ⟨coversM_zero _ _ _ _ _ _, coversM_zero _ _ _ _ _ _, ?_⟩
    intro q0 hp; have h2 := hp.2.1; have h1 := hp.1; simp [mkMH, mkM] at h2; omega
  · refine ⟨fun i _ => by simp [mkMH, mkM, wlog], fun i _ => ?_⟩
    constructor <;> simp [mkMH, mkM, goodPc, KnowsUpTo]
    intro q h1 h2; omega
  · have d := dom_empty (ow (mkMH (2 ^ k) K h blocking batches)) (oh (mkMH (2 ^ k) K h blocking batches))
    exact ⟨d, d, d, fun _ _ => d, fun _ => d, fun _ => d, fun _ _ => d, d⟩

/-- the obligations follow from the invariant -/
theorem raceFreeM_of_inv (s : HMSt) (h : HMGood s) : RaceFreeM s := by
  obtain ⟨hS, hH⟩ := h
  refine ⟨?_, ?_, ?_⟩
  · intro k j hk hj hpc hi
    exact (hH.hc.cAv k j hk hj (by simp [availPc, hpc])).le (le_refl' _) hi
  · intro a ha hpc hw k j hk hj
    have := (hH.hw.know a ha).min k j hk hj
    have := (hS.1.2 a ha).hiLt (Or.inl hpc)
    omega
  · intro a ha hpc hw q h1 h2
    have := (hS.1.2 a ha).hiLt (Or.inl hpc)
    exact (hH.hw.know a ha).minW q h1 (by omega)

/-! ## the ghost write log: every logged slot write is of a claimed sequence and is made once -/

/-- every logged slot write `(q, a)` is of a claimed sequence, and no writer still has `q` to write -/
structure MLog (x : MSt) : Prop where
  leHw : ∀ q a, (q, a) ∈ x.written → 1 ≤ q ∧ q ≤ x.hw
  once : ∀ q a, (q, a) ∈ x.written → ∀ j, j < x.P → ¬ unwr (x.wr j) q

theorem unwr_back (x : MSt) (i q : Nat) (h : unwr ((stepWriter x i).wr i) q) : unwr (x.wr i) q ∨ x.hw < q := by
  revert h
  unfold stepWriter unwr
  cases hpc : (x.wr i).pc <;> simp only [hpc] <;> (repeat' split) <;> (try simp only [updW_same]) <;> grind

theorem mlog_stepWriter (x : MSt) (i : Nat) (hi : i < x.P) (hR : MRel x) (h : MLog x) : MLog (stepWriter x i) := by
  have hws := hR.ws i hi
  constructor
  · intro q a hq
    have hm := stepWriter_hw_mono x i
    rcases written_step x i (q, a) hq with h1 | ⟨_, hpc, hle, h4⟩
    · have := h.leHw q a h1; omega
    · simp only at h4
      have := hws.wGe hpc; have := hws.loPos (Or.inl hpc); have := hws.hiLe
      omega
  · intro q a hq j hj hu
    rw [stepWriter_P] at hj
    rcases written_step x i (q, a) hq with h1 | ⟨_, hpc, hle, h4⟩
    · by_cases he : j = i
      · subst he
        rcases unwr_back x j q hu with h2 | h2
        · exact h.once q a h1 j hj h2
        · have := (h.leHw q a h1).2; omega
      · rw [stepWriter_others x i j he] at hu
        exact h.once q a h1 j hj hu
    · simp only at h4
      subst h4
      by_cases he : j = i
      · subst he
        have : (stepWriter x j).wr j = { x.wr j with w := (x.wr j).w + 1 } := by simp [stepWriter, hpc, hle, updW_same]
        rw [this] at hu
        have := hu.2.1
        simp only at this
        omega
      · rw [stepWriter_others x i j he] at hu
        have p1 : wpend (x.wr i) (x.wr i).w := Or.inl ⟨hpc, hws.wGe hpc, hle⟩
        have p2 : wpend (x.wr j) (x.wr i).w :=
          Or.inl ⟨hu.1, Nat.le_trans ((hR.ws j hj).wGe hu.1) hu.2.1, hu.2.2⟩
        exact he (hR.disj i j _ hi hj p1 p2).symm

theorem mlog_congr (x x' : MSt) (hP : x'.P = x.P) (hwr : x'.wr = x.wr) (hhw : x'.hw = x.hw)
    (hwritten : x'.written = x.written) (h : MLog x) : MLog x' := by
  obtain ⟨s', P', hw', lw', bm', wr', dr', written', ac'⟩ := x'
  simp only at hP hwr hhw hwritten
  subst hP hwr hhw hwritten
  exact ⟨h.1, h.2⟩

theorem mlog_stepM (x : MSt) (t : MTid) (hS : MSafe x) (h : MLog x) : MLog (stepM x t) := by
  cases t with
  | writer i =>
    show MLog (if i < x.P then stepWriter x i else x)
    split
    · rename_i hi; exact mlog_stepWriter x i hi hS.2 h
    · exact h
  | drainer =>
    obtain ⟨h1, h2, h3, _, _, h6, _, _⟩ := stepDrainer_frame x
    exact mlog_congr x (stepDrainer x) h1 h2 h3 h6 h
  | cons k j =>
    show MLog (if k < x.s.K ∧ j < x.s.h k then { x with s := stepC x.s k j } else x)
    split
    · exact mlog_congr x _ rfl rfl rfl rfl h
    · exact h

theorem mlog_run (x : MSt) (sched : List MTid) (hS : MSafe x) (h : MLog x) : MLog (runM x sched) := by
  unfold runM
  induction sched generalizing x with
  | nil => exact h
  | cons t ts ih => exact ih _ (msafe_stepM x t hS) (mlog_stepM x t hS h)

theorem mreachableWF_log {x : MSt} (hr : MReachableWF x) (k : Nat) (hn : x.s.n = 2 ^ k) : MLog x := by
  obtain ⟨n, K, h, bl, bs, sched, hK, hh, hb, rfl⟩ := hr
  have hn' : n = 2 ^ k := by rw [runM_n] at hn; exact hn
  subst hn'
  refine mlog_run _ sched (msafe_init k K h bl bs hK hh hb) ⟨?_, ?_⟩
  · intro q a hq; simp [mkM] at hq
  · intro q a hq; simp [mkM] at hq

/-- every slot write already made to the slot a writer is about to write lies at least one lap below -/
theorem earlier_write_lap_below (x : MSt) (hS : MSafe x) (hL : MLog x) (b : Nat) (hb : b < x.P)
    (hpc : (x.wr b).pc = .write) (hw : (x.wr b).w ≤ (x.wr b).hi) (q a : Nat) (hq : (q, a) ∈ x.written)
    (hr : q % x.s.n = (x.wr b).w % x.s.n) : 1 ≤ q ∧ q + x.s.n ≤ (x.wr b).w := by
  obtain ⟨h1, h2⟩ := writing_above_cursor x hS b hb hpc hw
  obtain ⟨h3, h4⟩ := hL.leHw q a hq
  have hwin := hS.2.window
  have hne : q ≠ (x.wr b).w := by
    intro he
    exact hL.once q a hq b hb ⟨hpc, by omega, by omega⟩
  refine ⟨h3, ?_⟩
  rcases Nat.lt_or_ge q (x.wr b).w with hlt | hge
  · exact lap_of_mod_eq hr hlt
  · have := lap_of_mod_eq hr.symm (by omega : (x.wr b).w < q)
    omega

/-- every logged slot write is less than a ring above every handler's published cursor (`has_capacity` at the time of the
write; cursors only grow) -/
def MPast (x : MSt) : Prop :=
  ∀ q a, (q, a) ∈ x.written → ∀ k j, k < x.s.K → j < x.s.h k → q < (x.s.cons k j).cur + x.s.n

theorem mpast_stepM (x : MSt) (t : MTid) (hS : MSafe x) (h : MPast x) : MPast (stepM x t) := by
  cases t with
  | writer i =>
    show MPast (if i < x.P then stepWriter x i else x)
    split
    · rename_i hi
      obtain ⟨ec, eK, eh, en⟩ := stepWriter_s x i
      intro q a hq k j hk hj
      rw [eK] at hk; rw [eh] at hj; rw [ec, en]
      rcases written_step x i (q, a) hq with h1 | ⟨_, hpc, hle, h4⟩
      · exact h q a h1 k j hk hj
      · simp only at h4
        have := (hS.1.2 i hi).hiLt (Or.inl hpc)
        have := minG_le_all x hS.1 i hi k j hk hj
        omega
    · exact h
  | drainer =>
    obtain ⟨e1, e2, e3, e4, _⟩ := stepDrainer_s' x
    obtain ⟨_, _, _, _, _, f6, _, _⟩ := stepDrainer_frame x
    show MPast (stepDrainer x)
    intro q a hq k j hk hj
    rw [e2] at hk; rw [e3] at hj; rw [e1, e4]; rw [f6] at hq
    exact h q a hq k j hk hj
  | cons k j =>
    show MPast (if k < x.s.K ∧ j < x.s.h k then { x with s := stepC x.s k j } else x)
    split
    · rename_i hkj
      intro q a hq k' j' hk' hj'
      have h0 := h q a hq k' j' hk' hj'
      show q < ((stepC x.s k j).cons k' j').cur + x.s.n
      rw [stepC_cons]; unfold upd
      by_cases he : k' = k ∧ j' = j
      · obtain ⟨rfl, rfl⟩ := he
        simp only [and_self, if_true]
        have := cur_mono x.s k' j' _ (hS.1.1.2.1.2 k' j' hkj.1 hkj.2)
        omega
      · simp only [he, if_false]; exact h0
    · exact h

theorem mpast_run (x : MSt) (sched : List MTid) (hS : MSafe x) (h : MPast x) : MPast (runM x sched) := by
  unfold runM
  induction sched generalizing x with
  | nil => exact h
  | cons t ts ih => exact ih _ (msafe_stepM x t hS) (mpast_stepM x t hS h)

theorem mreachableWF_past {x : MSt} (hr : MReachableWF x) (k : Nat) (hn : x.s.n = 2 ^ k) : MPast x := by
  obtain ⟨n, K, h, bl, bs, sched, hK, hh, hb, rfl⟩ := hr
  have hn' : n = 2 ^ k := by rw [runM_n] at hn; exact hn
  subst hn'
  refine mpast_run _ sched (msafe_init k K h bl bs hK hh hb) ?_
  intro q a hq; simp [mkM] at hq

/-- every slot write already made to the slot a handler is about to access is of a sequence at or below the one it handles -/
theorem earlier_write_le_handled (x : MSt) (hS : MSafe x) (hL : MLog x) (hP : MPast x) (k j : Nat) (hk : k < x.s.K)
    (hj : j < x.s.h k) (hpc : (x.s.cons k j).pc = .handle) (q a : Nat) (hq : (q, a) ∈ x.written)
    (hr : q % x.s.n = (x.s.cons k j).i % x.s.n) : 1 ≤ q ∧ q ≤ (x.s.cons k j).i := by
  have hci := hS.1.1.2.1.2 k j hk hj
  have h1 := hci.iGe hpc
  have h2 := hci.nextEq (by simp [hpc])
  have h3 := hP q a hq k j hk hj
  refine ⟨(hL.leHw q a hq).1, ?_⟩
  apply Nat.le_of_not_lt
  intro hlt
  have := lap_of_mod_eq hr.symm hlt
  omega

/-- every sequence a handler has been handed is at most the cursor -/
theorem log_le_cursor (s : St) (hI : Inv s) (k j : Nat) (hk : k < s.K) (hj : j < s.h k) (q : Nat)
    (hq : q ∈ (s.cons k j).log) : 1 ≤ q ∧ q ≤ s.cursor := by
  have hc := hI.2 k j hk hj
  by_cases p1 : (s.cons k j).pc = .handle
  · rw [hc.logH p1] at hq
    have := avail_le_cursor s hI k j hk hj (by simp [p1])
    have := hc.iLe p1
    simp only [List.mem_range'_1] at hq; omega
  · by_cases p2 : (s.cons k j).pc = .publish
    · rw [hc.logP p2] at hq
      have := avail_le_cursor s hI k j hk hj (by simp [p2])
      simp only [List.mem_range'_1] at hq; omega
    · rw [hc.logO p1 p2] at hq
      have := chain_up s hI k j hk hj
      simp only [List.mem_range'_1] at hq; omega

end RingMultiHB
