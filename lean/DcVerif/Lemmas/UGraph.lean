import DcVerif.Model.UGraph
/-! Helper lemmas for C08/C09/C15: association lists, canonical sorting, the petgraph id allocator,
and the well-formedness invariant of `Model.UGraph` with its preservation by every operation. -/
namespace Model.UGraph
open Spec Spec.DiGraph

/-! ## association lists -/

/-- key membership as the boolean the code computes -/
def has {β : Type} (m : List (Nat × β)) (k : Nat) : Bool := m.any (fun e => e.1 == k)

theorem has_cons {β : Type} (e : Nat × β) (m : List (Nat × β)) (k : Nat) :
    has (e :: m) k = (e.1 == k || has m k) := rfl

theorem mGet_cons {β : Type} (e : Nat × β) (m : List (Nat × β)) (k : Nat) :
    mGet (e :: m) k = if e.1 = k then some e.2 else mGet m k := by
  unfold mGet; rw [List.find?_cons]
  by_cases h : e.1 = k
  · simp [h]
  · have : (e.1 == k) = false := by simpa using h
    simp [this, h]

theorem mRemove_cons {β : Type} (e : Nat × β) (m : List (Nat × β)) (k : Nat) :
    mRemove (e :: m) k = if e.1 = k then mRemove m k else e :: mRemove m k := by
  unfold mRemove; rw [List.filter_cons]
  by_cases h : e.1 = k <;> simp [h]

theorem has_iff_mem {β : Type} (m : List (Nat × β)) (k : Nat) : has m k = true ↔ k ∈ m.map (·.1) := by
  induction m with
  | nil => simp [has]
  | cons e m ih =>
    rw [has_cons, Bool.or_eq_true, ih, List.map_cons, List.mem_cons, beq_iff_eq]
    constructor <;> (rintro (h | h); exact Or.inl h.symm; exact Or.inr h)

theorem has_false_iff {β : Type} (m : List (Nat × β)) (k : Nat) : has m k = false ↔ k ∉ m.map (·.1) := by
  rw [← has_iff_mem]; cases has m k <;> simp

theorem mGet_isSome {β : Type} (m : List (Nat × β)) (k : Nat) : (mGet m k).isSome = has m k := by
  induction m with
  | nil => rfl
  | cons e m ih =>
    rw [mGet_cons, has_cons]
    by_cases h : e.1 = k <;> simp [h, ih]

/-- `index_map` always maps an index to itself -/
def sync (m : List (Nat × Nat)) : List (Nat × Nat) := m.map (fun e => (e.1, e.1))

theorem sync_cons (e : Nat × Nat) (m : List (Nat × Nat)) : sync (e :: m) = (e.1, e.1) :: sync m := rfl

theorem mGet_sync (m : List (Nat × Nat)) (i : Nat) : mGet (sync m) i = if has m i then some i else none := by
  induction m with
  | nil => rfl
  | cons e m ih =>
    rw [sync_cons, mGet_cons, has_cons, ih]
    by_cases h : e.1 = i <;> simp [h]

theorem has_sync (m : List (Nat × Nat)) (i : Nat) : has (sync m) i = has m i := by
  rw [← mGet_isSome, mGet_sync]; cases has m i <;> rfl

theorem sync_mRemove (m : List (Nat × Nat)) (k : Nat) : mRemove (sync m) k = sync (mRemove m k) := by
  induction m with
  | nil => rfl
  | cons e m ih =>
    rw [sync_cons, mRemove_cons, mRemove_cons, ih]
    by_cases h : e.1 = k <;> simp [h, sync_cons]

theorem has_mRemove {β : Type} (m : List (Nat × β)) (k j : Nat) : has (mRemove m k) j = (has m j && j != k) := by
  induction m with
  | nil => rfl
  | cons e m ih =>
    rw [mRemove_cons, has_cons]
    by_cases h : e.1 = k
    · rw [if_pos h, ih]
      by_cases hj : j = k
      · simp [hj]
      · have : ¬ e.1 = j := by omega
        rw [beq_false_of_ne this, Bool.false_or]
    · rw [if_neg h, has_cons, ih]
      by_cases hj : e.1 = j
      · have : ¬ j = k := by omega
        have hb : (j != k) = true := by simpa using this
        simp [hj, hb]
      · rw [beq_false_of_ne hj, Bool.false_or, Bool.false_or]

theorem filter_ne_of_not_has {β : Type} (m : List (Nat × β)) (k : Nat) (h : has m k = false) :
    mRemove m k = m := by
  unfold mRemove
  rw [List.filter_eq_self]
  intro a ha
  rw [has_false_iff] at h
  simp only [bne_iff_ne, ne_eq]
  intro e; exact h (List.mem_map.2 ⟨a, ha, e⟩)

theorem keys_nodup_filter {β : Type} (m : List (Nat × β)) (p : Nat × β → Bool)
    (h : (m.map (·.1)).Nodup) : ((m.filter p).map (·.1)).Nodup :=
  List.Nodup.sublist (List.Sublist.map _ List.filter_sublist) h

theorem length_mRemove {β : Type} (m : List (Nat × β)) (k : Nat) (hn : (m.map (·.1)).Nodup)
    (hk : has m k = true) : (mRemove m k).length + 1 = m.length := by
  induction m with
  | nil => simp [has] at hk
  | cons e m ih =>
    simp only [List.map_cons, List.nodup_cons] at hn
    rw [mRemove_cons]
    by_cases h : e.1 = k
    · have : has m k = false := by rw [has_false_iff]; rw [← h]; exact hn.1
      rw [if_pos h, filter_ne_of_not_has m k this]; rfl
    · have hk' : has m k = true := by
        rw [has_cons] at hk
        have : (e.1 == k) = false := by simpa using h
        simpa [this] using hk
      have := ih hn.2 hk'
      rw [if_neg h]; simp only [List.length_cons]; omega

theorem mGet_mRemove_ne {β : Type} (m : List (Nat × β)) (k j : Nat) (h : j ≠ k) :
    mGet (mRemove m k) j = mGet m j := by
  induction m with
  | nil => rfl
  | cons e m ih =>
    rw [mRemove_cons, mGet_cons]
    by_cases he : e.1 = k
    · have : ¬ e.1 = j := by omega
      rw [if_pos he, if_neg this, ih]
    · rw [if_neg he, mGet_cons, ih]

theorem mGet_eq_none_of_not_has {β : Type} (m : List (Nat × β)) (k : Nat) (h : has m k = false) :
    mGet m k = none := by
  have := mGet_isSome m k
  rw [h] at this
  cases hm : mGet m k with
  | none => rfl
  | some v => rw [hm] at this; simp at this

/-! ## canonical sorting -/

theorem pairLe_trans (a b c : Nat × Nat) : pairLe a b = true → pairLe b c = true → pairLe a c = true := by
  simp only [pairLe, Bool.or_eq_true, Bool.and_eq_true, decide_eq_true_eq, beq_iff_eq]; omega

theorem pairLe_total (a b : Nat × Nat) : (pairLe a b || pairLe b a) = true := by
  simp only [pairLe, Bool.or_eq_true, Bool.and_eq_true, decide_eq_true_eq, beq_iff_eq]; omega

theorem pairLe_antisymm (a b : Nat × Nat) : pairLe a b = true → pairLe b a = true → a = b := by
  simp only [pairLe, Bool.or_eq_true, Bool.and_eq_true, decide_eq_true_eq, beq_iff_eq]
  intro h1 h2
  apply Prod.ext <;> omega

theorem insertBy_perm {α : Type} (le : α → α → Bool) (a : α) (l : List α) : (insertBy le a l).Perm (a :: l) := by
  induction l with
  | nil => exact List.Perm.refl _
  | cons b l ih =>
    unfold insertBy
    split
    · exact List.Perm.refl _
    · exact (List.Perm.cons b ih).trans (List.Perm.swap a b l)

theorem isort_cons {α : Type} (le : α → α → Bool) (a : α) (l : List α) :
    isort le (a :: l) = insertBy le a (isort le l) := rfl

theorem isort_perm {α : Type} (le : α → α → Bool) (l : List α) : (isort le l).Perm l := by
  induction l with
  | nil => exact List.Perm.refl _
  | cons a l ih => rw [isort_cons]; exact (insertBy_perm le a _).trans (List.Perm.cons a ih)

theorem insertBy_pairwise {α : Type} {le : α → α → Bool}
    (htr : ∀ a b c, le a b = true → le b c = true → le a c = true) (htot : ∀ a b, (le a b || le b a) = true)
    (a : α) (l : List α) (h : l.Pairwise (fun x y => le x y = true)) :
    (insertBy le a l).Pairwise (fun x y => le x y = true) := by
  induction l with
  | nil => simp [insertBy]
  | cons b l ih =>
    rw [List.pairwise_cons] at h
    unfold insertBy
    split
    · rename_i hab
      rw [List.pairwise_cons]
      refine ⟨?_, List.pairwise_cons.2 h⟩
      intro x hx
      rcases List.mem_cons.1 hx with rfl | hx
      · exact hab
      · exact htr _ _ _ hab (h.1 x hx)
    · rename_i hab
      have hba : le b a = true := by
        have := htot a b
        cases h1 : le a b
        · simpa [h1] using this
        · exact absurd h1 hab
      rw [List.pairwise_cons]
      refine ⟨?_, ih h.2⟩
      intro x hx
      rcases List.mem_cons.1 ((insertBy_perm le a l).mem_iff.1 hx) with rfl | hx
      · exact hba
      · exact h.1 x hx

theorem isort_pairwise {α : Type} {le : α → α → Bool}
    (htr : ∀ a b c, le a b = true → le b c = true → le a c = true) (htot : ∀ a b, (le a b || le b a) = true)
    (l : List α) : (isort le l).Pairwise (fun x y => le x y = true) := by
  induction l with
  | nil => exact List.Pairwise.nil
  | cons a l ih => rw [isort_cons]; exact insertBy_pairwise htr htot a _ ih

/-- sorting forgets the order of its input -/
theorem sortPairs_perm {l₁ l₂ : List (Nat × Nat)} (h : l₁.Perm l₂) : sortPairs l₁ = sortPairs l₂ := by
  apply List.Perm.eq_of_pairwise (le := fun a b => pairLe a b = true)
  · intro a b _ _; exact pairLe_antisymm a b
  · exact isort_pairwise pairLe_trans pairLe_total l₁
  · exact isort_pairwise pairLe_trans pairLe_total l₂
  · exact ((isort_perm pairLe l₁).trans h).trans (isort_perm pairLe l₂).symm

theorem sortNat_perm (l : List Nat) : (sortNat l).Perm l := isort_perm _ l

theorem mem_sortNat (l : List Nat) (a : Nat) : a ∈ sortNat l ↔ a ∈ l := (sortNat_perm l).mem_iff

theorem nodup_sortNat (l : List Nat) (h : l.Nodup) : (sortNat l).Nodup :=
  (sortNat_perm l).symm.nodup h

theorem filter_or_perm {α : Type} (p q : α → Bool) (l : List α) (hd : ∀ x ∈ l, ¬ (p x = true ∧ q x = true)) :
    (l.filter (fun x => p x || q x)).Perm (l.filter p ++ l.filter q) := by
  induction l with
  | nil => simp
  | cons x l ih =>
    have ih := ih (fun y hy => hd y (List.mem_cons_of_mem _ hy))
    have hx := hd x List.mem_cons_self
    simp only [List.filter_cons]
    cases hp : p x <;> cases hq : q x
    · simpa using ih
    · simp only [Bool.false_or, if_true, Bool.false_eq_true, if_false]
      exact (List.Perm.cons x ih).trans List.perm_middle.symm
    · simp only [Bool.true_or, if_true, Bool.false_eq_true, if_false, List.cons_append]
      exact List.Perm.cons x ih
    · exact absurd ⟨hp, hq⟩ hx

/-! ## petgraph `IdStorage` -/
namespace IdStore

theorem isLive_iff (s : IdStore) (i : Nat) : s.isLive i = true ↔ i < s.upper ∧ i ∉ s.removed := by
  simp [isLive]

/-- the bookkeeping invariant of `IdStorage`: removed ids are distinct and below the upper bound -/
structure Ok (s : IdStore) : Prop where
  nodup : s.removed.Nodup
  lt : ∀ r ∈ s.removed, r < s.upper

theorem add_spec (s : IdStore) (h : Ok s) :
    s.isLive s.add.2 = false ∧ (∀ i, s.add.1.isLive i = (s.isLive i || i == s.add.2)) ∧ Ok s.add.1 ∧
    s.add.1.upper + s.removed.length = s.upper + 1 + s.add.1.removed.length := by
  obtain ⟨hn, hl⟩ := h
  unfold add
  cases hs : s.removed with
  | nil =>
    simp only
    refine ⟨?_, ?_, ⟨?_, ?_⟩, ?_⟩
    · simp [isLive]
    · intro i; rw [Bool.eq_iff_iff]; simp [isLive, hs]; omega
    · simp
    · simp
    · simp
  | cons r rest =>
    rw [hs] at hn hl
    have hr : r < s.upper := hl r List.mem_cons_self
    rw [List.nodup_cons] at hn
    simp only
    refine ⟨?_, ?_, ⟨hn.2, fun x hx => hl x (List.mem_cons_of_mem _ hx)⟩, ?_⟩
    · simp [isLive, hs]
    · intro i; rw [Bool.eq_iff_iff]
      simp only [isLive, hs, Bool.and_eq_true, decide_eq_true_eq, Bool.not_eq_true', Bool.or_eq_true,
        beq_iff_eq, List.contains_eq_mem, decide_eq_false_iff_not, List.mem_cons, not_or]
      constructor
      · rintro ⟨h1, h2⟩
        by_cases hir : i = r
        · exact Or.inr hir
        · exact Or.inl ⟨h1, hir, h2⟩
      · rintro (⟨h1, _, h2⟩ | rfl)
        · exact ⟨h1, h2⟩
        · exact ⟨hr, hn.1⟩
    · simp; omega

theorem remove_spec (s : IdStore) (id : Nat) (h : Ok s) (hlive : s.isLive id = true) :
    ∃ s', s.remove id = some s' ∧ (∀ i, s'.isLive i = (s.isLive i && i != id)) ∧ Ok s' ∧
      s'.upper + 1 + s.removed.length = s.upper + s'.removed.length := by
  obtain ⟨hn, hl⟩ := h
  have hl' := (isLive_iff s id).1 hlive
  unfold remove
  rw [hlive]
  by_cases hu : s.upper - id = 1
  · have hb : (s.upper - id == 1) = true := by simpa using hu
    simp only [Bool.not_true, Bool.false_eq_true, if_false, hb, if_true]
    refine ⟨_, rfl, ?_, ⟨hn, ?_⟩, ?_⟩
    · intro i; rw [Bool.eq_iff_iff]
      simp only [isLive, Bool.and_eq_true, decide_eq_true_eq, Bool.not_eq_true', bne_iff_ne, ne_eq,
        List.contains_eq_mem, decide_eq_false_iff_not]
      constructor
      · rintro ⟨h1, h2⟩; exact ⟨⟨by omega, h2⟩, by omega⟩
      · rintro ⟨⟨h1, h2⟩, h3⟩; exact ⟨by omega, h2⟩
    · intro r hr
      have h1 := hl r hr
      have : r ≠ id := fun e => hl'.2 (e ▸ hr)
      simp only; omega
    · simp only; omega
  · have hb : (s.upper - id == 1) = false := by simpa using hu
    simp only [Bool.not_true, Bool.false_eq_true, if_false, hb]
    refine ⟨_, rfl, ?_, ⟨?_, ?_⟩, ?_⟩
    · intro i; rw [Bool.eq_iff_iff]
      simp only [isLive, Bool.and_eq_true, decide_eq_true_eq, Bool.not_eq_true', bne_iff_ne, ne_eq,
        List.contains_eq_mem, decide_eq_false_iff_not, List.mem_cons, not_or]
      constructor
      · rintro ⟨h1, h2, h3⟩; exact ⟨⟨h1, h3⟩, h2⟩
      · rintro ⟨⟨h1, h2⟩, h3⟩; exact ⟨h1, h3, h2⟩
    · exact List.nodup_cons.2 ⟨hl'.2, hn⟩
    · intro r hr
      rcases List.mem_cons.1 hr with rfl | hr
      · exact hl'.1
      · exact hl r hr
    · simp only [List.length_cons]; omega

theorem mem_liveIds (s : IdStore) (i : Nat) : i ∈ s.liveIds ↔ s.isLive i = true := by
  simp [liveIds, isLive]

end IdStore

/-! ## the adjacency cells -/

/-- the (row, column) of a cell -/
def pr (e : Edge) : Nat × Nat := (e.1, e.2.1)

/-- no two cells at the same position, and the counter agrees -/
structure EdgesOk (g : UGraph) : Prop where
  nodup : (g.adj.map pr).Nodup
  nb : g.nbEdges = g.adj.length

theorem hasCell_iff (g : UGraph) (a b : Nat) : g.hasCell a b = true ↔ (a, b) ∈ g.adj.map pr := by
  simp only [hasCell, List.any_eq_true, List.mem_map, pr, Bool.and_eq_true, beq_iff_eq]
  constructor
  · rintro ⟨e, he, h1, h2⟩; exact ⟨e, he, by rw [h1, h2]⟩
  · rintro ⟨e, he, h⟩; injection h with h1 h2; exact ⟨e, he, h1, h2⟩

theorem cell_beq (e : Edge) (a b : Nat) : (e.1 == a && e.2.1 == b) = true ↔ pr e = (a, b) := by
  simp [pr]

theorem notCell_iff (e : Edge) (a b : Nat) : (!(e.1 == a && e.2.1 == b)) = true ↔ pr e ≠ (a, b) := by
  rw [Bool.not_eq_true', ← Bool.not_eq_true, cell_beq]

/-- removing the cell at one position removes exactly one cell -/
theorem length_filter_cell (adj : List Edge) (a b : Nat) (hn : (adj.map pr).Nodup) (h : (a, b) ∈ adj.map pr) :
    (adj.filter (fun e => !(e.1 == a && e.2.1 == b))).length + 1 = adj.length := by
  induction adj with
  | nil => simp at h
  | cons e adj ih =>
    simp only [List.map_cons, List.nodup_cons] at hn
    rw [List.map_cons, List.mem_cons] at h
    rw [List.filter_cons]
    by_cases he : pr e = (a, b)
    · have hnot : (a, b) ∉ adj.map pr := he ▸ hn.1
      have : adj.filter (fun e => !(e.1 == a && e.2.1 == b)) = adj := by
        rw [List.filter_eq_self]
        intro x hx
        exact (notCell_iff x a b).2 (fun e' => hnot (e' ▸ List.mem_map_of_mem hx))
      have hc : ¬ ((!(e.1 == a && e.2.1 == b)) = true) := by rw [notCell_iff]; exact fun h => h he
      rw [if_neg hc, this]; rfl
    · have h' : (a, b) ∈ adj.map pr := by
        rcases h with h | h
        · exact absurd h.symm he
        · exact h
      have := ih hn.2 h'
      rw [if_pos ((notCell_iff e a b).2 he)]; simp only [List.length_cons]; omega

theorem petRemoveEdge_spec (g : UGraph) (a b : Nat) (h : EdgesOk g) (hc : g.hasCell a b = true) :
    ∃ g', g.petRemoveEdge a b = some g' ∧ EdgesOk g' ∧
      g'.adj = g.adj.filter (fun e => !(e.1 == a && e.2.1 == b)) ∧
      g'.ids = g.ids ∧ g'.nodeMap = g.nodeMap ∧ g'.indexMap = g.indexMap ∧ g'.root = g.root := by
  have hmem := (hasCell_iff g a b).1 hc
  have hlen := length_filter_cell g.adj a b h.nodup hmem
  have hnb : (g.nbEdges == 0) = false := by have := h.nb; simp; omega
  refine ⟨{ g with adj := g.adj.filter (fun e => !(e.1 == a && e.2.1 == b)), nbEdges := g.nbEdges - 1 }, ?_,
    ⟨?_, ?_⟩, rfl, rfl, rfl, rfl, rfl⟩
  · unfold petRemoveEdge; rw [hc, hnb]; rfl
  · exact List.Nodup.sublist (List.Sublist.map _ List.filter_sublist) h.nodup
  · have := h.nb; simp only; omega

/-- the loop `for (a,b) in cells { graph.remove_edge(a,b) }` over distinct existing cells removes exactly them -/
theorem removeCells_spec (cs : List (Nat × Nat)) : ∀ (g : UGraph), EdgesOk g → cs.Nodup →
    (∀ c ∈ cs, g.hasCell c.1 c.2 = true) →
    ∃ g', g.removeCells cs = some g' ∧ EdgesOk g' ∧ g'.adj = g.adj.filter (fun e => !cs.contains (pr e)) ∧
      g'.ids = g.ids ∧ g'.nodeMap = g.nodeMap ∧ g'.indexMap = g.indexMap ∧ g'.root = g.root := by
  induction cs with
  | nil =>
    intro g h _ _
    exact ⟨g, rfl, h, (List.filter_eq_self.2 (by intro e _; simp)).symm, rfl, rfl, rfl, rfl⟩
  | cons c cs ih =>
    intro g h hn hc
    obtain ⟨a, b⟩ := c
    rw [List.nodup_cons] at hn
    obtain ⟨g1, h1, hok1, hadj1, hids1, hnm1, him1, hroot1⟩ :=
      petRemoveEdge_spec g a b h (hc (a, b) List.mem_cons_self)
    have hc1 : ∀ c ∈ cs, g1.hasCell c.1 c.2 = true := by
      intro c hcm
      have hne : c ≠ (a, b) := fun e => hn.1 (e ▸ hcm)
      have := (hasCell_iff g c.1 c.2).1 (hc c (List.mem_cons_of_mem _ hcm))
      rw [hasCell_iff, hadj1]
      obtain ⟨e, he, hp⟩ := List.mem_map.1 this
      refine List.mem_map.2 ⟨e, List.mem_filter.2 ⟨he, ?_⟩, hp⟩
      rw [notCell_iff, hp]; exact hne
    obtain ⟨g2, h2, hok2, hadj, hids, hnm, him, hroot⟩ := ih g1 hok1 hn.2 hc1
    refine ⟨g2, by simp only [removeCells, h1, h2], hok2, ?_, ?_, ?_, ?_, ?_⟩
    · rw [hadj, hadj1]; simp only [List.filter_filter]
      apply List.filter_congr
      intro e _
      rw [List.contains_cons, Bool.not_or]
      by_cases he : pr e = (a, b)
      · have h1 : (e.1 == a && e.2.1 == b) = true := (cell_beq e a b).2 he
        have h2 : (pr e == (a, b)) = true := by simpa using he
        simp [h1, h2]
      · have h1 : (e.1 == a && e.2.1 == b) = false := by
          rw [← Bool.not_eq_true, cell_beq]; exact he
        have h2 : (pr e == (a, b)) = false := by simpa using he
        simp [h1, h2]
    · rw [hids, hids1]
    · rw [hnm, hnm1]
    · rw [him, him1]
    · rw [hroot, hroot1]

/-- cells of row `k`, as positions -/
theorem row_cells (g : UGraph) (h : EdgesOk g) (k : Nat) :
    ((g.rowOf k).map (fun b => (k, b))).Nodup ∧ (∀ c ∈ (g.rowOf k).map (fun b => (k, b)), g.hasCell c.1 c.2 = true) ∧
    g.adj.filter (fun e => !((g.rowOf k).map (fun b => (k, b))).contains (pr e)) = g.adj.filter (fun e => e.1 != k) := by
  have hmemrow : ∀ b, b ∈ g.rowOf k ↔ (k, b) ∈ g.adj.map pr := by
    intro b
    simp only [rowOf, mem_sortNat, List.mem_map, List.mem_filter, beq_iff_eq, pr]
    constructor
    · rintro ⟨e, ⟨he, hk⟩, rfl⟩; exact ⟨e, he, by rw [hk]⟩
    · rintro ⟨e, he, h⟩; injection h with h1 h2; exact ⟨e, ⟨he, h1⟩, h2⟩
  refine ⟨?_, ?_, ?_⟩
  · -- distinct targets: the positions of row k are distinct
    have : ((g.adj.filter (fun e => e.1 == k)).map (·.2.1)).Nodup := by
      have hsub : ((g.adj.filter (fun e => e.1 == k)).map pr).Nodup :=
        List.Nodup.sublist (List.Sublist.map _ List.filter_sublist) h.nodup
      have hall : ∀ e ∈ g.adj.filter (fun e => e.1 == k), e.1 = k := by
        intro e he; simpa using (List.mem_filter.1 he).2
      generalize g.adj.filter (fun e => e.1 == k) = l at hsub hall
      induction l with
      | nil => simp
      | cons e l ih =>
        simp only [List.map_cons, List.nodup_cons] at hsub ⊢
        refine ⟨?_, ih hsub.2 (fun x hx => hall x (List.mem_cons_of_mem _ hx))⟩
        intro hm
        obtain ⟨x, hx, hxe⟩ := List.mem_map.1 hm
        apply hsub.1
        refine List.mem_map.2 ⟨x, hx, ?_⟩
        simp only [pr, Prod.mk.injEq]
        exact ⟨by rw [hall x (List.mem_cons_of_mem _ hx), hall e List.mem_cons_self], hxe⟩
    have h2 := nodup_sortNat _ this
    have : (g.rowOf k) = sortNat ((g.adj.filter (fun e => e.1 == k)).map (·.2.1)) := rfl
    rw [this]
    generalize sortNat ((g.adj.filter (fun e => e.1 == k)).map (·.2.1)) = l at h2
    induction l with
    | nil => simp
    | cons x l ih =>
      simp only [List.map_cons, List.nodup_cons] at h2 ⊢
      refine ⟨?_, ih h2.2⟩
      intro hm
      obtain ⟨y, hy, hye⟩ := List.mem_map.1 hm
      injection hye with _ h3
      exact h2.1 (h3 ▸ hy)
  · intro c hc
    obtain ⟨b, hb, rfl⟩ := List.mem_map.1 hc
    exact (hasCell_iff g k b).2 ((hmemrow b).1 hb)
  · apply List.filter_congr
    intro e he
    by_cases hk : e.1 = k
    · have : pr e ∈ (g.rowOf k).map (fun b => (k, b)) :=
        List.mem_map.2 ⟨e.2.1, (hmemrow _).2 (List.mem_map.2 ⟨e, he, by simp [pr, hk]⟩), by simp [pr, hk]⟩
      have hc : ((g.rowOf k).map (fun b => (k, b))).contains (pr e) = true := by
        rw [List.contains_iff_mem]; exact this
      rw [hc]; simp [hk]
    · have : pr e ∉ (g.rowOf k).map (fun b => (k, b)) := by
        intro hm
        obtain ⟨b, _, hb⟩ := List.mem_map.1 hm
        simp only [pr, Prod.mk.injEq] at hb
        exact hk hb.1.symm
      have hc : ((g.rowOf k).map (fun b => (k, b))).contains (pr e) = false := by
        rw [← Bool.not_eq_true, List.contains_iff_mem]; exact this
      have hb : (e.1 != k) = true := by simpa using hk
      rw [hc, hb]; rfl

/-- cells of column `k`, as positions -/
theorem col_cells (g : UGraph) (h : EdgesOk g) (k : Nat) :
    ((g.colOf k).map (fun a => (a, k))).Nodup ∧ (∀ c ∈ (g.colOf k).map (fun a => (a, k)), g.hasCell c.1 c.2 = true) ∧
    g.adj.filter (fun e => !((g.colOf k).map (fun a => (a, k))).contains (pr e)) = g.adj.filter (fun e => e.2.1 != k) := by
  have hmemcol : ∀ a, a ∈ g.colOf k ↔ (a, k) ∈ g.adj.map pr := by
    intro a
    simp only [colOf, mem_sortNat, List.mem_map, List.mem_filter, beq_iff_eq, pr]
    constructor
    · rintro ⟨e, ⟨he, hk⟩, rfl⟩; exact ⟨e, he, by rw [hk]⟩
    · rintro ⟨e, he, h⟩; injection h with h1 h2; exact ⟨e, ⟨he, h2⟩, h1⟩
  refine ⟨?_, ?_, ?_⟩
  · have : ((g.adj.filter (fun e => e.2.1 == k)).map (·.1)).Nodup := by
      have hsub : ((g.adj.filter (fun e => e.2.1 == k)).map pr).Nodup :=
        List.Nodup.sublist (List.Sublist.map _ List.filter_sublist) h.nodup
      have hall : ∀ e ∈ g.adj.filter (fun e => e.2.1 == k), e.2.1 = k := by
        intro e he; simpa using (List.mem_filter.1 he).2
      generalize g.adj.filter (fun e => e.2.1 == k) = l at hsub hall
      induction l with
      | nil => simp
      | cons e l ih =>
        simp only [List.map_cons, List.nodup_cons] at hsub ⊢
        refine ⟨?_, ih hsub.2 (fun x hx => hall x (List.mem_cons_of_mem _ hx))⟩
        intro hm
        obtain ⟨x, hx, hxe⟩ := List.mem_map.1 hm
        apply hsub.1
        refine List.mem_map.2 ⟨x, hx, ?_⟩
        simp only [pr, Prod.mk.injEq]
        exact ⟨hxe, by rw [hall x (List.mem_cons_of_mem _ hx), hall e List.mem_cons_self]⟩
    have h2 := nodup_sortNat _ this
    have : (g.colOf k) = sortNat ((g.adj.filter (fun e => e.2.1 == k)).map (·.1)) := rfl
    rw [this]
    generalize sortNat ((g.adj.filter (fun e => e.2.1 == k)).map (·.1)) = l at h2
    induction l with
    | nil => simp
    | cons x l ih =>
      simp only [List.map_cons, List.nodup_cons] at h2 ⊢
      refine ⟨?_, ih h2.2⟩
      intro hm
      obtain ⟨y, hy, hye⟩ := List.mem_map.1 hm
      injection hye with h3 _
      exact h2.1 (h3 ▸ hy)
  · intro c hc
    obtain ⟨a, ha, rfl⟩ := List.mem_map.1 hc
    exact (hasCell_iff g a k).2 ((hmemcol a).1 ha)
  · apply List.filter_congr
    intro e he
    by_cases hk : e.2.1 = k
    · have : pr e ∈ (g.colOf k).map (fun a => (a, k)) :=
        List.mem_map.2 ⟨e.1, (hmemcol _).2 (List.mem_map.2 ⟨e, he, by simp [pr, hk]⟩), by simp [pr, hk]⟩
      have hc : ((g.colOf k).map (fun a => (a, k))).contains (pr e) = true := by
        rw [List.contains_iff_mem]; exact this
      rw [hc]; simp [hk]
    · have : pr e ∉ (g.colOf k).map (fun a => (a, k)) := by
        intro hm
        obtain ⟨a, _, ha⟩ := List.mem_map.1 hm
        simp only [pr, Prod.mk.injEq] at ha
        exact hk ha.2.symm
      have hc : ((g.colOf k).map (fun a => (a, k))).contains (pr e) = false := by
        rw [← Bool.not_eq_true, List.contains_iff_mem]; exact this
      have hb : (e.2.1 != k) = true := by simpa using hk
      rw [hc, hb]; rfl

/-- `get_all_edges` lists every cell once (in some order) when every row index is a key of `node_map` -/
theorem allEdges_perm (g : UGraph) (hk : (g.nodeMap.map (·.1)).Nodup)
    (hl : ∀ e ∈ g.adj, has g.nodeMap e.1 = true) : g.allEdges.Perm (g.adj.map pr) := by
  have key : ∀ ks : List Nat, ks.Nodup →
      (ks.flatMap (fun k => (g.rowOf k).map (fun b => (k, b)))).Perm ((g.adj.filter (fun e => ks.contains e.1)).map pr) := by
    intro ks
    induction ks with
    | nil => intro _; simp
    | cons k ks ih =>
      intro hn
      rw [List.nodup_cons] at hn
      rw [List.flatMap_cons]
      have h1 : ((g.rowOf k).map (fun b => (k, b))).Perm ((g.adj.filter (fun e => e.1 == k)).map pr) := by
        have : (g.rowOf k).Perm ((g.adj.filter (fun e => e.1 == k)).map (·.2.1)) := sortNat_perm _
        refine (this.map _).trans ?_
        rw [List.map_map]
        apply List.Perm.of_eq
        apply List.map_congr_left
        intro e he
        have : e.1 = k := by simpa using (List.mem_filter.1 he).2
        simp [pr, this]
      have h2 : (g.adj.filter (fun e => (k :: ks).contains e.1)).Perm
          (g.adj.filter (fun e => e.1 == k) ++ g.adj.filter (fun e => ks.contains e.1)) := by
        have : (fun e : Edge => (k :: ks).contains e.1) = (fun e => e.1 == k || ks.contains e.1) := by
          funext e; rw [List.contains_cons]
        rw [this]
        apply filter_or_perm
        intro e _ ⟨h1, h2⟩
        rw [beq_iff_eq] at h1
        rw [List.contains_iff_mem] at h2
        exact hn.1 (h1 ▸ h2)
      refine (h1.append (ih hn.2)).trans ?_
      rw [← List.map_append]
      exact (h2.map pr).symm
  have := key (g.nodeMap.map (·.1)) hk
  have hall : g.adj.filter (fun e => (g.nodeMap.map (·.1)).contains e.1) = g.adj := by
    rw [List.filter_eq_self]
    intro e he
    rw [List.contains_iff_mem]
    exact (has_iff_mem _ _).1 (hl e he)
  rw [hall] at this
  have e : g.allEdges = (g.nodeMap.map (·.1)).flatMap (fun k => (g.rowOf k).map (fun b => (k, b))) := by
    simp [allEdges, List.flatMap_map]
  rw [e]; exact this

/-! ## the invariant -/

/-- well-formedness of the implementation state: what keeps petgraph's allocator, the matrix, its counter and
the two maps of `UltraMatrixGraph` in step -/
structure WF (g : UGraph) : Prop where
  keysNodup : (g.nodeMap.map (·.1)).Nodup
  indexSync : g.indexMap = sync g.nodeMap
  liveIff : ∀ i, g.ids.isLive i = has g.nodeMap i
  idsOk : g.ids.Ok
  count : g.ids.upper = g.nodeMap.length + g.ids.removed.length
  edgesLive : ∀ e ∈ g.adj, has g.nodeMap e.1 = true ∧ has g.nodeMap e.2.1 = true
  edgesOk : EdgesOk g

theorem wf_init : WF init :=
  ⟨List.nodup_nil, rfl, fun i => by simp [init, IdStore.isLive, has], ⟨List.nodup_nil, fun _ h => by simp [init] at h⟩, rfl,
    fun _ h => by simp [init] at h, ⟨List.nodup_nil, rfl⟩⟩

namespace WF
variable {g : UGraph}

theorem containsNode (h : WF g) (i : Nat) : g.containsNode i = has g.nodeMap i := by
  unfold UGraph.containsNode; rw [mGet_isSome, h.indexSync, has_sync]

theorem mGet_index (h : WF g) (i : Nat) : mGet g.indexMap i = if has g.nodeMap i then some i else none := by
  rw [h.indexSync, mGet_sync]

theorem getNode (h : WF g) (i : Nat) : g.getNode i = mGet g.nodeMap i := by
  unfold UGraph.getNode
  rw [h.containsNode, h.mGet_index]
  cases hi : has g.nodeMap i
  · simp [mGet_eq_none_of_not_has _ _ hi]
  · simp

theorem hasCell_live (h : WF g) {a b : Nat} (hc : g.hasCell a b = true) :
    has g.nodeMap a = true ∧ has g.nodeMap b = true := by
  rw [hasCell, List.any_eq_true] at hc
  obtain ⟨e, he, hp⟩ := hc
  simp only [Bool.and_eq_true, beq_iff_eq] at hp
  have := h.edgesLive e he
  rw [hp.1, hp.2] at this; exact this

theorem containsEdge (h : WF g) (a b : Nat) : g.containsEdge a b = g.hasCell a b := by
  unfold UGraph.containsEdge
  rw [h.containsNode, h.containsNode, h.mGet_index, h.mGet_index]
  cases ha : has g.nodeMap a <;> cases hb : has g.nodeMap b <;> simp
  all_goals
    cases hc : g.hasCell a b
    · rfl
    · have := h.hasCell_live hc; simp_all

theorem len (h : WF g) : g.ids.len = some g.nodeMap.length := by
  unfold IdStore.len
  have := h.count
  rw [if_pos (by omega)]; congr 1; omega

end WF

theorem addNode_eq (g : UGraph) (v : Nat) :
    g.addNode v = ({ g with ids := g.ids.add.1, nodeMap := mInsert g.nodeMap g.ids.add.2 v,
                            indexMap := mInsert g.indexMap g.ids.add.2 g.ids.add.2 }, g.ids.add.2) := rfl

theorem addNode_ok {g : UGraph} (h : WF g) (v : Nat) :
    WF (g.addNode v).1 ∧ has g.nodeMap (g.addNode v).2 = false ∧
    (g.addNode v).1.nodeMap = ((g.addNode v).2, v) :: g.nodeMap ∧
    (g.addNode v).1.indexMap = ((g.addNode v).2, (g.addNode v).2) :: g.indexMap ∧
    (g.addNode v).1.adj = g.adj ∧ (g.addNode v).1.root = g.root := by
  obtain ⟨hfresh, hlive, hok, hcnt⟩ := IdStore.add_spec g.ids h.idsOk
  rw [addNode_eq]
  generalize g.ids.add = r at *
  obtain ⟨ids', id⟩ := r
  dsimp only at hfresh hlive hok hcnt ⊢
  have hf : has g.nodeMap id = false := by rw [← h.liveIff]; exact hfresh
  have hf2 : has g.indexMap id = false := by rw [h.indexSync, has_sync]; exact hf
  have e1 : mInsert g.nodeMap id v = (id, v) :: g.nodeMap := by
    unfold mInsert; rw [← mRemove, filter_ne_of_not_has _ _ hf]
  have e2 : mInsert g.indexMap id id = (id, id) :: g.indexMap := by
    unfold mInsert; rw [← mRemove, filter_ne_of_not_has _ _ hf2]
  rw [e1, e2]
  refine ⟨⟨?_, ?_, ?_, hok, ?_, ?_, ⟨h.edgesOk.nodup, h.edgesOk.nb⟩⟩, hf, rfl, rfl, rfl, rfl⟩
  · simp only [List.map_cons, List.nodup_cons]
    exact ⟨(has_false_iff _ _).1 hf, h.keysNodup⟩
  · simp only [h.indexSync, sync_cons]
  · intro i; simp only [hlive, h.liveIff, has_cons]
    rw [Bool.or_comm]; congr 1
    exact BEq.comm
  · have := h.count; simp only [List.length_cons]; omega
  · intro e he
    have := h.edgesLive e he
    simp only [has_cons, this.1, this.2, Bool.or_true, and_self]

theorem addRoot_ok {g : UGraph} (h : WF g) (v : Nat) :
    WF (g.addRoot v).1 ∧ has g.nodeMap (g.addRoot v).2 = false ∧
    (g.addRoot v).1.nodeMap = ((g.addRoot v).2, v) :: g.nodeMap ∧
    (g.addRoot v).1.adj = g.adj ∧ (g.addRoot v).1.root = some (g.addRoot v).2 := by
  obtain ⟨hwf, hf, hnm, him, hadj, _⟩ := addNode_ok h v
  have e : g.addRoot v =
      ({ (g.addNode v).1 with
          root := some (g.addNode v).2
          indexMap := mInsert (g.addNode v).1.indexMap (g.addNode v).2 (g.addNode v).2 }, (g.addNode v).2) := rfl
  rw [e]
  generalize g.addNode v = r at *
  obtain ⟨g1, idx⟩ := r
  dsimp only at hwf hf hnm him hadj ⊢
  have hf2 : has g.indexMap idx = false := by rw [h.indexSync, has_sync]; exact hf
  have e2 : mInsert g1.indexMap idx idx = g1.indexMap := by
    unfold mInsert
    rw [← mRemove, him, mRemove_cons, if_pos rfl, filter_ne_of_not_has _ _ hf2]
  rw [e2]
  exact ⟨⟨hwf.keysNodup, hwf.indexSync, hwf.liveIff, hwf.idsOk, hwf.count, hwf.edgesLive,
    ⟨hwf.edgesOk.nodup, hwf.edgesOk.nb⟩⟩, hf, hnm, hadj, rfl⟩

theorem petRemoveNode_spec (g : UGraph) (k : Nat) (hok : g.ids.Ok) (hlive : g.ids.isLive k = true)
    (hno : ∀ e ∈ g.adj, e.1 ≠ k ∧ e.2.1 ≠ k) :
    ∃ s', g.petRemoveNode k = some { g with ids := s' } ∧ (∀ i, s'.isLive i = (g.ids.isLive i && i != k)) ∧ s'.Ok ∧
      s'.upper + 1 + g.ids.removed.length = g.ids.upper + s'.removed.length := by
  obtain ⟨s', hs, h1, h2, h3⟩ := IdStore.remove_spec g.ids k hok hlive
  refine ⟨s', ?_, h1, h2, h3⟩
  unfold petRemoveNode
  simp only [hs]
  have : g.adj.filter (fun e => !((e.1 == k && g.ids.liveIds.contains e.2.1) || (e.2.1 == k && g.ids.liveIds.contains e.1)))
      = g.adj := by
    rw [List.filter_eq_self]
    intro e he
    have := hno e he
    have h1 : (e.1 == k) = false := beq_false_of_ne this.1
    have h2 : (e.2.1 == k) = false := beq_false_of_ne this.2
    rw [h1, h2]; rfl
  rw [this]

theorem removeNode_err (ver : Version) {g : UGraph} (h : WF g) (i : Nat) (hi : has g.nodeMap i = false) :
    g.removeNode ver i = (g, .err) := by
  unfold removeNode; rw [h.containsNode, hi]; rfl

theorem removeNode_ok {g : UGraph} (h : WF g) (i : Nat) (hi : has g.nodeMap i = true) :
    ∃ g', g.removeNode .repaired i = (g', .ok) ∧ WF g' ∧ g'.nodeMap = mRemove g.nodeMap i ∧
      g'.adj = g.adj.filter (fun e => e.1 != i && e.2.1 != i) ∧ g'.root = g.root := by
  obtain ⟨hn, hc, hf⟩ := row_cells g h.edgesOk i
  obtain ⟨g1, h1, hok1, hadj1, hids1, hnm1, him1, hroot1⟩ := removeCells_spec _ g h.edgesOk hn hc
  obtain ⟨hn', hc', hf'⟩ := col_cells g1 hok1 i
  obtain ⟨g2, h2, hok2, hadj2, hids2, hnm2, him2, hroot2⟩ := removeCells_spec _ g1 hok1 hn' hc'
  have hadj : g2.adj = g.adj.filter (fun e => e.1 != i && e.2.1 != i) := by
    rw [hadj2, hf', hadj1, hf, List.filter_filter]
    apply List.filter_congr; intro e _; rw [Bool.and_comm]
  have hno : ∀ e ∈ g2.adj, e.1 ≠ i ∧ e.2.1 ≠ i := by
    intro e he
    rw [hadj] at he
    simpa using (List.mem_filter.1 he).2
  have hlive : g2.ids.isLive i = true := by rw [hids2, hids1, h.liveIff, hi]
  have hidsok : g2.ids.Ok := by rw [hids2, hids1]; exact h.idsOk
  obtain ⟨s', h3, hl3, hok3, hcnt3⟩ := petRemoveNode_spec g2 i hidsok hlive hno
  refine ⟨{ g2 with ids := s', nodeMap := mRemove g2.nodeMap i, indexMap := mRemove g2.indexMap i }, ?_, ?_, ?_, hadj, ?_⟩
  · unfold removeNode
    rw [h.containsNode, hi, h.mGet_index, hi]
    simp only [Bool.not_true, Bool.false_eq_true, if_false, if_true, h1, h2, h3]
  · rw [hids2, hids1] at hl3 hcnt3
    have hlen := length_mRemove g.nodeMap i h.keysNodup hi
    refine ⟨?_, ?_, ?_, hok3, ?_, ?_, ⟨hok2.nodup, hok2.nb⟩⟩
    · simp only [hnm2, hnm1]; exact keys_nodup_filter _ _ h.keysNodup
    · simp only [hnm2, hnm1, him2, him1, h.indexSync, sync_mRemove]
    · intro j; simp only [hnm2, hnm1, hl3, h.liveIff, has_mRemove]
    · have := h.count; simp only [hnm2, hnm1]; omega
    · intro e he
      simp only [hnm2, hnm1, has_mRemove]
      have hne := hno e he
      have hm : e ∈ g.adj := by rw [hadj] at he; exact (List.mem_filter.1 he).1
      have := h.edgesLive e hm
      simp [this.1, this.2, hne.1, hne.2]
  · simp only [hnm2, hnm1]
  · simp only [hroot2, hroot1]

/-- the guard of `add_edge(_with_weight)` as one boolean -/
theorem addEdgeW_spec {g : UGraph} (h : WF g) (a b w : Nat) :
    (has g.nodeMap a && has g.nodeMap b && !g.hasCell a b) = true →
      ∃ g', g.addEdgeW a b w = (g', .ok) ∧ WF g' ∧ g'.nodeMap = g.nodeMap ∧ g'.adj = g.adj ++ [(a, b, w)] ∧
        g'.root = g.root := by
  intro hg
  simp only [Bool.and_eq_true, Bool.not_eq_true'] at hg
  obtain ⟨⟨ha, hb⟩, hc⟩ := hg
  refine ⟨{ g with adj := g.adj ++ [(a, b, w)], nbEdges := g.nbEdges + 1 }, ?_, ?_, rfl, rfl, rfl⟩
  · unfold addEdgeW petAddEdge
    rw [h.containsNode, h.containsNode, h.containsEdge, h.mGet_index, h.mGet_index, ha, hb, hc]
    simp only [Bool.not_true, Bool.false_eq_true, if_false, if_true, hc]
  · refine ⟨h.keysNodup, h.indexSync, h.liveIff, h.idsOk, h.count, ?_, ⟨?_, ?_⟩⟩
    · intro e he
      rcases List.mem_append.1 he with he | he
      · exact h.edgesLive e he
      · have : e = (a, b, w) := by simpa using he
        subst this; exact ⟨ha, hb⟩
    · have hnot : (a, b) ∉ g.adj.map pr := by
        rw [← hasCell_iff, hc]; simp
      simp only [List.map_append, List.map_cons, List.map_nil]
      rw [List.nodup_append]
      refine ⟨h.edgesOk.nodup, by simp, ?_⟩
      intro x hx y hy
      have : y = (a, b) := by simpa [pr] using hy
      subst this
      exact fun e => hnot (e ▸ hx)
    · have := h.edgesOk.nb; simp only [List.length_append, List.length_cons, List.length_nil]; omega

theorem addEdgeW_err {g : UGraph} (h : WF g) (a b w : Nat)
    (hg : (has g.nodeMap a && has g.nodeMap b && !g.hasCell a b) = false) : g.addEdgeW a b w = (g, .err) := by
  unfold addEdgeW
  rw [h.containsNode, h.containsNode, h.containsEdge]
  cases ha : has g.nodeMap a <;> cases hb : has g.nodeMap b <;> cases hc : g.hasCell a b <;> simp_all

theorem removeEdge_ok {g : UGraph} (h : WF g) (a b : Nat) (hc : g.hasCell a b = true) :
    ∃ g', g.removeEdge .repaired a b = (g', .ok) ∧ WF g' ∧ g'.nodeMap = g.nodeMap ∧
      g'.adj = g.adj.filter (fun e => !(e.1 == a && e.2.1 == b)) ∧ g'.root = g.root := by
  obtain ⟨ha, hb⟩ := h.hasCell_live hc
  obtain ⟨g1, h1, hok1, hadj1, hids1, hnm1, him1, hroot1⟩ := petRemoveEdge_spec g a b h.edgesOk hc
  refine ⟨g1, ?_, ?_, hnm1, hadj1, hroot1⟩
  · unfold removeEdge
    rw [h.containsNode, h.containsNode, h.containsEdge, h.mGet_index, h.mGet_index, ha, hb, hc]
    simp only [Bool.not_true, Bool.false_eq_true, if_false, if_true, h1]
  · refine ⟨by rw [hnm1]; exact h.keysNodup, by rw [him1, hnm1]; exact h.indexSync,
      by rw [hids1, hnm1]; exact h.liveIff, by rw [hids1]; exact h.idsOk, by rw [hids1, hnm1]; exact h.count, ?_, hok1⟩
    intro e he
    rw [hadj1] at he
    rw [hnm1]
    exact h.edgesLive e (List.mem_filter.1 he).1

theorem removeEdge_err (ver : Version) {g : UGraph} (h : WF g) (a b : Nat) (hc : g.hasCell a b = false) :
    g.removeEdge ver a b = (g, .err) := by
  unfold removeEdge
  rw [h.containsNode, h.containsNode, h.containsEdge, hc]
  cases has g.nodeMap a <;> cases has g.nodeMap b <;> rfl

theorem clear_ok (g : UGraph) : g.clear = init := rfl

end Model.UGraph
