import DcVerif.Model.GraphDfs
/-! Lemmas about the DFS stack machine: partial correctness for every fuel, termination on acyclic graphs. -/
namespace Dfs

/-- nodes a stack will (potentially) visit: everything reachable from any node on the stack -/
def OnStack (g : G) (st : List (List Nat)) (v : Nat) : Prop := ∃ fr ∈ st, ∃ c ∈ fr, Reach g c v

theorem onStack_nil (g : G) (v : Nat) : ¬ OnStack g [] v := by
  intro ⟨fr, h, _⟩; simp at h

theorem onStack_drop_empty (g : G) (rest : List (List Nat)) (v : Nat) :
    OnStack g ([] :: rest) v ↔ OnStack g rest v := by
  constructor
  · rintro ⟨fr, hfr, c, hc, hr⟩
    simp at hfr
    rcases hfr with rfl | hfr
    · simp at hc
    · exact ⟨fr, hfr, c, hc, hr⟩
  · rintro ⟨fr, hfr, c, hc, hr⟩
    exact ⟨fr, by simp [hfr], c, hc, hr⟩

theorem onStack_expand (g : G) (c : Nat) (cs : List Nat) (rest : List (List Nat)) (v : Nat) :
    OnStack g ((c :: cs) :: rest) v ↔ v = c ∨ OnStack g (g.out c :: cs :: rest) v := by
  constructor
  · rintro ⟨fr, hfr, x, hx, hr⟩
    simp at hfr
    rcases hfr with rfl | hfr
    · simp at hx
      rcases hx with rfl | hx
      · cases hr with
        | refl => left; rfl
        | step hb hbc => right; exact ⟨g.out x, by simp, _, hb, hbc⟩
      · right; exact ⟨cs, by simp, x, hx, hr⟩
    · right; exact ⟨fr, by simp [hfr], x, hx, hr⟩
  · rintro (rfl | ⟨fr, hfr, x, hx, hr⟩)
    · exact ⟨v :: cs, by simp, v, by simp, Reach.refl v⟩
    · simp at hfr
      rcases hfr with rfl | rfl | hfr
      · exact ⟨c :: cs, by simp, c, by simp, Reach.step hx hr⟩
      · exact ⟨c :: fr, by simp, x, by simp [hx], hr⟩
      · exact ⟨fr, by simp [hfr], x, hx, hr⟩

/-- partial correctness, for every fuel: if the loop answers, the answer is `t` exactly when
    everything reachable from the stack evaluates to `t`; `stop` never being on the stack. -/
theorem loop_true_iff (g : G) (stop : Nat) :
    ∀ fuel st r, (∀ v, OnStack g st v → v ≠ stop) → loop g stop fuel st = some r →
      (r = .t ↔ ∀ v, OnStack g st v → g.eval v = .t) := by
  intro fuel
  induction fuel with
  | zero => intro st r _ h; simp [loop] at h
  | succ fuel ih =>
    intro st r hs h
    match st with
    | [] =>
      simp [loop] at h; subst h
      simp; intro v hv; exact absurd hv (onStack_nil g v)
    | [] :: rest =>
      simp only [loop] at h
      have := ih rest r (fun v hv => hs v ((onStack_drop_empty g rest v).2 hv)) h
      rw [this]
      constructor
      · intro hh v hv; exact hh v ((onStack_drop_empty g rest v).1 hv)
      · intro hh v hv; exact hh v ((onStack_drop_empty g rest v).2 hv)
    | (c :: cs) :: rest =>
      simp only [loop] at h
      have hc : OnStack g ((c :: cs) :: rest) c := (onStack_expand g c cs rest c).2 (Or.inl rfl)
      cases hev : g.eval c with
      | e =>
        simp [hev] at h; subst h
        constructor
        · intro hh; cases hh
        · intro hh; have := hh c hc; rw [hev] at this; cases this
      | f =>
        simp [hev] at h; subst h
        constructor
        · intro hh; cases hh
        · intro hh; have := hh c hc; rw [hev] at this; cases this
      | t =>
        have hne : c ≠ stop := hs c hc
        simp [hev, hne] at h
        have := ih _ r (fun v hv => hs v ((onStack_expand g c cs rest v).2 (Or.inr hv))) h
        rw [this]
        constructor
        · intro hh v hv
          rcases (onStack_expand g c cs rest v).1 hv with rfl | hv'
          · exact hev
          · exact hh v hv'
        · intro hh v hv; exact hh v ((onStack_expand g c cs rest v).2 (Or.inr hv))

/-- no error + some false reachable ⇒ the answer is `f` -/
theorem loop_false (g : G) (stop : Nat) :
    ∀ fuel st r, (∀ v, OnStack g st v → v ≠ stop) → loop g stop fuel st = some r →
      (∀ v, OnStack g st v → g.eval v ≠ .e) → (∃ v, OnStack g st v ∧ g.eval v = .f) → r = .f := by
  intro fuel
  induction fuel with
  | zero => intro st r _ h; simp [loop] at h
  | succ fuel ih =>
    intro st r hs h hne hex
    match st with
    | [] => obtain ⟨v, hv, _⟩ := hex; exact absurd hv (onStack_nil g v)
    | [] :: rest =>
      simp only [loop] at h
      exact ih rest r (fun v hv => hs v ((onStack_drop_empty g rest v).2 hv)) h
        (fun v hv => hne v ((onStack_drop_empty g rest v).2 hv))
        (by obtain ⟨v, hv, hf⟩ := hex; exact ⟨v, (onStack_drop_empty g rest v).1 hv, hf⟩)
    | (c :: cs) :: rest =>
      simp only [loop] at h
      have hc : OnStack g ((c :: cs) :: rest) c := (onStack_expand g c cs rest c).2 (Or.inl rfl)
      cases hev : g.eval c with
      | e => exact absurd hev (hne c hc)
      | f => simp [hev] at h; exact h.symm
      | t =>
        have hcs : c ≠ stop := hs c hc
        simp [hev, hcs] at h
        apply ih _ r (fun v hv => hs v ((onStack_expand g c cs rest v).2 (Or.inr hv))) h
          (fun v hv => hne v ((onStack_expand g c cs rest v).2 (Or.inr hv)))
        obtain ⟨v, hv, hf⟩ := hex
        rcases (onStack_expand g c cs rest v).1 hv with rfl | hv'
        · rw [hev] at hf; cases hf
        · exact ⟨v, hv', hf⟩

/-! ### termination on acyclic graphs (no visited set, so the traversal may be exponential,
    but it is finite): `rank` strictly decreases along every edge. -/

def Term (g : G) (stop : Nat) (st : List (List Nat)) : Prop := ∃ fuel r, loop g stop fuel st = some r

theorem term_nil (g : G) (stop : Nat) : Term g stop [] := ⟨1, .t, rfl⟩

theorem term_pop (g : G) (stop : Nat) (rest : List (List Nat)) (h : Term g stop rest) :
    Term g stop ([] :: rest) := by
  obtain ⟨fuel, r, hr⟩ := h
  exact ⟨fuel + 1, r, by simpa [loop] using hr⟩

theorem term_node (g : G) (stop : Nat) (rank : Nat → Nat)
    (hacyc : ∀ a b, b ∈ g.out a → rank b < rank a) :
    ∀ (n c : Nat), rank c ≤ n → ∀ cs rest, Term g stop (cs :: rest) → Term g stop ((c :: cs) :: rest) := by
  intro n
  induction n with
  | zero =>
    intro c hc cs rest hT
    -- rank 0: no children
    have hout : g.out c = [] := by
      cases h : g.out c with
      | nil => rfl
      | cons d ds => have := hacyc c d (by simp [h]); omega
    cases hev : g.eval c with
    | e => exact ⟨1, .e, by simp [loop, hev]⟩
    | f => exact ⟨1, .f, by simp [loop, hev]⟩
    | t =>
      by_cases hs : c = stop
      · subst hs; exact ⟨1, .t, by simp [loop, hev]⟩
      · obtain ⟨fuel, r, hr⟩ := term_pop g stop (cs :: rest) hT
        exact ⟨fuel + 1, r, by simp [loop, hev, hs, hout]; exact hr⟩
  | succ n ih =>
    intro c hc cs rest hT
    cases hev : g.eval c with
    | e => exact ⟨1, .e, by simp [loop, hev]⟩
    | f => exact ⟨1, .f, by simp [loop, hev]⟩
    | t =>
      by_cases hs : c = stop
      · subst hs; exact ⟨1, .t, by simp [loop, hev]⟩
      · -- children first
        have hchildren : ∀ ds, (∀ d, d ∈ ds → d ∈ g.out c) → Term g stop (ds :: cs :: rest) := by
          intro ds
          induction ds with
          | nil => intro _; exact term_pop g stop (cs :: rest) hT
          | cons d ds ihd =>
            intro hsub
            have hd := hacyc c d (hsub d (by simp))
            exact ih d (by omega) ds (cs :: rest) (ihd (fun x hx => hsub x (by simp [hx])))
        obtain ⟨fuel, r, hr⟩ := hchildren (g.out c) (fun _ h => h)
        exact ⟨fuel + 1, r, by simp [loop, hev, hs]; exact hr⟩

/-- every stack terminates on an acyclic graph -/
theorem loop_terminates (g : G) (stop : Nat) (rank : Nat → Nat)
    (hacyc : ∀ a b, b ∈ g.out a → rank b < rank a) (st : List (List Nat)) : Term g stop st := by
  induction st with
  | nil => exact term_nil g stop
  | cons fr rest ih =>
    induction fr with
    | nil => exact term_pop g stop rest ih
    | cons c cs ihc => exact term_node g stop rank hacyc (rank c) c (Nat.le_refl _) cs rest ihc

end Dfs
