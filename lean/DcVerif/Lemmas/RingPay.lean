import DcVerif.Model.RingPay
import DcVerif.Lemmas.Ring
/-!
Slot contents along every schedule: each live slot holds the written value transformed by exactly those mutable handlers
that have already handled its sequence; hence what a handler of stage `k` sees for sequence `i` is the written value
transformed by all mutable handlers of the stages below `k`, in stage order (`PayInv.saw`).
-/
namespace RingPay
open Ring

structure PayInv (c : PCfg) (s : PaySt) : Prop where
  /-- nothing written is more than a ring ahead of any handler -/
  fits  : ∀ k j, k < s.x.s.K → j < s.x.s.h k → wNext s.x.p ≤ (s.x.s.cons k j).cur + s.x.s.n + 1
  slots : ∀ q, q < wNext s.x.p → wNext s.x.p ≤ q + s.x.s.n →
            s.slot (q % s.x.s.n) = expectUpTo c s.x.s s.x.s.K q (c.pay q)
  saw   : ∀ k j, k < s.x.s.K → j < s.x.s.h k → ∀ e, e ∈ s.seen k j → e.2 = expectBelow c k (c.pay e.1)


/-! ### arithmetic -/
theorem mod_ne_of_close {a b n : Nat} (hab : a < b) (hn : b < a + n) : a % n ≠ b % n := by
  intro heq
  have h2 : (b - a) % n = 0 := Nat.sub_mod_eq_zero_of_mod_eq heq.symm
  have h3 : b - a < n := by omega
  rw [Nat.mod_eq_of_lt h3] at h2
  omega

theorem mod_ne_of_window {q i w n : Nat} (hq : q < w) (hqn : w ≤ q + n) (hi : i < w) (hin : w ≤ i + n) (hne : q ≠ i) :
    q % n ≠ i % n := by
  rcases Nat.lt_or_gt_of_ne hne with h | h
  · exact mod_ne_of_close h (by omega)
  · exact fun e => mod_ne_of_close h (by omega) e.symm

/-! ### progress -/
theorem cur_le_progress {s : St} {k : Nat} {cc : Cons} (h : CInv s k cc) : cc.cur ≤ progress cc := by
  unfold progress
  split
  · rename_i hp; have := h.iGe hp; have := h.nextEq (by simp [hp]); omega
  · split
    · rename_i _ hp; have := h.curAvail (by simp [hp]); omega
    · exact Nat.le_refl _

/-- a consumer's own step advances its progress by one exactly when it handles an event, and never otherwise -/
theorem progress_stepCons (s : St) (k j : Nat) (cc : Cons) (h : CInv s k cc) :
    progress (stepCons s k j cc) = if cc.pc = .handle ∧ cc.i ≤ cc.avail then progress cc + 1 else progress cc := by
  have h7 := h.curAvail; have h8 := h.nextEq; have h9 := h.iGe; have h10 := h.iLe
  clear h
  cases hpc : cc.pc <;>
    simp only [hpc, reduceCtorEq, false_or, or_false, true_or, or_true, false_implies, true_implies, imp_self] at h7 h8 h9 h10 <;>
    simp only [stepCons, hpc, progress, reduceCtorEq, false_and, if_false, true_and]
  all_goals (repeat' split)
  all_goals (try simp only [reduceCtorEq, if_false, if_true] at *)
  all_goals (first | omega | simp_all)

/-- progress never exceeds any dependency cursor -/
theorem progress_le_dep {s : St} {k : Nat} {cc : Cons} (h : CInv s k cc) (d : Nat) (hd : d < ndeps s k) :
    progress cc ≤ dep s k d := by
  unfold progress
  split
  · rename_i hp
    have := h.availLe (by simp [hp]) d hd; have := h.iLe hp; have := h.iGe hp; omega
  · split
    · rename_i _ hp; exact h.availLe (by simp [hp]) d hd
    · exact h.curDep d hd

/-- every handler of a later stage is behind every handler cursor of an earlier stage -/
theorem progress_le_earlier_cur (s : St) (hI : Inv s) :
    ∀ r k k' j j', k' + r + 1 = k → k < s.K → j < s.h k → j' < s.h k' →
      progress (s.cons k j) ≤ (s.cons k' j').cur := by
  intro r
  induction r with
  | zero =>
    intro k k' j j' hk hK hj hj'
    have : k = k' + 1 := by omega
    subst this
    have := progress_le_dep (hI.2 (k' + 1) j hK hj) j' (by simpa [ndeps] using hj')
    simpa [dep] using this
  | succ r ih =>
    intro k k' j j' hk hK hj hj'
    -- go through handler 0 of stage k'+1
    have hpos := hI.1 (k' + 1) (by omega)
    have h1 := ih k (k' + 1) j 0 (by omega) hK hj hpos
    have h2 := (hI.2 (k' + 1) 0 (by omega) hpos).curDep j' (by simpa [ndeps] using hj')
    simp [dep] at h2
    omega

/-- what a handler is about to handle has been finished by every handler of every earlier stage -/
theorem handling_le_earlier (s : St) (hI : Inv s) (k j : Nat) (hk : k < s.K) (hj : j < s.h k)
    (hpc : (s.cons k j).pc = .handle) (hi : (s.cons k j).i ≤ (s.cons k j).avail)
    (k' j' : Nat) (hk' : k' < k) (hj' : j' < s.h k') : (s.cons k j).i ≤ progress (s.cons k' j') := by
  have h1 := progress_le_earlier_cur s hI (k - k' - 1) k k' j j' (by omega) hk hj hj'
  have hc := hI.2 k j hk hj
  have : progress (s.cons k j) = (s.cons k j).i - 1 := by simp [progress, hpc]
  have hge := hc.iGe hpc
  have hne := hc.nextEq (by simp [hpc])
  -- i ≤ avail ≤ cur of every earlier-stage handler
  have hav : (s.cons k j).avail ≤ (s.cons k' j').cur := by
    by_cases hkk : k' + 1 = k
    · subst hkk
      have := hc.availLe (by simp [hpc]) j' (by simpa [ndeps] using hj')
      simpa [dep] using this
    · have hpos := hI.1 (k - 1) (by omega)
      have h0 := hc.availLe (by simp [hpc]) 0 (by simp [ndeps]; split <;> omega)
      have hk1 : k ≠ 0 := by omega
      simp only [dep, hk1, if_false] at h0
      have h2 := progress_le_earlier_cur s hI (k - 1 - k' - 1) (k - 1) k' 0 j' (by omega) (by omega) hpos hj'
      have := cur_le_progress (hI.2 (k - 1) 0 (by omega) hpos)
      omega
  have := cur_le_progress (hI.2 k' j' (by omega) hj')
  omega

/-! ### expected slot content -/

/-- `expectUpTo` reads the state only through the progress of handler 0 of the stages below `K'` -/
theorem expectUpTo_congr (c : PCfg) (s s' : St) (K' q v : Nat)
    (h : ∀ k', k' < K' → c.mutH k' 0 = true → (q ≤ progress (s'.cons k' 0) ↔ q ≤ progress (s.cons k' 0))) :
    expectUpTo c s' K' q v = expectUpTo c s K' q v := by
  induction K' with
  | zero => rfl
  | succ K' ih =>
    simp only [expectUpTo]
    rw [ih (fun k' hk' hm => h k' (by omega) hm)]
    by_cases hm : c.mutH K' 0 = true
    · have := h K' (by omega) hm
      simp only [hm, true_and, this]
    · simp [hm]

/-- stages at or above `k` that have not reached `q` contribute nothing -/
theorem expectUpTo_unapplied (c : PCfg) (s : St) (q v k : Nat) :
    ∀ K', k ≤ K' → (∀ k', k ≤ k' → k' < K' → c.mutH k' 0 = true → ¬ q ≤ progress (s.cons k' 0)) →
      expectUpTo c s K' q v = expectUpTo c s k q v := by
  intro K'
  induction K' with
  | zero => intro hk _; have : k = 0 := by omega
            subst this; rfl
  | succ K' ih =>
    intro hk h
    by_cases he : k = K' + 1
    · subst he; rfl
    · simp only [expectUpTo]
      rw [ih (by omega) (fun k' h1 h2 hm => h k' h1 (by omega) hm)]
      by_cases hm : c.mutH K' 0 = true
      · have := h K' (by omega) (by omega) hm
        simp [this]
      · simp [hm]

/-- stages below `k` that have all reached `q ≥ 1` contribute everything -/
theorem expectUpTo_applied (c : PCfg) (s : St) (q v : Nat) (hq : 1 ≤ q) :
    ∀ k, (∀ k', k' < k → c.mutH k' 0 = true → q ≤ progress (s.cons k' 0)) →
      expectUpTo c s k q v = expectBelow c k v := by
  intro k
  induction k with
  | zero => intro _; rfl
  | succ k ih =>
    intro h
    simp only [expectUpTo, expectBelow]
    rw [ih (fun k' hk' hm => h k' (by omega) hm)]
    by_cases hm : c.mutH k 0 = true
    · have := h k (by omega) hm
      simp [hm, hq, this]
    · simp [hm]

theorem expectUpTo_zero (c : PCfg) (s : St) (K' v : Nat) : expectUpTo c s K' 0 v = v := by
  induction K' with
  | zero => rfl
  | succ K' ih => simp [expectUpTo, ih]

/-! ### producer side -/

theorem progress_le_cursor (s : St) (hI : Inv s) (k j : Nat) (hk : k < s.K) (hj : j < s.h k) :
    progress (s.cons k j) ≤ s.cursor := by
  have hc := hI.2 k j hk hj
  have hup := chain_up s hI k j hk hj
  unfold progress
  split
  · rename_i h1
    have hav := avail_le_cursor s hI k j hk hj (by simp [h1])
    have := hc.iLe h1
    omega
  · split
    · rename_i _ h2
      exact avail_le_cursor s hI k j hk hj (by simp [h2])
    · exact hup

/-- everything published has been written: `cursor < wNext` unless nothing was published yet -/
theorem cursor_lt_wNext (x : PSt) (hP : PInv x.s x.p) : x.s.cursor = 0 ∨ x.s.cursor + 1 ≤ wNext x.p := by
  unfold wNext
  by_cases hw : x.p.pc = .write ∨ x.p.pc = .publish
  · have := hP.wr hw
    simp only [hw, if_true]
    rcases this.1 with h1 | ⟨h1, h2⟩ <;> omega
  · simp only [hw, if_false]
    by_cases hidle : x.p.pc.idle = true
    · rcases hP.nw hidle with h1 | ⟨h1, h2⟩ <;> omega
    · have hcl : x.p.pc = .gateCheck ∨ x.p.pc = .gateLoad := by
        cases hp : x.p.pc <;> simp_all [PPc.idle]
      have := hP.claim hcl
      rcases this.1 with h1 | ⟨h1, h2⟩ <;> omega

/-- the number of written sequences changes only at a slot-write step -/
theorem wNext_stepProd (x : PSt) (hP : PInv x.s x.p) :
    wNext (stepProd x).p = if x.p.pc = .write ∧ x.p.w ≤ x.p.stop then wNext x.p + 1 else wNext x.p := by
  have h7 := hP.claim; have h8 := hP.wr
  clear hP
  unfold wNext
  cases hpc : x.p.pc <;>
    simp only [hpc, reduceCtorEq, false_or, or_false, true_or, or_true, false_implies, true_implies] at h7 h8 <;>
    simp only [stepProd, hpc, reduceCtorEq, false_and, if_false, true_and]
  all_goals (repeat' split)
  all_goals (try simp only [reduceCtorEq, if_false, if_true, or_self, false_or, or_false] at *)
  all_goals (first | omega | simp_all)

theorem payinv_prod (c : PCfg) (s : PaySt) (hA : PInvAll s.x) (h : PayInv c s) : PayInv c (stepPay c s .prod) := by
  obtain ⟨hI, hK, hP, hb⟩ := hA
  obtain ⟨hc, hK', hh, hn, _⟩ := cons_same_prod s.x
  have hw := wNext_stepProd s.x hP
  simp only [stepPay]
  split
  · -- slot write of `w`
    rename_i hwr
    have hwn : wNext s.x.p = s.x.p.w := by simp [wNext, hwr.1]
    rw [if_pos hwr, hwn] at hw
    have hwr' := hP.wr (Or.inl hwr.1)
    constructor
    · intro k j hk hj
      show wNext (stepX s.x .prod).p ≤ ((stepX s.x .prod).s.cons k j).cur + (stepX s.x .prod).s.n + 1
      simp only [stepX]
      rw [hw, hc, hn]
      rw [show (stepX s.x .prod).s.K = s.x.s.K from hK'] at hk
      rw [show (stepX s.x .prod).s.h = s.x.s.h from hh] at hj
      have := below_all s.x.s hI hK s.x.p.min hP.minLe (s.x.s.K - 1 - k) k j (by omega) hj
      omega
    · intro q hq hqn
      simp only [stepX] at hq hqn ⊢
      rw [hw] at hq hqn
      rw [hn] at hqn ⊢
      rw [hK']
      by_cases he : q = s.x.p.w
      · subst he
        simp only [updN, if_true]
        rw [expectUpTo_congr c s.x.s (stepProd s.x).s _ _ _ (by intro k' _ _; rw [hc])]
        by_cases h0 : s.x.p.w = 0
        · rw [h0, expectUpTo_zero]
        · have hcl := cursor_lt_wNext s.x hP
          rw [hwn] at hcl
          rw [expectUpTo_unapplied c s.x.s _ _ 0 s.x.s.K (Nat.zero_le _)]
          · rfl
          · intro k' _ hk' hm hle
            have hpos := hI.1 k' hk'
            have := progress_le_cursor s.x.s hI k' 0 hk' hpos
            rcases hwr'.1 with h1 | ⟨h1, h2⟩ <;> omega
      · have hlt : q < s.x.p.w := by omega
        have hne := mod_ne_of_close hlt (by omega : s.x.p.w < q + s.x.s.n)
        simp only [updN, hne, if_false]
        rw [h.slots q (by omega) (by omega)]
        exact expectUpTo_congr c (stepProd s.x).s s.x.s _ _ _ (by intro k' _ _; rw [hc])
    · intro k j hk hj e he
      exact h.saw k j (by rw [← hK']; exact hk) (by rw [← hh]; exact hj) e he
  · -- any other producer step: slots, logs and the written count are untouched
    rename_i hnw
    rw [if_neg hnw] at hw
    constructor
    · intro k j hk hj
      show wNext (stepX s.x .prod).p ≤ ((stepX s.x .prod).s.cons k j).cur + (stepX s.x .prod).s.n + 1
      simp only [stepX]
      rw [hw, hc, hn]
      exact h.fits k j (by rw [← hK']; exact hk) (by rw [← hh]; exact hj)
    · intro q hq hqn
      simp only [stepX] at hq hqn ⊢
      rw [hw] at hq hqn
      rw [hn] at hqn ⊢
      rw [hK', h.slots q hq hqn]
      exact expectUpTo_congr c (stepProd s.x).s s.x.s _ _ _ (by intro k' _ _; rw [hc])
    · intro k j hk hj e he
      exact h.saw k j (by rw [← hK']; exact hk) (by rw [← hh]; exact hj) e he

/-! ### consumer side -/

theorem stepC_cons_self (s : St) (k j : Nat) : (stepC s k j).cons k j = stepCons s k j (s.cons k j) := by
  simp [stepC, upd]

theorem stepC_cons_other (s : St) (k j k' j' : Nat) (h : ¬(k' = k ∧ j' = j)) : (stepC s k j).cons k' j' = s.cons k' j' := by
  simp [stepC, upd, h]

theorem payinv_cons (c : PCfg) (s : PaySt) (k j : Nat) (hk : k < s.x.s.K) (hj : j < s.x.s.h k)
    (hA : PInvAll s.x) (hT : Topo c s.x.s) (h : PayInv c s) : PayInv c (stepPay c s (.cons k j)) := by
  obtain ⟨hI, hK, hP, hb⟩ := hA
  have hci := hI.2 k j hk hj
  have hprog := progress_stepCons s.x.s k j _ hci
  have hcur := cur_mono s.x.s k j _ hci
  have hx : stepX s.x (.cons k j) = { s.x with s := stepC s.x.s k j } := by simp [stepX, hk, hj]
  simp only [stepPay, hk, hj, and_self, if_true]
  split
  · -- the handler is invoked for `i`
    rename_i hh
    have hge := hci.iGe hh.1
    have hne := hci.nextEq (by simp [hh.1])
    have hca := hci.curAvail (by simp [hh.1])
    have hi1 : 1 ≤ (s.x.s.cons k j).i := by omega
    have hpi : progress (s.x.s.cons k j) = (s.x.s.cons k j).i - 1 := by simp [progress, hh.1]
    rw [if_pos hh] at hprog
    -- `i` is inside the window of live slots
    have hav := avail_le_cursor s.x.s hI k j hk hj (by simp [hh.1])
    have hiw : (s.x.s.cons k j).i < wNext s.x.p := by
      rcases cursor_lt_wNext s.x hP with h0 | h0 <;> omega
    have hiw' : wNext s.x.p ≤ (s.x.s.cons k j).i + s.x.s.n := by
      have := h.fits k j hk hj; omega
    -- a mutable handler is alone in its stage
    have hj0 : c.mutH k 0 = true → j = 0 := by
      intro hm; have := hT k 0 hk (hI.1 k hk) hm; omega
    have hmj : c.mutH k j = true → j = 0 := by
      intro hm; have := hT k j hk hj hm; omega
    -- later stages (and the own stage) have not reached `i`
    have hlater : ∀ k', k ≤ k' → k' < s.x.s.K → c.mutH k' 0 = true → ¬ (s.x.s.cons k j).i ≤ progress (s.x.s.cons k' 0) := by
      intro k' hkk hk' hm
      by_cases he : k' = k
      · subst he; have := hj0 hm; subst this; omega
      · have := progress_le_earlier_cur s.x.s hI (k' - k - 1) k' k 0 j (by omega) hk' (hI.1 k' hk') hj
        omega
    have hearlier : ∀ k', k' < k → c.mutH k' 0 = true → (s.x.s.cons k j).i ≤ progress (s.x.s.cons k' 0) := by
      intro k' hkk _
      exact handling_le_earlier s.x.s hI k j hk hj hh.1 hh.2 k' 0 hkk (hI.1 k' (by omega))
    -- hence the slot holds what stage `k` must see
    have hv : s.slot ((s.x.s.cons k j).i % s.x.s.n) = expectBelow c k (c.pay (s.x.s.cons k j).i) := by
      rw [h.slots _ hiw hiw', expectUpTo_unapplied c s.x.s _ _ k s.x.s.K (by omega) hlater,
        expectUpTo_applied c s.x.s _ _ hi1 k hearlier]
    constructor
    · intro k' j' hk' hj'
      rw [hx] at hk' hj' ⊢
      show wNext s.x.p ≤ ((stepC s.x.s k j).cons k' j').cur + s.x.s.n + 1
      have := h.fits k' j' hk' hj'
      by_cases he : k' = k ∧ j' = j
      · obtain ⟨rfl, rfl⟩ := he
        show _ ≤ ((stepC s.x.s k' j').cons k' j').cur + s.x.s.n + 1
        rw [stepC_cons_self]; omega
      · show _ ≤ ((stepC s.x.s k j).cons k' j').cur + s.x.s.n + 1
        rw [stepC_cons_other _ _ _ _ _ he]; exact this
    · intro q hq hqn
      rw [hx] at hq hqn ⊢
      show (if c.mutH k j then updN s.slot _ _ else s.slot) (q % s.x.s.n) =
        expectUpTo c (stepC s.x.s k j) s.x.s.K q (c.pay q)
      have hq' : q < wNext s.x.p := hq
      have hqn' : wNext s.x.p ≤ q + s.x.s.n := hqn
      by_cases he : q = (s.x.s.cons k j).i
      · subst he
        -- stages above `k` still have not reached `i`, stages below are unchanged
        rw [expectUpTo_unapplied c (stepC s.x.s k j) _ _ (k + 1) s.x.s.K (by omega)
          (by intro k' hkk hk' hm
              rw [stepC_cons_other _ _ _ _ _ (by omega)]
              exact hlater k' (by omega) hk' hm)]
        simp only [expectUpTo]
        rw [expectUpTo_congr c s.x.s (stepC s.x.s k j) k _ _
          (by intro k' hkk _; rw [stepC_cons_other _ _ _ _ _ (by omega)]),
          expectUpTo_applied c s.x.s _ _ hi1 k hearlier, ← hv]
        by_cases hm : c.mutH k 0 = true
        · have := hj0 hm; subst this
          rw [stepC_cons_self, hprog, hpi]
          simp only [hm, if_true, updN]
          have : (1 ≤ (s.x.s.cons k 0).i ∧ (s.x.s.cons k 0).i ≤ (s.x.s.cons k 0).i - 1 + 1) := by omega
          simp [this]
        · have hmj' : c.mutH k j = false := by
            cases hc' : c.mutH k j
            · rfl
            · have := hmj hc'; subst this; simp [hc'] at hm
          simp [hm, hmj']
      · have hmod := mod_ne_of_window hq' hqn' hiw hiw' he
        have hslot : (if c.mutH k j then updN s.slot ((s.x.s.cons k j).i % s.x.s.n)
            (c.tf k j (s.slot ((s.x.s.cons k j).i % s.x.s.n))) else s.slot) (q % s.x.s.n) = s.slot (q % s.x.s.n) := by
          split
          · simp [updN, hmod]
          · rfl
        rw [hslot, h.slots q hq' hqn']
        apply expectUpTo_congr c (stepC s.x.s k j) s.x.s
        intro k' _ hm
        by_cases hek : k' = k ∧ (0 : Nat) = j
        · obtain ⟨rfl, rfl⟩ := hek
          rw [stepC_cons_self, hprog, hpi]; omega
        · rw [stepC_cons_other _ _ _ _ _ hek] at *
    · intro k' j' hk' hj' e he
      rw [hx] at hk' hj'
      by_cases hek : k' = k ∧ j' = j
      · obtain ⟨rfl, rfl⟩ := hek
        simp only [updL, and_self, if_true, List.mem_append, List.mem_singleton] at he
        rcases he with he | rfl
        · exact h.saw k' j' hk' hj' e he
        · exact hv
      · simp only [updL, hek, if_false] at he
        exact h.saw k' j' hk' hj' e he
  · -- any other consumer step: slots and logs untouched, nobody's progress changes
    rename_i hnh
    rw [if_neg hnh] at hprog
    constructor
    · intro k' j' hk' hj'
      rw [hx] at hk' hj' ⊢
      show wNext s.x.p ≤ ((stepC s.x.s k j).cons k' j').cur + s.x.s.n + 1
      have := h.fits k' j' hk' hj'
      by_cases he : k' = k ∧ j' = j
      · obtain ⟨rfl, rfl⟩ := he
        show _ ≤ ((stepC s.x.s k' j').cons k' j').cur + s.x.s.n + 1
        rw [stepC_cons_self]; omega
      · show _ ≤ ((stepC s.x.s k j).cons k' j').cur + s.x.s.n + 1
        rw [stepC_cons_other _ _ _ _ _ he]; exact this
    · intro q hq hqn
      rw [hx] at hq hqn ⊢
      show s.slot (q % s.x.s.n) = expectUpTo c (stepC s.x.s k j) s.x.s.K q (c.pay q)
      rw [h.slots q hq hqn]
      apply expectUpTo_congr c (stepC s.x.s k j) s.x.s
      intro k' _ hm
      by_cases hek : k' = k ∧ (0 : Nat) = j
      · obtain ⟨rfl, rfl⟩ := hek
        rw [stepC_cons_self, hprog]
      · rw [stepC_cons_other _ _ _ _ _ hek]
    · intro k' j' hk' hj' e he
      rw [hx] at hk' hj'
      exact h.saw k' j' hk' hj' e he

/-! ### every schedule -/

theorem topo_step (c : PCfg) (x : PSt) (t : Tid) (h : Topo c x.s) : Topo c (stepX x t).s := by
  cases t with
  | prod =>
    obtain ⟨_, hK', hh, _, _⟩ := cons_same_prod x
    intro k j hk hj hm
    have hk2 : k < x.s.K := by rw [← hK']; exact hk
    have hj2 : j < x.s.h k := by rw [← hh]; exact hj
    have := h k j hk2 hj2 hm
    show (stepProd x).s.h k = 1
    rw [hh]; exact this
  | cons k j =>
    show Topo c (if k < x.s.K ∧ j < x.s.h k then { x with s := stepC x.s k j } else x).s
    split
    · exact h
    · exact h

def PayGood (c : PCfg) (s : PaySt) : Prop := PInvAll s.x ∧ Topo c s.x.s ∧ PayInv c s

theorem paygood_step (c : PCfg) (s : PaySt) (t : Tid) (h : PayGood c s) : PayGood c (stepPay c s t) := by
  obtain ⟨hA, hT, hP⟩ := h
  refine ⟨by rw [stepPay_x]; exact inv_stepX s.x t hA, by rw [stepPay_x]; exact topo_step c s.x t hT, ?_⟩
  cases t with
  | prod => exact payinv_prod c s hA hP
  | cons k j =>
    by_cases hkj : k < s.x.s.K ∧ j < s.x.s.h k
    · exact payinv_cons c s k j hkj.1 hkj.2 hA hT hP
    · have : stepPay c s (.cons k j) = s := by simp [stepPay, hkj]
      rw [this]; exact hP

theorem paygood_run (c : PCfg) (s : PaySt) (sched : List Tid) (h : PayGood c s) : PayGood c (runPay c s sched) := by
  unfold runPay
  induction sched generalizing s with
  | nil => exact h
  | cons t ts ih => exact ih _ (paygood_step c s t h)

theorem paygood_init (c : PCfg) (n K : Nat) (h : Nat → Nat) (blocking : Bool) (batches : List Nat)
    (hK : 0 < K) (hh : ∀ k, k < K → 0 < h k) (hb : ∀ b, b ∈ batches → 1 ≤ b)
    (hT : ∀ k j, k < K → j < h k → c.mutH k j = true → h k = 1) :
    PayGood c (mkPay n K h blocking batches) := by
  refine ⟨inv_init n K h blocking batches hK hh hb, hT, ?_⟩
  constructor
  · intro k j _ _; simp [mkPay, mk, wNext]
  · intro q hq; simp [mkPay, mk, wNext] at hq
  · intro k j _ _ e he; simp [mkPay] at he

/-- the sequences a handler has seen are exactly its delivery log -/
theorem seen_eq_log_step (c : PCfg) (s : PaySt) (t : Tid)
    (h : ∀ k j, (s.seen k j).map (·.1) = (s.x.s.cons k j).log) :
    ∀ k j, ((stepPay c s t).seen k j).map (·.1) = ((stepPay c s t).x.s.cons k j).log := by
  intro k' j'
  cases t with
  | prod =>
    have hc := (cons_same_prod s.x).1
    simp only [stepPay]
    split <;> (simp only [stepX]; rw [hc]; exact h k' j')
  | cons k j =>
    simp only [stepPay]
    split
    · rename_i hkj
      have hx : stepX s.x (.cons k j) = { s.x with s := stepC s.x.s k j } := by simp [stepX, hkj]
      split
      · rename_i hh
        rw [hx]
        by_cases he : k' = k ∧ j' = j
        · obtain ⟨rfl, rfl⟩ := he
          show (updL s.seen k' j' _ k' j').map (·.1) = ((stepC s.x.s k' j').cons k' j').log
          rw [stepC_cons_self]
          simp only [updL, and_self, if_true, List.map_append, List.map_cons, List.map_nil, h k' j', stepCons, hh.1, hh.2, if_true]
        · show (updL s.seen k j _ k' j').map (·.1) = ((stepC s.x.s k j).cons k' j').log
          rw [stepC_cons_other _ _ _ _ _ he]
          simp only [updL, he, if_false]; exact h k' j'
      · rename_i hnh
        rw [hx]
        show (s.seen k' j').map (·.1) = ((stepC s.x.s k j).cons k' j').log
        by_cases he : k' = k ∧ j' = j
        · obtain ⟨rfl, rfl⟩ := he
          rw [stepC_cons_self, h k' j']
          cases hpc : (s.x.s.cons k' j').pc <;> simp only [stepCons, hpc] <;> (repeat' split) <;> first | rfl | simp_all
        · rw [stepC_cons_other _ _ _ _ _ he]; exact h k' j'
    · exact h k' j'

end RingPay
