import DcVerif.Spec.ShortestPath
/-! Correctness of the shortest-path oracle (C15, C10): Floyd–Warshall `fw` is the minimum over all walks
(`fw_correct`, from the design prototype), the table `fwMat` holds the same values, walks and `Path`s of a
`Spec.DiGraph` correspond, `pathWeight`/`checkPath` recognise exactly the real paths. -/
namespace Spec.ShortestPath
open Spec Spec.DiGraph

def OLe (a : Option Nat) (c : Nat) : Prop := ∃ d, a = some d ∧ d ≤ c

theorem ole_omin_left {a b : Option Nat} {c : Nat} (h : OLe a c) : OLe (omin a b) c := by
  obtain ⟨d, rfl, hd⟩ := h
  cases b with
  | none => exact ⟨d, rfl, hd⟩
  | some e => exact ⟨min d e, rfl, Nat.le_trans (Nat.min_le_left _ _) hd⟩

theorem ole_omin_right {a b : Option Nat} {c : Nat} (h : OLe b c) : OLe (omin a b) c := by
  obtain ⟨d, rfl, hd⟩ := h
  cases a with
  | none => exact ⟨d, rfl, hd⟩
  | some e => exact ⟨min e d, rfl, Nat.le_trans (Nat.min_le_right _ _) hd⟩

theorem ole_oadd {a b : Option Nat} {c1 c2 : Nat} (h1 : OLe a c1) (h2 : OLe b c2) : OLe (oadd a b) (c1 + c2) := by
  obtain ⟨d1, rfl, hd1⟩ := h1
  obtain ⟨d2, rfl, hd2⟩ := h2
  exact ⟨d1 + d2, rfl, by omega⟩

theorem walk_split (w : Wt) (is1 : List Nat) : ∀ (u v x : Nat) (is2 : List Nat) (c : Nat),
    Walk w u v (is1 ++ x :: is2) c → ∃ c1 c2, Walk w u x is1 c1 ∧ Walk w x v is2 c2 ∧ c = c1 + c2 := by
  induction is1 with
  | nil =>
    intro u v x is2 c h
    cases h with
    | cons he hr => exact ⟨_, _, Walk.edge he, hr, rfl⟩
  | cons y ys ih =>
    intro u v x is2 c h
    cases h with
    | cons he hr =>
      obtain ⟨c1, c2, h1, h2, heq⟩ := ih _ _ _ _ _ hr
      exact ⟨_, c2, Walk.cons he h1, h2, by omega⟩

theorem first_occ (k : Nat) (is : List Nat) (h : k ∈ is) : ∃ is1 is2, is = is1 ++ k :: is2 ∧ k ∉ is1 := by
  induction is with
  | nil => simp at h
  | cons y ys ih =>
    by_cases hy : y = k
    · exact ⟨[], ys, by simp [hy], by simp⟩
    · have : k ∈ ys := by simpa [Ne.symm hy] using h
      obtain ⟨a, b, hab, hk⟩ := ih this
      exact ⟨y :: a, b, by simp [hab], by simp [hk, Ne.symm hy]⟩

/-- going through `k` from `k` never helps: `fw (k+1) k v = fw k k v` -/
theorem fw_succ_from_k (w : Wt) (k v : Nat) : fw w (k+1) k v = fw w k k v := by
  simp only [fw]
  cases h1 : fw w k k v with
  | none => cases fw w k k k <;> simp [omin, oadd]
  | some e =>
    cases h2 : fw w k k k with
    | none => simp [omin, oadd]
    | some kk => simp [omin, oadd]

/-- **lower bound**: every walk whose intermediates are `< k` weighs at least `fw k` -/
theorem fw_le (w : Wt) : ∀ (k : Nat) (len : Nat) (u v : Nat) (is : List Nat) (c : Nat),
    is.length ≤ len → Walk w u v is c → (∀ x, x ∈ is → x < k) → OLe (fw w k u v) c := by
  intro k
  induction k with
  | zero =>
    intro len u v is c _ hw hall
    cases hw with
    | edge he => exact ⟨c, he, Nat.le_refl _⟩
    | cons he hr => exact absurd (hall _ (List.mem_cons_self)) (by omega)
  | succ k ih =>
    intro len
    induction len with
    | zero =>
      intro u v is c hl hw hall
      have : is = [] := by cases is <;> simp_all
      subst this
      exact ole_omin_left (ih 0 u v [] c (by simp) hw (by simp))
    | succ len ihl =>
      intro u v is c hl hw hall
      by_cases hk : k ∈ is
      · obtain ⟨is1, is2, heq, hnot⟩ := first_occ k is hk
        subst heq
        obtain ⟨c1, c2, h1, h2, hc⟩ := walk_split w is1 u v k is2 c hw
        have hall1 : ∀ x, x ∈ is1 → x < k := by
          intro x hx
          have := hall x (by simp [hx])
          have : x ≠ k := fun h => hnot (h ▸ hx)
          omega
        have hall2 : ∀ x, x ∈ is2 → x < k + 1 := fun x hx => hall x (by simp [hx])
        have l2 : is2.length ≤ len := by simp at hl; omega
        have e1 := ih is1.length u k is1 c1 (Nat.le_refl _) h1 hall1
        have e2 := ihl k v is2 c2 l2 h2 hall2
        rw [fw_succ_from_k] at e2
        rw [hc]
        exact ole_omin_right (ole_oadd e1 e2)
      · have hall' : ∀ x, x ∈ is → x < k := by
          intro x hx
          have := hall x hx
          have : x ≠ k := fun h => hk (h ▸ hx)
          omega
        exact ole_omin_left (ih is.length u v is c (Nat.le_refl _) hw hall')

theorem walk_append (w : Wt) : ∀ (is1 : List Nat) (u x v : Nat) (is2 : List Nat) (c1 c2 : Nat),
    Walk w u x is1 c1 → Walk w x v is2 c2 → Walk w u v (is1 ++ x :: is2) (c1 + c2) := by
  intro is1
  induction is1 with
  | nil =>
    intro u x v is2 c1 c2 h1 h2
    cases h1 with
    | edge he => exact Walk.cons he h2
  | cons y ys ih =>
    intro u x v is2 c1 c2 h1 h2
    cases h1 with
    | cons he hr =>
      have := ih _ _ _ _ _ _ hr h2
      have e : ∀ a b : Nat, a + b + c2 = a + (b + c2) := fun a b => by omega
      rw [e]; exact Walk.cons he this

/-- **attained**: `fw k u v = some d` is realised by a walk with intermediates `< k` -/
theorem fw_attained (w : Wt) : ∀ (k u v d : Nat), fw w k u v = some d →
    ∃ is, Walk w u v is d ∧ ∀ x, x ∈ is → x < k := by
  intro k
  induction k with
  | zero => intro u v d h; exact ⟨[], Walk.edge h, by simp⟩
  | succ k ih =>
    intro u v d h
    simp only [fw] at h
    cases h0 : fw w k u v with
    | none =>
      rw [h0] at h
      cases h1 : fw w k u k with
      | none => simp [h1, oadd, omin] at h
      | some a =>
        cases h2 : fw w k k v with
        | none => simp [h1, h2, oadd, omin] at h
        | some b =>
          simp [h1, h2, oadd, omin] at h
          obtain ⟨is1, w1, a1⟩ := ih u k a h1
          obtain ⟨is2, w2, a2⟩ := ih k v b h2
          refine ⟨is1 ++ k :: is2, h ▸ walk_append w is1 u k v is2 a b w1 w2, ?_⟩
          intro x hx
          simp at hx
          rcases hx with hx | hx | hx
          · have := a1 x hx; omega
          · omega
          · have := a2 x hx; omega
    | some e =>
      rw [h0] at h
      cases h1 : fw w k u k with
      | none =>
        simp [h1, oadd, omin] at h
        obtain ⟨is, hw, ha⟩ := ih u v e h0
        exact ⟨is, h ▸ hw, fun x hx => by have := ha x hx; omega⟩
      | some a =>
        cases h2 : fw w k k v with
        | none =>
          simp [h1, h2, oadd, omin] at h
          obtain ⟨is, hw, ha⟩ := ih u v e h0
          exact ⟨is, h ▸ hw, fun x hx => by have := ha x hx; omega⟩
        | some b =>
          simp [h1, h2, oadd, omin] at h
          by_cases hle : e ≤ a + b
          · have : d = e := by rw [← h]; exact Nat.min_eq_left hle
            obtain ⟨is, hw, ha⟩ := ih u v e h0
            exact ⟨is, this ▸ hw, fun x hx => by have := ha x hx; omega⟩
          · have : d = a + b := by rw [← h]; exact Nat.min_eq_right (by omega)
            obtain ⟨is1, w1, a1⟩ := ih u k a h1
            obtain ⟨is2, w2, a2⟩ := ih k v b h2
            refine ⟨is1 ++ k :: is2, this ▸ walk_append w is1 u k v is2 a b w1 w2, ?_⟩
            intro x hx
            simp at hx
            rcases hx with hx | hx | hx
            · have := a1 x hx; omega
            · omega
            · have := a2 x hx; omega

/-- **C15 oracle**: with all vertices `< n`, `fw n u v` is the minimum walk weight, and `none`
    exactly when there is no walk at all. -/
theorem fw_correct (w : Wt) (n u v : Nat) :
    (∀ d, fw w n u v = some d →
        (∃ is, Walk w u v is d) ∧ ∀ is c, Walk w u v is c → (∀ x, x ∈ is → x < n) → d ≤ c) ∧
    (fw w n u v = none → ∀ is c, Walk w u v is c → (∀ x, x ∈ is → x < n) → False) := by
  constructor
  · intro d hd
    refine ⟨?_, ?_⟩
    · obtain ⟨is, hw, _⟩ := fw_attained w n u v d hd; exact ⟨is, hw⟩
    · intro is c hw hall
      obtain ⟨d', hd', hle⟩ := fw_le w n is.length u v is c (Nat.le_refl _) hw hall
      rw [hd] at hd'; cases hd'; exact hle
  · intro hn is c hw hall
    obtain ⟨d', hd', _⟩ := fw_le w n is.length u v is c (Nat.le_refl _) hw hall
    rw [hn] at hd'; cases hd'


/-! ## the table -/

theorem get_table (n : Nat) (f : Nat → Nat → Option Nat) (u v : Nat) (hu : u < n) (hv : v < n) :
    (table n f).get u v = f u v := by
  unfold Mat.get table
  rw [Array.getElem?_ofFn, dif_pos hu]
  simp only [Array.getElem?_ofFn, dif_pos hv]

theorem fwMat_eq (w : Wt) (n : Nat) : ∀ k, k ≤ n → ∀ u v, u < n → v < n → (fwMat w n k).get u v = fw w k u v := by
  intro k
  induction k with
  | zero => intro _ u v hu hv; exact get_table n w u v hu hv
  | succ k ih =>
    intro hk u v hu hv
    have hk' : k < n := by omega
    show (table n _).get u v = _
    rw [get_table n _ u v hu hv, ih (by omega) u v hu hv, ih (by omega) u k hu hk', ih (by omega) k v hk' hv]
    rfl

/-! ## edges, weights, bound -/

theorem weights_some_mem (s : DiGraph) (a b c : Nat) (h : weights s a b = some c) : (a, b, c) ∈ s.edges := by
  unfold weights at h
  cases hf : s.edges.find? (fun e => e.1 == a && e.2.1 == b) with
  | none => rw [hf] at h; cases h
  | some e =>
    rw [hf] at h
    have hp := List.find?_some hf
    have hm := List.mem_of_find?_eq_some hf
    simp only [Bool.and_eq_true, beq_iff_eq] at hp
    simp only [Option.map_some, Option.some.injEq] at h
    obtain ⟨e1, e2, e3⟩ := e
    simp only at hp h
    rw [← hp.1, ← hp.2, ← h]; exact hm

theorem mem_weights (s : DiGraph) (hn : (s.edges.map (fun e => (e.1, e.2.1))).Nodup) (a b c : Nat)
    (h : (a, b, c) ∈ s.edges) : weights s a b = some c := by
  unfold weights
  generalize s.edges = l at hn h
  induction l with
  | nil => cases h
  | cons e l ih =>
    simp only [List.map_cons, List.nodup_cons] at hn
    rw [List.find?_cons]
    by_cases he : e.1 = a ∧ e.2.1 = b
    · have : (e.1 == a && e.2.1 == b) = true := by simp [he.1, he.2]
      rw [this]
      rcases List.mem_cons.1 h with h | h
      · rw [← h]; rfl
      · exfalso; apply hn.1
        exact List.mem_map.2 ⟨(a, b, c), h, by simp [he.1, he.2]⟩
    · have hb : (e.1 == a && e.2.1 == b) = false := by simpa using he
      rw [hb]
      rcases List.mem_cons.1 h with h | h
      · exfalso; apply he; rw [← h]; exact ⟨rfl, rfl⟩
      · exact ih hn.2 h

theorem lt_bound (s : DiGraph) (i : Nat) (h : s.live i = true) : i < bound s := by
  unfold live at h; unfold bound
  generalize s.nodes = l at h
  induction l with
  | nil => simp at h
  | cons e l ih =>
    simp only [List.any_cons, Bool.or_eq_true, beq_iff_eq] at h
    simp only [List.foldr_cons]
    rcases h with h | h
    · omega
    · have := ih h; omega

/-! ## walks and paths -/

theorem walk_first (w : Wt) {u v : Nat} {is : List Nat} {c : Nat} (h : Walk w u v is c) : ∃ y c', w u y = some c' := by
  cases h with
  | edge he => exact ⟨_, _, he⟩
  | cons he _ => exact ⟨_, _, he⟩

theorem walk_inter (w : Wt) {u v : Nat} {is : List Nat} {c : Nat} (h : Walk w u v is c) :
    ∀ x ∈ is, ∃ y c', w x y = some c' := by
  induction h with
  | edge _ => intro x hx; cases hx
  | cons _ hr ih =>
    intro x hx
    rcases List.mem_cons.1 hx with rfl | hx
    · exact walk_first w hr
    · exact ih x hx

theorem walk_path (s : DiGraph) {u v : Nat} {is : List Nat} {c : Nat} (h : Walk (weights s) u v is c) :
    Path s u v (u :: (is ++ [v])) c := by
  induction h with
  | edge he => exact Path.cons (weights_some_mem s _ _ _ he) (Path.single _)
  | cons he _ ih => exact Path.cons (weights_some_mem s _ _ _ he) ih

theorem path_walk (s : DiGraph) (hn : (s.edges.map (fun e => (e.1, e.2.1))).Nodup) {u b : Nat} {p : List Nat} {c : Nat}
    (h : Path s u b p c) : (p = [u] ∧ u = b ∧ c = 0) ∨ ∃ is, p = u :: (is ++ [b]) ∧ Walk (weights s) u b is c := by
  induction h with
  | single a => exact Or.inl ⟨rfl, rfl, rfl⟩
  | @cons u v b p c c' he _ ih =>
    have hw := mem_weights s hn _ _ _ he
    right
    rcases ih with ⟨hp, hvb, hc⟩ | ⟨is, hp, hwalk⟩
    · subst hp; subst hvb; subst hc
      exact ⟨[], rfl, Walk.edge hw⟩
    · subst hp
      exact ⟨v :: is, rfl, Walk.cons hw hwalk⟩

theorem pathWeight_path (s : DiGraph) : ∀ (p : List Nat) (a c : Nat), p.head? = some a →
    pathWeight (weights s) p = some c → ∃ b, p.getLast? = some b ∧ Path s a b p c := by
  intro p
  induction p with
  | nil => intro a c h; cases h
  | cons x rest ih =>
    intro a c hh hw
    have hxa : x = a := by simpa using hh
    subst hxa
    cases rest with
    | nil =>
      have : c = 0 := by simpa [pathWeight] using hw.symm
      subst this
      exact ⟨x, rfl, Path.single x⟩
    | cons y rest =>
      simp only [pathWeight] at hw
      cases h1 : weights s x y with
      | none => rw [h1] at hw; cases hw
      | some c1 =>
        cases h2 : pathWeight (weights s) (y :: rest) with
        | none => rw [h1, h2] at hw; cases hw
        | some c2 =>
          rw [h1, h2] at hw
          have : c = c1 + c2 := by simpa [oadd] using hw.symm
          subst this
          obtain ⟨b, hb, hp⟩ := ih y c2 rfl h2
          exact ⟨b, by rw [List.getLast?_cons_cons]; exact hb, Path.cons (weights_some_mem s _ _ _ h1) hp⟩

theorem path_pathWeight (s : DiGraph) (hn : (s.edges.map (fun e => (e.1, e.2.1))).Nodup) {a b : Nat} {p : List Nat}
    {c : Nat} (h : Path s a b p c) :
    p.head? = some a ∧ p.getLast? = some b ∧ pathWeight (weights s) p = some c := by
  induction h with
  | single a => exact ⟨rfl, rfl, rfl⟩
  | @cons u v b p c c' he _ ih =>
    obtain ⟨hh, hl, hw⟩ := ih
    cases p with
    | nil => cases hh
    | cons y rest =>
      have : y = v := by simpa using hh
      subst this
      refine ⟨rfl, by rw [List.getLast?_cons_cons]; exact hl, ?_⟩
      simp only [pathWeight, mem_weights s hn _ _ _ he, hw, oadd]

/-- `checkPath` accepts exactly the real paths, with their weight -/
theorem checkPath_iff (s : DiGraph) (hn : (s.edges.map (fun e => (e.1, e.2.1))).Nodup) (a b : Nat) (p : List Nat) (c : Nat) :
    checkPath s a b p = some c ↔ Path s a b p c := by
  unfold checkPath
  constructor
  · intro h
    split at h
    · rename_i hc
      obtain ⟨b', hb', hp⟩ := pathWeight_path s p a c hc.1 h
      have : b' = b := by rw [hc.2] at hb'; exact (Option.some.inj hb').symm
      subst this; exact hp
    · cases h
  · intro h
    obtain ⟨h1, h2, h3⟩ := path_pathWeight s hn h
    rw [if_pos ⟨h1, h2⟩, h3]

/-- **the distance oracle is correct**: for live end points `minDist` is the least weight of a real path, and
`none` exactly when there is no path at all -/
theorem minDist_correct (s : DiGraph) (h : Spec.DiGraph.WF s) (a b : Nat) (ha : s.live a = true) (hb : s.live b = true) :
    (∀ d, minDist s a b = some d → (∃ p, Path s a b p d) ∧ ∀ q c, Path s a b q c → d ≤ c) ∧
    (minDist s a b = none → ∀ q c, ¬ Path s a b q c) := by
  unfold minDist minDistWith
  by_cases hab : a = b
  · subst hab
    rw [if_pos rfl]
    refine ⟨?_, fun h => by cases h⟩
    intro d hd
    have : d = 0 := by simpa using hd.symm
    subst this
    exact ⟨⟨[a], Path.single a⟩, fun _ _ _ => Nat.zero_le _⟩
  · rw [if_neg hab]
    have han := lt_bound s a ha
    have hbn := lt_bound s b hb
    unfold distMat
    rw [fwMat_eq _ _ _ (Nat.le_refl _) a b han hbn]
    obtain ⟨hsome, hnone⟩ := fw_correct (weights s) (bound s) a b
    have hinter : ∀ {is : List Nat} {c : Nat}, Walk (weights s) a b is c → ∀ x, x ∈ is → x < bound s := by
      intro is c hw x hx
      obtain ⟨y, c', hxy⟩ := walk_inter _ hw x hx
      exact lt_bound s x (h.edgesLive _ (weights_some_mem s _ _ _ hxy)).1
    have hwalk : ∀ q c, Path s a b q c → ∃ is, Walk (weights s) a b is c := by
      intro q c hq
      rcases path_walk s h.edgesNodup hq with ⟨_, hab', _⟩ | ⟨is, _, hw⟩
      · exact absurd hab' hab
      · exact ⟨is, hw⟩
    refine ⟨?_, ?_⟩
    · intro d hd
      obtain ⟨⟨is, hw⟩, hmin⟩ := hsome d hd
      refine ⟨⟨_, walk_path s hw⟩, ?_⟩
      intro q c hq
      obtain ⟨is', hw'⟩ := hwalk q c hq
      exact hmin is' c hw' (hinter hw')
    · intro hn q c hq
      obtain ⟨is', hw'⟩ := hwalk q c hq
      exact hnone hn is' c hw' (hinter hw')

end Spec.ShortestPath
