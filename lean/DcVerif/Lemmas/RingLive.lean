import DcVerif.Lemmas.Ring
import DcVerif.Lemmas.FairTermination
import DcVerif.Model.RingLabel
/-!
# Liveness of the single-producer pipeline (`Model/Ring.lean`)

Part 1 (spin strategy, `namespace Spin`): instantiation of `Fair.fair_termination` — every weakly fair schedule drives
the pipeline to the state in which the producer has returned from every `write`, from `drain` and from `Drop`, and every
handler thread has left its loop (`Spin.ring_terminates`; `Spin.exists_ready` = no deadlock).

Part 2 (both strategies, every schedule): bookkeeping of the `write` calls (`WInv`), the mutex / wake-up invariants
of the blocking strategy — `MInv` (ownership and mutual exclusion, mode consistency, `is_done`), `NInv` (no lost
wake-up: a handler that is parked, or under the mutex on its way to park, although its wait is over, implies a thread
between its store and its `notify_all`), `BInv`, `reachable_binv`, `no_lost_wakeup`, `exists_enabled`, stability of the
wait conditions.

Part 3 (blocking strategy, `namespace Blk`): instantiation of `Fair.fair_termination_sf` — measure
`μ = (2·#handlers + 1)·remaining work + outstanding wake-ups`, readiness `ready`, ranks, "the owner of the mutex
releases it after `hrank` own steps", `Blk.exists_ready` (no deadlock in the strong sense), `Blk.ring_terminates`;
`Blk.strongFair_of_lockFair` reduces strong fairness of all steps to weak fairness + strong fairness of lock steps.
-/
namespace Ring

/-! ## wait conditions -/

/-- the wait condition of a handler: every dependency has passed its cursor -/
def condC (s : St) (k : Nat) (c : Cons) : Prop := ∀ d, d < ndeps s k → c.cur + 1 ≤ dep s k d

/-- gate condition of the producer for the batch ending at `stop` -/
def condG (s : St) (stop : Nat) : Prop := ∀ d, d < ngate s → stop ≤ gate s d + s.n
/-- drain condition -/
def condD (s : St) (nw : Nat) : Prop := ∀ d, d < ngate s → nw - 1 ≤ gate s d

/-- the run is over: the producer has returned from `drain` and `Drop`, every handler thread has left its loop -/
def terminal (x : PSt) : Prop :=
  x.p.pc = .done ∧ ∀ k j, k < x.s.K → j < x.s.h k → (x.s.cons k j).pc = .done

/-- the threads of the topology -/
def inTopo (K : Nat) (h : Nat → Nat) : Tid → Prop
  | .prod => True
  | .cons k j => k < K ∧ j < h k

/-- all handler cursors equal the producer cursor once every handler's wait condition is false -/
theorem all_caught_up (s : St) (hI : Inv s)
    (hw : ∀ k j, k < s.K → j < s.h k → ¬ condC s k (s.cons k j)) :
    ∀ k j, k < s.K → j < s.h k → (s.cons k j).cur = s.cursor := by
  intro k
  induction k with
  | zero =>
    intro j hk hj
    have h1 := chain_up s hI 0 j hk hj
    have h2 := hw 0 j hk hj
    simp only [condC, ndeps, dep] at h2
    apply Classical.byContradiction; intro hne
    apply h2; intro d hd; simp; omega
  | succ k ih =>
    intro j hk hj
    have h1 := chain_up s hI (k+1) j hk hj
    have h2 := hw (k+1) j hk hj
    apply Classical.byContradiction; intro hne
    apply h2; intro d hd
    have hd' : d < s.h k := by simpa [ndeps] using hd
    have := ih d (by omega) hd'
    simp [dep, this]; omega

/-! ## the remaining-work measure (shared by both strategies) -/

def sumTo : Nat → (Nat → Nat) → Nat
  | 0, _ => 0
  | n+1, f => sumTo n f + f n

theorem sumTo_le (n : Nat) (f g : Nat → Nat) (h : ∀ i, i < n → f i ≤ g i) : sumTo n f ≤ sumTo n g := by
  induction n with
  | zero => simp [sumTo]
  | succ n ih =>
    simp only [sumTo]
    have := ih (fun i hi => h i (by omega)); have := h n (by omega); omega

theorem sumTo_lt (n : Nat) (f g : Nat → Nat) (h : ∀ i, i < n → f i ≤ g i) (i : Nat) (hi : i < n) (hs : f i < g i) :
    sumTo n f < sumTo n g := by
  induction n with
  | zero => omega
  | succ n ih =>
    simp only [sumTo]
    by_cases hin : i = n
    · subst hin
      have := sumTo_le i f g (fun a ha => h a (by omega)); omega
    · have := ih (fun a ha => h a (by omega)) (by omega); have := h n (by omega); omega

/-- the final value of the producer cursor (constant along every run) -/
def fin (x : PSt) : Nat :=
  match x.p.pc with
  | .gateCheck | .gateLoad | .write | .publish => x.p.stop + x.p.todo.sum
  | _ => x.p.nextWrite + x.p.todo.sum - 1

theorem fin_prod (x : PSt) (h : PInvAll x) : fin (stepProd x) = fin x := by
  obtain ⟨hI, hK, hP, hbb⟩ := h
  obtain ⟨q1, q2, q3, q4, q5, q6, q6c, q7, q8, q9, q10, q11, q12⟩ := hP
  cases hpc : x.p.pc
  case start =>
    cases htodo : x.p.todo with
    | nil => simp [fin, stepProd, hpc, htodo]
    | cons b rest =>
      have := hbb b (by simp [htodo])
      simp [fin, stepProd, hpc, htodo]; omega
  all_goals (simp only [fin, stepProd, hpc] <;> (try split) <;> (try split) <;> grind)

theorem fin_step (x : PSt) (t : Tid) (h : PInvAll x) : fin (stepX x t) = fin x := by
  cases t with
  | prod => exact fin_prod x h
  | cons k j => simp only [stepX]; split <;> rfl

theorem cursor_le_fin (x : PSt) (h : PInvAll x) : x.s.cursor ≤ fin x := by
  obtain ⟨hI, hK, hP, hbb⟩ := h
  obtain ⟨q1, q2, q3, q4, q5, q6, q6c, q7, q8, q9, q10, q11, q12⟩ := hP
  cases hpc : x.p.pc <;> simp only [fin, hpc] <;> simp only [hpc, PPc.idle] at q6 <;> grind

/-- remaining work of handler `(k,j)`: events still to consume, plus one for leaving the loop -/
def wC (x : PSt) (k j : Nat) : Nat :=
  (fin x - (x.s.cons k j).cur) + (if (x.s.cons k j).pc = .done then 0 else 1)

def μC (x : PSt) : Nat := sumTo x.s.K (fun k => sumTo (x.s.h k) (fun j => wC x k j))

def xC (x : PSt) (k j : Nat) : PSt := { x with s := stepC x.s k j }

theorem fin_xC (x : PSt) (k j : Nat) : fin (xC x k j) = fin x := rfl

theorem wC_other (x : PSt) (k j k' j' : Nat) (h : ¬(k' = k ∧ j' = j)) : wC (xC x k j) k' j' = wC x k' j' := by
  simp [wC, xC, stepC, upd, h, fin]

theorem wC_own_le (x : PSt) (k j : Nat) (hk : k < x.s.K) (hj : j < x.s.h k) (h : PInvAll x) :
    wC (xC x k j) k j ≤ wC x k j := by
  have hci := h.1.2 k j hk hj
  have hm := cur_mono x.s k j _ hci
  have e : (xC x k j).s.cons k j = stepCons x.s k j (x.s.cons k j) := by simp [xC, stepC, upd]
  simp only [wC, fin_xC, e]
  have hd : (x.s.cons k j).pc = .done → (stepCons x.s k j (x.s.cons k j)).pc = .done := by
    intro hpc; simp [stepCons, hpc]
  by_cases hpc : (x.s.cons k j).pc = .done
  · simp [hpc, hd hpc]; omega
  · simp only [hpc, if_false]; split <;> omega

theorem μC_xC_le (x : PSt) (k j : Nat) (hk : k < x.s.K) (hj : j < x.s.h k) (h : PInvAll x) :
    μC (xC x k j) ≤ μC x := by
  apply sumTo_le
  intro a ha
  apply sumTo_le
  intro b hb
  by_cases he : a = k ∧ b = j
  · obtain ⟨rfl, rfl⟩ := he; exact wC_own_le x a b hk hj h
  · rw [wC_other x k j a b he]; exact Nat.le_refl _

theorem μC_xC_lt (x : PSt) (k j : Nat) (hk : k < x.s.K) (hj : j < x.s.h k) (h : PInvAll x)
    (hs : wC (xC x k j) k j < wC x k j) : μC (xC x k j) < μC x := by
  apply sumTo_lt _ _ _ _ k hk
  · apply sumTo_lt _ _ _ _ j hj hs
    intro b hb
    by_cases he : k = k ∧ b = j
    · obtain ⟨_, rfl⟩ := he; exact wC_own_le x k b hk hj h
    · rw [wC_other x k j k b he]; exact Nat.le_refl _
  · intro a ha
    apply sumTo_le
    intro b hb
    by_cases he : a = k ∧ b = j
    · obtain ⟨rfl, rfl⟩ := he; exact wC_own_le x a b hk hj h
    · rw [wC_other x k j a b he]; exact Nat.le_refl _

theorem wC_prod (x : PSt) (h : PInvAll x) (k j : Nat) : wC (stepProd x) k j = wC x k j := by
  obtain ⟨ec, _, _, _⟩ := cons_same_prod x
  simp [wC, ec, fin_prod x h]

theorem μC_prod (x : PSt) (h : PInvAll x) : μC (stepProd x) = μC x := by
  obtain ⟨ec, eK, eh, en, _⟩ := cons_same_prod x
  simp only [μC, eK, eh]
  congr 1; funext k; congr 1; funext j; exact wC_prod x h k j

/-- a handler's progress events: it publishes a larger cursor, or leaves its loop -/
def progressC (c c' : Cons) : Prop := c.cur < c'.cur ∨ (c.pc ≠ .done ∧ c'.pc = .done)

/-- a handler step that is not a progress event leaves its cursor unchanged -/
theorem cons_step_cur (s : St) (k j : Nat) (c : Cons) (hci : CInv s k c)
    (hnp : ¬ progressC c (stepCons s k j c)) : (stepCons s k j c).cur = c.cur := by
  have := cur_mono s k j c hci
  simp only [progressC, not_or] at hnp
  omega

theorem wC_progress (x : PSt) (k j : Nat) (hk : k < x.s.K) (hj : j < x.s.h k) (h : PInvAll x)
    (hp : progressC (x.s.cons k j) (stepCons x.s k j (x.s.cons k j))) : wC (xC x k j) k j < wC x k j := by
  have hci := h.1.2 k j hk hj
  have hm := cur_mono x.s k j _ hci
  have hx' := inv_stepX x (.cons k j) h
  simp only [stepX, hk, hj, and_self, if_true] at hx'
  have hcf := cursor_le_fin _ hx'
  have hup := chain_up (xC x k j).s hx'.1 k j hk hj
  have e : (xC x k j).s.cons k j = stepCons x.s k j (x.s.cons k j) := by simp [xC, stepC, upd]
  have ecur : (xC x k j).s.cursor = x.s.cursor := rfl
  rw [e] at hup
  change (stepCons x.s k j (x.s.cons k j)).cur ≤ (xC x k j).s.cursor at hup
  have hfin : fin (xC x k j) = fin x := rfl
  change (xC x k j).s.cursor ≤ fin (xC x k j) at hcf
  simp only [wC, fin_xC, e]
  rcases hp with hp | ⟨hp1, hp2⟩
  · have hd : (x.s.cons k j).pc ≠ .done := by
      intro hd; simp [stepCons, hd] at hp
    simp only [hd, if_false]
    split <;> omega
  · simp [hp1, hp2]; omega

theorem xC_cur_same (x : PSt) (k j : Nat) (hcur : (stepCons x.s k j (x.s.cons k j)).cur = (x.s.cons k j).cur)
    (a b : Nat) : ((xC x k j).s.cons a b).cur = (x.s.cons a b).cur := by
  by_cases he : a = k ∧ b = j
  · obtain ⟨rfl, rfl⟩ := he; simp [xC, stepC, upd, hcur]
  · simp [xC, stepC, upd, he]

theorem dep_xC (x : PSt) (k j : Nat) (hcur : (stepCons x.s k j (x.s.cons k j)).cur = (x.s.cons k j).cur)
    (a d : Nat) : dep (xC x k j).s a d = dep x.s a d := by
  unfold dep
  by_cases h0 : a = 0
  · simp [h0]; rfl
  · simp only [h0, if_false]; exact xC_cur_same x k j hcur (a-1) d

theorem gate_xC (x : PSt) (k j : Nat) (hcur : (stepCons x.s k j (x.s.cons k j)).cur = (x.s.cons k j).cur)
    (d : Nat) : gate (xC x k j).s d = gate x.s d := by
  unfold gate; exact xC_cur_same x k j hcur _ d

theorem dep_stepC_same_stage (s : St) (k j d : Nat) : dep (stepC s k j) k d = dep s k d := by
  unfold dep stepC upd
  by_cases h0 : k = 0
  · simp [h0]
  · have : ¬ (k - 1 = k ∧ d = j) := by omega
    simp [h0, this]

theorem condC_stepC (s : St) (k j : Nat) (c c' : Cons) (hcur : c'.cur = c.cur) :
    condC (stepC s k j) k c' ↔ condC s k c := by
  unfold condC
  have hn : ndeps (stepC s k j) k = ndeps s k := rfl
  simp only [hn, dep_stepC_same_stage, hcur]

/-- the stale-snapshot flag of a handler inside `get_min_cursor_sequence`: the running minimum is below `next` -/
def bad (c : Cons) : Bool := match c.acc with | some m => decide (m < c.next) | none => false

theorem bad_minOpt (c : Cons) (v : Nat) (hv : c.next ≤ v) (c' : Cons)
    (hacc : c'.acc = minOpt c.acc v) (hn : c'.next = c.next) : bad c' = bad c := by
  cases h : c.acc with
  | none => simp [bad, hacc, h, minOpt, hn]; omega
  | some m =>
    simp only [bad, hacc, h, minOpt, hn]
    by_cases hm : m < c.next
    · have : Nat.min m v < c.next := Nat.lt_of_le_of_lt (Nat.min_le_left _ _) hm
      simp [hm, this]
    · have : ¬ Nat.min m v < c.next := by
        intro hlt
        have h1 : Nat.min m v = m ∨ Nat.min m v = v := by
          rcases Nat.le_total m v with h | h
          · left; exact Nat.min_eq_left h
          · right; exact Nat.min_eq_right h
        rcases h1 with h1 | h1 <;> rw [h1] at hlt <;> omega
      simp [hm, this]

def badG (p : Prod) (n : Nat) : Bool := match p.acc with | some m => decide (m + n < p.stop) | none => false
def badD (p : Prod) : Bool := match p.acc with | some m => decide (m < p.nextWrite - 1) | none => false

theorem badG_minOpt (p p' : Prod) (n v : Nat) (hv : p.stop ≤ v + n)
    (hacc : p'.acc = minOpt p.acc v) (hs : p'.stop = p.stop) : badG p' n = badG p n := by
  cases h : p.acc with
  | none => simp [badG, hacc, h, minOpt, hs]; omega
  | some m =>
    simp only [badG, hacc, h, minOpt, hs]
    have h1 : Nat.min m v = m ∨ Nat.min m v = v := by
      rcases Nat.le_total m v with h | h
      · left; exact Nat.min_eq_left h
      · right; exact Nat.min_eq_right h
    have h2 : Nat.min m v ≤ m := Nat.min_le_left _ _
    by_cases hm : m + n < p.stop
    · have : Nat.min m v + n < p.stop := by omega
      simp [hm, this]
    · have : ¬ Nat.min m v + n < p.stop := by rcases h1 with h1 | h1 <;> rw [h1] <;> omega
      simp [hm, this]

theorem badD_minOpt (p p' : Prod) (v : Nat) (hv : p.nextWrite - 1 ≤ v)
    (hacc : p'.acc = minOpt p.acc v) (hs : p'.nextWrite = p.nextWrite) : badD p' = badD p := by
  cases h : p.acc with
  | none => simp [badD, hacc, h, minOpt, hs]; omega
  | some m =>
    simp only [badD, hacc, h, minOpt, hs]
    have h1 : Nat.min m v = m ∨ Nat.min m v = v := by
      rcases Nat.le_total m v with h | h
      · left; exact Nat.min_eq_left h
      · right; exact Nat.min_eq_right h
    have h2 : Nat.min m v ≤ m := Nat.min_le_left _ _
    by_cases hm : m < p.nextWrite - 1
    · have : Nat.min m v < p.nextWrite - 1 := by omega
      simp [hm, this]
    · have : ¬ Nat.min m v < p.nextWrite - 1 := by rcases h1 with h1 | h1 <;> rw [h1] <;> omega
      simp [hm, this]

/-! ## Part 1 — the spin strategy -/

namespace Spin

def cSpin : CPc → Bool
  | .readOwn | .waitLoad | .checkAvail | .checkAlert | .handle | .publish | .done => true
  | _ => false

def pSpin : PPc → Bool
  | .start | .gateCheck | .gateLoad | .write | .publish | .drainInit | .drainLoad | .drainCheck | .setDone
  | .dropDone | .done => true
  | _ => false

def readyC (s : St) (k : Nat) (c : Cons) : Prop :=
  match c.pc with
  | .handle | .publish => True
  | .readOwn | .waitLoad | .checkAvail | .checkAlert => condC s k c ∨ s.isDone = true
  | _ => False

def readyP (x : PSt) : Prop :=
  match x.p.pc with
  | .gateCheck | .gateLoad => condG x.s x.p.stop
  | .drainLoad | .drainCheck => condD x.s x.p.nextWrite
  | .start | .drainInit | .write | .publish | .setDone | .dropDone => True
  | _ => False

def ready (x : PSt) : Tid → Prop
  | .prod => readyP x
  | .cons k j => k < x.s.K ∧ j < x.s.h k ∧ readyC x.s k (x.s.cons k j)

/-- extra invariant needed for liveness: spin strategy, batches fit the ring, `isDone` only once `drain` is over -/
structure LInv (x : PSt) : Prop where
  base   : PInvAll x
  spin   : x.s.blocking = false
  pPc    : pSpin x.p.pc = true
  cPc    : ∀ k j, k < x.s.K → j < x.s.h k → cSpin (x.s.cons k j).pc = true
  fit    : ∀ b, b ∈ x.p.todo → b ≤ x.s.n
  fitCur : (x.p.pc = .gateCheck ∨ x.p.pc = .gateLoad) → x.p.stop + 1 ≤ x.p.start + x.s.n
  doneIff: x.s.isDone = true ↔ (x.p.pc = .dropDone ∨ x.p.pc = .done)
  consDone : ∀ k j, k < x.s.K → j < x.s.h k → (x.s.cons k j).pc = .done → x.s.isDone = true

/-- **no deadlock** (spin): in every non-terminal state satisfying the invariant some thread is ready -/
theorem exists_ready (x : PSt) (h : LInv x) (hnt : ¬ terminal x) : ∃ t, inTopo x.s.K x.s.h t ∧ ready x t := by
  obtain ⟨⟨hI, hK, hP, hb⟩, hspin, hpp, hcp, hfit, hfc, hdone, hcd⟩ := h
  apply Classical.byContradiction; intro hno
  have hnoP : ¬ readyP x := fun hr => hno ⟨.prod, trivial, hr⟩
  have hnoC : ∀ k j, k < x.s.K → j < x.s.h k → ¬ readyC x.s k (x.s.cons k j) :=
    fun k j hk hj hr => hno ⟨.cons k j, ⟨hk, hj⟩, hk, hj, hr⟩
  by_cases hpd : x.p.pc = .done
  · apply hnt; refine ⟨hpd, fun k j hk hj => ?_⟩
    have := hnoC k j hk hj
    have hd : x.s.isDone = true := hdone.2 (Or.inr hpd)
    have hsp := hcp k j hk hj
    cases hpc : (x.s.cons k j).pc <;> simp [readyC, hpc, hd, cSpin] at this hsp ⊢
  · by_cases hpd' : x.p.pc = .dropDone
    · exact hnoP (by simp [readyP, hpd'])
    have hnd : x.s.isDone ≠ true := fun hd => by rcases hdone.1 hd with h | h <;> contradiction
    have hw : ∀ k j, k < x.s.K → j < x.s.h k → ¬ condC x.s k (x.s.cons k j) := by
      intro k j hk hj hc
      have := hnoC k j hk hj
      have hsp := hcp k j hk hj
      cases hpc : (x.s.cons k j).pc <;> simp [readyC, hpc, hc, hnd, cSpin] at this hsp
      · exact hnd (hcd k j hk hj hpc)
    have hall := all_caught_up x.s hI hw
    have hg : ∀ d, d < ngate x.s → gate x.s d = x.s.cursor := by
      intro d hd; exact hall (x.s.K - 1) d (by omega) (by simpa [ngate] using hd)
    apply hnoP
    cases hpc : x.p.pc <;> simp only [readyP, hpc] <;> simp only [hpc, pSpin] at hpp <;> try contradiction
    · -- gateCheck
      intro d hd; rw [hg d hd]
      have h1 := hP.claim (by simp [hpc]); have h2 := hfc (by simp [hpc]); omega
    · intro d hd; rw [hg d hd]
      have h1 := hP.claim (by simp [hpc]); have h2 := hfc (by simp [hpc]); omega
    · intro d hd; rw [hg d hd]; have := hP.nw (by simp [hpc, PPc.idle]); omega
    · intro d hd; rw [hg d hd]; have := hP.nw (by simp [hpc, PPc.idle]); omega

theorem linv_step (x : PSt) (t : Tid) (h : LInv x) : LInv (stepX x t) := by
  obtain ⟨hb, hspin, hpp, hcp, hfit, hfc, hdone, hcd⟩ := h
  have hb' := inv_stepX x t hb
  cases t with
  | prod =>
    show LInv (stepProd x)
    obtain ⟨ec, eK, eh, en, ebl⟩ := cons_same_prod x
    obtain ⟨hI, hK, hP, hbb⟩ := hb
    refine ⟨hb', by rw [ebl]; exact hspin, ?_, ?_, ?_, ?_, ?_, ?_⟩
    · cases hpc : x.p.pc <;> simp only [hpc, pSpin] at hpp <;> try contradiction
      all_goals (simp only [stepProd, hpc, hspin, Bool.false_eq_true, ↓reduceIte] <;> (try split) <;> (try split) <;> simp [pSpin])
    · rw [ec, eK, eh]; exact hcp
    · cases hpc : x.p.pc <;> simp only [stepProd, hpc] <;> (try split) <;> (try split) <;> grind
    · cases hpc : x.p.pc
      case start =>
        cases htodo : x.p.todo with
        | nil => simp [stepProd, hpc, htodo]
        | cons b rest =>
          have h1 := hfit b (by simp [htodo]); have h2 := hbb b (by simp [htodo])
          simp [stepProd, hpc, htodo]; omega
      all_goals (simp only [stepProd, hpc] <;> (try split) <;> (try split) <;> grind)
    · cases hpc : x.p.pc <;> simp only [hpc, pSpin] at hpp <;> try contradiction
      all_goals (simp only [stepProd, hpc, hspin, Bool.false_eq_true, ↓reduceIte] <;> (try split) <;> (try split) <;> grind)
    · intro k j hk hj hpd
      rw [ec] at hpd; rw [eK] at hk; rw [eh] at hj
      have := hcd k j hk hj hpd
      cases hpc : x.p.pc <;> simp only [stepProd, hpc] <;> (try split) <;> (try split) <;> grind
  | cons k j =>
    show LInv (if k < x.s.K ∧ j < x.s.h k then { x with s := stepC x.s k j } else x)
    split
    · rename_i hv
      refine ⟨by simpa [stepX, hv] using hb', hspin, hpp, ?_, hfit, hfc, hdone, ?_⟩
      · intro k' j' hk' hj'
        by_cases he : k' = k ∧ j' = j
        · obtain ⟨rfl, rfl⟩ := he
          have e : (stepC x.s k' j').cons k' j' = stepCons x.s k' j' (x.s.cons k' j') := by simp [stepC, upd]
          show cSpin ((stepC x.s k' j').cons k' j').pc = true
          rw [e]
          have := hcp k' j' hv.1 hv.2
          cases hpc : (x.s.cons k' j').pc <;> simp only [hpc, cSpin] at this <;> try contradiction
          all_goals (simp only [stepCons, hpc, hspin, Bool.false_eq_true, ↓reduceIte] <;> (try split) <;> (try split) <;> simp [cSpin])
        · have : (stepC x.s k j).cons k' j' = x.s.cons k' j' := by simp [stepC, upd, he]
          show cSpin ((stepC x.s k j).cons k' j').pc = true
          rw [this]; exact hcp k' j' hk' hj'
      · intro k' j' hk' hj' hpd
        by_cases he : k' = k ∧ j' = j
        · obtain ⟨rfl, rfl⟩ := he
          simp only [stepC, upd, and_self, if_true] at hpd
          show x.s.isDone = true
          have := hcp k' j' hv.1 hv.2
          cases hpc : (x.s.cons k' j').pc <;> simp only [hpc, cSpin] at this <;> try contradiction
          all_goals (simp only [stepCons, hpc, hspin, Bool.false_eq_true, ↓reduceIte] at hpd <;> (try split at hpd) <;>
            first | assumption | (exact hcd k' j' hv.1 hv.2 hpc) | (simp at hpd))
        · have : (stepC x.s k j).cons k' j' = x.s.cons k' j' := by simp [stepC, upd, he]
          rw [this] at hpd
          exact hcd k' j' hk' hj' hpd
    · exact ⟨hb, hspin, hpp, hcp, hfit, hfc, hdone, hcd⟩
/-! ### the global measure -/

def phaseP : PPc → Nat
  | .gateCheck | .gateLoad | .write | .publish => 6
  | .start => 5 | .drainInit => 4 | .drainLoad | .drainCheck => 3 | .setDone => 2 | .dropDone => 1
  | _ => 0

def μP (x : PSt) : Nat := (fin x - x.s.cursor) + 3 * x.p.todo.length + phaseP x.p.pc

def μ (x : PSt) : Nat := μC x + μP x

theorem μP_xC (x : PSt) (k j : Nat) : μP (xC x k j) = μP x := rfl

theorem μP_prod_le (x : PSt) (h : LInv x) : μP (stepProd x) ≤ μP x := by
  have hf := fin_prod x h.base
  have hcf := cursor_le_fin x h.base
  obtain ⟨⟨hI, hK, hP, hbb⟩, hspin, hpp, hcp, hfit, hfc, hdone, hcd⟩ := h
  obtain ⟨q1, q2, q3, q4, q5, q6, q6c, q7, q8, q9, q10, q11, q12⟩ := hP
  simp only [μP, hf]
  cases hpc : x.p.pc <;> simp only [hpc, pSpin] at hpp <;> try contradiction
  case start =>
    cases htodo : x.p.todo with
    | nil => simp [stepProd, hpc, htodo, phaseP]
    | cons b rest => simp [stepProd, hpc, htodo, phaseP]; omega
  all_goals (simp only [stepProd, hpc, hspin, Bool.false_eq_true, ↓reduceIte] <;> (try split) <;> simp [phaseP] <;> grind)

theorem μ_mono (x : PSt) (t : Tid) (h : LInv x) : μ (stepX x t) ≤ μ x := by
  cases t with
  | prod =>
    show μ (stepProd x) ≤ μ x
    simp only [μ, μC_prod x h.base]; have := μP_prod_le x h; omega
  | cons k j =>
    simp only [stepX]
    split
    · rename_i hv
      show μ (xC x k j) ≤ μ x
      simp only [μ, μP_xC]; have := μC_xC_le x k j hv.1 hv.2 h.base; omega
    · exact Nat.le_refl _

/-! ### per-thread ranks: handlers -/

/-- upper bound on the number of own steps until the handler's next progress event
    (`nd` dependencies, `cb` = wait condition holds) -/
def rankC (nd : Nat) (cb : Bool) (cursor : Nat) (isDone : Bool) (c : Cons) : Nat :=
  match c.pc with
  | .readOwn => if cb then 1 + (nd + 1 + (cursor - c.cur + 4)) else nd + 4
  | .waitLoad =>
      if cb then
        (if bad c then (nd - c.idx) + 3 + (nd + 1 + (cursor - c.cur + 4))
         else (nd - c.idx) + 1 + (cursor - c.cur + 4))
      else (nd - c.idx) + 3
  | .checkAvail =>
      if c.next ≤ c.avail then c.avail - c.next + 4
      else if cb then 2 + (nd + 1 + (cursor - c.cur + 4)) else 2
  | .checkAlert => if isDone then 1 else 1 + (nd + 1 + (cursor - c.cur + 4))
  | .handle => c.avail + 3 - c.i
  | .publish => 1
  | _ => 0

/-- readiness with the wait condition abstracted to a Boolean -/
def readyCb (cb : Bool) (isDone : Bool) (c : Cons) : Prop :=
  match c.pc with
  | .handle | .publish => True
  | .readOwn | .waitLoad | .checkAvail | .checkAlert => cb = true ∨ isDone = true
  | _ => False

theorem rankC_wait (nd : Nat) (cb : Bool) (cursor : Nat) (isDone : Bool) (c : Cons) (h : c.pc = .waitLoad) :
    rankC nd cb cursor isDone c =
      if cb then (if bad c then (nd - c.idx) + 3 + (nd + 1 + (cursor - c.cur + 4))
                  else (nd - c.idx) + 1 + (cursor - c.cur + 4))
      else (nd - c.idx) + 3 := by
  simp [rankC, h]

theorem own_rank_cons (s : St) (k j : Nat) (c : Cons) (cb : Bool) (hspin : s.blocking = false)
    (hci : CInv s k c) (hpos : 0 < ndeps s k)
    (hcb : cb = true ↔ condC s k c)
    (hdepc : ∀ d, d < ndeps s k → dep s k d ≤ s.cursor)
    (hr : readyCb cb s.isDone c) :
    progressC c (stepCons s k j c) ∨
      (rankC (ndeps s k) cb s.cursor s.isDone (stepCons s k j c) < rankC (ndeps s k) cb s.cursor s.isDone c ∧
       readyCb cb s.isDone (stepCons s k j c)) := by
  obtain ⟨h1, h2, h3, h4, h5, h6, h7, h8, h9, h10, h11, h12, h13⟩ := hci
  cases hpc : c.pc <;> simp only [readyCb, hpc] at hr <;> try contradiction
  case readOwn =>
    right
    have e : stepCons s k j c = { c with next := c.cur + 1, pc := .waitLoad, acc := none, idx := 0 } := by
      simp [stepCons, hpc, hspin]
    rw [e]
    refine ⟨?_, by simpa [readyCb] using hr⟩
    rw [rankC_wait _ _ _ _ _ rfl]
    simp only [rankC, hpc, bad]
    cases cb <;> simp <;> omega
  case waitLoad =>
    have hnx := h8 (by simp [hpc])
    by_cases hlt : c.idx < ndeps s k
    · right
      have e : stepCons s k j c = { c with acc := minOpt c.acc (dep s k c.idx), idx := c.idx + 1 } := by
        simp [stepCons, hpc, hlt]
      rw [e]
      refine ⟨?_, by simpa [readyCb, hpc] using hr⟩
      rw [rankC_wait _ _ _ _ _ (by simpa using hpc), rankC_wait _ _ _ _ _ hpc]
      cases hcbv : cb
      · simp; omega
      · have hv : c.next ≤ dep s k c.idx := by have := (hcb.1 hcbv) c.idx hlt; omega
        have hbad := bad_minOpt c (dep s k c.idx) hv
          { c with acc := minOpt c.acc (dep s k c.idx), idx := c.idx + 1 } rfl rfl
        simp only [hbad, if_true]
        cases bad c <;> simp <;> omega
    · have hidx : c.idx = ndeps s k := by have := h2 hpc; omega
      have hsome := h5 hpc (by omega)
      cases hacc : c.acc with
      | none => simp [hacc] at hsome
      | some m =>
        right
        have hmle : ∀ d, d < ndeps s k → m ≤ dep s k d := fun d hd => h4 hpc m hacc d (by omega)
        have hmc : m ≤ s.cursor := Nat.le_trans (hmle 0 hpos) (hdepc 0 hpos)
        have e : stepCons s k j c = { c with avail := m, pc := .checkAvail } := by
          simp [stepCons, hpc, hlt, hacc]
        rw [e]
        refine ⟨?_, by simpa [readyCb] using hr⟩
        rw [rankC_wait _ _ _ _ _ hpc]
        simp only [rankC, bad, hacc]
        cases hcbv : cb
        · have hmlt : ¬ c.next ≤ m := by
            intro hge
            have : condC s k c := fun d hd => by have := hmle d hd; omega
            have := hcb.2 this; simp [hcbv] at this
          simp [hmlt]
        · by_cases hm : m < c.next
          · have : ¬ c.next ≤ m := by omega
            simp [hm, this]
          · have : c.next ≤ m := by omega
            simp [hm, this]; omega
  case checkAvail =>
    right
    have hnx := h8 (by simp [hpc])
    by_cases hge : c.avail ≥ c.next
    · have e : stepCons s k j c = { c with pc := .handle, i := c.next } := by simp [stepCons, hpc, hge, hspin]
      rw [e]
      have : c.next ≤ c.avail := hge
      refine ⟨?_, by simp [readyCb]⟩
      simp only [rankC, hpc, this, if_true]; omega
    · have e : stepCons s k j c = { c with pc := .checkAlert } := by simp [stepCons, hpc, hge, hspin]
      rw [e]
      have : ¬ c.next ≤ c.avail := hge
      refine ⟨?_, by simpa [readyCb] using hr⟩
      simp only [rankC, hpc, this, if_false]
      rcases hr with h | h
      · cases hd : s.isDone <;> simp [h] <;> omega
      · cases cb <;> simp [h] <;> omega
  case checkAlert =>
    by_cases hd : s.isDone = true
    · left; right; simp [stepCons, hpc, hd]
    · right
      have hd' : s.isDone = false := by cases h : s.isDone <;> simp_all
      have hcbv : cb = true := by simpa [hd'] using hr
      have e : stepCons s k j c = { c with pc := .waitLoad, acc := none, idx := 0 } := by
        simp [stepCons, hpc, hd']
      rw [e]
      refine ⟨?_, by simp [readyCb, hcbv]⟩
      rw [rankC_wait _ _ _ _ _ rfl]
      simp [rankC, hpc, hd', hcbv, bad]
  case handle =>
    right
    by_cases hle : c.i ≤ c.avail
    · have e : stepCons s k j c = { c with log := c.log ++ [c.i], i := c.i + 1 } := by simp [stepCons, hpc, hle]
      rw [e]
      refine ⟨?_, by simp [readyCb, hpc]⟩
      simp only [rankC, hpc]; omega
    · have e : stepCons s k j c = { c with pc := .publish } := by simp [stepCons, hpc, hle]
      rw [e]
      have := h10 hpc
      refine ⟨?_, by simp [readyCb]⟩
      simp only [rankC, hpc]; omega
  case publish =>
    left; left
    have := h7 (by simp [hpc])
    simp [stepCons, hpc]; omega

/-! ### per-thread ranks: the producer -/

/-- `A` = rank of a gate check that will succeed -/
def rankP (ng n : Nat) (p : Prod) : Nat :=
  let A := 1 + (p.stop + 2 - p.start)
  match p.pc with
  | .gateCheck => if p.min + n < p.stop then 1 + ((ng + 1) + A) else A
  | .gateLoad => if badG p n then (ng - p.idx) + 1 + (1 + ((ng + 1) + A)) else (ng - p.idx) + 1 + A
  | .write => p.stop + 2 - p.w
  | .drainLoad => if badD p then (ng - p.idx) + 1 + (1 + ((ng + 1) + 1)) else (ng - p.idx) + 1 + 1
  | .drainCheck => if p.min < p.nextWrite - 1 then 1 + ((ng + 1) + 1) else 1
  | _ => 0

theorem rankP_gateLoad (ng n : Nat) (p : Prod) (h : p.pc = .gateLoad) :
    rankP ng n p = if badG p n then (ng - p.idx) + 1 + (1 + ((ng + 1) + (1 + (p.stop + 2 - p.start))))
                   else (ng - p.idx) + 1 + (1 + (p.stop + 2 - p.start)) := by
  simp [rankP, h]

theorem rankP_drainLoad (ng n : Nat) (p : Prod) (h : p.pc = .drainLoad) :
    rankP ng n p = if badD p then (ng - p.idx) + 1 + (1 + ((ng + 1) + 1)) else (ng - p.idx) + 1 + 1 := by
  simp [rankP, h]

/-- the producer's own ready step decreases `μP` (progress) or its rank, and keeps it ready -/
theorem own_rank_prod (x : PSt) (h : LInv x) (hr : readyP x) :
    μP (stepProd x) < μP x ∨
      (rankP (ngate x.s) x.s.n (stepProd x).p < rankP (ngate x.s) x.s.n x.p ∧ readyP (stepProd x)) := by
  have hf := fin_prod x h.base
  have hcf := cursor_le_fin x h.base
  obtain ⟨⟨hI, hK, hP, hbb⟩, hspin, hpp, hcp, hfit, hfc, hdone, hcd⟩ := h
  obtain ⟨q1, q2, q3, q4, q5, q6, q6c, q7, q8, q9, q10, q11, q12⟩ := hP
  have hgpos := ngate_pos x.s hI.1 hK
  cases hpc : x.p.pc <;> simp only [readyP, hpc] at hr <;> try contradiction
  case start =>
    left
    simp only [μP, hf]
    cases htodo : x.p.todo with
    | cons b rest => simp [stepProd, hpc, htodo, phaseP]; omega
    | nil => simp [stepProd, hpc, htodo, phaseP]
  case drainInit =>
    left
    simp only [μP, hf]
    simp [stepProd, hpc, phaseP]
  case gateCheck =>
    right
    have hg : condG x.s x.p.stop := hr
    have hcl := q7 (by simp [hpc])
    by_cases hc : x.p.min + x.s.n < x.p.stop
    · have e : stepProd x = { x with p := { x.p with pc := .gateLoad, acc := none, idx := 0 } } := by
        simp [stepProd, hpc, hc]
      rw [e]
      refine ⟨?_, by simpa [readyP] using hg⟩
      simp [rankP, hpc, hc, badG]
    · have e : stepProd x = { x with p := { x.p with cached := x.p.min, nextWrite := x.p.stop + 1, w := x.p.start, pc := .write, claims := x.p.claims ++ [(x.p.start, x.p.stop, x.p.count)] } } := by
        simp [stepProd, hpc, hc]
      rw [e]
      refine ⟨?_, by simp [readyP]⟩
      simp [rankP, hpc, hc]
  case gateLoad =>
    right
    have hg : condG x.s x.p.stop := hr
    by_cases hlt : x.p.idx < ngate x.s
    · have e : stepProd x = { x with p := { x.p with acc := minOpt x.p.acc (gate x.s x.p.idx), idx := x.p.idx + 1 } } := by
        simp [stepProd, hpc, hlt]
      rw [e]
      refine ⟨?_, by simpa [readyP, hpc] using hg⟩
      have hb := badG_minOpt x.p { x.p with acc := minOpt x.p.acc (gate x.s x.p.idx), idx := x.p.idx + 1 }
        x.s.n (gate x.s x.p.idx) (hg _ hlt) rfl rfl
      rw [rankP_gateLoad _ _ _ (by simpa using hpc), rankP_gateLoad _ _ _ hpc, hb]
      cases badG x.p x.s.n <;> simp <;> omega
    · have hidx : x.p.idx = ngate x.s := by have := q5 (by simp [hpc]); omega
      have hsome := q4 (by simp [hpc]) (by omega)
      cases hacc : x.p.acc with
      | none => simp [hacc] at hsome
      | some m =>
        have e : stepProd x = { x with p := { x.p with min := m, pc := .gateCheck } } := by
          simp [stepProd, hpc, hlt, hacc]
        rw [e]
        refine ⟨?_, by simpa [readyP] using hg⟩
        simp only [rankP, hpc, badG, hacc]
        by_cases hm : m + x.s.n < x.p.stop <;> simp [hm] <;> omega
  case write =>
    right
    have hwr := q8 (by simp [hpc])
    by_cases hle : x.p.w ≤ x.p.stop
    · have e : stepProd x = { x with p := { x.p with w := x.p.w + 1, written := x.p.written ++ [x.p.w] } } := by
        simp [stepProd, hpc, hle]
      rw [e]
      refine ⟨?_, by simp [readyP, hpc]⟩
      simp [rankP, hpc]; omega
    · have e : stepProd x = { x with p := { x.p with pc := .publish } } := by simp [stepProd, hpc, hle]
      rw [e]
      refine ⟨?_, by simp [readyP]⟩
      simp [rankP, hpc]; omega
  case publish =>
    left
    have hwr := q8 (by simp [hpc])
    simp only [μP, hf]
    simp [stepProd, hpc, phaseP, hspin]; omega
  case drainLoad =>
    right
    have hd : condD x.s x.p.nextWrite := hr
    by_cases hlt : x.p.idx < ngate x.s
    · have e : stepProd x = { x with p := { x.p with acc := minOpt x.p.acc (gate x.s x.p.idx), idx := x.p.idx + 1 } } := by
        simp [stepProd, hpc, hlt]
      rw [e]
      refine ⟨?_, by simpa [readyP, hpc] using hd⟩
      have hb := badD_minOpt x.p { x.p with acc := minOpt x.p.acc (gate x.s x.p.idx), idx := x.p.idx + 1 }
        (gate x.s x.p.idx) (hd _ hlt) rfl rfl
      rw [rankP_drainLoad _ _ _ (by simpa using hpc), rankP_drainLoad _ _ _ hpc, hb]
      cases badD x.p <;> simp <;> omega
    · have hidx : x.p.idx = ngate x.s := by have := q5 (by simp [hpc]); omega
      have hsome := q4 (by simp [hpc]) (by omega)
      cases hacc : x.p.acc with
      | none => simp [hacc] at hsome
      | some m =>
        have e : stepProd x = { x with p := { x.p with min := m, pc := .drainCheck } } := by
          simp [stepProd, hpc, hlt, hacc]
        rw [e]
        refine ⟨?_, by simpa [readyP] using hd⟩
        simp only [rankP, hpc, badD, hacc]
        by_cases hm : m < x.p.nextWrite - 1 <;> simp [hm] <;> omega
  case drainCheck =>
    have hd : condD x.s x.p.nextWrite := hr
    have hcur := q6c (by simp [hpc, PPc.draining])
    by_cases hc : x.p.min < x.p.nextWrite - 1
    · right
      have e : stepProd x = { x with p := { x.p with pc := .drainLoad, acc := none, idx := 0 } } := by
        simp [stepProd, hpc, hc, hcur, hspin]
      rw [e]
      refine ⟨?_, by simpa [readyP] using hd⟩
      simp [rankP, hpc, hc, badD]
    · left
      simp only [μP, hf]
      simp [stepProd, hpc, hc, hcur, phaseP]
  case setDone =>
    left
    simp only [μP, hf]
    simp [stepProd, hpc, phaseP, hspin]
  case dropDone =>
    left
    simp only [μP, hf]
    simp [stepProd, hpc, phaseP, hspin]
/-! ### assembling the hypotheses of `Fair.fair_termination` -/

open Classical in
noncomputable def rank : Tid → PSt → Nat
  | .prod, x => rankP (ngate x.s) x.s.n x.p
  | .cons k j, x =>
      rankC (ndeps x.s k) (decide (condC x.s k (x.s.cons k j))) x.s.cursor x.s.isDone (x.s.cons k j)

open Classical in
theorem readyC_iff (s : St) (k : Nat) (c : Cons) :
    readyC s k c ↔ readyCb (decide (condC s k c)) s.isDone c := by
  cases hpc : c.pc <;> simp [readyC, readyCb, hpc]

theorem dep_le_cursor (s : St) (hI : Inv s) (k : Nat) (hk : k < s.K) :
    ∀ d, d < ndeps s k → dep s k d ≤ s.cursor := by
  intro d hd
  by_cases h0 : k = 0
  · simp [dep, h0]
  · have hd' : d < s.h (k-1) := by simpa [ndeps, h0] using hd
    simp only [dep, h0, if_false]
    exact chain_up s hI (k-1) d (by omega) hd'

open Classical in
theorem fair_hown (x : PSt) (t : Tid) (h : LInv x) (hr : ready x t) :
    μ (stepX x t) < μ x ∨ (rank t (stepX x t) < rank t x ∧ ready (stepX x t) t) := by
  cases t with
  | prod =>
    show μ (stepProd x) < μ x ∨ _
    rcases own_rank_prod x h hr with hp | ⟨hrk, hrd⟩
    · left; simp only [μ, μC_prod x h.base]; omega
    · right
      obtain ⟨ec, eK, eh, en, _⟩ := cons_same_prod x
      refine ⟨?_, hrd⟩
      show rankP (ngate (stepProd x).s) (stepProd x).s.n (stepProd x).p < rankP (ngate x.s) x.s.n x.p
      have : ngate (stepProd x).s = ngate x.s := by simp [ngate, eK, eh]
      rw [this, en]; exact hrk
  | cons k j =>
    obtain ⟨hk, hj, hrc⟩ := hr
    have hci := h.base.1.2 k j hk hj
    have hpos := ndeps_pos x.s h.base.1.1 k hk
    have hdepc := dep_le_cursor x.s h.base.1 k hk
    have hstep : stepX x (.cons k j) = xC x k j := by simp [stepX, hk, hj, xC]
    rw [hstep]
    have e : (xC x k j).s.cons k j = stepCons x.s k j (x.s.cons k j) := by simp [xC, stepC, upd]
    rcases Classical.em (progressC (x.s.cons k j) (stepCons x.s k j (x.s.cons k j))) with hp | hnp
    · left
      have := μC_xC_lt x k j hk hj h.base (wC_progress x k j hk hj h.base hp)
      simp only [μ, μP_xC]; omega
    · right
      have hcur := cons_step_cur x.s k j _ hci hnp
      have hcond : condC (xC x k j).s k ((xC x k j).s.cons k j) ↔ condC x.s k (x.s.cons k j) := by
        rw [e]; exact condC_stepC x.s k j _ _ hcur
      have hown := own_rank_cons x.s k j (x.s.cons k j) (decide (condC x.s k (x.s.cons k j))) h.spin hci hpos
        (by simp) hdepc ((readyC_iff _ _ _).1 hrc)
      rcases hown with hp | ⟨hrk, hrd⟩
      · exact absurd hp hnp
      · refine ⟨?_, hk, hj, ?_⟩
        · show rankC (ndeps (xC x k j).s k) (decide (condC (xC x k j).s k ((xC x k j).s.cons k j)))
              (xC x k j).s.cursor (xC x k j).s.isDone ((xC x k j).s.cons k j) < _
          have hd : decide (condC (xC x k j).s k ((xC x k j).s.cons k j)) = decide (condC x.s k (x.s.cons k j)) :=
            decide_eq_decide.2 hcond
          rw [hd, e]; exact hrk
        · rw [readyC_iff]
          have hd : decide (condC (xC x k j).s k ((xC x k j).s.cons k j)) = decide (condC x.s k (x.s.cons k j)) :=
            decide_eq_decide.2 hcond
          rw [hd, e]; exact hrd

theorem prod_step_frame (x : PSt) (h : LInv x) : μP (stepProd x) < μP x ∨ (stepProd x).s = x.s := by
  have hf := fin_prod x h.base
  obtain ⟨⟨hI, hK, hP, hbb⟩, hspin, hpp, hcp, hfit, hfc, hdone, hcd⟩ := h
  obtain ⟨q1, q2, q3, q4, q5, q6, q6c, q7, q8, q9, q10, q11, q12⟩ := hP
  cases hpc : x.p.pc <;> simp only [hpc, pSpin] at hpp <;> try contradiction
  case publish =>
    left
    have hwr := q8 (by simp [hpc])
    simp only [μP, hf]; simp [stepProd, hpc, phaseP, hspin]; omega
  case setDone =>
    left; simp only [μP, hf]; simp [stepProd, hpc, phaseP, hspin]
  case dropDone =>
    left; simp only [μP, hf]; simp [stepProd, hpc, phaseP, hspin]
  all_goals (right; simp only [stepProd, hpc] <;> (try split) <;> (try split) <;> rfl)

open Classical in
theorem fair_hoth (x : PSt) (t u : Tid) (h : LInv x) (hne : u ≠ t) (hr : ready x t) :
    μ (stepX x u) < μ x ∨ (rank t (stepX x u) ≤ rank t x ∧ ready (stepX x u) t) := by
  cases u with
  | prod =>
    show μ (stepProd x) < μ x ∨ _
    rcases prod_step_frame x h with hp | hs
    · left; simp only [μ, μC_prod x h.base]; omega
    · right
      cases t with
      | prod => exact absurd rfl hne
      | cons k' j' =>
        obtain ⟨hk, hj, hrc⟩ := hr
        refine ⟨?_, ?_⟩
        · show rankC (ndeps (stepProd x).s k') (decide (condC (stepProd x).s k' ((stepProd x).s.cons k' j')))
            (stepProd x).s.cursor (stepProd x).s.isDone ((stepProd x).s.cons k' j') ≤ _
          rw [hs]; exact Nat.le_refl _
        · show k' < (stepProd x).s.K ∧ j' < (stepProd x).s.h k' ∧ readyC (stepProd x).s k' ((stepProd x).s.cons k' j')
          rw [hs]; exact ⟨hk, hj, hrc⟩
  | cons k j =>
    by_cases hv : k < x.s.K ∧ j < x.s.h k
    · have hstep : stepX x (.cons k j) = xC x k j := by simp [stepX, hv, xC]
      rw [hstep]
      have hci := h.base.1.2 k j hv.1 hv.2
      rcases Classical.em (progressC (x.s.cons k j) (stepCons x.s k j (x.s.cons k j))) with hp | hnp
      · left
        have := μC_xC_lt x k j hv.1 hv.2 h.base (wC_progress x k j hv.1 hv.2 h.base hp)
        simp only [μ, μP_xC]; omega
      · right
        have hcur := cons_step_cur x.s k j _ hci hnp
        cases t with
        | prod =>
          refine ⟨Nat.le_refl _, ?_⟩
          show readyP (xC x k j)
          have hg : ∀ d, gate (xC x k j).s d = gate x.s d := gate_xC x k j hcur
          have hr' : readyP x := hr
          have hn : ngate (xC x k j).s = ngate x.s := rfl
          cases hpc : x.p.pc <;> simp only [readyP, xC, hpc, condG, condD] at hr' ⊢ <;>
            first
            | exact hr'
            | (intro d hd; have := hr' d hd; rw [show gate (stepC x.s k j) d = gate x.s d from hg d]; exact this)
        | cons k' j' =>
          obtain ⟨hk', hj', hrc⟩ := hr
          have hne' : ¬(k' = k ∧ j' = j) := by
            intro he; apply hne; rw [he.1, he.2]
          have hsame : (xC x k j).s.cons k' j' = x.s.cons k' j' := by simp [xC, stepC, upd, hne']
          have hcond : condC (xC x k j).s k' ((xC x k j).s.cons k' j') ↔ condC x.s k' (x.s.cons k' j') := by
            unfold condC
            have hn : ndeps (xC x k j).s k' = ndeps x.s k' := rfl
            simp only [hn, dep_xC x k j hcur, hsame]
          have hd : decide (condC (xC x k j).s k' ((xC x k j).s.cons k' j')) = decide (condC x.s k' (x.s.cons k' j')) :=
            decide_eq_decide.2 hcond
          refine ⟨?_, hk', hj', ?_⟩
          · show rankC (ndeps (xC x k j).s k') (decide (condC (xC x k j).s k' ((xC x k j).s.cons k' j')))
              (xC x k j).s.cursor (xC x k j).s.isDone ((xC x k j).s.cons k' j') ≤ _
            rw [hd, hsame]; exact Nat.le_refl _
          · rw [readyC_iff, hd, hsame]; exact (readyC_iff _ _ _).1 hrc
    · right
      have : stepX x (.cons k j) = x := by simp [stepX, hv]
      rw [this]; exact ⟨Nat.le_refl _, hr⟩

/-- topology is constant along every run -/
theorem topo_step (x : PSt) (t : Tid) : (stepX x t).s.K = x.s.K ∧ (stepX x t).s.h = x.s.h := by
  cases t with
  | prod => obtain ⟨_, eK, eh, _, _⟩ := cons_same_prod x; exact ⟨eK, eh⟩
  | cons k j => simp only [stepX]; split <;> exact ⟨rfl, rfl⟩

/-- **C06 core (single producer, spin wait)**: from every configuration whose batches fit the ring, every schedule in
which every thread of the topology occurs infinitely often drives the pipeline to the state where the producer has
returned from `drain` and `Drop` and every handler thread has terminated. -/
theorem ring_terminates (x0 : PSt) (h0 : LInv x0) (σ : Nat → Tid)
    (hf : Fair.WeakFair (inTopo x0.s.K x0.s.h) σ) :
    ∃ n, terminal (Fair.run stepX σ x0 n) := by
  apply Fair.fair_termination stepX (inTopo x0.s.K x0.s.h)
    (fun x => LInv x ∧ x.s.K = x0.s.K ∧ x.s.h = x0.s.h) terminal ready μ rank
  · intro s t ⟨hs, e1, e2⟩
    obtain ⟨f1, f2⟩ := topo_step s t
    exact ⟨linv_step s t hs, by rw [f1, e1], by rw [f2, e2]⟩
  · intro s t hs; exact μ_mono s t hs.1
  · intro s ⟨hs, e1, e2⟩ hnt
    obtain ⟨t, ht, hr⟩ := exists_ready s hs hnt
    exact ⟨t, by rw [← e1, ← e2]; exact ht, hr⟩
  · intro s t hs hr; exact fair_hown s t hs.1 hr
  · intro s t u hs hne hr; exact fair_hoth s t u hs.1 hne hr
  · exact ⟨h0, rfl, rfl⟩
  · exact hf

theorem linv_init (n K : Nat) (h : Nat → Nat) (batches : List Nat)
    (hK : 0 < K) (hh : ∀ k, k < K → 0 < h k) (hb : ∀ b, b ∈ batches → 1 ≤ b ∧ b ≤ n) :
    LInv (mk n K h false batches) := by
  refine ⟨inv_init n K h false batches hK hh (fun b hbm => (hb b hbm).1), rfl, rfl, ?_,
    fun b hbm => (hb b hbm).2, ?_, ?_, ?_⟩
  · intros; rfl
  · simp [mk]
  · simp [mk]
  · simp [mk]
end Spin
/-! ## bookkeeping of the `write` calls (both strategies) -/

/-- every batch handed to the producer becomes, in order, one claim of exactly its length; once the producer is
draining no batch is left -/
structure WInv (batches : List Nat) (p : Prod) : Prop where
  split : p.claims.map (·.2.2) ++ (if p.pc = .gateCheck ∨ p.pc = .gateLoad then [p.count] else []) ++ p.todo = batches
  empty : (p.pc = .drainInit ∨ p.pc.draining = true) → p.todo = []

theorem winv_prod (batches : List Nat) (x : PSt) (h : WInv batches x.p) : WInv batches (stepProd x).p := by
  obtain ⟨h1, h2⟩ := h
  cases hpc : x.p.pc <;> simp only [hpc, PPc.draining] at h1 h2
  case start =>
    cases htodo : x.p.todo with
    | nil => constructor <;> simp_all [stepProd, PPc.draining]
    | cons b rest => constructor <;> simp_all [stepProd, PPc.draining]
  case gateCheck =>
    simp only [stepProd, hpc]; split <;> constructor <;> simp_all [PPc.draining]
  all_goals (simp only [stepProd, hpc] <;> (try split) <;> (try split) <;> constructor <;> simp_all [PPc.draining])

theorem winv_step (batches : List Nat) (x : PSt) (t : Tid) (h : WInv batches x.p) : WInv batches (stepX x t).p := by
  cases t with
  | prod => exact winv_prod batches x h
  | cons k j => simp only [stepX]; split <;> exact h

theorem winv_run (batches : List Nat) (σ : Nat → Tid) (x : PSt) (h : WInv batches x.p) :
    ∀ i, WInv batches (Fair.run stepX σ x i).p := by
  intro i
  induction i with
  | zero => exact h
  | succ i ih => exact winv_step batches _ _ ih

theorem winv_init (n K : Nat) (h : Nat → Nat) (bl : Bool) (batches : List Nat) :
    WInv batches (mk n K h bl batches).p := by
  constructor <;> simp [mk, PPc.draining]

theorem inv_frun (σ : Nat → Tid) (x : PSt) (h : PInvAll x) : ∀ i, PInvAll (Fair.run stepX σ x i) := by
  intro i
  induction i with
  | zero => exact h
  | succ i ih => exact inv_stepX _ _ ih

/-- a finite prefix of an infinite schedule is a schedule of `runX`: the states of `Fair.run` are `Reachable` -/
theorem frun_eq_runX (σ : Nat → Tid) (x : PSt) (i : Nat) :
    Fair.run stepX σ x i = runX x ((List.range i).map σ) := by
  induction i with
  | zero => rfl
  | succ i ih =>
    simp only [Fair.run, ih, runX, List.range_succ, List.map_append, List.foldl_append, List.map, List.foldl]
/-! ## Part 2 — the mutex / wake-up invariants of the blocking strategy, for every schedule -/

/-- consumer pcs at which the thread owns the wait strategy's mutex (blocking strategy) -/
def cHold : CPc → Bool
  | .bAlert | .waitLoad | .checkAvail | .bUnlockGo | .bWait | .bUnlockRetry | .bUnlockExit | .sNotify | .sUnlock => true
  | _ => false

/-- producer pcs at which it owns the mutex -/
def pHold : PPc → Bool
  | .pNotify | .pUnlock | .dNotify | .dUnlock | .eNotify | .eUnlock | .fNotify | .fUnlock => true
  | _ => false

/-- pcs after `is_done.store(true)` of `drain` -/
def pAfterSet : PPc → Bool
  | .eLock | .eNotify | .eUnlock | .dropDone | .fLock | .fNotify | .fUnlock | .done => true
  | _ => false

/-- **mutual exclusion and ownership**: with the blocking strategy a thread is at a pc between its `lock` and its
`unlock` (or `cvar.wait`) exactly when it owns the mutex; with the spin strategy the mutex is never touched and the
blocking-only program points are never reached; `is_done` is set exactly from `drain`'s store on, and a handler
thread only leaves its loop after that. -/
structure MInv (x : PSt) : Prop where
  spinM : x.s.blocking = false → x.s.mtx = none
  spinP : x.s.blocking = false → Spin.pSpin x.p.pc = true
  spinC : x.s.blocking = false → ∀ k j, k < x.s.K → j < x.s.h k → Spin.cSpin (x.s.cons k j).pc = true
  blkC  : x.s.blocking = true → ∀ k j, k < x.s.K → j < x.s.h k →
            ((cHold (x.s.cons k j).pc = true ↔ x.s.mtx = some (.cons k j)) ∧ (x.s.cons k j).pc ≠ .checkAlert)
  blkP  : x.s.blocking = true → (pHold x.p.pc = true ↔ x.s.mtx = some .prod)
  owner : ∀ k j, x.s.mtx = some (.cons k j) → k < x.s.K ∧ j < x.s.h k
  doneIff : x.s.isDone = true ↔ pAfterSet x.p.pc = true
  consDone : ∀ k j, k < x.s.K → j < x.s.h k →
            ((x.s.cons k j).pc = .done ∨ (x.s.cons k j).pc = .bUnlockExit) → x.s.isDone = true

/-- what a consumer's own step does to its pc and the mutex (blocking strategy) -/
theorem cons_mtx_step (s : St) (k j : Nat) (hb : s.blocking = true)
    (hc : cHold (s.cons k j).pc = true ↔ s.mtx = some (.cons k j)) (hne : (s.cons k j).pc ≠ .checkAlert) :
    (cHold (stepCons s k j (s.cons k j)).pc = true ↔ mtxAfterC s k j = some (.cons k j)) ∧
    (stepCons s k j (s.cons k j)).pc ≠ .checkAlert ∧
    (mtxAfterC s k j = s.mtx ∨ (s.mtx = none ∧ mtxAfterC s k j = some (.cons k j)) ∨
      (s.mtx = some (.cons k j) ∧ mtxAfterC s k j = none)) := by
  cases hpc : (s.cons k j).pc <;> simp only [hpc, cHold] at hc hne <;>
    simp only [stepCons, mtxAfterC, hpc, hb] <;> (repeat' split) <;> simp_all [cHold]

theorem cons_spin_step (s : St) (k j : Nat) (hb : s.blocking = false) (hm : s.mtx = none)
    (hc : Spin.cSpin (s.cons k j).pc = true) :
    Spin.cSpin (stepCons s k j (s.cons k j)).pc = true ∧ mtxAfterC s k j = none := by
  cases hpc : (s.cons k j).pc <;> simp only [hpc, Spin.cSpin] at hc <;> (try contradiction) <;>
    simp only [stepCons, mtxAfterC, hpc, hb, hm] <;> (repeat' split) <;> simp_all [Spin.cSpin]

theorem cons_done_step (s : St) (k j : Nat)
    (h : (stepCons s k j (s.cons k j)).pc = .done ∨ (stepCons s k j (s.cons k j)).pc = .bUnlockExit) :
    (s.cons k j).pc = .done ∨ (s.cons k j).pc = .bUnlockExit ∨ s.isDone = true := by
  cases hpc : (s.cons k j).pc <;> simp only [stepCons, hpc] at h <;> (try split at h) <;> (try split at h) <;>
    simp_all

/-- the producer's own step: pc, mutex and `is_done` (blocking strategy) -/
theorem prod_mtx_step (x : PSt) (hb : x.s.blocking = true) (hp : pHold x.p.pc = true ↔ x.s.mtx = some .prod) :
    (pHold (stepProd x).p.pc = true ↔ (stepProd x).s.mtx = some .prod) ∧
    ((stepProd x).s.mtx = x.s.mtx ∨ (x.s.mtx = none ∧ (stepProd x).s.mtx = some .prod) ∨
      (x.s.mtx = some .prod ∧ (stepProd x).s.mtx = none)) := by
  cases hpc : x.p.pc <;> simp only [hpc, pHold] at hp <;>
    simp only [stepProd, hpc, hb] <;> (repeat' split) <;> simp_all [pHold]

theorem prod_spin_step (x : PSt) (hb : x.s.blocking = false) (hm : x.s.mtx = none) (hp : Spin.pSpin x.p.pc = true) :
    Spin.pSpin (stepProd x).p.pc = true ∧ (stepProd x).s.mtx = none := by
  cases hpc : x.p.pc <;> simp only [hpc, Spin.pSpin] at hp <;> (try contradiction) <;>
    simp only [stepProd, hpc, hb, hm] <;> (repeat' split) <;> simp_all [Spin.pSpin]

theorem prod_done_step (x : PSt) (hd : x.s.isDone = true ↔ pAfterSet x.p.pc = true) :
    ((stepProd x).s.isDone = true ↔ pAfterSet (stepProd x).p.pc = true) ∧
    (x.s.isDone = true → (stepProd x).s.isDone = true) := by
  cases hpc : x.p.pc <;> simp only [hpc, pAfterSet] at hd <;>
    simp only [stepProd, hpc] <;> (repeat' split) <;> simp_all [pAfterSet]
theorem stepC_mtx (s : St) (k j : Nat) : (stepC s k j).mtx = mtxAfterC s k j := rfl
theorem stepC_woken (s : St) (k j : Nat) : (stepC s k j).woken = wokenAfterC s k j := rfl
theorem stepC_own (s : St) (k j : Nat) : (stepC s k j).cons k j = stepCons s k j (s.cons k j) := by
  simp [stepC, upd]
theorem stepC_other (s : St) (k j k' j' : Nat) (h : ¬(k' = k ∧ j' = j)) : (stepC s k j).cons k' j' = s.cons k' j' := by
  simp [stepC, upd, h]

theorem minv_step (x : PSt) (t : Tid) (h : MInv x) : MInv (stepX x t) := by
  obtain ⟨m1, m2, m3, m4, m5, m6, m7, m8⟩ := h
  cases t with
  | prod =>
    show MInv (stepProd x)
    obtain ⟨ec, eK, eh, en, ebl⟩ := cons_same_prod x
    obtain ⟨d1, d2⟩ := prod_done_step x m7
    constructor
    · intro hb; rw [ebl] at hb; exact (prod_spin_step x hb (m1 hb) (m2 hb)).2
    · intro hb; rw [ebl] at hb; exact (prod_spin_step x hb (m1 hb) (m2 hb)).1
    · intro hb; rw [ebl] at hb; rw [ec, eK, eh]; exact m3 hb
    · intro hb k j hk hj; rw [ebl] at hb; rw [eK] at hk; rw [eh] at hj; rw [ec]
      obtain ⟨_, hm⟩ := prod_mtx_step x hb (m5 hb)
      obtain ⟨a1, a2⟩ := m4 hb k j hk hj
      refine ⟨?_, a2⟩
      rw [a1]
      rcases hm with hm | ⟨hm1, hm2⟩ | ⟨hm1, hm2⟩
      · rw [hm]
      · rw [hm1, hm2]; simp
      · rw [hm1, hm2]; simp
    · intro hb; rw [ebl] at hb; exact (prod_mtx_step x hb (m5 hb)).1
    · intro k j hm
      rw [eK, eh]
      apply m6
      by_cases hb : x.s.blocking = true
      · rcases (prod_mtx_step x hb (m5 hb)).2 with h | ⟨h1, h2⟩ | ⟨h1, h2⟩
        · rw [← h]; exact hm
        · rw [h2] at hm; simp at hm
        · rw [h2] at hm; simp at hm
      · have hb' : x.s.blocking = false := by simpa using hb
        rw [(prod_spin_step x hb' (m1 hb') (m2 hb')).2] at hm; simp at hm
    · exact d1
    · intro k j hk hj hpc
      rw [eK] at hk; rw [eh] at hj; rw [ec] at hpc
      exact d2 (m8 k j hk hj hpc)
  | cons k j =>
    show MInv (if k < x.s.K ∧ j < x.s.h k then { x with s := stepC x.s k j } else x)
    split
    · rename_i hv
      constructor
      · intro hb
        exact (cons_spin_step x.s k j hb (m1 hb) (m3 hb k j hv.1 hv.2)).2
      · exact m2
      · intro hb k' j' hk' hj'
        by_cases he : k' = k ∧ j' = j
        · obtain ⟨rfl, rfl⟩ := he
          show Spin.cSpin ((stepC x.s k' j').cons k' j').pc = true
          rw [stepC_own]; exact (cons_spin_step x.s k' j' hb (m1 hb) (m3 hb k' j' hv.1 hv.2)).1
        · show Spin.cSpin ((stepC x.s k j).cons k' j').pc = true
          rw [stepC_other _ _ _ _ _ he]; exact m3 hb k' j' hk' hj'
      · intro hb k' j' hk' hj'
        have hb' : x.s.blocking = true := hb
        obtain ⟨a1, a2⟩ := m4 hb' k j hv.1 hv.2
        obtain ⟨c1, c2, c3⟩ := cons_mtx_step x.s k j hb' a1 a2
        show (cHold ((stepC x.s k j).cons k' j').pc = true ↔ (stepC x.s k j).mtx = some (.cons k' j')) ∧
          ((stepC x.s k j).cons k' j').pc ≠ .checkAlert
        by_cases he : k' = k ∧ j' = j
        · obtain ⟨rfl, rfl⟩ := he
          rw [stepC_own, stepC_mtx]; exact ⟨c1, c2⟩
        · rw [stepC_other _ _ _ _ _ he, stepC_mtx]
          obtain ⟨b1, b2⟩ := m4 hb' k' j' hk' hj'
          refine ⟨?_, b2⟩
          rw [b1]
          have hne : Tid.cons k j ≠ Tid.cons k' j' := by
            intro h; injection h with h1 h2; exact he ⟨h1.symm, h2.symm⟩
          rcases c3 with h | ⟨h1, h2⟩ | ⟨h1, h2⟩
          · rw [h]
          · rw [h1, h2]; simp [hne]
          · rw [h1, h2]; simp [hne]
      · intro hb
        have hb' : x.s.blocking = true := hb
        obtain ⟨a1, a2⟩ := m4 hb' k j hv.1 hv.2
        obtain ⟨c1, c2, c3⟩ := cons_mtx_step x.s k j hb' a1 a2
        show pHold x.p.pc = true ↔ (stepC x.s k j).mtx = some .prod
        rw [stepC_mtx, m5 hb']
        rcases c3 with h | ⟨h1, h2⟩ | ⟨h1, h2⟩
        · rw [h]
        · rw [h1, h2]; simp
        · rw [h1, h2]; simp
      · intro k' j' hm
        show k' < x.s.K ∧ j' < x.s.h k'
        change (stepC x.s k j).mtx = some (.cons k' j') at hm
        rw [stepC_mtx] at hm
        by_cases hb : x.s.blocking = true
        · obtain ⟨a1, a2⟩ := m4 hb k j hv.1 hv.2
          obtain ⟨c1, c2, c3⟩ := cons_mtx_step x.s k j hb a1 a2
          rcases c3 with h | ⟨h1, h2⟩ | ⟨h1, h2⟩
          · rw [h] at hm; exact m6 k' j' hm
          · rw [h2] at hm; injection hm with hm; injection hm with e1 e2; subst e1; subst e2; exact hv
          · rw [h2] at hm; simp at hm
        · have hb' : x.s.blocking = false := by simpa using hb
          rw [(cons_spin_step x.s k j hb' (m1 hb') (m3 hb' k j hv.1 hv.2)).2] at hm; simp at hm
      · exact m7
      · intro k' j' hk' hj' hpc
        show x.s.isDone = true
        by_cases he : k' = k ∧ j' = j
        · obtain ⟨rfl, rfl⟩ := he
          change ((stepC x.s k' j').cons k' j').pc = .done ∨ ((stepC x.s k' j').cons k' j').pc = .bUnlockExit at hpc
          rw [stepC_own] at hpc
          rcases cons_done_step x.s k' j' hpc with h | h | h
          · exact m8 k' j' hv.1 hv.2 (Or.inl h)
          · exact m8 k' j' hv.1 hv.2 (Or.inr h)
          · exact h
        · change ((stepC x.s k j).cons k' j').pc = .done ∨ ((stepC x.s k j).cons k' j').pc = .bUnlockExit at hpc
          rw [stepC_other _ _ _ _ _ he] at hpc
          exact m8 k' j' hk' hj' hpc
    · exact ⟨m1, m2, m3, m4, m5, m6, m7, m8⟩

theorem minv_init (n K : Nat) (h : Nat → Nat) (bl : Bool) (batches : List Nat) : MInv (mk n K h bl batches) := by
  constructor <;> simp [mk, Spin.pSpin, Spin.cSpin, cHold, pHold, pAfterSet]
/-! ### no lost wake-up -/

/-- consumer pcs between its cursor store and the `notify_all` of `signal()` -/
def cPend : CPc → Bool
  | .sLock | .sNotify => true
  | _ => false

/-- producer pcs between a store (cursor / `is_done`) or a drain-loop iteration and the `notify_all` of `signal()` -/
def pPend : PPc → Bool
  | .pLock | .pNotify | .dLock | .dNotify | .eLock | .eNotify | .fLock | .fNotify => true
  | _ => false

/-- some thread is at a pc from which it executes `notify_all` before it can block -/
def pending (x : PSt) : Prop :=
  pPend x.p.pc = true ∨ ∃ k j, k < x.s.K ∧ j < x.s.h k ∧ cPend (x.s.cons k j).pc = true

/-- the handler is parked, or is under the mutex on its way to park (it has seen, or will see, a stale snapshot) -/
def parkish (s : St) (k j : Nat) : Prop :=
  match (s.cons k j).pc with
  | .waitLoad => bad (s.cons k j) = true ∨ s.isDone = true
  | .checkAvail => (s.cons k j).avail < (s.cons k j).next
  | .bWait => True
  | .bRelock => s.woken k j = false
  | _ => False

/-- the handler is owed a wake-up: it is (about to be) parked although its wait condition holds or `is_done` is set -/
def owed (s : St) (k j : Nat) : Prop :=
  s.blocking = true ∧ (condC s k (s.cons k j) ∨ s.isDone = true) ∧ parkish s k j

/-- **no lost wake-up** (invariant form) -/
def NInv (x : PSt) : Prop := ∀ k j, k < x.s.K → j < x.s.h k → owed x.s k j → pending x

theorem condC_congr (s s' : St) (k : Nat) (c : Cons) (hc : ∀ a b, (s'.cons a b).cur = (s.cons a b).cur)
    (hcur : s'.cursor = s.cursor) (hh : s'.h = s.h) : condC s' k c ↔ condC s k c := by
  unfold condC ndeps dep
  simp only [hc, hcur, hh]

theorem prod_nlw_cases (x : PSt) (hb : x.s.blocking = true) :
    pPend (stepProd x).p.pc = true ∨
    (pHold x.p.pc = true ∧ (stepProd x).s.woken = fun _ _ => true) ∨
    (pPend x.p.pc = false ∧ (stepProd x).s.cursor = x.s.cursor ∧ (stepProd x).s.isDone = x.s.isDone ∧
      (stepProd x).s.woken = x.s.woken) := by
  cases hpc : x.p.pc <;> simp only [stepProd, hpc, hb] <;> (repeat' split) <;> simp_all [pPend, pHold]

theorem cons_nlw_cases (s : St) (k j : Nat) (hb : s.blocking = true) :
    cPend (stepCons s k j (s.cons k j)).pc = true ∨
    ((s.cons k j).pc = .sNotify ∧ wokenAfterC s k j = fun _ _ => true) ∨
    (cPend (s.cons k j).pc = false ∧ (stepCons s k j (s.cons k j)).cur = (s.cons k j).cur ∧
      ∀ k' j', ¬(k' = k ∧ j' = j) → wokenAfterC s k j k' j' = s.woken k' j') := by
  cases hpc : (s.cons k j).pc
  case bWait =>
    right; right
    refine ⟨by simp [cPend], by simp [stepCons, hpc], ?_⟩
    intro k' j' hne; simp [wokenAfterC, hpc, hne]
  all_goals (simp only [stepCons, wokenAfterC, hpc, hb] <;> (repeat' split) <;> simp_all [cPend])

/-- a handler's own step (other than its cursor store and its notify) does not create an obligation -/
theorem own_owed (s : St) (k j : Nat) (hci : CInv s k (s.cons k j)) (hpos : 0 < ndeps s k)
    (hcur : (stepCons s k j (s.cons k j)).cur = (s.cons k j).cur)
    (ho : owed (stepC s k j) k j) : owed s k j := by
  obtain ⟨hb, hcond, hp⟩ := ho
  have hb' : s.blocking = true := hb
  have hd : (stepC s k j).isDone = s.isDone := rfl
  have hc : condC (stepC s k j) k ((stepC s k j).cons k j) ↔ condC s k (s.cons k j) := by
    rw [stepC_own]; exact condC_stepC s k j _ _ hcur
  rw [hc, hd] at hcond
  refine ⟨hb', hcond, ?_⟩
  unfold parkish at hp ⊢
  rw [stepC_own, hd, stepC_woken] at hp
  obtain ⟨h1, h2, h3, h4, h5, h6, h7, h8, h9, h10, h11, h12, h13⟩ := hci
  cases hpc : (s.cons k j).pc
  case waitLoad =>
    have hnx := h8 (by simp [hpc])
    by_cases hlt : (s.cons k j).idx < ndeps s k
    · have e : stepCons s k j (s.cons k j) =
          { s.cons k j with acc := minOpt (s.cons k j).acc (dep s k (s.cons k j).idx), idx := (s.cons k j).idx + 1 } := by
        simp [stepCons, hpc, hlt]
      rw [e] at hp
      simp only [hpc] at hp ⊢
      rcases hp with hp | hp
      · rcases hcond with hcc | hdd
        · left
          have hv : (s.cons k j).next ≤ dep s k (s.cons k j).idx := by have := hcc _ hlt; omega
          rw [← bad_minOpt (s.cons k j) _ hv
            { s.cons k j with acc := minOpt (s.cons k j).acc (dep s k (s.cons k j).idx), idx := (s.cons k j).idx + 1 }
            rfl rfl]
          exact hp
        · right; exact hdd
      · right; exact hp
    · have hidx : (s.cons k j).idx = ndeps s k := by have := h2 hpc; omega
      have e : stepCons s k j (s.cons k j) =
          { s.cons k j with avail := (s.cons k j).acc.getD 0, pc := .checkAvail } := by
        simp [stepCons, hpc, hlt]
      rw [e] at hp
      left
      cases hacc : (s.cons k j).acc with
      | none =>
        have := h5 hpc (by omega)
        simp [hacc] at this
      | some m =>
        have hp' : m < (s.cons k j).next := by simpa [hacc] using hp
        simp [bad, hacc, hp']
  case bWait => trivial
  case bLock => by_cases a : s.mtx = none <;> simp [stepCons, hpc, a] at hp
  case sLock => by_cases a : s.mtx = none <;> simp [stepCons, hpc, a] at hp
  case bAlert => by_cases a : s.isDone = true <;> simp [stepCons, hpc, a, bad] at hp
  case checkAlert => by_cases a : s.isDone = true <;> simp [stepCons, hpc, a, bad] at hp
  case checkAvail =>
    by_cases a : (s.cons k j).avail ≥ (s.cons k j).next
    · simp [stepCons, hpc, a, hb'] at hp
    · show (s.cons k j).avail < (s.cons k j).next
      omega
  case handle => by_cases a : (s.cons k j).i ≤ (s.cons k j).avail <;> simp [stepCons, hpc, a] at hp
  case bRelock =>
    by_cases a : s.woken k j = true ∧ s.mtx = none
    · simp [stepCons, hpc, a] at hp
    · simpa [stepCons, wokenAfterC, hpc, a] using hp
  all_goals (simp [stepCons, hpc, hb'] at hp)
theorem owed_blocking {s : St} {k j : Nat} (h : owed s k j) : s.blocking = true := h.1

/-- parked / about-to-park handlers are at pcs that own the mutex, except the parked one -/
theorem parkish_hold {s : St} {k j : Nat} (h : parkish s k j) :
    cHold (s.cons k j).pc = true ∨ ((s.cons k j).pc = .bRelock ∧ s.woken k j = false) := by
  unfold parkish at h
  cases hpc : (s.cons k j).pc <;> simp only [hpc] at h <;> simp_all [cHold]

theorem ninv_step (x : PSt) (t : Tid) (hA : PInvAll x) (hM : MInv x) (hN : NInv x) : NInv (stepX x t) := by
  cases t with
  | prod =>
    show NInv (stepProd x)
    obtain ⟨ec, eK, eh, en, ebl⟩ := cons_same_prod x
    intro k j hk hj ho
    rw [eK] at hk; rw [eh] at hj
    have hb : x.s.blocking = true := by rw [← ebl]; exact ho.1
    rcases prod_nlw_cases x hb with h | ⟨h1, h2⟩ | ⟨h1, h2, h3, h4⟩
    · exact Or.inl h
    · -- the producer notifies while owning the mutex: nobody is owed anything afterwards
      exfalso
      have hm : x.s.mtx = some .prod := (hM.blkP hb).1 h1
      obtain ⟨_, _, hp⟩ := ho
      have hp' : parkish { (stepProd x).s with cons := x.s.cons } k j := by
        have : (stepProd x).s = { (stepProd x).s with cons := x.s.cons } := by rw [← ec]
        rw [this] at hp; exact hp
      rcases parkish_hold hp' with hh | ⟨_, hw⟩
      · have := ((hM.blkC hb k j hk hj).1).1 hh
        rw [hm] at this; cases this
      · simp [h2] at hw
    · have ho' : owed x.s k j := by
        obtain ⟨_, hc, hp⟩ := ho
        refine ⟨hb, ?_, ?_⟩
        · rw [condC_congr x.s (stepProd x).s k _ (by rw [ec]; intros; rfl) h2 eh, ec, h3] at hc; exact hc
        · unfold parkish at hp ⊢; rw [ec, h3, h4] at hp; exact hp
      rcases hN k j hk hj ho' with hp | ⟨a, b, ha, hb', hc⟩
      · simp [h1] at hp
      · exact Or.inr ⟨a, b, by rw [eK]; exact ha, by rw [eh]; exact hb', by rw [ec]; exact hc⟩
  | cons k j =>
    show NInv (if k < x.s.K ∧ j < x.s.h k then { x with s := stepC x.s k j } else x)
    split
    · rename_i hv
      intro k' j' hk' hj' ho
      change owed (stepC x.s k j) k' j' at ho
      change k' < x.s.K at hk'
      change j' < x.s.h k' at hj'
      have hb : x.s.blocking = true := ho.1
      rcases cons_nlw_cases x.s k j hb with h | ⟨h1, h2⟩ | ⟨h1, h2, h3⟩
      · exact Or.inr ⟨k, j, hv.1, hv.2, by show cPend ((stepC x.s k j).cons k j).pc = true; rw [stepC_own]; exact h⟩
      · exfalso
        have hm : x.s.mtx = some (.cons k j) := ((hM.blkC hb k j hv.1 hv.2).1).1 (by simp [h1, cHold])
        obtain ⟨_, _, hp⟩ := ho
        by_cases he : k' = k ∧ j' = j
        · obtain ⟨rfl, rfl⟩ := he
          unfold parkish at hp
          rw [stepC_own] at hp
          simp [stepCons, h1] at hp
        · have hp' : parkish { x.s with woken := wokenAfterC x.s k j } k' j' := by
            unfold parkish at hp ⊢
            rw [stepC_other _ _ _ _ _ he, stepC_woken] at hp
            exact hp
          rcases parkish_hold hp' with hh | ⟨_, hw⟩
          · have := ((hM.blkC hb k' j' hk' hj').1).1 hh
            rw [hm] at this
            injection this with this; injection this with e1 e2
            exact he ⟨e1.symm, e2.symm⟩
          · simp [h2] at hw
      · have hcurs : ∀ a b, ((stepC x.s k j).cons a b).cur = (x.s.cons a b).cur := xC_cur_same x k j h2
        have ho' : owed x.s k' j' := by
          by_cases he : k' = k ∧ j' = j
          · obtain ⟨rfl, rfl⟩ := he
            exact own_owed x.s k' j' (hA.1.2 k' j' hv.1 hv.2) (ndeps_pos x.s hA.1.1 k' hv.1) h2 ho
          · obtain ⟨_, hc, hp⟩ := ho
            refine ⟨hb, ?_, ?_⟩
            · rw [condC_congr x.s (stepC x.s k j) k' _ hcurs rfl rfl, stepC_other _ _ _ _ _ he] at hc
              exact hc
            · unfold parkish at hp ⊢
              rw [stepC_other _ _ _ _ _ he, stepC_woken, h3 k' j' he] at hp
              exact hp
        rcases hN k' j' hk' hj' ho' with hp | ⟨a, b, ha, hb', hc⟩
        · exact Or.inl hp
        · refine Or.inr ⟨a, b, ha, hb', ?_⟩
          show cPend ((stepC x.s k j).cons a b).pc = true
          by_cases he : a = k ∧ b = j
          · obtain ⟨rfl, rfl⟩ := he; rw [h1] at hc; cases hc
          · rw [stepC_other _ _ _ _ _ he]; exact hc
    · exact hN

theorem ninv_init (n K : Nat) (h : Nat → Nat) (bl : Bool) (batches : List Nat) : NInv (mk n K h bl batches) := by
  intro k j _ _ ho
  obtain ⟨_, _, hp⟩ := ho
  simp [parkish, mk] at hp

/-- all invariants of the pipeline together -/
structure BInv (x : PSt) : Prop where
  base : PInvAll x
  mtx  : MInv x
  nlw  : NInv x

theorem binv_step (x : PSt) (t : Tid) (h : BInv x) : BInv (stepX x t) :=
  ⟨inv_stepX x t h.base, minv_step x t h.mtx, ninv_step x t h.base h.mtx h.nlw⟩

theorem binv_init (n K : Nat) (h : Nat → Nat) (bl : Bool) (batches : List Nat)
    (hK : 0 < K) (hh : ∀ k, k < K → 0 < h k) (hb : ∀ b, b ∈ batches → 1 ≤ b) : BInv (mk n K h bl batches) :=
  ⟨inv_init n K h bl batches hK hh hb, minv_init n K h bl batches, ninv_init n K h bl batches⟩

theorem binv_run (x : PSt) (sched : List Tid) (h : BInv x) : BInv (runX x sched) := by
  unfold runX
  induction sched generalizing x with
  | nil => exact h
  | cons t ts ih => exact ih _ (binv_step x t h)

theorem reachable_binv {x : PSt} (hr : Reachable x) : BInv x := by
  obtain ⟨n, K, h, bl, bs, sched, hK, hh, hb, rfl⟩ := hr
  exact binv_run _ sched (binv_init n K h bl bs hK hh hb)
/-- **no lost wake-up**: a handler parked on the condvar (`bRelock`) whose wait condition holds, or for which `is_done`
is set, has been woken — or some *other* thread is between its store and the `notify_all` of its `signal()` -/
theorem no_lost_wakeup {x : PSt} (h : BInv x) (k j : Nat) (hk : k < x.s.K) (hj : j < x.s.h k)
    (hpark : (x.s.cons k j).pc = .bRelock) (hc : condC x.s k (x.s.cons k j) ∨ x.s.isDone = true) :
    x.s.woken k j = true ∨ pPend x.p.pc = true ∨
      ∃ k' j', k' < x.s.K ∧ j' < x.s.h k' ∧ (k', j') ≠ (k, j) ∧ cPend (x.s.cons k' j').pc = true := by
  have hb : x.s.blocking = true := by
    cases hbl : x.s.blocking
    · have := h.mtx.spinC hbl k j hk hj
      simp [hpark, Spin.cSpin] at this
    · rfl
  cases hw : x.s.woken k j
  · right
    have ho : owed x.s k j := ⟨hb, hc, by simp [parkish, hpark, hw]⟩
    rcases h.nlw k j hk hj ho with hp | ⟨a, b, ha, hb', hc'⟩
    · exact Or.inl hp
    · refine Or.inr ⟨a, b, ha, hb', ?_, hc'⟩
      intro he
      injection he with e1 e2; subst e1; subst e2
      simp [hpark, cPend] at hc'
  · exact Or.inl rfl

/-- **no deadlock** (both strategies): in every non-terminal state satisfying the invariants some thread of the topology
has an enabled step — a step that is not a stutter on a taken mutex or of a parked, un-notified handler -/
theorem exists_enabled {x : PSt} (h : BInv x) (hnt : ¬ terminal x) :
    ∃ t, inTopo x.s.K x.s.h t ∧ enabled x t = true := by
  obtain ⟨hA, hM, hN⟩ := h
  cases hbl : x.s.blocking
  · -- spin: every thread that has not finished is enabled
    by_cases hpd : x.p.pc = .done
    · have : ∃ k j, k < x.s.K ∧ j < x.s.h k ∧ (x.s.cons k j).pc ≠ .done := by
        apply Classical.byContradiction; intro hno
        apply hnt; refine ⟨hpd, fun k j hk hj => ?_⟩
        apply Classical.byContradiction; intro hne
        exact hno ⟨k, j, hk, hj, hne⟩
      obtain ⟨k, j, hk, hj, hne⟩ := this
      refine ⟨.cons k j, ⟨hk, hj⟩, ?_⟩
      have := hM.spinC hbl k j hk hj
      cases hpc : (x.s.cons k j).pc <;> simp_all [enabled, Spin.cSpin]
    · refine ⟨.prod, trivial, ?_⟩
      have := hM.spinP hbl
      cases hpc : x.p.pc <;> simp_all [enabled, Spin.pSpin]
  · cases hm : x.s.mtx with
    | some t =>
      -- the owner of the mutex is between lock and unlock: enabled
      cases t with
      | prod =>
        refine ⟨.prod, trivial, ?_⟩
        have := (hM.blkP hbl).2 hm
        cases hpc : x.p.pc <;> simp_all [enabled, pHold]
      | cons k j =>
        obtain ⟨hk, hj⟩ := hM.owner k j hm
        refine ⟨.cons k j, ⟨hk, hj⟩, ?_⟩
        have := ((hM.blkC hbl k j hk hj).1).2 hm
        cases hpc : (x.s.cons k j).pc <;> simp_all [enabled, cHold]
    | none =>
      by_cases hpd : x.p.pc = .done
      · have : ∃ k j, k < x.s.K ∧ j < x.s.h k ∧ (x.s.cons k j).pc ≠ .done := by
          apply Classical.byContradiction; intro hno
          apply hnt; refine ⟨hpd, fun k j hk hj => ?_⟩
          apply Classical.byContradiction; intro hne
          exact hno ⟨k, j, hk, hj, hne⟩
        obtain ⟨k, j, hk, hj, hne⟩ := this
        by_cases hpark : (x.s.cons k j).pc = .bRelock
        · have hd : x.s.isDone = true := hM.doneIff.2 (by simp [hpd, pAfterSet])
          rcases no_lost_wakeup ⟨hA, hM, hN⟩ k j hk hj hpark (Or.inr hd) with hw | hp | ⟨a, b, ha, hb, _, hc⟩
          · exact ⟨.cons k j, ⟨hk, hj⟩, by simp [enabled, hpark, hw, hm]⟩
          · simp [hpd, pPend] at hp
          · refine ⟨.cons a b, ⟨ha, hb⟩, ?_⟩
            cases hpc : (x.s.cons a b).pc <;> simp_all [enabled, cPend]
        · refine ⟨.cons k j, ⟨hk, hj⟩, ?_⟩
          cases hpc : (x.s.cons k j).pc <;> simp_all [enabled]
      · refine ⟨.prod, trivial, ?_⟩
        cases hpc : x.p.pc <;> simp_all [enabled]

/-! ### wait conditions are stable: once true they stay true until the waiting thread itself moves on -/

theorem dep_mono_stepX (x : PSt) (t : Tid) (h : PInvAll x) (k d : Nat) :
    dep x.s k d ≤ dep (stepX x t).s k d := by
  cases t with
  | prod =>
    show dep x.s k d ≤ dep (stepProd x).s k d
    obtain ⟨ec, _, _, _, _⟩ := cons_same_prod x
    unfold dep; rw [ec]; split
    · exact cursor_mono_prod x h
    · exact Nat.le_refl _
  | cons a b =>
    simp only [stepX]; split
    · rename_i hv; exact dep_mono_stepC x.s a b hv.1 hv.2 h.1 k d
    · exact Nat.le_refl _

theorem gate_mono_stepX (x : PSt) (t : Tid) (h : PInvAll x) (d : Nat) :
    gate x.s d ≤ gate (stepX x t).s d := by
  cases t with
  | prod =>
    show gate x.s d ≤ gate (stepProd x).s d
    obtain ⟨ec, eK, _, _, _⟩ := cons_same_prod x
    unfold gate; rw [ec, eK]; exact Nat.le_refl _
  | cons a b =>
    simp only [stepX]; split
    · rename_i hv; exact gate_mono_stepC x.s a b hv.1 hv.2 h.1 d
    · exact Nat.le_refl _

theorem topo_step (x : PSt) (t : Tid) : (stepX x t).s.K = x.s.K ∧ (stepX x t).s.h = x.s.h ∧ (stepX x t).s.n = x.s.n := by
  cases t with
  | prod => obtain ⟨_, eK, eh, en, _⟩ := cons_same_prod x; exact ⟨eK, eh, en⟩
  | cons k j => simp only [stepX]; split <;> exact ⟨rfl, rfl, rfl⟩

/-- a handler's wait condition, once true, stays true under every step of every *other* thread (and under its own
steps as long as it does not publish) -/
theorem condC_stable (x : PSt) (t : Tid) (h : PInvAll x) (k j : Nat)
    (hcur : ((stepX x t).s.cons k j).cur = (x.s.cons k j).cur)
    (hc : condC x.s k (x.s.cons k j)) : condC (stepX x t).s k ((stepX x t).s.cons k j) := by
  intro d hd
  have hn : ndeps (stepX x t).s k = ndeps x.s k := by simp [ndeps, (topo_step x t).2.1]
  rw [hn] at hd
  have := hc d hd
  have := dep_mono_stepX x t h k d
  omega

/-- the producer's gate condition and drain condition are stable under every step -/
theorem condG_stable (x : PSt) (t : Tid) (h : PInvAll x) (stop : Nat) (hc : condG x.s stop) :
    condG (stepX x t).s stop := by
  intro d hd
  obtain ⟨eK, eh, en⟩ := topo_step x t
  have hn : ngate (stepX x t).s = ngate x.s := by simp [ngate, eK, eh]
  rw [hn] at hd
  have := hc d hd
  have := gate_mono_stepX x t h d
  rw [en]; omega

theorem condD_stable (x : PSt) (t : Tid) (h : PInvAll x) (nw : Nat) (hc : condD x.s nw) :
    condD (stepX x t).s nw := by
  intro d hd
  obtain ⟨eK, eh, en⟩ := topo_step x t
  have hn : ngate (stepX x t).s = ngate x.s := by simp [ngate, eK, eh]
  rw [hn] at hd
  have := hc d hd
  have := gate_mono_stepX x t h d
  omega

theorem isDone_stable (x : PSt) (t : Tid) (h : MInv x) (hd : x.s.isDone = true) : (stepX x t).s.isDone = true := by
  cases t with
  | prod => exact (prod_done_step x h.doneIff).2 hd
  | cons k j => simp only [stepX]; split <;> exact hd
/-! ## Part 3 — the blocking strategy: termination under weak fairness + strong fairness of lock acquisition -/

theorem owed_mono (s s' : St) (k j : Nat) (hcj : s'.cons k j = s.cons k j)
    (hcur : ∀ a b, (s'.cons a b).cur = (s.cons a b).cur) (hcursor : s'.cursor = s.cursor)
    (hd : s'.isDone = s.isDone) (hh : s'.h = s.h) (hb : s'.blocking = s.blocking)
    (hw : s'.woken k j = false → s.woken k j = false) : owed s' k j → owed s k j := by
  intro ⟨h1, h2, h3⟩
  refine ⟨by rw [← hb]; exact h1, ?_, ?_⟩
  · rw [condC_congr s s' k _ hcur hcursor hh, hcj, hd] at h2; exact h2
  · unfold parkish at h3 ⊢
    rw [hcj, hd] at h3
    cases hpc : (s.cons k j).pc <;> simp only [hpc] at h3 ⊢ <;> first | exact h3 | exact hw h3

theorem prod_frame (x : PSt) (hb : x.s.blocking = true) :
    (x.p.pc = .publish ∨ x.p.pc = .setDone ∨ x.p.pc = .dropDone) ∨
    ((stepProd x).s.cursor = x.s.cursor ∧ (stepProd x).s.isDone = x.s.isDone ∧
      ((stepProd x).s.woken = x.s.woken ∨ (stepProd x).s.woken = fun _ _ => true)) := by
  cases hpc : x.p.pc <;> simp only [stepProd, hpc, hb] <;> (repeat' split) <;> simp_all

/-- the topology is constant along every run -/
theorem topo_frun (σ : Nat → Tid) (x : PSt) (i : Nat) :
    (Fair.run stepX σ x i).s.K = x.s.K ∧ (Fair.run stepX σ x i).s.h = x.s.h ∧ (Fair.run stepX σ x i).s.n = x.s.n := by
  induction i with
  | zero => exact ⟨rfl, rfl, rfl⟩
  | succ i ih =>
    obtain ⟨e1, e2, e3⟩ := ih
    obtain ⟨f1, f2, f3⟩ := topo_step (Fair.run stepX σ x i) (σ i)
    exact ⟨by show (stepX _ _).s.K = _; rw [f1, e1], by show (stepX _ _).s.h = _; rw [f2, e2],
           by show (stepX _ _).s.n = _; rw [f3, e3]⟩

namespace Blk
def phaseB : PPc → Nat
  | .gateCheck | .gateLoad | .write | .publish => 10
  | .pLock | .pNotify | .pUnlock => 9
  | .start => 8
  | .drainInit => 7
  | .drainLoad | .drainCheck | .dLock | .dNotify | .dUnlock => 6
  | .setDone => 5
  | .eLock | .eNotify | .eUnlock => 4
  | .dropDone => 3
  | .fLock | .fNotify | .fUnlock => 2
  | .done => 0

def μP (x : PSt) : Nat := (fin x - x.s.cursor) + 3 * x.p.todo.length + phaseB x.p.pc

/-- remaining work: events still to consume / threads still to finish / batches and producer phases still to go -/
def μmain (x : PSt) : Nat := μC x + μP x

open Classical in
/-- weight of an outstanding wake-up: 2 while the handler is still on its way to park, 1 once it is parked -/
noncomputable def ow (x : PSt) (k j : Nat) : Nat :=
  if owed x.s k j then (if (x.s.cons k j).pc = .bRelock then 1 else 2) else 0

noncomputable def owedW (x : PSt) : Nat := sumTo x.s.K (fun k => sumTo (x.s.h k) (fun j => ow x k j))

def bnd (x : PSt) : Nat := sumTo x.s.K (fun k => sumTo (x.s.h k) (fun _ => 2))

/-- the global measure: remaining work, weighted so that one unit of work outweighs all outstanding wake-ups -/
noncomputable def μ (x : PSt) : Nat := (bnd x + 1) * μmain x + owedW x

/-- the invariant of the blocking instantiation -/
structure JInv (x : PSt) : Prop where
  b      : BInv x
  blk    : x.s.blocking = true
  fit    : ∀ b, b ∈ x.p.todo → b ≤ x.s.n
  fitCur : (x.p.pc = .gateCheck ∨ x.p.pc = .gateLoad) → x.p.stop + 1 ≤ x.p.start + x.s.n

theorem jinv_step (x : PSt) (t : Tid) (h : JInv x) : JInv (stepX x t) := by
  obtain ⟨hb, hblk, hfit, hfc⟩ := h
  have hb' := binv_step x t hb
  cases t with
  | prod =>
    show JInv (stepProd x)
    obtain ⟨ec, eK, eh, en, ebl⟩ := cons_same_prod x
    obtain ⟨hI, hK, hP, hbb⟩ := hb.base
    refine ⟨hb', by rw [ebl]; exact hblk, ?_, ?_⟩
    · cases hpc : x.p.pc <;> simp only [stepProd, hpc] <;> (try split) <;> (try split) <;> grind
    · cases hpc : x.p.pc
      case start =>
        cases htodo : x.p.todo with
        | nil => simp [stepProd, hpc, htodo]
        | cons b rest =>
          have h1 := hfit b (by simp [htodo]); have h2 := hbb b (by simp [htodo])
          simp [stepProd, hpc, htodo]; omega
      all_goals (simp only [stepProd, hpc] <;> (try split) <;> (try split) <;> grind)
  | cons k j =>
    have e : (stepX x (.cons k j)).p = x.p := by simp only [stepX]; split <;> rfl
    have e2 : (stepX x (.cons k j)).s.n = x.s.n := (topo_step x _).2.2
    have e3 : (stepX x (.cons k j)).s.blocking = x.s.blocking := by simp only [stepX]; split <;> rfl
    exact ⟨hb', by rw [e3]; exact hblk, by rw [e, e2]; exact hfit, by rw [e, e2]; exact hfc⟩

theorem μP_xC (x : PSt) (k j : Nat) : μP (xC x k j) = μP x := rfl

theorem μP_prod_le (x : PSt) (h : JInv x) : μP (stepProd x) ≤ μP x ∧
    ((x.p.pc = .publish ∨ x.p.pc = .setDone ∨ x.p.pc = .dropDone) → μP (stepProd x) < μP x) := by
  have hf := fin_prod x h.b.base
  have hcf := cursor_le_fin x h.b.base
  obtain ⟨⟨⟨hI, hK, hP, hbb⟩, _, _⟩, hblk, hfit, hfc⟩ := h
  obtain ⟨q1, q2, q3, q4, q5, q6, q6c, q7, q8, q9, q10, q11, q12⟩ := hP
  simp only [μP, hf]
  cases hpc : x.p.pc
  case start =>
    cases htodo : x.p.todo with
    | nil => simp [stepProd, hpc, htodo, phaseB]
    | cons b rest => simp [stepProd, hpc, htodo, phaseB]; omega
  all_goals (simp only [stepProd, hpc, hblk, ↓reduceIte] <;> (try split) <;> simp [phaseB] <;> grind)

theorem ow_le_two (x : PSt) (k j : Nat) : ow x k j ≤ 2 := by
  unfold ow; split <;> (try split) <;> omega

theorem owedW_le_bnd (x : PSt) : owedW x ≤ bnd x := by
  apply sumTo_le; intro k _; apply sumTo_le; intro j _; exact ow_le_two x k j

theorem cons_cur_nonpublish (s : St) (k j : Nat) (c : Cons) (h : c.pc ≠ .publish) : (stepCons s k j c).cur = c.cur := by
  cases hpc : c.pc <;> simp only [stepCons, hpc] <;> (repeat' split) <;> simp_all

theorem woken_other (s : St) (k j k' j' : Nat) (hne : ¬(k' = k ∧ j' = j)) :
    wokenAfterC s k j k' j' = false → s.woken k' j' = false := by
  cases hpc : (s.cons k j).pc <;> simp only [wokenAfterC, hpc, hne, if_false] <;> simp_all

open Classical in
/-- a producer step other than a store does not create or upgrade an obligation -/
theorem ow_prod_le (x : PSt) (h : JInv x) (hns : ¬(x.p.pc = .publish ∨ x.p.pc = .setDone ∨ x.p.pc = .dropDone))
    (k j : Nat) : ow (stepProd x) k j ≤ ow x k j := by
  obtain ⟨ec, eK, eh, en, ebl⟩ := cons_same_prod x
  rcases prod_frame x h.blk with hs | ⟨h1, h2, h3⟩
  · exact absurd hs hns
  · have himp : owed (stepProd x).s k j → owed x.s k j := by
      apply owed_mono x.s (stepProd x).s k j (by rw [ec]) (by rw [ec]; intros; rfl) h1 h2 eh ebl
      rcases h3 with h3 | h3
      · rw [h3]; exact id
      · rw [h3]; intro hh; cases hh
    unfold ow
    rw [ec]
    by_cases ho' : owed (stepProd x).s k j
    · simp [ho', himp ho']
    · simp only [ho', if_false]; exact Nat.zero_le _

open Classical in
/-- a handler step other than its cursor store does not create or upgrade an obligation -/
theorem ow_cons_le (x : PSt) (h : JInv x) (k j : Nat) (hk : k < x.s.K) (hj : j < x.s.h k)
    (hnp : (x.s.cons k j).pc ≠ .publish) (k' j' : Nat) : ow (xC x k j) k' j' ≤ ow x k' j' := by
  have hcur := cons_cur_nonpublish x.s k j _ hnp
  have hcurs : ∀ a b, ((stepC x.s k j).cons a b).cur = (x.s.cons a b).cur := xC_cur_same x k j hcur
  by_cases he : k' = k ∧ j' = j
  · obtain ⟨rfl, rfl⟩ := he
    have himp : owed (stepC x.s k' j') k' j' → owed x.s k' j' :=
      own_owed x.s k' j' (h.b.base.1.2 k' j' hk hj) (ndeps_pos x.s h.b.base.1.1 k' hk) hcur
    unfold ow
    show (if owed (stepC x.s k' j') k' j' then (if ((stepC x.s k' j').cons k' j').pc = .bRelock then 1 else 2) else 0) ≤ _
    by_cases ho' : owed (stepC x.s k' j') k' j'
    · have ho := himp ho'
      simp only [ho', ho, if_true]
      by_cases hp' : ((stepC x.s k' j').cons k' j').pc = .bRelock
      · simp only [hp', if_true]; split <;> omega
      · simp only [hp', if_false]
        have : (x.s.cons k' j').pc ≠ .bRelock := by
          intro hp
          rw [stepC_own] at hp'
          obtain ⟨_, _, hpk⟩ := ho'
          unfold parkish at hpk
          rw [stepC_own] at hpk
          by_cases a : x.s.woken k' j' = true ∧ x.s.mtx = none
          · simp [stepCons, hp, a] at hpk
          · simp [stepCons, hp, a] at hp'
        simp [this]
    · simp only [ho', if_false]; exact Nat.zero_le _
  · have himp : owed (stepC x.s k j) k' j' → owed x.s k' j' :=
      owed_mono x.s (stepC x.s k j) k' j' (stepC_other _ _ _ _ _ he) hcurs rfl rfl rfl rfl
        (by rw [stepC_woken]; exact woken_other x.s k j k' j' he)
    unfold ow
    show (if owed (stepC x.s k j) k' j' then (if ((stepC x.s k j).cons k' j').pc = .bRelock then 1 else 2) else 0) ≤ _
    rw [stepC_other _ _ _ _ _ he]
    by_cases ho' : owed (stepC x.s k j) k' j'
    · simp [ho', himp ho']
    · simp only [ho', if_false]; exact Nat.zero_le _
theorem bnd_step (x : PSt) (t : Tid) : bnd (stepX x t) = bnd x := by
  obtain ⟨eK, eh, _⟩ := topo_step x t
  simp only [bnd, eK, eh]

theorem μ_lt_of_main (x x' : PSt) (hb : bnd x' = bnd x) (hm : μmain x' < μmain x) : μ x' < μ x := by
  have h1 := owedW_le_bnd x'
  have h2 : (bnd x + 1) * (μmain x' + 1) ≤ (bnd x + 1) * μmain x := Nat.mul_le_mul_left _ hm
  rw [Nat.mul_succ] at h2
  simp only [μ, hb]
  omega

theorem μ_lt_of_ow (x x' : PSt) (hb : bnd x' = bnd x) (hm : μmain x' ≤ μmain x) (ho : owedW x' < owedW x) :
    μ x' < μ x := by
  have h2 : (bnd x + 1) * μmain x' ≤ (bnd x + 1) * μmain x := Nat.mul_le_mul_left _ hm
  simp only [μ, hb]
  omega

theorem μ_le_of (x x' : PSt) (hb : bnd x' = bnd x) (hm : μmain x' ≤ μmain x)
    (ho : μmain x' < μmain x ∨ owedW x' ≤ owedW x) : μ x' ≤ μ x := by
  rcases ho with ho | ho
  · exact Nat.le_of_lt (μ_lt_of_main x x' hb ho)
  · have h2 : (bnd x + 1) * μmain x' ≤ (bnd x + 1) * μmain x := Nat.mul_le_mul_left _ hm
    simp only [μ, hb]
    omega

theorem μmain_prod (x : PSt) (h : JInv x) : μmain (stepProd x) ≤ μmain x ∧
    ((x.p.pc = .publish ∨ x.p.pc = .setDone ∨ x.p.pc = .dropDone) → μmain (stepProd x) < μmain x) := by
  obtain ⟨h1, h2⟩ := μP_prod_le x h
  simp only [μmain, μC_prod x h.b.base]
  exact ⟨by omega, fun hs => by have := h2 hs; omega⟩

theorem owedW_prod_le (x : PSt) (h : JInv x) (hns : ¬(x.p.pc = .publish ∨ x.p.pc = .setDone ∨ x.p.pc = .dropDone)) :
    owedW (stepProd x) ≤ owedW x := by
  obtain ⟨ec, eK, eh, en, ebl⟩ := cons_same_prod x
  simp only [owedW, eK, eh]
  apply sumTo_le; intro k _; apply sumTo_le; intro j _
  exact ow_prod_le x h hns k j

theorem owedW_prod_lt (x : PSt) (h : JInv x) (hns : ¬(x.p.pc = .publish ∨ x.p.pc = .setDone ∨ x.p.pc = .dropDone))
    (k j : Nat) (hk : k < x.s.K) (hj : j < x.s.h k) (hlt : ow (stepProd x) k j < ow x k j) :
    owedW (stepProd x) < owedW x := by
  obtain ⟨ec, eK, eh, en, ebl⟩ := cons_same_prod x
  simp only [owedW, eK, eh]
  apply sumTo_lt _ _ _ _ k hk
  · apply sumTo_lt _ _ _ _ j hj hlt
    intro b _; exact ow_prod_le x h hns k b
  · intro a _; apply sumTo_le; intro b _; exact ow_prod_le x h hns a b

theorem owedW_cons_le (x : PSt) (h : JInv x) (k j : Nat) (hk : k < x.s.K) (hj : j < x.s.h k)
    (hnp : (x.s.cons k j).pc ≠ .publish) : owedW (xC x k j) ≤ owedW x := by
  apply sumTo_le; intro a _; apply sumTo_le; intro b _
  exact ow_cons_le x h k j hk hj hnp a b

theorem owedW_cons_lt (x : PSt) (h : JInv x) (k j : Nat) (hk : k < x.s.K) (hj : j < x.s.h k)
    (hnp : (x.s.cons k j).pc ≠ .publish) (a b : Nat) (ha : a < x.s.K) (hb : b < x.s.h a)
    (hlt : ow (xC x k j) a b < ow x a b) : owedW (xC x k j) < owedW x := by
  apply sumTo_lt _ _ _ _ a ha
  · apply sumTo_lt _ _ _ _ b hb hlt
    intro b' _; exact ow_cons_le x h k j hk hj hnp a b'
  · intro a' _; apply sumTo_le; intro b' _; exact ow_cons_le x h k j hk hj hnp a' b'

theorem publish_progress (x : PSt) (h : JInv x) (k j : Nat) (hk : k < x.s.K) (hj : j < x.s.h k)
    (hp : (x.s.cons k j).pc = .publish) : progressC (x.s.cons k j) (stepCons x.s k j (x.s.cons k j)) := by
  left
  have := (h.b.base.1.2 k j hk hj).curAvail (by simp [hp])
  simp [stepCons, hp]; omega

theorem μmain_xC (x : PSt) (h : JInv x) (k j : Nat) (hk : k < x.s.K) (hj : j < x.s.h k) :
    μmain (xC x k j) ≤ μmain x ∧
    (progressC (x.s.cons k j) (stepCons x.s k j (x.s.cons k j)) → μmain (xC x k j) < μmain x) := by
  simp only [μmain, μP_xC]
  refine ⟨by have := μC_xC_le x k j hk hj h.b.base; omega, fun hp => ?_⟩
  have := μC_xC_lt x k j hk hj h.b.base (wC_progress x k j hk hj h.b.base hp)
  omega

theorem bnd_xC (x : PSt) (k j : Nat) : bnd (xC x k j) = bnd x := rfl

/-- the measure never increases -/
theorem μ_mono (x : PSt) (t : Tid) (h : JInv x) : μ (stepX x t) ≤ μ x := by
  cases t with
  | prod =>
    show μ (stepProd x) ≤ μ x
    have hb := bnd_step x .prod
    obtain ⟨h1, h2⟩ := μmain_prod x h
    apply μ_le_of x _ hb h1
    by_cases hs : x.p.pc = .publish ∨ x.p.pc = .setDone ∨ x.p.pc = .dropDone
    · exact Or.inl (h2 hs)
    · exact Or.inr (owedW_prod_le x h hs)
  | cons k j =>
    by_cases hv : k < x.s.K ∧ j < x.s.h k
    · have hstep : stepX x (.cons k j) = xC x k j := by simp [stepX, hv, xC]
      rw [hstep]
      obtain ⟨h1, h2⟩ := μmain_xC x h k j hv.1 hv.2
      apply μ_le_of x _ (bnd_xC x k j) h1
      by_cases hp : (x.s.cons k j).pc = .publish
      · exact Or.inl (h2 (publish_progress x h k j hv.1 hv.2 hp))
      · exact Or.inr (owedW_cons_le x h k j hv.1 hv.2 hp)
    · have : stepX x (.cons k j) = x := by simp [stepX, hv]
      rw [this]; exact Nat.le_refl _
/-! ### readiness and ranks -/

/-- some handler is parked and owed a wake-up -/
def owedParked (x : PSt) : Prop :=
  ∃ k j, k < x.s.K ∧ j < x.s.h k ∧ (x.s.cons k j).pc = .bRelock ∧ owed x.s k j

/-- the handler's wait is over: its wait condition holds or `is_done` is set -/
def condCD (s : St) (k j : Nat) : Prop := condC s k (s.cons k j) ∨ s.isDone = true

/-- a handler is *ready*: it reaches its next progress event (cursor store, exit, parking while owed a wake-up, or the
`notify_all` that an owed handler waits for) after a bounded number of own enabled steps, whatever the others do -/
def readyC (x : PSt) (k j : Nat) : Prop :=
  match (x.s.cons k j).pc with
  | .handle | .publish | .bUnlockGo | .bUnlockExit => True
  | .checkAvail => (x.s.cons k j).next ≤ (x.s.cons k j).avail ∨ owed x.s k j
  | .waitLoad => owed x.s k j ∨
      (condC x.s k (x.s.cons k j) ∧ bad (x.s.cons k j) = false ∧ x.s.isDone = false)
  | .bWait => owed x.s k j
  | .bRelock => x.s.woken k j = true ∧ condCD x.s k j
  | .sLock | .sNotify => condCD x.s k j ∨ owedParked x
  | .readOwn | .bLock | .bAlert | .sUnlock | .bUnlockRetry => condCD x.s k j
  | .checkAlert | .done => False

def readyP (x : PSt) : Prop :=
  match x.p.pc with
  | .gateCheck | .gateLoad => condG x.s x.p.stop
  | .drainLoad | .drainCheck | .dUnlock => condD x.s x.p.nextWrite
  | .dLock | .dNotify => condD x.s x.p.nextWrite ∨ owedParked x
  | .done => False
  | _ => True

def ready (x : PSt) : Tid → Prop
  | .prod => readyP x
  | .cons k j => k < x.s.K ∧ j < x.s.h k ∧ readyC x k j

open Classical in
noncomputable def rankC (x : PSt) (k j : Nat) : Nat :=
  let c := x.s.cons k j
  let nd := ndeps x.s k
  let L := x.s.cursor - c.cur + 5
  match c.pc with
  | .publish => 1
  | .handle => c.avail + 3 - c.i
  | .bUnlockGo => c.avail + 4 - c.next
  | .checkAvail => if c.next ≤ c.avail then c.avail + 5 - c.next else 2
  | .waitLoad => if owed x.s k j then (nd - c.idx) + 3 else (nd - c.idx) + 1 + L
  | .bWait => 1
  | .bUnlockExit => 1
  | .bAlert => if x.s.isDone then 2 else nd + L + 2
  | .bLock => nd + L + 4
  | .readOwn => nd + L + 5
  | .bUnlockRetry => nd + L + 5
  | .bRelock => nd + L + 6
  | .sUnlock => nd + L + 6
  | .sNotify => if condCD x.s k j then nd + L + 7 else 1
  | .sLock => if condCD x.s k j then nd + L + 8 else 2
  | _ => 0

open Classical in
noncomputable def rankP (x : PSt) : Nat :=
  let p := x.p
  let ng := ngate x.s
  let A := 1 + (p.stop + 2 - p.start)
  match p.pc with
  | .gateCheck => if p.min + x.s.n < p.stop then 1 + ((ng + 1) + A) else A
  | .gateLoad => if badG p x.s.n then (ng - p.idx) + 1 + (1 + ((ng + 1) + A)) else (ng - p.idx) + 1 + A
  | .write => p.stop + 2 - p.w
  | .pLock | .eLock | .fLock => 3
  | .pNotify | .eNotify | .fNotify => 2
  | .pUnlock | .eUnlock | .fUnlock => 1
  | .drainLoad => if badD p then (ng - p.idx) + 1 + (ng + 6) else (ng - p.idx) + 2
  | .drainCheck => if p.min < p.nextWrite - 1 then ng + 6 else 1
  | .dLock => if condD x.s p.nextWrite then ng + 5 else 2
  | .dNotify => if condD x.s p.nextWrite then ng + 4 else 1
  | .dUnlock => ng + 3
  | _ => 0

noncomputable def rank : Tid → PSt → Nat
  | .prod, x => rankP x
  | .cons k j, x => rankC x k j

/-- a parked handler that is owed a wake-up has a notifier, and that notifier is ready -/
theorem notifier_ready (x : PSt) (h : JInv x) (hop : owedParked x) : ∃ t, inTopo x.s.K x.s.h t ∧ ready x t := by
  obtain ⟨k, j, hk, hj, hpc, ho⟩ := hop
  rcases h.b.nlw k j hk hj ho with hp | ⟨a, b, ha, hb, hc⟩
  · refine ⟨.prod, trivial, ?_⟩
    show readyP x
    have hop : owedParked x := ⟨k, j, hk, hj, hpc, ho⟩
    cases hpp : x.p.pc <;> simp only [hpp, pPend] at hp <;> simp_all [readyP]
  · refine ⟨.cons a b, ⟨ha, hb⟩, ha, hb, ?_⟩
    have hop : owedParked x := ⟨k, j, hk, hj, hpc, ho⟩
    unfold readyC
    cases hpp : (x.s.cons a b).pc <;> simp only [hpp, cPend] at hc <;> simp_all

/-- a handler whose wait is over is ready, or owed a wake-up while parked -/
theorem cons_ready_of_cond (x : PSt) (h : JInv x) (k j : Nat) (hk : k < x.s.K) (hj : j < x.s.h k)
    (hnd : (x.s.cons k j).pc ≠ .done) (hc : condCD x.s k j) :
    readyC x k j ∨ ((x.s.cons k j).pc = .bRelock ∧ owed x.s k j) := by
  have hne := (h.b.mtx.blkC h.blk k j hk hj).2
  unfold readyC
  cases hpc : (x.s.cons k j).pc <;> simp only [hpc] at hnd hne ⊢ <;> (try contradiction) <;> (try (left; trivial)) <;>
    (try (left; exact hc))
  case waitLoad =>
    left
    by_cases hd : x.s.isDone = true
    · left; exact ⟨h.blk, hc, by simp [parkish, hpc, hd]⟩
    · by_cases hb : bad (x.s.cons k j) = true
      · left; exact ⟨h.blk, hc, by simp [parkish, hpc, hb]⟩
      · right
        rcases hc with hc | hc
        · exact ⟨hc, by simpa using hb, by simpa using hd⟩
        · exact absurd hc hd
  case checkAvail =>
    left
    by_cases ha : (x.s.cons k j).next ≤ (x.s.cons k j).avail
    · left; exact ha
    · right; exact ⟨h.blk, hc, by simp [parkish, hpc]; omega⟩
  case bWait => left; exact ⟨h.blk, hc, by simp [parkish, hpc]⟩
  case bRelock =>
    cases hw : x.s.woken k j
    · right; exact ⟨trivial, h.blk, hc, by simp [parkish, hpc, hw]⟩
    · left; exact ⟨rfl, hc⟩
  case sLock => left; left; exact hc
  case sNotify => left; left; exact hc

/-- **no deadlock, strong form** (blocking strategy): in every non-terminal state some thread of the topology is ready -/
theorem exists_ready (x : PSt) (h : JInv x) (hnt : ¬ terminal x) : ∃ t, inTopo x.s.K x.s.h t ∧ ready x t := by
  apply Classical.byContradiction; intro hno
  have hnoP : ¬ readyP x := fun hr => hno ⟨.prod, trivial, hr⟩
  have hnoC : ∀ k j, k < x.s.K → j < x.s.h k → ¬ readyC x k j :=
    fun k j hk hj hr => hno ⟨.cons k j, ⟨hk, hj⟩, hk, hj, hr⟩
  have hnoOP : ¬ owedParked x := fun hop => hno (notifier_ready x h hop)
  obtain ⟨hI, hK, hP, hb⟩ := h.b.base
  have hM := h.b.mtx
  -- no handler's wait is over (unless it has finished)
  have hw : ∀ k j, k < x.s.K → j < x.s.h k → (x.s.cons k j).pc ≠ .done → ¬ condCD x.s k j := by
    intro k j hk hj hnd hc
    rcases cons_ready_of_cond x h k j hk hj hnd hc with hr | ⟨hp, ho⟩
    · exact hnoC k j hk hj hr
    · exact hnoOP ⟨k, j, hk, hj, hp, ho⟩
  by_cases hd : x.s.isDone = true
  · -- every handler has finished, so the producer has not: it is after `is_done := true`, hence ready
    have hall : ∀ k j, k < x.s.K → j < x.s.h k → (x.s.cons k j).pc = .done := by
      intro k j hk hj
      apply Classical.byContradiction; intro hnd
      exact hw k j hk hj hnd (Or.inr hd)
    have hpd : x.p.pc ≠ .done := fun hpd => hnt ⟨hpd, hall⟩
    have := hM.doneIff.1 hd
    apply hnoP
    cases hpc : x.p.pc <;> simp_all [readyP, pAfterSet]
  · have hnd : ∀ k j, k < x.s.K → j < x.s.h k → (x.s.cons k j).pc ≠ .done :=
      fun k j hk hj hpc => hd (hM.consDone k j hk hj (Or.inl hpc))
    have hw' : ∀ k j, k < x.s.K → j < x.s.h k → ¬ condC x.s k (x.s.cons k j) :=
      fun k j hk hj hc => hw k j hk hj (hnd k j hk hj) (Or.inl hc)
    have hall := all_caught_up x.s hI hw'
    have hg : ∀ d, d < ngate x.s → gate x.s d = x.s.cursor := by
      intro d hd; exact hall (x.s.K - 1) d (by omega) (by simpa [ngate] using hd)
    apply hnoP
    have hcG : (x.p.pc = .gateCheck ∨ x.p.pc = .gateLoad) → condG x.s x.p.stop := by
      intro hpc d hd; rw [hg d hd]
      have h1 := hP.claim hpc; have h2 := h.fitCur hpc; omega
    have hcD : x.p.pc.idle = true → condD x.s x.p.nextWrite := by
      intro hpc d hd; rw [hg d hd]; have := hP.nw hpc; omega
    cases hpc : x.p.pc <;> simp only [readyP, hpc] <;> first
      | trivial
      | exact hcG (by simp [hpc])
      | exact hcD (by simp [hpc, PPc.idle])
      | exact Or.inl (hcD (by simp [hpc, PPc.idle]))
      | (exfalso; have := hM.doneIff.2 (by simp [hpc, pAfterSet]); exact hd this)
theorem owed_congr (s s' : St) (k j : Nat) (hcj : s'.cons k j = s.cons k j)
    (hcur : ∀ a b, (s'.cons a b).cur = (s.cons a b).cur) (hcursor : s'.cursor = s.cursor)
    (hd : s'.isDone = s.isDone) (hh : s'.h = s.h) (hb : s'.blocking = s.blocking)
    (hw : s'.woken k j = s.woken k j) : owed s' k j ↔ owed s k j :=
  ⟨owed_mono s s' k j hcj hcur hcursor hd hh hb (by rw [hw]; exact id),
   owed_mono s' s k j hcj.symm (fun a b => (hcur a b).symm) hcursor.symm hd.symm hh.symm hb.symm (by rw [hw]; exact id)⟩

/-- facts about a handler's own step that is not its cursor store -/
theorem own_frame (x : PSt) (k j : Nat) (hnp : (x.s.cons k j).pc ≠ .publish) :
    (xC x k j).s.cons k j = stepCons x.s k j (x.s.cons k j) ∧
    (stepCons x.s k j (x.s.cons k j)).cur = (x.s.cons k j).cur ∧
    (condC (xC x k j).s k ((xC x k j).s.cons k j) ↔ condC x.s k (x.s.cons k j)) ∧
    (condCD (xC x k j).s k j ↔ condCD x.s k j) := by
  have e : (xC x k j).s.cons k j = stepCons x.s k j (x.s.cons k j) := by simp [xC, stepC, upd]
  have hcur := cons_cur_nonpublish x.s k j _ hnp
  have hc : condC (xC x k j).s k ((xC x k j).s.cons k j) ↔ condC x.s k (x.s.cons k j) := by
    rw [e]; exact condC_stepC x.s k j _ _ hcur
  refine ⟨e, hcur, hc, ?_⟩
  unfold condCD
  rw [hc]; rfl

/-- other handlers' obligations are untouched by a step that neither stores a cursor nor touches wake-up flags -/
theorem owedParked_xC (x : PSt) (k j : Nat) (hnp : (x.s.cons k j).pc ≠ .publish)
    (hnr : (x.s.cons k j).pc ≠ .bRelock)
    (hw : wokenAfterC x.s k j = x.s.woken) (hop : owedParked x) : owedParked (xC x k j) := by
  obtain ⟨a, b, ha, hb, hpc, ho⟩ := hop
  have hne : ¬(a = k ∧ b = j) := by
    intro he; obtain ⟨rfl, rfl⟩ := he; exact hnr hpc
  have hcur := cons_cur_nonpublish x.s k j _ hnp
  refine ⟨a, b, ha, hb, ?_, ?_⟩
  · show ((stepC x.s k j).cons a b).pc = .bRelock
    rw [stepC_other _ _ _ _ _ hne]; exact hpc
  · show owed (stepC x.s k j) a b
    rw [owed_congr x.s (stepC x.s k j) a b (stepC_other _ _ _ _ _ hne) (xC_cur_same x k j hcur) rfl rfl rfl rfl
      (by rw [stepC_woken, hw])]
    exact ho

theorem μ_drop_own_ow (x : PSt) (h : JInv x) (k j : Nat) (hk : k < x.s.K) (hj : j < x.s.h k)
    (hnp : (x.s.cons k j).pc ≠ .publish) (a b : Nat) (ha : a < x.s.K) (hb : b < x.s.h a)
    (hlt : ow (xC x k j) a b < ow x a b) : μ (xC x k j) < μ x :=
  μ_lt_of_ow x _ (bnd_xC x k j) (μmain_xC x h k j hk hj).1 (owedW_cons_lt x h k j hk hj hnp a b ha hb hlt)

theorem μ_drop_progress (x : PSt) (h : JInv x) (k j : Nat) (hk : k < x.s.K) (hj : j < x.s.h k)
    (hp : progressC (x.s.cons k j) (stepCons x.s k j (x.s.cons k j))) : μ (xC x k j) < μ x :=
  μ_lt_of_main x _ (bnd_xC x k j) ((μmain_xC x h k j hk hj).2 hp)
open Classical in
/-- a ready handler's own enabled step: progress (`μ` drops) or its rank drops and it stays ready -/
theorem hown_cons (x : PSt) (h : JInv x) (k j : Nat) (hk : k < x.s.K) (hj : j < x.s.h k)
    (hr : readyC x k j) (he : enabled x (.cons k j) = true) :
    μ (xC x k j) < μ x ∨ (rankC (xC x k j) k j < rankC x k j ∧ readyC (xC x k j) k j) := by
  have hci := h.b.base.1.2 k j hk hj
  have hpos := ndeps_pos x.s h.b.base.1.1 k hk
  have hblk := h.blk
  have hcs : (xC x k j).s.cursor = x.s.cursor := rfl
  have hds : (xC x k j).s.isDone = x.s.isDone := rfl
  have hnd : ndeps (xC x k j).s k = ndeps x.s k := rfl
  obtain ⟨h1, h2, h3, h4, h5, h6, h7, h8, h9, h10, h11, h12, h13⟩ := hci
  cases hpc : (x.s.cons k j).pc <;> simp only [readyC, hpc] at hr
  case readOwn =>
    right
    obtain ⟨e, hcur, hcc, hcd⟩ := own_frame x k j (by simp [hpc])
    have e' : (xC x k j).s.cons k j = { x.s.cons k j with next := (x.s.cons k j).cur + 1, pc := .bLock } := by
      rw [e]; simp [stepCons, hpc, hblk]
    refine ⟨?_, ?_⟩
    · simp only [rankC, e', hpc, hcs, hnd]; omega
    · simp only [readyC, e']; exact hcd.2 hr
  case bLock =>
    right
    obtain ⟨e, hcur, hcc, hcd⟩ := own_frame x k j (by simp [hpc])
    have hm : x.s.mtx = none := by simpa [enabled, hpc] using he
    have e' : (xC x k j).s.cons k j = { x.s.cons k j with pc := .bAlert } := by
      rw [e]; simp [stepCons, hpc, hm]
    refine ⟨?_, ?_⟩
    · simp only [rankC, e', hpc, hcs, hds, hnd]; split <;> omega
    · simp only [readyC, e']; exact hcd.2 hr
  case bAlert =>
    right
    obtain ⟨e, hcur, hcc, hcd⟩ := own_frame x k j (by simp [hpc])
    by_cases hd : x.s.isDone = true
    · have e' : (xC x k j).s.cons k j = { x.s.cons k j with pc := .bUnlockExit } := by
        rw [e]; simp [stepCons, hpc, hd]
      refine ⟨?_, ?_⟩
      · simp only [rankC, e', hpc, hd, if_true]; omega
      · simp only [readyC, e']
    · have hd' : x.s.isDone = false := by simpa using hd
      have e' : (xC x k j).s.cons k j = { x.s.cons k j with pc := .waitLoad, acc := none, idx := 0 } := by
        rw [e]; simp [stepCons, hpc, hd']
      have hno : ¬ owed (xC x k j).s k j := by
        intro ⟨_, _, hp⟩
        unfold parkish at hp
        rw [e'] at hp
        simp [bad, hds, hd'] at hp
      have hcC : condC x.s k (x.s.cons k j) := by
        rcases hr with hr | hr
        · exact hr
        · exact absurd hr hd
      refine ⟨?_, ?_⟩
      · simp only [rankC, e', hpc, hcs, hnd, hd', hno, if_false]; simp; omega
      · simp only [readyC, e']
        right
        have := hcc.2 hcC
        rw [e'] at this
        exact ⟨this, by simp [bad], by rw [hds]; exact hd'⟩
  case waitLoad =>
    obtain ⟨e, hcur, hcc, hcd⟩ := own_frame x k j (by simp [hpc])
    have hnx := h8 (by simp [hpc])
    have himp : owed (xC x k j).s k j → owed x.s k j := own_owed x.s k j ⟨h1, h2, h3, h4, h5, h6, h7, h8, h9, h10, h11, h12, h13⟩ hpos hcur
    by_cases hlt : (x.s.cons k j).idx < ndeps x.s k
    · have e' : (xC x k j).s.cons k j = { x.s.cons k j with
          acc := minOpt (x.s.cons k j).acc (dep x.s k (x.s.cons k j).idx), idx := (x.s.cons k j).idx + 1 } := by
        rw [e]; simp [stepCons, hpc, hlt]
      by_cases ho : owed x.s k j
      · by_cases ho' : owed (xC x k j).s k j
        · right
          refine ⟨?_, ?_⟩
          · simp only [rankC, e', hpc, hnd, ho, ho', if_true]; omega
          · simp only [readyC, e', hpc]; left; exact ho'
        · left
          apply μ_drop_own_ow x h k j hk hj (by simp [hpc]) k j hk hj
          simp [ow, ho, ho', hpc]
      · right
        have ho' : ¬ owed (xC x k j).s k j := fun hh => ho (himp hh)
        obtain ⟨hcC, hbd, hdn⟩ := hr.resolve_left ho
        have hv : (x.s.cons k j).next ≤ dep x.s k (x.s.cons k j).idx := by have := hcC _ hlt; omega
        refine ⟨?_, ?_⟩
        · simp only [rankC, e', hpc, hnd, hcs, ho, ho', if_false]; omega
        · simp only [readyC, e', hpc]; right
          have := hcc.2 hcC
          rw [e'] at this
          exact ⟨this, by apply Eq.trans _ hbd; exact bad_minOpt (x.s.cons k j) _ hv _ rfl rfl, by rw [hds]; exact hdn⟩
    · have hidx : (x.s.cons k j).idx = ndeps x.s k := by have := h2 hpc; omega
      have e' : (xC x k j).s.cons k j = { x.s.cons k j with avail := (x.s.cons k j).acc.getD 0, pc := .checkAvail } := by
        rw [e]; simp [stepCons, hpc, hlt]
      by_cases ho : owed x.s k j
      · by_cases ho' : owed (xC x k j).s k j
        · right
          have hav : ¬ (x.s.cons k j).next ≤ (x.s.cons k j).acc.getD 0 := by
            obtain ⟨_, _, hp⟩ := ho'
            unfold parkish at hp
            rw [e'] at hp
            simp only at hp
            omega
          refine ⟨?_, ?_⟩
          · simp only [rankC, e', hpc, ho, if_true, hav, if_false]; omega
          · simp only [readyC, e']; right; exact ho'
        · left
          apply μ_drop_own_ow x h k j hk hj (by simp [hpc]) k j hk hj
          simp [ow, ho, ho', hpc]
      · right
        obtain ⟨hcC, hbd, hdn⟩ := hr.resolve_left ho
        have hsome := h5 hpc (by omega)
        cases hacc : (x.s.cons k j).acc with
        | none => simp [hacc] at hsome
        | some m =>
          have hmn : (x.s.cons k j).next ≤ m := by
            have : ¬ m < (x.s.cons k j).next := by simpa [bad, hacc] using hbd
            omega
          have hmle : ∀ d, d < ndeps x.s k → m ≤ dep x.s k d := fun d hd => h4 hpc m hacc d (by omega)
          have hmc : m ≤ x.s.cursor := Nat.le_trans (hmle 0 hpos) (Spin.dep_le_cursor x.s h.b.base.1 k hk 0 hpos)
          refine ⟨?_, ?_⟩
          · simp only [rankC, e', hpc, ho, if_false, hacc, Option.getD_some, hmn, if_true]; omega
          · simp only [readyC, e', hacc, Option.getD_some]; left; exact hmn
  case checkAvail =>
    obtain ⟨e, hcur, hcc, hcd⟩ := own_frame x k j (by simp [hpc])
    by_cases ha : (x.s.cons k j).next ≤ (x.s.cons k j).avail
    · right
      have e' : (xC x k j).s.cons k j = { x.s.cons k j with pc := .bUnlockGo } := by
        rw [e]; simp [stepCons, hpc, hblk, ha]
      refine ⟨?_, ?_⟩
      · simp only [rankC, e', hpc, ha, if_true]; omega
      · simp only [readyC, e']
    · right
      have ho : owed x.s k j := hr.resolve_left ha
      have e' : (xC x k j).s.cons k j = { x.s.cons k j with pc := .bWait } := by
        rw [e]; simp [stepCons, hpc, hblk, ha]
      have ho' : owed (xC x k j).s k j := by
        refine ⟨hblk, hcd.2 ho.2.1, ?_⟩
        unfold parkish; rw [e']; trivial
      refine ⟨?_, ?_⟩
      · simp only [rankC, e', hpc, ha, if_false]; omega
      · simp only [readyC, e']; exact ho'
  case bUnlockGo =>
    right
    obtain ⟨e, hcur, hcc, hcd⟩ := own_frame x k j (by simp [hpc])
    have e' : (xC x k j).s.cons k j = { x.s.cons k j with pc := .handle, i := (x.s.cons k j).next } := by
      rw [e]; simp [stepCons, hpc]
    have := h7 (by simp [hpc])
    refine ⟨?_, ?_⟩
    · simp only [rankC, e', hpc]; omega
    · simp only [readyC, e']
  case bWait =>
    left
    obtain ⟨e, hcur, hcc, hcd⟩ := own_frame x k j (by simp [hpc])
    have e' : (xC x k j).s.cons k j = { x.s.cons k j with pc := .bRelock } := by
      rw [e]; simp [stepCons, hpc]
    apply μ_drop_own_ow x h k j hk hj (by simp [hpc]) k j hk hj
    have : ow (xC x k j) k j ≤ 1 := by
      unfold ow; rw [e']; split <;> simp
    have : ow x k j = 2 := by simp [ow, hr, hpc]
    omega
  case bRelock =>
    right
    obtain ⟨e, hcur, hcc, hcd⟩ := own_frame x k j (by simp [hpc])
    have hm : x.s.woken k j = true ∧ x.s.mtx = none := by simpa [enabled, hpc] using he
    have e' : (xC x k j).s.cons k j = { x.s.cons k j with pc := .bUnlockRetry } := by
      rw [e]; simp [stepCons, hpc, hm]
    refine ⟨?_, ?_⟩
    · simp only [rankC, e', hpc, hcs, hnd]; omega
    · simp only [readyC, e']; exact hcd.2 hr.2
  case bUnlockRetry =>
    right
    obtain ⟨e, hcur, hcc, hcd⟩ := own_frame x k j (by simp [hpc])
    have e' : (xC x k j).s.cons k j = { x.s.cons k j with pc := .bLock } := by
      rw [e]; simp [stepCons, hpc]
    refine ⟨?_, ?_⟩
    · simp only [rankC, e', hpc, hcs, hnd]; omega
    · simp only [readyC, e']; exact hcd.2 hr
  case bUnlockExit =>
    left
    apply μ_drop_progress x h k j hk hj
    right; simp [stepCons, hpc]
  case handle =>
    right
    obtain ⟨e, hcur, hcc, hcd⟩ := own_frame x k j (by simp [hpc])
    by_cases hle : (x.s.cons k j).i ≤ (x.s.cons k j).avail
    · have e' : (xC x k j).s.cons k j = { x.s.cons k j with log := (x.s.cons k j).log ++ [(x.s.cons k j).i], i := (x.s.cons k j).i + 1 } := by
        rw [e]; simp [stepCons, hpc, hle]
      refine ⟨?_, ?_⟩
      · simp only [rankC, e', hpc]; omega
      · simp only [readyC, e', hpc]
    · have e' : (xC x k j).s.cons k j = { x.s.cons k j with pc := .publish } := by
        rw [e]; simp [stepCons, hpc, hle]
      have := h10 hpc
      refine ⟨?_, ?_⟩
      · simp only [rankC, e', hpc]; omega
      · simp only [readyC, e']
  case publish =>
    left
    exact μ_drop_progress x h k j hk hj (publish_progress x h k j hk hj hpc)
  case sLock =>
    right
    obtain ⟨e, hcur, hcc, hcd⟩ := own_frame x k j (by simp [hpc])
    have hm : x.s.mtx = none := by simpa [enabled, hpc] using he
    have e' : (xC x k j).s.cons k j = { x.s.cons k j with pc := .sNotify } := by
      rw [e]; simp [stepCons, hpc, hm]
    have hcdi : (condCD (xC x k j).s k j) = (condCD x.s k j) := propext hcd
    by_cases hc : condCD x.s k j
    · refine ⟨?_, ?_⟩
      · simp only [rankC, e', hpc, hcs, hnd, hcdi, hc, if_true]; omega
      · simp only [readyC, e']; left; exact hcd.2 hc
    · have hop : owedParked x := hr.resolve_left hc
      refine ⟨?_, ?_⟩
      · simp only [rankC, e', hpc, hcdi, hc, if_false]; omega
      · simp only [readyC, e']; right
        exact owedParked_xC x k j (by simp [hpc]) (by simp [hpc]) (by simp [wokenAfterC, hpc]) hop
  case sNotify =>
    obtain ⟨e, hcur, hcc, hcd⟩ := own_frame x k j (by simp [hpc])
    have e' : (xC x k j).s.cons k j = { x.s.cons k j with pc := .sUnlock } := by
      rw [e]; simp [stepCons, hpc]
    have hcdi : (condCD (xC x k j).s k j) = (condCD x.s k j) := propext hcd
    by_cases hc : condCD x.s k j
    · right
      refine ⟨?_, ?_⟩
      · simp only [rankC, e', hpc, hcs, hnd, hc, if_true]; omega
      · simp only [readyC, e']; exact hcd.2 hc
    · left
      obtain ⟨a, b, ha, hb, hpa, hoa⟩ := hr.resolve_left hc
      apply μ_drop_own_ow x h k j hk hj (by simp [hpc]) a b ha hb
      have hne : ¬(a = k ∧ b = j) := by
        intro he; obtain ⟨rfl, rfl⟩ := he; rw [hpc] at hpa; cases hpa
      have hno : ¬ owed (xC x k j).s a b := by
        intro ⟨_, _, hp⟩
        unfold parkish at hp
        have : (xC x k j).s.cons a b = x.s.cons a b := stepC_other _ _ _ _ _ hne
        rw [this, hpa] at hp
        have hw : (xC x k j).s.woken a b = true := by
          show wokenAfterC x.s k j a b = true
          simp [wokenAfterC, hpc]
        simp [hw] at hp
      simp [ow, hoa, hno, hpa]
  case sUnlock =>
    right
    obtain ⟨e, hcur, hcc, hcd⟩ := own_frame x k j (by simp [hpc])
    have e' : (xC x k j).s.cons k j = { x.s.cons k j with pc := .readOwn } := by
      rw [e]; simp [stepCons, hpc]
    refine ⟨?_, ?_⟩
    · simp only [rankC, e', hpc, hcs, hnd]; omega
    · simp only [readyC, e']; exact hcd.2 hr
theorem condG_prod (x : PSt) (stop : Nat) : condG (stepProd x).s stop ↔ condG x.s stop := by
  obtain ⟨ec, eK, eh, en, _⟩ := cons_same_prod x
  simp only [condG, ngate, gate, ec, eK, eh, en]

theorem condD_prod (x : PSt) (nw : Nat) : condD (stepProd x).s nw ↔ condD x.s nw := by
  obtain ⟨ec, eK, eh, en, _⟩ := cons_same_prod x
  simp only [condD, ngate, gate, ec, eK, eh]

theorem ngate_prod (x : PSt) : ngate (stepProd x).s = ngate x.s := by
  obtain ⟨ec, eK, eh, en, _⟩ := cons_same_prod x
  simp only [ngate, eK, eh]

/-- the producer's progress events besides the stores -/
def progP (x : PSt) : Prop :=
  x.p.pc = .start ∨ x.p.pc = .drainInit ∨ x.p.pc = .publish ∨ x.p.pc = .pUnlock ∨ x.p.pc = .setDone ∨
  x.p.pc = .eUnlock ∨ x.p.pc = .dropDone ∨ x.p.pc = .fUnlock ∨ (x.p.pc = .drainCheck ∧ ¬ x.p.min < x.p.current)

theorem μ_prod_lt (x : PSt) (h : JInv x) (hp : progP x) : μ (stepProd x) < μ x := by
  apply μ_lt_of_main x _ (bnd_step x .prod)
  show μmain (stepProd x) < μmain x
  have hf := fin_prod x h.b.base
  have hcf := cursor_le_fin x h.b.base
  simp only [μmain, μC_prod x h.b.base]
  obtain ⟨⟨⟨hI, hK, hP, hbb⟩, _, _⟩, hblk, hfit, hfc⟩ := h
  obtain ⟨q1, q2, q3, q4, q5, q6, q6c, q7, q8, q9, q10, q11, q12⟩ := hP
  simp only [μP, hf]
  apply Nat.add_lt_add_left
  unfold progP at hp
  cases hpc : x.p.pc <;> simp only [hpc] at hp <;> (try simp at hp)
  case start =>
    cases htodo : x.p.todo with
    | nil => simp [stepProd, hpc, htodo, phaseB]
    | cons b rest => simp [stepProd, hpc, htodo, phaseB]; omega
  case drainCheck =>
    have hp' : ¬ x.p.min < x.p.current := by omega
    simp [stepProd, hpc, hp', phaseB]
  all_goals (simp only [stepProd, hpc, hblk, ↓reduceIte] <;> simp [phaseB] <;> grind)

theorem owedParked_prod (x : PSt) (_h : JInv x)
    (hc : (stepProd x).s.cursor = x.s.cursor) (hd : (stepProd x).s.isDone = x.s.isDone)
    (hw : (stepProd x).s.woken = x.s.woken) (hop : owedParked x) : owedParked (stepProd x) := by
  obtain ⟨ec, eK, eh, en, ebl⟩ := cons_same_prod x
  obtain ⟨a, b, ha, hb, hpc, ho⟩ := hop
  refine ⟨a, b, by rw [eK]; exact ha, by rw [eh]; exact hb, by rw [ec]; exact hpc, ?_⟩
  rw [owed_congr x.s (stepProd x).s a b (by rw [ec]) (by rw [ec]; intros; rfl) hc hd eh ebl (by rw [hw])]
  exact ho

theorem rankP_gateLoad (x : PSt) (h : x.p.pc = .gateLoad) :
    rankP x = if badG x.p x.s.n then (ngate x.s - x.p.idx) + 1 + (1 + ((ngate x.s + 1) + (1 + (x.p.stop + 2 - x.p.start))))
              else (ngate x.s - x.p.idx) + 1 + (1 + (x.p.stop + 2 - x.p.start)) := by
  simp [rankP, h]

theorem rankP_drainLoad (x : PSt) (h : x.p.pc = .drainLoad) :
    rankP x = if badD x.p then (ngate x.s - x.p.idx) + 1 + (ngate x.s + 6) else (ngate x.s - x.p.idx) + 2 := by
  simp [rankP, h]

open Classical in
/-- the producer's own enabled step when ready: progress (`μ` drops) or its rank drops and it stays ready -/
theorem hown_prod (x : PSt) (h : JInv x) (hr : readyP x) (he : enabled x .prod = true) :
    μ (stepProd x) < μ x ∨ (rankP (stepProd x) < rankP x ∧ readyP (stepProd x)) := by
  have hng := ngate_prod x
  have hn : (stepProd x).s.n = x.s.n := (cons_same_prod x).2.2.2.1
  have hblk := h.blk
  obtain ⟨hI, hK, hP, hbb⟩ := h.b.base
  obtain ⟨q1, q2, q3, q4, q5, q6, q6c, q7, q8, q9, q10, q11, q12⟩ := hP
  have hgpos := ngate_pos x.s hI.1 hK
  cases hpc : x.p.pc <;> simp only [readyP, hpc] at hr
  case start => left; exact μ_prod_lt x h (by simp [progP, hpc])
  case drainInit => left; exact μ_prod_lt x h (by simp [progP, hpc])
  case publish => left; exact μ_prod_lt x h (by simp [progP, hpc])
  case pUnlock => left; exact μ_prod_lt x h (by simp [progP, hpc])
  case setDone => left; exact μ_prod_lt x h (by simp [progP, hpc])
  case eUnlock => left; exact μ_prod_lt x h (by simp [progP, hpc])
  case dropDone => left; exact μ_prod_lt x h (by simp [progP, hpc])
  case fUnlock => left; exact μ_prod_lt x h (by simp [progP, hpc])
  case gateCheck =>
    right
    have hg : condG x.s x.p.stop := hr
    by_cases hc : x.p.min + x.s.n < x.p.stop
    · have e : stepProd x = { x with p := { x.p with pc := .gateLoad, acc := none, idx := 0 } } := by
        simp [stepProd, hpc, hc]
      refine ⟨?_, ?_⟩
      · rw [e]; simp [rankP, hpc, hc, badG]
      · have := (condG_prod x x.p.stop).2 hg
        rw [e] at this ⊢; simpa [readyP] using this
    · have e : stepProd x = { x with p := { x.p with cached := x.p.min, nextWrite := x.p.stop + 1, w := x.p.start, pc := .write, claims := x.p.claims ++ [(x.p.start, x.p.stop, x.p.count)] } } := by
        simp [stepProd, hpc, hc]
      refine ⟨?_, ?_⟩
      · rw [e]; simp [rankP, hpc, hc]
      · rw [e]; simp [readyP]
  case gateLoad =>
    right
    have hg : condG x.s x.p.stop := hr
    by_cases hlt : x.p.idx < ngate x.s
    · have e : stepProd x = { x with p := { x.p with acc := minOpt x.p.acc (gate x.s x.p.idx), idx := x.p.idx + 1 } } := by
        simp [stepProd, hpc, hlt]
      have hb := badG_minOpt x.p { x.p with acc := minOpt x.p.acc (gate x.s x.p.idx), idx := x.p.idx + 1 }
        x.s.n (gate x.s x.p.idx) (hg _ hlt) rfl rfl
      refine ⟨?_, ?_⟩
      · have hL := rankP_gateLoad (stepProd x) (by rw [e]; exact hpc)
        rw [hL, rankP_gateLoad x hpc, e]
        dsimp only
        rw [hb]
        cases badG x.p x.s.n <;> simp <;> omega
      · have := (condG_prod x x.p.stop).2 hg
        rw [e] at this ⊢; simpa [readyP, hpc] using this
    · have hidx : x.p.idx = ngate x.s := by have := q5 (by simp [hpc]); omega
      have hsome := q4 (by simp [hpc]) (by omega)
      cases hacc : x.p.acc with
      | none => simp [hacc] at hsome
      | some m =>
        have e : stepProd x = { x with p := { x.p with min := m, pc := .gateCheck } } := by
          simp [stepProd, hpc, hlt, hacc]
        refine ⟨?_, ?_⟩
        · rw [e]; simp only [rankP, hpc, badG, hacc]
          by_cases hm : m + x.s.n < x.p.stop <;> simp [hm] <;> omega
        · have := (condG_prod x x.p.stop).2 hg
          rw [e] at this ⊢; simpa [readyP] using this
  case write =>
    right
    have hwr := q8 (by simp [hpc])
    by_cases hle : x.p.w ≤ x.p.stop
    · have e : stepProd x = { x with p := { x.p with w := x.p.w + 1, written := x.p.written ++ [x.p.w] } } := by
        simp [stepProd, hpc, hle]
      rw [e]
      refine ⟨?_, by simp [readyP, hpc]⟩
      simp [rankP, hpc]; omega
    · have e : stepProd x = { x with p := { x.p with pc := .publish } } := by simp [stepProd, hpc, hle]
      rw [e]
      refine ⟨?_, by simp [readyP]⟩
      simp [rankP, hpc]; omega
  case pLock =>
    right
    have hm : x.s.mtx = none := by simpa [enabled, hpc] using he
    have e : stepProd x = { s := { x.s with mtx := some .prod }, p := { x.p with pc := .pNotify } } := by
      simp [stepProd, hpc, hm]
    rw [e]; exact ⟨by simp [rankP, hpc], by simp [readyP]⟩
  case pNotify =>
    right
    have e : stepProd x = { s := { x.s with woken := fun _ _ => true }, p := { x.p with pc := .pUnlock } } := by
      simp [stepProd, hpc]
    rw [e]; exact ⟨by simp [rankP, hpc], by simp [readyP]⟩
  case eLock =>
    right
    have hm : x.s.mtx = none := by simpa [enabled, hpc] using he
    have e : stepProd x = { s := { x.s with mtx := some .prod }, p := { x.p with pc := .eNotify } } := by
      simp [stepProd, hpc, hm]
    rw [e]; exact ⟨by simp [rankP, hpc], by simp [readyP]⟩
  case eNotify =>
    right
    have e : stepProd x = { s := { x.s with woken := fun _ _ => true }, p := { x.p with pc := .eUnlock } } := by
      simp [stepProd, hpc]
    rw [e]; exact ⟨by simp [rankP, hpc], by simp [readyP]⟩
  case fLock =>
    right
    have hm : x.s.mtx = none := by simpa [enabled, hpc] using he
    have e : stepProd x = { s := { x.s with mtx := some .prod }, p := { x.p with pc := .fNotify } } := by
      simp [stepProd, hpc, hm]
    rw [e]; exact ⟨by simp [rankP, hpc], by simp [readyP]⟩
  case fNotify =>
    right
    have e : stepProd x = { s := { x.s with woken := fun _ _ => true }, p := { x.p with pc := .fUnlock } } := by
      simp [stepProd, hpc]
    rw [e]; exact ⟨by simp [rankP, hpc], by simp [readyP]⟩
  case drainLoad =>
    right
    have hd : condD x.s x.p.nextWrite := hr
    by_cases hlt : x.p.idx < ngate x.s
    · have e : stepProd x = { x with p := { x.p with acc := minOpt x.p.acc (gate x.s x.p.idx), idx := x.p.idx + 1 } } := by
        simp [stepProd, hpc, hlt]
      have hb := badD_minOpt x.p { x.p with acc := minOpt x.p.acc (gate x.s x.p.idx), idx := x.p.idx + 1 }
        (gate x.s x.p.idx) (hd _ hlt) rfl rfl
      refine ⟨?_, ?_⟩
      · have hL := rankP_drainLoad (stepProd x) (by rw [e]; exact hpc)
        rw [hL, rankP_drainLoad x hpc, e]
        dsimp only
        rw [hb]
        cases badD x.p <;> simp <;> omega
      · have := (condD_prod x x.p.nextWrite).2 hd
        rw [e] at this ⊢; simpa [readyP, hpc] using this
    · have hidx : x.p.idx = ngate x.s := by have := q5 (by simp [hpc]); omega
      have hsome := q4 (by simp [hpc]) (by omega)
      cases hacc : x.p.acc with
      | none => simp [hacc] at hsome
      | some m =>
        have e : stepProd x = { x with p := { x.p with min := m, pc := .drainCheck } } := by
          simp [stepProd, hpc, hlt, hacc]
        refine ⟨?_, ?_⟩
        · rw [e]; simp only [rankP, hpc, badD, hacc]
          by_cases hm : m < x.p.nextWrite - 1 <;> simp [hm] <;> omega
        · have := (condD_prod x x.p.nextWrite).2 hd
          rw [e] at this ⊢; simpa [readyP] using this
  case drainCheck =>
    have hd : condD x.s x.p.nextWrite := hr
    have hcur := q6c (by simp [hpc, PPc.draining])
    by_cases hc : x.p.min < x.p.current
    · right
      have e : stepProd x = { x with p := { x.p with pc := .dLock } } := by
        simp [stepProd, hpc, hc, hblk]
      refine ⟨?_, ?_⟩
      · rw [e]; rw [hcur] at hc; simp [rankP, hpc, hc, hd]
      · have := (condD_prod x x.p.nextWrite).2 hd
        rw [e] at this ⊢; simp only [readyP]; left; exact this
    · left; exact μ_prod_lt x h (by simp [progP, hpc, hc])
  case dLock =>
    right
    have hm : x.s.mtx = none := by simpa [enabled, hpc] using he
    have e : stepProd x = { s := { x.s with mtx := some .prod }, p := { x.p with pc := .dNotify } } := by
      simp [stepProd, hpc, hm]
    have hpc' : (stepProd x).p.pc = .dNotify := by rw [e]
    have hnw : (stepProd x).p.nextWrite = x.p.nextWrite := by rw [e]
    have hcd := condD_prod x x.p.nextWrite
    have hcdi : condD (stepProd x).s x.p.nextWrite = condD x.s x.p.nextWrite := propext hcd
    refine ⟨?_, ?_⟩
    · simp only [rankP, hpc, hpc', hnw, hng, hcdi]
      split <;> omega
    · simp only [readyP, hpc', hnw]
      rcases hr with hr | hr
      · left; exact hcd.2 hr
      · right; exact owedParked_prod x h (by rw [e]) (by rw [e]) (by rw [e]) hr
  case dNotify =>
    have e : stepProd x = { s := { x.s with woken := fun _ _ => true }, p := { x.p with pc := .dUnlock } } := by
      simp [stepProd, hpc]
    have hpc' : (stepProd x).p.pc = .dUnlock := by rw [e]
    have hnw : (stepProd x).p.nextWrite = x.p.nextWrite := by rw [e]
    have hcd := condD_prod x x.p.nextWrite
    by_cases hc : condD x.s x.p.nextWrite
    · right
      refine ⟨?_, ?_⟩
      · simp only [rankP, hpc, hpc', hng, hc, if_true]; omega
      · simp only [readyP, hpc', hnw]; exact hcd.2 hc
    · left
      obtain ⟨a, b, ha, hb, hpa, hoa⟩ := hr.resolve_left hc
      have hns : ¬(x.p.pc = .publish ∨ x.p.pc = .setDone ∨ x.p.pc = .dropDone) := by simp [hpc]
      apply μ_lt_of_ow x _ (bnd_step x .prod) (μmain_prod x h).1
      apply owedW_prod_lt x h hns a b ha hb
      have hno : ¬ owed (stepProd x).s a b := by
        intro ⟨_, _, hp⟩
        unfold parkish at hp
        rw [e] at hp
        simp [hpa] at hp
      simp [ow, hoa, hno, hpa]
  case dUnlock =>
    right
    have hd : condD x.s x.p.nextWrite := hr
    have e : stepProd x = { s := { x.s with mtx := none }, p := { x.p with pc := .drainLoad, acc := none, idx := 0 } } := by
      simp [stepProd, hpc]
    have hpc' : (stepProd x).p.pc = .drainLoad := by rw [e]
    have hidx : (stepProd x).p.idx = 0 := by rw [e]
    have hbd : badD (stepProd x).p = false := by rw [e]; simp [badD]
    have hnw : (stepProd x).p.nextWrite = x.p.nextWrite := by rw [e]
    refine ⟨?_, ?_⟩
    · simp only [rankP, hpc, hpc', hng, hidx, hbd]; simp
    · simp only [readyP, hpc', hnw]; exact (condD_prod x x.p.nextWrite).2 hd
/-- away from `bRelock` the obligation does not depend on the wake-up flags -/
theorem owed_congr_nr (s s' : St) (k j : Nat) (hcj : s'.cons k j = s.cons k j)
    (hcur : ∀ a b, (s'.cons a b).cur = (s.cons a b).cur) (hcursor : s'.cursor = s.cursor)
    (hd : s'.isDone = s.isDone) (hh : s'.h = s.h) (hb : s'.blocking = s.blocking)
    (hnr : (s.cons k j).pc ≠ .bRelock) : owed s' k j ↔ owed s k j := by
  unfold owed parkish
  rw [condC_congr s s' k _ hcur hcursor hh, hcj, hd, hb]
  cases hpc : (s.cons k j).pc <;> simp_all

open Classical in
/-- readiness and rank of a handler only depend on its own state, the counters it reads, `is_done`, its wake-up
flag, and on whether somebody is parked and owed a wake-up -/
theorem cons_frame (x x' : PSt) (k j : Nat) (hcj : x'.s.cons k j = x.s.cons k j)
    (hcur : ∀ a b, (x'.s.cons a b).cur = (x.s.cons a b).cur) (hcursor : x'.s.cursor = x.s.cursor)
    (hd : x'.s.isDone = x.s.isDone) (hh : x'.s.h = x.s.h) (hb : x'.s.blocking = x.s.blocking)
    (hw : x.s.woken k j = true → x'.s.woken k j = true)
    (hop : owedParked x → owedParked x')
    (hr : readyC x k j) : rankC x' k j = rankC x k j ∧ readyC x' k j := by
  have hcc : condC x'.s k (x.s.cons k j) ↔ condC x.s k (x.s.cons k j) := condC_congr x.s x'.s k _ hcur hcursor hh
  have hcd : condCD x'.s k j = condCD x.s k j := by
    unfold condCD; rw [hcj, hd]; exact propext (by rw [hcc])
  have hnd : ndeps x'.s k = ndeps x.s k := by simp [ndeps, hh]
  have hcci : condC x'.s k (x.s.cons k j) = condC x.s k (x.s.cons k j) := propext hcc
  by_cases hnr : (x.s.cons k j).pc = .bRelock
  · unfold readyC at hr ⊢
    unfold rankC
    rw [hcj]
    simp only [hnr] at hr ⊢
    simp only [hcursor, hnd, hcd]
    exact ⟨trivial, hw hr.1, hr.2⟩
  have ho : owed x'.s k j = owed x.s k j :=
    propext (owed_congr_nr x.s x'.s k j hcj hcur hcursor hd hh hb hnr)
  unfold readyC at hr ⊢
  unfold rankC
  rw [hcj]
  cases hpc : (x.s.cons k j).pc <;> simp only [hpc] at hr hnr ⊢ <;>
    simp only [hcursor, hd, hnd, hcd, hcci, ho, true_and, and_true] <;> (try exact hr) <;>
    (try exact absurd trivial hnr)
  case sLock => exact hr.imp id hop
  case sNotify => exact hr.imp id hop

open Classical in
theorem prod_frame' (x x' : PSt) (hp : x'.p = x.p) (hg : ∀ d, gate x'.s d = gate x.s d)
    (hng : ngate x'.s = ngate x.s) (hn : x'.s.n = x.s.n) (hop : owedParked x → owedParked x')
    (hr : readyP x) : rankP x' = rankP x ∧ readyP x' := by
  have hG : ∀ stop, condG x'.s stop = condG x.s stop := by
    intro stop; simp only [condG, hg, hng, hn]
  have hD : ∀ nw, condD x'.s nw = condD x.s nw := by
    intro nw; simp only [condD, hg, hng]
  unfold readyP at hr ⊢
  unfold rankP
  rw [hp]
  cases hpc : x.p.pc <;> simp only [hpc] at hr ⊢ <;> simp only [hG, hD, hng, hn, true_and, and_true] <;> (try exact hr)
  case dLock => exact hr.imp id hop
  case dNotify => exact hr.imp id hop

theorem upd_self (f : Nat → Nat → Cons) (k j : Nat) : upd f k j (f k j) = f := by
  funext a b; unfold upd; split
  · rename_i h; rw [h.1, h.2]
  · rfl

theorem stepC_stutter (s : St) (k j : Nat)
    (he : (match (s.cons k j).pc with
           | .bLock | .sLock => s.mtx.isNone
           | .bRelock => s.woken k j && s.mtx.isNone
           | .done => false
           | _ => true) = false) : stepC s k j = s := by
  obtain ⟨n, K, h, bl, cur, dn, mtx, wk, cons⟩ := s
  simp only at he
  cases hm : mtx <;> cases hw : wk k j <;> cases hpc : (cons k j).pc <;>
    simp only [hpc, hm, hw] at he <;> (try cases he) <;>
    simp [stepC, stepCons, mtxAfterC, wokenAfterC, hpc, hw, upd_self] <;>
    (rw [← hpc, upd_self])

/-- a disabled step is a stutter -/
theorem stutter (x : PSt) (t : Tid) (he : enabled x t = false) : stepX x t = x := by
  cases t with
  | prod =>
    show stepProd x = x
    cases hm : x.s.mtx <;> cases hpc : x.p.pc <;> simp only [enabled, hpc, hm] at he <;> (try cases he) <;>
      simp [stepProd, hpc, hm]
  | cons k j =>
    simp only [stepX]; split
    · rw [stepC_stutter x.s k j he]
    · rfl
theorem woken_other_eq (s : St) (k j k' j' : Nat) (hne : ¬(k' = k ∧ j' = j)) (hns : (s.cons k j).pc ≠ .sNotify) :
    wokenAfterC s k j k' j' = s.woken k' j' := by
  cases hpc : (s.cons k j).pc <;> simp only [wokenAfterC, hpc, hne, if_false] <;> simp_all

open Classical in
/-- somebody parked and owed a wake-up stays so under a producer step that is not a store — or `μ` drops (it was
notified) -/
theorem owedParked_prod_step (x : PSt) (h : JInv x)
    (hns : ¬(x.p.pc = .publish ∨ x.p.pc = .setDone ∨ x.p.pc = .dropDone)) (hop : owedParked x) :
    owedParked (stepProd x) ∨ μ (stepProd x) < μ x := by
  rcases prod_frame x h.blk with hs | ⟨h1, h2, h3⟩
  · exact absurd hs hns
  rcases h3 with h3 | h3
  · exact Or.inl (owedParked_prod x h h1 h2 h3 hop)
  · right
    obtain ⟨a, b, ha, hb, hpa, hoa⟩ := hop
    obtain ⟨ec, _, _, _, _⟩ := cons_same_prod x
    apply μ_lt_of_ow x _ (bnd_step x .prod) (μmain_prod x h).1
    apply owedW_prod_lt x h hns a b ha hb
    have hno : ¬ owed (stepProd x).s a b := by
      intro ⟨_, _, hp⟩
      unfold parkish at hp
      rw [ec, hpa, h3] at hp
      simp at hp
    simp [ow, hoa, hno, hpa]

open Classical in
theorem owedParked_cons_step (x : PSt) (h : JInv x) (k j : Nat) (hk : k < x.s.K) (hj : j < x.s.h k)
    (hnp : (x.s.cons k j).pc ≠ .publish) (hop : owedParked x) :
    owedParked (xC x k j) ∨ μ (xC x k j) < μ x := by
  obtain ⟨a, b, ha, hb, hpa, hoa⟩ := hop
  have hcur := cons_cur_nonpublish x.s k j _ hnp
  by_cases he : a = k ∧ b = j
  · -- the parked handler itself: its step is a stutter
    obtain ⟨rfl, rfl⟩ := he
    left
    have hw : x.s.woken a b = false := by
      have := hoa.2.2; unfold parkish at this; rw [hpa] at this; exact this
    have hen : enabled x (.cons a b) = false := by simp [enabled, hpa, hw]
    have : xC x a b = x := by
      have := stutter x (.cons a b) hen
      simpa [stepX, hk, hj, xC] using this
    rw [this]; exact ⟨a, b, ha, hb, hpa, hoa⟩
  · by_cases hsn : (x.s.cons k j).pc = .sNotify
    · right
      apply μ_drop_own_ow x h k j hk hj hnp a b ha hb
      have hno : ¬ owed (xC x k j).s a b := by
        intro ⟨_, _, hp⟩
        unfold parkish at hp
        have e1 : (xC x k j).s.cons a b = x.s.cons a b := stepC_other _ _ _ _ _ he
        have hw : (xC x k j).s.woken a b = true := by
          show wokenAfterC x.s k j a b = true
          simp [wokenAfterC, hsn]
        rw [e1, hpa, hw] at hp
        cases hp
      simp [ow, hoa, hno, hpa]
    · left
      refine ⟨a, b, ha, hb, ?_, ?_⟩
      · show ((stepC x.s k j).cons a b).pc = .bRelock
        rw [stepC_other _ _ _ _ _ he]; exact hpa
      · show owed (stepC x.s k j) a b
        rw [owed_congr x.s (stepC x.s k j) a b (stepC_other _ _ _ _ _ he) (xC_cur_same x k j hcur) rfl rfl rfl rfl
          (by rw [stepC_woken]; exact woken_other_eq x.s k j a b he hsn)]
        exact hoa

open Classical in
/-- any other thread's step (or a disabled step of the thread itself): `μ` drops, or the ready thread's rank and
readiness are untouched -/
theorem hoth (x : PSt) (t u : Tid) (h : JInv x) (hr : ready x t) (hu : u ≠ t ∨ ¬ enabled x t = true) :
    μ (stepX x u) < μ x ∨ (rank t (stepX x u) ≤ rank t x ∧ ready (stepX x u) t) := by
  by_cases hut : u = t
  · subst hut
    have hen : enabled x u = false := by
      rcases hu with hu | hu
      · exact absurd rfl hu
      · simpa using hu
    rw [stutter x u hen]; exact Or.inr ⟨Nat.le_refl _, hr⟩
  cases u with
  | prod =>
    show μ (stepProd x) < μ x ∨ _
    by_cases hs : x.p.pc = .publish ∨ x.p.pc = .setDone ∨ x.p.pc = .dropDone
    · left; exact μ_lt_of_main x _ (bnd_step x .prod) ((μmain_prod x h).2 hs)
    cases t with
    | prod => exact absurd rfl hut
    | cons k j =>
      obtain ⟨hk, hj, hrc⟩ := hr
      obtain ⟨ec, eK, eh, en, ebl⟩ := cons_same_prod x
      rcases prod_frame x h.blk with hs' | ⟨f1, f2, f3⟩
      · exact absurd hs' hs
      have hopd : (owedParked x → owedParked (stepProd x)) ∨ μ (stepProd x) < μ x := by
        by_cases hop : owedParked x
        · rcases owedParked_prod_step x h hs hop with h1 | h1
          · exact Or.inl (fun _ => h1)
          · exact Or.inr h1
        · exact Or.inl (fun hh => absurd hh hop)
      rcases hopd with hop | hdrop
      · right
        have := cons_frame x (stepProd x) k j (by rw [ec]) (by rw [ec]; intros; rfl) f1 f2 eh ebl
          (by rcases f3 with f3 | f3 <;> rw [f3] <;> simp) hop hrc
        exact ⟨Nat.le_of_eq this.1, by show k < (stepProd x).s.K; rw [eK]; exact hk,
          by show j < (stepProd x).s.h k; rw [eh]; exact hj, this.2⟩
      · exact Or.inl hdrop
  | cons a b =>
    by_cases hv : a < x.s.K ∧ b < x.s.h a
    · have hstep : stepX x (.cons a b) = xC x a b := by simp [stepX, hv, xC]
      rw [hstep]
      by_cases hp : (x.s.cons a b).pc = .publish
      · left; exact μ_drop_progress x h a b hv.1 hv.2 (publish_progress x h a b hv.1 hv.2 hp)
      have hcur := cons_cur_nonpublish x.s a b _ hp
      have hopd : (owedParked x → owedParked (xC x a b)) ∨ μ (xC x a b) < μ x := by
        by_cases hop : owedParked x
        · rcases owedParked_cons_step x h a b hv.1 hv.2 hp hop with h1 | h1
          · exact Or.inl (fun _ => h1)
          · exact Or.inr h1
        · exact Or.inl (fun hh => absurd hh hop)
      rcases hopd with hop | hdrop
      · right
        cases t with
        | prod =>
          have := prod_frame' x (xC x a b) rfl (gate_xC x a b hcur) rfl rfl hop hr
          exact ⟨Nat.le_of_eq this.1, this.2⟩
        | cons k j =>
          obtain ⟨hk, hj, hrc⟩ := hr
          have hne : ¬(k = a ∧ j = b) := by
            intro he; apply hut; rw [he.1, he.2]
          have := cons_frame x (xC x a b) k j (stepC_other _ _ _ _ _ hne) (xC_cur_same x a b hcur) rfl rfl rfl rfl
            (by
              intro hw
              show wokenAfterC x.s a b k j = true
              cases hh : wokenAfterC x.s a b k j
              · have := woken_other x.s a b k j hne hh; rw [hw] at this; cases this
              · rfl) hop hrc
          exact ⟨Nat.le_of_eq this.1, hk, hj, this.2⟩
      · exact Or.inl hdrop
    · right
      have : stepX x (.cons a b) = x := by simp [stepX, hv]
      rw [this]; exact ⟨Nat.le_refl _, hr⟩
/-! ### the mutex is released after finitely many steps of its owner -/

/-- own steps until the handler that owns the mutex releases it -/
def hrC (nd : Nat) (c : Cons) : Nat :=
  match c.pc with
  | .bAlert => nd + 4
  | .waitLoad => (nd - c.idx) + 3
  | .checkAvail => 2
  | .sNotify => 2
  | .bUnlockGo | .bWait | .bUnlockRetry | .bUnlockExit | .sUnlock => 1
  | _ => 0

def hrP : PPc → Nat
  | .pNotify | .dNotify | .eNotify | .fNotify => 2
  | .pUnlock | .dUnlock | .eUnlock | .fUnlock => 1
  | _ => 0

def hrank (x : PSt) : Nat :=
  match x.s.mtx with
  | some .prod => hrP x.p.pc
  | some (.cons k j) => hrC (ndeps x.s k) (x.s.cons k j)
  | none => 0

theorem hold_cons_step (s : St) (k j : Nat) (hb : s.blocking = true) (hm : s.mtx = some (.cons k j))
    (hc : cHold (s.cons k j).pc = true) (_hidx : (s.cons k j).pc = .waitLoad → (s.cons k j).idx ≤ ndeps s k) :
    mtxAfterC s k j = none ∨
    (mtxAfterC s k j = some (.cons k j) ∧
      hrC (ndeps s k) (stepCons s k j (s.cons k j)) < hrC (ndeps s k) (s.cons k j)) := by
  cases hpc : (s.cons k j).pc <;> simp only [hpc, cHold] at hc <;> (try cases hc)
  case waitLoad =>
    right
    by_cases hlt : (s.cons k j).idx < ndeps s k
    · simp [mtxAfterC, stepCons, hpc, hm, hlt, hrC]; omega
    · simp [mtxAfterC, stepCons, hpc, hm, hlt, hrC]
  case bAlert =>
    right
    by_cases hd : s.isDone = true
    · simp [mtxAfterC, stepCons, hpc, hm, hd, hrC]
    · simp [mtxAfterC, stepCons, hpc, hm, hd, hrC]
  case checkAvail =>
    right
    by_cases ha : (s.cons k j).avail ≥ (s.cons k j).next
    · simp [mtxAfterC, stepCons, hpc, hm, hb, ha, hrC]
    · simp [mtxAfterC, stepCons, hpc, hm, hb, ha, hrC]
  all_goals (simp [mtxAfterC, stepCons, hpc, hm, hrC])

theorem hold_prod_step (x : PSt) (hm : x.s.mtx = some .prod) (hc : pHold x.p.pc = true) :
    (stepProd x).s.mtx = none ∨
    ((stepProd x).s.mtx = some .prod ∧ hrP (stepProd x).p.pc < hrP x.p.pc) := by
  cases hpc : x.p.pc <;> simp only [hpc, pHold] at hc <;> (try cases hc) <;> simp [stepProd, hpc, hm, hrP]

/-- the owner of the mutex: its step releases the mutex or brings the release closer -/
theorem hhown (x : PSt) (u : Tid) (h : JInv x) (hm : x.s.mtx = some u) :
    (stepX x u).s.mtx = none ∨ (hrank (stepX x u) < hrank x ∧ (stepX x u).s.mtx = some u) := by
  cases u with
  | prod =>
    have hc := (h.b.mtx.blkP h.blk).2 hm
    rcases hold_prod_step x hm hc with h1 | ⟨h1, h2⟩
    · exact Or.inl h1
    · right
      refine ⟨?_, h1⟩
      show hrank (stepProd x) < hrank x
      simp only [hrank, h1, hm]; exact h2
  | cons k j =>
    obtain ⟨hk, hj⟩ := h.b.mtx.owner k j hm
    have hc := ((h.b.mtx.blkC h.blk k j hk hj).1).2 hm
    have hstep : stepX x (.cons k j) = xC x k j := by simp [stepX, hk, hj, xC]
    rw [hstep]
    rcases hold_cons_step x.s k j h.blk hm hc (h.b.base.1.2 k j hk hj).idxLe with h1 | ⟨h1, h2⟩
    · exact Or.inl h1
    · right
      refine ⟨?_, h1⟩
      have e1 : (xC x k j).s.mtx = some (.cons k j) := h1
      have e2 : (xC x k j).s.cons k j = stepCons x.s k j (x.s.cons k j) := stepC_own _ _ _
      have e3 : ndeps (xC x k j).s k = ndeps x.s k := rfl
      simp only [hrank, e1, hm, e2, e3]; exact h2

/-- nobody else can take or release the mutex, or change the owner's distance to its release -/
theorem hhoth (x : PSt) (u v : Tid) (h : JInv x) (hm : x.s.mtx = some u) (hne : v ≠ u) :
    hrank (stepX x v) = hrank x ∧ (stepX x v).s.mtx = some u := by
  have hM := h.b.mtx
  cases v with
  | prod =>
    show hrank (stepProd x) = hrank x ∧ (stepProd x).s.mtx = some u
    obtain ⟨ec, eK, eh, en, ebl⟩ := cons_same_prod x
    have hmm : (stepProd x).s.mtx = x.s.mtx := by
      rcases (prod_mtx_step x h.blk (hM.blkP h.blk)).2 with h1 | ⟨h1, _⟩ | ⟨h1, _⟩
      · exact h1
      · rw [hm] at h1; cases h1
      · rw [hm] at h1; injection h1 with h1; exact absurd h1.symm hne
    refine ⟨?_, by rw [hmm]; exact hm⟩
    cases u with
    | prod => exact absurd rfl hne
    | cons k j =>
      have hn : ndeps (stepProd x).s k = ndeps x.s k := by simp [ndeps, eh]
      simp only [hrank, hmm, hm, ec, hn]
  | cons a b =>
    by_cases hv : a < x.s.K ∧ b < x.s.h a
    · have hstep : stepX x (.cons a b) = xC x a b := by simp [stepX, hv, xC]
      rw [hstep]
      obtain ⟨c1, c2⟩ := hM.blkC h.blk a b hv.1 hv.2
      have hmm : (xC x a b).s.mtx = x.s.mtx := by
        show mtxAfterC x.s a b = x.s.mtx
        rcases (cons_mtx_step x.s a b h.blk c1 c2).2.2 with h1 | ⟨h1, _⟩ | ⟨h1, _⟩
        · exact h1
        · rw [hm] at h1; cases h1
        · rw [hm] at h1; injection h1 with h1; exact absurd h1.symm hne
      refine ⟨?_, by rw [hmm]; exact hm⟩
      cases u with
      | prod => simp only [hrank, hmm, hm]; rfl
      | cons k j =>
        have hkj : ¬(k = a ∧ j = b) := by intro he; apply hne; rw [he.1, he.2]
        have e2 : (xC x a b).s.cons k j = x.s.cons k j := stepC_other _ _ _ _ _ hkj
        have e3 : ndeps (xC x a b).s k = ndeps x.s k := rfl
        simp only [hrank, hmm, hm, e2, e3]
    · have : stepX x (.cons a b) = x := by simp [stepX, hv]
      rw [this]; exact ⟨rfl, hm⟩

/-- a ready thread is enabled whenever the mutex is free -/
theorem hen (x : PSt) (t : Tid) (hr : ready x t) (hf : x.s.mtx = none) : enabled x t = true := by
  cases t with
  | prod =>
    have hr' : readyP x := hr
    cases hpc : x.p.pc <;> simp_all [enabled, readyP]
  | cons k j =>
    obtain ⟨_, _, hr'⟩ := hr
    unfold readyC at hr'
    cases hpc : (x.s.cons k j).pc <;> simp_all [enabled]

/-- **C06 core (single producer, blocking wait)**: from every configuration whose batches fit the ring, every
schedule that is weakly fair and strongly fair (a thread of the topology whose step is enabled infinitely often takes an
enabled step infinitely often — only `lock` / `relock` steps can be disabled) drives the pipeline to the state where the
producer has returned from `drain` and `Drop` and every handler thread has terminated. -/
theorem ring_terminates (x0 : PSt) (h0 : JInv x0) (σ : Nat → Tid)
    (hwf : Fair.WeakFair (inTopo x0.s.K x0.s.h) σ)
    (hsf : Fair.StrongFair stepX (fun x t => enabled x t = true) (inTopo x0.s.K x0.s.h) σ x0) :
    ∃ n, terminal (Fair.run stepX σ x0 n) := by
  apply Fair.fair_termination_sf stepX (inTopo x0.s.K x0.s.h)
    (fun x => JInv x ∧ x.s.K = x0.s.K ∧ x.s.h = x0.s.h) terminal (fun x t => enabled x t = true) ready μ rank
    (fun x => x.s.mtx = none) (fun x u => x.s.mtx = some u) hrank
  · intro s t ⟨hs, e1, e2⟩
    obtain ⟨f1, f2, _⟩ := topo_step s t
    exact ⟨jinv_step s t hs, by rw [f1, e1], by rw [f2, e2]⟩
  · intro s t hs; exact μ_mono s t hs.1
  · intro s ⟨hs, e1, e2⟩ hnt
    obtain ⟨t, ht, hr⟩ := exists_ready s hs hnt
    exact ⟨t, by rw [← e1, ← e2]; exact ht, hr⟩
  · intro s t hs hr he
    cases t with
    | prod => exact hown_prod s hs.1 hr he
    | cons k j =>
      obtain ⟨hk, hj, hrc⟩ := hr
      have hstep : stepX s (.cons k j) = xC s k j := by simp [stepX, hk, hj, xC]
      rw [hstep]
      rcases hown_cons s hs.1 k j hk hj hrc he with h1 | ⟨h1, h2⟩
      · exact Or.inl h1
      · exact Or.inr ⟨h1, hk, hj, h2⟩
  · intro s t u hs hr hu; exact hoth s t u hs.1 hr hu
  · intro s t _ hr hf; exact hen s t hr hf
  · intro s ⟨hs, e1, e2⟩ hnf
    cases hm : s.s.mtx with
    | none => exact absurd hm hnf
    | some u =>
      refine ⟨u, ?_, rfl⟩
      cases u with
      | prod => trivial
      | cons k j => rw [← e1, ← e2]; exact hs.b.mtx.owner k j hm
  · intro s u hs hm
    rcases hhown s u hs.1 hm with h1 | ⟨h1, h2⟩
    · exact Or.inr (Or.inl h1)
    · exact Or.inr (Or.inr ⟨h1, h2⟩)
  · intro s u v hs hm hne
    obtain ⟨h1, h2⟩ := hhoth s u v hs.1 hm hne
    exact Or.inr (Or.inr ⟨Nat.le_of_eq h1, h2⟩)
  · exact ⟨h0, rfl, rfl⟩
  · exact hwf
  · exact hsf

theorem jinv_init (n K : Nat) (h : Nat → Nat) (batches : List Nat)
    (hK : 0 < K) (hh : ∀ k, k < K → 0 < h k) (hb : ∀ b, b ∈ batches → 1 ≤ b ∧ b ≤ n) :
    JInv (mk n K h true batches) := by
  refine ⟨binv_init n K h true batches hK hh (fun b hbm => (hb b hbm).1), rfl, fun b hbm => (hb b hbm).2, ?_⟩
  simp [mk]
/-! ### fairness of lock acquisition only -/

/-- the thread's next step is a mutex acquisition (`lock`, or the re-acquisition after `cvar.wait`) -/
def atLock (x : PSt) : Tid → Bool
  | .prod => match x.p.pc with
    | .pLock | .dLock | .eLock | .fLock => true
    | _ => false
  | .cons k j => match (x.s.cons k j).pc with
    | .bLock | .sLock | .bRelock => true
    | _ => false

def finished (x : PSt) : Tid → Bool
  | .prod => decide (x.p.pc = .done)
  | .cons k j => decide ((x.s.cons k j).pc = .done)

theorem enabled_of_plain (x : PSt) (t : Tid) (h1 : atLock x t = false) (h2 : finished x t = false) :
    enabled x t = true := by
  cases t with
  | prod => cases hpc : x.p.pc <;> simp_all [atLock, finished, enabled]
  | cons k j => cases hpc : (x.s.cons k j).pc <;> simp_all [atLock, finished, enabled]

theorem not_finished_of_enabled (x : PSt) (t : Tid) (h : enabled x t = true) : finished x t = false := by
  cases t with
  | prod => cases hpc : x.p.pc <;> simp_all [finished, enabled]
  | cons k j => cases hpc : (x.s.cons k j).pc <;> simp_all [finished, enabled]

/-- another thread's step does not move this thread's program counter -/
theorem plain_other (x : PSt) (t u : Tid) (hne : u ≠ t) :
    atLock (stepX x u) t = atLock x t ∧ finished (stepX x u) t = finished x t := by
  cases u with
  | prod =>
    cases t with
    | prod => exact absurd rfl hne
    | cons k j =>
      obtain ⟨ec, _⟩ := cons_same_prod x
      show atLock (stepProd x) (.cons k j) = _ ∧ finished (stepProd x) (.cons k j) = _
      simp only [atLock, finished, ec, and_self]
  | cons a b =>
    simp only [stepX]; split
    · cases t with
      | prod => exact ⟨rfl, rfl⟩
      | cons k j =>
        have hkj : ¬(k = a ∧ j = b) := by intro he; apply hne; rw [he.1, he.2]
        simp only [atLock, finished, stepC_other _ _ _ _ _ hkj, and_self]
    · exact ⟨rfl, rfl⟩

/-- strong fairness for lock acquisition only: a thread whose `lock` / `relock` step is enabled infinitely often
eventually takes it (while enabled) -/
def LockFair (P : Tid → Prop) (σ : Nat → Tid) (x0 : PSt) : Prop :=
  ∀ t, P t →
    (∀ n, ∃ m, n ≤ m ∧ atLock (Fair.run stepX σ x0 m) t = true ∧ enabled (Fair.run stepX σ x0 m) t = true) →
    ∀ n, ∃ m, n ≤ m ∧ σ m = t ∧ atLock (Fair.run stepX σ x0 m) t = true ∧ enabled (Fair.run stepX σ x0 m) t = true

/-- weak fairness (for the steps that are always enabled) plus strong fairness of lock acquisition give strong
fairness of every step -/
theorem strongFair_of_lockFair (P : Tid → Prop) (σ : Nat → Tid) (x0 : PSt)
    (hwf : Fair.WeakFair P σ) (hlf : LockFair P σ x0) :
    Fair.StrongFair stepX (fun x t => enabled x t = true) P σ x0 := by
  intro t hPt hinf n
  by_cases hA : ∀ n, ∃ m, n ≤ m ∧ atLock (Fair.run stepX σ x0 m) t = true ∧ enabled (Fair.run stepX σ x0 m) t = true
  · obtain ⟨m, hm, h1, _, h3⟩ := hlf t hPt hA n
    exact ⟨m, hm, h1, h3⟩
  · -- from some point on the thread is never at an enabled lock step: whenever enabled it is at a plain step
    have hA' : ∃ N, ∀ m, N ≤ m →
        ¬(atLock (Fair.run stepX σ x0 m) t = true ∧ enabled (Fair.run stepX σ x0 m) t = true) := by
      apply Classical.byContradiction
      intro hno
      apply hA
      intro n
      apply Classical.byContradiction
      intro hno2
      exact hno ⟨n, fun m hm hh => hno2 ⟨m, hm, hh⟩⟩
    obtain ⟨N, hN⟩ := hA'
    obtain ⟨m, hm, he⟩ := hinf (n + N)
    have hpl : atLock (Fair.run stepX σ x0 m) t = false := by
      cases hh : atLock (Fair.run stepX σ x0 m) t
      · rfl
      · exact absurd ⟨hh, he⟩ (hN m (by omega))
    have hfin := not_finished_of_enabled _ t he
    obtain ⟨m', hm', hσ⟩ := hwf t hPt m
    -- the thread stays at its plain step until it is scheduled
    have wait : ∀ d m, atLock (Fair.run stepX σ x0 m) t = false → finished (Fair.run stepX σ x0 m) t = false →
        σ (m + d) = t →
        ∃ m'', m ≤ m'' ∧ σ m'' = t ∧ atLock (Fair.run stepX σ x0 m'') t = false ∧
          finished (Fair.run stepX σ x0 m'') t = false := by
      intro d
      induction d with
      | zero => intro m h1 h2 h3; exact ⟨m, Nat.le_refl _, h3, h1, h2⟩
      | succ d ih =>
        intro m h1 h2 h3
        by_cases hs : σ m = t
        · exact ⟨m, Nat.le_refl _, hs, h1, h2⟩
        · obtain ⟨p1, p2⟩ := plain_other (Fair.run stepX σ x0 m) t (σ m) hs
          obtain ⟨m'', h4, h5⟩ := ih (m + 1) (by show atLock (stepX _ _) t = false; rw [p1]; exact h1)
            (by show finished (stepX _ _) t = false; rw [p2]; exact h2)
            (by rw [show m + 1 + d = m + (d + 1) by omega]; exact h3)
          exact ⟨m'', by omega, h5⟩
    obtain ⟨m'', h4, h5, h6, h7⟩ := wait (m' - m) m hpl hfin (by rw [show m + (m' - m) = m' by omega]; exact hσ)
    exact ⟨m'', by omega, h5, enabled_of_plain _ t h6 h7⟩
theorem jinv_run (x : PSt) (sched : List Tid) (h : JInv x) : JInv (runX x sched) := by
  unfold runX
  induction sched generalizing x with
  | nil => exact h
  | cons t ts ih => exact ih _ (jinv_step x t h)

/-- in a terminal state no thread of the topology is enabled, and every step is a stutter -/
theorem terminal_not_enabled (x : PSt) (ht : terminal x) (t : Tid) (hP : inTopo x.s.K x.s.h t) :
    enabled x t = false := by
  cases t with
  | prod => simp [enabled, ht.1]
  | cons k j => simp [enabled, ht.2 k j hP.1 hP.2]

theorem terminal_fixed (x : PSt) (ht : terminal x) (t : Tid) : stepX x t = x := by
  cases t with
  | prod => exact stutter x .prod (terminal_not_enabled x ht .prod trivial)
  | cons k j =>
    by_cases hv : k < x.s.K ∧ j < x.s.h k
    · exact stutter x (.cons k j) (terminal_not_enabled x ht (.cons k j) hv)
    · simp [stepX, hv]

theorem terminal_run (σ : Nat → Tid) (x0 : PSt) (T : Nat) (ht : terminal (Fair.run stepX σ x0 T)) :
    ∀ d, Fair.run stepX σ x0 (T + d) = Fair.run stepX σ x0 T := by
  intro d
  induction d with
  | zero => rfl
  | succ d ih =>
    show stepX (Fair.run stepX σ x0 (T + d)) (σ (T + d)) = _
    rw [ih]; exact terminal_fixed _ ht _

/-- a run that reaches a terminal state is (vacuously, from then on) fair with respect to lock acquisition as soon as
it is so before that moment; in particular a schedule under which the run terminates is lock-fair -/
theorem lockFair_of_terminates (σ : Nat → Tid) (x0 : PSt) (T : Nat) (ht : terminal (Fair.run stepX σ x0 T)) :
    LockFair (inTopo x0.s.K x0.s.h) σ x0 := by
  intro t hPt hinf n
  exfalso
  obtain ⟨m, hm, _, he⟩ := hinf T
  have e : Fair.run stepX σ x0 m = Fair.run stepX σ x0 T := by
    have := terminal_run σ x0 T ht (m - T)
    rwa [show T + (m - T) = m by omega] at this
  rw [e] at he
  obtain ⟨eK, eh, _⟩ := topo_frun σ x0 T
  have := terminal_not_enabled _ ht t (by rw [eK, eh]; exact hPt)
  rw [this] at he; cases he
end Blk
end Ring
