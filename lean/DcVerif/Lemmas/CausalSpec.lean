import DcVerif.Lemmas.CausalGraph
import DcVerif.Lemmas.ShortestPathFW
import DcVerif.Spec.CausalGraph
/-! Link between the model graph and the executable oracle of `Spec/CausalGraph.lean`: `outgoing_edges` = positive entries
of the weight function, `Reach` = reflexive closure of `FW.Walk`, the tabulated reachability test is exact, and the spec's
routing of observations agrees with `get_obs`. -/
namespace CausalGraph
open Dfs (V)

theorem lookup_eq_find (v : Nat) {β : Type} : ∀ (l : List (Nat × β)),
    l.lookup v = (l.find? fun kv => kv.1 == v).map (·.2) := by
  intro l
  induction l with
  | nil => rfl
  | cons kv rest ih =>
    obtain ⟨k, b⟩ := kv
    by_cases h : k = v
    · subst h; simp [List.lookup, List.find?]
    · have h1 : (v == k) = false := by simpa using Ne.symm h
      have h2 : (k == v) = false := by simpa using h
      simp [List.lookup, List.find?, h1, h2, ih]

theorem hasEdge_iff_weight (g : CG) (a b : Nat) : hasEdge g a b = true ↔ ∃ c, weight g a b = some c := by
  unfold hasEdge weight
  constructor
  · intro h
    rw [List.any_eq_true] at h
    obtain ⟨e, he, hp⟩ := h
    cases hf : g.adj.find? (fun e => e.1 == a && e.2.1 == b) with
    | none => rw [List.find?_eq_none] at hf; exact absurd hp (hf e he)
    | some e' => exact ⟨e'.2.2, by simp⟩
  · rintro ⟨c, hc⟩
    cases hf : g.adj.find? (fun e => e.1 == a && e.2.1 == b) with
    | none => rw [hf] at hc; simp at hc
    | some e' =>
      rw [List.any_eq_true]
      exact ⟨e', List.mem_of_find?_eq_some hf, by have := List.find?_some hf; exact this⟩

theorem weight_bounded (g : CG) (hw : WF g) : FW.Bounded (weight g) g.upper := by
  intro a b c h
  unfold weight at h
  cases hf : g.adj.find? (fun e => e.1 == a && e.2.1 == b) with
  | none => rw [hf] at h; simp at h
  | some e =>
    have hm := List.mem_of_find?_eq_some hf
    have hp := List.find?_some hf
    simp only [Bool.and_eq_true, beq_iff_eq] at hp
    have := hw.adj e hm
    omega

theorem mem_out_iff (g : CG) (hw : WF g) (a b : Nat) : b ∈ out g a ↔ ∃ c, weight g a b = some c := by
  simp only [out, List.mem_filter, List.mem_range]
  rw [hasEdge_iff_weight]
  constructor
  · exact fun h => h.2
  · rintro ⟨c, hc⟩; exact ⟨(weight_bounded g hw a b c hc).2, c, hc⟩

/-- `Reach` is the reflexive closure of "there is a walk" -/
theorem reach_iff_walk (g : CG) (hw : WF g) (s v : Nat) :
    Reach g s v ↔ s = v ∨ ∃ is c, FW.Walk (weight g) s v is c := by
  constructor
  · intro h
    unfold Reach at h
    induction h with
    | refl x => left; rfl
    | @step a b c hb _ ih =>
      obtain ⟨w, hwt⟩ := (mem_out_iff g hw a b).1 hb
      right
      rcases ih with rfl | ⟨is, c', hwalk⟩
      · exact ⟨[], w, FW.Walk.edge hwt⟩
      · exact ⟨b :: is, w + c', FW.Walk.cons hwt hwalk⟩
  · rintro (rfl | ⟨is, c, hwalk⟩)
    · exact Dfs.Reach.refl _
    · induction hwalk with
      | edge he =>
        exact Dfs.Reach.step (g := toG g [] none) ((mem_out_iff g hw _ _).2 ⟨_, he⟩) (Dfs.Reach.refl _)
      | cons he _ ih =>
        exact Dfs.Reach.step (g := toG g [] none) ((mem_out_iff g hw _ _).2 ⟨_, he⟩) ih

/-- the tabulated reachability test the driver runs is exact -/
theorem reachable_iff (g : CG) (hw : WF g) (s v : Nat) :
    CausalSpec.reachable (CausalSpec.table g) s v = true ↔ Reach g s v := by
  rw [reach_iff_walk g hw]
  unfold CausalSpec.reachable CausalSpec.table
  have hd := (FW.dist_correct (weight g) g.upper s v (weight_bounded g hw)).2
  change FW.dist (weight g) g.upper s v = none ↔ _ at hd
  simp only [Bool.or_eq_true, beq_iff_eq]
  constructor
  · rintro (h | h)
    · left; exact h
    · right
      change (FW.dist (weight g) g.upper s v).isSome = true at h
      cases hdd : FW.dist (weight g) g.upper s v with
      | none => rw [hdd] at h; simp at h
      | some d =>
        have : ¬ (FW.dist (weight g) g.upper s v = none) := by rw [hdd]; simp
        rw [hd] at this
        exact Classical.not_not.1 this
  · rintro (h | h)
    · left; exact h
    · right
      change (FW.dist (weight g) g.upper s v).isSome = true
      cases hdd : FW.dist (weight g) g.upper s v with
      | none => exact absurd h (hd.1 hdd)
      | some d => rfl

theorem mem_reachSet (g : CG) (hw : WF g) (s v : Nat) (hs : s < g.upper) :
    v ∈ CausalSpec.reachSet g (CausalSpec.table g) s ↔ Reach g s v := by
  simp only [CausalSpec.reachSet, List.mem_filter, List.mem_range, reachable_iff g hw]
  exact ⟨fun h => h.2, fun h => ⟨reach_lt g s v h hs, h⟩⟩

theorem routed_eq_getObs (id : Nat) (data : List Nat) (idx : Option (List (Nat × Nat))) :
    CausalSpec.routed id data idx = getObs id data idx := by
  cases idx with
  | none => rfl
  | some m =>
    simp only [CausalSpec.routed, getObs, lookup_eq_find]
    cases m.find? (fun kv => kv.1 == id) <;> rfl

/-- the spec's "verdict on the routed observation" is the model's `evalAt` -/
theorem verdictAt_eq_evalAt (g : CG) (hw : WF g) (data : List Nat) (idx : Option (List (Nat × Nat))) (v : Nat) :
    CausalSpec.verdictAt g data idx v = evalAt g data idx v := by
  unfold CausalSpec.verdictAt evalAt getNode
  by_cases hv : v < g.upper
  · have hc : contains g v = true := (hw.idx v).2 hv
    simp only [hc, if_true, lookup_eq_find, routed_eq_getObs]
    cases g.nodeMap.find? (fun kv => kv.1 == v) with
    | none => rfl
    | some kv => simp only [Option.bind_some, Option.map_some]; cases getObs kv.2.id data idx <;> rfl
  · have hc : contains g v = false := by
      cases h : contains g v with
      | false => rfl
      | true => exact absurd ((hw.idx v).1 h) hv
    have : g.nodeMap.find? (fun kv => kv.1 == v) = none := by
      rw [List.find?_eq_none]
      intro kv hkv
      have := hw.keys kv hkv
      simp only [beq_iff_eq]; omega
    simp [hc, this]

end CausalGraph
