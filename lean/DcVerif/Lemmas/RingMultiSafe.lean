import DcVerif.Lemmas.RingMulti
import DcVerif.Props.C19
/-!
Safety of the multi-producer sequencer (`Model/RingMulti.lean`) for **every** schedule, every ring size `n = 2^k`, every
topology, any number of writer threads:

* capacity (`WCap`, `MCap`): a writer that holds a claim `[lo, hi]` has `hi < minG + n` for a value `minG` that is below every
  last-stage cursor — hence (with `below_all`) below every handler cursor: no slot is overwritten before it was consumed;
* release safety (`MSafe`): the cursor, the low watermark and every `good_to_release` value of every writer is a *published
  prefix* — every sequence `1 … c` has been claimed, completely written and its bit has been set by its claimant
  (`Pub`); a bit that is set in the bitmap belongs to a published sequence above the cursor (`BitOk`), and all claimed
  sequences lie in a window of fewer than `n` consecutive numbers above the cursor, so residues identify sequences.

The real races of the code are all covered: two publishers may read the same low watermark, unset overlapping ranges and CAS
the cursor in either order; the low watermark may move backwards; a stale publisher may clear the bit of a sequence one lap
ahead. None of them moves the cursor past an unpublished sequence (they do strand published ones: `Props/C14.lean`).
-/
namespace RingMulti
open Ring

/-! ## the generated bitmap as a residue set -/

def BmOk (n : Nat) (bm : Option Gen.BitMap.BitMap) : Prop :=
  ∃ k b hist, n = 2 ^ k ∧ bm = some b ∧ C19.Inv (2 ^ k) b hist

theorem bmIsSet_eq {k : Nat} {b : Gen.BitMap.BitMap} {hist : List Spec.BitMap.Op} (h : C19.Inv (2 ^ k) b hist) (q : Nat) :
    bmIsSet (some b) q = Spec.BitMap.isSet (2 ^ k) hist q := by
  obtain ⟨w, hw, hb⟩ := h.cells q
  unfold bmIsSet
  simp only [Option.bind_some]
  rw [C19.is_set_nf h.shape, hw]
  simpa using hb

theorem isSet_congr (c : Nat) (hist : List Spec.BitMap.Op) (s s' : Nat) (h : s % c = s' % c) :
    Spec.BitMap.isSet c hist s = Spec.BitMap.isSet c hist s' := by
  induction hist with
  | nil => rfl
  | cons op rest ih => simp only [Spec.BitMap.isSet, h, ih]

theorem bm_init (k : Nat) : BmOk (2 ^ k) (some (Gen.BitMap.build (2 ^ k))) :=
  ⟨k, _, [], rfl, rfl, C19.inv_build k⟩

/-- the answer of `is_set` depends on the residue only -/
theorem bmIsSet_congr {n : Nat} {bm : Option Gen.BitMap.BitMap} (h : BmOk n bm) (q q' : Nat) (hq : q % n = q' % n) :
    bmIsSet bm q = bmIsSet bm q' := by
  obtain ⟨k, b, hist, rfl, rfl, hinv⟩ := h
  rw [bmIsSet_eq hinv, bmIsSet_eq hinv]
  exact isSet_congr _ _ _ _ hq

theorem bm_set {n : Nat} {bm : Option Gen.BitMap.BitMap} (h : BmOk n bm) (b : Nat) :
    BmOk n (bmApply bm (fun m => Gen.BitMap.set m b)) ∧
    ∀ q, bmIsSet (bmApply bm (fun m => Gen.BitMap.set m b)) q = (if b % n = q % n then true else bmIsSet bm q) := by
  obtain ⟨k, m, hist, rfl, rfl, hinv⟩ := h
  obtain ⟨m', hm', hinv'⟩ := C19.inv_step hinv (.set b)
  have e : bmApply (some m) (fun m => Gen.BitMap.set m b) = some m' := by
    simpa [bmApply, Model.BitMap.apply] using hm'
  refine ⟨⟨k, m', _, rfl, e, hinv'⟩, fun q => ?_⟩
  rw [e, bmIsSet_eq hinv', bmIsSet_eq hinv, C19.isSet_cons_set]

theorem bm_unset {n : Nat} {bm : Option Gen.BitMap.BitMap} (h : BmOk n bm) (b : Nat) :
    BmOk n (bmApply bm (fun m => Gen.BitMap.unset m b)) ∧
    ∀ q, bmIsSet (bmApply bm (fun m => Gen.BitMap.unset m b)) q = (if b % n = q % n then false else bmIsSet bm q) := by
  obtain ⟨k, m, hist, rfl, rfl, hinv⟩ := h
  obtain ⟨m', hm', hinv'⟩ := C19.inv_step hinv (.unset b)
  have e : bmApply (some m) (fun m => Gen.BitMap.unset m b) = some m' := by
    simpa [bmApply, Model.BitMap.apply] using hm'
  refine ⟨⟨k, m', _, rfl, e, hinv'⟩, fun q => ?_⟩
  rw [e, bmIsSet_eq hinv', bmIsSet_eq hinv, C19.isSet_cons_unset]

/-- two numbers in a window of fewer than `n` consecutive numbers with the same residue are equal -/
theorem eq_of_mod_eq_window {a b n : Nat} (h : a % n = b % n) (hab : a ≤ b) (hw : b < a + n) : a = b := by
  have h0 : (b - a) % n = 0 := Nat.sub_mod_eq_zero_of_mod_eq h.symm
  have hd : n ∣ b - a := Nat.dvd_of_mod_eq_zero h0
  rcases Nat.eq_zero_or_pos (b - a) with hz | hp
  · omega
  · have := Nat.le_of_dvd hp hd
    omega

/-! ## capacity: what `has_capacity` guarantees to the holder of a claim -/

/-- writer-local facts about the gating loads of `has_capacity` (as `PInv.minLe/accLe/accSome/idxLe` for the single
producer) and the consequence of a successful check: the claimed range ends less than a ring above `minG` -/
structure WCap (s : St) (w : Writer) : Prop where
  minLe   : ∀ d, d < ngate s → w.minG ≤ gate s d
  accLe   : w.pc = .capLoad → ∀ m, w.acc = some m → ∀ d, d < w.idx → m ≤ gate s d
  accSome : w.pc = .capLoad → 0 < w.idx → w.acc.isSome
  idxLe   : w.pc = .capLoad → w.idx ≤ ngate s
  capOk   : w.pc = .casHw → w.hwSeen + w.count < w.minG + s.n
  hiLt    : (w.pc = .write ∨ w.pc = .setBit) → w.hi < w.minG + s.n

theorem wcap_stable (s s' : St) (w : Writer) (h : WCap s w) (hn : ngate s' = ngate s) (hm : ∀ d, gate s d ≤ gate s' d)
    (hnn : s'.n = s.n) : WCap s' w := by
  obtain ⟨h1, h2, h3, h4, h5, h6⟩ := h
  constructor
  · intro d hd; exact Nat.le_trans (h1 d (by omega)) (hm d)
  · intro hp m hmm d hd; exact Nat.le_trans (h2 hp m hmm d hd) (hm d)
  · exact h3
  · rw [hn]; exact h4
  · rw [hnn]; exact h5
  · rw [hnn]; exact h6

theorem wcap_stepWriter (x : MSt) (i : Nat) (hpos : 0 < ngate x.s) (h : WCap x.s (x.wr i)) :
    WCap x.s ((stepWriter x i).wr i) := by
  obtain ⟨h1, h2, h3, h4, h5, h6⟩ := h
  unfold stepWriter
  cases hpc : (x.wr i).pc <;> simp only [hpc]
  case capLoad =>
    split
    · have := load_step_accLe x.s (x.wr i).acc (x.wr i).idx (h2 hpc) (h3 hpc)
      have := minOpt_isSome (x.wr i).acc (gate x.s (x.wr i).idx)
      simp only [updW_same]; constructor <;> grind
    · have := load_done_le x.s (x.wr i).acc (x.wr i).idx (h2 hpc) (h3 hpc) (by grind) hpos
      simp only [updW_same]; constructor <;> grind
  all_goals ((repeat' split) <;> (try simp only [updW_same]) <;> constructor <;> grind)

theorem stepWriter_gate (x : MSt) (i : Nat) :
    ngate (stepWriter x i).s = ngate x.s ∧ (∀ d, gate (stepWriter x i).s d = gate x.s d) := by
  obtain ⟨hc, hK, hh, _⟩ := stepWriter_s x i
  exact ⟨by simp [ngate, hK, hh], fun d => by simp [gate, hK, hc]⟩

theorem stepDrainer_gate (x : MSt) :
    ngate (stepDrainer x).s = ngate x.s ∧ (∀ d, gate (stepDrainer x).s d = gate x.s d) := by
  obtain ⟨hc, hK, hh, _⟩ := stepDrainer_s x
  exact ⟨by simp [ngate, hK, hh], fun d => by simp [gate, hK, hc]⟩

theorem stepDrainer_frame (x : MSt) :
    (stepDrainer x).P = x.P ∧ (stepDrainer x).wr = x.wr ∧ (stepDrainer x).hw = x.hw ∧ (stepDrainer x).lw = x.lw ∧
    (stepDrainer x).bm = x.bm ∧ (stepDrainer x).written = x.written ∧ (stepDrainer x).s.cursor = x.s.cursor ∧
    (stepDrainer x).s.n = x.s.n := by
  unfold stepDrainer
  cases hpc : x.dr.pc <;> simp only [hpc] <;> (repeat' split) <;> simp

/-- `MGood` plus the capacity facts of every writer -/
def MCap (x : MSt) : Prop := MGood x ∧ ∀ i, i < x.P → WCap x.s (x.wr i)

theorem mcap_stepM (x : MSt) (t : MTid) (h : MCap x) : MCap (stepM x t) := by
  obtain ⟨hG, hW⟩ := h
  refine ⟨mgood_stepM x t hG, ?_⟩
  have hpos := ngate_pos x.s hG.2.1.1 hG.2.2
  cases t with
  | writer i =>
    show ∀ i', i' < (if i < x.P then stepWriter x i else x).P → WCap (if i < x.P then stepWriter x i else x).s
      ((if i < x.P then stepWriter x i else x).wr i')
    split
    · rename_i hi
      intro i' hi'
      rw [stepWriter_P] at hi'
      obtain ⟨hn, hg⟩ := stepWriter_gate x i
      have hnn := (stepWriter_s x i).2.2.2
      apply wcap_stable x.s _ _ _ hn (fun d => by rw [hg d]; exact Nat.le_refl _) hnn
      by_cases he : i' = i
      · subst he; exact wcap_stepWriter x i' hpos (hW i' hi')
      · rw [stepWriter_others x i i' he]; exact hW i' hi'
    · exact hW
  | drainer =>
    show ∀ i', i' < (stepDrainer x).P → WCap (stepDrainer x).s ((stepDrainer x).wr i')
    obtain ⟨hP, hwr, _⟩ := stepDrainer_frame x
    obtain ⟨hn, hg⟩ := stepDrainer_gate x
    intro i' hi'
    rw [hP] at hi'; rw [hwr]
    exact wcap_stable x.s _ _ (hW i' hi') hn (fun d => by rw [hg d]; exact Nat.le_refl _) (stepDrainer_s x).2.2.2.1
  | cons k j =>
    show ∀ i', i' < (if k < x.s.K ∧ j < x.s.h k then { x with s := stepC x.s k j } else x).P →
      WCap (if k < x.s.K ∧ j < x.s.h k then { x with s := stepC x.s k j } else x).s
        ((if k < x.s.K ∧ j < x.s.h k then { x with s := stepC x.s k j } else x).wr i')
    split
    · rename_i hkj
      intro i' hi'
      exact wcap_stable x.s _ _ (hW i' hi') rfl (gate_mono_stepC x.s k j hkj.1 hkj.2 hG.2.1) rfl
    · exact hW

theorem mcap_run (x : MSt) (sched : List MTid) (h : MCap x) : MCap (runM x sched) := by
  unfold runM
  induction sched generalizing x with
  | nil => exact h
  | cons t ts ih => exact ih _ (mcap_stepM x t h)

theorem mcap_init (n K : Nat) (hh : Nat → Nat) (blocking : Bool) (batches : List (List Nat))
    (hK : 0 < K) (hpos : ∀ k, k < K → 0 < hh k) (hb : ∀ l, l ∈ batches → ∀ b, b ∈ l → 1 ≤ b) :
    MCap (mkM n K hh blocking batches) := by
  refine ⟨mgood_init n K hh blocking batches hK hpos hb, ?_⟩
  intro i _
  constructor <;> simp [mkM, gate]

theorem mreachableWF_cap {x : MSt} (hr : MReachableWF x) : MCap x := by
  obtain ⟨n, K, h, bl, bs, sched, hK, hh, hb, rfl⟩ := hr
  exact mcap_run _ sched (mcap_init n K h bl bs hK hh hb)

/-- the value `minG` a writer holds is below the cursor of every handler of every stage -/
theorem minG_le_all (x : MSt) (h : MCap x) (i : Nat) (hi : i < x.P) (k j : Nat) (hk : k < x.s.K) (hj : j < x.s.h k) :
    (x.wr i).minG ≤ (x.s.cons k j).cur :=
  below_all x.s h.1.2.1 h.1.2.2 _ (h.2 i hi).minLe (x.s.K - 1 - k) k j (by omega) hj

/-! ## release safety -/

/-- sequence `q` is still pending with writer `w`: claimed by it, and the writer has not yet executed `ready_sequences.set(q)`
(it is still writing its batch, or its `set` loop has not reached `q`) -/
def wpend (w : Writer) (q : Nat) : Prop :=
  (w.pc = .write ∧ w.lo ≤ q ∧ q ≤ w.hi) ∨ (w.pc = .setBit ∧ w.nbit ≤ q ∧ q ≤ w.hi)

def Pend (x : MSt) (q : Nat) : Prop := ∃ i, i < x.P ∧ wpend (x.wr i) q

/-- `q` has been claimed and its claimant has written the whole batch and set the bit of `q` -/
def Pub (x : MSt) (q : Nat) : Prop := 1 ≤ q ∧ q ≤ x.hw ∧ ¬ Pend x q

/-- `c` is a published prefix: every sequence `1 … c` has been published by its claimant -/
def PP (x : MSt) (c : Nat) : Prop := ∀ q, 1 ≤ q → q ≤ c → Pub x q

/-- some published sequence above `g` has the residue of `q` -/
def Wit (x : MSt) (g q : Nat) : Prop := ∃ q0, q0 % x.s.n = q % x.s.n ∧ Pub x q0 ∧ g < q0

/-- if the bit of `q`'s residue is set, it is the bit of a published sequence above `c` -/
def BitOk (x : MSt) (c q : Nat) : Prop := bmIsSet x.bm q = true → Wit x c q

/-- writer-local facts of the release protocol, relative to the global high watermark `hw`, the cursor `cur`, the predicate
"is a published prefix" and the meaning of set bits -/
structure WSafeG (hw cur : Nat) (pp : Nat → Prop) (bok : Nat → Nat → Prop) (w : Writer) : Prop where
  hiLe    : w.hi ≤ hw
  loPos   : (w.pc = .write ∨ w.pc = .setBit) → 1 ≤ w.lo
  nbitGe  : w.pc = .setBit → w.lo ≤ w.nbit
  wGe     : w.pc = .write → w.lo ≤ w.w
  goodPP  : (w.pc = .scan ∨ w.pc = .relCheck ∨ w.pc = .unsetBit ∨ w.pc = .casCur ∨ w.pc = .reloadCur ∨ w.pc = .setLw) →
              pp w.good
  lwSeenLe: (w.pc = .scan ∨ w.pc = .relCheck ∨ w.pc = .unsetBit ∨ w.pc = .casCur ∨ w.pc = .reloadCur ∨ w.pc = .setLw) →
              w.lwSeen ≤ cur
  goodCur : w.pc = .setLw → w.good ≤ cur
  unsetOk : ∀ q, w.lwSeen ≤ q →
              ((w.pc = .unsetBit ∧ q < w.u) ∨ ((w.pc = .casCur ∨ w.pc = .reloadCur) ∧ q ≤ w.good)) → bok w.good q

def WSafe (x : MSt) (w : Writer) : Prop := WSafeG x.hw x.s.cursor (PP x) (BitOk x) w

theorem wsafeG_mono {hw cur hw' cur' : Nat} {pp pp' : Nat → Prop} {bok bok' : Nat → Nat → Prop} {w : Writer}
    (h : WSafeG hw cur pp bok w) (h1 : hw ≤ hw') (h2 : cur ≤ cur') (h3 : ∀ g, pp g → pp' g)
    (h4 : ∀ g q, pp g → bok g q → bok' g q) : WSafeG hw' cur' pp' bok' w := by
  obtain ⟨a1, a2, a3, a4, a5, a6, a7, a8⟩ := h
  refine ⟨by omega, a2, a3, a4, fun hp => h3 _ (a5 hp), fun hp => by have := a6 hp; omega,
    fun hp => by have := a7 hp; omega, ?_⟩
  intro q hq hc
  refine h4 _ _ (a5 ?_) (a8 q hq hc)
  rcases hc with ⟨hc, _⟩ | ⟨hc | hc, _⟩ <;> simp [hc]

/-! ### what one step of a writer changes -/

theorem stepWriter_hw (x : MSt) (i : Nat) :
    (stepWriter x i).hw = x.hw ∨
    ((x.wr i).pc = .casHw ∧ x.hw = (x.wr i).hwSeen ∧ (stepWriter x i).hw = (x.wr i).hwSeen + (x.wr i).count) := by
  unfold stepWriter
  cases hpc : (x.wr i).pc <;> simp only [hpc] <;> (repeat' split) <;> simp_all

theorem stepWriter_lw (x : MSt) (i : Nat) :
    (stepWriter x i).lw = x.lw ∨ ((x.wr i).pc = .setLw ∧ (stepWriter x i).lw = (x.wr i).good) := by
  unfold stepWriter
  cases hpc : (x.wr i).pc <;> simp only [hpc] <;> (repeat' split) <;> simp_all

theorem stepWriter_cursor (x : MSt) (i : Nat) :
    (stepWriter x i).s.cursor = x.s.cursor ∨
    ((x.wr i).pc = .casCur ∧ x.s.cursor = (x.wr i).cur ∧ (stepWriter x i).s.cursor = (x.wr i).good) := by
  unfold stepWriter
  cases hpc : (x.wr i).pc <;> simp only [hpc] <;> (repeat' split) <;> simp_all

theorem stepWriter_bm (x : MSt) (i : Nat) :
    (stepWriter x i).bm = x.bm ∨
    ((x.wr i).pc = .setBit ∧ (x.wr i).nbit ≤ (x.wr i).hi ∧
      (stepWriter x i).bm = bmApply x.bm (fun b => Gen.BitMap.set b (x.wr i).nbit) ∧
      (stepWriter x i).wr i = { x.wr i with nbit := (x.wr i).nbit + 1 }) ∨
    ((x.wr i).pc = .unsetBit ∧ (x.wr i).u ≤ (x.wr i).good ∧
      (stepWriter x i).bm = bmApply x.bm (fun b => Gen.BitMap.unset b (x.wr i).u)) := by
  unfold stepWriter
  cases hpc : (x.wr i).pc <;> simp only [hpc] <;> (repeat' split) <;> simp_all [updW_same]

theorem stepWriter_hw_mono (x : MSt) (i : Nat) : x.hw ≤ (stepWriter x i).hw := by
  rcases stepWriter_hw x i with h | ⟨_, h1, h2⟩ <;> omega

theorem stepWriter_cursor_mono (x : MSt) (i : Nat) (hi : i < x.P) (h : MInv x) : x.s.cursor ≤ (stepWriter x i).s.cursor := by
  have := cursor_mono_stepM x (.writer i) h
  simpa [stepM, hi] using this

/-- the pending set of the stepping writer only shrinks, except for the fresh claim, which lies above the old high watermark -/
theorem wpend_step (x : MSt) (i q : Nat) (h : wpend ((stepWriter x i).wr i) q) : wpend (x.wr i) q ∨ x.hw < q := by
  revert h
  unfold stepWriter wpend
  cases hpc : (x.wr i).pc <;> simp only [hpc] <;> (repeat' split) <;> (try simp only [updW_same]) <;> grind

theorem pub_mono (x : MSt) (i q : Nat) (h : Pub x q) : Pub (stepWriter x i) q := by
  obtain ⟨h1, h2, h3⟩ := h
  refine ⟨h1, Nat.le_trans h2 (stepWriter_hw_mono x i), ?_⟩
  rintro ⟨j, hj, hp⟩
  rw [stepWriter_P] at hj
  by_cases he : j = i
  · subst he
    rcases wpend_step x j q hp with h | h
    · exact h3 ⟨j, hj, h⟩
    · omega
  · rw [stepWriter_others x i j he] at hp
    exact h3 ⟨j, hj, hp⟩

theorem pp_mono (x : MSt) (i c : Nat) (h : PP x c) : PP (stepWriter x i) c :=
  fun q h1 h2 => pub_mono x i q (h q h1 h2)

theorem wit_mono (x : MSt) (i g q : Nat) (h : Wit x g q) : Wit (stepWriter x i) g q := by
  obtain ⟨q0, h1, h2, h3⟩ := h
  exact ⟨q0, by rw [(stepWriter_s x i).2.2.2]; exact h1, pub_mono x i q0 h2, h3⟩

/-- sequence `q` is claimed by writer `w` and not yet written to its slot -/
def unwr (w : Writer) (q : Nat) : Prop := w.pc = .write ∧ w.w ≤ q ∧ q ≤ w.hi

/-- the release part of the invariant; mentions the state only through `P, wr, hw, lw, bm, written, s.cursor, s.n` -/
structure MRel (x : MSt) : Prop where
  ws     : ∀ i, i < x.P → WSafe x (x.wr i)
  window : x.hw < x.s.cursor + x.s.n
  lwLe   : x.lw ≤ x.s.cursor
  pref   : PP x x.s.cursor
  bits   : ∀ q, BitOk x x.s.cursor q
  bmOk   : BmOk x.s.n x.bm
  disj   : ∀ i j q, i < x.P → j < x.P → wpend (x.wr i) q → wpend (x.wr j) q → i = j
  wrote  : ∀ q, 1 ≤ q → q ≤ x.hw → (∃ i, (q, i) ∈ x.written) ∨ (∃ i, i < x.P ∧ unwr (x.wr i) q)

/-- set bits keep their meaning across a step of any writer, relative to any published prefix `c` -/
theorem bitok_step (x : MSt) (i : Nat) (hi : i < x.P) (h : MRel x) (c q : Nat) (hc : PP x c) (hb : BitOk x c q) :
    BitOk (stepWriter x i) c q := by
  have hn := (stepWriter_s x i).2.2.2
  rcases stepWriter_bm x i with e | ⟨hpc, hle, e, ew⟩ | ⟨hpc, hle, e⟩
  · intro hbit; rw [e] at hbit; exact wit_mono _ _ _ _ (hb hbit)
  · obtain ⟨_, hset⟩ := bm_set h.bmOk (x.wr i).nbit
    intro hbit
    rw [e, hset q] at hbit
    by_cases hr : (x.wr i).nbit % x.s.n = q % x.s.n
    · have hws := h.ws i hi
      have hlo := hws.loPos (Or.inr hpc)
      have hnb := hws.nbitGe hpc
      have hhi := hws.hiLe
      have hpend : wpend (x.wr i) (x.wr i).nbit := Or.inr ⟨hpc, Nat.le_refl _, hle⟩
      refine ⟨(x.wr i).nbit, by rw [hn]; exact hr, ⟨by omega, ?_, ?_⟩, ?_⟩
      · have := stepWriter_hw_mono x i; omega
      · rintro ⟨j, hj, hp⟩
        rw [stepWriter_P] at hj
        by_cases he : j = i
        · subst he
          rw [ew] at hp
          rcases hp with ⟨h1, _⟩ | ⟨_, h2, _⟩
          · simp [hpc] at h1
          · simp only at h2; omega
        · rw [stepWriter_others x i j he] at hp
          exact he (h.disj i j _ hi hj hpend hp).symm
      · apply Nat.lt_of_not_le
        intro hcb
        exact (hc _ (by omega) hcb).2.2 ⟨i, hi, hpend⟩
    · rw [if_neg hr] at hbit
      exact wit_mono _ _ _ _ (hb hbit)
  · obtain ⟨_, hun⟩ := bm_unset h.bmOk (x.wr i).u
    intro hbit
    rw [e, hun q] at hbit
    split at hbit
    · exact absurd hbit (by simp)
    · exact wit_mono _ _ _ _ (hb hbit)

theorem wsafe_other (x : MSt) (i j : Nat) (hi : i < x.P) (hj : j < x.P) (hM : MInv x) (h : MRel x) :
    WSafe (stepWriter x i) (x.wr j) :=
  wsafeG_mono (h.ws j hj) (stepWriter_hw_mono x i) (stepWriter_cursor_mono x i hi hM) (fun g hg => pp_mono x i g hg)
    (fun g q hg hb => bitok_step x i hi h g q hg hb)

/-- the scan loop only passes a sequence that is published -/
theorem scan_ok (x : MSt) (i : Nat) (hi : i < x.P) (h : MRel x) (hlt : (x.wr i).good < (x.wr i).hi)
    (hpc : (x.wr i).pc = .scan) (hbit : bmIsSet x.bm ((x.wr i).good + 1) = true) : PP x ((x.wr i).good + 1) := by
  have hws := h.ws i hi
  have hg := hws.goodPP (by simp [hpc])
  intro q h1 h2
  by_cases hq : q ≤ (x.wr i).good
  · exact hg q h1 hq
  · have hqe : q = (x.wr i).good + 1 := by omega
    subst hqe
    by_cases hcur : (x.wr i).good + 1 ≤ x.s.cursor
    · exact h.pref _ h1 hcur
    · obtain ⟨q0, hr, hp, hlt0⟩ := h.bits _ hbit
      have := hp.2.1
      have := hws.hiLe
      have := h.window
      have : q0 = (x.wr i).good + 1 := by
        rcases Nat.le_total q0 ((x.wr i).good + 1) with hle | hle
        · exact eq_of_mod_eq_window hr hle (by omega)
        · exact (eq_of_mod_eq_window hr.symm hle (by omega)).symm
      rw [← this]; exact hp

theorem wsafe_own1 (x : MSt) (i : Nat) (h : WSafe x (x.wr i)) (hlw : PP x x.lw) (hlwc : x.lw ≤ x.s.cursor)
    (hscan : (x.wr i).pc = .scan → (x.wr i).good < (x.wr i).hi → bmIsSet x.bm ((x.wr i).good + 1) = true →
      PP x ((x.wr i).good + 1))
    (hun1 : bmIsSet (bmApply x.bm (fun b => Gen.BitMap.unset b (x.wr i).u)) (x.wr i).u = false)
    (hun2 : ∀ q, bmIsSet (bmApply x.bm (fun b => Gen.BitMap.unset b (x.wr i).u)) q = true → bmIsSet x.bm q = true)
    (hM : WInv (x.wr i)) :
    WSafeG (stepWriter x i).hw (stepWriter x i).s.cursor (PP x)
      (fun g q => bmIsSet (stepWriter x i).bm q = true → Wit x g q) ((stepWriter x i).wr i) := by
  obtain ⟨a1, a2, a3, a4, a5, a6, a7, a8⟩ := h
  obtain ⟨m1, m2, m3, m4, m5⟩ := hM
  simp only [BitOk] at a8
  unfold stepWriter
  cases hpc : (x.wr i).pc <;> simp only [hpc] <;> (repeat' split) <;> (try simp only [updW_same]) <;> constructor <;> grind

theorem wsafe_own (x : MSt) (i : Nat) (hi : i < x.P) (hM : MInv x) (h : MRel x) :
    WSafe (stepWriter x i) ((stepWriter x i).wr i) := by
  obtain ⟨_, hun⟩ := bm_unset h.bmOk (x.wr i).u
  have hlw : PP x x.lw := fun q h1 h2 => h.pref q h1 (Nat.le_trans h2 h.lwLe)
  have s1 := wsafe_own1 x i (h.ws i hi) hlw h.lwLe (fun hpc hlt hbit => scan_ok x i hi h hlt hpc hbit)
    (by rw [hun]; simp) (fun q hq => by rw [hun] at hq; split at hq <;> simp_all) (hM.writers i hi)
  exact wsafeG_mono s1 (Nat.le_refl _) (Nat.le_refl _) (fun g hg => pp_mono x i g hg)
    (fun g q _ hb hbit => wit_mono x i g q (hb hbit))

theorem gate0_le_cursor (x : MSt) (h : MGood x) : gate x.s 0 ≤ x.s.cursor :=
  chain_up x.s h.2.1 (x.s.K - 1) 0 (by have := h.2.2; omega) (h.2.1.1 _ (by have := h.2.2; omega))

theorem window_step (x : MSt) (i : Nat) (hi : i < x.P) (hc : MCap x) (h : MRel x) :
    (stepWriter x i).hw < (stepWriter x i).s.cursor + (stepWriter x i).s.n := by
  have hcur := stepWriter_cursor_mono x i hi hc.1.1
  have hn := (stepWriter_s x i).2.2.2
  have hw := h.window
  rw [hn]
  rcases stepWriter_hw x i with e | ⟨hpc, _, e⟩
  · omega
  · have h1 := (hc.2 i hi).capOk hpc
    have h2 := (hc.2 i hi).minLe 0 (ngate_pos x.s hc.1.2.1.1 hc.1.2.2)
    have h3 := gate0_le_cursor x hc.1
    omega

theorem lwLe_step (x : MSt) (i : Nat) (hi : i < x.P) (hc : MCap x) (h : MRel x) :
    (stepWriter x i).lw ≤ (stepWriter x i).s.cursor := by
  have hcur := stepWriter_cursor_mono x i hi hc.1.1
  have := h.lwLe
  rcases stepWriter_lw x i with e | ⟨hpc, e⟩
  · omega
  · have := (h.ws i hi).goodCur hpc; omega

theorem pref_step (x : MSt) (i : Nat) (hi : i < x.P) (h : MRel x) : PP (stepWriter x i) (stepWriter x i).s.cursor := by
  rcases stepWriter_cursor x i with e | ⟨hpc, _, e⟩
  · rw [e]; exact pp_mono x i _ h.pref
  · rw [e]; exact pp_mono x i _ ((h.ws i hi).goodPP (by simp [hpc]))

theorem bits_step (x : MSt) (i : Nat) (hi : i < x.P) (h : MRel x) (q : Nat) :
    BitOk (stepWriter x i) (stepWriter x i).s.cursor q := by
  rcases stepWriter_cursor x i with e | ⟨hpc, hcas, e⟩
  · rw [e]; exact bitok_step x i hi h _ q h.pref (h.bits q)
  · rw [e]
    have hws := h.ws i hi
    have hpp := hws.goodPP (by simp [hpc])
    apply bitok_step x i hi h _ q hpp
    intro hbit
    obtain ⟨q0, hr, hp, hlt⟩ := h.bits q hbit
    by_cases hg : (x.wr i).good < q0
    · exact ⟨q0, hr, hp, hg⟩
    · have hl := hws.lwSeenLe (by simp [hpc])
      have hb0 : bmIsSet x.bm q0 = true := by rw [bmIsSet_congr h.bmOk q0 q hr]; exact hbit
      obtain ⟨q1, hr1, hp1, hlt1⟩ := hws.unsetOk q0 (by omega) (Or.inr ⟨Or.inl hpc, by omega⟩) hb0
      exact ⟨q1, hr1.trans hr, hp1, hlt1⟩

theorem bmOk_step (x : MSt) (i : Nat) (h : MRel x) : BmOk (stepWriter x i).s.n (stepWriter x i).bm := by
  rw [(stepWriter_s x i).2.2.2]
  rcases stepWriter_bm x i with e | ⟨_, _, e, _⟩ | ⟨_, _, e⟩ <;> rw [e]
  · exact h.bmOk
  · exact (bm_set h.bmOk _).1
  · exact (bm_unset h.bmOk _).1

theorem wpend_le_hw (x : MSt) (h : MRel x) (j q : Nat) (hj : j < x.P) (hp : wpend (x.wr j) q) : q ≤ x.hw := by
  have := (h.ws j hj).hiLe
  rcases hp with ⟨_, _, h2⟩ | ⟨_, _, h2⟩ <;> omega

theorem disj_step (x : MSt) (i : Nat) (h : MRel x) (a b q : Nat) (ha : a < x.P) (hb : b < x.P)
    (hpa : wpend ((stepWriter x i).wr a) q) (hpb : wpend ((stepWriter x i).wr b) q) : a = b := by
  by_cases ea : a = i <;> by_cases eb : b = i
  · omega
  · subst ea
    rw [stepWriter_others x a b eb] at hpb
    rcases wpend_step x a q hpa with h1 | h1
    · exact h.disj a b q ha hb h1 hpb
    · have := wpend_le_hw x h b q hb hpb; omega
  · subst eb
    rw [stepWriter_others x b a ea] at hpa
    rcases wpend_step x b q hpb with h1 | h1
    · exact h.disj a b q ha hb hpa h1
    · have := wpend_le_hw x h a q ha hpa; omega
  · rw [stepWriter_others x i a ea] at hpa
    rw [stepWriter_others x i b eb] at hpb
    exact h.disj a b q ha hb hpa hpb

theorem written_mono (x : MSt) (i : Nat) (e : Nat × Nat) (h : e ∈ x.written) : e ∈ (stepWriter x i).written := by
  unfold stepWriter
  cases hpc : (x.wr i).pc <;> simp only [hpc] <;> (repeat' split) <;> simp [h]

/-- a sequence the stepping writer still had to write is either still to be written or has just been written -/
theorem unwr_step (x : MSt) (i q : Nat) (h : unwr (x.wr i) q) :
    unwr ((stepWriter x i).wr i) q ∨ (q, i) ∈ (stepWriter x i).written := by
  obtain ⟨h1, h2, h3⟩ := h
  unfold unwr
  by_cases hq : (x.wr i).w = q
  · right; simp [stepWriter, h1, hq, h3]
  · left
    have : (x.wr i).w ≤ (x.wr i).hi := by omega
    simp [stepWriter, h1, this, updW_same]
    omega

theorem fresh_claim (x : MSt) (i q : Nat) (hpc : (x.wr i).pc = .casHw) (he : x.hw = (x.wr i).hwSeen)
    (h1 : x.hw < q) (h2 : q ≤ (stepWriter x i).hw) : unwr ((stepWriter x i).wr i) q := by
  revert h2
  simp [stepWriter, hpc, he, updW_same, unwr]
  omega

theorem wrote_step (x : MSt) (i : Nat) (hi : i < x.P) (h : MRel x) (q : Nat) (h1 : 1 ≤ q) (h2 : q ≤ (stepWriter x i).hw) :
    (∃ j, (q, j) ∈ (stepWriter x i).written) ∨ (∃ j, j < (stepWriter x i).P ∧ unwr ((stepWriter x i).wr j) q) := by
  rw [stepWriter_P]
  by_cases hq : q ≤ x.hw
  · rcases h.wrote q h1 hq with ⟨j, hj⟩ | ⟨j, hj, hu⟩
    · exact Or.inl ⟨j, written_mono x i _ hj⟩
    · by_cases he : j = i
      · subst he
        rcases unwr_step x j q hu with h3 | h3
        · exact Or.inr ⟨j, hj, h3⟩
        · exact Or.inl ⟨j, h3⟩
      · exact Or.inr ⟨j, hj, by rw [stepWriter_others x i j he]; exact hu⟩
  · rcases stepWriter_hw x i with e | ⟨hpc, he, _⟩
    · omega
    · exact Or.inr ⟨i, hi, fresh_claim x i q hpc he (by omega) h2⟩

theorem mrel_stepWriter (x : MSt) (i : Nat) (hi : i < x.P) (hc : MCap x) (h : MRel x) : MRel (stepWriter x i) := by
  refine ⟨?_, window_step x i hi hc h, lwLe_step x i hi hc h, pref_step x i hi h, bits_step x i hi h, bmOk_step x i h,
    ?_, wrote_step x i hi h⟩
  · intro j hj
    rw [stepWriter_P] at hj
    by_cases he : j = i
    · subst he; exact wsafe_own x j hj hc.1.1 h
    · rw [stepWriter_others x i j he]; exact wsafe_other x i j hi hj hc.1.1 h
  · intro a b q ha hb
    rw [stepWriter_P] at ha hb
    exact disj_step x i h a b q ha hb

/-- `MRel` reads the state only through `P, wr, hw, lw, bm, written, s.cursor, s.n` -/
theorem mrel_congr (x x' : MSt) (hP : x'.P = x.P) (hwr : x'.wr = x.wr) (hhw : x'.hw = x.hw) (hlw : x'.lw = x.lw)
    (hbm : x'.bm = x.bm) (hwritten : x'.written = x.written) (hcur : x'.s.cursor = x.s.cursor) (hn : x'.s.n = x.s.n)
    (h : MRel x) : MRel x' := by
  obtain ⟨s', P', hw', lw', bm', wr', dr', written', ac'⟩ := x'
  obtain ⟨n', K', h', bl', cur', isDone', mtx', woken', cons'⟩ := s'
  simp only at hP hwr hhw hlw hbm hwritten hcur hn
  subst hP hwr hhw hlw hbm hwritten hcur hn
  exact ⟨h.1, h.2, h.3, h.4, h.5, h.6, h.7, h.8⟩

/-- the full safety invariant of the multi-producer pipeline -/
def MSafe (x : MSt) : Prop := MCap x ∧ MRel x

theorem msafe_stepM (x : MSt) (t : MTid) (h : MSafe x) : MSafe (stepM x t) := by
  obtain ⟨hc, hr⟩ := h
  refine ⟨mcap_stepM x t hc, ?_⟩
  cases t with
  | writer i =>
    show MRel (if i < x.P then stepWriter x i else x)
    split
    · rename_i hi; exact mrel_stepWriter x i hi hc hr
    · exact hr
  | drainer =>
    obtain ⟨h1, h2, h3, h4, h5, h6, h7, h8⟩ := stepDrainer_frame x
    exact mrel_congr x (stepDrainer x) h1 h2 h3 h4 h5 h6 h7 h8 hr
  | cons k j =>
    show MRel (if k < x.s.K ∧ j < x.s.h k then { x with s := stepC x.s k j } else x)
    split
    · exact mrel_congr x _ rfl rfl rfl rfl rfl rfl rfl rfl hr
    · exact hr

theorem msafe_run (x : MSt) (sched : List MTid) (h : MSafe x) : MSafe (runM x sched) := by
  unfold runM
  induction sched generalizing x with
  | nil => exact h
  | cons t ts ih => exact ih _ (msafe_stepM x t h)

theorem msafe_init (k K : Nat) (hh : Nat → Nat) (blocking : Bool) (batches : List (List Nat))
    (hK : 0 < K) (hpos : ∀ j, j < K → 0 < hh j) (hb : ∀ l, l ∈ batches → ∀ b, b ∈ l → 1 ≤ b) :
    MSafe (mkM (2 ^ k) K hh blocking batches) := by
  refine ⟨mcap_init _ K hh blocking batches hK hpos hb, ?_⟩
  have hnp : ∀ q, ¬ Pend (mkM (2 ^ k) K hh blocking batches) q := by
    rintro q ⟨i, _, hp⟩
    rcases hp with ⟨h1, _⟩ | ⟨h1, _⟩ <;> simp [mkM] at h1
  refine ⟨?_, ?_, ?_, ?_, ?_, ?_, ?_, ?_⟩
  · intro i _
    constructor <;> simp [mkM]
  · simp only [mkM]; have := Nat.two_pow_pos k; omega
  · simp [mkM]
  · intro q h1 h2; simp [mkM] at h2; omega
  · intro q hbit
    have : bmIsSet (some (Gen.BitMap.build (2 ^ k))) q = false := by
      rw [bmIsSet_eq (C19.inv_build k)]; rfl
    simp [mkM, this] at hbit
  · exact bm_init k
  · intro i j q _ _ hp; exact absurd ⟨i, ‹_›, hp⟩ (hnp q)
  · intro q h1 h2; simp [mkM] at h2; omega

theorem runM_n (y : MSt) (sch : List MTid) : (runM y sch).s.n = y.s.n := by
  unfold runM
  induction sch generalizing y with
  | nil => rfl
  | cons t ts ih =>
    simp only [List.foldl_cons]; rw [ih]
    cases t with
    | writer i => simp only [stepM]; split; exact (stepWriter_s y i).2.2.2; rfl
    | drainer => exact (stepDrainer_s y).2.2.2.1
    | cons k j => simp only [stepM]; split <;> rfl

/-- every state reachable in a well-formed multi-producer pipeline whose ring size is a power of two satisfies the safety
invariant — every topology, wait strategy, number of writers, batch list, **every schedule** -/
theorem mreachableWF_safe {x : MSt} (hr : MReachableWF x) (k : Nat) (hn : x.s.n = 2 ^ k) : MSafe x := by
  obtain ⟨n, K, h, bl, bs, sched, hK, hh, hb, rfl⟩ := hr
  have : n = 2 ^ k := by rw [runM_n] at hn; exact hn
  subst this
  exact msafe_run _ sched (msafe_init k K h bl bs hK hh hb)

/-! ## consequences used by the property files -/

/-- a handler's log contains every sequence up to its published cursor -/
theorem mem_log_of_le_cur (s : St) (hI : Inv s) (k j : Nat) (hk : k < s.K) (hj : j < s.h k) (q : Nat) (h1 : 1 ≤ q)
    (h2 : q ≤ (s.cons k j).cur) : q ∈ (s.cons k j).log := by
  have hc := hI.2 k j hk hj
  by_cases p1 : (s.cons k j).pc = .handle
  · rw [hc.logH p1]
    have := (hc.curAvail (by simp [p1])).1
    have := hc.nextEq (by simp [p1])
    have := hc.iGe p1
    simp only [List.mem_range'_1]; omega
  · by_cases p2 : (s.cons k j).pc = .publish
    · rw [hc.logP p2]
      have := hc.curAvail (by simp [p2])
      simp only [List.mem_range'_1]; omega
    · rw [hc.logO p1 p2]
      simp only [List.mem_range'_1]; omega

/-- a sequence at or below the cursor is claimed, written, and pending with nobody -/
theorem published_below_cursor (x : MSt) (h : MSafe x) (q : Nat) (h1 : 1 ≤ q) (h2 : q ≤ x.s.cursor) :
    q ≤ x.hw ∧ (∃ i, (q, i) ∈ x.written) ∧ ¬ Pend x q := by
  obtain ⟨p1, p2, p3⟩ := h.2.pref q h1 h2
  refine ⟨p2, ?_, p3⟩
  rcases h.2.wrote q h1 p2 with hw | ⟨i, hi, hu⟩
  · exact hw
  · exact absurd ⟨i, hi, Or.inl ⟨hu.1, by have := (h.2.ws i hi).wGe hu.1; have := hu.2.1; omega, hu.2.2⟩⟩ p3

/-- a writer about to write sequence `w` of its claim: `w` lies strictly between the cursor and `cursor + n` -/
theorem writing_above_cursor (x : MSt) (h : MSafe x) (i : Nat) (hi : i < x.P) (hpc : (x.wr i).pc = .write)
    (hw : (x.wr i).w ≤ (x.wr i).hi) : x.s.cursor < (x.wr i).w ∧ (x.wr i).w < x.s.cursor + x.s.n := by
  have hws := h.2.ws i hi
  have h1 := hws.loPos (Or.inl hpc)
  have h2 := hws.wGe hpc
  have h3 := hws.hiLe
  have h4 := h.2.window
  refine ⟨?_, by omega⟩
  apply Nat.lt_of_not_le
  intro hle
  exact (h.2.pref _ (by omega) hle).2.2 ⟨i, hi, Or.inl ⟨hpc, h2, hw⟩⟩

/-! ## who wrote what: every slot write is made by the claimant of the sequence -/

/-- the writer holds the claim `[lo, hi]` it is working on in its own list of claims, every claim of a writer is in the global
list of successful claims, and every logged slot write `(q, i)` lies inside a claim of writer `i` -/
structure MOwn (x : MSt) : Prop where
  holds : ∀ i, i < x.P → (x.wr i).pc = .write → ∃ c, ((x.wr i).lo, (x.wr i).hi, c) ∈ (x.wr i).claims
  globl : ∀ i, i < x.P → ∀ c, c ∈ (x.wr i).claims → c ∈ x.allClaims
  wrote : ∀ q i, (q, i) ∈ x.written → i < x.P ∧ ∃ c, c ∈ (x.wr i).claims ∧ c.1 ≤ q ∧ q ≤ c.2.1

theorem claims_mono (x : MSt) (i : Nat) (c : Nat × Nat × Nat) (h : c ∈ (x.wr i).claims) :
    c ∈ ((stepWriter x i).wr i).claims := by
  unfold stepWriter
  cases hpc : (x.wr i).pc <;> simp only [hpc] <;> (repeat' split) <;> (try simp only [updW_same]) <;> simp [h]

theorem allClaims_step (x : MSt) (i : Nat) (c : Nat × Nat × Nat) (h : c ∈ ((stepWriter x i).wr i).claims) :
    c ∈ (x.wr i).claims ∨ (c ∉ (x.wr i).claims ∧ c ∈ (stepWriter x i).allClaims) := by
  revert h
  unfold stepWriter
  cases hpc : (x.wr i).pc <;> simp only [hpc] <;> (repeat' split) <;> (try simp only [updW_same]) <;>
    (try simp only [List.mem_append, List.mem_singleton]) <;> grind

theorem allClaims_mono (x : MSt) (i : Nat) (c : Nat × Nat × Nat) (h : c ∈ x.allClaims) : c ∈ (stepWriter x i).allClaims := by
  unfold stepWriter
  cases hpc : (x.wr i).pc <;> simp only [hpc] <;> (repeat' split) <;> simp [h]

theorem holds_step (x : MSt) (i : Nat) (h : (x.wr i).pc = .write → ∃ c, ((x.wr i).lo, (x.wr i).hi, c) ∈ (x.wr i).claims)
    (hp : ((stepWriter x i).wr i).pc = .write) :
    ∃ c, (((stepWriter x i).wr i).lo, ((stepWriter x i).wr i).hi, c) ∈ ((stepWriter x i).wr i).claims := by
  revert hp h
  unfold stepWriter
  cases hpc : (x.wr i).pc <;> simp only [hpc] <;> (repeat' split) <;> (try simp only [updW_same]) <;>
    (try simp only [List.mem_append, List.mem_singleton]) <;> grind

theorem written_step (x : MSt) (i : Nat) (e : Nat × Nat) (h : e ∈ (stepWriter x i).written) :
    e ∈ x.written ∨ (e.2 = i ∧ (x.wr i).pc = .write ∧ (x.wr i).w ≤ (x.wr i).hi ∧ e.1 = (x.wr i).w) := by
  revert h
  unfold stepWriter
  cases hpc : (x.wr i).pc <;> simp only [hpc] <;> (repeat' split) <;> (try simp only [List.mem_append, List.mem_singleton]) <;> grind

theorem mown_stepWriter (x : MSt) (i : Nat) (hi : i < x.P) (hr : MRel x) (h : MOwn x) : MOwn (stepWriter x i) := by
  refine ⟨?_, ?_, ?_⟩
  · intro j hj hp
    rw [stepWriter_P] at hj
    by_cases he : j = i
    · subst he; exact holds_step x j (h.holds j hj) hp
    · rw [stepWriter_others x i j he] at hp ⊢; exact h.holds j hj hp
  · intro j hj c hc
    rw [stepWriter_P] at hj
    by_cases he : j = i
    · subst he
      rcases allClaims_step x j c hc with h1 | ⟨_, h1⟩
      · exact allClaims_mono x j c (h.globl j hj c h1)
      · exact h1
    · rw [stepWriter_others x i j he] at hc; exact allClaims_mono x i c (h.globl j hj c hc)
  · intro q j hq
    rw [stepWriter_P]
    rcases written_step x i (q, j) hq with h1 | ⟨h1, h2, h3, h4⟩
    · obtain ⟨hj, c, hc, hb⟩ := h.wrote q j h1
      refine ⟨hj, c, ?_, hb⟩
      by_cases he : j = i
      · subst he; exact claims_mono x j c hc
      · rw [stepWriter_others x i j he]; exact hc
    · simp only at h1 h4
      subst h1
      obtain ⟨c, hc⟩ := h.holds j hi h2
      have := (hr.ws j hi).wGe h2
      exact ⟨hi, _, claims_mono x j _ hc, by simp only; omega, by simp only; omega⟩

theorem mown_congr (x x' : MSt) (hP : x'.P = x.P) (hwr : x'.wr = x.wr) (hw : x'.written = x.written)
    (ha : x'.allClaims = x.allClaims) (h : MOwn x) : MOwn x' := by
  obtain ⟨s', P', hw', lw', bm', wr', dr', written', ac'⟩ := x'
  simp only at hP hwr hw ha
  subst hP hwr hw ha
  exact ⟨h.1, h.2, h.3⟩

theorem stepDrainer_allClaims (x : MSt) : (stepDrainer x).allClaims = x.allClaims := by
  unfold stepDrainer
  cases hpc : x.dr.pc <;> simp only [hpc] <;> (repeat' split) <;> rfl

/-- `MSafe` together with the ownership facts -/
def MSafeOwn (x : MSt) : Prop := MSafe x ∧ MOwn x

theorem msafeOwn_stepM (x : MSt) (t : MTid) (h : MSafeOwn x) : MSafeOwn (stepM x t) := by
  refine ⟨msafe_stepM x t h.1, ?_⟩
  cases t with
  | writer i =>
    show MOwn (if i < x.P then stepWriter x i else x)
    split
    · rename_i hi; exact mown_stepWriter x i hi h.1.2 h.2
    · exact h.2
  | drainer =>
    obtain ⟨h1, h2, _, _, _, h6, _, _⟩ := stepDrainer_frame x
    exact mown_congr x (stepDrainer x) h1 h2 h6 (stepDrainer_allClaims x) h.2
  | cons k j =>
    show MOwn (if k < x.s.K ∧ j < x.s.h k then { x with s := stepC x.s k j } else x)
    split
    · exact mown_congr x _ rfl rfl rfl rfl h.2
    · exact h.2

theorem msafeOwn_run (x : MSt) (sched : List MTid) (h : MSafeOwn x) : MSafeOwn (runM x sched) := by
  unfold runM
  induction sched generalizing x with
  | nil => exact h
  | cons t ts ih => exact ih _ (msafeOwn_stepM x t h)

theorem mreachableWF_safeOwn {x : MSt} (hr : MReachableWF x) (k : Nat) (hn : x.s.n = 2 ^ k) : MSafeOwn x := by
  refine ⟨mreachableWF_safe hr k hn, ?_⟩
  obtain ⟨n, K, h, bl, bs, sched, hK, hh, hb, rfl⟩ := hr
  have hn' : n = 2 ^ k := by rw [runM_n] at hn; exact hn
  subst hn'
  refine (msafeOwn_run _ sched ⟨msafe_init k K h bl bs hK hh hb, ?_⟩).2
  refine ⟨?_, ?_, ?_⟩
  · intro i _ hp; simp [mkM] at hp
  · intro i _ c hc; simp [mkM] at hc
  · intro q i hq; simp [mkM] at hq

end RingMulti
