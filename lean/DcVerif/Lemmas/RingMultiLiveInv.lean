import DcVerif.Lemmas.RingMultiLiveC
import DcVerif.Lemmas.RingMultiSafe
/-!
# Mutex / wake-up invariants of the pipeline with the multi-producer sequencer — any number of writers, every schedule

The counterpart of Part 2 of `Lemmas/RingLive.lean` for `Model/RingMulti.lean`: `XInv` (ownership of the wait strategy's
mutex and mutual exclusion among writer threads, the draining thread and the handlers; mode consistency; `is_done`),
`DInv` (facts local to the draining thread), `NInvM` (no lost wake-up), `GInv` (all of them, for every reachable state),
`no_lost_wakeup`, `exists_enabled` (no deadlock), stability of the wait conditions.
-/
namespace RingMulti
open Ring

/-- writer pcs at which the thread owns the mutex -/
def wHold : WPc → Bool
  | .sNotify | .sUnlock => true
  | _ => false

/-- pcs of the draining thread at which it owns the mutex -/
def dHold : DPc → Bool
  | .dNotify | .dUnlock | .eNotify | .eUnlock => true
  | _ => false

def wSpin : WPc → Bool
  | .sLock | .sNotify | .sUnlock => false
  | _ => true

def dSpin : DPc → Bool
  | .dLock | .dNotify | .dUnlock | .eLock | .eNotify | .eUnlock => false
  | _ => true

/-- pcs after `is_done.store(true)` of `drain` -/
def dAfterSet : DPc → Bool
  | .eLock | .eNotify | .eUnlock | .done => true
  | _ => false

/-- writer pcs between its cursor CAS and the `notify_all` of the `signal()` that follows -/
def wPend : WPc → Bool
  | .setLw | .sLock | .sNotify => true
  | _ => false

/-- pcs of the draining thread between a drain-loop iteration / the `is_done` store and the `notify_all` of `signal()` -/
def dPend : DPc → Bool
  | .dLock | .dNotify | .eLock | .eNotify => true
  | _ => false

/-- a writer thread or the draining thread is between `lock` and `unlock` -/
def holdersP (x : MSt) : Prop := dHold x.dr.pc = true ∨ ∃ i, i < x.P ∧ wHold (x.wr i).pc = true

theorem writersDone_iff (x : MSt) :
    writersDone x = true ↔ ∀ i, i < x.P → ((x.wr i).pc = .done ∨ (x.wr i).pc = .panicked) := by
  unfold writersDone
  simp only [List.all_eq_true, List.mem_range, Bool.or_eq_true, beq_iff_eq]

/-- **mutual exclusion and ownership** (any number of writers): with the blocking strategy a handler is between its `lock`
and its `unlock` / `cvar.wait` exactly when it owns the mutex; the mutex is owned by the producer side exactly when a
writer thread or the draining thread is between `lock` and `unlock`, and at most one of them is; with the spin strategy
the mutex is never touched; `is_done` is set exactly from `drain`'s store on; a handler only leaves its loop after that;
no writer dies in `has_capacity` (F12 repaired). -/
structure XInv (x : MSt) : Prop where
  spinM : x.s.blocking = false → x.s.mtx = none
  spinW : x.s.blocking = false → ∀ i, i < x.P → wSpin (x.wr i).pc = true
  spinD : x.s.blocking = false → dSpin x.dr.pc = true
  spinC : x.s.blocking = false → ∀ k j, k < x.s.K → j < x.s.h k → Spin.cSpin (x.s.cons k j).pc = true
  blkC  : x.s.blocking = true → ∀ k j, k < x.s.K → j < x.s.h k →
            ((cHold (x.s.cons k j).pc = true ↔ x.s.mtx = some (.cons k j)) ∧ (x.s.cons k j).pc ≠ .checkAlert)
  blkP  : x.s.blocking = true → (x.s.mtx = some .prod ↔ holdersP x)
  uniqW : ∀ i j, i < x.P → j < x.P → wHold (x.wr i).pc = true → wHold (x.wr j).pc = true → i = j
  uniqD : ∀ i, i < x.P → wHold (x.wr i).pc = true → dHold x.dr.pc = false
  owner : ∀ k j, x.s.mtx = some (.cons k j) → k < x.s.K ∧ j < x.s.h k
  doneIff : x.s.isDone = true ↔ dAfterSet x.dr.pc = true
  consDone : ∀ k j, k < x.s.K → j < x.s.h k →
            ((x.s.cons k j).pc = .done ∨ (x.s.cons k j).pc = .bUnlockExit) → x.s.isDone = true
  noPanic : ∀ i, i < x.P → (x.wr i).pc ≠ .panicked

/-! ### what one step of a writer / of the draining thread does to the shared state -/

theorem stepWriter_frame (x : MSt) (i : Nat) :
    (stepWriter x i).s.cons = x.s.cons ∧ (stepWriter x i).s.K = x.s.K ∧ (stepWriter x i).s.h = x.s.h ∧
    (stepWriter x i).s.n = x.s.n ∧ (stepWriter x i).s.blocking = x.s.blocking ∧
    (stepWriter x i).s.isDone = x.s.isDone ∧ (stepWriter x i).dr = x.dr ∧ (stepWriter x i).P = x.P := by
  unfold stepWriter
  cases hpc : (x.wr i).pc <;> simp only [hpc] <;> (repeat' split) <;> simp

theorem stepDrainer_frame2 (x : MSt) :
    (stepDrainer x).s.cons = x.s.cons ∧ (stepDrainer x).s.K = x.s.K ∧ (stepDrainer x).s.h = x.s.h ∧
    (stepDrainer x).s.n = x.s.n ∧ (stepDrainer x).s.blocking = x.s.blocking ∧
    (stepDrainer x).s.cursor = x.s.cursor ∧ (stepDrainer x).wr = x.wr ∧ (stepDrainer x).P = x.P ∧
    (stepDrainer x).hw = x.hw := by
  unfold stepDrainer
  cases hpc : x.dr.pc <;> simp only [hpc] <;> (repeat' split) <;> simp

/-- a writer's own step: pc and mutex (blocking strategy) -/
theorem writer_mtx_step (x : MSt) (i : Nat) (hb : x.s.blocking = true)
    (hh : wHold (x.wr i).pc = true → x.s.mtx = some .prod) :
    ((stepWriter x i).s.mtx = x.s.mtx ∧ wHold ((stepWriter x i).wr i).pc = wHold (x.wr i).pc) ∨
    (x.s.mtx = none ∧ (stepWriter x i).s.mtx = some .prod ∧ wHold (x.wr i).pc = false ∧
      wHold ((stepWriter x i).wr i).pc = true) ∨
    (wHold (x.wr i).pc = true ∧ (stepWriter x i).s.mtx = none ∧ wHold ((stepWriter x i).wr i).pc = false) := by
  unfold stepWriter
  cases hpc : (x.wr i).pc <;> simp only [hpc, wHold] at hh <;> simp only [hpc, hb] <;> (repeat' split) <;>
    simp_all [wHold, updW_same]

theorem writer_spin_step (x : MSt) (i : Nat) (hb : x.s.blocking = false) (hm : x.s.mtx = none)
    (hp : wSpin (x.wr i).pc = true) :
    wSpin ((stepWriter x i).wr i).pc = true ∧ (stepWriter x i).s.mtx = none := by
  unfold stepWriter
  cases hpc : (x.wr i).pc <;> simp only [hpc, wSpin] at hp <;> (try contradiction) <;>
    simp only [hpc, hb, hm] <;> (repeat' split) <;> simp_all [wSpin, updW_same]

theorem writer_noPanic_step (x : MSt) (i : Nat) (hp : (x.wr i).pc ≠ .panicked) :
    ((stepWriter x i).wr i).pc ≠ .panicked := by
  unfold stepWriter
  cases hpc : (x.wr i).pc <;> simp only [hpc] at hp <;> simp only [hpc] <;> (repeat' split) <;> simp_all [updW_same]

theorem drainer_mtx_step (x : MSt) (hb : x.s.blocking = true)
    (hh : dHold x.dr.pc = true → x.s.mtx = some .prod) :
    ((stepDrainer x).s.mtx = x.s.mtx ∧ dHold (stepDrainer x).dr.pc = dHold x.dr.pc) ∨
    (x.s.mtx = none ∧ (stepDrainer x).s.mtx = some .prod ∧ dHold x.dr.pc = false ∧
      dHold (stepDrainer x).dr.pc = true) ∨
    (dHold x.dr.pc = true ∧ (stepDrainer x).s.mtx = none ∧ dHold (stepDrainer x).dr.pc = false) := by
  unfold stepDrainer
  cases hpc : x.dr.pc <;> simp only [hpc, dHold] at hh <;> simp only [hpc, hb] <;> (repeat' split) <;>
    simp_all [dHold]

theorem drainer_spin_step (x : MSt) (hb : x.s.blocking = false) (hm : x.s.mtx = none)
    (hp : dSpin x.dr.pc = true) :
    dSpin (stepDrainer x).dr.pc = true ∧ (stepDrainer x).s.mtx = none := by
  unfold stepDrainer
  cases hpc : x.dr.pc <;> simp only [hpc, dSpin] at hp <;> (try contradiction) <;>
    simp only [hpc, hb, hm] <;> (repeat' split) <;> simp_all [dSpin]

theorem drainer_done_step (x : MSt) (hd : x.s.isDone = true ↔ dAfterSet x.dr.pc = true) :
    ((stepDrainer x).s.isDone = true ↔ dAfterSet (stepDrainer x).dr.pc = true) ∧
    (x.s.isDone = true → (stepDrainer x).s.isDone = true) := by
  unfold stepDrainer
  cases hpc : x.dr.pc <;> simp only [hpc, dAfterSet] at hd <;>
    simp only [hpc] <;> (repeat' split) <;> simp_all [dAfterSet]

theorem wSpin_not_hold {pc : WPc} (h : wSpin pc = true) : wHold pc = false := by
  cases pc <;> simp_all [wSpin, wHold]

theorem dSpin_not_hold {pc : DPc} (h : dSpin pc = true) : dHold pc = false := by
  cases pc <;> simp_all [dSpin, dHold]

theorem bool_false_of_ne_true {b : Bool} (h : ¬ b = true) : b = false := by
  cases b <;> simp_all

theorem xinv_stepWriter (x : MSt) (i : Nat) (hi : i < x.P) (h : XInv x) : XInv (stepWriter x i) := by
  obtain ⟨m1, m2, m3, m4, m5, m6, m7, m8, m9, m10, m11, m12⟩ := h
  obtain ⟨ec, eK, eh, en, ebl, edn, edr, eP⟩ := stepWriter_frame x i
  have hoth : ∀ j, j ≠ i → (stepWriter x i).wr j = x.wr j := fun j hj => stepWriter_others x i j hj
  cases hbl : x.s.blocking
  · -- spin strategy: nobody ever touches the mutex
    obtain ⟨s1, s2⟩ := writer_spin_step x i hbl (m1 hbl) (m2 hbl i hi)
    have hw' : ∀ j, j < x.P → wSpin ((stepWriter x i).wr j).pc = true := by
      intro j hj
      by_cases he : j = i
      · subst he; exact s1
      · rw [hoth j he]; exact m2 hbl j hj
    refine ⟨fun _ => s2, fun _ j hj => hw' j (by rw [← eP]; exact hj), fun _ => (by rw [edr]; exact m3 hbl),
      fun _ => (by rw [ec, eK, eh]; exact m4 hbl), fun hb => (by rw [ebl, hbl] at hb; cases hb),
      fun hb => (by rw [ebl, hbl] at hb; cases hb), ?_, ?_, ?_, (by rw [edn, edr]; exact m10),
      (by rw [ec, eK, eh, edn]; exact m11), ?_⟩
    · intro a b ha hb pa _
      rw [eP] at ha
      rw [wSpin_not_hold (hw' a ha)] at pa; cases pa
    · intro a ha pa
      rw [eP] at ha
      rw [wSpin_not_hold (hw' a ha)] at pa; cases pa
    · intro k j hm; rw [s2] at hm; cases hm
    · intro j hj
      rw [eP] at hj
      by_cases he : j = i
      · subst he; exact writer_noPanic_step x j (m12 j hj)
      · rw [hoth j he]; exact m12 j hj
  · -- blocking strategy
    have hpre : ∀ j, j < x.P → wHold (x.wr j).pc = true → x.s.mtx = some .prod :=
      fun j hj hw => (m6 hbl).2 (Or.inr ⟨j, hj, hw⟩)
    have hcase := writer_mtx_step x i hbl (hpre i hi)
    have hbl' : (stepWriter x i).s.blocking = true := by rw [ebl]; exact hbl
    -- who holds after the step
    have hpost : ∀ j, j < x.P → j ≠ i → (wHold ((stepWriter x i).wr j).pc = wHold (x.wr j).pc) := by
      intro j _ hne; rw [hoth j hne]
    refine ⟨fun hb => (by rw [hbl'] at hb; cases hb), fun hb => (by rw [hbl'] at hb; cases hb),
      fun hb => (by rw [hbl'] at hb; cases hb), fun hb => (by rw [hbl'] at hb; cases hb), ?_, ?_, ?_, ?_, ?_,
      (by rw [edn, edr]; exact m10), (by rw [ec, eK, eh, edn]; exact m11), ?_⟩
    · intro _ k j hk hj
      rw [eK] at hk; rw [eh] at hj; rw [ec]
      obtain ⟨a1, a2⟩ := m5 hbl k j hk hj
      refine ⟨?_, a2⟩
      rw [a1]
      rcases hcase with ⟨hm, _⟩ | ⟨hm1, hm2, _, _⟩ | ⟨hw, hm2, _⟩
      · rw [hm]
      · rw [hm1, hm2]; simp
      · rw [hpre i hi hw, hm2]; simp
    · intro _
      unfold holdersP
      rw [edr, eP]
      rcases hcase with ⟨hm, hw⟩ | ⟨hm1, hm2, hw1, hw2⟩ | ⟨hw, hm2, hw2⟩
      · rw [hm, m6 hbl]
        unfold holdersP
        constructor
        · rintro (hd | ⟨j, hj, hj'⟩)
          · exact Or.inl hd
          · right
            by_cases he : j = i
            · subst he; exact ⟨j, hj, by rw [hw]; exact hj'⟩
            · exact ⟨j, hj, by rw [hpost j hj he]; exact hj'⟩
        · rintro (hd | ⟨j, hj, hj'⟩)
          · exact Or.inl hd
          · right
            by_cases he : j = i
            · subst he; exact ⟨j, hj, by rw [← hw]; exact hj'⟩
            · exact ⟨j, hj, by rw [← hpost j hj he]; exact hj'⟩
      · rw [hm2]
        exact ⟨fun _ => Or.inr ⟨i, hi, hw2⟩, fun _ => rfl⟩
      · rw [hm2]
        constructor
        · intro hh; cases hh
        · rintro (hd | ⟨j, hj, hj'⟩)
          · rw [m8 i hi hw] at hd; cases hd
          · by_cases he : j = i
            · subst he; rw [hw2] at hj'; cases hj'
            · rw [hpost j hj he] at hj'
              exact absurd (m7 j i hj hi hj' hw) he
    · intro a b ha hb pa pb
      rw [eP] at ha hb
      rcases hcase with ⟨hm, hw⟩ | ⟨hm1, hm2, hw1, hw2⟩ | ⟨hw, hm2, hw2⟩
      · have qa : wHold (x.wr a).pc = true := by
          by_cases he : a = i
          · subst he; rw [← hw]; exact pa
          · rw [← hpost a ha he]; exact pa
        have qb : wHold (x.wr b).pc = true := by
          by_cases he : b = i
          · subst he; rw [← hw]; exact pb
          · rw [← hpost b hb he]; exact pb
        exact m7 a b ha hb qa qb
      · have ea : a = i := by
          apply Classical.byContradiction; intro he
          rw [hpost a ha he] at pa
          have := hpre a ha pa; rw [hm1] at this; cases this
        have eb : b = i := by
          apply Classical.byContradiction; intro he
          rw [hpost b hb he] at pb
          have := hpre b hb pb; rw [hm1] at this; cases this
        omega
      · have na : a ≠ i := by intro he; subst he; rw [hw2] at pa; cases pa
        have nb : b ≠ i := by intro he; subst he; rw [hw2] at pb; cases pb
        rw [hpost a ha na] at pa; rw [hpost b hb nb] at pb
        exact m7 a b ha hb pa pb
    · intro a ha pa
      rw [eP] at ha; rw [edr]
      rcases hcase with ⟨hm, hw⟩ | ⟨hm1, hm2, hw1, hw2⟩ | ⟨hw, hm2, hw2⟩
      · have qa : wHold (x.wr a).pc = true := by
          by_cases he : a = i
          · subst he; rw [← hw]; exact pa
          · rw [← hpost a ha he]; exact pa
        exact m8 a ha qa
      · apply bool_false_of_ne_true
        intro hd
        have := (m6 hbl).2 (Or.inl hd); rw [hm1] at this; cases this
      · have na : a ≠ i := by intro he; subst he; rw [hw2] at pa; cases pa
        rw [hpost a ha na] at pa
        exact m8 a ha pa
    · intro k j hm
      rw [eK, eh]
      rcases hcase with ⟨hm', _⟩ | ⟨_, hm2, _, _⟩ | ⟨_, hm2, _⟩
      · rw [hm'] at hm; exact m9 k j hm
      · rw [hm2] at hm; cases hm
      · rw [hm2] at hm; cases hm
    · intro j hj
      rw [eP] at hj
      by_cases he : j = i
      · subst he; exact writer_noPanic_step x j (m12 j hj)
      · rw [hoth j he]; exact m12 j hj

theorem xinv_stepDrainer (x : MSt) (h : XInv x) : XInv (stepDrainer x) := by
  obtain ⟨m1, m2, m3, m4, m5, m6, m7, m8, m9, m10, m11, m12⟩ := h
  obtain ⟨ec, eK, eh, en, ebl, ecur, ewr, eP, ehw⟩ := stepDrainer_frame2 x
  obtain ⟨d1, d2⟩ := drainer_done_step x m10
  cases hbl : x.s.blocking
  · obtain ⟨s1, s2⟩ := drainer_spin_step x hbl (m1 hbl) (m3 hbl)
    refine ⟨fun _ => s2, fun _ => (by rw [ewr, eP]; exact m2 hbl), fun _ => s1,
      fun _ => (by rw [ec, eK, eh]; exact m4 hbl), fun hb => (by rw [ebl, hbl] at hb; cases hb),
      fun hb => (by rw [ebl, hbl] at hb; cases hb), (by rw [ewr, eP]; exact m7), ?_, ?_, d1, ?_,
      (by rw [ewr, eP]; exact m12)⟩
    · intro i hi pa; exact dSpin_not_hold s1
    · intro k j hm; rw [s2] at hm; cases hm
    · intro k j hk hj hpc
      rw [eK] at hk; rw [eh] at hj; rw [ec] at hpc
      exact d2 (m11 k j hk hj hpc)
  · have hcase := drainer_mtx_step x hbl (fun hd => (m6 hbl).2 (Or.inl hd))
    have hbl' : (stepDrainer x).s.blocking = true := by rw [ebl]; exact hbl
    refine ⟨fun hb => (by rw [hbl'] at hb; cases hb), fun hb => (by rw [hbl'] at hb; cases hb),
      fun hb => (by rw [hbl'] at hb; cases hb), fun hb => (by rw [hbl'] at hb; cases hb), ?_, ?_,
      (by rw [ewr, eP]; exact m7), ?_, ?_, d1, ?_, (by rw [ewr, eP]; exact m12)⟩
    · intro _ k j hk hj
      rw [eK] at hk; rw [eh] at hj; rw [ec]
      obtain ⟨a1, a2⟩ := m5 hbl k j hk hj
      refine ⟨?_, a2⟩
      rw [a1]
      rcases hcase with ⟨hm, _⟩ | ⟨hm1, hm2, _, _⟩ | ⟨hw, hm2, _⟩
      · rw [hm]
      · rw [hm1, hm2]; simp
      · rw [(m6 hbl).2 (Or.inl hw), hm2]; simp
    · intro _
      unfold holdersP
      rw [ewr, eP]
      rcases hcase with ⟨hm, hw⟩ | ⟨hm1, hm2, hw1, hw2⟩ | ⟨hw, hm2, hw2⟩
      · rw [hm, m6 hbl, hw]; rfl
      · rw [hm2]
        exact ⟨fun _ => Or.inl hw2, fun _ => rfl⟩
      · rw [hm2]
        constructor
        · intro hh; cases hh
        · rintro (hd | ⟨j, hj, hj'⟩)
          · rw [hw2] at hd; cases hd
          · rw [m8 j hj hj'] at hw; cases hw
    · intro i hi pa
      rw [eP] at hi; rw [ewr] at pa
      rcases hcase with ⟨hm, hw⟩ | ⟨hm1, hm2, hw1, hw2⟩ | ⟨hw, hm2, hw2⟩
      · rw [hw]; exact m8 i hi pa
      · have := (m6 hbl).2 (Or.inr ⟨i, hi, pa⟩); rw [hm1] at this; cases this
      · exact hw2
    · intro k j hm
      rw [eK, eh]
      rcases hcase with ⟨hm', _⟩ | ⟨_, hm2, _, _⟩ | ⟨_, hm2, _⟩
      · rw [hm'] at hm; exact m9 k j hm
      · rw [hm2] at hm; cases hm
      · rw [hm2] at hm; cases hm
    · intro k j hk hj hpc
      rw [eK] at hk; rw [eh] at hj; rw [ec] at hpc
      exact d2 (m11 k j hk hj hpc)

theorem xinv_stepCons (x : MSt) (k j : Nat) (hk : k < x.s.K) (hj : j < x.s.h k) (h : XInv x) :
    XInv { x with s := stepC x.s k j } := by
  obtain ⟨m1, m2, m3, m4, m5, m6, m7, m8, m9, m10, m11, m12⟩ := h
  constructor
  · intro hb
    exact (cons_spin_step x.s k j hb (m1 hb) (m4 hb k j hk hj)).2
  · exact m2
  · exact m3
  · intro hb k' j' hk' hj'
    by_cases he : k' = k ∧ j' = j
    · obtain ⟨rfl, rfl⟩ := he
      show Spin.cSpin ((stepC x.s k' j').cons k' j').pc = true
      rw [stepC_own]; exact (cons_spin_step x.s k' j' hb (m1 hb) (m4 hb k' j' hk hj)).1
    · show Spin.cSpin ((stepC x.s k j).cons k' j').pc = true
      rw [stepC_other _ _ _ _ _ he]; exact m4 hb k' j' hk' hj'
  · intro hb k' j' hk' hj'
    have hb' : x.s.blocking = true := hb
    obtain ⟨a1, a2⟩ := m5 hb' k j hk hj
    obtain ⟨c1, c2, c3⟩ := cons_mtx_step x.s k j hb' a1 a2
    show (cHold ((stepC x.s k j).cons k' j').pc = true ↔ (stepC x.s k j).mtx = some (.cons k' j')) ∧
      ((stepC x.s k j).cons k' j').pc ≠ .checkAlert
    by_cases he : k' = k ∧ j' = j
    · obtain ⟨rfl, rfl⟩ := he
      rw [stepC_own, stepC_mtx]; exact ⟨c1, c2⟩
    · rw [stepC_other _ _ _ _ _ he, stepC_mtx]
      obtain ⟨b1, b2⟩ := m5 hb' k' j' hk' hj'
      refine ⟨?_, b2⟩
      rw [b1]
      have hne : Tid.cons k j ≠ Tid.cons k' j' := by
        intro h; injection h with h1 h2; exact he ⟨h1.symm, h2.symm⟩
      rcases c3 with h | ⟨h1, h2⟩ | ⟨h1, h2⟩
      · rw [h]
      · rw [h1, h2]; simp [hne]
      · rw [h1, h2]; simp [hne]
  · intro hb
    have hb' : x.s.blocking = true := hb
    obtain ⟨a1, a2⟩ := m5 hb' k j hk hj
    obtain ⟨c1, c2, c3⟩ := cons_mtx_step x.s k j hb' a1 a2
    show (stepC x.s k j).mtx = some .prod ↔ holdersP x
    rw [stepC_mtx, ← m6 hb']
    rcases c3 with h | ⟨h1, h2⟩ | ⟨h1, h2⟩
    · rw [h]
    · rw [h1, h2]; simp
    · rw [h1, h2]; simp
  · exact m7
  · exact m8
  · intro k' j' hm
    show k' < x.s.K ∧ j' < x.s.h k'
    change (stepC x.s k j).mtx = some (.cons k' j') at hm
    rw [stepC_mtx] at hm
    by_cases hb : x.s.blocking = true
    · obtain ⟨a1, a2⟩ := m5 hb k j hk hj
      obtain ⟨c1, c2, c3⟩ := cons_mtx_step x.s k j hb a1 a2
      rcases c3 with h | ⟨h1, h2⟩ | ⟨h1, h2⟩
      · rw [h] at hm; exact m9 k' j' hm
      · rw [h2] at hm; injection hm with hm; injection hm with e1 e2; subst e1; subst e2; exact ⟨hk, hj⟩
      · rw [h2] at hm; simp at hm
    · have hb' : x.s.blocking = false := by simpa using hb
      rw [(cons_spin_step x.s k j hb' (m1 hb') (m4 hb' k j hk hj)).2] at hm; simp at hm
  · exact m10
  · intro k' j' hk' hj' hpc
    show x.s.isDone = true
    by_cases he : k' = k ∧ j' = j
    · obtain ⟨rfl, rfl⟩ := he
      change ((stepC x.s k' j').cons k' j').pc = .done ∨ ((stepC x.s k' j').cons k' j').pc = .bUnlockExit at hpc
      rw [stepC_own] at hpc
      rcases cons_done_step x.s k' j' hpc with h | h | h
      · exact m11 k' j' hk hj (Or.inl h)
      · exact m11 k' j' hk hj (Or.inr h)
      · exact h
    · change ((stepC x.s k j).cons k' j').pc = .done ∨ ((stepC x.s k j).cons k' j').pc = .bUnlockExit at hpc
      rw [stepC_other _ _ _ _ _ he] at hpc
      exact m11 k' j' hk' hj' hpc
  · exact m12

theorem xinv_stepM (x : MSt) (t : MTid) (h : XInv x) : XInv (stepM x t) := by
  cases t with
  | writer i =>
    show XInv (if i < x.P then stepWriter x i else x)
    split
    · rename_i hi; exact xinv_stepWriter x i hi h
    · exact h
  | drainer => exact xinv_stepDrainer x h
  | cons k j =>
    show XInv (if k < x.s.K ∧ j < x.s.h k then { x with s := stepC x.s k j } else x)
    split
    · rename_i hv; exact xinv_stepCons x k j hv.1 hv.2 h
    · exact h

theorem xinv_init (n K : Nat) (h : Nat → Nat) (bl : Bool) (batches : List (List Nat)) :
    XInv (mkM n K h bl batches) := by
  constructor <;> simp [mkM, Spin.cSpin, cHold, wHold, dHold, wSpin, dSpin, dAfterSet, holdersP]

/-! ### the draining thread -/

theorem stepWriter_done (x : MSt) (i : Nat) (h : (x.wr i).pc = .done ∨ (x.wr i).pc = .panicked) : stepWriter x i = x := by
  unfold stepWriter
  rcases h with h | h <;> simp [h]

theorem stepM_writer_done (x : MSt) (i : Nat) (h : writersDone x = true) : stepM x (.writer i) = x := by
  simp only [stepM]
  split
  · rename_i hi; exact stepWriter_done x i ((writersDone_iff x).1 h i hi)
  · rfl

/-- facts local to the draining thread: it only gets past the join once every writer thread has ended; the cursor value it
waits for was read from the cursor; bookkeeping of its `get_min_cursor_sequence` loop -/
structure DInv (x : MSt) : Prop where
  joined  : x.dr.pc ≠ .waitJoin → writersDone x = true
  curLe   : x.dr.pc ≠ .waitJoin → x.dr.pc ≠ .readCur → x.dr.current ≤ x.s.cursor
  accSome : x.dr.pc = .drainLoad → 0 < x.dr.idx → x.dr.acc.isSome
  idxLe   : x.dr.pc = .drainLoad → x.dr.idx ≤ ngate x.s

theorem dinv_stepDrainer (x : MSt) (h : DInv x) : DInv (stepDrainer x) := by
  obtain ⟨h1, h2, h3, h4⟩ := h
  have hmo := minOpt_isSome x.dr.acc (gate x.s x.dr.idx)
  unfold stepDrainer
  cases hpc : x.dr.pc <;> simp only [hpc] at h1 h2 h3 h4 <;> simp only [hpc] <;> (repeat' split) <;>
    constructor <;> simp_all [writersDone, ngate] <;> omega

theorem dinv_stepM (x : MSt) (t : MTid) (h : DInv x) : DInv (stepM x t) := by
  cases t with
  | writer i =>
    by_cases hw : x.dr.pc = .waitJoin
    · show DInv (if i < x.P then stepWriter x i else x)
      split
      · obtain ⟨_, _, _, _, _, _, edr, _⟩ := stepWriter_frame x i
        constructor <;> rw [edr] <;> intros <;> simp_all
      · exact h
    · rw [stepM_writer_done x i (h.joined hw)]; exact h
  | drainer => exact dinv_stepDrainer x h
  | cons k j =>
    show DInv (if k < x.s.K ∧ j < x.s.h k then { x with s := stepC x.s k j } else x)
    split
    · exact ⟨h.1, h.2, h.3, h.4⟩
    · exact h

theorem dinv_init (n K : Nat) (h : Nat → Nat) (bl : Bool) (batches : List (List Nat)) :
    DInv (mkM n K h bl batches) := by
  constructor <;> simp [mkM]

/-! ### no lost wake-up -/

/-- some thread is at a pc from which it executes `notify_all` before it can block -/
def pendingM (x : MSt) : Prop :=
  dPend x.dr.pc = true ∨ (∃ i, i < x.P ∧ wPend (x.wr i).pc = true) ∨
    ∃ k j, k < x.s.K ∧ j < x.s.h k ∧ cPend (x.s.cons k j).pc = true

/-- **no lost wake-up** (invariant form): a handler that is parked, or under the mutex on its way to park, although its
wait condition holds or `is_done` is set, implies a thread between its store and its `notify_all` -/
def NInvM (x : MSt) : Prop := ∀ k j, k < x.s.K → j < x.s.h k → owed x.s k j → pendingM x

theorem writer_nlw_cases (x : MSt) (i : Nat) (hb : x.s.blocking = true) :
    wPend ((stepWriter x i).wr i).pc = true ∨
    (wHold (x.wr i).pc = true ∧ (stepWriter x i).s.woken = fun _ _ => true) ∨
    (wPend (x.wr i).pc = false ∧ (stepWriter x i).s.cursor = x.s.cursor ∧ (stepWriter x i).s.woken = x.s.woken) := by
  unfold stepWriter
  cases hpc : (x.wr i).pc <;> simp only [hpc, hb] <;> (repeat' split) <;> simp_all [wPend, wHold, updW_same]

theorem drainer_nlw_cases (x : MSt) (hb : x.s.blocking = true) :
    dPend (stepDrainer x).dr.pc = true ∨
    (dHold x.dr.pc = true ∧ (stepDrainer x).s.woken = fun _ _ => true) ∨
    (dPend x.dr.pc = false ∧ (stepDrainer x).s.isDone = x.s.isDone ∧ (stepDrainer x).s.woken = x.s.woken) := by
  unfold stepDrainer
  cases hpc : x.dr.pc <;> simp only [hpc, hb] <;> (repeat' split) <;> simp_all [dPend, dHold]

/-- when the producer side notifies while owning the mutex nobody is owed anything afterwards -/
theorem not_owed_after_notify (x : MSt) (hX : XInv x) (hb : x.s.blocking = true) (hm : x.s.mtx = some .prod)
    (s' : St) (hc : s'.cons = x.s.cons) (hw : s'.woken = fun _ _ => true) (k j : Nat) (hk : k < x.s.K) (hj : j < x.s.h k)
    (ho : owed s' k j) : False := by
  obtain ⟨_, _, hp⟩ := ho
  have hp' : parkish { s' with cons := x.s.cons } k j := by
    have : s' = { s' with cons := x.s.cons } := by rw [← hc]
    rw [this] at hp; exact hp
  rcases parkish_hold hp' with hh | ⟨_, hw'⟩
  · have := ((hX.blkC hb k j hk hj).1).1 hh
    rw [hm] at this; cases this
  · simp [hw] at hw'

theorem ninv_stepWriter (x : MSt) (i : Nat) (hi : i < x.P) (hX : XInv x) (hN : NInvM x) : NInvM (stepWriter x i) := by
  obtain ⟨ec, eK, eh, en, ebl, edn, edr, eP⟩ := stepWriter_frame x i
  have hoth : ∀ j, j ≠ i → (stepWriter x i).wr j = x.wr j := fun j hj => stepWriter_others x i j hj
  intro k j hk hj ho
  rw [eK] at hk; rw [eh] at hj
  have hb : x.s.blocking = true := by rw [← ebl]; exact ho.1
  rcases writer_nlw_cases x i hb with h | ⟨h1, h2⟩ | ⟨h1, h2, h3⟩
  · exact Or.inr (Or.inl ⟨i, by rw [eP]; exact hi, h⟩)
  · exfalso
    have hm : x.s.mtx = some .prod := (hX.blkP hb).2 (Or.inr ⟨i, hi, h1⟩)
    exact not_owed_after_notify x hX hb hm _ ec h2 k j hk hj ho
  · have ho' : owed x.s k j := by
      obtain ⟨_, hc, hp⟩ := ho
      refine ⟨hb, ?_, ?_⟩
      · rw [condC_congr x.s (stepWriter x i).s k _ (by rw [ec]; intros; rfl) h2 eh, ec, edn] at hc; exact hc
      · unfold parkish at hp ⊢; rw [ec, edn, h3] at hp; exact hp
    rcases hN k j hk hj ho' with hp | ⟨a, ha, hp⟩ | ⟨a, b, ha, hb', hc⟩
    · exact Or.inl (by rw [edr]; exact hp)
    · have hne : a ≠ i := by intro e; subst e; rw [h1] at hp; cases hp
      exact Or.inr (Or.inl ⟨a, by rw [eP]; exact ha, by rw [hoth a hne]; exact hp⟩)
    · exact Or.inr (Or.inr ⟨a, b, by rw [eK]; exact ha, by rw [eh]; exact hb', by rw [ec]; exact hc⟩)

theorem ninv_stepDrainer (x : MSt) (hX : XInv x) (hN : NInvM x) : NInvM (stepDrainer x) := by
  obtain ⟨ec, eK, eh, en, ebl, ecur, ewr, eP, ehw⟩ := stepDrainer_frame2 x
  intro k j hk hj ho
  rw [eK] at hk; rw [eh] at hj
  have hb : x.s.blocking = true := by rw [← ebl]; exact ho.1
  rcases drainer_nlw_cases x hb with h | ⟨h1, h2⟩ | ⟨h1, h2, h3⟩
  · exact Or.inl h
  · exfalso
    have hm : x.s.mtx = some .prod := (hX.blkP hb).2 (Or.inl h1)
    exact not_owed_after_notify x hX hb hm _ ec h2 k j hk hj ho
  · have ho' : owed x.s k j := by
      obtain ⟨_, hc, hp⟩ := ho
      refine ⟨hb, ?_, ?_⟩
      · rw [condC_congr x.s (stepDrainer x).s k _ (by rw [ec]; intros; rfl) ecur eh, ec, h2] at hc; exact hc
      · unfold parkish at hp ⊢; rw [ec, h2, h3] at hp; exact hp
    rcases hN k j hk hj ho' with hp | ⟨a, ha, hp⟩ | ⟨a, b, ha, hb', hc⟩
    · rw [h1] at hp; cases hp
    · exact Or.inr (Or.inl ⟨a, by rw [eP]; exact ha, by rw [ewr]; exact hp⟩)
    · exact Or.inr (Or.inr ⟨a, b, by rw [eK]; exact ha, by rw [eh]; exact hb', by rw [ec]; exact hc⟩)

theorem ninv_stepCons (x : MSt) (k j : Nat) (hk : k < x.s.K) (hj : j < x.s.h k) (hI : Inv x.s) (hX : XInv x)
    (hN : NInvM x) : NInvM { x with s := stepC x.s k j } := by
  intro k' j' hk' hj' ho
  change owed (stepC x.s k j) k' j' at ho
  change k' < x.s.K at hk'
  change j' < x.s.h k' at hj'
  have hb : x.s.blocking = true := ho.1
  rcases cons_nlw_cases x.s k j hb with h | ⟨h1, h2⟩ | ⟨h1, h2, h3⟩
  · exact Or.inr (Or.inr ⟨k, j, hk, hj, by show cPend ((stepC x.s k j).cons k j).pc = true; rw [stepC_own]; exact h⟩)
  · exfalso
    have hm : x.s.mtx = some (.cons k j) := ((hX.blkC hb k j hk hj).1).1 (by simp [h1, cHold])
    obtain ⟨_, _, hp⟩ := ho
    by_cases he : k' = k ∧ j' = j
    · obtain ⟨rfl, rfl⟩ := he
      unfold parkish at hp
      rw [stepC_own] at hp
      simp [stepCons, h1] at hp
    · have hp' : parkish { x.s with woken := wokenAfterC x.s k j } k' j' := by
        unfold parkish at hp ⊢
        rw [stepC_other _ _ _ _ _ he, stepC_woken] at hp
        exact hp
      rcases parkish_hold hp' with hh | ⟨_, hw⟩
      · have := ((hX.blkC hb k' j' hk' hj').1).1 hh
        rw [hm] at this
        injection this with this; injection this with e1 e2
        exact he ⟨e1.symm, e2.symm⟩
      · simp [h2] at hw
  · have hcurs : ∀ a b, ((stepC x.s k j).cons a b).cur = (x.s.cons a b).cur := CS.stepC_cur_same x.s k j h2
    have ho' : owed x.s k' j' := by
      by_cases he : k' = k ∧ j' = j
      · obtain ⟨rfl, rfl⟩ := he
        exact own_owed x.s k' j' (hI.2 k' j' hk hj) (ndeps_pos x.s hI.1 k' hk) h2 ho
      · obtain ⟨_, hc, hp⟩ := ho
        refine ⟨hb, ?_, ?_⟩
        · rw [condC_congr x.s (stepC x.s k j) k' _ hcurs rfl rfl, stepC_other _ _ _ _ _ he] at hc
          exact hc
        · unfold parkish at hp ⊢
          rw [stepC_other _ _ _ _ _ he, stepC_woken, h3 k' j' he] at hp
          exact hp
    rcases hN k' j' hk' hj' ho' with hp | hp | ⟨a, b, ha, hb', hc⟩
    · exact Or.inl hp
    · exact Or.inr (Or.inl hp)
    · refine Or.inr (Or.inr ⟨a, b, ha, hb', ?_⟩)
      show cPend ((stepC x.s k j).cons a b).pc = true
      by_cases he : a = k ∧ b = j
      · obtain ⟨rfl, rfl⟩ := he; rw [h1] at hc; cases hc
      · rw [stepC_other _ _ _ _ _ he]; exact hc

theorem ninv_stepM (x : MSt) (t : MTid) (hI : Inv x.s) (hX : XInv x) (hN : NInvM x) : NInvM (stepM x t) := by
  cases t with
  | writer i =>
    show NInvM (if i < x.P then stepWriter x i else x)
    split
    · rename_i hi; exact ninv_stepWriter x i hi hX hN
    · exact hN
  | drainer => exact ninv_stepDrainer x hX hN
  | cons k j =>
    show NInvM (if k < x.s.K ∧ j < x.s.h k then { x with s := stepC x.s k j } else x)
    split
    · rename_i hv; exact ninv_stepCons x k j hv.1 hv.2 hI hX hN
    · exact hN

theorem ninv_init (n K : Nat) (h : Nat → Nat) (bl : Bool) (batches : List (List Nat)) : NInvM (mkM n K h bl batches) := by
  intro k j _ _ ho
  obtain ⟨_, _, hp⟩ := ho
  simp [parkish, mkM] at hp

/-! ### all of them together -/

/-- the invariants of the multi-producer pipeline that the liveness argument uses, for any number of writers -/
structure GInv (x : MSt) : Prop where
  good : MGood x
  mtx  : XInv x
  dr   : DInv x
  nlw  : NInvM x

theorem ginv_stepM (x : MSt) (t : MTid) (h : GInv x) : GInv (stepM x t) :=
  ⟨mgood_stepM x t h.good, xinv_stepM x t h.mtx, dinv_stepM x t h.dr, ninv_stepM x t h.good.2.1 h.mtx h.nlw⟩

theorem ginv_init (n K : Nat) (h : Nat → Nat) (bl : Bool) (batches : List (List Nat))
    (hK : 0 < K) (hh : ∀ k, k < K → 0 < h k) (hb : ∀ l, l ∈ batches → ∀ b, b ∈ l → 1 ≤ b) : GInv (mkM n K h bl batches) :=
  ⟨mgood_init n K h bl batches hK hh hb, xinv_init n K h bl batches, dinv_init n K h bl batches,
   ninv_init n K h bl batches⟩

theorem ginv_run (x : MSt) (sched : List MTid) (h : GInv x) : GInv (runM x sched) := by
  unfold runM
  induction sched generalizing x with
  | nil => exact h
  | cons t ts ih => exact ih _ (ginv_stepM x t h)

theorem mreachableWF_ginv {x : MSt} (hr : MReachableWF x) : GInv x := by
  obtain ⟨n, K, h, bl, bs, sched, hK, hh, hb, rfl⟩ := hr
  exact ginv_run _ sched (ginv_init n K h bl bs hK hh hb)

/-! ### no lost wake-up, no deadlock -/

/-- the run is over: every writer thread has returned from all its `write` calls, `drain` has returned, every handler
thread has left its loop -/
def terminalM (x : MSt) : Prop :=
  (∀ i, i < x.P → (x.wr i).pc = .done) ∧ x.dr.pc = .done ∧
    ∀ k j, k < x.s.K → j < x.s.h k → (x.s.cons k j).pc = .done

/-- the threads of the configuration -/
def inTopoM (P K : Nat) (h : Nat → Nat) : MTid → Prop
  | .writer i => i < P
  | .drainer => True
  | .cons k j => k < K ∧ j < h k

/-- **no lost wake-up**: a handler parked on the condvar (`bRelock`) whose wait condition holds, or for which `is_done` is
set, has been woken — or some *other* thread is between its store and the `notify_all` of its `signal()` -/
theorem no_lost_wakeup {x : MSt} (h : GInv x) (k j : Nat) (hk : k < x.s.K) (hj : j < x.s.h k)
    (hpark : (x.s.cons k j).pc = .bRelock) (hc : condC x.s k (x.s.cons k j) ∨ x.s.isDone = true) :
    x.s.woken k j = true ∨ dPend x.dr.pc = true ∨ (∃ i, i < x.P ∧ wPend (x.wr i).pc = true) ∨
      ∃ k' j', k' < x.s.K ∧ j' < x.s.h k' ∧ (k', j') ≠ (k, j) ∧ cPend (x.s.cons k' j').pc = true := by
  have hb : x.s.blocking = true := by
    cases hbl : x.s.blocking
    · have := h.mtx.spinC hbl k j hk hj
      simp [hpark, Spin.cSpin] at this
    · rfl
  cases hw : x.s.woken k j
  · right
    have ho : owed x.s k j := ⟨hb, hc, by simp [parkish, hpark, hw]⟩
    rcases h.nlw k j hk hj ho with hp | hp | ⟨a, b, ha, hb', hc'⟩
    · exact Or.inl hp
    · exact Or.inr (Or.inl hp)
    · refine Or.inr (Or.inr ⟨a, b, ha, hb', ?_, hc'⟩)
      intro he
      injection he with e1 e2; subst e1; subst e2
      simp [hpark, cPend] at hc'
  · exact Or.inl rfl

theorem enabledM_cons (x : MSt) (k j : Nat) : enabledM x (.cons k j) = CS.cEn x.s k j := rfl

/-- **no deadlock** (both strategies, any number of writers): in every non-terminal state satisfying the invariants some
thread of the configuration has an enabled step — not a `lock` on a taken mutex, not the re-acquisition of a parked,
un-notified handler, not the join of a writer thread that is still running -/
theorem exists_enabled {x : MSt} (h : GInv x) (hnt : ¬ terminalM x) :
    ∃ t, inTopoM x.P x.s.K x.s.h t ∧ enabledM x t = true := by
  obtain ⟨hG, hM, hD, hN⟩ := h
  have hcons : (∀ i, i < x.P → (x.wr i).pc = .done) → x.dr.pc = .done →
      ∃ k j, k < x.s.K ∧ j < x.s.h k ∧ (x.s.cons k j).pc ≠ .done := by
    intro hw hd
    apply Classical.byContradiction; intro hno
    apply hnt; refine ⟨hw, hd, fun k j hk hj => ?_⟩
    apply Classical.byContradiction; intro hne
    exact hno ⟨k, j, hk, hj, hne⟩
  cases hbl : x.s.blocking
  · -- spin: every thread that has not finished is enabled
    by_cases hw : ∀ i, i < x.P → (x.wr i).pc = .done
    · by_cases hd : x.dr.pc = .done
      · obtain ⟨k, j, hk, hj, hne⟩ := hcons hw hd
        refine ⟨.cons k j, ⟨hk, hj⟩, ?_⟩
        have := hM.spinC hbl k j hk hj
        rw [enabledM_cons]; unfold CS.cEn
        cases hpc : (x.s.cons k j).pc <;> simp_all [enabled, Spin.cSpin]
      · refine ⟨.drainer, trivial, ?_⟩
        have := hM.spinD hbl
        have hwd : writersDone x = true := (writersDone_iff x).2 (fun i hi => Or.inl (hw i hi))
        cases hpc : x.dr.pc <;> simp_all [enabledM, dSpin]
    · have : ∃ i, i < x.P ∧ (x.wr i).pc ≠ .done := by
        apply Classical.byContradiction; intro hno
        apply hw; intro i hi
        apply Classical.byContradiction; intro hne
        exact hno ⟨i, hi, hne⟩
      obtain ⟨i, hi, hne⟩ := this
      refine ⟨.writer i, hi, ?_⟩
      have := hM.spinW hbl i hi
      have := hM.noPanic i hi
      cases hpc : (x.wr i).pc <;> simp_all [enabledM, wSpin]
  · cases hm : x.s.mtx with
    | some t =>
      -- the owner of the mutex is between lock and unlock: enabled
      cases t with
      | prod =>
        rcases (hM.blkP hbl).1 hm with hd | ⟨i, hi, hw⟩
        · refine ⟨.drainer, trivial, ?_⟩
          cases hpc : x.dr.pc <;> simp_all [enabledM, dHold]
        · refine ⟨.writer i, hi, ?_⟩
          cases hpc : (x.wr i).pc <;> simp_all [enabledM, wHold]
      | cons k j =>
        obtain ⟨hk, hj⟩ := hM.owner k j hm
        refine ⟨.cons k j, ⟨hk, hj⟩, ?_⟩
        have := ((hM.blkC hbl k j hk hj).1).2 hm
        rw [enabledM_cons]; unfold CS.cEn
        cases hpc : (x.s.cons k j).pc <;> simp_all [enabled, cHold]
    | none =>
      by_cases hw : ∀ i, i < x.P → (x.wr i).pc = .done
      · by_cases hd : x.dr.pc = .done
        · obtain ⟨k, j, hk, hj, hne⟩ := hcons hw hd
          by_cases hpark : (x.s.cons k j).pc = .bRelock
          · have hdn : x.s.isDone = true := hM.doneIff.2 (by simp [hd, dAfterSet])
            rcases no_lost_wakeup ⟨hG, hM, hD, hN⟩ k j hk hj hpark (Or.inr hdn) with hwk | hp | ⟨i, hi, hp⟩ |
              ⟨a, b, ha, hb, _, hc⟩
            · exact ⟨.cons k j, ⟨hk, hj⟩, by rw [enabledM_cons]; simp [CS.cEn, enabled, hpark, hwk, hm]⟩
            · simp [hd, dPend] at hp
            · simp [hw i hi, wPend] at hp
            · refine ⟨.cons a b, ⟨ha, hb⟩, ?_⟩
              rw [enabledM_cons]; unfold CS.cEn
              cases hpc : (x.s.cons a b).pc <;> simp_all [enabled, cPend]
          · refine ⟨.cons k j, ⟨hk, hj⟩, ?_⟩
            rw [enabledM_cons]; unfold CS.cEn
            cases hpc : (x.s.cons k j).pc <;> simp_all [enabled]
        · refine ⟨.drainer, trivial, ?_⟩
          have hwd : writersDone x = true := (writersDone_iff x).2 (fun i hi => Or.inl (hw i hi))
          cases hpc : x.dr.pc <;> simp_all [enabledM]
      · have : ∃ i, i < x.P ∧ (x.wr i).pc ≠ .done := by
          apply Classical.byContradiction; intro hno
          apply hw; intro i hi
          apply Classical.byContradiction; intro hne
          exact hno ⟨i, hi, hne⟩
        obtain ⟨i, hi, hne⟩ := this
        refine ⟨.writer i, hi, ?_⟩
        have := hM.noPanic i hi
        cases hpc : (x.wr i).pc <;> simp_all [enabledM]

/-! ### wait conditions are stable -/

/-- the capacity condition of writer `i` inside `next`: with the current high watermark the requested batch fits below
every gating cursor plus one ring -/
def condCap (x : MSt) (i : Nat) : Prop := ∀ d, d < ngate x.s → x.hw + (x.wr i).count < gate x.s d + x.s.n

/-- the drain condition: every gating cursor has reached the cursor value `drain` read -/
def condDM (x : MSt) : Prop := ∀ d, d < ngate x.s → x.dr.current ≤ gate x.s d

theorem topo_stepM (x : MSt) (t : MTid) :
    (stepM x t).s.K = x.s.K ∧ (stepM x t).s.h = x.s.h ∧ (stepM x t).s.n = x.s.n ∧ (stepM x t).P = x.P ∧
    (stepM x t).s.blocking = x.s.blocking := by
  cases t with
  | writer i =>
    simp only [stepM]; split
    · obtain ⟨_, eK, eh, en, ebl, _, _, eP⟩ := stepWriter_frame x i; exact ⟨eK, eh, en, eP, ebl⟩
    · exact ⟨rfl, rfl, rfl, rfl, rfl⟩
  | drainer =>
    obtain ⟨_, eK, eh, en, ebl, _, _, eP, _⟩ := stepDrainer_frame2 x; exact ⟨eK, eh, en, eP, ebl⟩
  | cons k j => simp only [stepM]; split <;> exact ⟨rfl, rfl, rfl, rfl, rfl⟩

theorem runM_topo (y : MSt) (sch : List MTid) :
    (runM y sch).s.K = y.s.K ∧ (runM y sch).s.h = y.s.h ∧ (runM y sch).s.n = y.s.n ∧ (runM y sch).P = y.P ∧
    (runM y sch).s.blocking = y.s.blocking := by
  unfold runM
  induction sch generalizing y with
  | nil => exact ⟨rfl, rfl, rfl, rfl, rfl⟩
  | cons t ts ih =>
    simp only [List.foldl_cons]
    obtain ⟨e1, e2, e3, e4, e5⟩ := ih (stepM y t)
    obtain ⟨f1, f2, f3, f4, f5⟩ := topo_stepM y t
    exact ⟨by rw [e1, f1], by rw [e2, f2], by rw [e3, f3], by rw [e4, f4], by rw [e5, f5]⟩

theorem dep_mono_stepM (x : MSt) (t : MTid) (h : MGood x) (k d : Nat) : dep x.s k d ≤ dep (stepM x t).s k d := by
  have hcur := cursor_mono_stepM x t h.1
  cases t with
  | writer i =>
    simp only [stepM] at hcur ⊢; split
    · rename_i hi
      simp only [hi, if_true] at hcur
      unfold dep; rw [(stepWriter_frame x i).1]; split
      · exact hcur
      · exact Nat.le_refl _
    · exact Nat.le_refl _
  | drainer =>
    show dep x.s k d ≤ dep (stepDrainer x).s k d
    obtain ⟨ec, _, _, _, _, ecur, _⟩ := stepDrainer_frame2 x
    unfold dep; rw [ec, ecur]; exact Nat.le_refl _
  | cons a b =>
    simp only [stepM]; split
    · rename_i hv; exact dep_mono_stepC x.s a b hv.1 hv.2 h.2.1 k d
    · exact Nat.le_refl _

theorem gate_mono_stepM (x : MSt) (t : MTid) (h : MGood x) (d : Nat) : gate x.s d ≤ gate (stepM x t).s d := by
  cases t with
  | writer i =>
    simp only [stepM]; split
    · rw [(stepWriter_gate x i).2 d]; exact Nat.le_refl _
    · exact Nat.le_refl _
  | drainer =>
    show gate x.s d ≤ gate (stepDrainer x).s d
    rw [(stepDrainer_gate x).2 d]; exact Nat.le_refl _
  | cons a b =>
    simp only [stepM]; split
    · rename_i hv; exact gate_mono_stepC x.s a b hv.1 hv.2 h.2.1 d
    · exact Nat.le_refl _

theorem ngate_stepM (x : MSt) (t : MTid) : ngate (stepM x t).s = ngate x.s := by
  obtain ⟨eK, eh, _⟩ := topo_stepM x t
  simp [ngate, eK, eh]

/-- a handler's wait condition, once true, stays true under every step that does not change the handler's own cursor -/
theorem condC_stable (x : MSt) (t : MTid) (h : MGood x) (k j : Nat)
    (hcur : ((stepM x t).s.cons k j).cur = (x.s.cons k j).cur)
    (hc : condC x.s k (x.s.cons k j)) : condC (stepM x t).s k ((stepM x t).s.cons k j) := by
  intro d hd
  have hn : ndeps (stepM x t).s k = ndeps x.s k := by simp [ndeps, (topo_stepM x t).2.1]
  rw [hn] at hd
  have := hc d hd
  have := dep_mono_stepM x t h k d
  omega

theorem isDone_stable (x : MSt) (t : MTid) (h : XInv x) (hd : x.s.isDone = true) : (stepM x t).s.isDone = true := by
  cases t with
  | writer i =>
    simp only [stepM]; split
    · rw [(stepWriter_frame x i).2.2.2.2.2.1]; exact hd
    · exact hd
  | drainer => exact (drainer_done_step x h.doneIff).2 hd
  | cons k j => simp only [stepM]; split <;> exact hd

end RingMulti
