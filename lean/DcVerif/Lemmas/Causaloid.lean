import DcVerif.Model.Causaloid
import DcVerif.Spec.Causaloid
import DcVerif.Lemmas.GraphDfs
/-! Lemmas for C02 / C11: the panicking stack machine `loopO` against `Dfs.loop`, descendants against `Dfs.Reach`,
structural induction over nesting trees. -/
namespace Causal
open Dfs

/-- the graph `Dfs.loop` sees: a panicking node counts as an error -/
def gOf (out : Nat → List Nat) (ev : Nat → Option V) : G := ⟨out, fun v => (ev v).getD .e⟩

theorem loopO_to_dfs (out : Nat → List Nat) (ev : Nat → Option V) (stop : Nat) :
    ∀ fuel st r, loopO out ev stop fuel st = some r → Dfs.loop (gOf out ev) stop fuel st = some r := by
  intro fuel
  induction fuel with
  | zero => intro st r h; simp [loopO] at h
  | succ fuel ih =>
    intro st r h
    match st with
    | [] => simpa [loopO, Dfs.loop] using h
    | [] :: rest => simp only [loopO] at h; simpa [Dfs.loop] using ih rest r h
    | (c :: cs) :: rest =>
      simp only [loopO] at h
      cases hev : ev c with
      | none => simp [hev] at h
      | some x =>
        cases x with
        | e => simp [hev] at h; subst h; simp [Dfs.loop, gOf, hev]
        | f => simp [hev] at h; subst h; simp [Dfs.loop, gOf, hev]
        | t =>
          simp only [hev] at h
          by_cases hs : c = stop
          · simp [hs] at h; subst h; subst hs; simp [Dfs.loop, gOf, hev]
          · simp only [hs, if_false] at h
            have := ih _ r h
            simp only [Dfs.loop, gOf, hev, Option.getD_some, hs, if_false]
            exact this

/-- verdict `t`: every node the stack can reach was answered `t` -/
theorem loopO_true (out : Nat → List Nat) (ev : Nat → Option V) (stop fuel : Nat) (st : List (List Nat))
    (hs : ∀ v, OnStack (gOf out ev) st v → v ≠ stop) (h : loopO out ev stop fuel st = some .t) :
    ∀ v, OnStack (gOf out ev) st v → ev v = some .t := by
  intro v hv
  have := (loop_true_iff (gOf out ev) stop fuel st .t hs (loopO_to_dfs out ev stop fuel st .t h)).1 rfl v hv
  simp only [gOf] at this
  cases hev : ev v with
  | none => simp [hev] at this
  | some x => simp [hev] at this; simp [this]

/-- a verdict other than `t` is the verdict of a node the stack reaches -/
theorem loopO_witness (out : Nat → List Nat) (ev : Nat → Option V) (stop : Nat) :
    ∀ fuel st r, loopO out ev stop fuel st = some r → r ≠ .t → ∃ v, OnStack (gOf out ev) st v ∧ ev v = some r := by
  intro fuel
  induction fuel with
  | zero => intro st r h; simp [loopO] at h
  | succ fuel ih =>
    intro st r h hr
    match st with
    | [] => simp [loopO] at h; exact absurd h.symm hr
    | [] :: rest =>
      simp only [loopO] at h
      obtain ⟨v, hv, he⟩ := ih rest r h hr
      exact ⟨v, (onStack_drop_empty _ rest v).2 hv, he⟩
    | (c :: cs) :: rest =>
      simp only [loopO] at h
      have hc : OnStack (gOf out ev) ((c :: cs) :: rest) c := (onStack_expand _ c cs rest c).2 (Or.inl rfl)
      cases hev : ev c with
      | none => simp [hev] at h
      | some x =>
        cases x with
        | e => simp [hev] at h; subst h; exact ⟨c, hc, hev⟩
        | f => simp [hev] at h; subst h; exact ⟨c, hc, hev⟩
        | t =>
          simp only [hev] at h
          by_cases hs : c = stop
          · simp [hs] at h; exact absurd h.symm hr
          · simp only [hs, if_false] at h
            obtain ⟨v, hv, he⟩ := ih _ r h hr
            exact ⟨v, (onStack_expand (gOf out ev) c cs rest v).2 (Or.inr hv), he⟩

/-! ### reachability -/

theorem onStack_single (g : G) (cs : List Nat) (v : Nat) : OnStack g [cs] v ↔ ∃ c ∈ cs, Reach g c v := by
  constructor
  · rintro ⟨fr, hfr, c, hc, hr⟩
    simp at hfr; subst hfr; exact ⟨c, hc, hr⟩
  · rintro ⟨c, hc, hr⟩
    exact ⟨cs, by simp, c, hc, hr⟩

theorem mem_outOf {n : Nat} {edges : List (Nat × Nat)} {a b : Nat} : b ∈ outOf n edges a → b < n := by
  intro h
  simp only [outOf, List.mem_filter, List.mem_range] at h
  exact h.1

theorem reach_lt {n : Nat} {edges : List (Nat × Nat)} {ev : Nat → Option V} {c v : Nat}
    (h : Reach (gOf (outOf n edges) ev) c v) (hc : c < n) : v < n := by
  induction h with
  | refl => exact hc
  | step hb _ ih => exact ih (mem_outOf hb)

end Causal

namespace Spec.Nest
open Causal Dfs

theorem desc_sound (out : Nat → List Nat) (ev : Nat → V) :
    ∀ k a v, v ∈ desc out k a → Reach ⟨out, ev⟩ a v := by
  intro k
  induction k with
  | zero => intro a v h; simp [desc] at h
  | succ k ih =>
    intro a v h
    simp only [desc, List.mem_cons, List.mem_flatMap] at h
    rcases h with rfl | ⟨b, hb, hv⟩
    · exact Reach.refl _
    · exact Reach.step (g := ⟨out, ev⟩) hb (ih b v hv)

theorem desc_complete (out : Nat → List Nat) (ev : Nat → V) (rank : Nat → Nat)
    (hacyc : ∀ a b, b ∈ out a → rank b < rank a) {a v : Nat} (h : Reach ⟨out, ev⟩ a v) :
    ∀ k, rank a < k → v ∈ desc out k a := by
  induction h with
  | refl a => intro k hk; cases k with
    | zero => omega
    | succ k => simp [desc]
  | @step a b c hb _ ih =>
    intro k hk
    cases k with
    | zero => omega
    | succ k =>
      simp only [desc, List.mem_cons, List.mem_flatMap]
      right
      exact ⟨b, hb, ih k (by have := hacyc a b hb; omega)⟩

end Spec.Nest

/-! ### the verdict of a nested model against the verdicts it contains -/
namespace Causal
open Dfs Spec.Nest

/-- an answered verdict `r` is the conjunction of the list `L`: `t` iff all of `L` are `t`; otherwise `r` occurs in `L`
    (a false verdict is caused by a false leaf, an error by an error leaf) -/
def Agrees (r : V) (L : List (Option V)) : Prop := (r = .t ↔ ∀ l ∈ L, l = some .t) ∧ (r ≠ .t → some r ∈ L)

theorem agrees_self (x : V) : Agrees x [some x] := by
  constructor
  · constructor
    · intro h l hl; simp at hl; subst hl; rw [h]
    · intro h; have := h (some x) (by simp); simpa using this
  · intro _; simp

theorem agrees_nil : Agrees .t [] := by
  constructor
  · simp
  · intro h; exact absurd rfl h

theorem agrees_stop {x : V} {Lh Lt : List (Option V)} (h : Agrees x Lh) (hx : x ≠ .t) : Agrees x (Lh ++ Lt) := by
  constructor
  · constructor
    · intro h'; exact absurd h' hx
    · intro hall; exact h.1.2 (fun l hl => hall l (List.mem_append_left _ hl))
  · intro _; exact List.mem_append_left _ (h.2 hx)

theorem agrees_cont {r : V} {Lh Lt : List (Option V)} (hh : Agrees .t Lh) (ht : Agrees r Lt) : Agrees r (Lh ++ Lt) := by
  constructor
  · constructor
    · intro hr l hl
      rcases List.mem_append.1 hl with hl | hl
      · exact hh.1.1 rfl l hl
      · exact ht.1.1 hr l hl
    · intro hall; exact ht.1.2 (fun l hl => hall l (List.mem_append_right _ hl))
  · intro hr; exact List.mem_append_right _ (ht.2 hr)

theorem agrees_err_head (L : List (Option V)) : Agrees .e (some .e :: L) := by
  have := agrees_stop (Lt := L) (agrees_self .e) (by decide)
  simpa using this

/-- structural induction over nesting trees (the principle Lean generates for structural recursion over `Causaloid`) -/
theorem Causaloid.induct2 (P : Causaloid → Prop) (Q : List Causaloid → Prop)
    (single : ∀ cell id fn, P (.single cell id fn))
    (coll : ∀ id items, Q items → P (.coll id items))
    (graph : ∀ id nodes edges root, Q nodes → P (.graph id nodes edges root))
    (nil : Q [])
    (cons : ∀ c cs, P c → Q cs → Q (c :: cs)) : (∀ c, P c) ∧ (∀ cs, Q cs) :=
  isActive.mutual_induct P Q single coll graph nil cons

theorem verdict_agrees (mk : Nat → Nat) (fuel : Nat) :
    (∀ c : Causaloid, ∀ data idx r, Acyclic c → verifyAll mk fuel c data idx = some r →
        Agrees r (contained mk c data idx)) ∧
    (∀ cs : List Causaloid, AcyclicL cs →
      (∀ data i r, reasonFrom mk fuel cs data i = some r → Agrees r (containedItems mk cs data i)) ∧
      (∀ data idx v x, ((nodeTable mk fuel cs data idx)[v]?).bind id = some x →
        Agrees x ((containedNodes mk cs data idx).getD v []))) := by
  apply Causaloid.induct2
  · -- single
    intro cell id fn data idx r _ h
    simp only [verifyAll, Option.some.injEq] at h; subst h
    simp only [contained]; exact agrees_self .e
  · -- coll
    intro id items ih data idx r hac h
    simp only [Acyclic] at hac
    simp only [verifyAll] at h
    simp only [contained]
    split at h
    · rename_i he; simp only [he, if_true]
      simp only [Option.some.injEq] at h; subst h; exact agrees_self .e
    · rename_i he; simp only [he]
      exact (ih hac).1 data 0 r h
  · -- graph
    intro gid nodes edges root ih data idx r hac h
    simp only [Acyclic] at hac
    obtain ⟨⟨rank, hrank, hbound⟩, hacl⟩ := hac
    simp only [verifyAll, reasonGraph] at h
    simp only [contained]
    cases root with
    | none => simp only [Option.some.injEq] at h; subst h; exact agrees_self .e
    | some r0 =>
      simp only at h ⊢
      by_cases hd : data.isEmpty
      · simp only [hd, if_true, Option.some.injEq] at h ⊢; subst h; exact agrees_self .e
      · have hd' : data.isEmpty = false := by simpa using hd
        simp only [hd', Bool.false_eq_true, if_false] at h ⊢
        by_cases hn : nodes.length ≤ r0
        · simp only [hn, if_true, Option.some.injEq] at h ⊢; subst h; exact agrees_self .e
        · simp only [hn, if_false, Option.bind_some] at h ⊢
          generalize hsv : (nodes[r0]?.bind fun c => startVerdict mk c data idx) = sv at h ⊢
          cases sv with
          | none => simp at h
          | some s =>
            cases s with
            | e => simp only [Option.some.injEq] at h; subst h; exact agrees_err_head _
            | f =>
              simp only [Option.some.injEq] at h; subst h
              have := agrees_stop (Lt := ((outOf nodes.length edges r0).flatMap
                (desc (outOf nodes.length edges) nodes.length)).flatMap
                  (fun v => (containedNodes mk nodes data idx).getD v [])) (agrees_self .f) (by decide)
              simpa using this
            | t =>
              simp only at h
              -- the traversal
              let out := outOf nodes.length edges
              let ev : Nat → Option V := fun v => ((nodeTable mk fuel nodes data idx)[v]?).bind id
              have hstop : ∀ v, OnStack (gOf out ev) [out r0] v → v ≠ nodes.length := by
                intro v hv
                obtain ⟨c, hc, hr⟩ := (onStack_single _ _ v).1 hv
                have := reach_lt hr (mem_outOf hc)
                omega
              have hD : ∀ v, v ∈ (out r0).flatMap (desc out nodes.length) ↔ OnStack (gOf out ev) [out r0] v := by
                intro v
                rw [onStack_single, List.mem_flatMap]
                constructor
                · rintro ⟨c, hc, hv⟩; exact ⟨c, hc, desc_sound out _ _ c v hv⟩
                · rintro ⟨c, hc, hv⟩
                  refine ⟨c, hc, desc_complete out _ rank hrank hv _ ?_⟩
                  have := hrank r0 c hc; have := hbound r0; omega
              have hnode := (ih hacl).2 data idx
              apply agrees_cont (Lh := [some V.t]) (agrees_self .t)
              constructor
              · constructor
                · intro hr l hl
                  subst hr
                  obtain ⟨v, hv, hl⟩ := List.mem_flatMap.1 hl
                  have hev := loopO_true out ev nodes.length fuel [out r0] hstop h v ((hD v).1 hv)
                  exact (hnode v .t hev).1.1 rfl l hl
                · intro hall
                  refine Classical.byContradiction fun hr => ?_
                  obtain ⟨v, hv, hev⟩ := loopO_witness out ev nodes.length fuel [out r0] r h hr
                  have hm := (hnode v r hev).2 hr
                  have := hall (some r) (List.mem_flatMap.2 ⟨v, (hD v).2 hv, hm⟩)
                  simp only [Option.some.injEq] at this
                  exact hr this
              · intro hr
                obtain ⟨v, hv, hev⟩ := loopO_witness out ev nodes.length fuel [out r0] r h hr
                exact List.mem_flatMap.2 ⟨v, (hD v).2 hv, (hnode v r hev).2 hr⟩
  · -- nil
    intro _
    refine ⟨?_, ?_⟩
    · intro data i r h
      simp only [reasonFrom, Option.some.injEq] at h; subst h
      simp only [containedItems]; exact agrees_nil
    · intro data idx v x h; simp [nodeTable] at h
  · -- cons
    intro c cs ihc ihcs hac
    simp only [AcyclicL] at hac
    obtain ⟨hc, hcs⟩ := hac
    refine ⟨?_, ?_⟩
    · intro data i r h
      simp only [reasonFrom] at h
      simp only [containedItems]
      have key : ∀ (Lh : List (Option V)),
          (∀ x, dispatch mk c data[i]? (verifyAll mk fuel c data none) = some x → Agrees x Lh) →
          Agrees r (Lh ++ containedItems mk cs data (i + 1)) := by
        intro Lh hhead
        generalize hdv : dispatch mk c data[i]? (verifyAll mk fuel c data none) = dv at h hhead
        cases dv with
        | none => simp at h
        | some s =>
          cases s with
          | e => simp only [Option.some.injEq] at h; subst h; exact agrees_stop (hhead .e rfl) (by decide)
          | f => simp only [Option.some.injEq] at h; subst h; exact agrees_stop (hhead .f rfl) (by decide)
          | t => simp only at h; exact agrees_cont (hhead .t rfl) ((ihcs hcs).1 data (i + 1) r h)
      cases c with
      | single cell id fn =>
        exact key _ (fun x hx => by simp only [dispatch] at hx; simp only [memberContained, hx]; exact agrees_self x)
      | coll id items =>
        exact key _ (fun x hx => by simp only [dispatch] at hx; simp only [memberContained]; exact ihc data none x hc hx)
      | graph id nodes edges root =>
        exact key _ (fun x hx => by simp only [dispatch] at hx; simp only [memberContained]; exact ihc data none x hc hx)
    · intro data idx v x h
      cases v with
      | zero =>
        simp only [nodeTable, List.getElem?_cons_zero, Option.bind_some, id] at h
        simp only [containedNodes, List.getD_cons_zero]
        cases ho : getObs c.id data idx with
        | none => simp [ho] at h
        | some o =>
          simp only [ho] at h ⊢
          cases c with
          | single cell id fn =>
            simp only [dispatch, Option.bind_some] at h; simp only [memberContained, Option.bind_some, h]; exact agrees_self x
          | coll id items => simp only [dispatch] at h; simp only [memberContained]; exact ihc data idx x hc h
          | graph id nodes edges root => simp only [dispatch] at h; simp only [memberContained]; exact ihc data idx x hc h
      | succ v =>
        simp only [nodeTable, List.getElem?_cons_succ] at h
        simp only [containedNodes, List.getD_cons_succ]
        exact (ihcs hcs).2 data idx v x h

end Causal

/-! ### more fuel (and more answered nodes) never changes an answer; termination on acyclic nesting trees -/
namespace Causal
open Dfs Spec.Nest

theorem loopO_mono (out : Nat → List Nat) (ev ev' : Nat → Option V) (stop : Nat)
    (hev : ∀ v x, ev v = some x → ev' v = some x) :
    ∀ fuel st r, loopO out ev stop fuel st = some r → ∀ fuel', fuel ≤ fuel' → loopO out ev' stop fuel' st = some r := by
  intro fuel
  induction fuel with
  | zero => intro st r h; simp [loopO] at h
  | succ fuel ih =>
    intro st r h fuel' hle
    obtain ⟨k, rfl⟩ : ∃ k, fuel' = k + 1 := ⟨fuel' - 1, by omega⟩
    have hk : fuel ≤ k := by omega
    match st with
    | [] => simpa [loopO] using h
    | [] :: rest => simp only [loopO] at h ⊢; exact ih rest r h k hk
    | (c :: cs) :: rest =>
      simp only [loopO] at h ⊢
      cases hc : ev c with
      | none => simp [hc] at h
      | some x =>
        rw [hev c x hc]
        simp only [hc] at h
        cases x with
        | e => exact h
        | f => exact h
        | t =>
          simp only at h ⊢
          by_cases hs : c = stop
          · simpa [hs] using h
          · simp only [hs, if_false] at h ⊢; exact ih _ r h k hk

theorem dfs_to_loopO (out : Nat → List Nat) (ev : Nat → Option V) (stop : Nat) :
    ∀ fuel st r, Dfs.loop (gOf out ev) stop fuel st = some r → (∀ v, OnStack (gOf out ev) st v → ev v ≠ none) →
      loopO out ev stop fuel st = some r := by
  intro fuel
  induction fuel with
  | zero => intro st r h; simp [Dfs.loop] at h
  | succ fuel ih =>
    intro st r h hdef
    match st with
    | [] => simpa [loopO, Dfs.loop] using h
    | [] :: rest =>
      simp only [Dfs.loop] at h; simp only [loopO]
      exact ih rest r h (fun v hv => hdef v ((onStack_drop_empty _ rest v).2 hv))
    | (c :: cs) :: rest =>
      have hc : OnStack (gOf out ev) ((c :: cs) :: rest) c := (onStack_expand _ c cs rest c).2 (Or.inl rfl)
      simp only [Dfs.loop, gOf] at h; simp only [loopO]
      cases hev : ev c with
      | none => exact absurd hev (hdef c hc)
      | some x =>
        simp only [hev, Option.getD_some] at h
        cases x with
        | e => exact h
        | f => exact h
        | t =>
          simp only at h ⊢
          by_cases hs : c = stop
          · simpa [hs] using h
          · simp only [hs, if_false] at h ⊢
            exact ih _ r h (fun v hv => hdef v ((onStack_expand (gOf out ev) c cs rest v).2 (Or.inr hv)))

theorem verdict_mono (mk : Nat → Nat) :
    (∀ c : Causaloid, ∀ data idx r f f', f ≤ f' → verifyAll mk f c data idx = some r →
        verifyAll mk f' c data idx = some r) ∧
    (∀ cs : List Causaloid,
      (∀ data i r f f', f ≤ f' → reasonFrom mk f cs data i = some r → reasonFrom mk f' cs data i = some r) ∧
      (∀ data idx (v : Nat) x f f', f ≤ f' → ((nodeTable mk f cs data idx)[v]?).bind id = some x →
        ((nodeTable mk f' cs data idx)[v]?).bind id = some x)) := by
  apply Causaloid.induct2
  · intro cell cid fn data idx r f f' _ h; simpa [verifyAll] using h
  · intro cid items ih data idx r f f' hle h
    simp only [verifyAll] at h ⊢
    split
    · rename_i he; simpa [he] using h
    · rename_i he; simp only [he] at h; exact ih.1 data 0 r f f' hle h
  · intro gid nodes edges root ih data idx r f f' hle h
    simp only [verifyAll, reasonGraph] at h ⊢
    cases root with
    | none => exact h
    | some r0 =>
      simp only at h ⊢
      split
      · rename_i hd; simpa [hd] using h
      · rename_i hd
        simp only [hd] at h
        split
        · rename_i hn; simpa [hn] using h
        · rename_i hn
          simp only [hn, if_false] at h
          generalize (Option.bind (some r0) fun x => nodes[x]?).bind (fun c => startVerdict mk c data idx) = sv at h ⊢
          cases sv with
          | none => exact h
          | some s =>
            cases s with
            | e => exact h
            | f => exact h
            | t =>
              simp only at h ⊢
              exact loopO_mono _ _ _ _ (fun v x hv => ih.2 data idx v x f f' hle hv) f _ r h f' hle
  · refine ⟨?_, ?_⟩
    · intro data i r f f' _ h; simpa [reasonFrom] using h
    · intro data idx v x f f' _ h; simp [nodeTable] at h
  · intro c cs ihc ihcs
    refine ⟨?_, ?_⟩
    · intro data i r f f' hle h
      simp only [reasonFrom] at h ⊢
      have hd : ∀ x, dispatch mk c data[i]? (verifyAll mk f c data none) = some x →
          dispatch mk c data[i]? (verifyAll mk f' c data none) = some x := by
        intro x hx
        cases c with
        | single => exact hx
        | coll cid items => simp only [dispatch] at hx ⊢; exact ihc data none x f f' hle hx
        | graph gid nodes edges root => simp only [dispatch] at hx ⊢; exact ihc data none x f f' hle hx
      cases hdv : dispatch mk c data[i]? (verifyAll mk f c data none) with
      | none => simp [hdv] at h
      | some s =>
        rw [hd s hdv]
        simp only [hdv] at h
        cases s with
        | e => exact h
        | f => exact h
        | t => exact ihcs.1 data (i + 1) r f f' hle h
    · intro data idx v x f f' hle h
      cases v with
      | zero =>
        simp only [nodeTable, List.getElem?_cons_zero, Option.bind_some, id] at h ⊢
        cases ho : getObs c.id data idx with
        | none => simp [ho] at h
        | some o =>
          simp only [ho] at h ⊢
          cases c with
          | single => exact h
          | coll cid items => simp only [dispatch] at h ⊢; exact ihc data idx x f f' hle h
          | graph gid nodes edges root => simp only [dispatch] at h ⊢; exact ihc data idx x f f' hle h
      | succ v =>
        simp only [nodeTable, List.getElem?_cons_succ] at h ⊢
        exact ihcs.2 data idx v x f f' hle h

end Causal

namespace Causal
open Dfs Spec.Nest

theorem onStack_lt {n : Nat} {edges : List (Nat × Nat)} {ev : Nat → Option V} {r0 v : Nat}
    (hv : OnStack (gOf (outOf n edges) ev) [outOf n edges r0] v) : v < n := by
  obtain ⟨c, hc, hr⟩ := (onStack_single _ _ v).1 hv
  exact reach_lt hr (mem_outOf hc)

theorem mem_desc_iff_onStack {n : Nat} {edges : List (Nat × Nat)} (ev : Nat → Option V) (rank : Nat → Nat)
    (hrank : ∀ a b, b ∈ outOf n edges a → rank b < rank a) (hbound : ∀ a, rank a ≤ n) (r0 v : Nat) :
    v ∈ (outOf n edges r0).flatMap (desc (outOf n edges) n) ↔ OnStack (gOf (outOf n edges) ev) [outOf n edges r0] v := by
  rw [onStack_single, List.mem_flatMap]
  constructor
  · rintro ⟨c, hc, hv⟩; exact ⟨c, hc, desc_sound _ _ _ c v hv⟩
  · rintro ⟨c, hc, hv⟩
    refine ⟨c, hc, desc_complete _ _ rank hrank hv _ ?_⟩
    have := hrank r0 c hc; have := hbound r0; omega

theorem uniform_fuel (mk : Nat → Nat) (nodes : List Causaloid) (data : List Nat) (idx : Idx) :
    ∀ D : List Nat, (∀ v ∈ D, ∃ f x, ((nodeTable mk f nodes data idx)[v]?).bind id = some x) →
      ∃ F, ∀ v ∈ D, ∃ x, ((nodeTable mk F nodes data idx)[v]?).bind id = some x := by
  intro D
  induction D with
  | nil => intro _; exact ⟨0, fun v hv => by simp at hv⟩
  | cons d D ih =>
    intro h
    obtain ⟨F, hF⟩ := ih (fun v hv => h v (List.mem_cons_of_mem _ hv))
    obtain ⟨f, x, hx⟩ := h d (by simp)
    refine ⟨max F f, fun v hv => ?_⟩
    rcases List.mem_cons.1 hv with rfl | hv
    · exact ⟨x, ((verdict_mono mk).2 nodes).2 data idx _ x f _ (Nat.le_max_right _ _) hx⟩
    · obtain ⟨y, hy⟩ := hF v hv
      exact ⟨y, ((verdict_mono mk).2 nodes).2 data idx _ y F _ (Nat.le_max_left _ _) hy⟩

/-- on an acyclic nesting tree in which nothing contained panics, some fuel suffices for an answer -/
theorem verdict_terminates (mk : Nat → Nat) :
    (∀ c : Causaloid, ∀ data idx, Acyclic c → (∀ l ∈ contained mk c data idx, l ≠ none) →
        ∃ f r, verifyAll mk f c data idx = some r) ∧
    (∀ cs : List Causaloid, AcyclicL cs →
      (∀ data i, (∀ l ∈ containedItems mk cs data i, l ≠ none) → ∃ f r, reasonFrom mk f cs data i = some r) ∧
      (∀ data idx (v : Nat), v < cs.length → (∀ l ∈ (containedNodes mk cs data idx).getD v [], l ≠ none) →
        ∃ f x, ((nodeTable mk f cs data idx)[v]?).bind id = some x)) := by
  apply Causaloid.induct2
  · intro cell cid fn data idx _ _; exact ⟨0, .e, by simp [verifyAll]⟩
  · intro cid items ih data idx hac hall
    simp only [Acyclic] at hac
    simp only [contained] at hall
    by_cases he : items.isEmpty
    · exact ⟨0, .e, by simp [verifyAll, he]⟩
    · simp only [he] at hall
      obtain ⟨f, r, hr⟩ := (ih hac).1 data 0 hall
      exact ⟨f, r, by simp only [verifyAll, he]; exact hr⟩
  · intro gid nodes edges root ih data idx hac hall
    simp only [Acyclic] at hac
    obtain ⟨⟨rank, hrank, hbound⟩, hacl⟩ := hac
    simp only [contained] at hall
    cases root with
    | none => exact ⟨0, .e, by simp [verifyAll, reasonGraph]⟩
    | some r0 =>
      simp only at hall
      by_cases hd : data.isEmpty
      · exact ⟨0, .e, by simp [verifyAll, reasonGraph, hd]⟩
      · have hd' : data.isEmpty = false := by simpa using hd
        by_cases hn : nodes.length ≤ r0
        · exact ⟨0, .e, by simp [verifyAll, reasonGraph, hd', hn]⟩
        · simp only [hd', Bool.false_eq_true, hn, if_false] at hall
          have hred : ∀ f, verifyAll mk f (.graph gid nodes edges (some r0)) data idx =
              match (nodes[r0]?).bind (fun c => startVerdict mk c data idx) with
              | none => none
              | some .e => some .e
              | some .f => some .f
              | some .t => loopO (outOf nodes.length edges) (fun v => ((nodeTable mk f nodes data idx)[v]?).bind id)
                  nodes.length f [outOf nodes.length edges r0] := by
            intro f; simp only [verifyAll, reasonGraph, hd', Bool.false_eq_true, hn, if_false, Option.bind_some]; rfl
          cases hsv : (nodes[r0]?).bind (fun c => startVerdict mk c data idx) with
          | none => exact absurd hsv (hall _ (by simp))
          | some s =>
            cases s with
            | e => exact ⟨0, .e, by rw [hred, hsv]⟩
            | f => exact ⟨0, .f, by rw [hred, hsv]⟩
            | t =>
              let out := outOf nodes.length edges
              let D := (out r0).flatMap (desc out nodes.length)
              have hnodes : ∀ v ∈ D, ∃ f x, ((nodeTable mk f nodes data idx)[v]?).bind id = some x := by
                intro v hv
                have hlt : v < nodes.length :=
                  onStack_lt ((mem_desc_iff_onStack (fun _ => none) rank hrank hbound r0 v).1 hv)
                exact (ih hacl).2 data idx v hlt
                  (fun l hl => hall l (List.mem_cons_of_mem _ (List.mem_flatMap.2 ⟨v, hv, hl⟩)))
              obtain ⟨F, hF⟩ := uniform_fuel mk nodes data idx D hnodes
              let evF : Nat → Option V := fun v => ((nodeTable mk F nodes data idx)[v]?).bind id
              have hdef : ∀ v, OnStack (gOf out evF) [out r0] v → evF v ≠ none := by
                intro v hv
                obtain ⟨x, hx⟩ := hF v ((mem_desc_iff_onStack evF rank hrank hbound r0 v).2 hv)
                simp only [evF, hx]; simp
              obtain ⟨fuel2, r, hr⟩ := loop_terminates (gOf out evF) nodes.length rank hrank [out r0]
              have hO := dfs_to_loopO out evF nodes.length fuel2 [out r0] r hr hdef
              refine ⟨max F fuel2, r, ?_⟩
              rw [hred, hsv]
              exact loopO_mono out evF _ nodes.length
                (fun v x hv => ((verdict_mono mk).2 nodes).2 data idx v x F _ (Nat.le_max_left _ _) hv)
                fuel2 _ r hO _ (Nat.le_max_right _ _)
  · intro _
    refine ⟨?_, ?_⟩
    · intro data i _; exact ⟨0, .t, by simp [reasonFrom]⟩
    · intro data idx v hv; simp at hv
  · intro c cs ihc ihcs hac
    simp only [AcyclicL] at hac
    obtain ⟨hc, hcs⟩ := hac
    refine ⟨?_, ?_⟩
    · intro data i hall
      simp only [containedItems] at hall
      have hhead : ∃ f x, dispatch mk c data[i]? (verifyAll mk f c data none) = some x := by
        cases c with
        | single cell cid fn =>
          simp only [memberContained] at hall
          cases hx : data[i]?.bind (fn.apply mk) with
          | none => exact absurd hx (hall _ (by simp))
          | some x => exact ⟨0, x, by simp only [dispatch]; exact hx⟩
        | coll cid items =>
          simp only [memberContained] at hall
          obtain ⟨f, x, hx⟩ := ihc data none hc (fun l hl => hall l (List.mem_append_left _ hl))
          exact ⟨f, x, by simp only [dispatch]; exact hx⟩
        | graph gid nodes edges root =>
          simp only [memberContained] at hall
          obtain ⟨f, x, hx⟩ := ihc data none hc (fun l hl => hall l (List.mem_append_left _ hl))
          exact ⟨f, x, by simp only [dispatch]; exact hx⟩
      obtain ⟨f, x, hx⟩ := hhead
      have hup : ∀ f', f ≤ f' → dispatch mk c data[i]? (verifyAll mk f' c data none) = some x := by
        intro f' hle
        cases c with
        | single => exact hx
        | coll cid items => simp only [dispatch] at hx ⊢; exact (verdict_mono mk).1 _ data none x f f' hle hx
        | graph gid nodes edges root => simp only [dispatch] at hx ⊢; exact (verdict_mono mk).1 _ data none x f f' hle hx
      cases x with
      | e => exact ⟨f, .e, by simp only [reasonFrom, hx]⟩
      | f => exact ⟨f, .f, by simp only [reasonFrom, hx]⟩
      | t =>
        obtain ⟨f2, r, hr⟩ := (ihcs hcs).1 data (i + 1) (fun l hl => hall l (List.mem_append_right _ hl))
        refine ⟨max f f2, r, ?_⟩
        simp only [reasonFrom, hup _ (Nat.le_max_left _ _)]
        exact ((verdict_mono mk).2 cs).1 data (i + 1) r f2 _ (Nat.le_max_right _ _) hr
    · intro data idx v hv hall
      cases v with
      | zero =>
        simp only [containedNodes, List.getD_cons_zero] at hall
        simp only [nodeTable, List.getElem?_cons_zero, Option.bind_some, id]
        cases ho : getObs c.id data idx with
        | none => simp only [ho] at hall; exact absurd rfl (hall none (by simp))
        | some o =>
          simp only [ho] at hall ⊢
          cases c with
          | single cell cid fn =>
            simp only [memberContained, Option.bind_some] at hall
            cases hx : fn.apply mk o with
            | none => exact absurd hx (hall _ (by simp))
            | some x => exact ⟨0, x, by simp only [dispatch, Option.bind_some]; exact hx⟩
          | coll cid items =>
            simp only [memberContained] at hall
            obtain ⟨f, x, hx⟩ := ihc data idx hc hall
            exact ⟨f, x, by simp only [dispatch]; exact hx⟩
          | graph gid nodes edges root =>
            simp only [memberContained] at hall
            obtain ⟨f, x, hx⟩ := ihc data idx hc hall
            exact ⟨f, x, by simp only [dispatch]; exact hx⟩
      | succ v =>
        simp only [containedNodes, List.getD_cons_succ] at hall
        simp only [nodeTable, List.getElem?_cons_succ]
        exact (ihcs hcs).2 data idx v (by simpa using hv) hall

end Causal

/-! ### the evaluation log -/
namespace Causal
open Dfs Spec.Nest

theorem visited_onStack (out : Nat → List Nat) (ev : Nat → Option V) (stop : Nat) :
    ∀ fuel st v, v ∈ visited out ev stop fuel st → OnStack (gOf out ev) st v := by
  intro fuel
  induction fuel with
  | zero => intro st v h; simp [visited] at h
  | succ fuel ih =>
    intro st v h
    match st with
    | [] => simp [visited] at h
    | [] :: rest => simp only [visited] at h; exact (onStack_drop_empty _ rest v).2 (ih rest v h)
    | (c :: cs) :: rest =>
      simp only [visited, List.mem_cons] at h
      rcases h with rfl | h
      · exact (onStack_expand _ v cs rest v).2 (Or.inl rfl)
      · cases hev : ev c with
        | none => simp [hev] at h
        | some x =>
          cases x with
          | e => simp [hev] at h
          | f => simp [hev] at h
          | t =>
            simp only [hev] at h
            by_cases hs : c = stop
            · simp [hs] at h
            · simp only [hs, if_false] at h
              exact (onStack_expand (gOf out ev) c cs rest v).2 (Or.inr (ih _ v h))

theorem loopO_witness_visited (out : Nat → List Nat) (ev : Nat → Option V) (stop : Nat) :
    ∀ fuel st r, loopO out ev stop fuel st = some r → r ≠ .t →
      ∃ v ∈ visited out ev stop fuel st, ev v = some r := by
  intro fuel
  induction fuel with
  | zero => intro st r h; simp [loopO] at h
  | succ fuel ih =>
    intro st r h hr
    match st with
    | [] => simp [loopO] at h; exact absurd h.symm hr
    | [] :: rest => simp only [loopO] at h; simp only [visited]; exact ih rest r h hr
    | (c :: cs) :: rest =>
      simp only [loopO] at h
      simp only [visited]
      cases hev : ev c with
      | none => simp [hev] at h
      | some x =>
        cases x with
        | e => simp [hev] at h; subst h; exact ⟨c, by simp, hev⟩
        | f => simp [hev] at h; subst h; exact ⟨c, by simp, hev⟩
        | t =>
          simp only [hev] at h
          by_cases hs : c = stop
          · simp [hs] at h; exact absurd h.symm hr
          · simp only [hs, if_false] at h ⊢
            obtain ⟨v, hv, he⟩ := ih _ r h hr
            exact ⟨v, List.mem_cons_of_mem _ hv, he⟩

/-- what a log says about the verdict it belongs to -/
structure LogOk (cells : List Nat) (verdict : Option V) (log : List Event) : Prop where
  cells : ∀ e ∈ log, e.1 ∈ cells
  allTrue : verdict = some .t → ∀ e ∈ log, e.2 = .t
  someFalse : verdict = some .f → ∃ e ∈ log, e.2 = .f

theorem LogOk.weaken {cells cells' : List Nat} {v : Option V} {log : List Event} (h : LogOk cells v log)
    (hsub : ∀ c ∈ cells, c ∈ cells') : LogOk cells' v log :=
  ⟨fun e he => hsub _ (h.cells e he), h.allTrue, h.someFalse⟩

theorem singleLog_ok (mk : Nat → Nat) (cell cid : Nat) (fn : Fn) (o : Nat) :
    LogOk [cell] (fn.apply mk o) (singleLog mk (.single cell cid fn) o) := by
  simp only [singleLog]
  cases h : fn.apply mk o with
  | none => exact ⟨by simp, by simp, by simp⟩
  | some x => exact ⟨by simp, by simp, by simp⟩

theorem log_ok (mk : Nat → Nat) (fuel : Nat) :
    (∀ c : Causaloid, ∀ data idx, LogOk (leafCells c) (verifyAll mk fuel c data idx) (logAll mk fuel c data idx)) ∧
    (∀ cs : List Causaloid,
      (∀ data i, LogOk (leafCellsL cs) (reasonFrom mk fuel cs data i) (logFrom mk fuel cs data i)) ∧
      (∀ data idx (v : Nat), LogOk (leafCellsL cs) (((nodeTable mk fuel cs data idx)[v]?).bind id)
        ((nodeLogs mk fuel cs data idx).getD v []))) := by
  apply Causaloid.induct2
  · intro cell cid fn data idx
    simp only [logAll, verifyAll]; exact ⟨by simp, by simp, by simp⟩
  · intro cid items ih data idx
    simp only [logAll, verifyAll, leafCells]
    by_cases he : items.isEmpty
    · have : items = [] := by simpa using he
      subst this
      simp only [List.isEmpty_nil, if_true, logFrom]; exact ⟨by simp, by simp, by simp⟩
    · simp only [he]; exact ih.1 data 0
  · intro gid nodes edges root ih data idx
    simp only [logAll, verifyAll, leafCells, reasonGraph, logGraph]
    cases root with
    | none => exact ⟨by simp, by simp, by simp⟩
    | some r0 =>
      simp only
      by_cases hd : data.isEmpty
      · simp only [hd, if_true]; exact ⟨by simp, by simp, by simp⟩
      · have hd' : data.isEmpty = false := by simpa using hd
        simp only [hd', Bool.false_eq_true, if_false]
        by_cases hn : nodes.length ≤ r0
        · simp only [hn, if_true]; exact ⟨by simp, by simp, by simp⟩
        · simp only [hn, if_false, Option.bind_some]
          have hlt : r0 < nodes.length := by omega
          -- the start node
          have hstart : LogOk (leafCellsL nodes) ((nodes[r0]?).bind (fun c => startVerdict mk c data idx))
              (((nodes[r0]?).map (fun c => startLog mk c data idx)).getD []) := by
            have hmem : ∀ (l : List Causaloid) (k : Nat) (c : Causaloid), l[k]? = some c →
                ∀ x ∈ leafCells c, x ∈ leafCellsL l := by
              intro l
              induction l with
              | nil => intro k c h; simp at h
              | cons a l ihl =>
                intro k c h x hx
                simp only [leafCellsL, List.mem_append]
                cases k with
                | zero => simp at h; subst h; exact Or.inl hx
                | succ k => simp at h; exact Or.inr (ihl k c h x hx)
            cases hc : nodes[r0]? with
            | none => exact ⟨by simp, by simp, by simp⟩
            | some c =>
              simp only [Option.bind_some, Option.map_some, Option.getD_some, startVerdict, startLog]
              cases ho : getObs c.id data idx with
              | none => exact ⟨by simp, by simp, by simp⟩
              | some o =>
                simp only [Option.bind_some]
                cases c with
                | single cell cid fn =>
                  exact (singleLog_ok mk cell cid fn o).weaken (hmem nodes r0 _ hc)
                | coll cid items => simp only [verifySingle, singleLog]; exact ⟨by simp, by simp, by simp⟩
                | graph g2 n2 e2 r2 => simp only [verifySingle, singleLog]; exact ⟨by simp, by simp, by simp⟩
          generalize (nodes[r0]?.bind fun c => startVerdict mk c data idx) = sv at hstart ⊢
          generalize ((nodes[r0]?).map (fun c => startLog mk c data idx)).getD [] = sl at hstart ⊢
          cases sv with
          | none => exact ⟨hstart.cells, by simp, by simp⟩
          | some s =>
            cases s with
            | e => exact ⟨hstart.cells, by simp, by simp⟩
            | f => exact ⟨hstart.cells, by simp, fun _ => hstart.someFalse rfl⟩
            | t =>
              simp only
              have hnode := ih.2 data idx
              refine ⟨?_, ?_, ?_⟩
              · intro e he
                rcases List.mem_append.1 he with he | he
                · exact hstart.cells e he
                · obtain ⟨v, _, hv⟩ := List.mem_flatMap.1 he
                  exact (hnode v).cells e hv
              · intro hr e he
                rcases List.mem_append.1 he with he | he
                · exact hstart.allTrue rfl e he
                · obtain ⟨v, hvis, hv⟩ := List.mem_flatMap.1 he
                  have hstop : ∀ v, OnStack (gOf (outOf nodes.length edges)
                      (fun v => ((nodeTable mk fuel nodes data idx)[v]?).bind id))
                      [outOf nodes.length edges r0] v → v ≠ nodes.length := by
                    intro v hv; have := onStack_lt hv; omega
                  have := loopO_true _ _ _ _ _ hstop hr v (visited_onStack _ _ _ _ _ v hvis)
                  exact (hnode v).allTrue this e hv
              · intro hr
                obtain ⟨v, hvis, hev⟩ := loopO_witness_visited _ _ _ _ _ _ hr (by decide)
                obtain ⟨e, he, hf⟩ := (hnode v).someFalse hev
                exact ⟨e, List.mem_append_right _ (List.mem_flatMap.2 ⟨v, hvis, he⟩), hf⟩
  · refine ⟨?_, ?_⟩
    · intro data i; simp only [logFrom, reasonFrom]; exact ⟨by simp, by simp, by simp⟩
    · intro data idx v; simp only [nodeLogs, nodeTable]; exact ⟨by simp, by simp, by simp⟩
  · intro c cs ihc ihcs
    have hsubL : ∀ x ∈ leafCells c, x ∈ leafCellsL (c :: cs) := by
      intro x hx; simp only [leafCellsL, List.mem_append]; exact Or.inl hx
    have hsubR : ∀ x ∈ leafCellsL cs, x ∈ leafCellsL (c :: cs) := by
      intro x hx; simp only [leafCellsL, List.mem_append]; exact Or.inr hx
    -- one member, as the dispatch sees it
    have hmember : ∀ (obs : Option Nat) (data : List Nat) (idx : Idx),
        LogOk (leafCells c) (dispatch mk c obs (verifyAll mk fuel c data idx))
          (dispatchLog mk c obs (logAll mk fuel c data idx)) := by
      intro obs data idx
      cases c with
      | single cell cid fn =>
        simp only [dispatch, dispatchLog, leafCells]
        cases obs with
        | none => exact ⟨by simp, by simp, by simp⟩
        | some o => simp only [Option.bind_some]; exact singleLog_ok mk cell cid fn o
      | coll cid items => simp only [dispatch, dispatchLog]; exact ihc data idx
      | graph g2 n2 e2 r2 => simp only [dispatch, dispatchLog]; exact ihc data idx
    refine ⟨?_, ?_⟩
    · intro data i
      simp only [logFrom, reasonFrom]
      have hm := hmember data[i]? data none
      have ht := ihcs.1 data (i + 1)
      generalize dispatch mk c data[i]? (verifyAll mk fuel c data none) = dv at hm ⊢
      cases dv with
      | none => simp only [List.append_nil]; exact ⟨fun e he => hsubL _ (hm.cells e he), by simp, by simp⟩
      | some s =>
        cases s with
        | e => simp only [List.append_nil]; exact ⟨fun e he => hsubL _ (hm.cells e he), by simp, by simp⟩
        | f =>
          simp only [List.append_nil]
          exact ⟨fun e he => hsubL _ (hm.cells e he), by simp, fun _ => hm.someFalse rfl⟩
        | t =>
          simp only
          refine ⟨?_, ?_, ?_⟩
          · intro e he
            rcases List.mem_append.1 he with he | he
            · exact hsubL _ (hm.cells e he)
            · exact hsubR _ (ht.cells e he)
          · intro hr e he
            rcases List.mem_append.1 he with he | he
            · exact hm.allTrue rfl e he
            · exact ht.allTrue hr e he
          · intro hr
            obtain ⟨e, he, hf⟩ := ht.someFalse hr
            exact ⟨e, List.mem_append_right _ he, hf⟩
    · intro data idx v
      cases v with
      | zero =>
        simp only [nodeTable, nodeLogs, List.getElem?_cons_zero, Option.bind_some, id, List.getD_cons_zero]
        cases ho : getObs c.id data idx with
        | none => exact ⟨by simp, by simp, by simp⟩
        | some o => exact (hmember (some o) data idx).weaken hsubL
      | succ v =>
        simp only [nodeTable, nodeLogs, List.getElem?_cons_succ, List.getD_cons_succ]
        exact (ihcs.2 data idx v).weaken hsubR

end Causal

/-! ### verdicts depend on the environment of contexts only through the contexts stored in the leaves -/
namespace Causal
open Dfs Spec.Nest

theorem fn_apply_congr (mk mk' : Nat → Nat) (fn : Fn) (h : ∀ k ∈ fnCtxs fn, mk k = mk' k) (o : Nat) :
    fn.apply mk o = fn.apply mk' o := by
  cases fn with
  | plain => rfl
  | inv => rfl
  | ctx c =>
    cases c with
    | none => rfl
    | some k => simp [Fn.apply, h k (by simp [fnCtxs])]

theorem verdict_congr_ctx (mk mk' : Nat → Nat) (fuel : Nat) :
    (∀ c : Causaloid, (∀ k ∈ ctxsOf c, mk k = mk' k) →
      (∀ data idx, verifyAll mk fuel c data idx = verifyAll mk' fuel c data idx) ∧
      (∀ data idx, startVerdict mk c data idx = startVerdict mk' c data idx)) ∧
    (∀ cs : List Causaloid, (∀ k ∈ ctxsOfL cs, mk k = mk' k) →
      (∀ data i, reasonFrom mk fuel cs data i = reasonFrom mk' fuel cs data i) ∧
      (∀ data idx, nodeTable mk fuel cs data idx = nodeTable mk' fuel cs data idx) ∧
      (∀ (r0 : Nat) data idx, (cs[r0]?).bind (fun c => startVerdict mk c data idx) =
        (cs[r0]?).bind (fun c => startVerdict mk' c data idx))) := by
  apply Causaloid.induct2
  · intro cell cid fn h
    refine ⟨fun _ _ => rfl, fun data idx => ?_⟩
    simp only [startVerdict]
    cases getObs _ data idx with
    | none => rfl
    | some o => exact fn_apply_congr mk mk' fn h o
  · intro cid items ih h
    simp only [ctxsOf] at h
    refine ⟨fun data idx => ?_, fun data idx => ?_⟩
    · simp only [verifyAll, (ih h).1]
    · simp only [startVerdict]; cases getObs _ data idx <;> rfl
  · intro gid nodes edges root ih h
    simp only [ctxsOf] at h
    refine ⟨fun data idx => ?_, fun data idx => ?_⟩
    · simp only [verifyAll, (ih h).2.1]
      cases root with
      | none => rfl
      | some r0 => simp only [Option.bind_some, (ih h).2.2 r0]
    · simp only [startVerdict]; cases getObs _ data idx <;> rfl
  · intro _; exact ⟨fun _ _ => rfl, fun _ _ => rfl, fun r0 _ _ => by simp⟩
  · intro c cs ihc ihcs h
    have hc : ∀ k ∈ ctxsOf c, mk k = mk' k := fun k hk => h k (by simp [ctxsOfL, hk])
    have hcs : ∀ k ∈ ctxsOfL cs, mk k = mk' k := fun k hk => h k (by simp [ctxsOfL, hk])
    have hdisp : ∀ obs data idx, dispatch mk c obs (verifyAll mk fuel c data idx) =
        dispatch mk' c obs (verifyAll mk' fuel c data idx) := by
      intro obs data idx
      cases c with
      | single cell cid fn =>
        simp only [dispatch]
        cases obs with
        | none => rfl
        | some o => exact fn_apply_congr mk mk' fn hc o
      | coll cid items => simp only [dispatch]; exact (ihc hc).1 data idx
      | graph g2 n2 e2 r2 => simp only [dispatch]; exact (ihc hc).1 data idx
    refine ⟨fun data i => ?_, fun data idx => ?_, fun r0 data idx => ?_⟩
    · simp only [reasonFrom, hdisp, (ihcs hcs).1]
    · simp only [nodeTable, hdisp, (ihcs hcs).2.1]
    · cases r0 with
      | zero => simp only [List.getElem?_cons_zero, Option.bind_some]; exact (ihc hc).2 data idx
      | succ r0 => simp only [List.getElem?_cons_succ]; exact (ihcs hcs).2.2 r0 data idx

end Causal

namespace Causal
/-- a checkable sufficient condition for the rank hypothesis of `Spec.Nest.Acyclic` -/
theorem rank_of_edges (n : Nat) (edges : List (Nat × Nat)) (rk : Nat → Nat)
    (h : ∀ e ∈ edges, rk e.2 < rk e.1) : ∀ a b, b ∈ outOf n edges a → rk b < rk a := by
  intro a b hb
  simp only [outOf, List.mem_filter, List.mem_range, List.contains_iff_mem] at hb
  exact h (a, b) hb.2
end Causal
