import DcVerif.Model.RingMulti
import DcVerif.Lemmas.Ring
/-!
Invariants of the multi-producer sequencer that hold for **every** interleaving of any number of writer threads, the
draining thread and the consumers: the claims tile `[1, high_watermark]`, and the cursor never decreases.
(The other two clauses of C14 fail for this sequencer — `Props/C14.lean` has the witnesses.)
-/
namespace RingMulti
open Ring

/-- writer-local facts: the batch being claimed has at least one element; the CAS loop on the cursor only ever proposes a
value at least as large as the one it expects to replace -/
structure WInv (w : Writer) : Prop where
  todoPos : ∀ b, b ∈ w.todo → 1 ≤ b
  cntPos  : (w.pc = .readHw ∨ w.pc = .capLoad ∨ w.pc = .capCheck ∨ w.pc = .casHw) → 1 ≤ w.count
  goodGe  : (w.pc = .scan ∨ w.pc = .relCheck) → w.lwSeen ≤ w.good
  goodGt  : (w.pc = .unsetBit) → w.lwSeen < w.good
  curLe   : (w.pc = .casCur ∨ w.pc = .reloadCur) → w.cur ≤ w.good

structure MInv (x : MSt) : Prop where
  writers : ∀ i, i < x.P → WInv (x.wr i)
  tiles   : Tiles 1 x.allClaims (x.hw + 1)

theorem updW_same (f : Nat → Writer) (i : Nat) (w : Writer) : updW f i w i = w := by simp [updW]
theorem updW_other (f : Nat → Writer) (i i' : Nat) (w : Writer) (h : i' ≠ i) : updW f i w i' = f i' := by simp [updW, h]

/-- the step of writer `i` only replaces writer `i`'s record -/
theorem stepWriter_others (x : MSt) (i i' : Nat) (h : i' ≠ i) : (stepWriter x i).wr i' = x.wr i' := by
  unfold stepWriter
  cases hpc : (x.wr i).pc <;> simp only [hpc] <;> (repeat' split) <;> simp [updW, h]

theorem stepWriter_P (x : MSt) (i : Nat) : (stepWriter x i).P = x.P := by
  unfold stepWriter
  cases hpc : (x.wr i).pc <;> simp only [hpc] <;> (repeat' split) <;> rfl

theorem winv_stepWriter (x : MSt) (i : Nat) (h : WInv (x.wr i)) : WInv ((stepWriter x i).wr i) := by
  obtain ⟨h1, h2, h3, h4, h5⟩ := h
  unfold stepWriter
  cases hpc : (x.wr i).pc <;> simp only [hpc]
  case start =>
    split
    · simp only [updW_same]; constructor <;> grind
    · rename_i b rest heq
      have hb := h1 b (by simp [heq])
      have hr : ∀ c, c ∈ rest → 1 ≤ c := fun c hc => h1 c (by simp [heq, hc])
      simp only [updW_same]; constructor <;> grind
  all_goals ((repeat' split) <;> (try simp only [updW_same]) <;> constructor <;> grind)

theorem tiles_stepWriter (x : MSt) (i : Nat) (hw : WInv (x.wr i)) (ht : Tiles 1 x.allClaims (x.hw + 1)) :
    Tiles 1 (stepWriter x i).allClaims ((stepWriter x i).hw + 1) := by
  unfold stepWriter
  cases hpc : (x.wr i).pc <;> simp only [hpc] <;> (repeat' split) <;> try exact ht
  -- successful CAS on the high watermark
  rename_i heq
  have hc := hw.cntPos (by simp [hpc])
  have := Tiles.snoc ht ((x.wr i).hwSeen + (x.wr i).count) (x.wr i).count hc (by omega)
  rw [heq] at this
  exact this

theorem minv_stepM (x : MSt) (t : MTid) (h : MInv x) : MInv (stepM x t) := by
  cases t with
  | writer i =>
    show MInv (if i < x.P then stepWriter x i else x)
    split
    · rename_i hi
      refine ⟨?_, tiles_stepWriter x i (h.writers i hi) h.tiles⟩
      intro i' hi'
      rw [stepWriter_P] at hi'
      by_cases he : i' = i
      · subst he; exact winv_stepWriter x i' (h.writers i' hi')
      · rw [stepWriter_others x i i' he]; exact h.writers i' hi'
    · exact h
  | drainer =>
    show MInv (stepDrainer x)
    unfold stepDrainer
    cases hpc : x.dr.pc <;> simp only [hpc] <;> (repeat' split) <;> exact ⟨h.writers, h.tiles⟩
  | cons k j =>
    show MInv (if k < x.s.K ∧ j < x.s.h k then { x with s := stepC x.s k j } else x)
    split
    · exact ⟨h.writers, h.tiles⟩
    · exact h

theorem minv_run (x : MSt) (sched : List MTid) (h : MInv x) : MInv (runM x sched) := by
  unfold runM
  induction sched generalizing x with
  | nil => exact h
  | cons t ts ih => exact ih _ (minv_stepM x t h)

theorem minv_init (n K : Nat) (hh : Nat → Nat) (blocking : Bool) (batches : List (List Nat))
    (hb : ∀ l, l ∈ batches → ∀ b, b ∈ l → 1 ≤ b) : MInv (mkM n K hh blocking batches) := by
  refine ⟨?_, Tiles.nil 1⟩
  intro i hi
  have hi' : i < batches.length := hi
  constructor <;> simp only [mkM]
  · intro b hb'
    simp only [Array.getD_eq_getD_getElem?, List.getElem?_toArray, List.getElem?_eq_getElem hi', Option.getD_some] at hb'
    exact hb _ (List.getElem_mem hi') b hb'
  all_goals simp

/-- the cursor never decreases, whichever thread steps -/
theorem cursor_mono_stepM (x : MSt) (t : MTid) (h : MInv x) : x.s.cursor ≤ (stepM x t).s.cursor := by
  cases t with
  | writer i =>
    show x.s.cursor ≤ (if i < x.P then stepWriter x i else x).s.cursor
    split
    · rename_i hi
      have hw := h.writers i hi
      unfold stepWriter
      cases hpc : (x.wr i).pc <;> simp only [hpc] <;> (repeat' split) <;> try exact Nat.le_refl _
      rename_i heq
      have := hw.curLe (by simp [hpc])
      show x.s.cursor ≤ (x.wr i).good
      omega
    · exact Nat.le_refl _
  | drainer =>
    show x.s.cursor ≤ (stepDrainer x).s.cursor
    unfold stepDrainer
    cases hpc : x.dr.pc <;> simp only [hpc] <;> (repeat' split) <;> exact Nat.le_refl _
  | cons k j =>
    show x.s.cursor ≤ (if k < x.s.K ∧ j < x.s.h k then { x with s := stepC x.s k j } else x).s.cursor
    split <;> exact Nat.le_refl _

end RingMulti

/-! ## consumers under the multi-producer sequencer

The consumer-local invariants of `Lemmas/Ring.lean` mention the producer only through the cursor, and only as a lower bound
that must not shrink. Every step of a writer or of the draining thread leaves the handler records alone and never decreases
the cursor, so `Inv` holds along every schedule of the multi-producer pipeline as well. -/
namespace RingMulti
open Ring

theorem stepWriter_s (x : MSt) (i : Nat) :
    (stepWriter x i).s.cons = x.s.cons ∧ (stepWriter x i).s.K = x.s.K ∧ (stepWriter x i).s.h = x.s.h ∧
    (stepWriter x i).s.n = x.s.n := by
  unfold stepWriter
  cases hpc : (x.wr i).pc <;> simp only [hpc] <;> (repeat' split) <;> simp

theorem stepDrainer_s (x : MSt) :
    (stepDrainer x).s.cons = x.s.cons ∧ (stepDrainer x).s.K = x.s.K ∧ (stepDrainer x).s.h = x.s.h ∧
    (stepDrainer x).s.n = x.s.n ∧ x.s.cursor ≤ (stepDrainer x).s.cursor := by
  unfold stepDrainer
  cases hpc : x.dr.pc <;> simp only [hpc] <;> (repeat' split) <;> simp

/-- the consumer invariant only needs the cursor not to shrink -/
theorem inv_of_same_cons (s s' : St) (hI : Inv s) (hc : s'.cons = s.cons) (hK : s'.K = s.K) (hh : s'.h = s.h)
    (hcur : s.cursor ≤ s'.cursor) : Inv s' := by
  refine ⟨by intro k hk; rw [hh]; rw [hK] at hk; exact hI.1 k hk, ?_⟩
  intro k j hk hj
  rw [hK] at hk; rw [hh] at hj; rw [hc]
  apply cinv_stable s _ k _ (hI.2 k j hk hj)
  · simp [ndeps, hh]
  · intro d; unfold dep; rw [hc]; split
    · exact hcur
    · exact Nat.le_refl _

def MGood (x : MSt) : Prop := MInv x ∧ Inv x.s ∧ 0 < x.s.K

theorem mgood_stepM (x : MSt) (t : MTid) (h : MGood x) : MGood (stepM x t) := by
  obtain ⟨hM, hI, hK⟩ := h
  refine ⟨minv_stepM x t hM, ?_, ?_⟩
  · have hmono := cursor_mono_stepM x t hM
    cases t with
    | writer i =>
      show Inv (if i < x.P then stepWriter x i else x).s
      split
      · rename_i hlt
        obtain ⟨hc, hK', hh, _⟩ := stepWriter_s x i
        have : x.s.cursor ≤ (stepWriter x i).s.cursor := by
          have := hmono; simp only [stepM, hlt, if_true] at this; exact this
        exact inv_of_same_cons x.s _ hI hc hK' hh this
      · exact hI
    | drainer =>
      obtain ⟨hc, hK', hh, _, hcur⟩ := stepDrainer_s x
      exact inv_of_same_cons x.s _ hI hc hK' hh hcur
    | cons k j =>
      show Inv (if k < x.s.K ∧ j < x.s.h k then { x with s := stepC x.s k j } else x).s
      split
      · rename_i hkj; exact inv_stepC x.s k j hkj.1 hkj.2 hI
      · exact hI
  · cases t with
    | writer i =>
      show 0 < (if i < x.P then stepWriter x i else x).s.K
      split
      · rw [(stepWriter_s x i).2.1]; exact hK
      · exact hK
    | drainer => show 0 < (stepDrainer x).s.K; rw [(stepDrainer_s x).2.1]; exact hK
    | cons k j =>
      show 0 < (if k < x.s.K ∧ j < x.s.h k then { x with s := stepC x.s k j } else x).s.K
      split <;> exact hK

theorem mgood_run (x : MSt) (sched : List MTid) (h : MGood x) : MGood (runM x sched) := by
  unfold runM
  induction sched generalizing x with
  | nil => exact h
  | cons t ts ih => exact ih _ (mgood_stepM x t h)

theorem mgood_init (n K : Nat) (hh : Nat → Nat) (blocking : Bool) (batches : List (List Nat))
    (hK : 0 < K) (hpos : ∀ k, k < K → 0 < hh k) (hb : ∀ l, l ∈ batches → ∀ b, b ∈ l → 1 ≤ b) :
    MGood (mkM n K hh blocking batches) := by
  refine ⟨minv_init n K hh blocking batches hb, ⟨hpos, ?_⟩, hK⟩
  intro k j hk hj
  constructor <;> simp [mkM, dep]

end RingMulti

namespace RingMulti
open Ring

/-- a state reachable in a well-formed multi-producer pipeline: any ring size, at least one stage and one handler per stage,
either wait strategy, any number of writer threads with batches of at least one event, **any schedule** -/
def MReachableWF (x : MSt) : Prop :=
  ∃ (n K : Nat) (h : Nat → Nat) (blocking : Bool) (batches : List (List Nat)) (sched : List MTid),
    0 < K ∧ (∀ k, k < K → 0 < h k) ∧ (∀ l, l ∈ batches → ∀ b, b ∈ l → 1 ≤ b) ∧
    x = runM (mkM n K h blocking batches) sched

theorem mreachableWF_good {x : MSt} (hr : MReachableWF x) : MGood x := by
  obtain ⟨n, K, h, bl, bs, sched, hK, hh, hb, rfl⟩ := hr
  exact mgood_run _ sched (mgood_init n K h bl bs hK hh hb)

end RingMulti
