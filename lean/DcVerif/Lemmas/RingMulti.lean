import DcVerif.Model.RingMulti
import DcVerif.Lemmas.Ring
/-!
Invariants of the multi-producer sequencer that hold for **every** interleaving of any number of writer threads, the
draining thread and the consumers: the claims tile `[1, high_watermark]`, and the cursor never decreases.
(The other two clauses of C14 fail for this sequencer — `Props/C14.lean` has the witnesses.)
-/
namespace RingMulti
open Ring

/-- writer-local facts: the batch being claimed has at least one element; the CAS loop on the cursor only ever proposes a
value at least as large as the one it expects to replace -/
structure WInv (w : Writer) : Prop where
  todoPos : ∀ b, b ∈ w.todo → 1 ≤ b
  cntPos  : (w.pc = .readHw ∨ w.pc = .capLoad ∨ w.pc = .capCheck ∨ w.pc = .casHw) → 1 ≤ w.count
  goodGe  : (w.pc = .scan ∨ w.pc = .relCheck) → w.lwSeen ≤ w.good
  goodGt  : (w.pc = .unsetBit) → w.lwSeen < w.good
  curLe   : (w.pc = .casCur ∨ w.pc = .reloadCur) → w.cur ≤ w.good

structure MInv (x : MSt) : Prop where
  writers : ∀ i, i < x.P → WInv (x.wr i)
  tiles   : Tiles 1 x.allClaims (x.hw + 1)

theorem updW_same (f : Nat → Writer) (i : Nat) (w : Writer) : updW f i w i = w := by simp [updW]
theorem updW_other (f : Nat → Writer) (i i' : Nat) (w : Writer) (h : i' ≠ i) : updW f i w i' = f i' := by simp [updW, h]

/-- the step of writer `i` only replaces writer `i`'s record -/
theorem stepWriter_others (x : MSt) (i i' : Nat) (h : i' ≠ i) : (stepWriter x i).wr i' = x.wr i' := by
  unfold stepWriter
  cases hpc : (x.wr i).pc <;> simp only [hpc] <;> (repeat' split) <;> simp [updW, h]

theorem stepWriter_P (x : MSt) (i : Nat) : (stepWriter x i).P = x.P := by
  unfold stepWriter
  cases hpc : (x.wr i).pc <;> simp only [hpc] <;> (repeat' split) <;> rfl

theorem winv_stepWriter (x : MSt) (i : Nat) (h : WInv (x.wr i)) : WInv ((stepWriter x i).wr i) := by
  obtain ⟨h1, h2, h3, h4, h5⟩ := h
  unfold stepWriter
  cases hpc : (x.wr i).pc <;> simp only [hpc]
  case start =>
    split
    · simp only [updW_same]; constructor <;> grind
    · rename_i b rest heq
      have hb := h1 b (by simp [heq])
      have hr : ∀ c, c ∈ rest → 1 ≤ c := fun c hc => h1 c (by simp [heq, hc])
      simp only [updW_same]; constructor <;> grind
  all_goals ((repeat' split) <;> (try simp only [updW_same]) <;> constructor <;> grind)

theorem tiles_stepWriter (x : MSt) (i : Nat) (hw : WInv (x.wr i)) (ht : Tiles 1 x.allClaims (x.hw + 1)) :
    Tiles 1 (stepWriter x i).allClaims ((stepWriter x i).hw + 1) := by
  unfold stepWriter
  cases hpc : (x.wr i).pc <;> simp only [hpc] <;> (repeat' split) <;> try exact ht
  -- successful CAS on the high watermark
  rename_i heq
  have hc := hw.cntPos (by simp [hpc])
  have := Tiles.snoc ht ((x.wr i).hwSeen + (x.wr i).count) (x.wr i).count hc (by omega)
  rw [heq] at this
  exact this

theorem minv_stepM (x : MSt) (t : MTid) (h : MInv x) : MInv (stepM x t) := by
  cases t with
  | writer i =>
    show MInv (if i < x.P then stepWriter x i else x)
    split
    · rename_i hi
      refine ⟨?_, tiles_stepWriter x i (h.writers i hi) h.tiles⟩
      intro i' hi'
      rw [stepWriter_P] at hi'
      by_cases he : i' = i
      · subst he; exact winv_stepWriter x i' (h.writers i' hi')
      · rw [stepWriter_others x i i' he]; exact h.writers i' hi'
    · exact h
  | drainer =>
    show MInv (stepDrainer x)
    unfold stepDrainer
    cases hpc : x.dr.pc <;> simp only [hpc] <;> (repeat' split) <;> exact ⟨h.writers, h.tiles⟩
  | cons k j =>
    show MInv (if k < x.s.K ∧ j < x.s.h k then { x with s := stepC x.s k j } else x)
    split
    · exact ⟨h.writers, h.tiles⟩
    · exact h

theorem minv_run (x : MSt) (sched : List MTid) (h : MInv x) : MInv (runM x sched) := by
  unfold runM
  induction sched generalizing x with
  | nil => exact h
  | cons t ts ih => exact ih _ (minv_stepM x t h)

theorem minv_init (n K : Nat) (hh : Nat → Nat) (blocking : Bool) (batches : List (List Nat))
    (hb : ∀ l, l ∈ batches → ∀ b, b ∈ l → 1 ≤ b) : MInv (mkM n K hh blocking batches) := by
  refine ⟨?_, Tiles.nil 1⟩
  intro i hi
  have hi' : i < batches.length := hi
  constructor <;> simp only [mkM]
  · intro b hb'
    simp only [Array.getD_eq_getD_getElem?, List.getElem?_toArray, List.getElem?_eq_getElem hi', Option.getD_some] at hb'
    exact hb _ (List.getElem_mem hi') b hb'
  all_goals simp

/-- the cursor never decreases, whichever thread steps -/
theorem cursor_mono_stepM (x : MSt) (t : MTid) (h : MInv x) : x.s.cursor ≤ (stepM x t).s.cursor := by
  cases t with
  | writer i =>
    show x.s.cursor ≤ (if i < x.P then stepWriter x i else x).s.cursor
    split
    · rename_i hi
      have hw := h.writers i hi
      unfold stepWriter
      cases hpc : (x.wr i).pc <;> simp only [hpc] <;> (repeat' split) <;> try exact Nat.le_refl _
      rename_i heq
      have := hw.curLe (by simp [hpc])
      show x.s.cursor ≤ (x.wr i).good
      omega
    · exact Nat.le_refl _
  | drainer =>
    show x.s.cursor ≤ (stepDrainer x).s.cursor
    unfold stepDrainer
    cases hpc : x.dr.pc <;> simp only [hpc] <;> (repeat' split) <;> exact Nat.le_refl _
  | cons k j =>
    show x.s.cursor ≤ (if k < x.s.K ∧ j < x.s.h k then { x with s := stepC x.s k j } else x).s.cursor
    split <;> exact Nat.le_refl _

end RingMulti
