/-!
# Fair termination of a multi-threaded transition system (generic, reusable)

`step : S → T → S` moves the scheduled thread; a schedule is an infinite sequence `σ : Nat → T`; `run step σ s i`
is the state after the first `i` scheduled steps.

Two rules, both for a global measure `μ : S → Nat` that never increases, a predicate `ready s t` and a
per-thread `rank t : S → Nat`:

* `fair_termination` (weak fairness — every thread of `P` is scheduled infinitely often): if (A1) in every
  non-terminal state some thread of `P` is ready, (A2) a ready thread's own step decreases `μ`, or decreases its
  rank and keeps it ready, (A3) any other thread's step decreases `μ` or leaves that rank and readiness alone, then
  every weakly fair schedule reaches a terminal state.
* `fair_termination_sf` (weak fairness + strong fairness): steps may be *disabled* (`enabled s t` false — the
  scheduled step is then a stutter as far as `t`'s rank and readiness are concerned). (A2) is only required of
  enabled steps. A ready thread is enabled whenever the lock is `free`; when it is not free some thread of `P`
  `hold`s it, and the holder releases it after at most `hrank` own (always enabled) steps. Under a schedule
  that is weakly fair and *strongly* fair (a thread that is enabled infinitely often takes an enabled step infinitely
  often) every run reaches a terminal state.

The first rule is the second with `enabled = free = True`.
-/
namespace Fair

variable {S T : Type}

/-- the state after `i` steps of schedule `σ` from `s` -/
def run (step : S → T → S) (σ : Nat → T) (s : S) : Nat → S
  | 0 => s
  | i + 1 => step (run step σ s i) (σ i)

/-- weak fairness: every thread of `P` is scheduled infinitely often -/
def WeakFair (P : T → Prop) (σ : Nat → T) : Prop := ∀ t, P t → ∀ n, ∃ m, n ≤ m ∧ σ m = t

/-- strong fairness along the run from `s`: a thread of `P` that is enabled infinitely often takes a step
while enabled infinitely often -/
def StrongFair (step : S → T → S) (enabled : S → T → Prop) (P : T → Prop) (σ : Nat → T) (s : S) : Prop :=
  ∀ t, P t → (∀ n, ∃ m, n ≤ m ∧ enabled (run step σ s m) t) →
    ∀ n, ∃ m, n ≤ m ∧ σ m = t ∧ enabled (run step σ s m) t

section
variable (step : S → T → S) (P : T → Prop) (I : S → Prop) (terminal : S → Prop)
  (enabled : S → T → Prop) (ready : S → T → Prop) (μ : S → Nat) (rank : T → S → Nat)
  (free : S → Prop) (hold : S → T → Prop) (hrank : S → Nat)

theorem run_inv (hI : ∀ s t, I s → I (step s t)) (σ : Nat → T) (s : S) (h0 : I s) : ∀ i, I (run step σ s i) := by
  intro i
  induction i with
  | zero => exact h0
  | succ i ih => exact hI _ _ ih

theorem run_mono (hI : ∀ s t, I s → I (step s t)) (hmono : ∀ s t, I s → μ (step s t) ≤ μ s)
    (σ : Nat → T) (s : S) (h0 : I s) (i : Nat) : ∀ d, μ (run step σ s (i + d)) ≤ μ (run step σ s i) := by
  intro d
  induction d with
  | zero => exact Nat.le_refl _
  | succ d ih =>
    have := hmono _ (σ (i + d)) (run_inv step I hI σ s h0 (i + d))
    show μ (step (run step σ s (i + d)) (σ (i + d))) ≤ _
    omega

/-- the holder of the lock releases it (or `μ` drops): from every state of the run a state with a free lock or a
smaller measure is reached -/
theorem eventually_free
    (hI : ∀ s t, I s → I (step s t))
    (hmono : ∀ s t, I s → μ (step s t) ≤ μ s)
    (hhold : ∀ s, I s → ¬ free s → ∃ u, P u ∧ hold s u)
    (hhown : ∀ s u, I s → hold s u →
        μ (step s u) < μ s ∨ free (step s u) ∨ (hrank (step s u) < hrank s ∧ hold (step s u) u))
    (hhoth : ∀ s u v, I s → hold s u → v ≠ u →
        μ (step s v) < μ s ∨ free (step s v) ∨ (hrank (step s v) ≤ hrank s ∧ hold (step s v) u))
    (σ : Nat → T) (s : S) (h0 : I s) (hwf : WeakFair P σ) :
    ∀ i, ∃ m, i ≤ m ∧ (free (run step σ s m) ∨ μ (run step σ s m) < μ (run step σ s i)) := by
  have hinv := run_inv step I hI σ s h0
  have hmon := run_mono step I μ hI hmono σ s h0
  intro i
  by_cases hf : free (run step σ s i)
  · exact ⟨i, Nat.le_refl _, Or.inl hf⟩
  obtain ⟨u, hPu, hu⟩ := hhold _ (hinv i) hf
  -- induction on the holder's rank, inner induction on the distance to the holder's next turn
  have key : ∀ r i', i ≤ i' → μ (run step σ s i') = μ (run step σ s i) → hold (run step σ s i') u →
      hrank (run step σ s i') ≤ r →
      ∃ m, i ≤ m ∧ (free (run step σ s m) ∨ μ (run step σ s m) < μ (run step σ s i)) := by
    intro r
    induction r with
    | zero =>
      intro i' hii' hμ hh hr
      obtain ⟨m, hm, hσ⟩ := hwf u hPu i'
      have wait : ∀ d i', i ≤ i' → μ (run step σ s i') = μ (run step σ s i) → hold (run step σ s i') u →
          hrank (run step σ s i') ≤ 0 → i' + d = m →
          ∃ m, i ≤ m ∧ (free (run step σ s m) ∨ μ (run step σ s m) < μ (run step σ s i)) := by
        intro d
        induction d with
        | zero =>
          intro i' hii' hμ hh hr hd
          have hd' : i' = m := by omega
          subst hd'
          rcases hhown _ u (hinv i') hh with h | h | ⟨h, _⟩
          · exact ⟨i' + 1, by omega, Or.inr (by show μ (step _ (σ i')) < _; rw [hσ]; omega)⟩
          · exact ⟨i' + 1, by omega, Or.inl (by show free (step _ (σ i')); rw [hσ]; exact h)⟩
          · omega
        | succ d ihd =>
          intro i' hii' hμ hh hr hd
          by_cases hv : σ i' = u
          · rcases hhown _ u (hinv i') hh with h | h | ⟨h, _⟩
            · exact ⟨i' + 1, by omega, Or.inr (by show μ (step _ (σ i')) < _; rw [hv]; omega)⟩
            · exact ⟨i' + 1, by omega, Or.inl (by show free (step _ (σ i')); rw [hv]; exact h)⟩
            · omega
          · rcases hhoth _ u (σ i') (hinv i') hh hv with h | h | ⟨h1, h2⟩
            · exact ⟨i' + 1, by omega, Or.inr (by show μ (step _ (σ i')) < _; omega)⟩
            · exact ⟨i' + 1, by omega, Or.inl h⟩
            · have hle := hmono _ (σ i') (hinv i')
              by_cases hdrop : μ (step (run step σ s i') (σ i')) < μ (run step σ s i')
              · exact ⟨i' + 1, by omega, Or.inr (by show μ (step _ (σ i')) < _; omega)⟩
              · exact ihd (i' + 1) (by omega) (by show μ (step _ (σ i')) = _; omega) h2
                  (by show hrank (step _ (σ i')) ≤ 0; omega) (by omega)
      exact wait (m - i') i' hii' hμ hh hr (by omega)
    | succ r ihr =>
      intro i' hii' hμ hh hr
      obtain ⟨m, hm, hσ⟩ := hwf u hPu i'
      have wait : ∀ d i', i ≤ i' → μ (run step σ s i') = μ (run step σ s i) → hold (run step σ s i') u →
          hrank (run step σ s i') ≤ r + 1 → i' + d = m →
          ∃ m, i ≤ m ∧ (free (run step σ s m) ∨ μ (run step σ s m) < μ (run step σ s i)) := by
        intro d
        induction d with
        | zero =>
          intro i' hii' hμ hh hr hd
          have hd' : i' = m := by omega
          subst hd'
          rcases hhown _ u (hinv i') hh with h | h | ⟨h1, h2⟩
          · exact ⟨i' + 1, by omega, Or.inr (by show μ (step _ (σ i')) < _; rw [hσ]; omega)⟩
          · exact ⟨i' + 1, by omega, Or.inl (by show free (step _ (σ i')); rw [hσ]; exact h)⟩
          · have hle := hmono _ u (hinv i')
            by_cases hdrop : μ (step (run step σ s i') u) < μ (run step σ s i')
            · exact ⟨i' + 1, by omega, Or.inr (by show μ (step _ (σ i')) < _; rw [hσ]; omega)⟩
            · exact ihr (i' + 1) (by omega) (by show μ (step _ (σ i')) = _; rw [hσ]; omega)
                (by show hold (step _ (σ i')) u; rw [hσ]; exact h2)
                (by show hrank (step _ (σ i')) ≤ r; rw [hσ]; omega)
        | succ d ihd =>
          intro i' hii' hμ hh hr hd
          by_cases hv : σ i' = u
          · rcases hhown _ u (hinv i') hh with h | h | ⟨h1, h2⟩
            · exact ⟨i' + 1, by omega, Or.inr (by show μ (step _ (σ i')) < _; rw [hv]; omega)⟩
            · exact ⟨i' + 1, by omega, Or.inl (by show free (step _ (σ i')); rw [hv]; exact h)⟩
            · have hle := hmono _ u (hinv i')
              by_cases hdrop : μ (step (run step σ s i') u) < μ (run step σ s i')
              · exact ⟨i' + 1, by omega, Or.inr (by show μ (step _ (σ i')) < _; rw [hv]; omega)⟩
              · exact ihr (i' + 1) (by omega) (by show μ (step _ (σ i')) = _; rw [hv]; omega)
                  (by show hold (step _ (σ i')) u; rw [hv]; exact h2)
                  (by show hrank (step _ (σ i')) ≤ r; rw [hv]; omega)
          · rcases hhoth _ u (σ i') (hinv i') hh hv with h | h | ⟨h1, h2⟩
            · exact ⟨i' + 1, by omega, Or.inr (by show μ (step _ (σ i')) < _; omega)⟩
            · exact ⟨i' + 1, by omega, Or.inl h⟩
            · have hle := hmono _ (σ i') (hinv i')
              by_cases hdrop : μ (step (run step σ s i') (σ i')) < μ (run step σ s i')
              · exact ⟨i' + 1, by omega, Or.inr (by show μ (step _ (σ i')) < _; omega)⟩
              · exact ihd (i' + 1) (by omega) (by show μ (step _ (σ i')) = _; omega) h2
                  (by show hrank (step _ (σ i')) ≤ r + 1; omega) (by omega)
      exact wait (m - i') i' hii' hμ hh hr (by omega)
  exact key (hrank (run step σ s i)) i (Nat.le_refl _) rfl hu (Nat.le_refl _)

/-- a ready thread eventually takes an *enabled* step while still ready with a rank that has not grown — or `μ`
drops before that -/
theorem eventually_taken
    (hI : ∀ s t, I s → I (step s t))
    (hmono : ∀ s t, I s → μ (step s t) ≤ μ s)
    (hoth : ∀ s t u, I s → ready s t → (u ≠ t ∨ ¬ enabled s t) →
        μ (step s u) < μ s ∨ (rank t (step s u) ≤ rank t s ∧ ready (step s u) t))
    (hen : ∀ s t, I s → ready s t → free s → enabled s t)
    (hhold : ∀ s, I s → ¬ free s → ∃ u, P u ∧ hold s u)
    (hhown : ∀ s u, I s → hold s u →
        μ (step s u) < μ s ∨ free (step s u) ∨ (hrank (step s u) < hrank s ∧ hold (step s u) u))
    (hhoth : ∀ s u v, I s → hold s u → v ≠ u →
        μ (step s v) < μ s ∨ free (step s v) ∨ (hrank (step s v) ≤ hrank s ∧ hold (step s v) u))
    (σ : Nat → T) (s : S) (h0 : I s) (hwf : WeakFair P σ) (hsf : StrongFair step enabled P σ s)
    (t : T) (hPt : P t) (i : Nat) (hr : ready (run step σ s i) t) :
    ∃ m, i ≤ m ∧ (μ (run step σ s m) < μ (run step σ s i) ∨
      (σ m = t ∧ enabled (run step σ s m) t ∧ ready (run step σ s m) t ∧
       rank t (run step σ s m) ≤ rank t (run step σ s i) ∧ μ (run step σ s m) = μ (run step σ s i))) := by
  have hinv := run_inv step I hI σ s h0
  apply Classical.byContradiction
  intro hno
  have hno' : ∀ m, i ≤ m → ¬ (μ (run step σ s m) < μ (run step σ s i) ∨
      (σ m = t ∧ enabled (run step σ s m) t ∧ ready (run step σ s m) t ∧
       rank t (run step σ s m) ≤ rank t (run step σ s i) ∧ μ (run step σ s m) = μ (run step σ s i))) :=
    fun m hm h => hno ⟨m, hm, h⟩
  -- nothing ever happens to `t`
  have stay : ∀ d, μ (run step σ s (i + d)) = μ (run step σ s i) ∧ ready (run step σ s (i + d)) t ∧
      rank t (run step σ s (i + d)) ≤ rank t (run step σ s i) := by
    intro d
    induction d with
    | zero => exact ⟨rfl, hr, Nat.le_refl _⟩
    | succ d ih =>
      obtain ⟨h1, h2, h3⟩ := ih
      have hcase : σ (i + d) ≠ t ∨ ¬ enabled (run step σ s (i + d)) t := by
        by_cases hu : σ (i + d) = t
        · right
          intro he
          exact hno' (i + d) (by omega) (Or.inr ⟨hu, he, h2, h3, h1⟩)
        · exact Or.inl hu
      have hnd := hno' (i + (d + 1)) (by omega)
      have e : run step σ s (i + (d + 1)) = step (run step σ s (i + d)) (σ (i + d)) := rfl
      rw [e] at hnd ⊢
      have hle := hmono _ (σ (i + d)) (hinv (i + d))
      rcases hoth _ t (σ (i + d)) (hinv (i + d)) h2 hcase with h | ⟨h4, h5⟩
      · exact absurd (Or.inl (by omega)) hnd
      · refine ⟨?_, h5, by omega⟩
        apply Classical.byContradiction
        intro hne
        exact hnd (Or.inl (by omega))
  -- hence `t` is enabled infinitely often
  have hinf : ∀ n, ∃ m, n ≤ m ∧ enabled (run step σ s m) t := by
    intro n
    obtain ⟨m, hm, h⟩ := eventually_free step P I μ free hold hrank hI hmono hhold hhown hhoth σ s h0 hwf (i + n)
    have e : m = i + (m - i) := by omega
    obtain ⟨h1, h2, h3⟩ := stay (m - i)
    rw [← e] at h1 h2 h3
    rcases h with h | h
    · exact ⟨m, by omega, hen _ t (hinv m) h2 h⟩
    · have := (stay n).1
      omega
  obtain ⟨m, hm, hσ, he⟩ := hsf t hPt hinf i
  have e : m = i + (m - i) := by omega
  obtain ⟨h1, h2, h3⟩ := stay (m - i)
  rw [← e] at h1 h2 h3
  exact hno' m hm (Or.inr ⟨hσ, he, h2, h3, h1⟩)

/-- **Fair termination under weak + strong fairness.** -/
theorem fair_termination_sf
    (hI : ∀ s t, I s → I (step s t))
    (hmono : ∀ s t, I s → μ (step s t) ≤ μ s)
    (hex : ∀ s, I s → ¬ terminal s → ∃ t, P t ∧ ready s t)
    (hown : ∀ s t, I s → ready s t → enabled s t →
        μ (step s t) < μ s ∨ (rank t (step s t) < rank t s ∧ ready (step s t) t))
    (hoth : ∀ s t u, I s → ready s t → (u ≠ t ∨ ¬ enabled s t) →
        μ (step s u) < μ s ∨ (rank t (step s u) ≤ rank t s ∧ ready (step s u) t))
    (hen : ∀ s t, I s → ready s t → free s → enabled s t)
    (hhold : ∀ s, I s → ¬ free s → ∃ u, P u ∧ hold s u)
    (hhown : ∀ s u, I s → hold s u →
        μ (step s u) < μ s ∨ free (step s u) ∨ (hrank (step s u) < hrank s ∧ hold (step s u) u))
    (hhoth : ∀ s u v, I s → hold s u → v ≠ u →
        μ (step s v) < μ s ∨ free (step s v) ∨ (hrank (step s v) ≤ hrank s ∧ hold (step s v) u))
    (σ : Nat → T) (s : S) (h0 : I s) (hwf : WeakFair P σ) (hsf : StrongFair step enabled P σ s) :
    ∃ n, terminal (run step σ s n) := by
  have hinv := run_inv step I hI σ s h0
  have hmon := run_mono step I μ hI hmono σ s h0
  -- a ready thread of rank ≤ r brings `μ` down
  have drop : ∀ (t : T), P t → ∀ r i, ready (run step σ s i) t → rank t (run step σ s i) ≤ r →
      ∃ m, i ≤ m ∧ μ (run step σ s m) < μ (run step σ s i) := by
    intro t hPt r
    induction r with
    | zero =>
      intro i hr hrk
      obtain ⟨m, hm, h⟩ := eventually_taken step P I enabled ready μ rank free hold hrank hI hmono hoth hen hhold
        hhown hhoth σ s h0 hwf hsf t hPt i hr
      rcases h with h | ⟨hσ, he, hrd, hrk', hμ⟩
      · exact ⟨m, hm, h⟩
      · rcases hown _ t (hinv m) hrd he with h | ⟨h, _⟩
        · exact ⟨m + 1, by omega, by show μ (step _ (σ m)) < _; rw [hσ]; omega⟩
        · omega
    | succ r ih =>
      intro i hr hrk
      obtain ⟨m, hm, h⟩ := eventually_taken step P I enabled ready μ rank free hold hrank hI hmono hoth hen hhold
        hhown hhoth σ s h0 hwf hsf t hPt i hr
      rcases h with h | ⟨hσ, he, hrd, hrk', hμ⟩
      · exact ⟨m, hm, h⟩
      · rcases hown _ t (hinv m) hrd he with h | ⟨h1, h2⟩
        · exact ⟨m + 1, by omega, by show μ (step _ (σ m)) < _; rw [hσ]; omega⟩
        · have hle := hmono _ t (hinv m)
          obtain ⟨m', hm', h'⟩ := ih (m + 1) (by show ready (step _ (σ m)) t; rw [hσ]; exact h2)
            (by show rank t (step _ (σ m)) ≤ r; rw [hσ]; omega)
          have : μ (run step σ s (m + 1)) ≤ μ (run step σ s m) := by
            show μ (step _ (σ m)) ≤ _; rw [hσ]; exact hle
          exact ⟨m', by omega, by omega⟩
  have main : ∀ M i, μ (run step σ s i) ≤ M → ∃ n, terminal (run step σ s n) := by
    intro M
    induction M with
    | zero =>
      intro i hM
      apply Classical.byContradiction
      intro hno
      have hnt : ¬ terminal (run step σ s i) := fun h => hno ⟨i, h⟩
      obtain ⟨t, hPt, hr⟩ := hex _ (hinv i) hnt
      obtain ⟨m, _, h⟩ := drop t hPt _ i hr (Nat.le_refl _)
      omega
    | succ M ih =>
      intro i hM
      by_cases hnt : terminal (run step σ s i)
      · exact ⟨i, hnt⟩
      obtain ⟨t, hPt, hr⟩ := hex _ (hinv i) hnt
      obtain ⟨m, _, h⟩ := drop t hPt _ i hr (Nat.le_refl _)
      exact ih m (by omega)
  exact main (μ s) 0 (Nat.le_refl _)

/-- **Fair termination under weak fairness** (every step is enabled): `μ` never increases; in a non-terminal state
some thread of `P` is ready; a ready thread's own step either decreases `μ` or decreases its rank and keeps it ready;
any other thread's step either decreases `μ` or leaves that rank and readiness alone. Then every schedule in which
every thread of `P` occurs infinitely often reaches a terminal state. -/
theorem fair_termination
    (hI : ∀ s t, I s → I (step s t))
    (hmono : ∀ s t, I s → μ (step s t) ≤ μ s)
    (hex : ∀ s, I s → ¬ terminal s → ∃ t, P t ∧ ready s t)
    (hown : ∀ s t, I s → ready s t →
        μ (step s t) < μ s ∨ (rank t (step s t) < rank t s ∧ ready (step s t) t))
    (hoth : ∀ s t u, I s → u ≠ t → ready s t →
        μ (step s u) < μ s ∨ (rank t (step s u) ≤ rank t s ∧ ready (step s u) t))
    (σ : Nat → T) (s : S) (h0 : I s) (hwf : WeakFair P σ) :
    ∃ n, terminal (run step σ s n) := by
  apply fair_termination_sf step P I terminal (fun _ _ => True) ready μ rank (fun _ => True) (fun _ _ => False)
    (fun _ => 0) hI hmono hex
  · intro s t hs hr _; exact hown s t hs hr
  · intro s t u hs hr hu
    rcases hu with hu | hu
    · exact hoth s t u hs hu hr
    · exact absurd trivial hu
  · intros; trivial
  · intro s _ hf; exact absurd trivial hf
  · intro s u _ hh; exact absurd hh id
  · intro s u v _ hh; exact absurd hh id
  · exact h0
  · exact hwf
  · intro t hPt _ n
    obtain ⟨m, hm, hσ⟩ := hwf t hPt n
    exact ⟨m, hm, hσ, trivial⟩

end
end Fair
